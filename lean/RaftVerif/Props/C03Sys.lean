/-
C03 (state-machine safety) on the cluster-level transition system `Raft.Commit` (Sys/Commit.lean), on top of
C02Sys (leader completeness, committed entries are never replaced) — fixed voter set, fixed stable configuration,
no snapshots / compaction (the `_partial` restrictions, see the header of Sys/Commit.lean), and runs in which no
step fails an assertion (`ReachableNP`; the model records a failed assertion in `Node.panicked` and continues on
a totalised path whose results are meaningless — in the implementation the process dies).

Structure of the file:
* node level: `FsmOK` (the state machine holds exactly the update payloads of the log entries `1 … fsm.index`, in
  order; `fsm.index ≤ commitIndex`; the applied index does not go back) and `QOK` (every log-type item of the
  leader queue is the log entry at its index — `leader.applyCommitted` feeds the state machine from the queue, not
  from the log);
  - `fsmApply_ok`: the FSM goroutine's work (`fsmApplyLogTo`, then the queue items) keeps `FsmOK`;
  - `fl_block` and the other leader handlers: the leader side (`storeEntry` queues an item and appends the same
    entry; `applyCommittedL` pops a prefix of the queue), `fl_leaderInit`;
  - `fn_onAppendEntries`: the follower side — a request that does not conflict with the log at or below the commit
    index (guaranteed in the system: `C02Sys.reqok`) only removes entries above what was applied;
  - `handle_g`, `settle_g`, `fsm_step`: every operation of `Node.step`, and the role transitions after it;
* cluster level: `FsmInv` in every state of `ReachableNP`, and the obligation theorems
  `state_machine_safety_sys_partial`, `applied_only_grows_sys_partial`, `leader_queue_is_log_sys_partial`;
* examples and an evaluated scenario.
-/
import RaftVerif.Props.C02Sys
import RaftVerif.Props.C12
import RaftVerif.Props.C15

namespace Raft
namespace C03Sys
open Node LogRel CommitRel Commit C02Sys
open Election (setNode setNode_same setNode_other)


/-! ### the state machine's content, node level -/

/-- the update payloads of a list of entries, in order -/
def ups (es : List Entry) : List String := (es.filter (·.typ == etUpdate)).map (·.data)

theorem ups_append (a b : List Entry) : ups (a ++ b) = ups a ++ ups b := by
  unfold ups; rw [List.filter_append, List.map_append]

theorem ups_single (e : Entry) : ups [e] = if e.typ = etUpdate then [e.data] else [] := by
  unfold ups
  by_cases h : e.typ = etUpdate
  · rw [if_pos h]; simp [h]
  · rw [if_neg h]; simp [h]

/-- **the state machine holds exactly the update payloads of the log entries `1 … fsm.index`, in order**, and
never ran ahead of the commit index; `m` is a lower bound of the applied index (the applied index at the
beginning of the step: the state machine never goes back) -/
structure FsmOK (m : Nat) (s : Node) : Prop where
  le : s.fsm.index ≤ s.commitIndex
  len : s.fsm.index ≤ s.log.entries.length
  applied : s.fsm.applied = ups (s.log.entries.take s.fsm.index)
  mono : m ≤ s.fsm.index

theorem FsmOK.weaken {m m' : Nat} {s : Node} (h : FsmOK m s) (hm : m' ≤ m) : FsmOK m' s :=
  ⟨h.le, h.len, h.applied, Nat.le_trans hm h.mono⟩

/-- every log-type item of the leader queue is the log entry at its index -/
def QOK (s : Node) : Prop :=
  ∀ q ∈ s.ldr.queue, isLogEntryTyp q.typ = true → s.log.entries[q.index - 1]? = some q.toEntry

/-- the log starts at index 1 and the cached last index is right -/
def LW (s : Node) : Prop := s.log.prev = 0 ∧ s.lastLogIndex = s.log.entries.length

/-- invariant of the handlers (followers, candidates): unless the step has failed -/
def FN (m : Nat) (s : Node) : Prop := s.panicked = none → FsmOK m s ∧ LW s

/-- invariant of the leader handlers: unless the step has failed -/
def FL (m : Nat) (s : Node) : Prop := s.panicked = none → FsmOK m s ∧ LW s ∧ QOK s

theorem FL.fn {m : Nat} {s : Node} (h : FL m s) : FN m s := fun hp => ⟨(h hp).1, (h hp).2.1⟩

/-- the fields `FN` looks at -/
def nobs (s : Node) : NLog × Nat × Nat × Fsm := (s.log, s.lastLogIndex, s.commitIndex, s.fsm)

theorem fn_congr {s s' : Node} (h : FN m s) (e : nobs s' = nobs s) (hp : s'.panicked = none → s.panicked = none) :
    FN m s' := by
  intro hp'
  obtain ⟨⟨a1, a2, a3, a4⟩, b1, b2⟩ := h (hp hp')
  unfold nobs at e
  simp only [Prod.mk.injEq] at e
  obtain ⟨e1, e2, e3, e4⟩ := e
  exact ⟨⟨by rw [e4, e3]; exact a1, by rw [e4, e1]; exact a2, by rw [e4, e1]; exact a3, by rw [e4]; exact a4⟩,
    by rw [e1]; exact b1, by rw [e2, e1]; exact b2⟩

theorem fl_congr {s s' : Node} (h : FL m s) (e : nobs s' = nobs s) (eq : s'.ldr.queue = s.ldr.queue)
    (hp : s'.panicked = none → s.panicked = none) : FL m s' := by
  intro hp'
  obtain ⟨b1, b2⟩ := fn_congr h.fn e hp hp'
  refine ⟨b1, b2, ?_⟩
  have hq := (h (hp hp')).2.2
  unfold nobs at e
  simp only [Prod.mk.injEq] at e
  intro q hq' ht
  rw [e.1]
  exact hq q (by rw [← eq]; exact hq') ht

/-! primitives -/

theorem fl_panic (s : Node) (site : String) : FL m (s.panic site) :=
  fun hp => absurd hp (panic_panicked_ne s site)

theorem fn_panic (s : Node) (site : String) : FN m (s.panic site) :=
  fun hp => absurd hp (panic_panicked_ne s site)

theorem fl_assert (s : Node) (b : Bool) (site : String) (hs : FL m s) : FL m (s.assert b site) := by
  unfold Node.assert; split
  · exact hs
  · exact fl_panic s site

theorem fl_reply (s : Node) (t : Nat) (r : String) (hs : FL m s) : FL m (s.reply t r) := by
  obtain ⟨a1, a2, _, a4, a5, a6, a7, _⟩ := reply_fields s t r
  exact fl_congr hs (by unfold nobs; rw [a1, a2, a4, a5]) (by rw [a7]) (by rw [a6]; exact id)

theorem fl_point (s : Node) (n : String) (hs : FL m s) : FL m (s.point n) := fl_congr hs rfl rfl id
theorem fl_popOrder (s : Node) (hs : FL m s) : FL m s.popOrder := fl_congr hs rfl rfl id
theorem fl_setRole (s : Node) (r : Role) (hs : FL m s) : FL m (s.setRole r) := fl_congr hs rfl rfl id
theorem fl_setLeader (s : Node) (l : Nat) (hs : FL m s) : FL m (s.setLeader l) := fl_congr hs rfl rfl id

/-- the leader record changes, its queue does not -/
theorem fl_ldr (s : Node) (l : Leader) (hs : FL m s) (hq : l.queue = s.ldr.queue) : FL m (s.withLdr l) :=
  fl_congr hs rfl hq id

/-- the leader record is replaced by one with an empty queue -/
theorem fl_ldr_nil (s : Node) (l : Leader) (hs : FN m s) (hq : l.queue = []) : FL m (s.withLdr l) := by
  intro hp
  obtain ⟨a, b⟩ := hs hp
  refine ⟨⟨a.le, a.len, a.applied, a.mono⟩, b, ?_⟩
  intro q hq'
  have : q ∈ l.queue := hq'
  rw [hq] at this; cases this

theorem setTerm_nobs (s : Node) (t : Nat) :
    nobs (s.setTerm t) = nobs s ∧ (s.setTerm t).ldr = s.ldr ∧ ((s.setTerm t).panicked = none → s.panicked = none) := by
  unfold Node.setTerm Node.storeTermVote Node.panic Node.point nobs
  repeat' split
  all_goals first
    | exact ⟨rfl, rfl, id⟩
    | (refine ⟨rfl, rfl, fun h => ?_⟩; simp at h)

theorem fl_setTerm (s : Node) (t : Nat) (hs : FL m s) : FL m (s.setTerm t) := by
  obtain ⟨a, b, c⟩ := setTerm_nobs s t
  exact fl_congr hs a (by rw [b]) c

theorem fl_commitLog (s : Node) (n : Nat) (hs : FL m s) : FL m (s.commitLog n) := by
  unfold Node.commitLog
  apply fl_point
  obtain ⟨p1, p2⟩ := commitN_parts s.log n
  intro hp
  obtain ⟨a, b, c⟩ := hs hp
  exact ⟨⟨a.le, by show _ ≤ (s.log.commitN n).entries.length; rw [p2]; exact a.len,
      by show _ = ups ((s.log.commitN n).entries.take _); rw [p2]; exact a.applied, a.mono⟩,
    ⟨by show (s.log.commitN n).prev = 0; rw [p1]; exact b.1,
      by show s.lastLogIndex = (s.log.commitN n).entries.length; rw [p2]; exact b.2⟩,
    fun q hq ht => by
      show (s.log.commitN n).entries[q.index - 1]? = _
      rw [p2]; exact c q hq ht⟩

theorem changeConfigR_ldr (s : Node) (c : Config) : (s.changeConfigR c).ldr = s.ldr := by
  unfold Node.changeConfigR; dsimp only; split <;> rfl

theorem fl_changeConfigR (s : Node) (c : Config) (hs : FL m s) : FL m (s.changeConfigR c) := by
  obtain ⟨a1, a2, _, a4, a5, a6, _⟩ := changeConfigR_fields s c
  exact fl_congr hs (by unfold nobs; rw [a1, a2, a4, a5]) (by rw [changeConfigR_ldr]) (by rw [a6]; exact id)

theorem setCommitIndexR_nobs (s : Node) (i : Nat) :
    (s.setCommitIndexR i).1.log = s.log ∧ (s.setCommitIndexR i).1.lastLogIndex = s.lastLogIndex ∧
    (s.setCommitIndexR i).1.fsm = s.fsm ∧ (s.setCommitIndexR i).1.ldr = s.ldr := by
  unfold Node.setCommitIndexR Node.afterConfigCommit Node.closeIfRemoved Node.stepDownIfNotVoter
    Node.commitConfig Node.doClose Node.withCommitIndex Node.setLeader Node.setRole
  dsimp only
  repeat' split
  all_goals exact ⟨rfl, rfl, rfl, rfl⟩

/-- the commit index moves forward -/
theorem fl_setCommitIndexR (s : Node) (i : Nat) (hs : FL m s) (hi : i > s.commitIndex) :
    FL m (s.setCommitIndexR i).1 := by
  obtain ⟨a1, a2, a3, a4⟩ := setCommitIndexR_nobs s i
  intro hp
  rw [C15.setCommitIndexR_panicked] at hp
  obtain ⟨a, b, c⟩ := hs hp
  refine ⟨⟨?_, ?_, ?_, ?_⟩, ⟨?_, ?_⟩, ?_⟩
  · rw [a3, C19.setCommitIndexR_commitIndex]; have := a.le; omega
  · rw [a3, a1]; exact a.len
  · rw [a3, a1]; exact a.applied
  · rw [a3]; exact a.mono
  · rw [a1]; exact b.1
  · rw [a2, a1]; exact b.2
  · intro q hq ht
    rw [a1]
    exact c q (by rw [← a4]; exact hq) ht

theorem fn_setCommitIndexR (s : Node) (i : Nat) (hs : FN m s) (hi : i > s.commitIndex) :
    FN m (s.setCommitIndexR i).1 := by
  obtain ⟨a1, a2, a3, _⟩ := setCommitIndexR_nobs s i
  intro hp
  rw [C15.setCommitIndexR_panicked] at hp
  obtain ⟨a, b⟩ := hs hp
  refine ⟨⟨?_, ?_, ?_, ?_⟩, ⟨?_, ?_⟩⟩
  · rw [a3, C19.setCommitIndexR_commitIndex]; have := a.le; omega
  · rw [a3, a1]; exact a.len
  · rw [a3, a1]; exact a.applied
  · rw [a3]; exact a.mono
  · rw [a1]; exact b.1
  · rw [a2, a1]; exact b.2

theorem pushLog_aux (s x : Node) (q : QItem) (hs : FL m s) (hx : nobs x = nobs s)
    (hq : x.ldr.queue = s.ldr.queue ++ [q]) (hpx : x.panicked = s.panicked) :
    FL m (x.appendEntry q.toEntry) := by
  unfold Node.appendEntry
  extract_lets a roll
  intro hp
  have hpa : a.panicked = none := hp
  have hidx : (q.toEntry.index == x.lastLogIndex + 1) = true := Order.assert_true hpa
  have ea : a = x := by unfold a Node.assert; rw [if_pos hidx]
  have hps : s.panicked = none := by rw [ea, hpx] at hpa; exact hpa
  obtain ⟨f, w, c⟩ := hs hps
  obtain ⟨p1, p2⟩ := append_parts a.log q.toEntry roll
  unfold nobs at hx
  simp only [Prod.mk.injEq] at hx
  obtain ⟨x1, x2, x3, x4⟩ := hx
  have hal : a.log = s.log := by rw [ea]; exact x1
  have hqi : q.index = s.log.entries.length + 1 := by
    have : q.toEntry.index = x.lastLogIndex + 1 := by simpa using hidx
    rw [x2, w.2] at this; exact this
  refine ⟨⟨?_, ?_, ?_, ?_⟩, ⟨?_, ?_⟩, ?_⟩
  · show a.fsm.index ≤ a.commitIndex
    rw [ea, x3, x4]; exact f.le
  · show a.fsm.index ≤ (a.log.append q.toEntry roll).entries.length
    rw [p2, hal, List.length_append, ea, x4]
    have := f.len
    omega
  · show a.fsm.applied = ups ((a.log.append q.toEntry roll).entries.take a.fsm.index)
    rw [p2, hal, ea, x4]
    rw [List.take_append_of_le_length f.len]; exact f.applied
  · show m ≤ a.fsm.index
    rw [ea, x4]; exact f.mono
  · show (a.log.append q.toEntry roll).prev = 0
    rw [p1, hal]; exact w.1
  · show q.toEntry.index = (a.log.append q.toEntry roll).entries.length
    rw [p2, hal, List.length_append]
    show q.index = _
    rw [hqi]; rfl
  · intro y hy hyt
    show (a.log.append q.toEntry roll).entries[y.index - 1]? = some y.toEntry
    rw [p2, hal]
    have hy' : y ∈ s.ldr.queue ++ [q] := by
      have : y ∈ a.ldr.queue := hy
      rw [ea, hq] at this; exact this
    rcases List.mem_append.mp hy' with hy' | hy'
    · have := c y hy' hyt
      have hlt : y.index - 1 < s.log.entries.length := by
        obtain ⟨hl, _⟩ := List.getElem?_eq_some_iff.mp this
        exact hl
      rw [List.getElem?_append_left hlt]; exact this
    · rw [List.mem_singleton.mp hy', hqi, Nat.add_sub_cancel, List.getElem?_append_right (Nat.le_refl _),
        Nat.sub_self]
      rfl

/-- a log-type item is queued and appended to the log -/
theorem fl_pushLog (s : Node) (q : QItem) (hs : FL m s) :
    FL m ((s.withLdr { s.ldr with queue := s.ldr.queue ++ [q] }).appendEntry q.toEntry) :=
  pushLog_aux s _ q hs rfl rfl rfl

/-- an item that is not a log entry (a read, a barrier) is queued -/
theorem fl_pushOther (s : Node) (q : QItem) (hs : FL m s) (ht : isLogEntryTyp q.typ = false) :
    FL m (s.withLdr { s.ldr with queue := s.ldr.queue ++ [q] }) := by
  intro hp
  obtain ⟨f, w, c⟩ := hs hp
  refine ⟨⟨f.le, f.len, f.applied, f.mono⟩, w, fun x hx hxt => ?_⟩
  have hx' : x ∈ s.ldr.queue ++ [q] := hx
  rcases List.mem_append.mp hx' with hx' | hx'
  · exact c x hx' hxt
  · rw [List.mem_singleton.mp hx', ht] at hxt; cases hxt

/-! ### the FSM goroutine's work -/

/-- relative to the entries `L`: the content invariant while `fsmApply` runs (no claim about the commit index) -/
def PW (m : Nat) (L : List Entry) (s : Node) : Prop :=
  s.panicked = none → s.log.entries = L ∧ s.log.prev = 0 ∧ s.fsm.index ≤ L.length ∧
    s.fsm.applied = ups (L.take s.fsm.index) ∧ m ≤ s.fsm.index

theorem take_split {α : Type} (l : List α) (a b : Nat) (h : a ≤ b) :
    l.take b = l.take a ++ (l.drop a).take (b - a) := by
  have e : b = a + (b - a) := by omega
  rw [e, List.take_add, ← e]

theorem pw_applyLogTo (L : List Entry) (s : Node) (upto : Nat) (hs : PW m L s) : PW m L (s.fsmApplyLogTo upto) := by
  unfold Node.fsmApplyLogTo
  split
  · exact hs
  · rename_i hlt
    split
    · exact fun hp => absurd hp (panic_panicked_ne _ _)
    · extract_lets es us lt cfg s1
      split
      · exact fun hp => absurd hp (panic_panicked_ne _ _)
      · rename_i hlen
        intro hp
        have hp1 : s1.panicked = none := hp
        have e1 : s1 = s := by
          unfold s1 at hp1 ⊢
          split at hp1
          · exact absurd hp1 (panic_panicked_ne _ _)
          · rename_i hc; rw [if_neg hc]
        rw [e1] at hp1
        obtain ⟨a1, a2, a3, a4, a5⟩ := hs hp1
        have hes : es = (L.drop s.fsm.index).take (upto - s.fsm.index) := by
          unfold es; rw [a1, a2, Nat.sub_zero]
        have hl : es.length = upto - s.fsm.index := Classical.byContradiction (fun hne => hlen hne)
        have hup : upto ≤ L.length := by
          rw [hes, List.length_take, List.length_drop] at hl
          omega
        refine ⟨?_, ?_, hup, ?_, by show m ≤ upto; omega⟩
        · show s1.log.entries = L
          rw [e1]; exact a1
        · show s1.log.prev = 0
          rw [e1]; exact a2
        · show s1.fsm.applied ++ us = ups (L.take upto)
          rw [e1, a4, take_split L s.fsm.index upto (by omega), ups_append, ← hes]
          rfl

theorem itemStep_panicked (s : Node) (q : QItem) :
    (C12.itemStep s q).panicked = (s.assert (q.index == s.fsm.index + 1) "fsm.assertNext").panicked := by
  unfold C12.itemStep
  simp only [reply_eq, Node.withFsm]
  cases q.toEntry.config? <;> dsimp only <;> (repeat' split) <;> rfl

theorem itemStep_log (s : Node) (q : QItem) : (C12.itemStep s q).log = s.log := by
  unfold C12.itemStep
  simp only [reply_eq, Node.withFsm, Node.assert, panic_eq]
  cases q.toEntry.config? <;> dsimp only <;> (repeat' split) <;> rfl

theorem itemStep_index (s : Node) (q : QItem) :
    (C12.itemStep s q).fsm.index = if isLogEntryTyp q.typ then q.index else s.fsm.index := by
  unfold C12.itemStep
  simp only [reply_eq, Node.withFsm, Node.assert, panic_eq]
  cases q.toEntry.config? <;> dsimp only <;> (repeat' split) <;> rfl

theorem itemStep_applied (s : Node) (q : QItem) :
    (C12.itemStep s q).fsm.applied = if q.typ = etUpdate then s.fsm.applied ++ [q.data] else s.fsm.applied := by
  unfold C12.itemStep
  simp only [reply_eq, Node.withFsm, Node.assert, panic_eq]
  cases q.toEntry.config? <;> dsimp only <;> (repeat' split) <;> rfl

theorem pw_itemStep (L : List Entry) (s : Node) (q : QItem) (hs : PW m L s)
    (hq : isLogEntryTyp q.typ = true → L[q.index - 1]? = some q.toEntry) : PW m L (C12.itemStep s q) := by
  intro hp
  rw [itemStep_panicked] at hp
  have hidx : (q.index == s.fsm.index + 1) = true := Order.assert_true hp
  have hps : s.panicked = none := by
    unfold Node.assert at hp; rw [if_pos hidx] at hp; exact hp
  have hqi : q.index = s.fsm.index + 1 := by simpa using hidx
  obtain ⟨a1, a2, a3, a4, a5⟩ := hs hps
  rw [itemStep_log, itemStep_index, itemStep_applied]
  refine ⟨a1, a2, ?_, ?_, ?_⟩
  · split
    · rename_i ht
      obtain ⟨hl, _⟩ := List.getElem?_eq_some_iff.mp (hq ht)
      omega
    · exact a3
  · by_cases ht : isLogEntryTyp q.typ = true
    · rw [if_pos ht]
      have hget := hq ht
      rw [hqi, Nat.add_sub_cancel] at hget
      rw [hqi, List.take_add_one, hget, ups_append, ← a4]
      show _ = s.fsm.applied ++ ups [q.toEntry]
      rw [ups_single]
      show _ = s.fsm.applied ++ if q.typ = etUpdate then [q.data] else []
      split
      · rfl
      · rw [List.append_nil]
    · rw [if_neg ht]
      have hne : q.typ ≠ etUpdate := by
        intro he; apply ht; rw [he]; decide
      rw [if_neg hne]; exact a4
  · split
    · omega
    · exact a5

theorem pw_items (L : List Entry) (items : List QItem) : ∀ (s : Node), PW m L s →
    (∀ q ∈ items, isLogEntryTyp q.typ = true → L[q.index - 1]? = some q.toEntry) →
    PW m L (s.fsmApplyItems items) := by
  induction items with
  | nil => intro s hs _; exact hs
  | cons q qs ih =>
    intro s hs hq
    rw [C12.fsmApplyItems_cons]
    exact ih _ (pw_itemStep L s q hs (hq q (List.mem_cons_self ..)))
      (fun x hx => hq x (List.mem_cons_of_mem _ hx))

/-- **`fsmApply`**: the log entries up to the first item, then the items, each of which is the log entry at its
index; unless an assertion failed the state machine ends at the commit index with the payloads of the log -/
theorem fsmApply_ok (s : Node) (items : List QItem) (hs : FN m s)
    (hq : s.panicked = none →
      ∀ q ∈ items, isLogEntryTyp q.typ = true → s.log.entries[q.index - 1]? = some q.toEntry) :
    FN m (s.fsmApply items) := by
  intro hp
  have hlog : (s.fsmApply items).log = s.log := fsmFrame_log.fsmApply_eq s items
  have hlast : (s.fsmApply items).lastLogIndex = s.lastLogIndex := fsmFrame_lastLogIndex.fsmApply_eq s items
  have hci : (s.fsmApply items).commitIndex = s.commitIndex := fsmFrame_commitIndex.fsmApply_eq s items
  have key : (s.fsmApply items).panicked = none → s.panicked = none ∧
      (s.fsmApply items).fsm.index = s.commitIndex ∧ PW m s.log.entries (s.fsmApply items) := by
    unfold Node.fsmApply
    split
    · exact fun hp => absurd hp (panic_panicked_ne _ _)
    · split
      · exact fun hp => absurd hp (panic_panicked_ne _ _)
      · extract_lets front s1 s2
        intro hp2
        have hc : (s2.fsm.index == s2.commitIndex) = true := Order.assert_true hp2
        have e2 : s2.assert (s2.fsm.index == s2.commitIndex) "fsm.assertCommit" = s2 := by
          unfold Node.assert; rw [if_pos hc]
        rw [e2] at hp2 ⊢
        have hc2 : s2.commitIndex = s.commitIndex := by
          unfold s2 s1
          rw [fsmFrame_commitIndex.fsmApplyItems_eq, fsmFrame_commitIndex.fsmApplyLogTo_eq]
        have hst : s.panicked = none := by
          apply Classical.byContradiction
          intro hne
          have h1 : s1.panicked ≠ none := C15.panicked_closed.fsmApplyLogTo_inv s _ hne
          exact (C15.panicked_closed.fsmApplyItems_inv s1 items h1) hp2
        have P0 : PW m s.log.entries s := fun hp0 =>
          ⟨rfl, (hs hp0).2.1, (hs hp0).1.len, (hs hp0).1.applied, (hs hp0).1.mono⟩
        have P2 : PW m s.log.entries s2 := pw_items _ items s1 (pw_applyLogTo _ s _ P0) (hq hst)
        exact ⟨hst, by rw [← hc2]; simpa using hc, P2⟩
  obtain ⟨hps, hidx, P⟩ := key hp
  obtain ⟨a1, a2, a3, a4, a5⟩ := P hp
  obtain ⟨f, w⟩ := hs hps
  refine ⟨⟨by rw [hidx, hci]; exact Nat.le_refl _, by rw [hlog]; exact a3, by rw [hlog]; exact a4, a5⟩,
    by rw [hlog]; exact w.1, by rw [hlast, hlog]; exact w.2⟩


theorem fn_applyCommitted (s : Node) (hs : FN m s) : FN m s.applyCommitted := by
  unfold Node.applyCommitted
  exact fsmApply_ok s [] hs (fun _ q hq => by cases hq)

theorem splitQueue_mem (ci : Nat) : ∀ (l : List QItem) (q : QItem),
    (q ∈ (splitQueue ci l).1 ∨ q ∈ (splitQueue ci l).2) → q ∈ l := by
  intro l
  induction l with
  | nil => intro q h; unfold splitQueue at h; rcases h with h | h <;> cases h
  | cons x xs ih =>
    intro q h
    unfold splitQueue at h
    split at h
    · rcases h with h | h
      · rcases List.mem_cons.mp h with h | h
        · rw [h]; exact List.mem_cons_self ..
        · exact List.mem_cons_of_mem _ (ih q (Or.inl h))
      · exact List.mem_cons_of_mem _ (ih q (Or.inr h))
    · rcases h with h | h
      · cases h
      · exact h

/-- **`leader.applyCommitted`**: the committed prefix of the queue is handed to the state machine -/
theorem fl_applyL (s : Node) (hs : FL m s) : FL m s.applyCommittedL := by
  unfold Node.applyCommittedL
  extract_lets sp l0 s1
  have h1 : FL m s1 := by
    intro hp
    obtain ⟨f, w, c⟩ := hs hp
    exact ⟨⟨f.le, f.len, f.applied, f.mono⟩, w, fun q hq ht => c q (splitQueue_mem _ _ q (Or.inr hq)) ht⟩
  have hlog : (s1.fsmApply sp.1).log = s1.log := fsmFrame_log.fsmApply_eq s1 sp.1
  have hldr : (s1.fsmApply sp.1).ldr = s1.ldr := fsmFrame_ldr.fsmApply_eq s1 sp.1
  have hst : (s1.fsmApply sp.1).panicked = none → s1.panicked = none := by
    intro hp
    apply Classical.byContradiction
    intro hne
    exact (C15.panicked_closed.fsmApply_inv s1 sp.1 hne) hp
  have hfn : FN m (s1.fsmApply sp.1) := by
    apply fsmApply_ok s1 sp.1 h1.fn
    intro hp q hq ht
    exact (hs hp).2.2 q (splitQueue_mem _ _ q (Or.inl hq)) ht
  intro hp
  obtain ⟨f, w⟩ := hfn hp
  refine ⟨f, w, fun q hq ht => ?_⟩
  rw [hlog]
  exact (h1 (hst hp)).2.2 q (by rw [← hldr]; exact hq) ht


/-! ### the leader handlers -/

theorem fl_setRepl (s : Node) (r : Repl) (hs : FL m s) : FL m (s.setRepl r) := by
  unfold Node.setRepl; exact fl_ldr _ _ hs rfl

theorem fl_addReplication (s : Node) (n : CNode) (hs : FL m s) : FL m (s.addReplication n) := by
  unfold Node.addReplication
  apply fl_setRepl
  split
  · exact fl_assert _ _ _ hs
  · exact fl_panic _ _

theorem fl_notifyFlr (s : Node) (hs : FL m s) : FL m s.notifyFlr := by
  unfold Node.notifyFlr; split
  · exact hs
  · split
    · exact hs
    · exact fl_panic _ _

theorem fl_beginFinishedRounds (s : Node) (hs : FL m s) : FL m s.beginFinishedRounds := by
  unfold Node.beginFinishedRounds; exact fl_ldr _ _ hs rfl

theorem fl_foldl {β : Type} (f : Node → β → Node) (hf : ∀ s x, FL m s → FL m (f s x))
    (xs : List β) (s : Node) (hs : FL m s) : FL m (xs.foldl f s) := by
  induction xs generalizing s with
  | nil => exact hs
  | cons x xs ih => exact ih _ (hf _ _ hs)

/-- **the leader block preserves the invariant** (accepting entries, configuration actions, commit
advancement), by induction on the recursion budget -/
theorem fl_block : ∀ fuel : Nat,
    (∀ s b, FL m s → FL m (storeEntry fuel s b)) ∧
    (∀ s b, FL m s → FL m (storeItems fuel s b)) ∧
    (∀ s c, FL m s → FL m (changeConfigL fuel s c)) ∧
    (∀ s t c, FL m s → FL m (doChangeConfig fuel s t c)) ∧
    (∀ s t c, FL m s → FL m (checkConfigActions fuel s t c)) ∧
    (∀ s t c id, FL m s → FL m (checkConfigAction fuel s t c id)) ∧
    (∀ s i, FL m s → i > s.commitIndex → FL m (setCommitIndexL fuel s i)) ∧
    (∀ s, FL m s → FL m (onMajorityCommit fuel s)) := by
  intro fuel
  induction fuel with
  | zero =>
    refine ⟨?_, ?_, ?_, ?_, ?_, ?_, ?_, ?_⟩ <;> intros <;> (try unfold storeItems) <;>
      (try unfold storeEntry) <;> (try unfold changeConfigL) <;> (try unfold doChangeConfig) <;>
      (try unfold checkConfigActions) <;> (try unfold checkConfigAction) <;>
      (try unfold setCommitIndexL) <;> (try unfold onMajorityCommit) <;>
      (try split) <;> first | assumption | exact fl_panic _ _
  | succ n ih =>
    obtain ⟨ihSE, ihSI, ihCL, ihDC, ihCAs, ihCA, ihSC, ihMC⟩ := ih
    refine ⟨?_, ?_, ?_, ?_, ?_, ?_, ?_, ?_⟩
    · -- storeEntry
      intro s b hs
      unfold storeEntry; dsimp only
      have h1 : FL m (storeItems n s b) := ihSI _ _ hs
      have h2 := fl_applyL _ h1
      repeat' split
      all_goals first
        | exact ihMC _ (fl_notifyFlr _ (fl_beginFinishedRounds _ h2))
        | exact ihMC _ (fl_notifyFlr _ (fl_beginFinishedRounds _ h1))
        | exact fl_notifyFlr _ (fl_beginFinishedRounds _ h2)
        | exact fl_notifyFlr _ (fl_beginFinishedRounds _ h1)
        | exact h2
        | exact h1
    · -- storeItems
      intro s b hs
      cases b with
      | nil => unfold storeItems; exact hs
      | cons q qs =>
        unfold storeItems; dsimp only
        apply ihSI
        split
        · exact fl_reply _ _ _ hs
        · split
          · split
            · exact fl_reply _ _ _ hs
            · exact fl_reply _ _ _ hs
          · split
            · rename_i ht
              have h1 := fl_pushLog s (C03.stamp s q) hs
              split
              · split
                · exact ihCL _ _ h1
                · exact fl_panic _ _
              · exact h1
            · rename_i ht
              exact fl_pushOther s (C03.stamp s q) hs (by simpa [C03.stamp] using ht)
    · -- changeConfigL
      intro s c hs
      unfold changeConfigL; dsimp only
      apply ihCAs
      apply fl_foldl
      · intro s x hs
        split
        · exact hs
        · split
          · exact fl_addReplication _ _ hs
          · exact fl_setRepl _ _ hs
      · exact fl_ldr _ _ (fl_changeConfigR _ _ (fl_ldr _ _ hs rfl)) rfl
    · -- doChangeConfig
      intro s t c hs
      unfold doChangeConfig; exact ihSE _ _ hs
    · -- checkConfigActions
      intro s t c hs
      unfold checkConfigActions; dsimp only
      apply fl_foldl
      · intro s x hs
        split
        · exact ihCA _ _ _ _ hs
        · exact hs
      · apply fl_popOrder
        split
        · split
          · exact ihDC _ _ _ hs
          · split
            · exact ihDC _ _ _ hs
            · exact fl_panic _ _
        · exact hs
    · -- checkConfigAction
      intro s t c id hs
      unfold checkConfigAction; dsimp only
      have h1 := fun r => fl_setRepl s r hs
      repeat' split
      all_goals first | exact hs | exact h1 _ | exact ihDC _ _ _ (h1 _)
    · -- setCommitIndexL
      intro s i hs hi
      unfold setCommitIndexL
      extract_lets s1 ready r s2 s3
      have h2 : FL m s2 := fl_setCommitIndexR _ i (fl_commitLog _ i hs) hi
      have h3 : FL m s3 := by
        unfold s3; split
        · exact ihCAs _ _ _ h2
        · exact h2
      split
      · split
        · exact fl_ldr _ _ (fl_foldl _ (fun s t hs => fl_reply _ _ _ hs) _ _ h3) rfl
        · exact ihCAs _ _ _ h3
      · exact h3
    · -- onMajorityCommit
      intro s hs
      unfold onMajorityCommit; dsimp only
      have h1 : FL m (s.panic "nil.majorityMatchIndex") := fl_panic s "nil.majorityMatchIndex"
      have hc : ∀ site, (s.panic site).commitIndex = s.commitIndex := by
        intro site; unfold Node.panic; split <;> rfl
      split
      · split
        · rename_i hgt
          exact fl_notifyFlr _ (fl_applyL _ (ihSC _ _ hs hgt.1))
        · exact hs
      · split
        · rename_i hgt
          exact fl_notifyFlr _ (fl_applyL _ (ihSC _ _ h1 (by rw [hc] at hgt; rw [hc]; exact hgt.1)))
        · exact h1

theorem fl_storeEntry (f : Nat) (s : Node) (b : List QItem) (hs : FL m s) : FL m (storeEntry f s b) :=
  (fl_block f).1 s b hs
theorem fl_checkConfigActions (f : Nat) (s : Node) (t : Nat) (c : Config) (hs : FL m s) :
    FL m (checkConfigActions f s t c) := (fl_block f).2.2.2.2.1 s t c hs
theorem fl_checkConfigAction (f : Nat) (s : Node) (t : Nat) (c : Config) (id : Nat) (hs : FL m s) :
    FL m (checkConfigAction f s t c id) := (fl_block f).2.2.2.2.2.1 s t c id hs
theorem fl_onMajorityCommit (f : Nat) (s : Node) (hs : FL m s) : FL m (onMajorityCommit f s) :=
  (fl_block f).2.2.2.2.2.2.2 s hs


theorem fl_transferReply (s : Node) (r : String) (hs : FL m s) : FL m (s.transferReply r) := by
  unfold Node.transferReply; exact fl_ldr _ _ (fl_reply _ _ _ hs) rfl

theorem fl_tryTransfer (s : Node) (hs : FL m s) : FL m s.tryTransfer := by
  unfold Node.tryTransfer; dsimp only
  have hp := fl_popOrder s hs
  have L : ∀ x : Node, FL m x →
      FL m (x.withLdr { x.ldr with transfer := { x.ldr.transfer with respPending := true } }) :=
    fun x hx => fl_ldr _ _ hx rfl
  repeat' split
  all_goals first
    | exact hs
    | exact hp
    | exact fl_panic _ _
    | exact L _ hs
    | exact L _ hp
    | exact L _ (fl_panic _ _)

theorem fl_onTransfer (s : Node) (t g : Nat) (hs : FL m s) : FL m (s.onTransfer t g) := by
  unfold Node.onTransfer; dsimp only
  split
  · exact fl_reply _ _ _ hs
  · exact fl_tryTransfer _ (fl_ldr _ _ hs rfl)

theorem fl_replyTransfer (s : Node) (r : String) (hs : FL m s) : FL m (s.replyTransfer r) := by
  unfold Node.replyTransfer; exact fl_checkConfigActions _ _ _ _ (fl_transferReply _ _ hs)

theorem fl_onTimeoutNowResult (s : Node) (src : Nat) (e : Bool) (r : Nat) (hs : FL m s) :
    FL m (s.onTimeoutNowResult src e r) := by
  unfold Node.onTimeoutNowResult
  extract_lets l0 t0 s1 s2 l1 t1
  have h0 : FL m s1 := fl_ldr _ _ hs rfl
  have h2 : FL m s2 := by
    unfold s2
    split
    · split
      · exact fl_setRepl _ _ h0
      · exact h0
    · exact fl_panic _ _
  split
  · split
    · exact fl_tryTransfer _ h2
    · exact h2
  · split
    · split
      · exact fl_replyTransfer _ _ h0
      · exact fl_tryTransfer _ h0
    · exact fl_ldr _ _ h0 rfl

theorem fl_onWaitForStable (s : Node) (t : Nat) (hs : FL m s) : FL m (s.onWaitForStable t) := by
  unfold Node.onWaitForStable
  split
  · exact fl_reply _ _ _ hs
  · exact fl_ldr _ _ hs rfl

theorem fl_checkQuorum (s : Node) (hs : FL m s) : FL m s.checkQuorum := by
  unfold Node.checkQuorum; dsimp only
  repeat' split
  all_goals first
    | exact hs
    | exact fl_panic _ _
    | exact fl_setLeader _ _ (fl_setRole _ _ hs)
    | exact fl_setLeader _ _ (fl_setRole _ _ (fl_panic _ _))

theorem fl_replUpdLoop (us : List ReplUpdate) (hus : NoCompact us) : ∀ (s : Node) (f : UpdFlags), FL m s →
    f.removeLTEU = false → FL m (replUpdLoop s f us).1 ∧ (replUpdLoop s f us).2.removeLTEU = false := by
  induction us with
  | nil => intro s f hs hf; exact ⟨hs, hf⟩
  | cons u us ih =>
    intro s f hs hf
    have hus' : NoCompact us := fun x hx => hus x (List.mem_cons_of_mem _ hx)
    have hu := hus u (List.mem_cons_self ..)
    unfold replUpdLoop
    split
    · exact ih hus' s f hs hf
    · split
      · exact ih hus' s f hs hf
      · rename_i st hst
        split
        · rename_i v hv
          dsimp only
          have h1 : FL m (s.setRepl { st with matchIndex := v }) := fl_setRepl _ _ hs
          have := ih hus' (if ¬ st.node.voter = true ∧ st.node.action ≠ actNone
              then checkConfigAction (fuelFor 0) (s.setRepl { st with matchIndex := v }) 0
                (s.setRepl { st with matchIndex := v }).configs.latest st.id
              else s.setRepl { st with matchIndex := v }) { f with matchU := true }
            (by
              split
              · exact fl_checkConfigAction _ _ _ _ _ h1
              · exact h1) hf
          simpa using this
        · rename_i v hv
          exact absurd hv (hu v)
        · rename_i v hv
          exact ih hus' _ { f with noContactU := true } (fl_setRepl _ _ hs) hf
        · rename_i v hv
          exact ⟨fl_setTerm _ _ (fl_setLeader _ _ (fl_setRole _ _ hs)), hf⟩

theorem fl_checkReplUpdates (us : List ReplUpdate) (hus : NoCompact us) (s : Node) (hs : FL m s) :
    FL m (s.checkReplUpdates us) := by
  unfold Node.checkReplUpdates
  extract_lets r s1 f s2 s3 s4
  obtain ⟨k1, k2⟩ := fl_replUpdLoop us hus s {} hs rfl
  split
  · exact k1
  · have h2 : FL m s2 := by unfold s2; split; exact fl_onMajorityCommit _ _ k1; exact k1
    have h3 : FL m s3 := by
      unfold s3; split
      · exact fl_checkQuorum _ h2
      · exact h2
    have e4 : s4 = s3 := by
      unfold s4
      rw [if_neg]
      intro hc
      have : f.removeLTEU = true := hc.1
      have k2' : f.removeLTEU = false := k2
      rw [k2'] at this; cases this
    rw [e4]
    split
    · exact fl_tryTransfer _ h3
    · exact h3

/-- **`leader.init`** starts with an empty queue -/
theorem fl_leaderInit (s : Node) (hs : FN m s) : FL m s.leaderInit := by
  unfold Node.leaderInit; dsimp only
  apply fl_storeEntry
  apply fl_checkConfigActions
  apply fl_foldl
  · intro s x hs
    split
    · exact hs
    · exact fl_addReplication _ _ hs
  · apply fl_ldr_nil _ _ _ rfl
    unfold Node.assert; split
    · exact hs
    · exact fn_panic _ _

/-! handlers that leave the log, the commit index and the state machine alone -/

theorem fn_reply (s : Node) (t : Nat) (r : String) (hs : FN m s) : FN m (s.reply t r) := by
  obtain ⟨a1, a2, _, a4, a5, a6, _, _⟩ := reply_fields s t r
  exact fn_congr hs (by unfold nobs; rw [a1, a2, a4, a5]) (by rw [a6]; exact id)

theorem fn_foldl {β : Type} (f : Node → β → Node) (hf : ∀ s x, FN m s → FN m (f s x))
    (xs : List β) (s : Node) (hs : FN m s) : FN m (xs.foldl f s) := by
  induction xs generalizing s with
  | nil => exact hs
  | cons x xs ih => exact ih _ (hf _ _ hs)

theorem fn_leaderRelease (s : Node) (hs : FN m s) : FN m s.leaderRelease := by
  unfold Node.leaderRelease Node.leaderReleaseRest; dsimp only
  have W : ∀ (x : Node) l, FN m x → FN m (x.withLdr l) := fun x l hx => fn_congr hx rfl id
  apply W
  apply fn_foldl _ (fun s t hs => fn_reply _ _ _ hs)
  apply fn_foldl _ (fun s t hs => fn_reply _ _ _ hs)
  have T : ∀ (x : Node) r, FN m x → FN m (x.transferReply r) := fun x r hx => by
    unfold Node.transferReply; exact W _ _ (fn_reply _ _ _ hx)
  have SL : ∀ (x : Node) l, FN m x → FN m (x.setLeader l) := fun x l hx => fn_congr hx rfl id
  repeat' split
  all_goals first
    | exact hs
    | exact SL _ _ hs
    | exact T _ _ hs
    | exact SL _ _ (T _ _ hs)

theorem fn_releaseRole (s : Node) (r : Role) (hs : FN m s) : FN m (s.releaseRole r) := by
  unfold Node.releaseRole
  split
  · exact hs
  · exact fn_congr hs rfl id
  · exact fn_leaderRelease _ hs

theorem setVotedFor_nobs (s : Node) (t c : Nat) :
    nobs (s.setVotedFor t c) = nobs s ∧ ((s.setVotedFor t c).panicked = none → s.panicked = none) := by
  unfold Node.setVotedFor Node.storeTermVote Node.panic Node.point nobs
  repeat' split
  all_goals first
    | exact ⟨rfl, id⟩
    | (refine ⟨rfl, fun h => ?_⟩; simp at h)

theorem fn_setRole (s : Node) (r : Role) (hs : FN m s) : FN m (s.setRole r) := fn_congr hs rfl id
theorem fn_setLeader (s : Node) (l : Nat) (hs : FN m s) : FN m (s.setLeader l) := fn_congr hs rfl id
theorem fn_votesNeeded (s : Node) (v : Int) (hs : FN m s) : FN m (s.withVotesNeeded v) := fn_congr hs rfl id
theorem fn_assert (s : Node) (b : Bool) (site : String) (hs : FN m s) : FN m (s.assert b site) := by
  unfold Node.assert; split
  · exact hs
  · exact fn_panic _ _
theorem fn_setVotedFor (s : Node) (t c : Nat) (hs : FN m s) : FN m (s.setVotedFor t c) := by
  obtain ⟨a, b⟩ := setVotedFor_nobs s t c
  exact fn_congr hs a b

theorem fn_startElection (s : Node) (hs : FN m s) : FN m s.startElection := by
  unfold Node.startElection
  extract_lets s1 s2 s3 s4
  have h4 : FN m s4 := fn_votesNeeded _ _ (fn_setVotedFor _ _ _ (fn_votesNeeded _ _ (fn_assert _ _ _ hs)))
  split
  · exact fn_setLeader _ _ (fn_setRole _ _ h4)
  · exact h4


/-! ### an append request (follower side) -/

/-- `y` has the state machine of `x` and has not cleared a failure -/
def KeepF (x y : Node) : Prop := y.fsm = x.fsm ∧ (y.panicked = none → x.panicked = none)

theorem KeepF.refl (x : Node) : KeepF x x := ⟨rfl, id⟩
theorem KeepF.trans {x y z : Node} (h1 : KeepF x y) (h2 : KeepF y z) : KeepF x z :=
  ⟨h2.1.trans h1.1, fun h => h1.2 (h2.2 h)⟩

theorem keepF_resolveConflict (s : Node) (ne : Entry) (pt : Nat) : KeepF s (s.resolveConflict ne pt) := by
  refine ⟨?_, fun hp => ?_⟩
  · unfold Node.resolveConflict Node.removeGTE Node.revertConfig Node.point Node.panic
    dsimp only
    repeat' split
    all_goals rfl
  · unfold Node.resolveConflict at hp
    split at hp
    · split at hp
      · exact absurd hp (panic_panicked_ne _ _)
      · dsimp only at hp; split at hp <;> exact hp
    · exact hp

theorem keepF_appendEntry (s : Node) (e : Entry) : KeepF s (s.appendEntry e) := by
  unfold Node.appendEntry
  extract_lets a roll
  have ha : KeepF s a := by
    unfold a Node.assert
    split
    · exact KeepF.refl s
    · exact ⟨(panic_fields s _).2.2.2.2.1, fun h => absurd h (panic_panicked_ne _ _)⟩
  exact ⟨ha.1, ha.2⟩

theorem keepF_changeConfigR (s : Node) (c : Config) : KeepF s (s.changeConfigR c) := by
  obtain ⟨_, _, _, _, a5, a6, _⟩ := changeConfigR_fields s c
  exact ⟨a5, by rw [a6]; exact id⟩

theorem keepF_appendLoop (es : List Entry) : ∀ (st : AppLoop), KeepF st.s (appendLoop st es).s := by
  induction es with
  | nil => intro st; exact KeepF.refl _
  | cons ne rest ih =>
    intro st
    unfold appendLoop
    split
    · exact KeepF.refl _
    · dsimp only
      have K := (keepF_resolveConflict st.s ne st.term).trans (keepF_appendEntry _ ne)
      repeat' split
      all_goals first
        | exact ih _
        | exact K.trans (ih _)
        | exact (K.trans (keepF_changeConfigR _ _)).trans (ih _)
        | exact K

theorem fn_ret (s : Node) (r : Nat) (hs : FN m s) : FN m (s.ret r) := fn_congr hs rfl id

theorem fn_setTerm (s : Node) (t : Nat) (hs : FN m s) : FN m (s.setTerm t) := by
  obtain ⟨a, _, c⟩ := setTerm_nobs s t
  exact fn_congr hs a c

theorem fn_appendCheck (s : Node) (q : AppendReq) (hs : FN m s) : FN m (s.appendCheck q) := by
  unfold Node.appendCheck
  split
  · split
    · exact fn_ret _ _ hs
    · extract_lets s1 plt
      have h1 : FN m s1 := by
        unfold s1
        split
        · exact hs
        · split
          · exact hs
          · exact fn_panic _ _
      split
      · exact fn_ret _ _ h1
      · split
        · rename_i hcc
          obtain ⟨_, _, k3⟩ := C19.follower_commit_guard _ _ _ _ hcc
          exact fn_ret _ _ (fn_applyCommitted _ (fn_setCommitIndexR _ _ h1 k3))
        · exact fn_ret _ _ h1
  · exact fn_ret _ _ hs

theorem fn_commitLog (s : Node) (n : Nat) (hs : FN m s) : FN m (s.commitLog n) := by
  unfold Node.commitLog
  refine fn_congr (s := { s with log := s.log.commitN n }) ?_ rfl id
  obtain ⟨p1, p2⟩ := commitN_parts s.log n
  intro hp
  obtain ⟨a, b⟩ := hs hp
  exact ⟨⟨a.le, by show _ ≤ (s.log.commitN n).entries.length; rw [p2]; exact a.len,
      by show _ = ups ((s.log.commitN n).entries.take _); rw [p2]; exact a.applied, a.mono⟩,
    ⟨by show (s.log.commitN n).prev = 0; rw [p1]; exact b.1,
      by show s.lastLogIndex = (s.log.commitN n).entries.length; rw [p2]; exact b.2⟩⟩

/-- **`onAppendEntriesRequest` keeps the state machine's content right**, for a request that is not stale, carries
the indexes `prevLogIndex + 1, …` and does not conflict with the log at or below the commit index: entries are
only removed above the commit index, hence above what was applied -/
theorem fn_onAppendEntries (b : Node) (q : AppendReq) (hn : NWF b) (hl : C06.LogWF b.log) (hwf : C05.VoteWF b)
    (hidx : ∀ k (h : k < q.entries.length), q.entries[k].index = q.prevLogIndex + k + 1)
    (hst : ¬ q.term < b.term) (hnc : NoConf b q b.commitIndex) (hci : b.commitIndex ≤ b.log.entries.length)
    (hs : FN m b) : FN m (b.onAppendEntries q) := by
  have F0 := fx_refl b q hn hl hwf
  have hge : b.term ≤ q.term := Nat.le_of_not_lt hst
  unfold Node.onAppendEntries
  rw [if_neg hst]
  extract_lets s1 s2 s3 st s4 s6 s5
  have H1 : FX b q s1 ∧ s1.term = q.term ∧ s1.commitIndex = b.commitIndex ∧ s1.log = b.log ∧ FN m s1 := by
    unfold s1
    split
    · rename_i hgt
      obtain ⟨f, t⟩ := fx_setTerm F0 rfl hgt
      exact ⟨fx_congr f rfl, t, (setTerm_fields b q.term).2.2.2.1, (setTerm_fields b q.term).1,
        fn_setRole _ _ (fn_setTerm _ _ hs)⟩
    · exact ⟨F0, by omega, rfl, rfl, hs⟩
  obtain ⟨H1, t1, c1, g1, n1⟩ := H1
  have H2 : FX b q s2 := fx_congr H1 rfl
  have t2 : s2.term = q.term := t1
  have c2 : s2.commitIndex = b.commitIndex := c1
  have g2 : s2.log = b.log := g1
  have n2 : FN m s2 := fn_setLeader _ _ (fn_setRole _ _ n1)
  obtain ⟨f3, _⟩ := appendCheck_fobs s2 q
  have H3 : FX b q s3 := fx_congr H2 f3
  obtain ⟨g3, t3', _⟩ := fobs_log f3
  have t3 : s3.term = q.term := t3'.trans t2
  have g3' : s3.log = b.log := g3.trans g2
  have n3 : FN m s3 := fn_appendCheck s2 q n2
  have canch := (appendCheck_spec s2 q H2.nwf).2
  have ci3 : s3.commitIndex = b.commitIndex ∨ s3.commitIndex = q.prevLogIndex := by
    rcases C02.follower_commit_rule_check s2 q with c | ⟨_, hci', _⟩
    · exact Or.inl (c.trans c2)
    · exact Or.inr hci'
  split
  · exact n3
  · rename_i hres
    have hres0 : s3.result = 0 := Classical.byContradiction (fun hne => hres hne)
    have anch : Anchor s3 q.prevLogIndex q.prevLogTerm := anchor_congr (canch hres0) g3
    obtain ⟨l1, l2, l3, _, _, _, _⟩ := appendLoop_fx (b := b) (q := q) q.entries
      { s := s3, index := q.prevLogIndex, term := q.prevLogTerm } H3 (fun _ => t3) anch rfl (fun e he => he) hidx
      (fun _ => g3')
    have l1' : FX b q s4 := l1
    have t4 : s4.term = q.term := l2.trans t3
    have c4 : s4.commitIndex = s3.commitIndex := (C02.appendLoop_commitIndex _ _).1
    have l3' : s4.log.entries.take q.prevLogIndex = s3.log.entries.take q.prevLogIndex := l3
    have k4 : KeepF s3 s4 := keepF_appendLoop q.entries _
    -- the loop removed nothing at or below the commit index
    have n4 : FN m s4 := by
      intro hp
      obtain ⟨f, w⟩ := n3 (k4.2 hp)
      have htake : s4.log.entries.take s3.commitIndex = s3.log.entries.take s3.commitIndex := by
        rcases ci3 with c | c
        · rw [c, g3']
          exact (l1'.keep b.commitIndex hci hnc).1
        · rw [c]; exact l3'
      have hlen4 : s3.commitIndex ≤ s4.log.entries.length := by
        have hlen3 : s3.commitIndex ≤ s3.log.entries.length := by
          rcases ci3 with c | c
          · rw [c, g3']; exact hci
          · rw [c]; exact anch.1
        have := congrArg List.length htake
        rw [List.length_take, List.length_take] at this
        omega
      have hfi : s4.fsm.index ≤ s3.commitIndex := by rw [k4.1]; exact f.le
      refine ⟨⟨by rw [c4]; exact hfi, by omega, ?_, by rw [k4.1]; exact f.mono⟩, l1'.nwf.prev, l1'.nwf.last⟩
      have h1 : s4.log.entries.take s4.fsm.index = s3.log.entries.take s4.fsm.index := by
        have := congrArg (List.take s4.fsm.index) htake
        rw [List.take_take, List.take_take, Nat.min_eq_left hfi] at this
        exact this
      rw [h1, k4.1]; exact f.applied
    show FN m (s5.ret _)
    apply fn_ret
    unfold s5
    split
    · have n6 : FN m s6 := fn_commitLog _ _ n4
      split
      · rename_i hcc
        obtain ⟨_, _, k3⟩ := C19.follower_commit_guard _ _ _ _ hcc
        exact fn_applyCommitted _ (fn_setCommitIndexR _ _ n6 k3)
      · exact n6
    · exact n4

theorem fn_rpcDone (s : Node) (a b : Bool) (hs : FN m s) : FN m (s.rpcDone a b) := by
  unfold Node.rpcDone
  split
  · exact fn_panic _ _
  · exact fn_congr hs rfl id

/-! ### every case of `handle`, the role transitions, the step -/

/-- between the handler and the role transitions; `c` is the role whose `init` ran last -/
def G (m : Nat) (c : Role) (s : Node) : Prop :=
  s.panicked = none → FsmOK m s ∧ LW s ∧ (s.role = .leader → c = .leader → QOK s)

/-- **at step boundaries**: the state machine's content is right, and a leader's queue matches its log -/
structure FB (s : Node) : Prop where
  fsm : FsmOK 0 s
  queue : s.role = .leader → QOK s

theorem g_of_fl {m : Nat} {c : Role} {s : Node} (h : FL m s) : G m c s :=
  fun hp => ⟨(h hp).1, (h hp).2.1, fun _ _ => (h hp).2.2⟩

theorem g_of_fn {m : Nat} {c : Role} {s : Node} (h : FN m s) (hr : s.role ≠ .leader) : G m c s :=
  fun hp => ⟨(h hp).1, (h hp).2, fun hl => absurd hl hr⟩

theorem G.fn {m : Nat} {c : Role} {s : Node} (h : G m c s) : FN m s := fun hp => ⟨(h hp).1, (h hp).2.1⟩

/-- a handler that left the log, the commit index, the state machine and the leader record alone -/
theorem g_sx {b h : Node} {A : Nat → Nat → Prop} (hx : SX b A True h) (hs : FsmOK m b ∧ LW b)
    (hq : b.role = .leader → QOK b) : G m b.role h := by
  intro _
  have e := hx.core
  unfold LCore at e
  simp only [Prod.mk.injEq] at e
  obtain ⟨e1, e2, _, _, _⟩ := e
  obtain ⟨f, w⟩ := hs
  refine ⟨⟨by rw [hx.fsm, hx.ci]; exact f.le, by rw [hx.fsm, e1]; exact f.len, by rw [hx.fsm, e1]; exact f.applied,
      by rw [hx.fsm]; exact f.mono⟩,
    ⟨by rw [e1]; exact w.1, by rw [e2, e1]; exact w.2⟩, fun _ hl => ?_⟩
  intro q hq' ht
  rw [e1]
  exact hq hl q (by rw [← hx.ldr trivial]; exact hq') ht

/-- **every case of `handle`** other than an append request -/
theorem handle_g (b : Node) (op : Op) (hwf : C05.VoteWF b) (hok : OpOK2 op) (happ : ∀ q, op ≠ .append q)
    (hs : FsmOK m b ∧ LW b) (hq : b.role = .leader → QOK b) : G m b.role (b.handle op) := by
  have S0 : SX b (AOp b op) True b := sx_refl b _ _ hwf
  have X : ∀ h, SX b (AOp b op) True h → G m b.role h := fun h hx => g_sx hx hs hq
  have F0 : b.role = .leader → FL m b := fun hr _ => ⟨hs.1, hs.2, hq hr⟩
  obtain ⟨hok1, hok2, hok3⟩ := hok
  cases op <;> unfold Node.handle <;> dsimp only
  case vote q =>
    exact X _ (sx_rpcDone _ _ ((sx_onVoteRequest q (sx_refl b _ _ hwf) ⟨rfl, rfl⟩).mono
      (fun t c h => Or.inl ⟨q, rfl, h⟩)))
  case append q => exact absurd rfl (happ q)
  case install q => exact absurd hok1 (by simp [OpOK])
  case timeoutNow => exact X _ (sx_rpcDone _ _ (sx_onTimeoutNow S0))
  case identity a c d => exact X _ (sx_rpcReply _ S0)
  case disconnected n =>
    split
    · exact X _ (sx_setLeader _ S0)
    · exact X _ S0
  case timeout =>
    split
    · exact X _ (sx_followerTimeout S0)
    · exact X _ (sx_startElection (aop_self b _) S0)
    · exact X _ (sx_checkQuorum S0)
  case newEntries batch =>
    split
    · rename_i hr
      exact g_of_fl (fl_storeEntry _ _ _ (F0 hr))
    · exact X _ (sx_rejectEntries _ S0)
  case changeConfig t c => exact absurd rfl (hok3 t c)
  case takeSnapshot t th => exact X _ (sx_onTakeSnapshot _ _ S0)
  case snapRun => exact absurd hok1 (by simp [OpOK])
  case snapTaken => exact absurd hok1 (by simp [OpOK])
  case waitStable t =>
    split
    · rename_i hr
      exact g_of_fl (fl_onWaitForStable _ _ (F0 hr))
    · exact X _ (sx_reply _ _ S0)
  case transfer t g =>
    split
    · rename_i hr
      exact g_of_fl (fl_onTransfer _ _ _ (F0 hr))
    · exact X _ (sx_reply _ _ S0)
  case voteResult e t r =>
    split
    · exact X _ (sx_onVoteResult _ _ _ S0)
    · exact X _ S0
  case replUpdates us =>
    split
    · rename_i hr
      exact g_of_fl (fl_checkReplUpdates us hok1 _ (F0 hr))
    · exact X _ S0
  case transferTimeout =>
    split
    · rename_i hr
      exact g_of_fl (fl_replyTransfer _ _ (F0 hr.1))
    · exact X _ S0
  case timeoutNowResult a c d =>
    split
    · rename_i hr
      exact g_of_fl (fl_onTimeoutNowResult _ _ _ _ (F0 hr.1))
    · exact X _ S0
  case newTermTimeout =>
    split
    · rename_i hr
      exact g_of_fl (fl_tryTransfer _ (fl_ldr _ _ (F0 hr.1) rfl))
    · exact X _ S0
  case shutdown => exact absurd hok1 (by simp [OpOK])

/-- the boundary invariant, unless the step failed -/
def FBp (m : Nat) (s : Node) : Prop := s.panicked = none → FsmOK m s ∧ LW s ∧ (s.role = .leader → QOK s)

/-- **the role transitions after the handler** -/
theorem settle_g (h : Node) (cur : Role) (hg : G m cur h) : FBp m (settle 6 h cur) := by
  by_cases hrole : h.role = cur
  · have e : settle 6 h cur = h := by unfold settle; rw [if_pos hrole]
    rw [e]
    intro hp
    obtain ⟨f, w, qk⟩ := hg hp
    exact ⟨f, w, fun hl => qk hl (by rw [← hrole]; exact hl)⟩
  · have FNr : ∀ x r, FN m x → FN m (x.releaseRole r) := fun x r hx => fn_releaseRole x r hx
    have roleR : ∀ (x : Node) r, (x.releaseRole r).role = x.role := fun x r => (SameKey.releaseRole x r).role
    have ofFN : ∀ x : Node, FN m x → x.role ≠ .leader → FBp m x :=
      fun x hx hr hp => ⟨(hx hp).1, (hx hp).2, fun hl => absurd hl hr⟩
    have ofFL : ∀ x : Node, FL m x → FBp m x := fun x hx hp => ⟨(hx hp).1, (hx hp).2.1, fun _ => (hx hp).2.2⟩
    have LI : ∀ (x post : Node), FN m x →
        ((x.leaderInit.role = .leader ∧ post = x.leaderInit) ∨
          (x.leaderInit.role = .follower ∧ post = x.leaderInit.releaseRole .leader)) → FBp m post := by
      intro x post hx hc
      have hl := fl_leaderInit x hx
      rcases hc with ⟨_, e⟩ | ⟨hr, e⟩
      · rw [e]; exact ofFL _ hl
      · rw [e]
        exact ofFN _ (FNr _ _ hl.fn) (by rw [roleR, hr]; decide)
    cases settle_shape 3 h cur hrole with
    | follower hf e =>
      rw [e]
      exact ofFN _ (FNr _ _ hg.fn) (by rw [roleR, hf]; decide)
    | leader x hl e hc => exact LI x _ (by rw [e]; exact FNr _ _ hg.fn) hc
    | cand hc e hr =>
      rw [e]
      refine ofFN _ (fn_startElection _ (FNr _ _ hg.fn)) ?_
      rw [← e, hr]; decide
    | candLeader x hc hl e hcases =>
      exact LI x _ (by rw [e]; exact FNr _ _ (fn_startElection _ (FNr _ _ hg.fn))) hcases


/-- **One step of a node keeps the state machine's content right** — for every operation of the `_partial`
model (`OpOK2`), unless the step fails an assertion (`panicked`): afterwards the state machine holds exactly the
update payloads of the log entries `1 … fsm.index`, in order, `fsm.index ≤ commitIndex`, the applied index is
not below the one before the step, and a leader's queue matches its log. For an append request that is not stale the hypothesis `happ` is what the system guarantees
(`C02Sys.reqok`): consecutive indexes and no conflict with the log at or below the commit index. -/
theorem fsm_step (pre : Node) (op : Op) (ra : List Nat) (ord : List (List Nat)) (hn : NWF pre)
    (hl : C06.LogWF pre.log) (hwf : C05.VoteWF pre) (hok : OpOK2 op) (hfb : FB pre)
    (happ : ∀ q, op = .append q → ¬ q.term < pre.term →
      (∀ k (h : k < q.entries.length), q.entries[k].index = q.prevLogIndex + k + 1) ∧
      NoConf pre q pre.commitIndex ∧ pre.commitIndex ≤ pre.log.entries.length) :
    FBp pre.fsm.index (pre.step op ra ord) := by
  have hbn : NWF (pre.begin ra ord) := nwf_congr hn rfl rfl rfl rfl rfl
  have hbwf : C05.VoteWF (pre.begin ra ord) := hwf
  have hpost : pre.step op ra ord = settle 6 ((pre.begin ra ord).handle op) (pre.begin ra ord).role := by
    unfold Node.step
    cases op <;> first | rfl | exact hok.1.elim
  have hs : FsmOK pre.fsm.index (pre.begin ra ord) ∧ LW (pre.begin ra ord) :=
    ⟨⟨hfb.fsm.le, hfb.fsm.len, hfb.fsm.applied, Nat.le_refl _⟩, hn.prev, hn.last⟩
  have hq : (pre.begin ra ord).role = .leader → QOK (pre.begin ra ord) := fun hr => hfb.queue hr
  rw [hpost]
  apply settle_g
  by_cases ha : ∃ q, op = .append q
  · obtain ⟨q, rfl⟩ := ha
    show G _ _ (((pre.begin ra ord).onAppendEntries q).rpcDone false true)
    by_cases hst : q.term < pre.term
    · rw [C04.stale_append_refused (pre.begin ra ord) q hst]
      have S0 : SX (pre.begin ra ord) AF True (pre.begin ra ord) := sx_refl _ _ _ hbwf
      exact g_sx (sx_rpcDone _ _ (sx_ret _ S0)) hs hq
    · obtain ⟨h1, h2, h3⟩ := happ q rfl hst
      have hfn : FN pre.fsm.index ((pre.begin ra ord).onAppendEntries q) :=
        fn_onAppendEntries (pre.begin ra ord) q hbn hl hbwf h1 hst h2 h3 (fun _ => hs)
      refine g_of_fn (fn_rpcDone _ _ _ hfn) ?_
      have hr : (((pre.begin ra ord).onAppendEntries q).rpcDone false true).role = .follower := by
        have := onAppendEntries_role (pre.begin ra ord) q hst
        unfold Node.rpcDone Node.panic Node.withRpcReply
        repeat' split
        all_goals exact this
      rw [hr]; decide
  · exact handle_g (pre.begin ra ord) op hbwf hok (fun q hq' => ha ⟨q, hq'⟩) hs hq


/-! ### the cluster -/

/-- Runs of `Raft.Commit` in which no step fails an assertion: in every state after a transition every node's
`panicked` is `none`. (The model records a failed assertion in `panicked` and continues on a totalised path whose
results are meaningless; in the implementation the process dies. `Node.begin` clears the flag, so it only ever
describes the node's last step.) -/
inductive ReachableNP (V : List Nat) : Commit.Sys → Prop
  | init (x : Commit.Sys) : Commit.Init x → SideV V x → ReachableNP V x
  | next (x y : Commit.Sys) : ReachableNP V x → Commit.Trans x y → SideV V y →
      (∀ i, (y.node i).panicked = none) → ReachableNP V y

theorem np_reachable {V : List Nat} {x : Commit.Sys} (h : ReachableNP V x) : Commit.ReachableV V x := by
  induction h with
  | init x hi hs => exact .init x hi hs
  | next x y _ ht hs _ ih => exact .next x y ih ht hs

/-- the state-machine invariant of the cluster -/
def FsmInv (x : Commit.Sys) : Prop := ∀ i, FB (x.node i)

theorem fsmInv_init {x : Commit.Sys} (hi : Commit.Init x) : FsmInv x := by
  intro i
  obtain ⟨_, _, h3, _, h5⟩ := hi.nodes i
  refine ⟨⟨by rw [h5]; exact Nat.zero_le _, by rw [h5]; exact Nat.zero_le _, by rw [h5]; rfl, Nat.zero_le _⟩,
    fun hl => ?_⟩
  rw [(hi.rp.el.1 i).2.2] at hl; cases hl

theorem fsmInv_trans {V : List Nat} (hV : V.Nodup) {x y : Commit.Sys} (hI : CInv V x) (hS : SideV V x)
    (hF : FsmInv x) (ht : Commit.Trans x y) (hp : ∀ i, (y.node i).panicked = none) : FsmInv y := by
  cases ht with
  | step i op ra ord src he =>
    have sc : SC V x i op ra ord src := ⟨hV, hI, hS, he⟩
    intro j
    show FB ((stepC x i op ra ord src).node j)
    by_cases hj : j = i
    · subst hj
      have hpj : ((stepC x j op ra ord src).node j).panicked = none := hp j
      rw [sc.node_i] at hpj ⊢
      have := fsm_step (x.node j) op ra ord (nwf hI j) (hI.node.lwf j) (hI.rp.el.ids j).2 he.ok2 (hF j)
        (fun q hq hst => by
          subst hq
          have hq : q ∈ x.rp.sent := (he.rp.append q rfl).resolve_left hst
          refine ⟨(hI.rp.sent q hq).idx, reqok hI hq hst, ?_⟩
          by_cases h0 : (x.node j).commitIndex = 0
          · rw [h0]; exact Nat.zero_le _
          · exact (hI.cmt.cc j _ (by omega) (Nat.le_refl _)).1)
      obtain ⟨f, _, qk⟩ := this hpj
      exact ⟨f.weaken (Nat.zero_le _), qk⟩
    · rw [sc.node_j hj]; exact hF j
  | crash i op ra ord src k retain sor n he hn =>
    have cc : CC V x i op ra ord src k retain sor n := ⟨⟨hV, hI, hS, he⟩, hn⟩
    intro j
    show FB ((crashC x i op n).node j)
    by_cases hj : j = i
    · subst hj
      rw [cc.node_i]
      obtain ⟨_, _, _, hr, hc, hf, _, _, _⟩ := cc.facts
      refine ⟨⟨by rw [hf]; exact Nat.zero_le _, by rw [hf]; exact Nat.zero_le _, by rw [hf]; rfl, Nat.zero_le _⟩,
        fun hl => ?_⟩
      rw [hr] at hl; cases hl
    · rw [cc.node_j hj]; exact hF j
  | send i q hi hl hr hc => exact hF

theorem fsmInv_reachable {V : List Nat} (hV : V.Nodup) {x : Commit.Sys} (h : ReachableNP V x) : FsmInv x := by
  induction h with
  | init x hi hs => exact fsmInv_init hi
  | next x y hx ht hs hp ih =>
    obtain ⟨hI, hS⟩ := inv_reachable hV (np_reachable hx)
    exact fsmInv_trans hV hI hS ih ht hp

/-- two logs agree on every prefix that both commit indexes cover -/
theorem agree_take {V : List Nat} {x : Commit.Sys} (hI : CInv V x) {i j F : Nat}
    (hi : F ≤ (x.node i).commitIndex) (hj : F ≤ (x.node j).commitIndex) :
    (x.node i).log.entries.take F = (x.node j).log.entries.take F := by
  by_cases h0 : F = 0
  · rw [h0]; rfl
  · have hF : 1 ≤ F := by omega
    obtain ⟨hhi, m, hm, _, m2⟩ := covered_committed hI hF hi
    obtain ⟨hhj, m', hm', _, m2'⟩ := covered_committed hI hF hj
    have := committed_unique hI ⟨m, hm, m2⟩ ⟨m', hm', m2'⟩ rfl
    have ht : termAt (x.node i).log.entries F = termAt (x.node j).log.entries F := congrArg Prod.snd this
    rw [← ht] at hhj
    apply List.ext_getElem?
    intro n
    rw [List.getElem?_take, List.getElem?_take]
    split
    · rename_i hn
      have := path_agree (uniq hI) (log_path hI i) (log_path hI j) hhi hhj (n + 1) (by omega) (by omega)
      rw [Nat.add_sub_cancel] at this
      exact this
    · rfl

/-! ### the theorems -/

/-- **C03, state-machine safety, cluster level — fixed voter set, fixed stable configuration, no snapshots,
runs without failed assertions (partial).** Let `V` be a duplicate-free list of node ids and `x` a state of the
cluster reachable in the transition system `Raft.Commit` (any schedule, any message delay / loss / duplication /
reordering, crashes at any storage point + restart; the assumptions and `_partial` restrictions of
`C02Sys.leader_completeness_sys_partial`) by a run in which no step fails an assertion (`ReachableNP`). Then:
1. on every node the state machine has been fed exactly the update commands of its log entries
   `1 … fsm.index`, in log-index order, without gaps, each once: `fsm.applied` is the list of the payloads of the
   update entries among them — and it never ran ahead of the commit index;
2. every entry it has been fed is committed (an ancestor-or-equal, in the tree of created entries, of an entry a
   leader committed by the majority rule);
3. a node that applied no more than another holds the same entries up to its applied index, and its command
   sequence is a prefix of the other's;
4. hence the command sequences applied on any two nodes are prefixes of one common sequence. -/
theorem state_machine_safety_sys_partial (V : List Nat) (hV : V.Nodup) (x : Commit.Sys) (h : ReachableNP V x) :
    (∀ i, (x.node i).fsm.index ≤ (x.node i).commitIndex ∧
      (x.node i).fsm.index ≤ (x.node i).log.entries.length ∧
      (x.node i).fsm.applied =
        (((x.node i).log.entries.take (x.node i).fsm.index).filter (·.typ == etUpdate)).map (·.data)) ∧
    (∀ i k, 1 ≤ k → k ≤ (x.node i).fsm.index → Committed x (k, termAt (x.node i).log.entries k)) ∧
    (∀ i j, (x.node i).fsm.index ≤ (x.node j).fsm.index →
      (x.node i).log.entries.take (x.node i).fsm.index = (x.node j).log.entries.take (x.node i).fsm.index ∧
      (x.node i).fsm.applied <+: (x.node j).fsm.applied) ∧
    (∀ i j, (x.node i).fsm.applied <+: (x.node j).fsm.applied ∨
      (x.node j).fsm.applied <+: (x.node i).fsm.applied) := by
  obtain ⟨hI, _⟩ := inv_reachable hV (np_reachable h)
  have hF := fsmInv_reachable hV h
  have P3 : ∀ i j, (x.node i).fsm.index ≤ (x.node j).fsm.index →
      (x.node i).log.entries.take (x.node i).fsm.index = (x.node j).log.entries.take (x.node i).fsm.index ∧
      (x.node i).fsm.applied <+: (x.node j).fsm.applied := by
    intro i j hle
    have fi := (hF i).fsm
    have fj := (hF j).fsm
    have e := agree_take hI (i := i) (j := j) (F := (x.node i).fsm.index) fi.le (Nat.le_trans hle fj.le)
    refine ⟨e, ?_⟩
    rw [fi.applied, fj.applied, e, take_split (x.node j).log.entries _ _ hle, ups_append]
    exact List.prefix_append _ _
  refine ⟨fun i => ⟨(hF i).fsm.le, (hF i).fsm.len, (hF i).fsm.applied⟩, fun i k hk hki => ?_, P3, fun i j => ?_⟩
  · obtain ⟨_, m, hm, _, m2⟩ := covered_committed hI hk (Nat.le_trans hki (hF i).fsm.le)
    exact ⟨m, hm, m2⟩
  · rcases Nat.le_total (x.node i).fsm.index (x.node j).fsm.index with hle | hle
    · exact Or.inl (P3 i j hle).2
    · exact Or.inr (P3 j i hle).2

/-- **the leader's queue** (same assumptions): every log-type item waiting in a leader's queue — the items
`leader.applyCommitted` hands to the state machine instead of reading the log — is the log entry at its index. -/
theorem leader_queue_is_log_sys_partial (V : List Nat) (hV : V.Nodup) (x : Commit.Sys) (h : ReachableNP V x) :
    ∀ i, (x.node i).role = .leader → ∀ q ∈ (x.node i).ldr.queue, isLogEntryTyp q.typ = true →
      (x.node i).log.get? q.index = some q.toEntry := by
  obtain ⟨hI, _⟩ := inv_reachable hV (np_reachable h)
  intro i hl q hq ht
  have hget := (fsmInv_reachable hV h i).queue hl q hq ht
  obtain ⟨hlt, hge⟩ := List.getElem?_eq_some_iff.mp hget
  have hidx : q.index = q.index - 1 + 1 := by
    have := (nwf hI i).contig (q.index - 1) hlt
    rw [hge] at this
    exact this
  rw [(nwf hI i).get?, if_pos (by omega)]
  exact hget

/-- **the state machine only moves forward, by appending** (same assumptions): when a node handles an enabled
operation to completion without a failed assertion, its applied index does not decrease and the new command
sequence is the old one followed by the update payloads of the entries between the old and the new applied
index — no command is fed twice, none is skipped, nothing already fed is taken back. (A crash + restart starts a
new state-machine lifetime with nothing applied.) -/
theorem applied_only_grows_sys_partial (V : List Nat) (hV : V.Nodup) (x : Commit.Sys) (h : ReachableNP V x)
    (i : Nat) (op : Op) (ra : List Nat) (ord : List (List Nat)) (src : Nat) (he : Commit.Enabled x i op src)
    (hp : ((x.node i).step op ra ord).panicked = none) :
    (x.node i).fsm.index ≤ ((x.node i).step op ra ord).fsm.index ∧
    ((x.node i).step op ra ord).fsm.applied = (x.node i).fsm.applied ++
      ups ((((x.node i).step op ra ord).log.entries.drop (x.node i).fsm.index).take
        (((x.node i).step op ra ord).fsm.index - (x.node i).fsm.index)) := by
  obtain ⟨hI, hS⟩ := inv_reachable hV (np_reachable h)
  have hF := fsmInv_reachable hV h
  have sc : SC V x i op ra ord src := ⟨hV, hI, hS, he⟩
  have st := fsm_step (x.node i) op ra ord (nwf hI i) (hI.node.lwf i) (hI.rp.el.ids i).2 he.ok2 (hF i)
    (fun q hq hst => by
      subst hq
      have hq : q ∈ x.rp.sent := (he.rp.append q rfl).resolve_left hst
      refine ⟨(hI.rp.sent q hq).idx, reqok hI hq hst, ?_⟩
      by_cases h0 : (x.node i).commitIndex = 0
      · rw [h0]; exact Nat.zero_le _
      · exact (hI.cmt.cc i _ (by omega) (Nat.le_refl _)).1)
  obtain ⟨f, _, _⟩ := st hp
  have keep := (committed_never_replaced_sys_partial V hV x (np_reachable h)).2.1 i op ra ord src he
  have htake : ((x.node i).step op ra ord).log.entries.take (x.node i).fsm.index =
      (x.node i).log.entries.take (x.node i).fsm.index := by
    apply List.ext_getElem?
    intro n
    rw [List.getElem?_take, List.getElem?_take]
    split
    · rename_i hn
      have := (keep (n + 1) (by omega) (by have := (hF i).fsm.le; omega)).1
      rw [sc.nwf_post.get?, (nwf hI i).get?, if_pos (by omega), if_pos (by omega), Nat.add_sub_cancel] at this
      exact this
    · rfl
  refine ⟨f.mono, ?_⟩
  rw [f.applied, take_split _ _ _ f.mono, ups_append, htake, ← (hF i).fsm.applied]

/-! ### Examples (non-vacuity) -/

/-- example: the run `ex0 → ex1` of C02Sys (election timeout of node 1) has no failed assertion -/
example : [1, 2, 3].Nodup ∧ ReachableNP [1, 2, 3] C02Sys.ex1 := by
  refine ⟨by decide, .next C02Sys.ex0 C02Sys.ex1 (.init _ C02Sys.ex0_init.1 C02Sys.ex0_init.2) C02Sys.ex1_trans
    C02Sys.ex1_side (fun i => ?_)⟩
  by_cases h : i = 1
  · subst h; decide
  · show (setNode C04Sys.exNode 1 _ i).panicked = none
    rw [setNode_other _ _ _ _ h]; rfl

/-- example: the hypotheses of `applied_only_grows_sys_partial` hold for the election timeout of node 1 in the
initial state `C02Sys.ex0` -/
example : ReachableNP [1, 2, 3] C02Sys.ex0 ∧ Commit.Enabled C02Sys.ex0 1 .timeout 0 ∧
    ((C02Sys.ex0.node 1).step .timeout [] []).panicked = none :=
  ⟨.init _ C02Sys.ex0_init.1 C02Sys.ex0_init.2,
   ⟨⟨by decide, (fun q h => by cases h), (fun ⟨_, _, _, h⟩ => by cases h), trivial, (fun q h => by cases h)⟩,
    ⟨trivial, (fun b h => by cases h), (fun t c h => by cases h)⟩, (fun q h => by cases h),
    (fun q h => by cases h), (fun us h => by cases h)⟩,
   by decide⟩

/-- a node whose state machine is at 2 over the log (1, update "a") (2, no-op) (3, update "b") -/
def exN : Node :=
  { log := { entries := [{ index := 1, term := 1, typ := etUpdate, data := "a" },
                         { index := 2, term := 1, typ := etNop },
                         { index := 3, term := 2, typ := etUpdate, data := "b" }] },
    lastLogIndex := 3, commitIndex := 2, fsm := { index := 2, term := 1, applied := ["a"] } }

/-- example for the node-level invariant -/
example : FsmOK 1 exN := ⟨by decide, by decide, by decide, by decide⟩

/-! evaluation (tests, not proofs) of a scenario that continues `C02Sys.ex7` (node 1 leads term 2, index 2 is
committed): the leader accepts the update "a" at index 3, replicates it to nodes 2 and 3, commits and applies it;
a heartbeat carries the commit index to node 2, which applies it too. No assertion fails on the way. -/

def ex8 : Commit.Sys := stepC C02Sys.ex7 1 (.newEntries [{ typ := etUpdate, data := "a", task := 7 }]) [] [] 0
def exReq2 : AppendReq :=
  { term := 2, src := 1, prevLogIndex := 2, prevLogTerm := 2, ldrCommitIndex := 2,
    entries := (ex8.node 1).log.entries.drop 2 }
def ex9 : Commit.Sys := stepC (stepC (sendC ex8 exReq2) 2 (.append exReq2) [] [] 0) 3 (.append exReq2) [] [] 0
def ex10 : Commit.Sys :=
  stepC ex9 1 (.replUpdates [{ id := 2, upd := .matchIndex 3 }, { id := 3, upd := .matchIndex 3 }]) [] [] 0
def exReq3 : AppendReq :=
  { term := 2, src := 1, prevLogIndex := 3, prevLogTerm := 2, ldrCommitIndex := 3, entries := [] }
def ex11 : Commit.Sys := stepC (sendC ex10 exReq3) 2 (.append exReq3) [] [] 0

#guard (ex8.node 1).panicked.isNone && (ex8.node 1).log.entries.length == 3 && (ex8.node 1).ldr.queue.length == 1
#guard (ex9.node 2).panicked.isNone && (ex9.node 3).panicked.isNone && (ex9.node 2).log.entries.length == 3
#guard (ex10.node 1).panicked.isNone && (ex10.node 1).commitIndex == 3 && (ex10.node 1).fsm.index == 3
#guard (ex10.node 1).fsm.applied == ["a"] && (ex10.node 1).ldr.queue.isEmpty && ex10.committed == [(3, 2), (2, 2)]
#guard (ex10.node 2).fsm.applied == [] && (ex10.node 2).fsm.index == 2
#guard (ex11.node 2).panicked.isNone && (ex11.node 2).commitIndex == 3 && (ex11.node 2).fsm.applied == ["a"]

end C03Sys
end Raft

#print axioms Raft.C03Sys.fsm_step
#print axioms Raft.C03Sys.fsmInv_reachable
#print axioms Raft.C03Sys.state_machine_safety_sys_partial
#print axioms Raft.C03Sys.applied_only_grows_sys_partial
#print axioms Raft.C03Sys.leader_queue_is_log_sys_partial
