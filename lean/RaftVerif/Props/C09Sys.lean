/-
C09 (snapshots are transparent), C04 / C02 / C03 (log matching, leader completeness, state-machine safety) on the
cluster-level transition system WITH LOCAL SNAPSHOTS `Raft.Snap` (Sys/Snap.lean) — stage 1 of lifting the `OpOK`
restriction of `Raft.Commit`: `.takeSnapshot` / `.snapRun` / `.snapTaken` are enabled, nodes restart from their newest
snapshot file plus the log, append requests are handled by nodes with `snapIndex > 0` (consistency check skipped at or
below the snapshot index).  NOT yet in this stage: compaction (`log.prev` never moves: `.snapTaken` is only taken when it
does not compact, replication updates report no compaction) and installation of snapshots (`.install` never occurs);
`.shutdown` never occurs.  See the header of Sys/Snap.lean for the complete list of assumptions.

Method (Lemmas/SnapRel.lean, SnapRelA.lean, SnapSim.lean, SnapBump.lean, SnapInv.lean): the cluster is looked at
WITHOUT its snapshot data (`eview`: every node with `snapIndex = snapTerm = 0` and no snapshot files, in the state and
at every crash point).  Every handler that does not read the snapshot data commutes with this erasure
(`SnapRel.step_E`, proved for the whole mutually recursive leader block); an append request commutes too because —
by commit safety of the view (`C02Sys.reqok`) — it agrees with the log on everything the snapshot covers
(`SnapRel.append_step_E`); so the view of a run of `Raft.Snap` is a run of `Raft.Commit` interleaved with steps that
touch nothing the invariants of `Raft.Commit` read (`SnapSim.bump`): snapshot operations, and the difference between a
restart from a snapshot and a restart without (`SnapSim.restart_rel`: commit index, state machine and configurations of
a follower).  Hence the invariants of `Raft.Commit` hold for the view in every reachable state (`SnapInv.inv_reachable`),
together with the snapshot invariant `SnapOK` (every file on disk fits the log and the commit index).

The theorems below are statements about the nodes of the cluster itself (the erasure changes none of the fields they
mention).
-/
import RaftVerif.Lemmas.SnapInv

namespace Raft
namespace C09Sys
open Node Election LogRel Replication CommitRel Commit C02Sys C03Sys SnapRel SnapSim SnapInv Snap

section
variable {V : List Nat}

/-- the fields the theorems mention are those of the view -/
theorem view_log (x : Snap.Sys) (i : Nat) : ((eview x.cs).node i).log = (x.node i).log := rfl

/-- log matching, from the invariant (used for the reachable states of `Raft.Snap` and of `Raft.Snap2`) -/
theorem log_matching_of_inv (x : Snap.Sys) (hS : SInv V x) (i j k : Nat)
    (a b : Entry) (ha : (x.node i).log.get? k = some a) (hb : (x.node j).log.get? k = some b)
    (ht : a.term = b.term) :
    ∀ k', k' ≤ k → ∀ a' b', (x.node i).log.get? k' = some a' → (x.node j).log.get? k' = some b' → a' = b' := by
  have hI := hS.cinv.rp
  intro k' hk a' b' ha' hb'
  have e : ∀ i k, (x.node i).log.get? k = C04Sys.segGet 0 (x.node i).log.entries k :=
    fun i k => C04Sys.log_get hI i k
  rw [e] at ha hb ha' hb'
  exact C04Sys.seg_match hI.uniq (C04Sys.log_seg hI i) (C04Sys.log_seg hI j) (k - k') k k' (by omega) a b ha hb ht
    a' b' ha' hb'

/-- **C04 with local snapshots — log matching (partial, stage 1).** In every state of the cluster reachable in
`Raft.Snap` (`ReachableS V`: any schedule, message delay / loss / duplication / reordering, crashes at any storage
point and restarts from log + newest snapshot file, local snapshots taken at any time; assumptions: header of
Sys/Snap.lean): if the logs of nodes `i` and `j` hold entries with the same term at index `k`, then at every index
`k' ≤ k` they hold the SAME entry (index, term, type, payload, configuration).  In particular for nodes whose
`snapIndex` is positive, which skip the consistency check of `onAppendEntriesRequest` below it. -/
theorem log_matching_sys_snap_partial (hV : V.Nodup) (x : Snap.Sys) (h : ReachableS V x) (i j k : Nat)
    (a b : Entry) (ha : (x.node i).log.get? k = some a) (hb : (x.node j).log.get? k = some b)
    (ht : a.term = b.term) :
    ∀ k', k' ≤ k → ∀ a' b', (x.node i).log.get? k' = some a' → (x.node j).log.get? k' = some b' → a' = b' :=
  log_matching_of_inv x (inv_reachable hV h).1 i j k a b ha hb ht

/-- `leader_completeness_sys_snap_partial` from the invariant -/
theorem leader_completeness_of_inv (hV : V.Nodup) (x : Snap.Sys) (hS : SInv V x) :
    (∀ i, (x.node i).role = .leader → ∀ m ∈ x.cs.committed, m.2 ≤ (x.node i).term →
      ∃ e, (x.node i).log.get? m.1 = some e ∧ e.term = m.2) ∧
    (∀ i j k, (x.node i).role = .leader → (x.node j).term ≤ (x.node i).term → 1 ≤ k →
      k ≤ (x.node j).commitIndex →
      (x.node i).log.get? k = (x.node j).log.get? k ∧ ((x.node j).log.get? k).isSome = true) ∧
    (∀ m ∈ x.cs.committed, ∀ c ∈ x.cs.T, m.2 < c.e.term → Anc x.cs.T m (key c)) := by
  have hI := hS.cinv
  refine ⟨fun i hl m hm hle => ?_, fun i j k hl hij hk hkc => ?_, hI.cmt.lc⟩
  · have hh := leader_holds_committed (x := eview x.cs) hV hI (i := i) hl hm hle
    obtain ⟨e, he, het⟩ := holds_get hh
    refine ⟨e, ?_, het⟩
    have := (nwf hI i).get? m.1
    rw [if_pos (show 0 < m.1 from hh.1)] at this
    exact this.trans he
  · obtain ⟨hj, m, hm, m1, m2⟩ := covered_committed (x := eview x.cs) hI (j := j) hk hkc
    have hmi := leader_holds_committed (x := eview x.cs) hV hI (i := i) hl hm (Nat.le_trans m1 hij)
    have hki := log_holds_anc hI i m2 hmi
    refine ⟨same_entries hI hki hj hk (Nat.le_refl _), ?_⟩
    obtain ⟨e, he, _⟩ := holds_get hj
    have := (nwf hI j).get? k
    rw [if_pos (show 0 < k from hk)] at this
    show ((x.node j).log.get? k).isSome = true
    rw [show (x.node j).log.get? k = _ from this, he]; rfl

/-- **C02 with local snapshots — leader completeness (partial, stage 1).** In every reachable state of `Raft.Snap`:
1. every leader holds every entry of the ledger `committed` (the entries a leader's commit index reached by the
   majority rule) whose term is not above its own;
2. every leader `i` whose term is at least the term of node `j` holds, at every index within `j`'s commit index, the
   very entry `j` holds there — where `j`'s commit index may come from a snapshot file read at restart
   (`commitIndex = snapIndex`);
3. every created entry of a later term extends every ledger entry. -/
theorem leader_completeness_sys_snap_partial (hV : V.Nodup) (x : Snap.Sys) (h : ReachableS V x) :
    (∀ i, (x.node i).role = .leader → ∀ m ∈ x.cs.committed, m.2 ≤ (x.node i).term →
      ∃ e, (x.node i).log.get? m.1 = some e ∧ e.term = m.2) ∧
    (∀ i j k, (x.node i).role = .leader → (x.node j).term ≤ (x.node i).term → 1 ≤ k →
      k ≤ (x.node j).commitIndex →
      (x.node i).log.get? k = (x.node j).log.get? k ∧ ((x.node j).log.get? k).isSome = true) ∧
    (∀ m ∈ x.cs.committed, ∀ c ∈ x.cs.T, m.2 < c.e.term → Anc x.cs.T m (key c)) :=
  leader_completeness_of_inv hV x (inv_reachable hV h).1

/-- `state_machine_safety_sys_snap_partial` from the invariant -/
theorem state_machine_safety_of_inv (x : Snap.Sys) (hS : SInv V x) :
    (∀ i, (x.node i).fsm.index ≤ (x.node i).commitIndex ∧
      (x.node i).fsm.index ≤ (x.node i).log.entries.length ∧
      (x.node i).fsm.applied = ups ((x.node i).log.entries.take (x.node i).fsm.index)) ∧
    (∀ i k, 1 ≤ k → k ≤ (x.node i).fsm.index → Committed x.cs (k, termAt (x.node i).log.entries k)) ∧
    (∀ i j, (x.node i).fsm.index ≤ (x.node j).fsm.index →
      (x.node i).log.entries.take (x.node i).fsm.index = (x.node j).log.entries.take (x.node i).fsm.index ∧
      (x.node i).fsm.applied <+: (x.node j).fsm.applied) ∧
    (∀ i j, (x.node i).fsm.applied <+: (x.node j).fsm.applied ∨
      (x.node j).fsm.applied <+: (x.node i).fsm.applied) := by
  have hI := hS.cinv
  have hF := hS.fsm
  have P3 : ∀ i j, (x.node i).fsm.index ≤ (x.node j).fsm.index →
      (x.node i).log.entries.take (x.node i).fsm.index = (x.node j).log.entries.take (x.node i).fsm.index ∧
      (x.node i).fsm.applied <+: (x.node j).fsm.applied := by
    intro i j hle
    have fi := (hF i).fsm
    have fj := (hF j).fsm
    have e := agree_take hI (i := i) (j := j) (F := (x.node i).fsm.index) fi.le (Nat.le_trans hle fj.le)
    refine ⟨e, ?_⟩
    have ai : (x.node i).fsm.applied = ups ((x.node i).log.entries.take (x.node i).fsm.index) := fi.applied
    have aj : (x.node j).fsm.applied = ups ((x.node j).log.entries.take (x.node j).fsm.index) := fj.applied
    have e' : (x.node i).log.entries.take (x.node i).fsm.index =
        (x.node j).log.entries.take (x.node i).fsm.index := e
    rw [ai, aj, e', take_split (x.node j).log.entries _ _ hle, ups_append]
    exact List.prefix_append _ _
  refine ⟨fun i => ⟨(hF i).fsm.le, (hF i).fsm.len, (hF i).fsm.applied⟩, fun i k hk hki => ?_, P3, fun i j => ?_⟩
  · obtain ⟨_, m, hm, _, m2⟩ := covered_committed (x := eview x.cs) hI (j := i) hk (Nat.le_trans hki (hF i).fsm.le)
    exact ⟨m, hm, m2⟩
  · rcases Nat.le_total (x.node i).fsm.index (x.node j).fsm.index with hle | hle
    · exact Or.inl (P3 i j hle).2
    · exact Or.inr (P3 j i hle).2

/-- **C03 with local snapshots — state-machine safety (partial, stage 1).** In every reachable state of `Raft.Snap`,
on every node — whatever mixture of applying log entries, taking snapshots, crashing and restoring the state machine
from a snapshot file at restart produced its state:
1. the state machine holds exactly the update payloads of its log entries `1 … fsm.index`, in order (`fsm.applied` is
   the replay of the log up to the applied index), and never ran ahead of the commit index;
2. every entry it has been fed is committed;
3. a node that applied no more than another holds the same entries up to its applied index and its command sequence
   is a prefix of the other's; hence any two command sequences are prefix-comparable. -/
theorem state_machine_safety_sys_snap_partial (hV : V.Nodup) (x : Snap.Sys) (h : ReachableS V x) :
    (∀ i, (x.node i).fsm.index ≤ (x.node i).commitIndex ∧
      (x.node i).fsm.index ≤ (x.node i).log.entries.length ∧
      (x.node i).fsm.applied = ups ((x.node i).log.entries.take (x.node i).fsm.index)) ∧
    (∀ i k, 1 ≤ k → k ≤ (x.node i).fsm.index → Committed x.cs (k, termAt (x.node i).log.entries k)) ∧
    (∀ i j, (x.node i).fsm.index ≤ (x.node j).fsm.index →
      (x.node i).log.entries.take (x.node i).fsm.index = (x.node j).log.entries.take (x.node i).fsm.index ∧
      (x.node i).fsm.applied <+: (x.node j).fsm.applied) ∧
    (∀ i j, (x.node i).fsm.applied <+: (x.node j).fsm.applied ∨
      (x.node j).fsm.applied <+: (x.node i).fsm.applied) :=
  state_machine_safety_of_inv x (inv_reachable hV h).1

/-- `snapshot_is_committed_prefix_partial` from the invariant -/
theorem snapshot_is_committed_prefix_of_inv (x : Snap.Sys) (hS : SInv V x) :
    ∀ i f, ((i, f) ∈ x.snaps ∨ f ∈ (x.node i).snapsDisk) →
      1 ≤ f.index ∧ f.index ≤ (x.node i).snapIndex ∧ (x.node i).snapIndex ≤ (x.node i).commitIndex ∧
      (∀ k, 1 ≤ k → k ≤ f.index → Committed x.cs (k, termAt (x.node i).log.entries k)) ∧
      f.data = ups ((x.node i).log.entries.take f.index) ∧
      ∀ j, f.index ≤ (x.node j).commitIndex → f.data = ups ((x.node j).log.entries.take f.index) := by
  have hI := hS.cinv
  intro i f hf
  have so := hS.snap i
  have hsc : (x.node i).snapIndex ≤ (x.node i).commitIndex := by rw [so.head]; exact so.files.head_le
  have key : 1 ≤ f.index ∧ f.index ≤ (x.node i).snapIndex ∧
      f.data = ups ((x.node i).log.entries.take f.index) := by
    rcases hf with hf | hf
    · exact hS.ledger (i, f) hf
    · obtain ⟨a, _, c⟩ := so.files.files f hf
      exact ⟨a, by rw [so.head]; exact so.files.le_head f hf, c⟩
  obtain ⟨k1, k2, k3⟩ := key
  refine ⟨k1, k2, hsc, fun k hk hkf => ?_, k3, fun j hj => ?_⟩
  · obtain ⟨_, m, hm, _, m2⟩ := covered_committed (x := eview x.cs) hI (j := i) hk
      (Nat.le_trans hkf (Nat.le_trans k2 hsc))
    exact ⟨m, hm, m2⟩
  · have e := agree_take hI (i := i) (j := j) (F := f.index) (Nat.le_trans k2 hsc) hj
    have e' : (x.node i).log.entries.take f.index = (x.node j).log.entries.take f.index := e
    rw [k3, e']

/-- **C09 — a snapshot is a committed prefix (partial, stage 1).** In every reachable state of `Raft.Snap`, for every
snapshot file `f` that node `i` ever had on disk (the ghost ledger `snaps`: files written by `snapRun`, files found by
a restart), and for every file on its disk now:
1. `f.index ≥ 1` is not above node `i`'s snapshot index, hence not above its commit index: **a snapshot never contains
   an uncommitted update** — every index `k ≤ f.index` of `i`'s log holds a committed entry;
2. `f.data` is the list of update payloads of the entries `1 … f.index` of node `i`'s log — **the snapshot is the
   replay of the log up to its index**;
3. and it is the replay of the log of EVERY node `j` whose commit index covers `f.index` (the committed prefix is
   the same everywhere), in particular of every leader of a term not below `i`'s. -/
theorem snapshot_is_committed_prefix_partial (hV : V.Nodup) (x : Snap.Sys) (h : ReachableS V x) :
    ∀ i f, ((i, f) ∈ x.snaps ∨ f ∈ (x.node i).snapsDisk) →
      1 ≤ f.index ∧ f.index ≤ (x.node i).snapIndex ∧ (x.node i).snapIndex ≤ (x.node i).commitIndex ∧
      (∀ k, 1 ≤ k → k ≤ f.index → Committed x.cs (k, termAt (x.node i).log.entries k)) ∧
      f.data = ups ((x.node i).log.entries.take f.index) ∧
      ∀ j, f.index ≤ (x.node j).commitIndex → f.data = ups ((x.node j).log.entries.take f.index) :=
  snapshot_is_committed_prefix_of_inv x (inv_reachable hV h).1

/-- **C09 — restarting from a snapshot plus the log (partial, stage 1).** When a node of a reachable state dies at any
storage point of any enabled operation and restarts from what is on disk — log, term, vote and snapshot files — then,
provided the restarted state satisfies the side condition of the stage (its log was not reset, …: `SideS`), the
restarted node's state machine holds exactly the replay of its log up to its applied index, which equals its snapshot
index and its commit index; every file it found on disk is the replay of its log up to the file's index. -/
theorem restart_from_snapshot_partial (hV : V.Nodup) (x y : Snap.Sys) (h : ReachableS V x)
    (i : Nat) (op : Op) (ra : List Nat) (ord : List (List Nat)) (src k retain : Nat) (sor : Bool) (n : Node)
    (en : Snap.Enabled x.cs i op src) (hret : 1 ≤ retain)
    (hlog : op = .snapTaken → ((x.node i).step op ra ord).log = (x.node i).log)
    (hn : Node.restart (C05.crashDisk (x.node i) op ra ord k) retain sor = some n)
    (hy : y = { cs := crashC x.cs i op n, snaps := newSnaps i (x.node i).snapsDisk n.snapsDisk ++ x.snaps })
    (hs : SideS V y) :
    n.fsm.applied = ups (n.log.entries.take n.fsm.index) ∧ n.fsm.index ≤ n.commitIndex ∧
    n.snapIndex ≤ n.fsm.index ∧
    ∀ f ∈ n.snapsDisk, f.index ≤ n.commitIndex ∧ f.data = ups (n.log.entries.take f.index) := by
  have hry : ReachableS V y := by
    subst hy
    exact .next x _ h (.crash i op ra ord src k retain sor n en hret hlog hn) hs
  obtain ⟨hS, _⟩ := inv_reachable hV hry
  have hni : y.node i = n := by subst hy; exact crashC_node_i x.cs i op n
  have fb := hS.fsm i
  have so := hS.snap i
  rw [hni] at so
  have fa : (y.node i).fsm.applied = ups ((y.node i).log.entries.take (y.node i).fsm.index) := fb.fsm.applied
  have fl : (y.node i).fsm.index ≤ (y.node i).commitIndex := fb.fsm.le
  rw [hni] at fa fl
  exact ⟨fa, fl, so.le, fun f hf => ⟨(so.files.files f hf).2.1, (so.files.files f hf).2.2⟩⟩

end

/-! ### Examples (non-vacuity): three voters, every node bootstrapped with the same configuration entry (1,1)
(the example states of C02Sys / C04Sys).  A reachable state in which a snapshot was requested and the snapshot
goroutine ran is PROVED reachable; the scenario in which a snapshot is actually written, the leader keeps
replicating, and the leader dies and restarts from the snapshot is EVALUATED (`#guard` — tests, not proofs — because
the mutually recursive leader block does not reduce in the kernel). -/

/-- example initial state: `C02Sys.ex0` with an empty snapshot ledger -/
def exS0 : Snap.Sys := { cs := C02Sys.ex0, snaps := [] }

/-- node 2 is asked for a snapshot (`TakeSnapshot(threshold = 0)`), the snapshot goroutine runs (and refuses: nothing
was applied since the last snapshot), the result is handed back -/
def exS1 : Snap.Sys :=
  { cs := stepC exS0.cs 2 (.takeSnapshot 7 0) [] [] 0
    snaps := newSnaps 2 (exS0.node 2).snapsDisk ((exS0.node 2).step (.takeSnapshot 7 0) [] []).snapsDisk ++ exS0.snaps }
def exS2 : Snap.Sys :=
  { cs := stepC exS1.cs 2 .snapRun [] [] 0
    snaps := newSnaps 2 (exS1.node 2).snapsDisk ((exS1.node 2).step .snapRun [] []).snapsDisk ++ exS1.snaps }

theorem exS0_init : Snap.Init exS0 ∧ SideS [1, 2, 3] exS0 := by
  refine ⟨⟨C02Sys.ex0_init.1, fun i => Nat.le_refl _, rfl⟩, C02Sys.ex0_init.2, fun i => rfl, fun i e he ht => ?_⟩
  have : e = C04Sys.exE := List.mem_singleton.mp he
  subst this; rfl

theorem exEnabled (x : Commit.Sys) (op : Op) (h1 : OpOKS op) (h2 : ∀ q, op ≠ .vote q) (h3 : ∀ q, op ≠ .append q)
    (h4 : ∀ b, op ≠ .newEntries b) (h5 : ∀ t c, op ≠ .changeConfig t c) (h6 : ∀ a b c, op ≠ .voteResult a b c)
    (h7 : ∀ us, op ≠ .replUpdates us) : Snap.Enabled x 2 op 0 :=
  ⟨by decide, fun q h => absurd h (h2 q), fun ⟨_, _, _, h⟩ => absurd h (h6 _ _ _), ⟨h1, fun b h => absurd h (h4 b), h5⟩,
    fun q h => absurd h (h3 q), fun q h => absurd h (h2 q), fun q h => absurd h (h3 q), fun us h => absurd h (h7 us)⟩

theorem exSide (x : Commit.Sys) (n : Node) (hn : n.configs = (C04Sys.exNode 2).configs) (hl : n.log = (C04Sys.exNode 2).log)
    (hx : x.rp.el.node = setNode C04Sys.exNode 2 n) (s : List (Nat × SnapFile)) :
    SideS [1, 2, 3] { cs := x, snaps := s } := by
  have hnode : ∀ i, x.node i = setNode C04Sys.exNode 2 n i := fun i => by
    show x.rp.el.node i = _; rw [hx]
  refine ⟨⟨fun i => ?_, fun i => ?_⟩, fun i => ?_, fun i e he ht => ?_⟩
  all_goals (
    have hi := hnode i
    by_cases h : i = 2
    · subst h
      rw [setNode_same] at hi
      first
        | (show (x.node 2).configs.isBootstrapped = true ∧ (x.node 2).configs.latest.voters = _
           rw [hi, hn]; exact ⟨rfl, rfl⟩)
        | (show (x.node 2).configs.latest.isStable = true
           rw [hi, hn]; decide)
        | (show (x.node 2).log.prev = 0
           rw [hi, hl]; rfl)
        | (have he' : e ∈ (x.node 2).log.entries := he
           rw [hi, hl] at he'
           have : e = C04Sys.exE := List.mem_singleton.mp he'
           subst this; rfl)
    · rw [setNode_other _ _ _ _ h] at hi
      first
        | (show (x.node i).configs.isBootstrapped = true ∧ (x.node i).configs.latest.voters = _
           rw [hi]; exact ⟨rfl, rfl⟩)
        | (show (x.node i).configs.latest.isStable = true
           rw [hi]; rfl)
        | (show (x.node i).log.prev = 0
           rw [hi]; rfl)
        | (have he' : e ∈ (x.node i).log.entries := he
           rw [hi] at he'
           have : e = C04Sys.exE := List.mem_singleton.mp he'
           subst this; rfl))

set_option maxRecDepth 100000 in
/-- example: `exS2` is reachable in `Raft.Snap` — the hypotheses of the theorems of this file hold for a state in
which the snapshot operations have been used: node 2 has a finished (refused) snapshot waiting to be handed over -/
example : [1, 2, 3].Nodup ∧ ReachableS [1, 2, 3] exS2 ∧
    (exS2.node 2).snapResult = some { task := 7, err := "plain:noUpdates" } := by
  have t1 : Snap.Trans exS0 exS1 :=
    .step 2 (.takeSnapshot 7 0) [] [] 0
      (exEnabled _ _ trivial (fun _ h => by cases h) (fun _ h => by cases h) (fun _ h => by cases h)
        (fun _ _ h => by cases h) (fun _ _ _ h => by cases h) (fun _ h => by cases h))
      (by decide) (fun h => by cases h)
  have s1 : SideS [1, 2, 3] exS1 :=
    exSide _ ((C04Sys.exNode 2).step (.takeSnapshot 7 0) [] []) (by decide) (by decide) rfl _
  have t2 : Snap.Trans exS1 exS2 :=
    .step 2 .snapRun [] [] 0
      (exEnabled _ _ trivial (fun _ h => by cases h) (fun _ h => by cases h) (fun _ h => by cases h)
        (fun _ _ h => by cases h) (fun _ _ _ h => by cases h) (fun _ h => by cases h))
      (by decide) (fun h => by cases h)
  have s2 : SideS [1, 2, 3] exS2 :=
    exSide _ (((C04Sys.exNode 2).step (.takeSnapshot 7 0) [] []).step .snapRun [] []) (by decide) (by decide)
      (by
        show setNode (setNode C04Sys.exNode 2 _) 2 _ = _
        funext j
        unfold setNode
        split <;> rfl) _
  exact ⟨by decide, .next _ _ (.next _ _ (.init _ exS0_init.1 exS0_init.2) t1 s1) t2 s2, by decide⟩

/-! #### an evaluated scenario with a real snapshot (continues `C02Sys.ex7`: node 1 leads term 2, index 2 committed
and applied on node 1) -/

/-- node 1 is asked for a snapshot, the goroutine writes the file `(index 2, term 2, [])`, the result is handed
over (no compaction: one segment) -/
def exT1 : Commit.Sys := stepC C02Sys.ex7 1 (.takeSnapshot 9 0) [] [] 0
def exT2 : Commit.Sys := stepC exT1 1 .snapRun [] [] 0
def exT3 : Commit.Sys := stepC exT2 1 .snapTaken [] [] 0
/-- node 1 dies (between two steps) and restarts from its disk: log + snapshot file -/
def exT4n : Option Node := Node.restart (C05.crashDisk (exT3.node 1) .timeout [] [] 0) 1 true

#guard (exT2.node 1).snapIndex == 2 && (exT2.node 1).snapTerm == 2 &&
  (exT2.node 1).snapsDisk.map (fun f => (f.index, f.term, f.data)) == [(2, 2, [])] &&
  (exT2.node 1).panicked.isNone
#guard (exT3.node 1).log.prev == 0 && (exT3.node 1).log == (exT2.node 1).log && (exT3.node 1).panicked.isNone &&
  (exT3.node 1).snapResult.isNone
#guard (exT4n.map (fun n => (n.snapIndex, n.commitIndex, n.fsm.index, n.fsm.applied, n.log.prev, n.log.entries.length,
    n.role == .follower, n.panicked.isNone))) == some (2, 2, 2, [], 0, 2, true, true)
-- node 2 (snapshot index 0) and the restarted node 1 (snapshot index 2) hold the same entries: log matching
#guard (exT4n.map (fun n => n.log.entries)) == some (exT3.node 2).log.entries

end C09Sys
end Raft

#print axioms Raft.C09Sys.log_matching_sys_snap_partial -- also C04
#print axioms Raft.C09Sys.leader_completeness_sys_snap_partial -- also C02
#print axioms Raft.C09Sys.state_machine_safety_sys_snap_partial -- also C03
#print axioms Raft.C09Sys.snapshot_is_committed_prefix_partial -- also C12
#print axioms Raft.C09Sys.restart_from_snapshot_partial
