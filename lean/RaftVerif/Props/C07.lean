/-
C07 — Client-visible semantics of updates, reads and barriers (node-local part).

PROVED here for ALL states and inputs of the node model:
* `store_order*`: a leader (voter, no transfer) stamps a submitted batch in submission order: item k gets
  index lastLogIndex + (number of log-type items before it) + 1 and the leader's term; the log-type items
  occupy lastLogIndex+1, +2, … consecutively and are appended to the log in that order; reads and barriers
  get "next index" and leave the log untouched.
* `definite_rejection_*`: a non-leader (`rejectEntries`), a leader with a transfer in progress and a leader
  that is no longer a voter (`storeItems`) change NOTHING but the reply list: no log entry, no queue item;
  every task gets exactly the documented definite error (or the dirty-read value).
* `reply_only_after_commit*`: the items `leader.applyCommitted` hands to the FSM goroutine — the only place a
  queued task gets a result — all have index ≤ commitIndex, or are reads/barriers stamped commitIndex+1; the
  rest stays queued in order; the tasks answered by that call are among those handed over.
* `lost_leadership_replies`: `leader.release` answers every queued item and every waitForStableConfig
  task exactly once, all with NotLeaderError{Lost: true} (or ErrServerClosed when closing), changes nothing
  else but `leader` and the (emptied) queue/wait list.
* `dirty_read_sees_applied_only`: a dirty read on a non-leader is answered from `fsm.applied` as it is,
  which by `C03.apply_never_beyond_commit` never extends beyond the commit index.

NOT proved here (history-level; checked by the engines on explored executions): exactly-once and real-time
order of completed updates across leader changes, at-most-once fate of ambiguous failures, and that a
leader read reflects every update accepted before it (needs the cluster-level C02/C03).
-/
import RaftVerif.Props.C03
import RaftVerif.Props.C16

namespace Raft
namespace C07
open Node

/-! ### 1. submission order -/

theorem assign_length (last term : Nat) (batch : List QItem) : (C03.assign last term batch).length = batch.length := by
  induction batch generalizing last with
  | nil => rfl
  | cons q qs ih => simp [C03.assign, ih]

/-- the stamp does not alter what the client submitted: task, type, payload stay, in order -/
theorem assign_preserves (last term : Nat) (batch : List QItem) :
    (C03.assign last term batch).map (fun q => (q.task, q.typ, q.data)) = batch.map (fun q => (q.task, q.typ, q.data)) := by
  induction batch generalizing last with
  | nil => rfl
  | cons q qs ih => simp [C03.assign, ih]

/-- **store_order** (positions): item number k of the batch is stamped with the leader's term and index
lastLogIndex + (number of log-type items before it) + 1. -/
theorem store_order_index (last term : Nat) (batch : List QItem) (k : Nat) (hk : k < batch.length) :
    ((C03.assign last term batch)[k]'(by rw [assign_length]; exact hk)).index =
      last + ((batch.take k).filter (fun q => isLogEntryTyp q.typ)).length + 1 ∧
    ((C03.assign last term batch)[k]'(by rw [assign_length]; exact hk)).term = term := by
  induction batch generalizing last k with
  | nil => simp at hk
  | cons q qs ih =>
    cases k with
    | zero => simp [C03.assign]
    | succ k =>
      have hk' : k < qs.length := by simpa using hk
      simp only [C03.assign, List.getElem_cons_succ, List.take_succ_cons, List.filter_cons]
      obtain ⟨i1, i2⟩ := ih (if isLogEntryTyp q.typ then last + 1 else last) k hk'
      refine ⟨?_, i2⟩
      rw [i1]
      split <;> simp <;> omega

/-- **store_order** (log entries): the log-type items of the stamped batch have the consecutive indexes
lastLogIndex+1, lastLogIndex+2, … in submission order. -/
theorem store_order_log_indexes (last term : Nat) (batch : List QItem) :
    (((C03.assign last term batch).filter (fun q => isLogEntryTyp q.typ)).map (·.index)) =
      List.range' (last + 1) ((batch.filter (fun q => isLogEntryTyp q.typ)).length) := by
  induction batch generalizing last with
  | nil => rfl
  | cons q qs ih =>
    simp only [C03.assign, List.filter_cons]
    by_cases hl : isLogEntryTyp q.typ = true
    · simp only [hl, if_true, List.map_cons, List.length_cons, List.range'_succ]
      rw [ih]
    · have hl' : isLogEntryTyp q.typ = false := by simpa using hl
      simp only [hl', Bool.false_eq_true, if_false]
      rw [ih]

/-- non-vacuity: last index 7: update, read, update → indexes 8, 9 (next index), 9 -/
example : (C03.assign 7 2 [{ typ := etUpdate, task := 1 }, { typ := etRead, task := 2 }, { typ := etUpdate, task := 3 }]).map
    (fun q => (q.index, q.term, q.task)) = [(8, 2, 1), (9, 2, 2), (9, 2, 3)] := by decide

/-- **store_order**: what `storeItems` does with a batch (leader is voter, no transfer, no configuration
entry in the batch): queue and log grow by the stamped batch in submission order; see
`store_order_index` / `store_order_log_indexes` for the stamps. -/
theorem store_order (fuel : Nat) (s : Node) (batch : List QItem) (hf : fuel ≥ batch.length)
    (ht : s.ldr.transfer.active = false) (hv : s.ldr.node.voter = true)
    (hnc : ∀ q ∈ batch, q.typ ≠ etConfig) :
    (storeItems fuel s batch).ldr.queue = s.ldr.queue ++ C03.assign s.lastLogIndex s.term batch ∧
    (storeItems fuel s batch).log.entries = s.log.entries ++
      ((C03.assign s.lastLogIndex s.term batch).filter (fun q => isLogEntryTyp q.typ)).map QItem.toEntry ∧
    (storeItems fuel s batch).lastLogIndex = s.lastLogIndex + (batch.filter (fun q => isLogEntryTyp q.typ)).length ∧
    (storeItems fuel s batch).replies = s.replies := by
  obtain ⟨a, b, _, d, _, f, _⟩ := C03.leader_queue_matches_log fuel s batch hf ht hv hnc
  exact ⟨a, b, d, f⟩

/-- reads, dirty reads and barriers are queued with "next index" and do not touch the log -/
theorem store_reads_leave_log (fuel : Nat) (s : Node) (batch : List QItem) (hf : fuel ≥ batch.length)
    (ht : s.ldr.transfer.active = false) (hv : s.ldr.node.voter = true)
    (hr : ∀ q ∈ batch, isLogEntryTyp q.typ = false) :
    (storeItems fuel s batch).log.entries = s.log.entries ∧ (storeItems fuel s batch).lastLogIndex = s.lastLogIndex ∧
    ∀ q ∈ C03.assign s.lastLogIndex s.term batch, q.index = s.lastLogIndex + 1 := by
  have hnc : ∀ q ∈ batch, q.typ ≠ etConfig := by
    intro q hq he
    have := hr q hq
    rw [he] at this
    simp [isLogEntryTyp, etConfig, etRead, etDirtyRead, etBarrier] at this
  have hfil : batch.filter (fun q => isLogEntryTyp q.typ) = [] := by
    apply List.filter_eq_nil_iff.mpr
    intro q hq; rw [hr q hq]; simp
  obtain ⟨_, b, c, _⟩ := store_order fuel s batch hf ht hv hnc
  have hall : ∀ (last : Nat) (b : List QItem), (∀ q ∈ b, isLogEntryTyp q.typ = false) →
      ∀ q ∈ C03.assign last s.term b, q.index = last + 1 ∧ isLogEntryTyp q.typ = false := by
    intro last b
    induction b with
    | nil => intro _ q hq; simp [C03.assign] at hq
    | cons x xs ih =>
      intro hb q hq
      have hx := hb x (List.mem_cons_self ..)
      simp only [C03.assign, hx, Bool.false_eq_true, if_false, List.mem_cons] at hq
      rcases hq with hq | hq
      · rw [hq]; exact ⟨rfl, hx⟩
      · exact ih (fun y hy => hb y (List.mem_cons_of_mem _ hy)) q hq
  refine ⟨?_, by rw [c, hfil]; rfl, fun q hq => (hall _ _ hr q hq).1⟩
  rw [b]
  have : (C03.assign s.lastLogIndex s.term batch).filter (fun q => isLogEntryTyp q.typ) = [] := by
    apply List.filter_eq_nil_iff.mpr
    intro q hq; rw [(hall _ _ hr q hq).2]; simp
  rw [this]; simp

/-! ### 2. a definite rejection appends nothing -/

/-- what a non-leader answers to one submitted item -/
def rejectReply (s : Node) (q : QItem) : String :=
  if q.typ = etDirtyRead then s!"val:{s.fsm.applied.length}" else s.notLeader false

theorem rejectReply_addReplies (s : Node) (rs : List Reply) (q : QItem) :
    rejectReply (s.addReplies rs) q = rejectReply s q := rfl

/-- **definite rejection by a non-leader**: `rejectEntries` changes nothing but the reply list — no log
entry, no queue item, no FSM change — and answers every item that carries a task exactly once, in order:
NotLeaderError with Lost = false, or the value for a dirty read. -/
theorem definite_rejection_not_leader (s : Node) (batch : List QItem) :
    s.rejectEntries batch =
      s.addReplies (batch.flatMap (fun q => mkReply? q.task (rejectReply s q))) := by
  induction batch generalizing s with
  | nil => exact (addReplies_nil s).symm
  | cons q qs ih =>
    unfold Node.rejectEntries
    dsimp only
    have e : (if q.typ = etDirtyRead then s.reply q.task s!"val:{s.fsm.applied.length}"
              else s.reply q.task (s.notLeader false)) = s.reply q.task (rejectReply s q) := by
      unfold rejectReply; split <;> rfl
    rw [e, ih, reply_eq_addReplies, addReplies_addReplies]
    rfl

/-- …in particular log, last log index, leader queue, FSM and commit index are untouched -/
theorem definite_rejection_never_appended (s : Node) (batch : List QItem) :
    (s.rejectEntries batch).log = s.log ∧ (s.rejectEntries batch).lastLogIndex = s.lastLogIndex ∧
    (s.rejectEntries batch).ldr = s.ldr ∧ (s.rejectEntries batch).fsm = s.fsm ∧
    (s.rejectEntries batch).commitIndex = s.commitIndex ∧ (s.rejectEntries batch).panicked = s.panicked := by
  rw [definite_rejection_not_leader]; exact ⟨rfl, rfl, rfl, rfl, rfl, rfl⟩

/-- **definite rejection during a transfer**: the leader changes nothing but the reply list; every task
gets InProgressError("transferLeadership"). -/
theorem definite_rejection_transfer (fuel : Nat) (s : Node) (batch : List QItem)
    (h : s.ldr.transfer.active = true) (hf : fuel ≥ batch.length) :
    storeItems fuel s batch =
      s.addReplies (batch.flatMap (fun q => mkReply? q.task "inProgress:transferLeadership")) := by
  induction batch generalizing s fuel with
  | nil => unfold storeItems; exact (addReplies_nil s).symm
  | cons q qs ih =>
    cases fuel with
    | zero => simp at hf
    | succ n =>
      unfold storeItems
      dsimp only
      rw [if_pos h, reply_eq_addReplies,
        ih n (s.addReplies (mkReply? q.task "inProgress:transferLeadership")) h (by simp at hf; omega),
        addReplies_addReplies]
      rfl

/-- what a leader that is no longer a voter answers -/
def nonVoterReply (s : Node) : String :=
  if s.configs.latest.has s.nid then "inProgress:demoteLeader" else "inProgress:removeLeader"

/-- **definite rejection by a demoted / removed leader** (its own demotion or removal is in the log but
not yet committed): nothing but the reply list changes; every task gets InProgressError. -/
theorem definite_rejection_nonvoter (fuel : Nat) (s : Node) (batch : List QItem)
    (ht : s.ldr.transfer.active = false) (hv : s.ldr.node.voter = false) (hf : fuel ≥ batch.length) :
    storeItems fuel s batch =
      s.addReplies (batch.flatMap (fun q => mkReply? q.task (nonVoterReply s))) := by
  induction batch generalizing s fuel with
  | nil => unfold storeItems; exact (addReplies_nil s).symm
  | cons q qs ih =>
    cases fuel with
    | zero => simp at hf
    | succ n =>
      unfold storeItems
      dsimp only
      rw [if_neg (by simp [ht]), if_pos (by simp [hv])]
      have e : (if s.configs.latest.has s.nid = true then s.reply q.task "inProgress:demoteLeader"
                else s.reply q.task "inProgress:removeLeader") = s.reply q.task (nonVoterReply s) := by
        unfold nonVoterReply; split <;> rfl
      rw [e, reply_eq_addReplies,
        ih n (s.addReplies (mkReply? q.task (nonVoterReply s))) ht hv (by simp at hf; omega),
        addReplies_addReplies]
      rfl

/-- in all three cases: log and queue untouched (restating C16.store_rejected_during_transfer for the
transfer case) -/
theorem definite_rejection_leader_never_appended (fuel : Nat) (s : Node) (batch : List QItem)
    (h : s.ldr.transfer.active = true ∨ s.ldr.node.voter = false) (hf : fuel ≥ batch.length) :
    (storeItems fuel s batch).log = s.log ∧ (storeItems fuel s batch).lastLogIndex = s.lastLogIndex ∧
    (storeItems fuel s batch).ldr = s.ldr ∧ (storeItems fuel s batch).configs = s.configs := by
  by_cases ht : s.ldr.transfer.active = true
  · exact C16.store_rejected_during_transfer fuel s batch ht hf
  · rcases h with h | h
    · exact absurd h ht
    · rw [definite_rejection_nonvoter fuel s batch (by simpa using ht) h hf]; exact ⟨rfl, rfl, rfl, rfl⟩

/-! ### 3. results only after commit -/

/-- what `leader.applyCommitted` may hand to the FSM goroutine at commit index `ci` -/
def Releasable (ci : Nat) (q : QItem) : Prop := q.index ≤ ci ∨ (q.index = ci + 1 ∧ isLogEntryTyp q.typ = false)

/-- **reply_only_after_commit** (the split): the released part of the queue is a prefix, every released
item is covered by the commit index (or is a read/barrier waiting exactly for it), and the first item kept
is not. -/
theorem reply_only_after_commit_split (ci : Nat) (queue : List QItem) :
    (splitQueue ci queue).1 ++ (splitQueue ci queue).2 = queue ∧
    (∀ q ∈ (splitQueue ci queue).1, Releasable ci q) ∧
    (∀ q, (splitQueue ci queue).2.head? = some q → ¬ Releasable ci q) := by
  induction queue with
  | nil => simp [splitQueue]
  | cons q qs ih =>
    unfold splitQueue
    split
    · rename_i hc
      dsimp only
      obtain ⟨i1, i2, i3⟩ := ih
      refine ⟨by simp [i1], ?_, i3⟩
      intro x hx
      rcases List.mem_cons.mp hx with hx | hx
      · rw [hx]
        rcases hc with hc | hc
        · exact Or.inl hc
        · exact Or.inr ⟨hc.1, by simpa using hc.2⟩
      · exact i2 x hx
    · rename_i hc
      refine ⟨rfl, by simp, ?_⟩
      intro x hx
      simp only [List.head?_cons, Option.some.injEq] at hx
      subst hx
      intro hr
      apply hc
      rcases hr with hr | hr
      · exact Or.inl hr
      · exact Or.inr ⟨hr.1, by simp [hr.2]⟩

/-- tasks answered by the second loop of `onApply`: exactly the tasks of the items, once each, in order —
whether or not an assertion tripped -/
theorem fsmApplyItems_reply_tasks (s : Node) (items : List QItem) :
    (s.fsmApplyItems items).replies.map (·.task) = s.replies.map (·.task) ++ (items.map (·.task)).filter (· ≠ 0) := by
  induction items generalizing s with
  | nil => simp [Node.fsmApplyItems]
  | cons q qs ih =>
    unfold Node.fsmApplyItems
    extract_lets s1 src2 s2 resp src3 s3 src4 s4
    have f1 : s1.replies = s.replies := (assert_fields s _ _).2.2.2.2.2.1
    have f2 : s2.replies = s.replies := by unfold s2; split <;> exact f1
    have f3 : s3.replies = s.replies := by unfold s3; split <;> exact f2
    have f4 : s4.replies = s.replies := by unfold s4; split <;> exact f3
    rw [ih, reply_eq_addReplies]
    unfold addReplies mkReply?
    simp only [f4, List.map_append, List.map_cons, List.filter_cons]
    by_cases h0 : q.task = 0 <;> simp [h0]

theorem fsmApplyLogTo_replies (s : Node) (n : Nat) : (s.fsmApplyLogTo n).replies = s.replies := by
  unfold Node.fsmApplyLogTo
  split
  · rfl
  · split
    · exact (panic_fields _ _).2.2.2.2.2.1
    · extract_lets es ups lastTerm cfg s1
      have : s1.replies = s.replies := by unfold s1; split; exact (panic_fields _ _).2.2.2.2.2.1; rfl
      split
      · exact (panic_fields _ _).2.2.2.2.2.1
      · exact this

/-- **reply_only_after_commit**: `leader.applyCommitted` keeps the non-releasable rest of the queue, and the
tasks it answers are tasks of released items (each at most once, in queue order) — so an update task gets
its result only when its index is covered by the commit index, and a read/barrier only when everything
before it is. (When the log view cannot be built the call panics and answers nothing.) -/
theorem reply_only_after_commit (s : Node) :
    s.applyCommittedL.ldr.queue = (splitQueue s.commitIndex s.ldr.queue).2 ∧
    (s.applyCommittedL.replies.map (·.task) =
        s.replies.map (·.task) ++ (((splitQueue s.commitIndex s.ldr.queue).1.map (·.task)).filter (· ≠ 0)) ∨
     s.applyCommittedL.replies = s.replies) ∧
    ∀ q ∈ (splitQueue s.commitIndex s.ldr.queue).1, Releasable s.commitIndex q := by
  refine ⟨?_, ?_, (reply_only_after_commit_split _ _).2.1⟩
  · unfold Node.applyCommittedL
    dsimp only
    have := fsmFrame_ldr.fsmApply_eq (s.withLdr { s.ldr with queue := (splitQueue s.commitIndex s.ldr.queue).2 })
      (splitQueue s.commitIndex s.ldr.queue).1
    dsimp only at this
    rw [this]; rfl
  · unfold Node.applyCommittedL Node.fsmApply
    dsimp only
    split
    · exact Or.inr (panic_fields _ _).2.2.2.2.2.1
    · split
      · exact Or.inr (panic_fields _ _).2.2.2.2.2.1
      · left
        rw [(assert_fields _ _ _).2.2.2.2.2.1, fsmApplyItems_reply_tasks, fsmApplyLogTo_replies]
        rfl

/-! ### 4. lost leadership -/

/-- the error `leader.release` gives to everything still pending -/
def releaseErr (s : Node) : String :=
  if s.isClosed then "plain:serverClosed"
  else (if s.leader = s.nid then s.setLeader 0 else s).notLeader true

/-- **lost_leadership_replies**: `leader.release` (after the transfer task was answered) completes EVERY
queued entry and EVERY waitForStableConfig task exactly once, in order, with ErrServerClosed when the node
is closing and NotLeaderError{Lost: true} otherwise; the queue and the wait list are emptied. -/
theorem lost_leadership_replies (s : Node) :
    s.leaderReleaseRest.replies = s.replies ++
      s.ldr.queue.flatMap (fun q => mkReply? q.task (releaseErr s)) ++
      s.ldr.waitStable.flatMap (fun t => mkReply? t (releaseErr s)) ∧
    s.leaderReleaseRest.ldr.queue = [] ∧ s.leaderReleaseRest.ldr.waitStable = [] ∧
    s.leaderReleaseRest.ldr.transfer = {} ∧ s.leaderReleaseRest.log = s.log ∧
    s.leaderReleaseRest.commitIndex = s.commitIndex ∧ s.leaderReleaseRest.fsm = s.fsm := by
  unfold Node.leaderReleaseRest
  extract_lets s1 err s2 s3
  have hq : s1.ldr = s.ldr ∧ s1.replies = s.replies ∧ s1.log = s.log ∧ s1.commitIndex = s.commitIndex ∧
      s1.fsm = s.fsm := by
    unfold s1; split <;> exact ⟨rfl, rfl, rfl, rfl, rfl⟩
  have herr : err = releaseErr s := by
    unfold err releaseErr
    have : s1.isClosed = s.isClosed := by unfold s1; split <;> rfl
    rw [this]
  have e2 : s2 = s1.addReplies (s1.ldr.queue.flatMap (fun q => mkReply? q.task err)) :=
    foldl_reply_eq (fun q : QItem => q.task) (fun _ => err) _ _
  have e3 : s3 = s2.addReplies (s2.ldr.waitStable.flatMap (fun t => mkReply? t err)) :=
    foldl_reply_eq (fun t : Nat => t) (fun _ => err) _ _
  refine ⟨?_, rfl, rfl, rfl, ?_, ?_, ?_⟩
  · show s3.replies = _
    rw [e3, e2]
    show (s1.replies ++ _) ++ _ = _
    rw [hq.2.1, ← herr]
    show _ ++ _ ++ List.flatMap _ s1.ldr.waitStable = _
    rw [hq.1]
  · show s3.log = _; rw [e3, e2]; exact hq.2.2.1
  · show s3.commitIndex = _; rw [e3, e2]; exact hq.2.2.2.1
  · show s3.fsm = _; rw [e3, e2]; exact hq.2.2.2.2

/-- every queued item with a task has its completion in the reply list -/
theorem lost_leadership_replies_mem (s : Node) (q : QItem) (hq : q ∈ s.ldr.queue) (h0 : q.task ≠ 0) :
    ({ task := q.task, result := releaseErr s } : Reply) ∈ s.leaderReleaseRest.replies := by
  rw [(lost_leadership_replies s).1]
  apply List.mem_append_left
  apply List.mem_append_right
  exact mem_flatMap_mkReply? (fun q : QItem => q.task) (fun _ => releaseErr s) _ q hq h0

/-- exactly once: the tasks completed by the release are the queued tasks followed by the waiting tasks -/
theorem lost_leadership_replies_once (s : Node) :
    s.leaderReleaseRest.replies.map (·.task) = s.replies.map (·.task) ++
      (s.ldr.queue.map (·.task)).filter (· ≠ 0) ++ s.ldr.waitStable.filter (· ≠ 0) := by
  rw [(lost_leadership_replies s).1]
  simp only [List.map_append]
  rw [flatMap_mkReply?_tasks (fun q : QItem => q.task), flatMap_mkReply?_tasks (fun t : Nat => t)]
  simp

/-! ### 5. dirty reads -/

/-- **dirty_read_sees_applied_only**: a dirty read submitted to a non-leader is answered with the value
computed from `fsm.applied` as it stands — no log entry beyond it is consulted — and the FSM is not changed.
By `C03.apply_never_beyond_commit`, `fsm.applied` holds nothing beyond the commit index. -/
theorem dirty_read_sees_applied_only (s : Node) (batch : List QItem) (q : QItem) (hq : q ∈ batch)
    (ht : q.typ = etDirtyRead) (h0 : q.task ≠ 0) :
    ({ task := q.task, result := s!"val:{s.fsm.applied.length}" } : Reply) ∈ (s.rejectEntries batch).replies ∧
    (s.rejectEntries batch).fsm = s.fsm := by
  rw [definite_rejection_not_leader]
  refine ⟨?_, rfl⟩
  apply List.mem_append_right
  have := mem_flatMap_mkReply? (fun q : QItem => q.task) (fun q => rejectReply s q) batch q hq h0
  have e : rejectReply s q = s!"val:{s.fsm.applied.length}" := by unfold rejectReply; rw [if_pos ht]
  rw [e] at this
  exact this

end C07
end Raft

#print axioms Raft.C07.assign_length
#print axioms Raft.C07.assign_preserves
#print axioms Raft.C07.store_order_index
#print axioms Raft.C07.store_order_log_indexes
#print axioms Raft.C07.store_order
#print axioms Raft.C07.store_reads_leave_log
#print axioms Raft.C07.rejectReply_addReplies
#print axioms Raft.C07.definite_rejection_not_leader
#print axioms Raft.C07.definite_rejection_never_appended
#print axioms Raft.C07.definite_rejection_transfer
#print axioms Raft.C07.definite_rejection_nonvoter
#print axioms Raft.C07.definite_rejection_leader_never_appended
#print axioms Raft.C07.reply_only_after_commit_split
#print axioms Raft.C07.fsmApplyItems_reply_tasks
#print axioms Raft.C07.fsmApplyLogTo_replies
#print axioms Raft.C07.reply_only_after_commit
#print axioms Raft.C07.lost_leadership_replies
#print axioms Raft.C07.lost_leadership_replies_mem
#print axioms Raft.C07.lost_leadership_replies_once
#print axioms Raft.C07.dirty_read_sees_applied_only
