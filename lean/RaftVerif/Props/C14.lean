import RaftVerif.Lemmas.SegDisk
/-!
C14 — the segmented log is crash consistent.

Model: Part 3 of `RaftVerif/Model/SegLog.lean` (`FileSt`, `Disk`, `Step`, `script`, `killImg`,
`PowerImg`, `reopen`).  A crash "after `k` micro-steps of operation `op` in state `s`" is the disk
`runSteps d ((script s op).take k)`; the process-kill image is `killImg` of it, the power-loss
images are all `img` with `PowerImg disk img` (durable or volatile header per file, every unit that
differs between the durable and the volatile image arbitrary: old, new, torn or absent).
`killImg d` is one of the `PowerImg d` images (`kill_is_power`), so `power_consistent` subsumes
`kill_consistent`.

ASSUMPTIONS (file-system model; everything below is relative to them)
 * `os.Rename` and `os.Remove` of a directory entry are atomic and durable when the call returns;
   in particular no fsync of the directory is needed (the code does none).
 * `f.Sync()` / `msync(MS_SYNC)` make the whole file / mapping durable when they return.
 * An aligned 8-byte header store into the mapping is not torn.
 * Between two msyncs ANY subset of the dirty bytes may reach the disk (the model is even more
   adversarial: every unit = entry data + its end-offset slot that differs between the durable and
   the volatile image is arbitrary in a power-loss image).
 * The directory model holds the `*.log` files only.  `createSegment` (repaired) builds the file as
   `<n>.log.tmp` and renames it; `segments()` globs `*.log`, so a tmp file in progress or left by a
   crash is invisible to `Open`.  A leftover tmp file is truncated (`O_TRUNC`) by the next
   `createSegment` of the same name; otherwise it only costs disk space (≤ SegmentSize per crash).
 * The directory contains exactly the chain of the log at operation boundaries (`Rep`): the file a
   roll-over / `Reset` / emptied `RemoveGTE` creates does not exist yet.  (Stale `*.log` files can
   only come from outside the two crash models; `openSegments` removes at most ONE dangling file
   per `Open` — modelled in `reopen`, exercised by the engine's junk directories, outside C14.)
 * Indices and sizes do not overflow 64 bits; `Open` is called with `SegmentSize ≥ 1024`
   (`Options.validate`), which is `Op.valid` for `closeOpen`.
 * A crash DURING `Open` itself (its `createSegment` of `0.log` on an empty directory, its removal
   of one dangling file) is not a separate operation of the model; with the repaired create
   sequence such a crash leaves the directory unchanged or complete.

HISTORY.  Before the repair of `createSegment` (it created `<n>.log` with length 0 and truncated
it afterwards) the statement was false: see `prefix_create_counterexample`
(finding `seglog-zero-length-segment-after-create`).
-/
namespace Raft.SL

/-- The crash disk: program `ops` run to completion from an empty directory with SegmentSize `ss`,
then the first `k` micro-steps of `op`. -/
def crashDisk (ss : Nat) (ops : List Op) (op : Op) (k : Nat) : Disk :=
  runSteps (runBoth (SegLog.empty ss, (SegLog.empty ss).toDisk) ops).2
    ((script (runBoth (SegLog.empty ss, (SegLog.empty ss).toDisk) ops).1 op).take k)

/-- Full-strength C14 on the model: for every program, every next operation, every micro-step
prefix of it, every power-loss image (hence also the kill image) of the directory at that point,
and every SegmentSize used for the reopen: `Open` succeeds, yields a well-formed (contiguous, `Inv`)
log `s'`, and `abs s'` meets `CrashSpec` relative to the log `s` before the interrupted operation
and the log the operation would have produced:
 * every exposed entry sits, byte for byte, at its index in the pre- or post-state (so nothing
   never-appended, no partially written entry, and — since a COMPLETED `removeGTE` has really
   removed its entries from the pre-state, see `removeGTE_gone` — nothing resurrected);
 * every entry covered by the last completed sync (`durable s`) that the operation does not remove
   is present. -/
def C14_statement : Prop :=
  ∀ (ss : Nat) (ops : List Op) (op : Op) (k : Nat) (ss' : Nat) (img : Img),
    1024 ≤ ss → 1024 ≤ ss' → (∀ o ∈ ops, o.valid) → op.valid →
    PowerImg (crashDisk ss ops op k) img →
    ∃ s' img', reopen img ss' = .ok (s', img') ∧ Inv s' ∧
      CrashSpec ((SegLog.empty ss).run ops) (abs (((SegLog.empty ss).run ops).run [op])) (abs s')

/-- Per-state form ("for every `Inv` state, every operation, every micro-step prefix"). -/
theorem power_consistent_state {s : SegLog} {d : Disk} (h : Inv s) (hr : Rep s d) (op : Op) (k : Nat)
    {img : Img} (hp : PowerImg (runSteps d ((script s op).take k)) img) {ss' : Nat} (hss : 1024 ≤ ss') :
    ∃ s' img', reopen img ss' = .ok (s', img') ∧ Inv s' ∧ CrashSpec s (abs (s.run [op])) (abs s') :=
  crashState_reopen h ((op_crash h hr op).1 _ (reach_take k)) hp hss

/-- The same for the process-kill image. -/
theorem kill_consistent_state {s : SegLog} {d : Disk} (h : Inv s) (hr : Rep s d) (op : Op) (k : Nat)
    {ss' : Nat} (hss : 1024 ≤ ss') :
    ∃ s' img', reopen (killImg (runSteps d ((script s op).take k))) ss' = .ok (s', img') ∧ Inv s' ∧
      CrashSpec s (abs (s.run [op])) (abs s') :=
  power_consistent_state h hr op k (kill_is_power _) hss

/-- After a COMPLETED operation the directory represents the model state again, which is what
lets the per-state theorems apply at every point of every program. -/
theorem rep_preserved {s : SegLog} {d : Disk} (h : Inv s) (hr : Rep s d) (op : Op) (hv : op.valid) :
    Inv (s.run [op]) ∧ Rep (s.run [op]) (runSteps d (script s op)) :=
  ⟨op_inv h hv, (op_crash h hr op).2⟩

/-- C14, full statement: every power-loss image at every micro-step of every operation of every
program reopens to a well-formed log meeting the crash specification. -/
theorem C14 : C14_statement := by
  intro ss ops op k ss' img hss hss' hv _ hp
  obtain ⟨r1, r2, r3⟩ := runBoth_spec (inv_empty hss) (rep_empty ss) ops hv
  rw [← r3]
  exact power_consistent_state r1 r2 op k hp hss'

/-- `power_consistent`: `C14_statement` spelled out (power-loss model). -/
theorem power_consistent :
    ∀ (ss : Nat) (ops : List Op) (op : Op) (k : Nat) (ss' : Nat) (img : Img),
    1024 ≤ ss → 1024 ≤ ss' → (∀ o ∈ ops, o.valid) → op.valid →
    PowerImg (crashDisk ss ops op k) img →
    ∃ s' img', reopen img ss' = .ok (s', img') ∧ Inv s' ∧
      CrashSpec ((SegLog.empty ss).run ops) (abs (((SegLog.empty ss).run ops).run [op])) (abs s') :=
  C14

/-- `kill_consistent`: the process-kill image at every micro-step of every operation of every
program. -/
theorem kill_consistent :
    ∀ (ss : Nat) (ops : List Op) (op : Op) (k : Nat) (ss' : Nat),
    1024 ≤ ss → 1024 ≤ ss' → (∀ o ∈ ops, o.valid) → op.valid →
    ∃ s' img', reopen (killImg (crashDisk ss ops op k)) ss' = .ok (s', img') ∧ Inv s' ∧
      CrashSpec ((SegLog.empty ss).run ops) (abs (((SegLog.empty ss).run ops).run [op])) (abs s') :=
  fun ss ops op k ss' hss hss' hv hop => C14 ss ops op k ss' _ hss hss' hv hop (kill_is_power _)

/-- `partial_entry_never_exposed`: at every crash point and for every file, whichever header value
a reopen may read (volatile or durable), every unit (entry bytes + end offset) below it is present
and identical in the durable and in the volatile image, i.e. it was covered by an msync before the
header that exposes it was stored.  Together with `power_consistent` (reopen never answers
`Err.corrupt`) this is "partially written entries are never exposed". -/
theorem partial_entry_never_exposed (ss : Nat) (ops : List Op) (op : Op) (k : Nat)
    (hss : 1024 ≤ ss) (hv : ∀ o ∈ ops, o.valid) :
    ∀ qf ∈ crashDisk ss ops op k, ∀ u, (u < qf.2.vhdr ∨ u < qf.2.dhdr) →
      ∃ b, qf.2.dunits[u]? = some b ∧ qf.2.vunits[u]? = some b := by
  obtain ⟨r1, r2, _⟩ := runBoth_spec (inv_empty hss) (rep_empty ss) ops hv
  exact crashState_clean ((op_crash r1 r2 op).1 _ (reach_take k))

/-- A completed `removeGTE(i)` leaves no entry at an index `≥ i` in the state that later crash
specifications refer to, so `CrashSpec` forbids their reappearance. -/
theorem removeGTE_gone {s : SegLog} (h : Inv s) (i j : Nat) (hj : i ≤ j) (hi : 0 < i) :
    (abs (s.removeGTE i)).get? j = none := by
  rw [(removeGTE_refines h i).2]
  unfold AbsLog.removeGTE AbsLog.get?
  by_cases h1 : i ≤ (abs s).prev
  · simp only [h1, if_true]
    split
    · simp
    · rfl
  · simp only [h1, if_false]
    split
    · apply List.getElem?_eq_none
      simp only [List.length_take]
      omega
    · rfl

set_option maxRecDepth 200000 in
/-- HISTORICAL (finding `seglog-zero-length-segment-after-create`, repaired in log/util.go): with
the create sequence the code had before the repair (`oldCreateSteps`: create `<n>.log` with length
0, then truncate), a crash after its first step leaves a directory on which `Open` fails.  Program:
1024-byte segments, one committed 1000-byte entry, then the roll-over creates `1.log`. -/
theorem prefix_create_counterexample :
    reopen (killImg (runSteps
      (runBoth (SegLog.empty 1024, (SegLog.empty 1024).toDisk) [.append (List.replicate 1000 0), .commit]).2
      ((oldCreateSteps 1 1024).take 1))) 1024 = .error .openFail := by rfl

/-! ### Non-vacuity -/

set_option maxRecDepth 200000 in
/-- The hypotheses of `C14` are met by a non-trivial crash point: 1024-byte segments, one 1000-byte
entry, then a 1-byte entry (roll-over); crash after the 2nd micro-step of the second append (header
stored, second msync pending): volatile and durable header differ (1 vs 0), so the power-loss set
contains images that are not the kill image. -/
example :
    (crashDisk 1024 [.append (List.replicate 1000 0)] (.append [0]) 2).map (fun qf => (qf.1, qf.2.vhdr, qf.2.dhdr))
      = [(0, 1, 0)] := by rfl

set_option maxRecDepth 200000 in
/-- Crash inside the (repaired) create sequence of the same roll-over (micro-steps 4..7 work on
`1.log.tmp`): the directory still holds `0.log` only and reopens with the committed entry; after
the rename (8 steps) the empty second segment is there. -/
example :
    (crashDisk 1024 [.append (List.replicate 1000 0)] (.append [0]) 6).map (·.1) = [0] ∧
    (crashDisk 1024 [.append (List.replicate 1000 0)] (.append [0]) 8).map (·.1) = [1, 0] ∧
    (match reopen (killImg (crashDisk 1024 [.append (List.replicate 1000 0)] (.append [0]) 8)) 1024 with
     | .ok (s', _) => (s'.prevIndex, s'.lastIndex, s'.older.length)
     | .error _ => (9, 9, 9)) = (0, 1, 1) := by
  refine ⟨by rfl, by rfl, by rfl⟩

end Raft.SL

#print axioms Raft.SL.C14
#print axioms Raft.SL.power_consistent
#print axioms Raft.SL.kill_consistent
#print axioms Raft.SL.power_consistent_state
#print axioms Raft.SL.kill_consistent_state
#print axioms Raft.SL.rep_preserved
#print axioms Raft.SL.partial_entry_never_exposed
#print axioms Raft.SL.removeGTE_gone
#print axioms Raft.SL.prefix_create_counterexample
