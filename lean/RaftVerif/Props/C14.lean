import RaftVerif.Lemmas.SegDisk
/-!
C14 — the segmented log is crash consistent.

Model: Part 3 of `RaftVerif/Model/SegLog.lean` (`FileSt`, `Disk`, `Step`, `script`, `killImg`,
`PowerImg`, `reopen`).  A crash "after `k` micro-steps of operation `op` in state `s`" is the disk
`runSteps d ((script s op).take k)`; the process-kill image is `killImg` of it, the power-loss
images are all `img` with `PowerImg disk img` (durable or volatile header per file, every unit that
differs between the durable and the volatile image arbitrary).  `killImg d` is one of the
`PowerImg d` images (`kill_is_power`), so the power-loss theorem subsumes the kill theorem.

File-system assumptions (recorded in the model header): `create`/`truncate`/`remove`/`fsync` are
durable on return (no directory fsync needed), 8-byte header stores are not torn, `msync(MS_SYNC)`
makes the whole mapping durable.

RESULT.  The full statement `C14_statement` is FALSE for the code as it is
(`C14_counterexample`): `createSegment` first creates the file with length 0 and only then
truncates it to `SegmentSize`; a crash between the two leaves a zero-length `<n>.log`, and
`log.Open` fails on it for ever (`mmap` of length 0: EINVAL).  Everything else is proved:
`power_consistent_partial` / `kill_consistent_partial` are `C14_statement` with exactly that one
crash point excluded (`¬ ZeroLen disk`).
-/
namespace Raft.SL

/-- The crash disk: program `ops` run to completion from an empty directory with SegmentSize `ss`,
then the first `k` micro-steps of `op`. -/
def crashDisk (ss : Nat) (ops : List Op) (op : Op) (k : Nat) : Disk :=
  runSteps (runBoth (SegLog.empty ss, (SegLog.empty ss).toDisk) ops).2
    ((script (runBoth (SegLog.empty ss, (SegLog.empty ss).toDisk) ops).1 op).take k)

/-- Full-strength C14 on the model: for every program, every next operation, every micro-step
prefix of it, every power-loss image (hence also the kill image) of the directory at that point,
and every SegmentSize used for the reopen: `Open` succeeds, yields a well-formed (contiguous, `Inv`)
log `s'`, and `abs s'` meets `CrashSpec` relative to the log `s` before the interrupted operation
and the log the operation would have produced:
 * every exposed entry sits, byte for byte, at its index in the pre- or post-state (so nothing
   never-appended, no partially written entry, and — since a COMPLETED `removeGTE` has really
   removed its entries from the pre-state, see `removeGTE_gone` — nothing resurrected);
 * every entry covered by the last completed sync (`durable s`) that the operation does not remove
   is present. -/
def C14_statement : Prop :=
  ∀ (ss : Nat) (ops : List Op) (op : Op) (k : Nat) (ss' : Nat) (img : Img),
    1024 ≤ ss → 1024 ≤ ss' → (∀ o ∈ ops, o.valid) → op.valid →
    PowerImg (crashDisk ss ops op k) img →
    ∃ s' img', reopen img ss' = .ok (s', img') ∧ Inv s' ∧
      CrashSpec ((SegLog.empty ss).run ops) (abs (((SegLog.empty ss).run ops).run [op])) (abs s')

/-- Per-state form ("for every `Inv` state, every operation, every micro-step prefix"). -/
theorem power_consistent_state {s : SegLog} {d : Disk} (h : Inv s) (hr : Rep s d) (op : Op) (k : Nat)
    (hz : ¬ ZeroLen (runSteps d ((script s op).take k)))
    {img : Img} (hp : PowerImg (runSteps d ((script s op).take k)) img) {ss' : Nat} (hss : 1024 ≤ ss') :
    ∃ s' img', reopen img ss' = .ok (s', img') ∧ Inv s' ∧ CrashSpec s (abs (s.run [op])) (abs s') :=
  crashState_reopen h ((op_crash h hr op).1 _ (reach_take k)) hz hp hss

/-- The same for the process-kill image. -/
theorem kill_consistent_state {s : SegLog} {d : Disk} (h : Inv s) (hr : Rep s d) (op : Op) (k : Nat)
    (hz : ¬ ZeroLen (runSteps d ((script s op).take k))) {ss' : Nat} (hss : 1024 ≤ ss') :
    ∃ s' img', reopen (killImg (runSteps d ((script s op).take k))) ss' = .ok (s', img') ∧ Inv s' ∧
      CrashSpec s (abs (s.run [op])) (abs s') :=
  power_consistent_state h hr op k hz (kill_is_power _) hss

/-- After a COMPLETED operation the directory represents the model state again, which is what
lets the per-state theorems apply at every point of every program. -/
theorem rep_preserved {s : SegLog} {d : Disk} (h : Inv s) (hr : Rep s d) (op : Op) (hv : op.valid) :
    Inv (s.run [op]) ∧ Rep (s.run [op]) (runSteps d (script s op)) :=
  ⟨op_inv h hv, (op_crash h hr op).2⟩

/-- `power_consistent` (partial): `C14_statement` with the zero-length-file crash point excluded.
What is missing for the full statement is exactly `C14_counterexample`. -/
theorem power_consistent_partial :
    ∀ (ss : Nat) (ops : List Op) (op : Op) (k : Nat) (ss' : Nat) (img : Img),
    1024 ≤ ss → 1024 ≤ ss' → (∀ o ∈ ops, o.valid) → op.valid →
    ¬ ZeroLen (crashDisk ss ops op k) →
    PowerImg (crashDisk ss ops op k) img →
    ∃ s' img', reopen img ss' = .ok (s', img') ∧ Inv s' ∧
      CrashSpec ((SegLog.empty ss).run ops) (abs (((SegLog.empty ss).run ops).run [op])) (abs s') := by
  intro ss ops op k ss' img hss hss' hv _ hz hp
  obtain ⟨r1, r2, r3⟩ := runBoth_spec (inv_empty hss) (rep_empty ss) ops hv
  rw [← r3]
  exact power_consistent_state r1 r2 op k hz hp hss'

/-- `kill_consistent` (partial): the process-kill image at every micro-step of every operation of
every program, except the zero-length-file point. -/
theorem kill_consistent_partial :
    ∀ (ss : Nat) (ops : List Op) (op : Op) (k : Nat) (ss' : Nat),
    1024 ≤ ss → 1024 ≤ ss' → (∀ o ∈ ops, o.valid) → op.valid →
    ¬ ZeroLen (crashDisk ss ops op k) →
    ∃ s' img', reopen (killImg (crashDisk ss ops op k)) ss' = .ok (s', img') ∧ Inv s' ∧
      CrashSpec ((SegLog.empty ss).run ops) (abs (((SegLog.empty ss).run ops).run [op])) (abs s') :=
  fun ss ops op k ss' hss hss' hv hop hz =>
    power_consistent_partial ss ops op k ss' _ hss hss' hv hop hz (kill_is_power _)

/-- `partial_entry_never_exposed`: at every crash point (zero-length point excluded) and for every
file, whichever header value a reopen may read (volatile or durable), every unit (entry bytes +
end offset) below it is present and identical in the durable and in the volatile image, i.e. it
was covered by an msync before the header that exposes it was stored.  Together with
`power_consistent_partial` (reopen never answers `Err.corrupt`) this is "partially written entries
are never exposed". -/
theorem partial_entry_never_exposed (ss : Nat) (ops : List Op) (op : Op) (k : Nat)
    (hss : 1024 ≤ ss) (hv : ∀ o ∈ ops, o.valid) (hz : ¬ ZeroLen (crashDisk ss ops op k)) :
    ∀ qf ∈ crashDisk ss ops op k, ∀ u, (u < qf.2.vhdr ∨ u < qf.2.dhdr) →
      ∃ b, qf.2.dunits[u]? = some b ∧ qf.2.vunits[u]? = some b := by
  obtain ⟨r1, r2, _⟩ := runBoth_spec (inv_empty hss) (rep_empty ss) ops hv
  exact crashState_clean ((op_crash r1 r2 op).1 _ (reach_take k)) hz

/-- A completed `removeGTE(i)` leaves no entry at an index `≥ i` in the state that later crash
specifications refer to, so `CrashSpec` forbids their reappearance. -/
theorem removeGTE_gone {s : SegLog} (h : Inv s) (i j : Nat) (hj : i ≤ j) (hi : 0 < i) :
    (abs (s.removeGTE i)).get? j = none := by
  rw [(removeGTE_refines h i).2]
  unfold AbsLog.removeGTE AbsLog.get?
  by_cases h1 : i ≤ (abs s).prev
  · simp only [h1, if_true]
    split
    · simp
    · rfl
  · simp only [h1, if_false]
    split
    · apply List.getElem?_eq_none
      simp only [List.length_take]
      omega
    · rfl

set_option maxRecDepth 200000 in
/-- `C14_statement` is false on the current code: 1024-byte segments, one 1000-byte entry, then a
1-byte entry (roll-over); crash after the 4th micro-step of the second append (msync, header,
msync, create) — the kill image contains a zero-length `1.log` and `Open` fails. -/
theorem C14_counterexample : ¬ C14_statement := by
  intro h
  have hv : ∀ o ∈ [Op.append (List.replicate 1000 0)], o.valid := by
    intro o ho; simp at ho; subst ho; trivial
  obtain ⟨s', img', e, _⟩ := h 1024 [.append (List.replicate 1000 0)] (.append [0]) 4 1024
    (killImg (crashDisk 1024 [.append (List.replicate 1000 0)] (.append [0]) 4))
    (by omega) (by omega) hv trivial (kill_is_power _)
  have hre : reopen (killImg (crashDisk 1024 [.append (List.replicate 1000 0)] (.append [0]) 4)) 1024
      = .error .openFail := by rfl
  rw [hre] at e
  cases e

/-! ### Non-vacuity -/

set_option maxRecDepth 200000 in
/-- The hypotheses of `power_consistent_partial` are met by a non-trivial crash point: same program
as the counterexample, crash after the 2nd micro-step (header stored, second msync pending): the
directory is not in the zero-length state, and volatile and durable header differ (1 vs 0), so the
power-loss set contains images that are not the kill image. -/
example :
    ¬ ZeroLen (crashDisk 1024 [.append (List.replicate 1000 0)] (.append [0]) 2) ∧
    (crashDisk 1024 [.append (List.replicate 1000 0)] (.append [0]) 2).map (fun qf => (qf.1, qf.2.vhdr, qf.2.dhdr))
      = [(0, 1, 0)] := by
  constructor
  · rintro ⟨q, rest, e⟩
    have : ((crashDisk 1024 [.append (List.replicate 1000 0)] (.append [0]) 2).map (fun qf => qf.2.cap)) =
        [1024] := by rfl
    rw [e] at this
    simp [FileSt.zero] at this
  · rfl

set_option maxRecDepth 200000 in
/-- ... and one step after the counterexample point (file truncated) the log reopens with the
committed entry and an empty second segment. -/
example :
    (match reopen (killImg (crashDisk 1024 [.append (List.replicate 1000 0)] (.append [0]) 5)) 1024 with
     | .ok (s', _) => (s'.prevIndex, s'.lastIndex, s'.older.length)
     | .error _ => (9, 9, 9)) = (0, 1, 1) := by rfl

end Raft.SL

#print axioms Raft.SL.power_consistent_state
#print axioms Raft.SL.kill_consistent_state
#print axioms Raft.SL.rep_preserved
#print axioms Raft.SL.power_consistent_partial
#print axioms Raft.SL.kill_consistent_partial
#print axioms Raft.SL.partial_entry_never_exposed
#print axioms Raft.SL.removeGTE_gone
#print axioms Raft.SL.C14_counterexample
