/-
C16 on the cluster-level transition system — **a leadership transfer returns success only after the old leader has
stepped down in favour of a higher term; it never produces two leaders in one term, never designates as successor a
non-voter or a node whose log lacks entries the old leader accepted; while it is in progress no new client commands or
membership changes are accepted.**

The system: `SysInv.ReachableG` (Props/C19Sys.lean) — `Raft.Commit` of Sys/Commit.lean with the environment assumptions
`EnabledG`, closed nodes frozen, `SideG`, a good initial state; `_partial` restrictions: fixed voter set `V`, fixed stable
configuration (`SideV`), no snapshots / compaction, no configuration change (`OpOK2`). All operations of a transfer —
the `TransferLeadership` task (`.transfer`), the `timeoutNow` request (`.timeoutNow`), vote requests carrying the
transfer flag, the result of the `timeoutNow` request, the transfer timer and the new-term timer — are ordinary
operations of that system (`transfer_ops_admitted`).

PROVED:
5. `transfer_target_holds_log_sys_partial` — whenever a step of a leader of a reachable state designates a transfer
   target (the step raises `transfer.respPending`: the `timeoutNow` request goes out), the step ended with a call
   `c.tryTransfer` whose choice `t` is another VOTER of `V`, and the ledger `acks` holds an acknowledgement of `t`, in
   the leader's term, of the leader's LAST log index: `t`'s durable log holds every entry of the leader's log — unless
   `t` has since reached a later term in which an entry was created that does not extend the leader's log;
6. `transfer_never_two_leaders_partial` — whatever transfers happen: one leader per term, ever;
7. `transfer_success_means_stepped_down_sys_partial` — the transfer task is answered `ok` (success) only in a step in
   which the handler left the leader role (so `leader.release` ran) and after which the node's term is above the term
   in which the transfer started (for fresh task ids: `C15Tasks.TasksOK`, `C15Tasks.Fresh`); node level
   (`transfer_ok_means_left`): for every state and operation of the model;
8. `no_new_work_during_transfer_step` — node level, EVERY state: while a transfer is in progress a client batch or a
   membership change request handled by the leader stores nothing — log, last index, configurations, commit index,
   role, term and the transfer itself are as before; every item of the batch is answered
   `InProgressError("transferLeadership")`.
NOT covered: "fails with an error and leaves the cluster able to keep or elect a leader" (liveness, C17); membership
changes in the system (C08Sys).
-/
import RaftVerif.Lemmas.SysMore
import RaftVerif.Props.C10Sys

namespace Raft
namespace C16Sys
open Node LogRel CommitRel Commit C02Sys NoPanic SysInv SysMore
open Election (setNode setNode_same setNode_other FixedV)

/-! ### 8. no new work while a transfer is in progress (node level) -/

/-- a membership change request handled by a leader with a transfer in progress stores nothing: the validation
answers it, or `storeEntry` rejects the configuration entry -/
theorem core_onChangeConfig (b : Node) (t : Nat) (c : Config) (htb : b.ldr.transfer.active = true) :
    core (b.onChangeConfig t c) = core b := by
  have h1 := core_checkConfigActions (fuelFor 0) b t c htb
  unfold Node.onChangeConfig
  dsimp only
  repeat' split
  all_goals first
    | exact core_reply _ _ _
    | exact h1
    | skip
  have e68 : fuelFor 1 = 66 + 1 + 1 := rfl
  rw [e68]
  unfold doChangeConfig
  have ha : (checkConfigActions (fuelFor 0) b t c).ldr.transfer.active = true := by
    rw [(core_eq h1).2.2.2.2.2.2.2]; exact htb
  exact (core_storeEntry_transfer 66 _ _ ha (by simp)).1.trans h1

/-- **C16 (8), while a transfer is in progress nothing new is accepted** — for EVERY state `s` of a node that is
leader with a transfer in progress (`ldr.transfer.active`), every oracle (`SysMore.core s` is the tuple of the fields
named below; `SysMore.core_eq` unpacks an equation between two such tuples into the field equations):
1. a client batch `b` (`newEntries`) stores nothing: the log (entries, flushed, segments), the last index and term,
   both configurations, the commit index, role, term and the transfer record are as before, and every item with a
   task is answered `inProgress:transferLeadership`;
2. a membership change request (`changeConfig`) stores nothing either: the same fields are as before (no
   configuration entry is appended, `configs` does not move). -/
theorem no_new_work_during_transfer_step (s : Node) (ra : List Nat) (ord : List (List Nat))
    (hl : s.role = .leader) (ht : s.ldr.transfer.active = true) :
    (∀ b : List QItem,
      core (s.step (.newEntries b) ra ord) = core s ∧
      ∀ q ∈ b, q.task ≠ 0 →
        ({ task := q.task, result := "inProgress:transferLeadership" } : Reply) ∈ (s.step (.newEntries b) ra ord).replies) ∧
    (∀ (t : Nat) (c : Config), core (s.step (.changeConfig t c) ra ord) = core s) := by
  have hb : core (s.begin ra ord) = core s := rfl
  have hlb : (s.begin ra ord).role = .leader := hl
  have htb : (s.begin ra ord).ldr.transfer.active = true := ht
  have fin : ∀ (op : Op) (h : Node), op ≠ .shutdown → (s.begin ra ord).handle op = h → core h = core s →
      s.step op ra ord = h := by
    intro op h hne e hc
    rw [TL.step_eq_settle s op ra ord hne, e]
    have hr : s.role = h.role := ((core_eq hc).2.2.2.2.2.1).symm
    rw [hr]; exact settle_same 6 h
  refine ⟨fun b => ?_, fun t c => ?_⟩
  · have hh : (s.begin ra ord).handle (.newEntries b) = storeEntry (63 + 4 * b.length + 1) (s.begin ra ord) b := by
      unfold Node.handle
      dsimp only
      rw [if_pos hlb]
      have : fuelFor b.length = 63 + 4 * b.length + 1 := by unfold fuelFor; omega
      rw [this]
    obtain ⟨c1, c2⟩ := core_storeEntry_transfer (63 + 4 * b.length) (s.begin ra ord) b htb (by omega)
    rw [fin _ _ (by intro h; cases h) hh (c1.trans hb)]
    exact ⟨c1.trans hb, c2⟩
  · have key : core ((s.begin ra ord).onChangeConfig t c) = core s :=
      (core_onChangeConfig (s.begin ra ord) t c htb).trans hb
    have hh : (s.begin ra ord).handle (.changeConfig t c) = (s.begin ra ord).onChangeConfig t c := by
      unfold Node.handle
      dsimp only
      rw [if_pos hlb]
    rw [fin _ _ (by intro h; cases h) hh key]
    exact key

/-! ### 6. never two leaders in one term -/

/-- the operations of a leadership transfer are ordinary operations of the system (`CommitRel.OpOK2`; the other
enabling conditions of `Commit.Enabled` concern vote requests — a vote request that is not stale is a recorded
campaign, with or without the transfer flag — append requests and match-index reports) -/
theorem transfer_ops_admitted (t g src r : Nat) (err : Bool) (q : VoteReq) :
    OpOK2 (.transfer t g) ∧ OpOK2 .timeoutNow ∧ OpOK2 (.vote { q with transfer := true }) ∧ OpOK2 .transferTimeout ∧
    OpOK2 (.timeoutNowResult src err r) ∧ OpOK2 .newTermTimeout := by
  refine ⟨?_, ?_, ?_, ?_, ?_, ?_⟩ <;> exact ⟨trivial, (fun b h => by cases h), (fun t c h => by cases h)⟩

/-- **C16 (6), a transfer never produces two leaders in one term (partial: the restrictions of the file header).** Let
`V` be a duplicate-free list of node ids, `x` a reachable state of the cluster system and `y` any later state of the
run — any operations in between, in particular any number of leadership transfers, complete or not: transfer
requests, `timeoutNow` requests delivered to any node at any time (also stale or duplicated ones), vote requests with
the transfer flag (which voters grant although they know a leader), timers, crashes. A node that is leader in `x` and
a node that is leader in `y` in the same term are the same node; in particular (`y = x`) two leaders of one term in
one state are the same node. -/
theorem transfer_never_two_leaders_partial (V : List Nat) (hV : V.Nodup) (x y : Commit.Sys) (hx : ReachableG V x)
    (hrun : RunG V x y) (i j : Nat) (hi : (x.node i).role = .leader) (hj : (y.node j).role = .leader)
    (ht : (x.node i).term = (y.node j).term) : i = j := by
  have hy := run_reachableG hx hrun
  obtain ⟨_, wy, ry⟩ := (C10Sys.safe_of_reachable V hV y hy).election
  obtain ⟨_, _, rx⟩ := (C10Sys.safe_of_reachable V hV x hx).election
  have h1 := (C10Sys.runG_mono hrun).1 _ (rx i hi)
  exact wy i j (x.node i).term h1 (by rw [ht]; exact ry j hj)

/-! ### 7. success means: stepped down, higher term -/

theorem repMem_leaderReleaseRest (x : Reply) (s : Node) (hs : RepMem x s) : RepMem x s.leaderReleaseRest := by
  unfold Node.leaderReleaseRest
  dsimp only
  apply (repMem_step x).ldr
  apply SClosed.foldl_inv _ (fun s t hs => (repMem_step x).reply _ _ _ hs)
  apply SClosed.foldl_inv _ (fun s t hs => (repMem_step x).reply _ _ _ hs)
  split
  · exact (repMem_step x).setLeader _ _ hs
  · exact hs

theorem pending_transfer (z : Node) (h0 : z.ldr.transfer.task ≠ 0) : z.ldr.transfer.task ∈ C15Tasks.pending z := by
  unfold C15Tasks.pending C15Tasks.pendRaw
  exact List.mem_filter.mpr ⟨List.mem_append_right _ (List.mem_append_right _ (List.mem_cons_self ..)),
    by simpa using h0⟩

/-- **C16 (7), node level: success means that the leader stepped down, in a higher term.** For EVERY state `s` of a
node that is leader with a transfer in progress for the task `tk ≠ 0` (memory = disk: `C05.VoteWF`), every operation
of the model (`OpOK2`), oracle and input such that after the step no task is answered twice and no answered task is
still pending (`hnd`, `hdis`: the conclusions of `C15Tasks.task_step_two` for fresh task ids): if the step answers the
transfer task with `ok` — `TransferLeadership` returns success — then
* the handler ended in a role other than leader: the node stepped down in this step and `stateLoop` ran
  `leader.release` (which gives the answer), and
* the node's term after the step is above the term in which the transfer was started. -/
theorem transfer_ok_means_left (s : Node) (op : Op) (ra : List Nat) (ord : List (List Nat)) (hok : OpOK2 op)
    (hl : s.role = .leader) (hact : s.ldr.transfer.active = true) (h0 : s.ldr.transfer.task ≠ 0)
    (hwf : C05.VoteWF s)
    (hnd : (C15Tasks.answered (s.step op ra ord)).Nodup)
    (hdis : ∀ t ∈ C15Tasks.answered (s.step op ra ord), t ∉ C15Tasks.pending (s.step op ra ord))
    (hrep : ({ task := s.ldr.transfer.task, result := "ok" } : Reply) ∈ (s.step op ra ord).replies) :
    ((s.begin ra ord).handle op).role ≠ .leader ∧ s.ldr.transfer.term < (s.step op ra ord).term := by
  have hne : op ≠ .shutdown := by intro e; rw [e] at hok; exact hok.1
  have hst := TL.step_eq_settle s op ra ord hne
  rw [hl] at hst
  have hlb : (s.begin ra ord).role = .leader := hl
  have hE := handle_end (s.begin ra ord) op hok hlb
  have hwfb : C05.VoteWF (s.begin ra ord) := hwf
  have hwfh : C05.VoteWF ((s.begin ra ord).handle op) :=
    ((C05.closed (s.begin ra ord)).handle_inv _ op (C05.inv_refl _ hwfb)).2.1
  -- the transfer task is among the answered ones, once
  have hans : s.ldr.transfer.task ∈ C15Tasks.answered (s.step op ra ord) :=
    List.mem_filter.mpr ⟨List.mem_map.mpr ⟨_, hrep, rfl⟩, by simpa using h0⟩
  have uniq : ∀ r : String, RepMem { task := s.ldr.transfer.task, result := r } (s.step op ra ord) → r = "ok" := by
    intro r hr
    have := reply_unique _ hnd _ hr _ hrep rfl h0
    exact congrArg Reply.result this
  have notPending : ∀ z : Node, s.step op ra ord = z → z.ldr.transfer.task = s.ldr.transfer.task → False := by
    intro z ez et
    have := pending_transfer z (by rw [et]; exact h0)
    rw [et, ← ez] at this
    exact hdis _ hans this
  by_cases hr : ((s.begin ra ord).handle op).role = .leader
  · -- the handler stays leader: the step is the handler, and the transfer was not answered `ok`
    exfalso
    have hp : s.step op ra ord = (s.begin ra ord).handle op := by
      rw [hst, ← hr]; exact settle_same 6 _
    cases hE with
    | keep ts => exact notPending _ hp ts.task
    | tryT c _ r2 e =>
      refine notPending _ hp ?_
      rw [e, (tryTransfer_transfer c).1]; exact (r2 hact).task
    | answered c r hr' htk _ e =>
      have hm : RepMem { task := s.ldr.transfer.task, result := r } ((s.begin ra ord).handle op) := by
        rw [e]
        unfold Node.replyTransfer
        have h1 := transferReply_mem c r (by rw [htk]; exact h0)
        rw [htk] at h1
        exact (repMem_step _).checkConfigActions_inv _ _ _ _ h1
      rw [← hp] at hm
      exact hr' (uniq r hm)
  · refine ⟨hr, ?_⟩
    -- the handler left the leader role: `leader.release` answers the transfer with `releaseResult`
    have hmono : ∀ x : Reply, RepMem x ((s.begin ra ord).handle op) → RepMem x (s.step op ra ord) := by
      intro x hx; rw [hst]; exact (repMem_step x).settle_inv 6 _ _ hx
    have hterm : ((s.begin ra ord).handle op).term ≤ (s.step op ra ord).term := by
      rw [hst]
      exact ((C05.closed _).settle_inv 6 _ .leader (C05.inv_refl _ hwfh)).1.1
    have main : ((s.begin ra ord).handle op).ldr.transfer.task = s.ldr.transfer.task →
        ((s.begin ra ord).handle op).ldr.transfer.term = s.ldr.transfer.term →
        ((s.begin ra ord).handle op).ldr.transfer.active = true →
        s.ldr.transfer.term < (s.step op ra ord).term := by
      intro e1 e2 e3
      have hrel : RepMem { task := s.ldr.transfer.task, result := ((s.begin ra ord).handle op).releaseResult }
          (s.step op ra ord) := by
        rw [hst]
        unfold settle
        rw [if_neg hr]
        dsimp only
        apply (repMem_step _).settle_inv
        apply (repMem_step _).initRole_inv
        unfold Node.releaseRole
        dsimp only
        rw [C16.leaderRelease_uses_releaseResult _ e3]
        apply repMem_leaderReleaseRest
        have h1 := transferReply_mem ((s.begin ra ord).handle op) ((s.begin ra ord).handle op).releaseResult
          (by rw [e1]; exact h0)
        rw [e1] at h1
        exact h1
      have hgt := (C16.transfer_success_means_higher_term _).mp (uniq _ hrel)
      rw [e2] at hgt
      omega
    cases hE with
    | keep ts => exact main ts.task ts.term (by rw [ts.active]; exact hact)
    | tryT c _ r2 e =>
      have ts := r2 hact
      obtain ⟨t1, t2, t3, _⟩ := tryTransfer_transfer c
      exact main (by rw [e, t1]; exact ts.task) (by rw [e, t2]; exact ts.term)
        (by rw [e, t3, ts.active]; exact hact)
    | answered c r hr' htk _ e =>
      exfalso
      have hm : RepMem { task := s.ldr.transfer.task, result := r } ((s.begin ra ord).handle op) := by
        rw [e]
        unfold Node.replyTransfer
        have h1 := transferReply_mem c r (by rw [htk]; exact h0)
        rw [htk] at h1
        exact (repMem_step _).checkConfigActions_inv _ _ _ _ h1
      exact hr' (uniq r (hmono _ hm))

/-- **C16 (7), a transfer returns success only after the old leader has stepped down in favour of a higher term
(partial: the restrictions of the file header).** Let `x` be a reachable state of the cluster system, `i` an open node
that is leader with a transfer in progress for the task `tk ≠ 0`, whose task ledger is consistent
(`C15Tasks.TasksOK`), and `op` any operation that may be delivered to `i` (`Commit.Enabled`, `EnabledG`) bringing in
fresh task ids (`C15Tasks.Fresh`: distinct, waiting nowhere — the client side generates a new id per task), handled
with any oracle. If the step answers the transfer task with `ok` (the `TransferLeadership` call returns success), then
in this very step the handler left the leader role — the node stepped down; the answer is the one `leader.release`
gives — and the node's term after the step is above the term in which the transfer was started. (Otherwise the task
stays pending, or is answered with an error: `timeout:transferLeadership`, the target's refusal, `notLeader`,
`serverClosed`, `quorumUnreachable`.) -/
theorem transfer_success_means_stepped_down_sys_partial (V : List Nat) (hV : V.Nodup) (x : Commit.Sys)
    (h : ReachableG V x) (i : Nat) (op : Op) (src : Nat) (he : Commit.Enabled x i op src) (heG : EnabledG x i op)
    (ho : (x.node i).closed = "") (ra : List Nat) (ord : List (List Nat))
    (hT : C15Tasks.TasksOK (x.node i)) (hF : C15Tasks.Fresh (x.node i) op)
    (hl : (x.node i).role = .leader) (hact : (x.node i).ldr.transfer.active = true)
    (h0 : (x.node i).ldr.transfer.task ≠ 0)
    (hrep : ({ task := (x.node i).ldr.transfer.task, result := "ok" } : Reply) ∈ ((x.node i).step op ra ord).replies) :
    (((x.node i).begin ra ord).handle op).role ≠ .leader ∧
    (x.node i).ldr.transfer.term < ((x.node i).step op ra ord).term := by
  obtain ⟨hI, _⟩ := inv_reachable hV (reachableG_V h)
  obtain ⟨_, hnd, hdis, _⟩ := C19Sys.tasks_step_in_sys_partial V hV x h i op src he heG ho ra ord hT hF
  exact transfer_ok_means_left _ op ra ord he.ok2 hl hact h0 (hI.rp.el.ids i).2 hnd hdis hrep

/-! ### 5. the designated target -/

/-- **node level: a step of a leader that raises `respPending` ended with the call `tryTransfer` that designated a
target** — for every state, every operation of the model, every oracle. -/
theorem designated_by_tryTransfer (s : Node) (op : Op) (ra : List Nat) (ord : List (List Nat)) (hok : OpOK2 op)
    (hl : s.role = .leader) (h0 : s.ldr.transfer.respPending = false)
    (h1 : (s.step op ra ord).ldr.transfer.respPending = true) :
    ∃ c : Node, s.step op ra ord = c.tryTransfer ∧ c.tryTransferTarget.1 ≠ 0 := by
  have hne : op ≠ .shutdown := by intro e; rw [e] at hok; exact hok.1
  have hst := TL.step_eq_settle s op ra ord hne
  rw [hl] at hst
  have hlb : (s.begin ra ord).role = .leader := hl
  have hE := handle_end (s.begin ra ord) op hok hlb
  have h0b : ¬ (s.begin ra ord).ldr.transfer.respPending = true := by
    show ¬ s.ldr.transfer.respPending = true
    rw [h0]; exact fun e => by cases e
  by_cases hr : ((s.begin ra ord).handle op).role = .leader
  · have hp : s.step op ra ord = (s.begin ra ord).handle op := by
      rw [hst, ← hr]; exact settle_same 6 _
    rw [hp] at h1 ⊢
    cases hE with
    | keep ts => exact absurd (ts.resp h1) h0b
    | tryT c r1 _ e =>
      by_cases ht : c.tryTransferTarget.1 = 0
      · rw [e, (tryTransfer_transfer c).2.2.2 ht] at h1
        exact absurd (r1 h1) h0b
      · exact ⟨c, e, ht⟩
    | answered c r _ _ _ e =>
      rw [e, replyTransfer_transfer] at h1
      cases h1
  · have := settle_left_noResp 5 _ hr
    rw [← hst] at this
    unfold NoResp at this
    rw [this] at h1
    cases h1

/-- **C16 (5), the designated successor is a voter that holds the old leader's log (partial: the restrictions of the
file header).** Let `x` be a reachable state, `i` an open node that is leader and has no `timeoutNow` request in
flight (`transfer.respPending = false`), `op` any operation that may be delivered to `i`, handled with any oracle,
such that afterwards `i` is still an open leader and HAS a `timeoutNow` request in flight (`respPending = true`): the
step designated a transfer target. Let `y = stepC x i op ra ord src` be the state after the step (satisfying the
side condition `SideV` of the run) and `p` the node `i` in it. Then the step ended with a call `c.tryTransfer` whose
choice `t = c.tryTransferTarget.1 ≠ 0` — the target the `timeoutNow` request is sent to — satisfies:
* `t` is a voter of the (fixed) configuration, `t ∈ V`, other than the leader itself;
* the ledger `acks` of `y` holds an acknowledgement `a` of `t` for the leader's term whose index is the leader's LAST
  log index and whose entry term is the leader's term: `t` answered `success` to an append request of this leader
  ending at the leader's last entry — at that moment its log held every entry of the leader's log (log matching);
* and now: `t`'s log, flushed up to that index, holds at EVERY index `1 ≤ k' ≤ lastLogIndex` the very entry the
  leader holds — unless the tree of created entries contains an entry of a later term, not above `t`'s current term,
  that does not extend the leader's last entry (a leader of a later term has overwritten it on `t`; the transfer is
  then moot: the old leader is deposed). -/
theorem transfer_target_holds_log_sys_partial (V : List Nat) (hV : V.Nodup) (x : Commit.Sys) (h : ReachableG V x)
    (i : Nat) (op : Op) (src : Nat) (he : Commit.Enabled x i op src) (heG : EnabledG x i op)
    (ho : (x.node i).closed = "") (ra : List Nat) (ord : List (List Nat))
    (hs : SideV V (stepC x i op ra ord src))
    (hl : (x.node i).role = .leader) (h0 : (x.node i).ldr.transfer.respPending = false)
    (hl1 : ((x.node i).step op ra ord).role = .leader) (ho1 : ((x.node i).step op ra ord).closed = "")
    (h1 : ((x.node i).step op ra ord).ldr.transfer.respPending = true) :
    ∃ (c : Node) (t : Nat), (x.node i).step op ra ord = c.tryTransfer ∧ c.tryTransferTarget.1 = t ∧ t ≠ 0 ∧
      (t ∈ V ∧ t ≠ i ∧ ((x.node i).step op ra ord).configs.latest.isVoter t = true) ∧
      ∃ a ∈ (stepC x i op ra ord src).acks, a.voter = t ∧ a.term = ((x.node i).step op ra ord).term ∧
        a.index = ((x.node i).step op ra ord).lastLogIndex ∧ a.eterm = ((x.node i).step op ra ord).term ∧
        ((((x.node i).step op ra ord).lastLogIndex ≤ ((stepC x i op ra ord src).node t).log.flushed ∧
          ∀ k', 1 ≤ k' → k' ≤ ((x.node i).step op ra ord).lastLogIndex →
            ((stepC x i op ra ord src).node t).log.get? k' = ((x.node i).step op ra ord).log.get? k') ∨
         ∃ c' ∈ (stepC x i op ra ord src).T, ((x.node i).step op ra ord).term < c'.e.term ∧
           c'.e.term ≤ ((stepC x i op ra ord src).node t).term ∧
           ¬ Anc (stepC x i op ra ord src).T
             (((x.node i).step op ra ord).lastLogIndex, ((x.node i).step op ra ord).term) (c'.e.index, c'.e.term)) := by
  have hG := ginv_reachable hV h
  have hR := reachableG_V h
  obtain ⟨hI, hS⟩ := inv_reachable hV hR
  have sc : SC V x i op ra ord src := ⟨hV, hI, hS, he⟩
  have hIy : CInv V (stepC x i op ra ord src) := sc.cinv
  have hGy : GInv (stepC x i op ra ord src) := sc_ginv sc hR ho hG heG
  have hni : (stepC x i op ra ord src).node i = (x.node i).step op ra ord := sc.node_i
  obtain ⟨c, hc, ht0⟩ := designated_by_tryTransfer (x.node i) op ra ord he.ok2 hl h0 h1
  -- the facts about node `i` of `y`, in terms of `p`
  have hly : ((stepC x i op ra ord src).node i).role = .leader := by rw [hni]; exact hl1
  have hcache : C06Cache.CacheOK ((x.node i).step op ra ord) := by
    have := (hGy.good i).leaderCacheOpen
    rw [hni] at this
    exact this ho1 hl1
  have hnid : ((x.node i).step op ra ord).nid = i := by rw [← hni]; exact (hIy.rp.el.ids i).1
  obtain ⟨f1, f2, f3, _, _, _⟩ := tryTransfer_fields c
  have frepls := tryTransfer_repls c
  rw [← hc] at f1 f2 f3 frepls
  have hself : c.findRepl? c.nid = none := by
    unfold Node.findRepl?
    rw [← frepls, ← f2]
    apply List.find?_eq_none.mpr
    intro r hr
    have := (hcache.repl_member r hr).1
    simpa using this
  obtain ⟨e1, e2, r, e3, _, e5⟩ := C16.transfer_target_eligible c _ rfl ht0 hself
  have hrmem : r ∈ ((x.node i).step op ra ord).ldr.repls ∧ r.id = c.tryTransferTarget.1 := by
    have := findRepl_mem e3
    rw [frepls]; exact this
  have lo := hIy.node.ldr i hly
  rw [hni] at lo
  have hlast : 1 ≤ ((x.node i).step op ra ord).lastLogIndex := by
    have := last_pos hs hGy i
    rw [hni] at this; exact this
  have hnwf : NWF ((x.node i).step op ra ord) := by have := nwf hIy i; rw [hni] at this; exact this
  have hmi : r.matchIndex = ((x.node i).step op ra ord).lastLogIndex := by rw [e5, f3]
  obtain ⟨a, ha, a1, a2, a3⟩ : Backed (stepC x i op ra ord src) i r.id r.matchIndex := by
    rcases lo.mi r hrmem.1 with z | b
    · omega
    · exact b
  have hh := ack_on_leader hV hIy hly ha a2
  rw [hni] at hh a2
  have hidx : a.index = ((x.node i).step op ra ord).lastLogIndex := by
    have := hh.2.1
    rw [← hnwf.last] at this
    omega
  have het : a.eterm = ((x.node i).step op ra ord).term := by
    rw [← hh.2.2]
    exact lo.own a.index (by rw [hidx, hnwf.last]; exact lo.startLe) hh.2.1
  have hV' : c.tryTransferTarget.1 ∈ V := by
    have hv := C01Sys.isVoter_mem_voters _ _ e1
    rw [← f1] at hv
    have := (hs.1 i).2
    rw [show ((stepC x i op ra ord src).rp.el.node i) = (x.node i).step op ra ord from hni] at this
    rw [this] at hv; exact hv
  refine ⟨c, _, hc, rfl, ht0, ⟨hV', by rw [← hnid, f2]; exact e2, by rw [f1]; exact e1⟩,
    a, ha, by rw [a1]; exact hrmem.2, a2, hidx, het, ?_⟩
  -- stability of the acknowledgement
  have hhy : Holds ((stepC x i op ra ord src).node i).log.entries a.index a.eterm := by rw [hni]; exact hh
  have hanc : Anc (stepC x i op ra ord src).T (a.index, a.eterm) a.key :=
    ⟨Nat.le_refl _, _, log_path hIy i, hhy, hhy⟩
  have hat : a.eterm = a.term := by rw [het, a2]
  rcases hIy.ack.stable a ha (a.index, a.eterm) hat hanc with d | ⟨c', hc', u1, u2, u3⟩
  · left
    rw [a1, hrmem.2] at d
    obtain ⟨d1, d2⟩ := d
    refine ⟨by rw [← hidx]; exact d1, fun k' hk1 hk2 => ?_⟩
    have := same_entries hIy d2 hhy hk1 (by rw [hidx]; exact hk2)
    rw [hni] at this
    exact this
  · right
    rw [a1, hrmem.2] at u2
    exact ⟨c', hc', by rw [← het]; exact u1, u2, by rw [← hidx, ← het]; exact u3⟩

/-! ### Examples (non-vacuity)

A hand-made leader state for the node-level statements (checked by the kernel), and the scenario of Props/C02Sys.lean
continued for the cluster-level ones (states in which a node has run `leader.init` are evaluated with `#guard` — tests,
not proofs: the mutually recursive leader block does not reduce in the kernel). -/

/-- `C06Cache.exLeader` (node 1 leads {1 voter, 2 voter, 3 non-voter} in term 1, last log index 3) after node 2 has
acknowledged index 3 -/
def exT : Node :=
  C06Cache.exLeader.withLdr { C06Cache.exLeader.ldr with
    repls := [{ id := 2, node := { id := 2, addr := "b:1", voter := true }, matchIndex := 3 },
              { id := 3, node := { id := 3, addr := "c:1", voter := false, action := actPromote }, matchIndex := 3 }] }

/-- the same leader with a transfer in progress: task 7, started in term 1, `timeoutNow` sent to the target -/
def exA : Node :=
  exT.withLdr { exT.ldr with transfer := { active := true, task := 7, term := 1, respPending := true } }

/-- EXAMPLE (`designated_by_tryTransfer`, and the node-level hypotheses of `transfer_target_holds_log_sys_partial`): the
leader `exT` handles a `TransferLeadership` task without target: it is a leader, no request is in flight before, one is
afterwards; `tryTransfer` designates node 2 — the voter whose match index is the last log index; the non-voter 3 is
not eligible although it has acknowledged everything -/
example : OpOK2 (.transfer 7 0) ∧ exT.role = .leader ∧ exT.ldr.transfer.respPending = false ∧
    (exT.step (.transfer 7 0) [] []).role = .leader ∧
    (exT.step (.transfer 7 0) [] []).ldr.transfer.respPending = true ∧
    (exT.step (.transfer 7 0) [] []).ldr.transfer.task = 7 ∧
    ((exT.begin [] []).withLdr { exT.ldr with transfer := { term := 1, task := 7, active := true } }).tryTransferTarget.1 = 2 :=
  ⟨⟨trivial, (fun b h => by cases h), (fun t c h => by cases h)⟩, by decide, by decide, by decide, by decide,
    by decide, by decide⟩

/-- EXAMPLE (`no_new_work_during_transfer_step`): its hypotheses hold on `exA`; hence (by the theorem) a client update
submitted now is answered `inProgress:transferLeadership` and the log stays as it is -/
example : exA.role = .leader ∧ exA.ldr.transfer.active = true ∧
    core (exA.step (.newEntries [{ typ := etUpdate, data := "y", task := 8 }]) [] []) = core exA :=
  ⟨rfl, rfl, ((no_new_work_during_transfer_step exA [] [] rfl rfl).1 _).1⟩

/-- a replication reports that it has seen term 2 -/
def exNewTerm : Op := .replUpdates [{ id := 2, upd := .newTerm 2 }]

set_option maxRecDepth 100000 in
/-- EXAMPLE (`transfer_ok_means_left`): the leader `exA` learns of term 2 from a replication (`exNewTerm`): it steps
down and `leader.release` answers the transfer task 7 with `ok` — all hypotheses of the theorem hold; its term is then
2, above the transfer's term 1 -/
example :
    OpOK2 exNewTerm ∧ exA.role = .leader ∧ exA.ldr.transfer.active = true ∧ exA.ldr.transfer.task ≠ 0 ∧
    C05.VoteWF exA ∧ (C15Tasks.answered (exA.step exNewTerm [] [])).Nodup ∧
    (∀ t ∈ C15Tasks.answered (exA.step exNewTerm [] []), t ∉ C15Tasks.pending (exA.step exNewTerm [] [])) ∧
    ({ task := exA.ldr.transfer.task, result := "ok" } : Reply) ∈ (exA.step exNewTerm [] []).replies ∧
    (exA.step exNewTerm [] []).term = 2 ∧ (exA.step exNewTerm [] []).role = .follower := by
  refine ⟨⟨?_, (fun b h => by unfold exNewTerm at h; cases h), (fun t c h => by unfold exNewTerm at h; cases h)⟩,
    rfl, rfl, by decide, ⟨rfl, rfl⟩, ?_, ?_, ?_, ?_, ?_⟩
  · show NoCompact [{ id := 2, upd := .newTerm 2 }]
    intro u hu v h
    rw [List.mem_singleton.mp hu] at h
    cases h
  all_goals decide +kernel

/-- the scenario of Props/C02Sys.lean continued: the leader 1 of term 2 (nodes 2 and 3 have acknowledged its last entry
(2,2)) is asked to transfer leadership (task 7, no target): it designates node 2 … -/
def exS1 : Commit.Sys := stepC C02Sys.ex7 1 (.transfer 7 0) [] [] 0
/-- … and then learns of term 3 from its replication to node 2 (the new leader's term): it steps down -/
def exS2 : Commit.Sys := stepC exS1 1 (.replUpdates [{ id := 2, upd := .newTerm 3 }]) [] [] 0

-- evaluation (tests, not proofs): in `ex7` the leader has no request in flight; after the step it has one; the ledger
-- holds the acknowledgement (voter 2, term 2, index 2 = the leader's last index, entry term 2) the theorem promises,
-- and node 2's flushed log holds the leader's log
#guard (C02Sys.ex7.node 1).role == .leader && !(C02Sys.ex7.node 1).ldr.transfer.respPending
#guard (exS1.node 1).role == .leader && (exS1.node 1).ldr.transfer.respPending && (exS1.node 1).lastLogIndex == 2
#guard exS1.acks.any (fun a => a.voter == 2 && a.term == 2 && a.index == 2 && a.eterm == 2)
#guard (exS1.node 2).log.flushed == 2 &&
  [1, 2].all (fun k => ((exS1.node 2).log.get? k).map (·.term) == ((exS1.node 1).log.get? k).map (·.term))
-- the transfer task is answered `ok` in the step in which node 1 steps down, and its term is then 3 > 2
#guard (exS1.node 1).ldr.transfer.active && (exS1.node 1).ldr.transfer.task == 7 && (exS1.node 1).ldr.transfer.term == 2
#guard (exS2.node 1).replies.any (fun r => r.task == 7 && r.result == "ok")
#guard (exS2.node 1).role == .follower && (exS2.node 1).term == 3
-- while the transfer is in progress a client update is rejected and nothing is stored
#guard ((exS1.node 1).step (.newEntries [{ typ := etUpdate, data := "y", task := 8 }]) [] []).replies.any
  (fun r => r.task == 8 && r.result == "inProgress:transferLeadership")
#guard ((exS1.node 1).step (.newEntries [{ typ := etUpdate, data := "y", task := 8 }]) [] []).lastLogIndex == 2

-- `transfer_never_two_leaders_partial`: `ex7`, `exS1` have the leader 1 of term 2; after the transfer no node leads
#guard (C02Sys.ex7.node 1).role == .leader && (exS1.node 1).term == 2 &&
  [1, 2, 3].all (fun j => (exS2.node j).role != .leader)

/-- EXAMPLE (`transfer_never_two_leaders_partial`): the hypotheses on the run are satisfiable (a reachable state and a
later state of a run; leaders only arise after `leader.init`, see the `#guard` above) -/
example : [1, 2, 3].Nodup ∧ ReachableG [1, 2, 3] C02Sys.ex0 ∧ RunG [1, 2, 3] C02Sys.ex0 C02Sys.ex1 :=
  ⟨by decide, C19Sys.ex0_reachable,
    .next _ _ .refl (.step 1 .timeout [] [] 0 C19Sys.ex1_enabled.1 C19Sys.ex1_enabled.2 rfl) C02Sys.ex1_side
      C19Sys.ex1_sideG⟩

end C16Sys
end Raft

#print axioms Raft.C16Sys.transfer_target_holds_log_sys_partial
#print axioms Raft.C16Sys.designated_by_tryTransfer
#print axioms Raft.C16Sys.transfer_never_two_leaders_partial
#print axioms Raft.C16Sys.transfer_ops_admitted
#print axioms Raft.C16Sys.transfer_success_means_stepped_down_sys_partial
#print axioms Raft.C16Sys.transfer_ok_means_left
#print axioms Raft.C16Sys.no_new_work_during_transfer_step
