/-
C09 / C04 / C02 / C03 on the cluster-level transition system WITH LOCAL SNAPSHOTS, LOG COMPACTION AND INSTALLATION OF
SNAPSHOTS `Raft.Snap3` (Sys/Snap3.lean) — stage 3 of lifting the `OpOK` restriction of `Raft.Commit`: in addition to
stage 2 (Sys/Snap2.lean, Props/C09Sys2.lean) a leader puts its newest snapshot on the wire (`Trans.sendSnap`), any node
handles an install request of the ledger at any time (`Trans.install`: `Raft.onInstallSnapRequest` — publish the file,
apply retention, reset the log to the snapshot, restore the state machine, `commitIndex := lastIndex`), and dies at ANY
storage point of that handler and restarts from what is on disk (`Trans.crashInstall`).  From then on a log may start
exactly at its snapshot index and be empty (the side condition `Side2.gap` of stage 2 is gone).
See the header of Sys/Snap3.lean for the complete list of assumptions (`NoCut` — for CRASHES in an append handler only;
completed steps are unrestricted —, `TermTracked`, no reset of a log that is not stale because of a newly received
snapshot, and those of stages 1 and 2).

Stage 3 had been stopped by finding F18 (a crash between `snap.publish` and `clearLog` left the OLD log under the NEW
snapshot; `Props/C09Sys2.lean`, `exI*`); the repaired model resets such a log on restart (`Node.staleLog`).  This file
proves, on the repaired model:
* node level (any node, no cluster assumptions): the crash analysis of the install handler — `install_crash_disks`,
  `install_window_log_is_stale`, `install_crash_restarts_installed`, `install_crash_keeps_node_invariants`;
* cluster level (every reachable state of `Raft.Snap3`): `snapshot_agrees_with_log_partial` (the invariant "the log at
  the snapshot index agrees with the snapshot"), `snapshot_is_committed_prefix_partial` (files taken AND installed),
  `install_request_is_committed_prefix_partial`, `log_matching_sys_snap3_partial`, `leader_completeness_sys_snap3_partial`,
  `state_machine_safety_sys_snap3_partial`, `compaction_keeps_servable_partial`,
  `lagging_follower_catches_up_by_snapshot_partial`.

* cluster level WITHOUT the premise `TermTracked` (`Raft.Snap4`, Sys/Snap4.lean: the per-node invariants `C12Track.Tracks` /
  `Order.Ordered` are carried along the runs; three more side conditions on configurations): `tracked_runs_partial`,
  `snapshot_agrees_with_log_sys_snap4_partial`.

Method: Lemmas/SnapInstCrash.lean (crash points of the handler), Lemmas/SnapInstA.lean (a node whose log is replaced by a
committed root path of the tree of created entries keeps `CInv` / `FsmInv` / `SInv`: the installation seen by the
invariants; what the discarded log held is `Unsafe` by leader completeness), Lemmas/SnapInstU.lean (un-compaction of a
log that starts at its snapshot index), Lemmas/SnapInstV.lean + Lemmas/SnapInst3v.lean (a completed append step that
overwrites the first entry behind an installed snapshot: un-compaction that keeps the segment list),
Lemmas/SnapInst3a–h.lean (the invariant `Inv3` and its preservation),
Lemmas/SnapInst4*.lean (`Order.ReqOk` discharged in the system; the disk at every crash point is one from which a restart
yields a tracking node).
-/
import RaftVerif.Lemmas.SnapInst4c
import RaftVerif.Props.C09Sys2
import RaftVerif.Props.C19Sys

namespace Raft
namespace C09Sys3
open Node Election LogRel Replication CommitRel Commit C02Sys C03Sys SnapRel SnapRelU SnapSim Snap Snap2 SnapInv SnapInv2
open SnapInst Snap3 SnapInst3 Snap4 SnapInst4

/-! ## node level: a crash at every storage point of `onInstallSnapRequest` -/

/-- **The crash points of the install handler.** Whatever the install request `q` (stale, duplicate, already held, or
installing) and after however many storage points `k` the process dies, the disk holds (`SnapInst.InstDisk`): the node's
identity; the old `(term, vote)` or the request's newer term with no vote; and EITHER the old log and the old snapshot
files, OR — only when the request installs (`Installs`: not stale, ahead of the commit index, last entry not held) — the
received file among the files (before or after retention) with the OLD log (crash after `snap.publish` / `snap.retain`)
or the RESET log (crash after `clearLog`). -/
theorem install_crash_disks (s : Node) (q : InstallReq) (ra : List Nat) (ord : List (List Nat)) (k : Nat) :
    InstDisk s q (C05.crashDisk s (.install q) ra ord k) := install_crashDisk s q ra ord k

/-- **F18, repaired: in the window between `snap.publish` and `clearLog` the log on disk is stale.** If the request
installs and the log starts at or below the commit index, then a disk holding the OLD log under the received snapshot file
is recognised by `openStorage` (`Node.staleLog`): the log ends below the snapshot index or holds an entry of another term
there — so the restart resets it to the snapshot (`C10.logOf d = NLog.reset lastIndex`). -/
theorem install_window_log_is_stale (s : Node) (q : InstallReq) (hi : Installs s q) (hprev : s.log.prev ≤ s.commitIndex)
    (d : Durable) (hlog : d.log = s.durable.log) (hhead : d.snaps.head? = some (C09.fileOf q)) :
    staleLog d = true ∧ C10.logOf d = NLog.reset q.lastIndex :=
  ⟨install_disk_stale s q hi hprev d hlog hhead, (install_disk_logOf s q hi hprev d (Or.inl hlog) hhead).2⟩

/-- **A crash after `snap.publish` restarts into the installed state.** From every disk that holds the received file
(old or reset log, files before or after retention) the restarted node has: the log reset to the snapshot, last log
index / term = snapshot index / term = the request's, `commitIndex = lastIndex`, the state machine = the snapshot's content,
both configurations = its label, role follower, term and vote from disk, no failed assertion — never the old log under
the new snapshot. -/
theorem install_crash_restarts_installed (s : Node) (q : InstallReq) (hi : Installs s q)
    (hprev : s.log.prev ≤ s.commitIndex) (hr : 1 ≤ s.retain)
    (hh : ∀ g, s.snapsDisk.head? = some g → g.index ≤ q.lastIndex)
    (d : Durable) (hlog : d.log = s.durable.log ∨ d.log = NLog.reset q.lastIndex)
    (hsn : d.snaps = insertSnap (C09.fileOf q) s.snapsDisk ∨
      d.snaps = (insertSnap (C09.fileOf q) s.snapsDisk).take s.retain)
    (r : Nat) (sor : Bool) (n : Node) (hn : Node.restart d r sor = some n) :
    n.log = NLog.reset q.lastIndex ∧ n.lastLogIndex = q.lastIndex ∧ n.lastLogTerm = q.lastTerm ∧
    n.snapIndex = q.lastIndex ∧ n.snapTerm = q.lastTerm ∧ n.commitIndex = q.lastIndex ∧
    n.fsm = { index := q.lastIndex, term := q.lastTerm, applied := q.data, config := q.lastConfig } ∧
    n.configs = { committed := q.lastConfig, latest := q.lastConfig } ∧ n.snapsDisk = d.snaps ∧
    n.role = .follower ∧ n.term = d.term ∧ n.votedFor = d.vote ∧ n.panicked = none :=
  install_crash_restart_installed s q hi hprev hr hh d hlog hsn r sor n hn

/-- **The per-node invariants survive a crash at EVERY storage point of the install handler** (what
`Props/C12Track.lean` left open for the storage points inside this handler). Let `s` be tracking (`C12Track.Tracks`: the
log entry at the snapshot index, if held, has the snapshot's term; `fsm.term` / `fsm.config` are those of the applied
prefix; the newest label is self-consistent) and ordered (`Order.Ordered`), with a log well formed with respect to
flushing, a newest label covered by its snapshot, and — if `q` installs — a label of `q` covered by `q`'s snapshot
(`Order.InstallOk`). Then the node restarted after a crash at any point `k` of handling ANY install request `q` is tracking
and ordered again. -/
theorem install_crash_keeps_node_invariants (s : Node) (q : InstallReq) (ra : List Nat) (ord : List (List Nat))
    (k r : Nat) (sor : Bool) (n : Node) (ht : C12Track.Tracks s) (ho : Order.Ordered s) (hw : C06.LogWF s.log)
    (hlab : (Track.label s).index ≤ s.snapIndex) (hq : Installs s q → Order.InstallOk q) (hr : 1 ≤ r)
    (hn : Node.restart (C05.crashDisk s (.install q) ra ord k) r sor = some n) :
    C12Track.Tracks n ∧ Order.Ordered n ∧
    (n.log.prev < n.snapIndex → (n.log.get? n.snapIndex).map (·.term) = some n.snapTerm) := by
  obtain ⟨a, b⟩ := install_crash_restart_tracks s q ra ord k r sor n ht ho hw hlab hq hr hn
  exact ⟨a, b, a.snapOk.termLog⟩

/-! ## cluster level -/

section
variable {V : List Nat}

/-- what the real log still holds is what the virtual log holds there -/
theorem get_virtual3 (x : Snap3.Sys) (i k : Nat) (h : (x.node i).log.prev < k) :
    (x.node i).log.get? k = (x.vnode i).log.get? k := (U_get? (x.node i) k h).symm

theorem vget3 (x : Snap3.Sys) (i k : Nat) (hk : 1 ≤ k) : (x.vnode i).log.get? k = (x.vlog i)[k - 1]? := by
  unfold NLog.get?
  rw [if_pos (show (x.vnode i).log.prev < k from hk)]
  show (x.vlog i)[k - 0 - 1]? = _
  rw [Nat.sub_zero]

/-- an entry the real log holds at index `k` has the term of the virtual log at `k` -/
theorem term_of_get (x : Snap3.Sys) (i k : Nat) (e : Entry) (h : (x.node i).log.get? k = some e) :
    termAt (x.vlog i) k = e.term := by
  have hp := C09Sys2.get_some_prev h
  rw [get_virtual3 x i k hp, vget3 x i k (by omega)] at h
  unfold termAt
  rw [if_neg (by omega), h]; rfl

/-- **C09 — the snapshot agrees with the log (partial, stage 3).** In every state of the cluster reachable in
`Raft.Snap3` (`Reachable3 V`: any schedule, message delay / loss / duplication / reordering, crashes at any storage point
— of the install handler too — and restarts, snapshots taken, logs compacted, snapshots sent and installed at any time;
assumptions: header of Sys/Snap3.lean), on every node `i`:
1. `log.prev ≤ snapIndex ≤ commitIndex`: the log starts at or below the snapshot index;
2. `snapTerm` is the term recorded in the newest snapshot file, and every snapshot file `f` on disk — TAKEN by the node
   (`fsm.index`, `fsm.term`) or INSTALLED from a leader (`lastIndex`, `lastTerm`) — names an entry of the node's virtual
   log: the entry at `f.index` has term `f.term`;
3. hence: **the log entry at the snapshot index, if the log holds it, has term `snapTerm`** — what makes skipping the
   consistency check of `onAppendEntriesRequest` for `prevLogIndex ≤ snapIndex` sound — and likewise at the index of
   every file on disk. -/
theorem snapshot_agrees_with_log_partial (hV : V.Nodup) (x : Snap3.Sys) (h : Reachable3 V x) (i : Nat) :
    ((x.node i).log.prev ≤ (x.node i).snapIndex ∧ (x.node i).snapIndex ≤ (x.node i).commitIndex) ∧
    ((x.node i).snapTerm = (headOf (x.node i).snapsDisk).term ∧
      (∀ f ∈ (x.node i).snapsDisk, termAt (x.vlog i) f.index = f.term) ∧
      (0 < (x.node i).snapIndex → termAt (x.vlog i) (x.node i).snapIndex = (x.node i).snapTerm)) ∧
    ((∀ e, (x.node i).log.get? (x.node i).snapIndex = some e → e.term = (x.node i).snapTerm) ∧
      ∀ f ∈ (x.node i).snapsDisk, ∀ e, (x.node i).log.get? f.index = some e → e.term = f.term) := by
  have hI := (inv3_reachable hV h).1
  have so : SnapOK (x.vnode i) := hI.sinv.snap i
  have hv := hI.vterm i
  have hhead : (x.node i).snapIndex = (headOf (x.node i).snapsDisk).index := so.head
  have hsc : (x.node i).snapIndex ≤ (x.node i).commitIndex := by
    show (x.vnode i).snapIndex ≤ (x.vnode i).commitIndex
    rw [so.head]; exact so.files.head_le
  have hpos : 0 < (x.node i).snapIndex → termAt (x.vlog i) (x.node i).snapIndex = (x.node i).snapTerm := by
    intro h0
    have hm : headOf (x.node i).snapsDisk ∈ (x.node i).snapsDisk := by
      rw [hhead] at h0
      unfold headOf at h0 ⊢
      cases hs : (x.node i).snapsDisk with
      | nil => rw [hs] at h0; simp at h0
      | cons a as => simp
    rw [hv.head, hhead]
    exact hv.files _ hm
  refine ⟨⟨(hI.prev i).le, hsc⟩, ⟨hv.head, hv.files, hpos⟩, fun e he => ?_, fun f hf e he => ?_⟩
  · have hp := C09Sys2.get_some_prev he
    rw [← term_of_get x i _ e he]
    exact hpos (by omega)
  · rw [← term_of_get x i _ e he]
    exact hv.files f hf

/-- **C04 with installed snapshots — log matching (partial, stage 3).** In every reachable state of `Raft.Snap3`: if
the logs of nodes `i` and `j` hold entries with the same term at index `k`, then at every index `k' ≤ k` that BOTH logs
still hold they hold the SAME entry; and the same for the virtual logs (compacted-away and installed prefixes included)
at every index `k' ≤ k`. -/
theorem log_matching_sys_snap3_partial (hV : V.Nodup) (x : Snap3.Sys) (h : Reachable3 V x) (i j k : Nat)
    (a b : Entry) (ha : (x.node i).log.get? k = some a) (hb : (x.node j).log.get? k = some b)
    (ht : a.term = b.term) :
    (∀ k', k' ≤ k → ∀ a' b', (x.node i).log.get? k' = some a' → (x.node j).log.get? k' = some b' → a' = b') ∧
    (∀ k', k' ≤ k → ∀ a' b', (x.vnode i).log.get? k' = some a' → (x.vnode j).log.get? k' = some b' → a' = b') := by
  have hS := (inv3_reachable hV h).1.sinv
  rw [get_virtual3 x i k (C09Sys2.get_some_prev ha)] at ha
  rw [get_virtual3 x j k (C09Sys2.get_some_prev hb)] at hb
  have key := C09Sys.log_matching_of_inv (view3 x) hS i j k a b ha hb ht
  refine ⟨fun k' hk a' b' ha' hb' => ?_, key⟩
  rw [get_virtual3 x i k' (C09Sys2.get_some_prev ha')] at ha'
  rw [get_virtual3 x j k' (C09Sys2.get_some_prev hb')] at hb'
  exact key k' hk a' b' ha' hb'

/-- **C02 with installed snapshots — leader completeness (partial, stage 3).** In every reachable state of `Raft.Snap3`:
1. every leader holds — in its virtual log, and in its real log unless the index is at or below `log.prev`, in which
   case it is covered by the leader's own snapshot — every entry of the ledger `committed` whose term is not above its own;
2. every leader `i` whose term is at least the term of node `j` holds (virtually), at every index within `j`'s commit
   index, the very entry `j` holds there — where `j`'s commit index may come from an INSTALLED snapshot;
3. every created entry of a later term extends every ledger entry. -/
theorem leader_completeness_sys_snap3_partial (hV : V.Nodup) (x : Snap3.Sys) (h : Reachable3 V x) :
    (∀ i, (x.node i).role = .leader → ∀ m ∈ x.s2.cs.committed, m.2 ≤ (x.node i).term →
      ∃ e, (x.vnode i).log.get? m.1 = some e ∧ e.term = m.2 ∧
        ((x.node i).log.prev < m.1 → (x.node i).log.get? m.1 = some e) ∧
        (m.1 ≤ (x.node i).log.prev → m.1 ≤ (x.node i).snapIndex)) ∧
    (∀ i j k, (x.node i).role = .leader → (x.node j).term ≤ (x.node i).term → 1 ≤ k →
      k ≤ (x.node j).commitIndex →
      (x.vnode i).log.get? k = (x.vnode j).log.get? k ∧ ((x.vnode j).log.get? k).isSome = true) ∧
    (∀ m ∈ x.s2.cs.committed, ∀ c ∈ x.s2.cs.T, m.2 < c.e.term → Anc x.s2.cs.T m (key c)) := by
  have hI := (inv3_reachable hV h).1
  obtain ⟨p1, p2, p3⟩ := C09Sys.leader_completeness_of_inv hV (view3 x) hI.sinv
  refine ⟨fun i hl m hm hle => ?_, p2, p3⟩
  obtain ⟨e, he, het⟩ := p1 i hl m hm hle
  exact ⟨e, he, het, fun hlt => by rw [get_virtual3 x i m.1 hlt]; exact he,
    fun hle' => Nat.le_trans hle' (hI.prev i).le⟩

/-- **C03 with installed snapshots — state-machine safety (partial, stage 3).** In every reachable state of
`Raft.Snap3`, on every node — whatever mixture of applying log entries, taking snapshots, compacting, INSTALLING a
snapshot, crashing (also in the middle of an installation) and restoring the state machine from a snapshot file at
restart produced its state:
1. the state machine holds exactly the update payloads of the entries `1 … fsm.index` of its virtual log (after an
   installation: of the prefix the installed snapshot stands for), in order, and never ran ahead of the commit index;
2. every entry it has been fed is committed;
3. a node that applied no more than another holds (virtually) the same entries up to its applied index and its command
   sequence is a prefix of the other's; hence any two command sequences are prefix-comparable. -/
theorem state_machine_safety_sys_snap3_partial (hV : V.Nodup) (x : Snap3.Sys) (h : Reachable3 V x) :
    (∀ i, (x.node i).fsm.index ≤ (x.node i).commitIndex ∧
      (x.node i).fsm.index ≤ (x.vlog i).length ∧
      (x.node i).fsm.applied = ups ((x.vlog i).take (x.node i).fsm.index)) ∧
    (∀ i k, 1 ≤ k → k ≤ (x.node i).fsm.index → Committed (view3 x).cs (k, termAt (x.vlog i) k)) ∧
    (∀ i j, (x.node i).fsm.index ≤ (x.node j).fsm.index →
      (x.vlog i).take (x.node i).fsm.index = (x.vlog j).take (x.node i).fsm.index ∧
      (x.node i).fsm.applied <+: (x.node j).fsm.applied) ∧
    (∀ i j, (x.node i).fsm.applied <+: (x.node j).fsm.applied ∨
      (x.node j).fsm.applied <+: (x.node i).fsm.applied) :=
  C09Sys.state_machine_safety_of_inv (view3 x) (inv3_reachable hV h).1.sinv

/-- **C09 — every snapshot file, taken or installed, is a committed prefix (partial, stage 3).** In every reachable
state of `Raft.Snap3`, for every snapshot file `f` that node `i` ever had on disk (the ghost ledger `snaps`: files
written by the node's snapshot goroutine AND files received in install requests) and for every file on its disk now:
1. `1 ≤ f.index ≤ snapIndex ≤ commitIndex`;
2. every index up to `f.index` of node `i`'s virtual log holds a committed entry, and `f.data` is the list of update
   payloads of the entries `1 … f.index` of that log;
3. and it is the replay of the virtual log of EVERY node `j` whose commit index covers `f.index`. -/
theorem snapshot_is_committed_prefix_partial (hV : V.Nodup) (x : Snap3.Sys) (h : Reachable3 V x) :
    ∀ i f, ((i, f) ∈ x.s2.snaps ∨ f ∈ (x.node i).snapsDisk) →
      1 ≤ f.index ∧ f.index ≤ (x.node i).snapIndex ∧ (x.node i).snapIndex ≤ (x.node i).commitIndex ∧
      (∀ k, 1 ≤ k → k ≤ f.index → Committed (view3 x).cs (k, termAt (x.vlog i) k)) ∧
      f.data = ups ((x.vlog i).take f.index) ∧
      ∀ j, f.index ≤ (x.node j).commitIndex → f.data = ups ((x.vlog j).take f.index) :=
  C09Sys.snapshot_is_committed_prefix_of_inv (view3 x) (inv3_reachable hV h).1.sinv

/-- **C09 — an install request on the wire is a committed prefix (partial, stage 3).** In every reachable state of
`Raft.Snap3`, for every install request `m.q` a leader ever sent (ledger `sentSnaps`; `m.pre` is the ghost prefix of the
sender's virtual log it was read from): `m.pre` has length `lastIndex ≥ 1`, is a root path of the tree of created entries
whose last entry has term `lastTerm`, every entry of it is committed by a leader of a term `≤` the request's, `data` is
the replay of `m.pre`, and EVERY node `j` whose commit index covers `lastIndex` holds exactly `m.pre` as the first
`lastIndex` entries of its virtual log — whenever the request is delivered, however late. -/
theorem install_request_is_committed_prefix_partial (hV : V.Nodup) (x : Snap3.Sys) (h : Reachable3 V x) :
    ∀ m ∈ x.sentSnaps, m.pre.length = m.q.lastIndex ∧ 1 ≤ m.q.lastIndex ∧ Path (view3 x).cs.T m.pre ∧
      lastTerm m.pre = m.q.lastTerm ∧
      (∀ k, 1 ≤ k → k ≤ m.q.lastIndex → Cmt (view3 x).cs (k, termAt m.pre k) m.q.term) ∧
      m.q.data = ups m.pre ∧
      ∀ j, m.q.lastIndex ≤ (x.node j).commitIndex →
        (x.vlog j).take m.q.lastIndex = m.pre ∧ m.q.data = ups ((x.vlog j).take m.q.lastIndex) := by
  have hI := (inv3_reachable hV h).1
  intro m hm
  have mo := hI.msgs m hm
  have hc := hI.sinv.cinv
  have hne : 1 ≤ m.pre.length := by rw [mo.len]; exact mo.pos
  have hpath : Path (eview (view3 x).cs).T m.pre := mo.path
  have hcmt : Cmt (eview (view3 x).cs) (m.pre.length, lastTerm m.pre) m.q.term := mo.cmt
  refine ⟨mo.len, mo.pos, mo.path, mo.lastT, fun k h1 h2 => ?_, mo.data, fun j hj => ?_⟩
  · exact path_cmt (uniq hc) hpath hne hcmt k h1 (by rw [mo.len]; exact h2)
  · have := path_agree_commit hc hpath hne hcmt j m.q.lastIndex hj (by rw [mo.len]; exact Nat.le_refl _)
    rw [List.take_of_length_le (by rw [mo.len]; exact Nat.le_refl _)] at this
    have e : ((eview (view3 x).cs).node j).log.entries = x.vlog j := rfl
    rw [e] at this
    exact ⟨this.symm, by rw [← this]; exact mo.data⟩

/-- **C09 — compaction and installation keep every follower servable (partial, stage 3).** In every reachable state of
`Raft.Snap3`, for every node `i`:
1. the log starts at or below the snapshot index (`log.prev ≤ snapIndex ≤ commitIndex`): every index the log no longer
   holds — compacted away, or never held because a snapshot was installed — is covered by the node's newest snapshot;
2. if anything is missing, that snapshot is a file on the node's disk, its index is the snapshot index, its term the
   snapshot term, and its content is the replay of the virtual log up to there — the committed prefix on every node;
3. every index above `log.prev` up to the last index is answered by `Log.Get` with the entry of the virtual log.
So a leader can bring ANY follower up to date: from its log above `log.prev`, with its snapshot at or below. -/
theorem compaction_keeps_servable_partial (hV : V.Nodup) (x : Snap3.Sys) (h : Reachable3 V x) (i : Nat) :
    (x.node i).log.prev ≤ (x.node i).snapIndex ∧ (x.node i).snapIndex ≤ (x.node i).commitIndex ∧
    (0 < (x.node i).snapIndex → ∃ f ∈ (x.node i).snapsDisk, f.index = (x.node i).snapIndex ∧
      f.term = (x.node i).snapTerm ∧ f.data = ups ((x.vlog i).take f.index)) ∧
    (∀ k, (x.node i).log.prev < k → k ≤ (x.node i).log.last →
      ∃ e, (x.node i).log.get? k = some e ∧ (x.vlog i)[k - 1]? = some e ∧ e.index = k) := by
  have hI := (inv3_reachable hV h).1
  have so : SnapOK (x.vnode i) := hI.sinv.snap i
  have hhead : (x.node i).snapIndex = (headOf (x.node i).snapsDisk).index := so.head
  refine ⟨(hI.prev i).le, ?_, fun hpos => ?_, fun k hk hkl => ?_⟩
  · show (x.vnode i).snapIndex ≤ (x.vnode i).commitIndex
    rw [so.head]; exact so.files.head_le
  · cases hsd : (x.node i).snapsDisk with
    | nil => rw [hsd] at hhead; exact absurd hhead (by show ¬ _ = 0; omega)
    | cons f t =>
      have hf : f ∈ (x.vnode i).snapsDisk := by
        show f ∈ (x.node i).snapsDisk; rw [hsd]; exact List.mem_cons_self ..
      refine ⟨f, List.mem_cons_self .., ?_, ?_, (so.files.files f hf).2.2⟩
      · rw [hhead, hsd]; rfl
      · rw [(hI.vterm i).head, hsd]; rfl
  · have hn : NWF (E σ0 (x.vnode i)) := nwf hI.sinv.cinv i
    have hlast : (x.vlog i).length = (x.node i).log.last := vlog_length x i
    have hk1 : k - 1 < (x.vlog i).length := by omega
    refine ⟨(x.vlog i)[k - 1], ?_, List.getElem?_eq_getElem hk1, ?_⟩
    · rw [get_virtual3 x i k hk, vget3 x i k (by omega)]
      exact List.getElem?_eq_getElem hk1
    · have := hn.contig (k - 1) hk1
      show (x.vlog i)[k - 1].index = k
      rw [show (x.vlog i)[k - 1].index = k - 1 + 1 from this]; omega

/-- **C09 — a lagging follower catches up by snapshot (partial, stage 3).** Let `x` be a reachable state of `Raft.Snap3`,
`m` an install request of the ledger that node `i` (`i ≠ 0`) handles to completion without failing an assertion, and
let the request INSTALL (`Installs`: its term is not stale, `lastIndex` is ahead of `i`'s commit index, `i`'s log does not
hold `(lastIndex, lastTerm)`); let the state `y` after the step satisfy the side conditions. Then in `y`:
1. the follower's log is empty and starts at the snapshot: `log = reset lastIndex`, last log index / term, snapshot
   index / term and commit index are the request's `lastIndex` / `lastTerm`; it is a follower;
2. its state machine is the snapshot: `fsm.index = lastIndex`, `fsm.applied = data`, and `data` is the replay of the
   prefix `m.pre` of the sender's virtual log, which is now `i`'s virtual log;
3. the newest file on its disk is the received one;
4. **it agrees with everybody**: every node `j` whose commit index covers `lastIndex` holds `m.pre` as the first
   `lastIndex` entries of its virtual log — so the follower's state machine is the replay of the committed sequence;
5. and `y` is reachable again: all theorems of this file hold for it. -/
theorem lagging_follower_catches_up_by_snapshot_partial (hV : V.Nodup) (x : Snap3.Sys) (h : Reachable3 V x)
    (i : Nat) (m : SnapMsg) (ra : List Nat) (ord : List (List Nat)) (hi : i ≠ 0) (hm : m ∈ x.sentSnaps)
    (hp : ((x.node i).step (.install m.q) ra ord).panicked = none) (hin : Installs (x.node i) m.q)
    (hS' : Side3 V (installS x i m ra ord)) :
    let y := installS x i m ra ord
    ((y.node i).log = NLog.reset m.q.lastIndex ∧ (y.node i).lastLogIndex = m.q.lastIndex ∧
      (y.node i).lastLogTerm = m.q.lastTerm ∧ (y.node i).snapIndex = m.q.lastIndex ∧
      (y.node i).snapTerm = m.q.lastTerm ∧ (y.node i).commitIndex = m.q.lastIndex ∧ (y.node i).role = .follower) ∧
    ((y.node i).fsm.index = m.q.lastIndex ∧ (y.node i).fsm.applied = m.q.data ∧ m.q.data = ups m.pre ∧
      y.vlog i = m.pre) ∧
    (y.node i).snapsDisk.head? = some (C09.fileOf m.q) ∧
    (∀ j, m.q.lastIndex ≤ (y.node j).commitIndex → (y.vlog j).take m.q.lastIndex = m.pre) ∧
    Reachable3 V y := by
  intro y
  have hI := (inv3_reachable hV h).1
  have hvw : C05.VoteWF (x.node i) := (hI.sinv.cinv.rp.el.ids i).2
  have wf := snapsWF_node hI i
  have so : SnapOK (x.vnode i) := hI.sinv.snap i
  have hmo := hI.msgs m hm
  have hinst := installed_of_step (x.node i) m.q ra ord hin wf so.retain hvw (hI.prev i).res wf.le_commit
  have hy : Reachable3 V y := .next x y h (.install i m ra ord hi (Or.inr hm) hp) hS'
  have hny : y.node i = (x.node i).step (.install m.q) ra ord := by
    show (installS x i m ra ord).node i = _
    unfold installS; rw [replS_node_i]
  have hvy : y.vlog i = m.pre := by
    show ((installS x i m ra ord).vnode i).log.entries = _
    unfold installS instBase
    rw [if_pos hin, replS_vnode_i]
    show (uncLog m.pre ((x.node i).step (.install m.q) ra ord).log).entries = _
    rw [hinst.log]; exact uncLog_reset_entries _ _ hmo.len
  have hh : ∀ g, (x.node i).snapsDisk.head? = some g → g.index ≤ m.q.lastIndex := by
    intro g hg
    have := wf.head g hg; have := wf.le_commit; have := hin.2.1
    omega
  refine ⟨⟨by rw [hny]; exact hinst.log, by rw [hny]; exact hinst.lastI, by rw [hny]; exact hinst.lastT,
    by rw [hny]; exact hinst.snapI, by rw [hny]; exact hinst.snapT, by rw [hny]; exact hinst.commit,
    by rw [hny]; exact hinst.role⟩, ⟨by rw [hny, hinst.fsm], by rw [hny, hinst.fsm], hmo.data, hvy⟩, ?_, ?_, hy⟩
  · rw [hny]; exact inst_head (x.node i) m.q so.retain hh hinst.files
  · intro j hj
    exact ((install_request_is_committed_prefix_partial hV y hy m hm).2.2.2.2.2.2 j hj).1

end

/-! ## cluster level, without the premise `TermTracked` (`Raft.Snap4`) -/

section
variable {V : List Nat}

/-- **Every run of `Raft.Snap4` is a run of `Raft.Snap3` on which every node is tracking and ordered (partial).**
`Raft.Snap4` (Sys/Snap4.lean) is `Raft.Snap3` WITHOUT the premise that a node taking a snapshot has `fsm.term` equal to
the term of the log entry at `fsm.index`; instead its states satisfy three more side conditions on configurations
(`Side4`) and its initial states the per-node invariants. In every reachable state `x`: `x` is reachable in `Raft.Snap3` —
so ALL theorems of this file hold for it — and every node `i` satisfies `C12Track.Tracks` (the state machine's cached term
and configuration are those of the applied prefix, the snapshot's term is that of the log entry at the snapshot index,
the newest label is self-consistent) and `Order.Ordered` (`log.prev ≤ snapIndex ≤ applied ≤ commitIndex ≤ lastLogIndex
= log.last`, …) — through completed steps, installations, and crashes at every storage point (those of the install
handler included) followed by restarts. -/
theorem tracked_runs_partial (hV : V.Nodup) (x : Snap3.Sys) (h : Reachable4 V x) :
    Reachable3 V x ∧ ∀ i, C12Track.Tracks (x.node i) ∧ Order.Ordered (x.node i) := by
  obtain ⟨r3, i4, _⟩ := reach4 hV h
  exact ⟨r3, fun i => ⟨i4.tracks i, i4.ord i⟩⟩

/-- **C09 — the snapshot agrees with the log, nothing assumed of snapshot takers (partial, stage 3).** In every state
reachable in `Raft.Snap4`, on every node `i`: the log entry at the snapshot index, if the log holds it
(`log.prev < snapIndex`), has term `snapTerm`; `fsm.term` is the term of the log entry at `fsm.index` (if held) — so
every snapshot the node WOULD take is labelled with the term of the entry it covers; and everything
`snapshot_agrees_with_log_partial` says (every file on disk, taken or installed, names an entry of the virtual log). -/
theorem snapshot_agrees_with_log_sys_snap4_partial (hV : V.Nodup) (x : Snap3.Sys) (h : Reachable4 V x) (i : Nat) :
    ((x.node i).log.prev < (x.node i).snapIndex →
      ((x.node i).log.get? (x.node i).snapIndex).map (·.term) = some (x.node i).snapTerm) ∧
    ((x.node i).log.prev < (x.node i).fsm.index → (x.node i).entryTerm? (x.node i).fsm.index = some (x.node i).fsm.term) ∧
    ((x.node i).snapTerm = (headOf (x.node i).snapsDisk).term ∧
      ∀ f ∈ (x.node i).snapsDisk, termAt (x.vlog i) f.index = f.term) := by
  obtain ⟨r3, i4, _⟩ := reach4 hV h
  have := snapshot_agrees_with_log_partial hV x r3 i
  exact ⟨(i4.tracks i).snapOk.termLog, C12Track.tracks_term _ (i4.tracks i), this.2.1.1, this.2.1.2.1⟩

end

/-! ### Examples (non-vacuity)

#### node level — the F18 scenario of Props/C09Sys2.lean (`exI0`: a follower with the uncommitted entries 2–4 of term 2;
`exIq`: the snapshot (index 3, term 3, data [a, b]) of the leader of term 3) -/

/-- EXAMPLE (`install_crash_disks`, `install_window_log_is_stale`, `install_crash_restarts_installed`): the request
installs; the hypotheses on the node hold; after the third storage point (`snap.retain`) the log on disk is stale; the
restart succeeds -/
example : Installs C09Sys2.exI0 C09Sys2.exIq ∧ C09Sys2.exI0.log.prev ≤ C09Sys2.exI0.commitIndex ∧
    1 ≤ C09Sys2.exI0.retain ∧ (∀ g, C09Sys2.exI0.snapsDisk.head? = some g → g.index ≤ C09Sys2.exIq.lastIndex) ∧
    staleLog (C05.crashDisk C09Sys2.exI0 (.install C09Sys2.exIq) [] [] 3) = true ∧
    (C05.crashDisk C09Sys2.exI0 (.install C09Sys2.exIq) [] [] 3).log = C09Sys2.exI0.durable.log ∧
    (Node.restart (C05.crashDisk C09Sys2.exI0 (.install C09Sys2.exIq) [] [] 3) 1 true).isSome = true := by
  refine ⟨by decide, by decide, by decide, fun g hg => ?_, by decide, by decide, by decide⟩
  have : C09Sys2.exI0.snapsDisk.head? = none := rfl
  rw [this] at hg; cases hg

/-- EXAMPLE (`install_crash_keeps_node_invariants`): the node of the F18 scenario is tracking and ordered, its log is
well formed, its label (none) is covered, the request's label is covered by its snapshot -/
example : C12Track.Tracks C09Sys2.exI0 ∧ Order.Ordered C09Sys2.exI0 ∧ C06.LogWF C09Sys2.exI0.log ∧
    (Track.label C09Sys2.exI0).index ≤ C09Sys2.exI0.snapIndex ∧ Order.InstallOk C09Sys2.exIq := by
  refine ⟨by decide, ⟨⟨by decide, by decide, by decide, by decide, by decide, by decide,
    ⟨by decide, rfl, by decide⟩, by decide, fun rs hrs => ?_⟩, by decide⟩, ⟨by decide, by decide⟩, by decide, by decide⟩
  have : C09Sys2.exI0.snapResult = none := rfl
  rw [this] at hrs; cases hrs

/-! #### cluster level, PROVED: three voters bootstrapped with the configuration entry (1,1); node 2 is asked for a
snapshot, the snapshot goroutine runs, the result is handed over (`C09Sys2.exZ3`), then node 2 handles a STALE install
request (term 0 < its term 1: such a request need not be of the ledger): the resulting state is reachable in
`Raft.Snap3`, so the hypotheses of the theorems of this file are satisfiable with the new transitions in use. (A leader
cannot be elected inside a kernel-checked example: the mutually recursive leader block does not reduce there; the
installing transitions are EVALUATED below.) -/

def exW0 : Snap3.Sys := ⟨C09Sys2.exY0, []⟩
def exW1 : Snap3.Sys := { exW0 with s2 := stepS exW0.s2 2 (.takeSnapshot 7 0) [] [] 0 }
def exW2 : Snap3.Sys := { exW1 with s2 := stepS exW1.s2 2 .snapRun [] [] 0 }
def exW3 : Snap3.Sys := { exW2 with s2 := stepS exW2.s2 2 .snapTaken [] [] 0 }
/-- a stale install request: term 0 -/
def exMs : SnapMsg := ⟨{ term := 0, src := 1, lastIndex := 5, lastTerm := 0 }, []⟩
def exW4 : Snap3.Sys := installS exW3 2 exMs [] []

theorem exSide3 (x : Snap3.Sys) (n : Node) (hn : n.configs = (C04Sys.exNode 2).configs)
    (hl : n.log = (C04Sys.exNode 2).log) (hx : x.s2.cs.rp.el.node = setNode C04Sys.exNode 2 n) : Side3 [1, 2, 3] x := by
  have := C09Sys2.exSide2 x.s2 n hn hl hx
  exact ⟨this.sideV, this.dec, this.segs⟩

set_option maxRecDepth 100000 in
/-- example: `exW4` is reachable in `Raft.Snap3` -/
example : [1, 2, 3].Nodup ∧ Reachable3 [1, 2, 3] exW4 ∧ (exW4.node 2).panicked = none ∧
    (exW4.node 2).rpcReply.map (·.result) = some rStaleTerm := by
  have en : ∀ (x : Commit.Sys) (op : Op), OpOKS op → (∀ q, op ≠ .vote q) → (∀ q, op ≠ .append q) →
      (∀ b, op ≠ .newEntries b) → (∀ t c, op ≠ .changeConfig t c) → (∀ a b c, op ≠ .voteResult a b c) →
      (∀ us, op ≠ .replUpdates us) → Snap.Enabled x 2 op 0 := C09Sys.exEnabled
  have i0 : Snap3.Init exW0 := ⟨C09Sys2.exY0_init, fun _ => rfl, rfl⟩
  have s0 : Side3 [1, 2, 3] exW0 := exSide3 _ (C04Sys.exNode 2) rfl rfl (by
    show C04Sys.exNode = _
    funext j; unfold setNode; split
    · rename_i h; rw [h]
    · rfl)
  have t1 : Snap3.Trans exW0 exW1 :=
    .step 2 (.takeSnapshot 7 0) [] [] 0
      (en _ _ trivial (fun _ h => by cases h) (fun _ h => by cases h) (fun _ h => by cases h)
        (fun _ _ h => by cases h) (fun _ _ _ h => by cases h) (fun _ h => by cases h)) (by decide) trivial
  have s1 : Side3 [1, 2, 3] exW1 :=
    exSide3 _ ((C04Sys.exNode 2).step (.takeSnapshot 7 0) [] []) (by decide) (by decide) rfl
  have t2 : Snap3.Trans exW1 exW2 :=
    .step 2 .snapRun [] [] 0
      (en _ _ trivial (fun _ h => by cases h) (fun _ h => by cases h) (fun _ h => by cases h)
        (fun _ _ h => by cases h) (fun _ _ _ h => by cases h) (fun _ h => by cases h)) (by decide)
      (by show (exW1.node 2).log.prev < (exW1.node 2).fsm.index → _; intro h; exact absurd h (by decide))
  have s2 : Side3 [1, 2, 3] exW2 :=
    exSide3 _ (((C04Sys.exNode 2).step (.takeSnapshot 7 0) [] []).step .snapRun [] []) (by decide) (by decide)
      (by
        show setNode (setNode C04Sys.exNode 2 _) 2 _ = _
        funext j
        unfold setNode
        split <;> rfl)
  have t3 : Snap3.Trans exW2 exW3 :=
    .step 2 .snapTaken [] [] 0
      (en _ _ trivial (fun _ h => by cases h) (fun _ h => by cases h) (fun _ h => by cases h)
        (fun _ _ h => by cases h) (fun _ _ _ h => by cases h) (fun _ h => by cases h)) (by decide) trivial
  have s3 : Side3 [1, 2, 3] exW3 :=
    exSide3 _ ((((C04Sys.exNode 2).step (.takeSnapshot 7 0) [] []).step .snapRun [] []).step .snapTaken [] [])
      (by decide) (by decide) (by
        show setNode (setNode (setNode C04Sys.exNode 2 _) 2 _) 2 _ = _
        funext j
        unfold setNode
        split <;> rfl)
  have t4 : Snap3.Trans exW3 exW4 := .install 2 exMs [] [] (by decide) (Or.inl (by decide)) (by decide)
  have s4 : Side3 [1, 2, 3] exW4 :=
    exSide3 _ (((((C04Sys.exNode 2).step (.takeSnapshot 7 0) [] []).step .snapRun [] []).step .snapTaken [] []).step
        (.install exMs.q) [] [])
      (by decide) (by decide) (by
        show setNode (setNode (setNode (setNode C04Sys.exNode 2 _) 2 _) 2 _) 2 _ = _
        funext j
        unfold setNode
        split <;> rfl)
  exact ⟨by decide, .next _ _ (.next _ _ (.next _ _ (.next _ _ (.init _ i0 s0) t1 s1) t2 s2) t3 s3) t4 s4,
    by decide, by decide⟩

theorem exSide4 (x : Snap3.Sys) (n : Node) (hn : n.configs = (C04Sys.exNode 2).configs)
    (hl : n.log = (C04Sys.exNode 2).log) (hx : x.s2.cs.rp.el.node = setNode C04Sys.exNode 2 n)
    (hli : 1 ≤ n.lastLogIndex) (hsd : n.snapsDisk = []) (hT : ∀ c ∈ x.s2.cs.T, c = ⟨C04Sys.exE, 0, 0⟩) :
    Side4 [1, 2, 3] x := by
  have hnode : ∀ i, x.node i = setNode C04Sys.exNode 2 n i := fun i => by
    show x.s2.cs.rp.el.node i = _; rw [hx]
  refine ⟨exSide3 x n hn hl hx, fun i => ?_, fun i => Or.inr (fun c hc d hd _ _ => ?_), fun i => ?_⟩
  · rw [hnode i]; unfold setNode
    split
    · rw [hn]; exact ⟨by decide, hli⟩
    · exact ⟨Nat.le_refl _, Nat.le_refl _⟩
  · rw [hT c hc, hT d hd]
  · rw [hnode i]; unfold setNode
    split
    · unfold Track.label; rw [hsd]; exact Nat.zero_le _
    · exact Nat.zero_le _

set_option maxRecDepth 100000 in
/-- example: `exW4` is reachable in `Raft.Snap4` too — the hypotheses of `tracked_runs_partial` and
`snapshot_agrees_with_log_sys_snap4_partial` are satisfiable -/
example : Reachable4 [1, 2, 3] exW4 := by
  have en : ∀ (x : Commit.Sys) (op : Op), OpOKS op → (∀ q, op ≠ .vote q) → (∀ q, op ≠ .append q) →
      (∀ b, op ≠ .newEntries b) → (∀ t c, op ≠ .changeConfig t c) → (∀ a b c, op ≠ .voteResult a b c) →
      (∀ us, op ≠ .replUpdates us) → Snap.Enabled x 2 op 0 := C09Sys.exEnabled
  have i0 : Snap4.Init4 exW0 :=
    ⟨⟨C09Sys2.exY0_init, fun _ => rfl, rfl⟩, C19Sys.ex0_tracks, fun i => (C19Sys.exNode_good i).ordered⟩
  have s0 : Side4 [1, 2, 3] exW0 := exSide4 _ (C04Sys.exNode 2) rfl rfl (by
    show C04Sys.exNode = _
    funext j; unfold setNode; split
    · rename_i h; rw [h]
    · rfl) (by decide) rfl (by decide)
  have t1 : Snap4.Trans exW0 exW1 :=
    .step 2 (.takeSnapshot 7 0) [] [] 0
      (en _ _ trivial (fun _ h => by cases h) (fun _ h => by cases h) (fun _ h => by cases h)
        (fun _ _ h => by cases h) (fun _ _ _ h => by cases h) (fun _ h => by cases h)) (by decide)
  have s1 : Side4 [1, 2, 3] exW1 :=
    exSide4 _ ((C04Sys.exNode 2).step (.takeSnapshot 7 0) [] []) (by decide) (by decide) rfl (by decide) (by decide)
      (by decide)
  have t2 : Snap4.Trans exW1 exW2 :=
    .step 2 .snapRun [] [] 0
      (en _ _ trivial (fun _ h => by cases h) (fun _ h => by cases h) (fun _ h => by cases h)
        (fun _ _ h => by cases h) (fun _ _ _ h => by cases h) (fun _ h => by cases h)) (by decide)
  have s2 : Side4 [1, 2, 3] exW2 :=
    exSide4 _ (((C04Sys.exNode 2).step (.takeSnapshot 7 0) [] []).step .snapRun [] []) (by decide) (by decide)
      (by
        show setNode (setNode C04Sys.exNode 2 _) 2 _ = _
        funext j
        unfold setNode
        split <;> rfl) (by decide) (by decide) (by decide)
  have t3 : Snap4.Trans exW2 exW3 :=
    .step 2 .snapTaken [] [] 0
      (en _ _ trivial (fun _ h => by cases h) (fun _ h => by cases h) (fun _ h => by cases h)
        (fun _ _ h => by cases h) (fun _ _ _ h => by cases h) (fun _ h => by cases h)) (by decide)
  have s3 : Side4 [1, 2, 3] exW3 :=
    exSide4 _ ((((C04Sys.exNode 2).step (.takeSnapshot 7 0) [] []).step .snapRun [] []).step .snapTaken [] [])
      (by decide) (by decide) (by
        show setNode (setNode (setNode C04Sys.exNode 2 _) 2 _) 2 _ = _
        funext j
        unfold setNode
        split <;> rfl) (by decide) (by decide) (by decide)
  have t4 : Snap4.Trans exW3 exW4 := .install 2 exMs [] [] (by decide) (Or.inl (by decide)) (by decide)
  have s4 : Side4 [1, 2, 3] exW4 :=
    exSide4 _ (((((C04Sys.exNode 2).step (.takeSnapshot 7 0) [] []).step .snapRun [] []).step .snapTaken [] []).step
        (.install exMs.q) [] [])
      (by decide) (by decide) (by
        show setNode (setNode (setNode (setNode C04Sys.exNode 2 _) 2 _) 2 _) 2 _ = _
        funext j
        unfold setNode
        split <;> rfl) (by decide) (by decide) (by decide)
  exact .next _ _ (.next _ _ (.next _ _ (.next _ _ (.init _ i0 s0) t1 s1) t2 s2) t3 s3) t4 s4

/-! #### cluster level, EVALUATED (tests, not proofs): a lagging follower catches up by snapshot.  From
`C09Sys2.exY5` (node 1 leads term 2, entry 2 — its first — is on node 2, NOT on node 3): the leader commits index 2 with
node 2's acknowledgement, appends the client update "a" (index 3), replicates it to node 2, commits it, takes a snapshot
at index 3 (data [a]) and compacts.  It sends the snapshot (`sendSnap`: ledger entry `exM`, ghost prefix = its virtual
log up to 3).  Node 3 — log [(1,1)], term 1, commit index 0 — installs it (`installS`), then accepts the leader's next
entry (4, "b") directly behind the snapshot.  Alternatively node 3 dies after `snap.retain` (`crashInstS`): the restart
resets the stale log — same state. -/

def exX5 : Snap3.Sys := ⟨C09Sys2.exY5, []⟩
def exX7 : Snap3.Sys := { exX5 with s2 := stepS exX5.s2 1 (.replUpdates [{ id := 2, upd := .matchIndex 2 }]) [] [] 0 }
def exX8 : Snap3.Sys :=
  { exX7 with s2 := stepS exX7.s2 1 (.newEntries [{ typ := etUpdate, data := "a", task := 7 }]) [] [] 0 }
def exXReq : AppendReq :=
  { term := 2, src := 1, prevLogIndex := 2, prevLogTerm := 2, entries := (exX8.vlog 1).drop 2, ldrCommitIndex := 2 }
def exX9 : Snap3.Sys := { exX8 with s2 := { exX8.s2 with cs := sendC exX8.s2.cs exXReq } }
def exX10 : Snap3.Sys := { exX9 with s2 := stepS exX9.s2 2 (.append exXReq) [] [] 0 }
def exX11 : Snap3.Sys := { exX10 with s2 := stepS exX10.s2 1 (.replUpdates [{ id := 2, upd := .matchIndex 3 }]) [] [] 0 }
def exX12 : Snap3.Sys := { exX11 with s2 := stepS exX11.s2 1 (.takeSnapshot 9 0) [] [] 0 }
def exX13 : Snap3.Sys := { exX12 with s2 := stepS exX12.s2 1 .snapRun [] [] 0 }
def exX14 : Snap3.Sys := { exX13 with s2 := stepS exX13.s2 1 .snapTaken [] [] 0 }
/-- what the leader sends: its newest snapshot file, stamped with its term -/
def exQ : InstallReq :=
  let f := (exX14.node 1).snapsDisk.head?.getD {}
  { term := (exX14.node 1).term, src := 1, lastIndex := f.index, lastTerm := f.term, lastConfig := f.config, data := f.data }
def exM : SnapMsg := ⟨exQ, (exX14.vlog 1).take exQ.lastIndex⟩
def exX15 : Snap3.Sys := { exX14 with sentSnaps := exM :: exX14.sentSnaps }
/-- node 3 installs the snapshot -/
def exX16 : Snap3.Sys := installS exX15 3 exM [] []
/-- … and then accepts the leader's next entry directly behind it -/
def exX17 : Snap3.Sys :=
  { exX16 with s2 := stepS exX16.s2 1 (.newEntries [{ typ := etUpdate, data := "b", task := 8 }]) [] [] 0 }
def exXReq2 : AppendReq :=
  { term := 2, src := 1, prevLogIndex := 3, prevLogTerm := 2, entries := (exX17.vlog 1).drop 3, ldrCommitIndex := 3 }
def exX18 : Snap3.Sys := { exX17 with s2 := { exX17.s2 with cs := sendC exX17.s2.cs exXReq2 } }
def exX19 : Snap3.Sys := { exX18 with s2 := stepS exX18.s2 3 (.append exXReq2) [] [] 0 }
/-- alternatively: node 3 dies after the third storage point of the installation (`snap.retain`) and restarts -/
def exXd : Durable := C05.crashDisk (exX15.node 3) (.install exQ) [] [] 3
def exXn : Option Node := Node.restart exXd 1 true
def exX16c : Option Snap3.Sys := exXn.map (fun n => crashInstS exX15 3 exM exXd n)

-- the leader: commit index 3, snapshot (3, term 2, [a]); the request is what `SnapRead` asks for
#guard (exX14.node 1).role == .leader && (exX14.node 1).commitIndex == 3 &&
  (exX14.node 1).snapsDisk.map (fun f => (f.index, f.term, f.data)) == [(3, 2, ["a"])] &&
  (exX14.node 1).snapsDisk.head? == some (C09.fileOf exQ) && exQ.term == (exX14.node 1).term
-- the follower before: one entry, nothing committed; the request installs
#guard (exX15.node 3).log.entries.map (fun e => (e.index, e.term)) == [(1, 1)] && (exX15.node 3).commitIndex == 0 &&
  (exX15.node 3).term == 1 && decide (Installs (exX15.node 3) exQ)
-- after the installation: the log is empty at the snapshot, everything is the snapshot's, the virtual log of node 3 is
-- the prefix the request stands for = the leader's virtual log up to index 3; nobody failed an assertion
#guard (exX16.node 3).log.prev == 3 && (exX16.node 3).log.entries.isEmpty && (exX16.node 3).snapIndex == 3 &&
  (exX16.node 3).snapTerm == 2 && (exX16.node 3).commitIndex == 3 && (exX16.node 3).lastLogIndex == 3 &&
  (exX16.node 3).lastLogTerm == 2 && (exX16.node 3).fsm.applied == ["a"] && (exX16.node 3).term == 2 &&
  (exX16.node 3).role == .follower && (exX16.node 3).panicked.isNone &&
  exX16.vlog 3 == (exX16.vlog 1).take 3 && exX16.vlog 3 == exM.pre &&
  (exX16.node 3).fsm.applied == (exX16.node 1).fsm.applied
#guard ((exX15.node 3).step (.install exQ) [] []).trace.map (·.1) == ["value.set", "snap.publish", "snap.retain", "clearLog"]
-- the next entry is appended directly behind the snapshot and applied
#guard (exX19.node 3).log.prev == 3 && (exX19.node 3).log.entries.map (fun e => (e.index, e.term, e.data)) == [(4, 2, "b")] &&
  (exX19.node 3).rpcReply.map (·.result) == some rSuccess && (exX19.node 3).panicked.isNone &&
  exX19.vlog 3 == exX19.vlog 1
-- the crash in the F18 window: the new file is on disk with the OLD log; the log is stale; the restart gives the
-- installed state, and `base` is the prefix again
#guard exXd.log == (exX15.node 3).durable.log && exXd.snaps.head? == some (C09.fileOf exQ) && staleLog exXd
#guard (exXn.map (fun n => (n.log.prev, n.log.entries.length, n.snapIndex, n.snapTerm, n.commitIndex, n.fsm.applied,
    n.lastLogIndex, n.lastLogTerm, n.term, n.panicked.isNone))) == some (3, 0, 3, 2, 3, ["a"], 3, 2, 2, true)
#guard (exX16c.map (fun y => (y.vlog 3 == exM.pre, y.vlog 3 == (y.vlog 1).take 3))) == some (true, true)

end C09Sys3
end Raft

#print axioms Raft.C09Sys3.install_crash_disks
#print axioms Raft.C09Sys3.install_window_log_is_stale
#print axioms Raft.C09Sys3.install_crash_restarts_installed
#print axioms Raft.C09Sys3.install_crash_keeps_node_invariants
#print axioms Raft.C09Sys3.snapshot_agrees_with_log_partial -- the invariant "log at the snapshot index agrees"
#print axioms Raft.C09Sys3.log_matching_sys_snap3_partial -- also C04
#print axioms Raft.C09Sys3.leader_completeness_sys_snap3_partial -- also C02
#print axioms Raft.C09Sys3.state_machine_safety_sys_snap3_partial -- also C03
#print axioms Raft.C09Sys3.snapshot_is_committed_prefix_partial -- also C12
#print axioms Raft.C09Sys3.install_request_is_committed_prefix_partial
#print axioms Raft.C09Sys3.compaction_keeps_servable_partial
#print axioms Raft.C09Sys3.lagging_follower_catches_up_by_snapshot_partial
#print axioms Raft.C09Sys3.tracked_runs_partial
#print axioms Raft.C09Sys3.snapshot_agrees_with_log_sys_snap4_partial
