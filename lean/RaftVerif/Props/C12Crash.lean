/-
C12 (crash points) — **the snapshot label / configuration tracking invariant at EVERY crash point inside a step.**

`Props/C12Track.lean` proves `Tracks` for completed steps and for a restart from the disk BETWEEN two steps;
`Lemmas/SnapInstCrash.lean` for the crash points of the install handler. Here: for EVERY operation, oracle, input and
EVERY storage point `k` of the step (`C05.crashDisk s op ra ord k`: after `value.set`, after `appendEntry` … before
`commitLog`, after `removeGTE` before the replacement entries are appended, after `snap.publish` before `snap.retain` /
`compactLog`, …) the disk content satisfies `TrackCrash.Pd`:
* `C12Track.DiskTracks` — the newest snapshot's label is the newest configuration at or below its index in the log
  `openStorage` works with, its term is that of the log entry at its index (if held), the log is index-contiguous;
* `C19Order.DiskOK`    — the log starts at or below the snapshot, segment list well formed, entries stored under their
  index, the label is a configuration the snapshot covers;
* every configuration entry of the log on disk decodes.
Hence (`tracks_after_crash_at_any_point_partial`) the restart SUCCEEDS, the restarted node is `Tracks` and `Ordered`,
its `configs.latest` / `configs.committed` are the newest / second newest configuration entry above the snapshot index of
the log on disk at that point, each falling back to the snapshot's label — in particular after a truncation that removed
the latest configuration entry and when only a prefix of the step's appends reached the disk — and it satisfies the
hypotheses of the theorem again (`CrashInv`).

How: the step invariant `Track.TI` of `Lemmas/ConfigTrack.lean` is carried together with `TR` ("every crash point
recorded so far in `trace` satisfies `Pd`", `Lemmas/TrackCrashA.lean`, `TrackCrashB.lean`): at a crash point the state in
memory satisfies `Track.Core` / `Order.CoreW` / `Mem`, and the disk is a prefix of its log plus its snapshot files.

`_partial`: the statement assumes that the step, run to completion, does not panic (as `C12Track.tracks_step`,
`C19Order.ordered_step`; guaranteed by `C15NoPanic.good_step_two` for good states and acceptable operations:
`tracks_after_crash_good_partial`), that the configuration entries of an append request decode (`ReqDec`; else the
follower stores an entry `openStorage` cannot decode: `undecodable_entry_blocks_restart`), and `SnapFbOp` (operations
`snapRun` / `shutdown` only): when the snapshot goroutine stores a snapshot while the FSM holds NO configuration, the
configuration captured at request time has an index the snapshot covers (`snapFb_needed`; implied by
`C19Latest`'s `NoFallback`; not reachable in a cluster: entry 1 of every log is a configuration).
Also here: `crashInv_step` (the hypotheses `CrashInv` are inductive, for every operation), `restart_config_from_label_partial`,
`restart_latest_eq_live_of_flushed` (live and restarted node agree on `latest` when the log is completely flushed).
-/
import RaftVerif.Lemmas.TrackCrashB
import RaftVerif.Lemmas.SysMore
import RaftVerif.Props.C19Latest

namespace Raft
namespace C12Crash
open Node Track TrackCrash

/-! ### what is assumed of the node between two steps -/

/-- **the per-node invariant that survives a crash at any point**: the tracking invariant (`C12Track.Tracks`), the
orderings (`Order.Ordered`), `TrackCrash.Mem` (log well formed w.r.t. flushing, the newest snapshot's label has an index
the snapshot covers, every configuration entry of the log decodes), cluster and node id set. -/
structure CrashInv (s : Node) : Prop where
  tracks : C12Track.Tracks s
  ordered : Order.Ordered s
  mem : Mem s
  cid : s.cid ≠ 0
  nid : s.nid ≠ 0

instance (l : NLog) : Decidable (C06.LogWF l) := by unfold C06.LogWF; infer_instance

instance (s : Node) : Decidable (Mem s) :=
  decidable_of_iff (C06.LogWF s.log ∧ (label s).index ≤ s.snapIndex ∧ NoPanic.LogDec s.log.entries)
    ⟨fun ⟨a, b, c⟩ => ⟨a, b, c⟩, fun h => ⟨h.lwf, h.lab, h.dec⟩⟩

/-! ### from a good disk to a good node -/

theorem noDecodeErr_of_logDec (d : Durable) (h : NoPanic.LogDec d.log.entries) :
    C10.NoDecodeErr (C10.window (C10.logOf d) (C10.snapOf d).index (C10.logOf d).last) := by
  intro e he ht
  have hm := C15NoPanic.logOf_entries d e (C15NoPanic.window_sub _ _ _ e he)
  have := h e hm ht
  unfold Entry.config?
  rw [if_pos ht]
  cases hc : e.cfg with
  | none => rw [hc] at this; cases this
  | some c => rfl

/-- **a restart from a disk satisfying `Pd`**: it succeeds; the node tracks, is ordered; its configurations are the
newest two configuration entries above the snapshot in the log on disk, else the label; `Mem` and the ids hold again. -/
theorem pd_restart (d : Durable) (r : Nat) (sor : Bool) (hd : Pd d) (hc : d.cid ≠ 0) (hn : d.nid ≠ 0) (hr : 1 ≤ r) :
    ∃ n, Node.restart d r sor = some n ∧ C12Track.Tracks n ∧ Order.Ordered n ∧
      n.configs.latest = ((C10.configsAbove d)[0]?).getD (C10.snapOf d).config ∧
      n.configs.committed = ((C10.configsAbove d)[1]?).getD (C10.snapOf d).config ∧
      C19Latest.LatestIsNewest n ∧ Mem n ∧ n.cid = d.cid ∧ n.nid = d.nid := by
  have hok := noDecodeErr_of_logDec d hd.dec
  obtain ⟨hf, c1, c2⟩ := C10.restart_configs d r sor hd.ok.durWF hok
  obtain ⟨n, hn', _, _⟩ := C10.restart_ok_contiguous d r sor hc hn hf
  obtain ⟨_, _, hsnap, hlog, _, hcfg, hdisk⟩ := C10.restart_fsm d r sor n hn'
  obtain ⟨_, _, e3, _⟩ := C10.restartNode_fields d r sor
  have ht := C12Track.restart_tracks d r sor n hr hd.tracks hn'
  have ho := C19Order.restart_ordered d r sor n hd.ok hn'
  refine ⟨n, hn', ht, ho, by rw [hcfg, c1], by rw [hcfg, c2],
    C19Latest.restart_latest_is_newest d r sor n hd.ok hd.tracks hok hn', ⟨⟨?_, ?_⟩, ?_, ?_⟩,
    SysMore.restart_cid d r sor n hn', (Election.restart_role_nid d r sor n hn').2⟩
  · have := ho.segs.le_last _ (SysInv.lastSegPrev_mem _ ho.segs)
    have hfl : n.log.flushed = n.log.last := by rw [hlog, e3]; rfl
    rw [hfl]; exact this
  · have hfl : n.log.flushed = n.log.last := by rw [hlog, e3]; rfl
    rw [hfl]; exact Nat.le_refl _
  · have hL : label n = (C10.snapOf d).config := by unfold label; rw [hdisk]; rfl
    rw [hL, hsnap]; exact hd.ok.label
  · rw [hlog, e3]
    exact fun e he => hd.dec e (C15NoPanic.logOf_entries d e he)

/-! ### every crash point of every step -/

/-- **`Pd` at every crash point of a step that is not an install request** -/
theorem crashDisk_pd_other (s : Node) (op : Op) (ra : List Nat) (ord : List (List Nat)) (k : Nat)
    (hi : CrashInv s) (hr : Order.ReqOk s op) (hd : ReqDec s op) (hfb : SnapFbOp s op) (hni : ∀ q, op ≠ .install q)
    (hp : (s.step op ra ord).panicked = none) : Pd (C05.crashDisk s op ra ord k) := by
  have hJ := tj_stepAll op ra ord hi.ordered hi.tracks.toCore hi.tracks.queue hi.mem hr hd hfb hni
  obtain ⟨m, htr⟩ := hJ.2 hp
  rcases C04Sys.crashDisk_cases s op ra ord k with e | ⟨p, hpm, e⟩ | e
  · rw [e]; exact pd_durable hi.tracks.toCore hi.ordered.toCoreW hi.mem
  · rw [e]; exact htr p hpm
  · rw [e]; exact pd_durable (hJ.core hp) (hJ.coreW hp) m

/-- **… and of an install request** (`Lemmas/SnapInstCrash.lean`) -/
theorem crashDisk_pd_install (s : Node) (q : InstallReq) (ra : List Nat) (ord : List (List Nat)) (k : Nat)
    (hi : CrashInv s) (hr : Order.ReqOk s (.install q)) : Pd (C05.crashDisk s (.install q) ra ord k) := by
  have hq : SnapInst.Installs s q → Order.InstallOk q := by
    intro hI
    rcases hr with h | h | h
    · exact absurd h hI.1
    · have := hI.2.1; omega
    · exact h
  refine ⟨SnapInst.install_disk_tracks s q ra ord k hi.tracks hi.ordered,
    SnapInst.install_disk_ok s q ra ord k hi.tracks hi.ordered hi.mem.lwf hi.mem.lab hq, ?_⟩
  have hdk := SnapInst.install_crashDisk s q ra ord k
  have hdur : NoPanic.LogDec s.durable.log.entries := logDec_take hi.mem.dec _
  rcases hdk.data with ⟨e1, _⟩ | ⟨_, e1 | e1, _, _⟩
  · rw [e1]; exact hdur
  · rw [e1]; exact hdur
  · rw [e1]; intro e he; cases he

/-- **`Pd` at every crash point of every step.** -/
theorem crashDisk_pd (s : Node) (op : Op) (ra : List Nat) (ord : List (List Nat)) (k : Nat)
    (hi : CrashInv s) (hr : Order.ReqOk s op) (hd : ReqDec s op) (hfb : SnapFbOp s op)
    (hp : (s.step op ra ord).panicked = none) : Pd (C05.crashDisk s op ra ord k) := by
  by_cases hni : ∀ q, op ≠ .install q
  · exact crashDisk_pd_other s op ra ord k hi hr hd hfb hni hp
  · have : ∃ q, op = .install q := by
      cases op <;> first | exact ⟨_, rfl⟩ | exact absurd (fun q h => Op.noConfusion h) hni
    obtain ⟨q, rfl⟩ := this
    exact crashDisk_pd_install s q ra ord k hi hr

/-- **C12 at every crash point (partial: see the file header).** Let `s` satisfy `CrashInv` (tracking, ordered, `Mem`,
ids set), `op` be ANY operation acceptable in the sense of `Order.ReqOk` whose configuration entries decode (`ReqDec`),
with `SnapFbOp s op`, handled with ANY oracle `ra`, `ord` without a Go panic. Let the process die after ANY number `k` of
storage points of that step (`k = 0`: before the first; beyond the last: after everything, before replying) and be
restarted on what is then on disk, `d = C05.crashDisk s op ra ord k`, with `retain = r ≥ 1`. Then
* the restart succeeds: `Node.restart d r sor = some n`;
* `n` satisfies the tracking invariant `C12Track.Tracks` (its FSM, restored from the newest snapshot, holds the label;
  the label is the newest configuration at or below the snapshot index; the snapshot's term is the term of the log entry
  at its index) and is `Order.Ordered`;
* `n.configs.latest` is the newest configuration entry above the snapshot index in the log ON DISK AT THAT POINT
  (`C10.configsAbove d`, newest first), `n.configs.committed` the second newest — each the newest snapshot's label when
  there is no such entry. So after a truncation that removed the latest configuration entry the restarted node falls
  back to the previous one (as `revertConfig` does on the live node), and when only a prefix of the step's appends was
  flushed it uses the configurations of that prefix;
* `n` satisfies `CrashInv` again. -/
theorem tracks_after_crash_at_any_point_partial (s : Node) (op : Op) (ra : List Nat) (ord : List (List Nat)) (k : Nat)
    (r : Nat) (sor : Bool) (hi : CrashInv s) (hr : Order.ReqOk s op) (hd : ReqDec s op) (hfb : SnapFbOp s op)
    (hp : (s.step op ra ord).panicked = none) (hret : 1 ≤ r) :
    ∃ n, Node.restart (C05.crashDisk s op ra ord k) r sor = some n ∧
      C12Track.Tracks n ∧ Order.Ordered n ∧
      n.configs.latest = ((C10.configsAbove (C05.crashDisk s op ra ord k))[0]?).getD
        (C10.snapOf (C05.crashDisk s op ra ord k)).config ∧
      n.configs.committed = ((C10.configsAbove (C05.crashDisk s op ra ord k))[1]?).getD
        (C10.snapOf (C05.crashDisk s op ra ord k)).config ∧
      C19Latest.LatestIsNewest n ∧ CrashInv n := by
  have hpd := crashDisk_pd s op ra ord k hi hr hd hfb hp
  have hc : (C05.crashDisk s op ra ord k).cid ≠ 0 := by rw [SysMore.crashDisk_cid]; exact hi.cid
  have hn : (C05.crashDisk s op ra ord k).nid ≠ 0 := by rw [Election.crashDisk_nid]; exact hi.nid
  obtain ⟨n, h1, h2, h3, h4, h5, hL, h6, h7, h8⟩ := pd_restart _ r sor hpd hc hn hret
  exact ⟨n, h1, h2, h3, h4, h5, hL, ⟨h2, h3, h6, by rw [h7]; exact hc, by rw [h8]; exact hn⟩⟩

theorem step_nid (s : Node) (op : Op) (ra : List Nat) (ord : List (List Nat)) : (s.step op ra ord).nid = s.nid := by
  have := Election.crashDisk_nid s op ra ord ((s.step op ra ord).trace.length + 1)
  simp only [C05.crashDisk, List.getElem?_eq_none (Nat.le_refl _)] at this
  exact this

/-- `Mem` after a completed install request -/
theorem mem_install (s : Node) (q : InstallReq) (ra : List Nat) (ord : List (List Nat)) (hi : CrashInv s)
    (hr : Order.ReqOk s (.install q)) : Mem (s.step (.install q) ra ord) := by
  have hio := SnapInst.install_step_iobs s q ra ord
  have h1 : (s.step (.install q) ra ord).log = ((s.begin ra ord).onInstallSnap q).log :=
    congrArg (fun p => p.1.1) hio
  have h2 : (s.step (.install q) ra ord).snapIndex = ((s.begin ra ord).onInstallSnap q).snapIndex :=
    congrArg (fun p => p.1.2.2.2.1) hio
  have h3 : (s.step (.install q) ra ord).snapsDisk = ((s.begin ra ord).onInstallSnap q).snapsDisk :=
    congrArg (fun p => p.1.2.2.2.2.2) hio
  refine Mem.congr ?_ h1 h3 h2
  have hb : Mem (s.begin ra ord) := hi.mem.congr rfl rfl rfl
  by_cases hI : SnapInst.Installs (s.begin ra ord) q
  · obtain ⟨hterm, hahead, hk⟩ := hI
    obtain ⟨e1, _, _, e4, _, _, _, _, e9, _⟩ := C09.install_snapshot_discard (s.begin ra ord) q hterm hahead hk
    have hq : Order.InstallOk q := by
      rcases hr with h | h | h
      · exact absurd h hterm
      · have : q.lastIndex ≤ (s.begin ra ord).commitIndex := h
        omega
      · exact h
    have hh : ∀ g, (s.begin ra ord).snapsDisk.head? = some g → g.index ≤ q.lastIndex := by
      intro g hg
      have := hi.tracks.headLe g hg
      have := hi.ordered.snap_le_applied; have := hi.ordered.applied_le_commit
      have : (s.begin ra ord).commitIndex < q.lastIndex := hahead
      have e : (s.begin ra ord).commitIndex = s.commitIndex := rfl
      omega
    have hhead := SnapInst.inst_head (s.begin ra ord) q hi.tracks.retain hh (Or.inr e9)
    refine ⟨?_, ?_, ?_⟩
    · rw [e1]; unfold C06.LogWF NLog.reset NLog.lastSegPrev NLog.last; simp
    · unfold label; rw [hhead, e4]; exact hq
    · rw [e1]; intro e he; cases he
  · by_cases hterm : q.term < (s.begin ra ord).term
    · have e : (s.begin ra ord).onInstallSnap q = (s.begin ra ord).ret rStaleTerm := by
        rw [onInstallSnap_eq, if_pos hterm]
      rw [e]; exact hb.congr rfl rfl rfl
    · have h2' : q.lastIndex ≤ (s.begin ra ord).commitIndex ∨ C09.keepsLog (s.begin ra ord) q = true := by
        by_cases hc : q.lastIndex ≤ (s.begin ra ord).commitIndex
        · exact Or.inl hc
        · right
          cases hk : C09.keepsLog (s.begin ra ord) q with
          | true => rfl
          | false => exact absurd ⟨hterm, by omega, hk⟩ hI
      rw [C09.install_nothing_shape _ q hterm h2']
      have sd := sameData_installPre (s.begin ra ord) q
      exact hb.congr sd.log sd.snapsDisk sd.snapIndex

/-- **`CrashInv` is inductive**: a completed step of ANY operation keeps it (crash + restart at any point:
`tracks_after_crash_at_any_point_partial`) -/
theorem crashInv_step (s : Node) (op : Op) (ra : List Nat) (ord : List (List Nat)) (hi : CrashInv s)
    (hr : Order.ReqOk s op) (hd : ReqDec s op) (hfb : SnapFbOp s op)
    (hp : (s.step op ra ord).panicked = none) : CrashInv (s.step op ra ord) := by
  refine ⟨C12Track.tracks_step s op ra ord hi.tracks hi.ordered hr hp,
    C19Order.ordered_step s op ra ord hi.ordered hr hp, ?_, by rw [SysMore.step_cid]; exact hi.cid,
    by rw [step_nid]; exact hi.nid⟩
  by_cases hni : ∀ q, op ≠ .install q
  · exact ((tj_stepAll op ra ord hi.ordered hi.tracks.toCore hi.tracks.queue hi.mem hr hd hfb hni).2 hp).1
  · have : ∃ q, op = .install q := by
      cases op <;> first | exact ⟨_, rfl⟩ | exact absurd (fun q h => Op.noConfusion h) hni
    obtain ⟨q, rfl⟩ := this
    exact mem_install s q ra ord hi hr

/-- the hypothesis `C19Latest` makes on the snapshot goroutine (the fallback is not taken) implies `SnapFbOp` -/
theorem snapFbOp_of_noFallback (s : Node) (op : Op) (h : Latest.NoFallback s op) : SnapFbOp s op := by
  cases op <;> try trivial
  case snapRun => exact fun rq h1 h2 h3 => Or.inl (h rq h1 h2 h3)
  case shutdown => exact fun rq h1 h2 h3 => Or.inl (h rq h1 h2 h3)

/-- **with the hypotheses of C15/C19** (`NoPanic.Good true`, `NoPanic.ReqOk' true`: two anchor voters per
configuration, so that the model's recursion budget suffices and NO step fails): no panic hypothesis is needed. -/
theorem tracks_after_crash_good_partial (s : Node) (op : Op) (ra : List Nat) (ord : List (List Nat)) (k : Nat)
    (r : Nat) (sor : Bool) (hG : NoPanic.Good true s) (hopen : s.closed = "") (ht : C12Track.Tracks s)
    (hw : C06.LogWF s.log) (hlab : (label s).index ≤ s.snapIndex) (hcid : s.cid ≠ 0) (hnid : s.nid ≠ 0)
    (hr : NoPanic.ReqOk' true s op) (hfb : SnapFbOp s op) (hret : 1 ≤ r) :
    ∃ n, Node.restart (C05.crashDisk s op ra ord k) r sor = some n ∧ C12Track.Tracks n ∧ Order.Ordered n ∧
      n.configs.latest = ((C10.configsAbove (C05.crashDisk s op ra ord k))[0]?).getD
        (C10.snapOf (C05.crashDisk s op ra ord k)).config ∧
      n.configs.committed = ((C10.configsAbove (C05.crashDisk s op ra ord k))[1]?).getD
        (C10.snapOf (C05.crashDisk s op ra ord k)).config ∧
      C19Latest.LatestIsNewest n ∧ CrashInv n := by
  have hp := (C15NoPanic.good_step_two s op ra ord hG hopen hr).1
  have hd : ReqDec s op := by
    cases op <;> try trivial
    case append q =>
      rcases hr with h | h
      · exact Or.inl h
      · right
        intro ne hne htc
        obtain ⟨c, hc, _⟩ := (h.2 ne hne htc).get
        rw [hc]; rfl
  exact tracks_after_crash_at_any_point_partial s op ra ord k r sor
    ⟨ht, hG.ordered, ⟨hw, hlab, hG.glob.logDec⟩, hcid, hnid⟩ hr.toReqOk hd hfb hp hret

/-! ### "a node restarted from a snapshot resumes with exactly that configuration until a later log entry replaces it" -/

/-- **the configurations after a restart come from the label unless a later log entry overrides it (partial: the disk
is well formed — `C10.DurWF`, no undecodable configuration entry above the snapshot; both hold at every crash point of
every step: `crashDisk_pd`).** Let `n` be the node restarted from the disk `d`, `L` the label of the newest snapshot
on `d` (the zero configuration when there is none) and `cs = C10.configsAbove d` the configuration entries above the
snapshot index in the log `openStorage` works with, newest first. Then
* if there is none, `n.configs.latest = n.configs.committed = L`;
* if there is one, `n.configs.latest` is the newest, `n.configs.committed` the second newest — `L` if there is only one;
* the state machine, restored from the snapshot, holds `L` (`fsm.config`), at the snapshot's index and term. -/
theorem restart_config_from_label_partial (d : Durable) (r : Nat) (sor : Bool) (n : Node) (hwf : C10.DurWF d)
    (hok : C10.NoDecodeErr (C10.window (C10.logOf d) (C10.snapOf d).index (C10.logOf d).last))
    (h : Node.restart d r sor = some n) :
    (C10.configsAbove d = [] → n.configs.latest = (C10.snapOf d).config ∧ n.configs.committed = (C10.snapOf d).config) ∧
    (∀ c cs, C10.configsAbove d = c :: cs →
      n.configs.latest = c ∧ n.configs.committed = (cs.head?).getD (C10.snapOf d).config) ∧
    (0 < (C10.snapOf d).index → n.fsm.config = (C10.snapOf d).config ∧ n.fsm.index = (C10.snapOf d).index ∧
      n.fsm.term = (C10.snapOf d).term) := by
  obtain ⟨hfsm, _, _, _, _, hcfg, _⟩ := C10.restart_fsm d r sor n h
  obtain ⟨_, c1, c2⟩ := C10.restart_configs d r sor hwf hok
  rw [hcfg, c1, c2]
  refine ⟨fun he => by rw [he]; exact ⟨rfl, rfl⟩, fun c cs he => by rw [he]; cases cs <;> exact ⟨rfl, rfl⟩,
    fun hpos => ?_⟩
  rw [if_pos hpos] at hfsm
  rw [hfsm.1]; exact ⟨rfl, rfl, rfl⟩

/-- … at every crash point of every step (the hypotheses of `restart_config_from_label_partial` hold there) -/
theorem crashDisk_restart_hyps (s : Node) (op : Op) (ra : List Nat) (ord : List (List Nat)) (k : Nat)
    (hi : CrashInv s) (hr : Order.ReqOk s op) (hd : ReqDec s op) (hfb : SnapFbOp s op)
    (hp : (s.step op ra ord).panicked = none) :
    C10.DurWF (C05.crashDisk s op ra ord k) ∧
    C10.NoDecodeErr (C10.window (C10.logOf (C05.crashDisk s op ra ord k))
      (C10.snapOf (C05.crashDisk s op ra ord k)).index (C10.logOf (C05.crashDisk s op ra ord k)).last) := by
  have hpd := crashDisk_pd s op ra ord k hi hr hd hfb hp
  exact ⟨hpd.ok.durWF, noDecodeErr_of_logDec _ hpd.dec⟩

/-! ### the live node and the restarted node agree when everything is flushed -/

/-- the disk of a node whose log is completely flushed is not stale, and holds the whole log -/
theorem durable_of_flushed (s : Node) (hi : CrashInv s) (hfl : s.log.flushed = s.log.last) :
    s.durable.log.entries = s.log.entries ∧ C10.logOf s.durable = s.durable.log := by
  have hent : s.durable.log.entries = s.log.entries := by
    show s.log.entries.take (s.log.flushed - s.log.prev) = _
    rw [hfl]; unfold NLog.last
    rw [Nat.add_sub_cancel_left, List.take_length]
  refine ⟨hent, ?_⟩
  obtain ⟨_, _, hidx⟩ := C12Track.durable_snap s hi.tracks hi.ordered
  have hterm : (C10.snapOf s.durable).term = s.snapTerm := by
    rw [hi.tracks.snapOk.headTerm]
    show ((s.snapsDisk.head?).getD {}).term = _
    cases s.snapsDisk.head? <;> rfl
  have hlast : s.durable.log.last = s.log.last := by
    unfold NLog.last; rw [hent]; rfl
  have hget : ∀ i, s.durable.log.get? i = s.log.get? i := by
    intro i; unfold NLog.get?; rw [hent]; rfl
  rcases C10.logOf_cases s.durable with ⟨hst, _⟩ | ⟨_, e⟩
  · exfalso
    have hst' : (decide (s.durable.log.last < (C10.snapOf s.durable).index) ||
        (decide (s.durable.log.prev < (C10.snapOf s.durable).index) &&
          ((s.durable.log.get? (C10.snapOf s.durable).index).map (·.term) != some (C10.snapOf s.durable).term))) = true :=
      hst
    rw [hidx, hterm, hlast, hget] at hst'
    have h1 : ¬ s.log.last < s.snapIndex := by
      have := hi.ordered.snap_le_applied; have := hi.ordered.applied_le_commit
      have := hi.ordered.commit_le_last; have := hi.ordered.last_eq
      omega
    rw [decide_eq_false h1, Bool.false_or, Bool.and_eq_true] at hst'
    obtain ⟨h2, h3⟩ := hst'
    have h2' : s.log.prev < s.snapIndex := of_decide_eq_true h2
    rw [hi.tracks.snapOk.termLog h2'] at h3
    simp at h3
  · exact e

/-- **the live node and the restarted node use the same latest configuration when the log is completely flushed**
(`flushed = last`: e.g. a follower after any append request that stored something — `commitLog(lastLogIndex)` —, any
node after a restart, a leader once its last entry is committed). Let `s` satisfy `CrashInv` and
`C19Latest.LatestIsNewest` (its `configs.latest` is the newest configuration entry of its log, else the label). Then the
node restarted from `s`'s disk has `configs.latest = s.configs.latest`. (With unflushed entries the restarted node uses
the configurations of the flushed prefix: `tracks_after_crash_at_any_point_partial`.) -/
theorem restart_latest_eq_live_of_flushed (s : Node) (r : Nat) (sor : Bool) (n : Node) (hi : CrashInv s)
    (hL : C19Latest.LatestIsNewest s) (hfl : s.log.flushed = s.log.last) (hret : 1 ≤ r)
    (h : Node.restart s.durable r sor = some n) : n.configs.latest = s.configs.latest := by
  have hpd := pd_durable hi.tracks.toCore hi.ordered.toCoreW hi.mem
  obtain ⟨n', h1, _, _, _, _, hLn, _⟩ := pd_restart s.durable r sor hpd hi.cid hi.nid hret
  rw [h] at h1
  injection h1 with h1
  subst h1
  obtain ⟨_, _, _, hlog, _, _, hdisk⟩ := C10.restart_fsm s.durable r sor n h
  obtain ⟨_, _, e3, _⟩ := C10.restartNode_fields s.durable r sor
  obtain ⟨hent, hlo⟩ := durable_of_flushed s hi hfl
  obtain ⟨_, hcfg, _⟩ := C12Track.durable_snap s hi.tracks hi.ordered
  have hlab : label n = label s := by
    have : label n = (C10.snapOf s.durable).config := by unfold label; rw [hdisk]; rfl
    rw [this, hcfg]
  have hprev : n.log.prev = s.log.prev := by rw [hlog, e3, hlo]; rfl
  have hentn : n.log.entries = s.log.entries := by rw [hlog, e3, hlo]; exact hent
  have hnew : ∀ L i, newest n.log L i = newest s.log L i := by
    intro L i; unfold newest pre; rw [hprev, hentn]
  have hlast : n.log.last = s.log.last := by unfold NLog.last; rw [hprev, hentn]
  rw [hLn.latest, hL.latest, hlab, hnew, hlast]

/-! ### EXAMPLE: a follower that crashes in the middle of an append that truncates a configuration entry -/

/-- the follower `C12Track.exT` (snapshot at 1 labelled `c1`; entries 2 no-op, 3 configuration `c3`, 4 update; applied
and committed 2; `latest = c3`, `committed = c1`) receives from the leader of term 2 (node 2) entries 3' (no-op) and 4'
(a configuration with nodes 1, 2, 3) after entry 2: entries 3 (the latest configuration) and 4 are deleted. -/
def exReq : AppendReq :=
  { term := 2, src := 2, prevLogIndex := 2, prevLogTerm := 1, ldrCommitIndex := 2,
    entries := [{ index := 3, term := 2, typ := etNop },
                { index := 4, term := 2, typ := etConfig,
                  cfg := some { nodes := [C12Track.n1, C12Track.n2, { id := 3, addr := "c:1" }] } }] }

/-- the configuration of entry 4' -/
def c4 : Config := { nodes := [C12Track.n1, C12Track.n2, { id := 3, addr := "c:1" }], index := 4, term := 2 }

theorem exT_crashInv : CrashInv C12Track.exT :=
  ⟨C12Track.exT_tracks, C12Track.exT_ordered, by decide, by decide, by decide⟩

/-- EXAMPLE (`tracks_after_crash_at_any_point_partial`): its hypotheses hold for `exT` and the request; the step has
three storage points: `value.set` (term 2), `removeGTE` (entries 3, 4 deleted), `commitLog` (3', 4' flushed). -/
example :
    CrashInv C12Track.exT ∧ Order.ReqOk C12Track.exT (.append exReq) ∧ ReqDec C12Track.exT (.append exReq) ∧
    SnapFb C12Track.exT ∧ (C12Track.exT.step (.append exReq) [] []).panicked = none ∧
    (C12Track.exT.step (.append exReq) [] []).trace.map (·.1) = ["value.set", "removeGTE", "commitLog"] :=
  ⟨exT_crashInv, by decide, by decide, by decide, by decide, by decide⟩

/-- EXAMPLE, the crash points one by one (restart with `retain = 1`): what the restarted node uses as
`(latest, committed)` and what it holds as log.
* `k = 0, 1` (before the step / after `value.set`): the old log 2, 3, 4 — `latest = c3` (entry 3), `committed = c1` (label);
* `k = 2` (after `removeGTE`, before the replacement entries are flushed): the log is cut back to entry 2, the latest
  configuration entry is gone — `latest = committed = c1`, the label: exactly what `revertConfig` leaves on the live node;
* `k = 3` (after `commitLog`): entries 2, 3', 4' — `latest = c4` (entry 4'), `committed = c1`.
In every case the restarted node tracks (and is ordered). -/
example :
    let d := fun k => C05.crashDisk C12Track.exT (.append exReq) [] [] k
    let cfgs := fun k => (Node.restart (d k) 1 true).map (fun n => (n.configs.latest, n.configs.committed))
    let logs := fun k => (Node.restart (d k) 1 true).map
      (fun n => (n.log.entries.map (fun e => (e.index, e.term)), decide (C12Track.Tracks n)))
    cfgs 0 = some (C12Track.c3, C12Track.c1) ∧ logs 0 = some ([(2, 1), (3, 1), (4, 1)], true) ∧
    cfgs 1 = some (C12Track.c3, C12Track.c1) ∧ logs 1 = some ([(2, 1), (3, 1), (4, 1)], true) ∧
    cfgs 2 = some (C12Track.c1, C12Track.c1) ∧ logs 2 = some ([(2, 1)], true) ∧
    cfgs 3 = some (c4, C12Track.c1) ∧ logs 3 = some ([(2, 1), (3, 2), (4, 2)], true) := by
  refine ⟨by decide, by decide, by decide, by decide, by decide, by decide, by decide, by decide⟩

/-- … and the live node at the moment of the `removeGTE` crash point has reverted to the same configuration: the
completed step (which then appends 3', 4') ends with `latest = c4`, `committed = c1`. -/
example :
    (C12Track.exT.resolveConflict { index := 3, term := 2, typ := etNop } 1).configs =
      { committed := C12Track.c1, latest := C12Track.c1 } ∧
    (C12Track.exT.step (.append exReq) [] []).configs = { committed := C12Track.c1, latest := c4 } := by
  refine ⟨by decide, by decide⟩

/-- EXAMPLE (`restart_latest_eq_live_of_flushed`): `exT` is completely flushed and its latest configuration is the
newest configuration entry of its log; the node restarted from its disk uses the same (`c3`, entry 3). -/
example :
    C19Latest.LatestIsNewest C12Track.exT ∧ C12Track.exT.log.flushed = C12Track.exT.log.last ∧
    (Node.restart C12Track.exT.durable 1 true).map (·.configs.latest) = some C12Track.exT.configs.latest :=
  ⟨by decide, by decide, by decide⟩

/-- EXAMPLE (`restart_config_from_label_partial`): the disk `C10.exDisk` (snapshot at 2 labelled with node 9; entries 3
no-op, 4 a configuration with node 1) satisfies the hypotheses; one configuration entry above the snapshot:
`latest` is entry 4's, `committed` and the FSM's configuration are the label. -/
example :
    C10.DurWF C10.exDisk ∧
    C10.NoDecodeErr (C10.window (C10.logOf C10.exDisk) (C10.snapOf C10.exDisk).index (C10.logOf C10.exDisk).last) ∧
    (Node.restart C10.exDisk 1 true).map (fun n => (n.configs.latest.index, n.configs.committed, n.fsm.config)) =
      some (4, (C10.snapOf C10.exDisk).config, (C10.snapOf C10.exDisk).config) := by
  refine ⟨by unfold C10.DurWF; decide, ?_, by decide⟩
  unfold C10.NoDecodeErr
  decide

/-- EXAMPLE (`tracks_after_crash_good_partial`): its hypotheses hold for the follower `C15NoPanic.exF` (entries 2..4
above a snapshot at 1) and the append request `C19Order.exAppend` (entries 4..6). -/
example :
    NoPanic.Good true C15NoPanic.exF ∧ C15NoPanic.exF.closed = "" ∧ C12Track.Tracks C15NoPanic.exF ∧
    Mem C15NoPanic.exF ∧ C15NoPanic.exF.cid ≠ 0 ∧ C15NoPanic.exF.nid ≠ 0 ∧
    NoPanic.ReqOk' true C15NoPanic.exF (.append C19Order.exAppend) ∧
    SnapFbOp C15NoPanic.exF (.append C19Order.exAppend) :=
  ⟨C15NoPanic.exF_good, rfl, by decide, by decide, by decide, by decide, by decide, by decide⟩

-- evaluation (a test, not a proof: leader steps do not reduce in the kernel): the leader `C15NoPanic.exL` (entries
-- 1..3, commit index 2; node 3 a non-voter to be promoted) learns that node 3 has caught up: it APPENDS the configuration
-- entry 4 that promotes node 3 and (counting node 3 at once) commits entry 3 — one storage point, `commitLog`, which
-- flushes entry 4 as well. Restarted from the disk before the step the node uses the bootstrap configuration (entry 1;
-- `committed` is the zero label: there is no snapshot), from the `commitLog` point on entry 4 — in each case the node
-- tracks and its latest configuration is the newest configuration entry of its log.
#guard (List.range 3).map (fun k =>
    (Node.restart (C05.crashDisk C15NoPanic.exL (.replUpdates [{ id := 3, upd := .matchIndex 3 }]) [] [] k) 1 true).map
      (fun n => (n.configs.latest.index, n.configs.committed.index, n.log.entries.length, decide (C12Track.Tracks n),
                 decide (C19Latest.LatestIsNewest n)))) ==
  [some (1, 0, 3, true, true), some (4, 1, 4, true, true), some (4, 1, 4, true, true)]

/-! ### necessity of the extra hypotheses -/

/-- NECESSITY of `ReqDec` — and a behaviour of the Go code worth knowing: a follower APPENDS an entry before decoding
it (`onAppendEntriesRequest`: `storage.appendEntry(ne)`, then `if ne.typ == entryConfig { config.decode(ne) }`), and the
deferred `commitLog` flushes it although the handler fails with `unexpectedErr`. If the process dies after that
`commitLog` point (crash point name `commitLog`, `k = 2` here) `openStorage` meets the undecodable configuration entry
and fails: the node cannot be restarted on this directory. (`ReqDec` is violated; the completed step panics in
`replyRPC`. NOT reachable with a correct leader: leaders store only configurations they encoded themselves.) -/
theorem undecodable_entry_blocks_restart :
    let q : AppendReq := { term := 1, src := 2, prevLogIndex := 4, prevLogTerm := 1,
                           entries := [{ index := 5, term := 1, typ := etConfig, cfg := none }] }
    CrashInv C12Track.exT ∧ Order.ReqOk C12Track.exT (.append q) ∧ ¬ ReqDec C12Track.exT (.append q) ∧
    (C12Track.exT.step (.append q) [] []).trace.map (·.1) = ["commitLog"] ∧
    (C12Track.exT.step (.append q) [] []).panicked = some "error.unexpectedErr" ∧
    Node.restart (C05.crashDisk C12Track.exT (.append q) [] [] 1) 1 true = none := by
  refine ⟨exT_crashInv, by decide, by decide, by decide, by decide, by decide⟩

/-- NECESSITY of `SnapFb`: a tracking, ordered state whose FSM holds NO configuration (entries 1..4 are no-ops) with a
snapshot request that captured a configuration of index 7. `snapRun` stores the file at 4 labelled with it; a node
restarted from the `snap.publish` point uses it as `latest` with index 7 > last log index 4: not `Ordered`
(`Tracks` holds). NOT reachable in a cluster: entry 1 of every log is the bootstrap configuration. -/
theorem snapFb_needed :
    let rqc : Config := { nodes := [C12Track.n1], index := 7, term := 1 }
    let s : Node := { C19Order.nec1 with cid := 1, nid := 1, commitIndex := 4, fsm := { index := 4, term := 1 },
                                         snapPending := some { task := 1, minIndex := 0, config := rqc } }
    C12Track.Tracks s ∧ Mem s ∧ ¬ SnapFb s ∧ (s.step .snapRun [] []).panicked = none ∧
    ((Node.restart (C05.crashDisk s .snapRun [] [] 1) 1 true).map
      (fun n => (decide (C12Track.Tracks n), n.configs.latest.index, n.lastLogIndex))) = some (true, 7, 4) := by
  refine ⟨by decide, by decide, by decide, by decide, by decide⟩

end C12Crash
end Raft

#print axioms Raft.TrackCrash.pd_durable
#print axioms Raft.TrackCrash.block
#print axioms Raft.TrackCrash.tj_stepAll
#print axioms Raft.C12Crash.pd_restart
#print axioms Raft.C12Crash.crashDisk_pd_other
#print axioms Raft.C12Crash.crashDisk_pd_install
#print axioms Raft.C12Crash.crashDisk_pd
#print axioms Raft.C12Crash.tracks_after_crash_at_any_point_partial
#print axioms Raft.C12Crash.mem_install
#print axioms Raft.C12Crash.crashInv_step
#print axioms Raft.C12Crash.snapFbOp_of_noFallback
#print axioms Raft.C12Crash.tracks_after_crash_good_partial
#print axioms Raft.C12Crash.restart_config_from_label_partial
#print axioms Raft.C12Crash.crashDisk_restart_hyps
#print axioms Raft.C12Crash.durable_of_flushed
#print axioms Raft.C12Crash.restart_latest_eq_live_of_flushed
#print axioms Raft.C12Crash.exT_crashInv
#print axioms Raft.C12Crash.undecodable_entry_blocks_restart
#print axioms Raft.C12Crash.snapFb_needed
