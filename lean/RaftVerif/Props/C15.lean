/-
C15 — No self-inflicted failure; every task completes; shutdown terminates (the decision logic).

A Go panic (assert, nil dereference, bug{}) is the model field `panicked`; task completions are `replies`.

PROVED here for ALL states and inputs of the node model:
* `*_never_panics`: the vote handler, timeout-now handler, follower timeout, vote-result handler,
  take-snapshot, wait-for-stable, the non-leader entry path, and — given that every other voter of the latest
  configuration has a replication / that self is a voter — `checkQuorum`, `startElection` leave `panicked`
  exactly as it was: no assertion, nil dereference or bug{} can fire there.
* `task_replied_exactly_once_*` / `task_pending_*`: on the simple task paths the task is answered exactly
  once (the reply list grows by exactly that one completion) or is recorded as pending (transfer, wait list,
  snapshot request) with nothing answered — never both, never twice.
* `shutdown_*`: `Shutdown` always closes the node (`closed ≠ ""`), and completes every pending task: each
  queued entry and each waitForStableConfig task with ErrServerClosed, the transfer in progress with its
  release result, a requested or finished snapshot with its result. `closed_is_sticky`: once closed a node
  stays closed through every step.
* `panicked_is_sticky*`: `Node.panic` records the FIRST failure site and never clears one; nothing in the
  leader block clears it either.

NOT proved here: absence of panics on the whole leader path (it needs the cluster-level facts that every
configuration member has a replication and that log views can be built — the F6 class, checked on real
executions by nodediff / live), data races and deadlocks (race detector, live engine), and termination of
the goroutines `Serve` waits for.
-/
import RaftVerif.Props.C07
import RaftVerif.Lemmas.ReplSteps

namespace Raft
namespace C15
open Node

/-! ### 4. `panicked` is sticky -/

/-- **panicked_is_sticky**: `Node.panic` always leaves a failure recorded, keeps the first site, and changes
nothing else. -/
theorem panicked_is_sticky (s : Node) (site : String) :
    (s.panic site).panicked ≠ none ∧ (s.panicked ≠ none → (s.panic site).panicked = s.panicked) ∧
    (s.panicked = none → (s.panic site).panicked = some site) := by
  refine ⟨panic_panicked_ne s site, ?_, ?_⟩
  · intro h; unfold Node.panic; rw [if_neg (by simpa [Option.isNone_iff_eq_none] using h)]
  · intro h; unfold Node.panic; rw [if_pos (by simp [h])]

theorem assert_sticky (s : Node) (b : Bool) (site : String) (h : s.panicked ≠ none) :
    (s.assert b site).panicked ≠ none := by
  unfold Node.assert; split
  · exact h
  · exact panic_panicked_ne s site

/-- a passing assertion is the identity -/
theorem assert_true (s : Node) (site : String) : s.assert true site = s := rfl

theorem setCommitIndexR_panicked (s : Node) (i : Nat) : (s.setCommitIndexR i).1.panicked = s.panicked := by
  unfold Node.setCommitIndexR Node.afterConfigCommit Node.closeIfRemoved Node.stepDownIfNotVoter
    Node.commitConfig Node.doClose
  dsimp only; repeat' split
  all_goals rfl

/-- no primitive of the leader handlers clears a recorded failure -/
theorem panicked_closed : Closed (fun x => x.panicked ≠ none) where
  panic := fun s site _ => panic_panicked_ne s site
  reply := fun s t r h => by rw [(reply_fields s t r).2.2.2.2.2.1]; exact h
  point := fun _ _ h => h
  ldr := fun _ _ h => h
  append := fun _ _ _ h => h
  commitN := fun _ _ h => h
  fsm := fun _ _ h => h
  changeConfigR := fun s c h => by rw [(changeConfigR_fields s c).2.2.2.2.2.1]; exact h
  setCommitIndexR := fun s i h _ => by
    show (s.setCommitIndexR i).1.panicked ≠ none
    rw [setCommitIndexR_panicked]; exact h
  popOrder := fun _ h => h

/-- **panicked is sticky through the leader block**: accepting entries, membership changes, commit
advancement never clear a recorded failure (results after a panic are never compared, but the flag stays). -/
theorem panicked_is_sticky_leader (fuel : Nat) (s : Node) (batch : List QItem) (h : s.panicked ≠ none) :
    (storeEntry fuel s batch).panicked ≠ none ∧ (onMajorityCommit fuel s).panicked ≠ none ∧
    (∀ t c, (checkConfigActions fuel s t c).panicked ≠ none) :=
  ⟨panicked_closed.storeEntry_inv' fuel s batch h, panicked_closed.onMajorityCommit_inv' fuel s h,
   fun t c => panicked_closed.checkConfigActions_inv' fuel s t c h⟩

/-! ### 1. handlers that cannot fail -/

theorem storeTermVote_panicked (s : Node) (t c : Nat) : (s.storeTermVote t c).panicked = s.panicked := by
  unfold Node.storeTermVote Node.point; dsimp only; split <;> rfl

/-- `storage.setVotedFor` asserts `term ≥ current term` -/
theorem setVotedFor_panicked (s : Node) (t c : Nat) (h : t ≥ s.term) : (s.setVotedFor t c).panicked = s.panicked := by
  unfold Node.setVotedFor
  split
  · first | exact storeTermVote_panicked _ _ _ | rw [if_pos h, storeTermVote_panicked]
  · rfl

/-- `storage.setTerm` asserts `term ≥ current term` -/
theorem setTerm_panicked (s : Node) (t : Nat) (h : t ≥ s.term) : (s.setTerm t).panicked = s.panicked := by
  unfold Node.setTerm
  split
  · rename_i hne
    first | exact storeTermVote_panicked _ _ _ | rw [if_pos (by omega), storeTermVote_panicked]
  · rfl

/-- **vote_handler_never_panics**: whatever the request and the state. -/
theorem vote_handler_never_panics (s : Node) (q : VoteReq) : (s.onVoteRequest q).panicked = s.panicked := by
  unfold Node.onVoteRequest
  split
  · rfl
  · split
    · rfl
    · rename_i hlt
      extract_lets vf tm s1
      have h1 : s1.panicked = s.panicked ∧ s1.term = s.term := by unfold s1; split <;> exact ⟨rfl, rfl⟩
      have htm : tm ≥ s1.term := by
        rw [h1.2]; unfold tm; split <;> omega
      have hv : ∀ c, (s1.setVotedFor tm c).panicked = s.panicked := fun c => by
        rw [setVotedFor_panicked _ _ _ htm, h1.1]
      repeat' split
      all_goals exact hv _

theorem timeoutNow_never_panics (s : Node) : s.onTimeoutNow.panicked = s.panicked := by
  unfold Node.onTimeoutNow; split <;> rfl

theorem followerTimeout_never_panics (s : Node) : s.followerTimeout.panicked = s.panicked := by
  unfold Node.followerTimeout; dsimp only; split <;> rfl

theorem voteResult_never_panics (s : Node) (err : Bool) (term result : Nat) :
    (s.onVoteResult err term result).panicked = s.panicked := by
  unfold Node.onVoteResult
  split
  · rfl
  · split
    · rename_i hgt
      exact setTerm_panicked (s.setRole .follower) term (Nat.le_of_lt hgt)
    · split
      · dsimp only; split <;> rfl
      · rfl

theorem takeSnapshot_never_panics (s : Node) (task threshold : Nat) :
    (s.onTakeSnapshot task threshold).panicked = s.panicked := by
  unfold Node.onTakeSnapshot; split
  · exact (reply_fields _ _ _).2.2.2.2.2.1
  · rfl

theorem waitForStable_never_panics (s : Node) (task : Nat) : (s.onWaitForStable task).panicked = s.panicked := by
  unfold Node.onWaitForStable; split
  · exact (reply_fields _ _ _).2.2.2.2.2.1
  · rfl

theorem rejectEntries_never_panics (s : Node) (batch : List QItem) : (s.rejectEntries batch).panicked = s.panicked :=
  (C07.definite_rejection_never_appended s batch).2.2.2.2.2

/-- `leader.checkQuorum` dereferences `l.repls[id]` for every voter other than self: it cannot fail when
each of them has a replication (which `leader.init` / `changeConfig` establish). -/
theorem checkQuorum_never_panics (s : Node)
    (h : ∀ n ∈ s.configs.latest.nodes, n.voter = true → n.id ≠ s.nid → s.findRepl? n.id ≠ none) :
    s.checkQuorum.panicked = s.panicked := by
  unfold Node.checkQuorum
  extract_lets vs reachable s1
  have e1 : s1 = s := by
    unfold s1
    rw [if_neg]
    intro hany
    obtain ⟨n, hn, hb⟩ := List.any_eq_true.mp hany
    unfold vs at hn
    simp only [List.mem_filter] at hn
    simp only [Bool.and_eq_true, bne_iff_ne, ne_eq, Option.isNone_iff_eq_none] at hb
    exact h n hn.1 hn.2 hb.1 hb.2
  rw [e1]
  split <;> rfl

/-- `candidate.startElection` asserts that self is a voter (C11: only voters become candidates). -/
theorem startElection_never_panics (s : Node) (h : s.configs.latest.isVoter s.nid = true) :
    s.startElection.panicked = s.panicked := by
  unfold Node.startElection
  extract_lets s1 s2 s3 s4
  have e1 : s1 = s := by unfold s1; rw [h]; rfl
  have e3 : s3.panicked = s.panicked := by
    unfold s3
    rw [setVotedFor_panicked _ _ _ (Nat.le_succ _)]
    unfold s2; rw [e1]; rfl
  have e4 : s4.panicked = s.panicked := e3
  split
  · exact e4
  · exact e4

/-- `leader.tryTransfer` dereferences `l.repls[target]` for a chosen target that is a voter -/
theorem tryTransfer_never_panics (s : Node)
    (h : s.ldr.transfer.target ≠ 0 → s.configs.latest.isVoter s.ldr.transfer.target = true →
      s.findRepl? s.ldr.transfer.target ≠ none) :
    s.tryTransfer.panicked = s.panicked := by
  have h2 : s.tryTransferTarget.2 = false := by
    unfold Node.tryTransferTarget
    dsimp only
    split
    · rename_i h0
      split
      · rename_i hv
        split
        · rfl
        · rename_i hn; exact absurd hn (h h0 hv)
      · rfl
    · rfl
  unfold Node.tryTransfer
  dsimp only
  rw [h2]
  simp only [Bool.false_eq_true, if_false]
  repeat' split
  all_goals rfl

/-! ### 2. a task is answered exactly once, or recorded as pending -/

/-- an invalid TransferLeadership request is answered at once, exactly once, and changes nothing else -/
theorem task_replied_exactly_once_transfer_invalid (s : Node) (task target : Nat) (h : s.validateTransfer target ≠ "")
    (h0 : task ≠ 0) :
    s.onTransfer task target = s.addReplies [{ task := task, result := s.validateTransfer target }] := by
  rw [C16.onTransfer_invalid_no_effect s task target h, reply_eq_addReplies]
  unfold mkReply?; rw [if_neg h0]

/-- a valid one is recorded as the transfer in progress and NOT answered yet (it is answered by
`transferReply`: on success, timeout, or release — see `shutdown_completes_transfer`) -/
theorem task_pending_transfer (s : Node) (task target : Nat) (h : s.validateTransfer target = "") :
    (s.onTransfer task target).replies = s.replies ∧
    (s.onTransfer task target).ldr.transfer.task = task ∧ (s.onTransfer task target).ldr.transfer.active = true := by
  unfold Node.onTransfer
  dsimp only
  rw [if_neg (by simp [h])]
  unfold Node.tryTransfer
  dsimp only
  repeat' split
  all_goals first
    | exact ⟨rfl, rfl, rfl⟩
    | exact ⟨(panic_fields _ _).2.2.2.2.2.1, rfl, rfl⟩
    | (refine ⟨?_, ?_, ?_⟩ <;> simp [Node.panic, Node.withLdr, Node.popOrder] <;> split <;> rfl)

/-- WaitForStableConfig on a stable configuration: answered at once, exactly once -/
theorem task_replied_exactly_once_waitStable (s : Node) (task : Nat) (h : s.configs.isStable = true) (h0 : task ≠ 0) :
    s.onWaitForStable task = s.addReplies [{ task := task, result := s!"config:{s.configs.latest.index}" }] := by
  unfold Node.onWaitForStable
  rw [if_pos h, reply_eq_addReplies]
  unfold mkReply?; rw [if_neg h0]

/-- …on an unstable one: queued, not answered (answered by `setCommitIndexL` when the configuration becomes
stable, or by `leader.release`) -/
theorem task_pending_waitStable (s : Node) (task : Nat) (h : s.configs.isStable = false) :
    (s.onWaitForStable task).replies = s.replies ∧ (s.onWaitForStable task).ldr.waitStable = s.ldr.waitStable ++ [task] := by
  unfold Node.onWaitForStable
  rw [if_neg (by simp [h])]
  exact ⟨rfl, rfl⟩

/-- entries submitted to a non-leader: one completion per task, in order, nothing else -/
theorem task_replied_exactly_once_reject (s : Node) (batch : List QItem) :
    (s.rejectEntries batch).replies.map (·.task) = s.replies.map (·.task) ++ (batch.map (·.task)).filter (· ≠ 0) := by
  rw [C07.definite_rejection_not_leader]
  show (s.replies ++ _).map _ = _
  rw [List.map_append, flatMap_mkReply?_tasks (fun q : QItem => q.task)]

/-- TakeSnapshot while one is in progress: answered at once, exactly once -/
theorem task_replied_exactly_once_snapshot_busy (s : Node) (task threshold : Nat)
    (h : s.snapPending.isSome = true ∨ s.snapResult.isSome = true) (h0 : task ≠ 0) :
    s.onTakeSnapshot task threshold = s.addReplies [{ task := task, result := "inProgress:takeSnapshot" }] := by
  unfold Node.onTakeSnapshot
  rw [if_pos h, reply_eq_addReplies]
  unfold mkReply?; rw [if_neg h0]

/-- …otherwise recorded as the pending snapshot request and not answered yet (answered by
`onSnapshotTaken`, also at shutdown: `shutdown_completes_snapshot`) -/
theorem task_pending_snapshot (s : Node) (task threshold : Nat)
    (h : ¬ (s.snapPending.isSome = true ∨ s.snapResult.isSome = true)) :
    (s.onTakeSnapshot task threshold).replies = s.replies ∧
    ∃ rq, (s.onTakeSnapshot task threshold).snapPending = some rq ∧ rq.task = task := by
  unfold Node.onTakeSnapshot
  rw [if_neg h]
  exact ⟨rfl, _, rfl, rfl⟩

/-! ### 3. shutdown -/

/-- closed (for whatever reason) -/
def IsClosed (s : Node) : Prop := s.closed ≠ ""

theorem cl_congr {s s' : Node} (h : IsClosed s) (e : s'.closed = s.closed) : IsClosed s' := by
  unfold IsClosed at *; rw [e]; exact h

theorem doClose_closed (s : Node) (r : String) (hr : r ≠ "") : IsClosed (s.doClose r) := by
  unfold Node.doClose IsClosed
  split
  · rename_i h; simpa [Node.isClosed] using h
  · exact hr

theorem doClose_keeps (s : Node) (r : String) (h : IsClosed s) : (s.doClose r).closed = s.closed := by
  unfold Node.doClose
  rw [if_pos (by unfold IsClosed at h; simp [Node.isClosed, h])]

/-- every primitive update of the handlers keeps a closed node closed (`closeOnce`) -/
theorem closed_stepClosed : StepClosed IsClosed where
  panic := fun s site h => cl_congr h (by unfold Node.panic; split <;> rfl)
  reply := fun s t r h => cl_congr h (by unfold Node.reply; split <;> rfl)
  point := fun s n h => cl_congr h rfl
  ldr := fun s l h => cl_congr h rfl
  append := fun s e r h => cl_congr h rfl
  commitN := fun s n h => cl_congr h rfl
  fsm := fun s f h => cl_congr h rfl
  changeConfigR := fun s c h => cl_congr h (by unfold Node.changeConfigR; dsimp only; split <;> rfl)
  setCommitIndexR := fun s i h _ => by
    have hd := fun x : Node => fun hx : IsClosed x => doClose_keeps x "nodeRemoved" hx
    unfold Node.setCommitIndexR Node.afterConfigCommit Node.closeIfRemoved Node.stepDownIfNotVoter Node.commitConfig
    dsimp only
    repeat' split
    all_goals first
      | exact h
      | (apply cl_congr h; rw [hd _ h])
      | (apply cl_congr h; exact hd _ h)
  popOrder := fun s h => cl_congr h rfl
  begin := fun s ra ord h => cl_congr h rfl
  rpcReply := fun s r h => cl_congr h rfl
  ret := fun s r h => cl_congr h rfl
  setRole := fun s r h => cl_congr h rfl
  setLeader := fun s l h => cl_congr h rfl
  doClose := fun s r h => cl_congr h (doClose_keeps s r h)
  setTerm := fun s t h => cl_congr h (by
    unfold Node.setTerm Node.storeTermVote Node.panic Node.point; repeat' split
    all_goals rfl)
  voteNewTerm := fun s t c h _ => cl_congr h (by
    unfold Node.setVotedFor Node.storeTermVote Node.panic Node.point; repeat' split
    all_goals rfl)
  voteGrant := fun s c h _ => cl_congr h (by
    unfold Node.setVotedFor Node.storeTermVote Node.panic Node.point; repeat' split
    all_goals rfl)
  votesNeeded := fun s v h => cl_congr h rfl
  candTransfer := fun s v h => cl_congr h rfl
  removeGTE := fun s i pt h => cl_congr h rfl
  removeLTE := fun s i h => cl_congr h rfl
  clearLog := fun s h => cl_congr h rfl
  revertConfig := fun s h => cl_congr h rfl
  commitConfig := fun s h => cl_congr h (by unfold Node.commitConfig; dsimp only; split <;> rfl)
  publishSnapshot := fun s f h => cl_congr h rfl
  installCommit := fun s h _ => cl_congr h rfl
  snapPending := fun s v h => cl_congr h rfl
  snapResult := fun s v h => cl_congr h rfl
  bootstrapLast := fun s i t h => cl_congr h rfl

/-- **closed_is_sticky**: a closed node stays closed through every step (any operation, any input). -/
theorem closed_is_sticky (s : Node) (op : Op) (rollAt : List Nat) (orders : List (List Nat)) (h : s.closed ≠ "") :
    (s.step op rollAt orders).closed ≠ "" :=
  closed_stepClosed.step_inv s op rollAt orders h

/-- **shutdown closes the node** -/
theorem shutdown_closes (s : Node) : s.shutdown.closed ≠ "" := by
  have h1 : IsClosed (s.doClose "serverClosed") := doClose_closed s _ (by decide)
  have hR : ∀ x : Node, IsClosed x → IsClosed x.snapRun := fun x hx => closed_stepClosed.snapRun_inv x hx
  have hT : ∀ x : Node, IsClosed x → IsClosed x.onSnapshotTaken := fun x hx => closed_stepClosed.onSnapshotTaken_inv x hx
  have h2 := closed_stepClosed.releaseRole_inv _ (s.doClose "serverClosed").role h1
  unfold Node.shutdown
  dsimp only
  repeat' split
  all_goals first
    | exact h2
    | exact hR _ h2
    | exact hT _ h2
    | exact hT _ (hR _ h2)

/-- the end of `Shutdown` (`Raft.release`): let a running snapshot finish and deliver its result -/
def finish (x : Node) : Node :=
  let x' := if x.snapPending.isSome then x.snapRun else x
  if x'.snapResult.isSome then x'.onSnapshotTaken else x'

theorem shutdown_eq (s : Node) :
    s.shutdown = finish ((s.doClose "serverClosed").releaseRole (s.doClose "serverClosed").role) := rfl

theorem doClose_fields (s : Node) (r : String) :
    (s.doClose r).ldr = s.ldr ∧ (s.doClose r).replies = s.replies ∧ (s.doClose r).role = s.role ∧
    (s.doClose r).snapPending = s.snapPending ∧ (s.doClose r).snapResult = s.snapResult ∧
    (s.doClose r).term = s.term := by
  unfold Node.doClose; split <;> exact ⟨rfl, rfl, rfl, rfl, rfl, rfl⟩

theorem snapRun_fields (x : Node) : x.snapRun.replies = x.replies ∧ x.snapRun.ldr = x.ldr ∧
    (∀ rq, x.snapPending = some rq → x.snapRun.snapPending = none ∧
      ∃ rs, x.snapRun.snapResult = some rs ∧ rs.task = rq.task) := by
  unfold Node.snapRun
  split
  · rename_i h
    exact ⟨rfl, rfl, fun rq hrq => by rw [h] at hrq; cases hrq⟩
  · rename_i rq0 h
    dsimp only
    refine ⟨?_, ?_, ?_⟩
    · repeat' split
      all_goals rfl
    · repeat' split
      all_goals rfl
    · intro rq hrq
      rw [h] at hrq
      injection hrq with hrq
      subst hrq
      repeat' split
      all_goals exact ⟨rfl, _, rfl, rfl⟩

theorem notifyFlr_fields (x : Node) : x.notifyFlr.replies = x.replies ∧ x.notifyFlr.ldr = x.ldr ∧
    x.notifyFlr.snapPending = x.snapPending ∧ x.notifyFlr.snapResult = x.snapResult := by
  unfold Node.notifyFlr Node.panic
  repeat' split
  all_goals exact ⟨rfl, rfl, rfl, rfl⟩

/-- the fields `Shutdown` cares about -/
def SameBut (x y : Node) : Prop :=
  y.replies = x.replies ∧ y.snapResult = x.snapResult ∧ y.snapPending = x.snapPending ∧
  y.ldr.queue = x.ldr.queue ∧ y.ldr.waitStable = x.ldr.waitStable ∧ y.ldr.transfer = x.ldr.transfer

theorem SameBut.rfl' (x : Node) : SameBut x x := ⟨rfl, rfl, rfl, rfl, rfl, rfl⟩

theorem SameBut.notifyFlr {x y : Node} (h : SameBut x y) : SameBut x y.notifyFlr := by
  obtain ⟨a, b, c, d⟩ := notifyFlr_fields y
  obtain ⟨h1, h2, h3, h4, h5, h6⟩ := h
  exact ⟨by rw [a, h1], by rw [d, h2], by rw [c, h3], by rw [b, h4], by rw [b, h5], by rw [b, h6]⟩

/-- `onSnapshotTaken` delivers the result to the task that asked for the snapshot, exactly once -/
theorem onSnapshotTaken_fields (x : Node) (rs : SnapRes) (h : x.snapResult = some rs) :
    x.onSnapshotTaken.replies = x.replies ++ mkReply? rs.task (if rs.err ≠ "" then rs.err else s!"u64:{rs.index}") ∧
    x.onSnapshotTaken.snapResult = none ∧ x.onSnapshotTaken.snapPending = x.snapPending ∧
    x.onSnapshotTaken.ldr.queue = x.ldr.queue ∧ x.onSnapshotTaken.ldr.waitStable = x.ldr.waitStable ∧
    x.onSnapshotTaken.ldr.transfer = x.ldr.transfer := by
  unfold Node.onSnapshotTaken
  split
  · rename_i h'; rw [h] at h'; cases h'
  · rename_i rs' h'
    have : rs' = rs := by rw [h] at h'; injection h' with h'; exact h'.symm
    subst this
    extract_lets s1 repls nowC0 canC0 nowC canC s2 src s3
    split
    · rename_i he
      rw [reply_eq_addReplies]
      exact ⟨rfl, rfl, rfl, rfl, rfl, rfl⟩
    · rename_i he
      rw [reply_eq_addReplies]
      have h2 : SameBut s1 s2 := by unfold s2; split <;> exact ⟨rfl, rfl, rfl, rfl, rfl, rfl⟩
      have h3 : SameBut s1 s3 := by
        unfold s3
        split
        · split
          · exact SameBut.notifyFlr (y := s2.withLdr _) h2
          · split
            · exact SameBut.notifyFlr (y := s2.withLdr _) h2
            · exact h2
        · exact SameBut.rfl' s1
      obtain ⟨a1, a2, a3, a4, a5, a6⟩ := h3
      exact ⟨by show s3.replies ++ _ = _; rw [a1]; rfl, a2, a3, a4, a5, a6⟩

theorem finish_fields (x : Node) :
    x.replies <+: (finish x).replies ∧ (finish x).snapPending = none ∧ (finish x).snapResult = none ∧
    (finish x).ldr.queue = x.ldr.queue ∧ (finish x).ldr.waitStable = x.ldr.waitStable ∧
    (finish x).ldr.transfer = x.ldr.transfer ∧
    (∀ rq, x.snapPending = some rq → ∃ r, (finish x).replies = x.replies ++ mkReply? rq.task r) ∧
    (∀ rs, x.snapPending = none → x.snapResult = some rs → ∃ r, (finish x).replies = x.replies ++ mkReply? rs.task r) ∧
    (x.snapPending = none → x.snapResult = none → finish x = x) := by
  unfold finish
  cases hp : x.snapPending with
  | some rq =>
    obtain ⟨r1, r2, r3⟩ := snapRun_fields x
    obtain ⟨r4, rs, r5, r6⟩ := r3 rq hp
    simp only [Option.isSome_some, if_true, r5]
    obtain ⟨t1, t2, t3, t4, t5, t6⟩ := onSnapshotTaken_fields x.snapRun rs r5
    rw [r1, r6] at t1
    refine ⟨by rw [t1]; exact List.prefix_append _ _, by rw [t3, r4], t2, by rw [t4, r2], by rw [t5, r2],
      by rw [t6, r2], ?_, ?_, ?_⟩
    · intro rq' hrq'
      injection hrq' with hrq'
      subst hrq'
      exact ⟨_, t1⟩
    · intro rs' hn; cases hn
    · intro hn; cases hn
  | none =>
    simp only [Option.isSome_none, Bool.false_eq_true, if_false]
    cases hr : x.snapResult with
    | some rs =>
      simp only [Option.isSome_some, if_true]
      obtain ⟨t1, t2, t3, t4, t5, t6⟩ := onSnapshotTaken_fields x rs hr
      refine ⟨by rw [t1]; exact List.prefix_append _ _, by rw [t3, hp], t2, t4, t5, t6, ?_, ?_, ?_⟩
      · intro rq hn; cases hn
      · intro rs' _ hrs'
        injection hrs' with hrs'
        subst hrs'
        exact ⟨_, t1⟩
      · intro _ hn; cases hn
    | none =>
      simp only [Option.isSome_none, Bool.false_eq_true, if_false]
      refine ⟨List.prefix_refl _, hp, hr, ?_, ?_, ?_, ?_, ?_, ?_⟩
      all_goals first
        | trivial
        | rfl
        | (intro rs _ hn; cases hn)
        | (intro rq hn; cases hn)
        | (intro _ _; rfl)

theorem transferReply_eq (x : Node) (r : String) :
    x.transferReply r = (x.addReplies (mkReply? x.ldr.transfer.task r)).withLdr { x.ldr with transfer := {} } := by
  unfold Node.transferReply; rw [reply_eq_addReplies]; rfl

theorem releaseErr_addReplies (x : Node) (rs : List Reply) : C07.releaseErr (x.addReplies rs) = C07.releaseErr x := by
  unfold C07.releaseErr Node.addReplies
  dsimp only [Node.isClosed]
  by_cases hc : (x.closed != "") = true
  · simp only [hc, ↓reduceIte]
  · simp only [hc]
    by_cases hl : x.leader = x.nid
    · simp only [hl, ↓reduceIte]; rfl
    · simp only [hl, ↓reduceIte]; rfl

theorem releaseErr_withLdr (x : Node) (l : Leader) : C07.releaseErr (x.withLdr l) = C07.releaseErr x := by
  unfold C07.releaseErr Node.withLdr
  dsimp only [Node.isClosed]
  by_cases hc : (x.closed != "") = true
  · simp only [hc, ↓reduceIte]
  · simp only [hc]
    by_cases hl : x.leader = x.nid
    · simp only [hl, ↓reduceIte]; rfl
    · simp only [hl, ↓reduceIte]; rfl

theorem leaderReleaseRest_snap (x : Node) :
    x.leaderReleaseRest.snapPending = x.snapPending ∧ x.leaderReleaseRest.snapResult = x.snapResult := by
  unfold Node.leaderReleaseRest
  extract_lets s1 err s2 s3
  have e2 : s2 = s1.addReplies (s1.ldr.queue.flatMap (fun q => mkReply? q.task err)) :=
    foldl_reply_eq (fun q : QItem => q.task) (fun _ => err) _ _
  have e3 : s3 = s2.addReplies (s2.ldr.waitStable.flatMap (fun t => mkReply? t err)) :=
    foldl_reply_eq (fun t : Nat => t) (fun _ => err) _ _
  have h1 : s1.snapPending = x.snapPending ∧ s1.snapResult = x.snapResult := by unfold s1; split <;> exact ⟨rfl, rfl⟩
  constructor
  · show s3.snapPending = _; rw [e3, e2]; exact h1.1
  · show s3.snapResult = _; rw [e3, e2]; exact h1.2

/-- everything `leader.release` answers, in order: the transfer in progress, every queued entry, every
waitForStableConfig task — each exactly once — and what it leaves behind -/
theorem leaderRelease_replies (x : Node) :
    x.leaderRelease.replies = x.replies ++
      (if x.ldr.transfer.active then mkReply? x.ldr.transfer.task x.releaseResult else []) ++
      x.ldr.queue.flatMap (fun q => mkReply? q.task (C07.releaseErr x)) ++
      x.ldr.waitStable.flatMap (fun t => mkReply? t (C07.releaseErr x)) ∧
    x.leaderRelease.ldr.queue = [] ∧ x.leaderRelease.ldr.waitStable = [] ∧ x.leaderRelease.ldr.transfer = {} ∧
    x.leaderRelease.snapPending = x.snapPending ∧ x.leaderRelease.snapResult = x.snapResult := by
  unfold Node.leaderRelease
  split
  · rename_i ha
    obtain ⟨l1, l2, l3, l4, _⟩ := C07.lost_leadership_replies (x.transferReply x.releaseResult)
    obtain ⟨p1, p2⟩ := leaderReleaseRest_snap (x.transferReply x.releaseResult)
    refine ⟨?_, l2, l3, l4, ?_, ?_⟩
    · rw [l1, transferReply_eq, releaseErr_withLdr, releaseErr_addReplies]; rfl
    · rw [p1, transferReply_eq]; rfl
    · rw [p2, transferReply_eq]; rfl
  · obtain ⟨l1, l2, l3, l4, _⟩ := C07.lost_leadership_replies x
    obtain ⟨p1, p2⟩ := leaderReleaseRest_snap x
    refine ⟨?_, l2, l3, l4, p1, p2⟩
    rw [l1]; simp

/-- after `doClose` everything pending is failed with ErrServerClosed -/
theorem releaseErr_closed (x : Node) (h : IsClosed x) : C07.releaseErr x = "plain:serverClosed" := by
  unfold C07.releaseErr
  rw [if_pos (by unfold IsClosed at h; simp [Node.isClosed, h])]

theorem releaseResult_closed (x : Node) (h : IsClosed x) :
    x.releaseResult = (if x.term > x.ldr.transfer.term then "ok" else "plain:serverClosed") := by
  unfold Node.releaseResult
  split
  · rfl
  · rw [if_pos (by unfold IsClosed at h; simp [Node.isClosed, h])]

/-- **shutdown_completes_pending (leader)**: after `Shutdown` of a leader every queued entry and every
waitForStableConfig task has been completed with ErrServerClosed, the transfer in progress with success iff
the term moved on (else ErrServerClosed), and nothing is left in the queue, the wait list or the transfer. -/
theorem shutdown_completes_pending_leader (s : Node) (hrole : s.role = .leader) :
    (∀ q ∈ s.ldr.queue, q.task ≠ 0 → ({ task := q.task, result := "plain:serverClosed" } : Reply) ∈ s.shutdown.replies) ∧
    (∀ t ∈ s.ldr.waitStable, t ≠ 0 → ({ task := t, result := "plain:serverClosed" } : Reply) ∈ s.shutdown.replies) ∧
    (s.ldr.transfer.active = true → s.ldr.transfer.task ≠ 0 →
      ({ task := s.ldr.transfer.task,
         result := if s.term > s.ldr.transfer.term then "ok" else "plain:serverClosed" } : Reply) ∈ s.shutdown.replies) ∧
    s.shutdown.ldr.queue = [] ∧ s.shutdown.ldr.waitStable = [] ∧ s.shutdown.ldr.transfer.active = false := by
  obtain ⟨d1, d2, d3, d4, d5, d6⟩ := doClose_fields s "serverClosed"
  have hcl : IsClosed (s.doClose "serverClosed") := doClose_closed s _ (by decide)
  have hx : (s.doClose "serverClosed").releaseRole (s.doClose "serverClosed").role = (s.doClose "serverClosed").leaderRelease := by
    rw [d3, hrole]; rfl
  obtain ⟨r1, r2, r3, r4, _, _⟩ := leaderRelease_replies (s.doClose "serverClosed")
  obtain ⟨f1, _, _, f4, f5, f6, _⟩ := finish_fields (s.doClose "serverClosed").leaderRelease
  rw [shutdown_eq, hx]
  rw [releaseErr_closed _ hcl, releaseResult_closed _ hcl, d1, d2, d6] at r1
  have hsub : ∀ r : Reply, r ∈ (s.doClose "serverClosed").leaderRelease.replies →
      r ∈ (finish (s.doClose "serverClosed").leaderRelease).replies := fun r hr => f1.subset hr
  refine ⟨?_, ?_, ?_, by rw [f4, r2], by rw [f5, r3], by rw [f6, r4]⟩
  · intro q hq h0
    apply hsub; rw [r1]
    apply List.mem_append_left; apply List.mem_append_right
    exact mem_flatMap_mkReply? (fun q : QItem => q.task) (fun _ => "plain:serverClosed") _ q hq h0
  · intro t ht h0
    apply hsub; rw [r1]
    apply List.mem_append_right
    exact mem_flatMap_mkReply? (fun t : Nat => t) (fun _ => "plain:serverClosed") _ t ht h0
  · intro ha h0
    apply hsub; rw [r1]
    apply List.mem_append_left; apply List.mem_append_left; apply List.mem_append_right
    rw [if_pos ha]; unfold mkReply?; rw [if_neg h0]
    exact List.mem_singleton.mpr rfl

/-- **exactly once** (leader, no snapshot in flight): the completions `Shutdown` records are exactly: the
transfer in progress, each queued entry, each waiting task — one each, in this order, nothing else. -/
theorem shutdown_replies_leader_exact (s : Node) (hrole : s.role = .leader)
    (hp : s.snapPending = none) (hr : s.snapResult = none) :
    s.shutdown.replies.map (·.task) = s.replies.map (·.task) ++
      (if s.ldr.transfer.active then [s.ldr.transfer.task].filter (· ≠ 0) else []) ++
      (s.ldr.queue.map (·.task)).filter (· ≠ 0) ++ s.ldr.waitStable.filter (· ≠ 0) := by
  obtain ⟨d1, d2, d3, d4, d5, d6⟩ := doClose_fields s "serverClosed"
  have hx : (s.doClose "serverClosed").releaseRole (s.doClose "serverClosed").role = (s.doClose "serverClosed").leaderRelease := by
    rw [d3, hrole]; rfl
  obtain ⟨r1, _, _, _, r5, r6⟩ := leaderRelease_replies (s.doClose "serverClosed")
  have hfin := (finish_fields (s.doClose "serverClosed").leaderRelease).2.2.2.2.2.2.2.2
    (by rw [r5, d4]; exact hp) (by rw [r6, d5]; exact hr)
  rw [shutdown_eq, hx, hfin, r1, d1, d2]
  simp only [List.map_append]
  rw [flatMap_mkReply?_tasks (fun q : QItem => q.task), flatMap_mkReply?_tasks (fun t : Nat => t)]
  congr 2
  · congr 1
    split
    · unfold mkReply?; split <;> simp_all
    · rfl
  · simp

/-- **shutdown_completes_pending (snapshot, any role)**: a snapshot that was requested, or whose result was
not yet delivered, is completed during `Shutdown` (`Raft.release` waits for it); afterwards no snapshot
request or result is pending. For a follower or candidate nothing else can be pending, and a node with
nothing in flight only closes. -/
theorem shutdown_completes_snapshot (s : Node) :
    (∀ rq, s.snapPending = some rq → rq.task ≠ 0 → ∃ r, ({ task := rq.task, result := r } : Reply) ∈ s.shutdown.replies) ∧
    (∀ rs, s.snapPending = none → s.snapResult = some rs → rs.task ≠ 0 →
      ∃ r, ({ task := rs.task, result := r } : Reply) ∈ s.shutdown.replies) ∧
    s.shutdown.snapPending = none ∧ s.shutdown.snapResult = none ∧
    (s.role ≠ .leader → s.snapPending = none → s.snapResult = none → s.shutdown.replies = s.replies) := by
  obtain ⟨d1, d2, d3, d4, d5, d6⟩ := doClose_fields s "serverClosed"
  -- the role release touches neither the snapshot bookkeeping nor (for non-leaders) the replies
  have hx : ∃ x, (s.doClose "serverClosed").releaseRole (s.doClose "serverClosed").role = x ∧
      x.snapPending = s.snapPending ∧ x.snapResult = s.snapResult ∧ (s.role ≠ .leader → x.replies = s.replies) := by
    refine ⟨_, rfl, ?_, ?_, ?_⟩
    all_goals
      rw [d3]
      cases hrole : s.role
    · exact d4
    · exact d4
    · show (s.doClose "serverClosed").leaderRelease.snapPending = _
      rw [(leaderRelease_replies _).2.2.2.2.1]; exact d4
    · exact d5
    · exact d5
    · show (s.doClose "serverClosed").leaderRelease.snapResult = _
      rw [(leaderRelease_replies _).2.2.2.2.2]; exact d5
    · intro _; exact d2
    · intro _; exact d2
    · intro h; exact absurd rfl h
  obtain ⟨x, hx, x1, x2, x3⟩ := hx
  rw [shutdown_eq, hx]
  obtain ⟨_, f2, f3, _, _, _, f7, f8, f9⟩ := finish_fields x
  refine ⟨?_, ?_, f2, f3, ?_⟩
  · intro rq hrq h0
    obtain ⟨r, hr⟩ := f7 rq (by rw [x1]; exact hrq)
    refine ⟨r, ?_⟩
    rw [hr]; apply List.mem_append_right; unfold mkReply?; rw [if_neg h0]; exact List.mem_singleton.mpr rfl
  · intro rs hn hrs h0
    obtain ⟨r, hr⟩ := f8 rs (by rw [x1]; exact hn) (by rw [x2]; exact hrs)
    refine ⟨r, ?_⟩
    rw [hr]; apply List.mem_append_right; unfold mkReply?; rw [if_neg h0]; exact List.mem_singleton.mpr rfl
  · intro hl hn hr
    rw [f9 (by rw [x1]; exact hn) (by rw [x2]; exact hr)]
    exact x3 hl

/-- non-vacuity: a leader with one queued entry (task 7), one waiting task (9) and a transfer in progress
(task 5) is shut down: all three are completed, in this order. -/
example :
    let s : Node := { role := .leader, nid := 1, leader := 1,
                      ldr := { queue := [{ task := 7, index := 3 }], waitStable := [9], transfer := { active := true, task := 5 } } }
    s.shutdown.replies.map (·.task) = [5, 7, 9] ∧ s.shutdown.closed = "serverClosed" := by
  decide

end C15
end Raft

#print axioms Raft.C15.panicked_is_sticky
#print axioms Raft.C15.assert_sticky
#print axioms Raft.C15.assert_true
#print axioms Raft.C15.setCommitIndexR_panicked
#print axioms Raft.C15.panicked_closed
#print axioms Raft.C15.panicked_is_sticky_leader
#print axioms Raft.C15.storeTermVote_panicked
#print axioms Raft.C15.setVotedFor_panicked
#print axioms Raft.C15.setTerm_panicked
#print axioms Raft.C15.vote_handler_never_panics
#print axioms Raft.C15.timeoutNow_never_panics
#print axioms Raft.C15.followerTimeout_never_panics
#print axioms Raft.C15.voteResult_never_panics
#print axioms Raft.C15.takeSnapshot_never_panics
#print axioms Raft.C15.waitForStable_never_panics
#print axioms Raft.C15.rejectEntries_never_panics
#print axioms Raft.C15.checkQuorum_never_panics
#print axioms Raft.C15.startElection_never_panics
#print axioms Raft.C15.tryTransfer_never_panics
#print axioms Raft.C15.task_replied_exactly_once_transfer_invalid
#print axioms Raft.C15.task_pending_transfer
#print axioms Raft.C15.task_replied_exactly_once_waitStable
#print axioms Raft.C15.task_pending_waitStable
#print axioms Raft.C15.task_replied_exactly_once_reject
#print axioms Raft.C15.task_replied_exactly_once_snapshot_busy
#print axioms Raft.C15.task_pending_snapshot
#print axioms Raft.C15.cl_congr
#print axioms Raft.C15.doClose_closed
#print axioms Raft.C15.doClose_keeps
#print axioms Raft.C15.closed_stepClosed
#print axioms Raft.C15.closed_is_sticky
#print axioms Raft.C15.shutdown_closes
#print axioms Raft.C15.shutdown_eq
#print axioms Raft.C15.doClose_fields
#print axioms Raft.C15.snapRun_fields
#print axioms Raft.C15.notifyFlr_fields
#print axioms Raft.C15.SameBut.rfl'
#print axioms Raft.C15.SameBut.notifyFlr
#print axioms Raft.C15.onSnapshotTaken_fields
#print axioms Raft.C15.finish_fields
#print axioms Raft.C15.transferReply_eq
#print axioms Raft.C15.releaseErr_addReplies
#print axioms Raft.C15.releaseErr_withLdr
#print axioms Raft.C15.leaderReleaseRest_snap
#print axioms Raft.C15.leaderRelease_replies
#print axioms Raft.C15.releaseErr_closed
#print axioms Raft.C15.releaseResult_closed
#print axioms Raft.C15.shutdown_completes_pending_leader
#print axioms Raft.C15.shutdown_replies_leader_exact
#print axioms Raft.C15.shutdown_completes_snapshot
#print axioms Raft.Repl.leader_update_fields
