/-
C03 (state-machine agreement) on the cluster-level transition system WITH membership changes (`Raft.Member`,
Sys/Member.lean; runs `C08Member.ReachableR root`: a good initial state, well-formed requests, closed nodes frozen — NO
condition on the states passed), on top of `C08Member` (commit-index safety across arbitrary chains of membership
changes) and the per-node state-machine invariant of `C03Sys` (Lemmas/MemberApply.lean: carried through `.changeConfig`
requests and configuration entries).

"partial" (inherited): no snapshots / compaction; every node of every run is bootstrapped from the start; every
configuration has two voters without pending action (`MemberGood.CfgAll`); the assumptions of `C08Member.ReachableR` on
what is delivered (`Member.Enabled`, `MemberSide.ReqG`).
-/
import RaftVerif.Lemmas.MemberApply
import RaftVerif.Lemmas.MemberApplyCfg
import RaftVerif.Props.AuditMember

namespace Raft
namespace C03Member
open Node LogRel CommitRel Commit Member MemberInv MemberSide NoPanic C03Sys MemberApply C08Member
open MemberStep (SM CM)
open MemberCommit (CfgLast config?_facts)
open MemberApplyCfg (ReachableT)

/-- two logs agree on every prefix that both commit indexes cover -/
theorem agree_takeM {x : Member.Sys} {G : Ghost} (hI : MInv x G) (hS : SideT x) {i j F : Nat}
    (hi : F ≤ (x.node i).commitIndex) (hj : F ≤ (x.node j).commitIndex) :
    (x.node i).log.entries.take F = (x.node j).log.entries.take F := by
  by_cases h0 : F = 0
  · rw [h0]; rfl
  · have hF : 1 ≤ F := by omega
    obtain ⟨hhi, m, hm, _, m2⟩ := C02Member.covered_committedM hI hF hi
    obtain ⟨hhj, m', hm', _, m2'⟩ := C02Member.covered_committedM hI hF hj
    have := C02Member.committed_uniqueM hI hS ⟨m, hm, m2⟩ ⟨m', hm', m2'⟩ rfl
    have ht : termAt (x.node i).log.entries F = termAt (x.node j).log.entries F := congrArg Prod.snd this
    rw [← ht] at hhj
    apply List.ext_getElem?
    intro n
    rw [List.getElem?_take, List.getElem?_take]
    split
    · rename_i hn
      have := path_agree (uniqM hI) (log_pathM hI i) (log_pathM hI j) hhi hhj (n + 1) (by omega) (by omega)
      rw [Nat.add_sub_cancel] at this
      exact this
    · rfl

/-- **C03, state-machine safety, cluster level, across arbitrary chains of membership changes (partial: no snapshots,
every node bootstrapped from the start, two action-free voters in every configuration, the delivery assumptions of
`C08Member.ReachableR`).** In every state `x` reachable in the cluster with membership changes (any schedule, any message
delay / loss / duplication / reordering, `.changeConfig` requests at any time, crashes at any storage point + restart):
1. on every node the state machine has been fed exactly the update commands of its log entries `1 … fsm.index`, in
   log-index order, without gaps, each once: `fsm.applied` is the list of the payloads of the UPDATE entries among them —
   configuration entries and no-ops are passed over (they move `fsm.index`, and `fsm.config`:
   `fsm_config_is_committed_member_partial`, but contribute nothing to `applied`) — and the state machine never ran
   ahead of the commit index;
2. every entry it has been fed is committed (an ancestor-or-equal, in the tree of created entries, of an entry a leader
   committed by the majority rule of the configuration that was latest in its log at that moment);
3. a node that applied no more than another holds the same entries up to its applied index, and its command sequence is
   a prefix of the other's;
4. hence the command sequences applied on any two nodes are prefixes of one common sequence. -/
theorem state_machine_safety_member_partial (root : MemberCore.K) (x : Member.Sys) (h : ReachableR root x) :
    (∀ i, (x.node i).fsm.index ≤ (x.node i).commitIndex ∧
      (x.node i).fsm.index ≤ (x.node i).log.entries.length ∧
      (x.node i).fsm.applied =
        (((x.node i).log.entries.take (x.node i).fsm.index).filter (·.typ == etUpdate)).map (·.data)) ∧
    (∀ i k, 1 ≤ k → k ≤ (x.node i).fsm.index → Committed x.cm (k, termAt (x.node i).log.entries k)) ∧
    (∀ i j, (x.node i).fsm.index ≤ (x.node j).fsm.index →
      (x.node i).log.entries.take (x.node i).fsm.index = (x.node j).log.entries.take (x.node i).fsm.index ∧
      (x.node i).fsm.applied <+: (x.node j).fsm.applied) ∧
    (∀ i j, (x.node i).fsm.applied <+: (x.node j).fsm.applied ∨
      (x.node j).fsm.applied <+: (x.node i).fsm.applied) := by
  obtain ⟨⟨G, hI, _⟩, hX⟩ := inv_reachable root x h
  have hF := fsmInvM_reachable root x h
  have P3 : ∀ i j, (x.node i).fsm.index ≤ (x.node j).fsm.index →
      (x.node i).log.entries.take (x.node i).fsm.index = (x.node j).log.entries.take (x.node i).fsm.index ∧
      (x.node i).fsm.applied <+: (x.node j).fsm.applied := by
    intro i j hle
    have fi := (hF i).fsm
    have fj := (hF j).fsm
    have e := agree_takeM hI hX.sideT (i := i) (j := j) (F := (x.node i).fsm.index) fi.le (Nat.le_trans hle fj.le)
    refine ⟨e, ?_⟩
    rw [fi.applied, fj.applied, e, take_split (x.node j).log.entries _ _ hle, ups_append]
    exact List.prefix_append _ _
  refine ⟨fun i => ⟨(hF i).fsm.le, (hF i).fsm.len, (hF i).fsm.applied⟩, fun i k hk hki => ?_, P3, fun i j => ?_⟩
  · obtain ⟨_, m, hm, _, m2⟩ := C02Member.covered_committedM hI hk (Nat.le_trans hki (hF i).fsm.le)
    exact ⟨m, hm, m2⟩
  · rcases Nat.le_total (x.node i).fsm.index (x.node j).fsm.index with hle | hle
    · exact Or.inl (P3 i j hle).2
    · exact Or.inr (P3 j i hle).2

/-- **the leader's queue** (same assumptions): every log-type item waiting in a leader's queue — the items
`leader.applyCommitted` hands to the state machine instead of reading the log; configuration items included — is the log
entry at its index. -/
theorem leader_queue_is_log_member_partial (root : MemberCore.K) (x : Member.Sys) (h : ReachableR root x) :
    ∀ i, (x.node i).role = .leader → ∀ q ∈ (x.node i).ldr.queue, isLogEntryTyp q.typ = true →
      (x.node i).log.get? q.index = some q.toEntry := by
  obtain ⟨⟨G, hI, _⟩, _⟩ := inv_reachable root x h
  intro i hl q hq ht
  have hget := (fsmInvM_reachable root x h i).queue hl q hq ht
  obtain ⟨hlt, hge⟩ := List.getElem?_eq_some_iff.mp hget
  have hidx : q.index = q.index - 1 + 1 := by
    have := (nwfM hI i).contig (q.index - 1) hlt
    rw [hge] at this
    exact this
  rw [(nwfM hI i).get?, if_pos (by omega)]
  exact hget

/-- **the state machine only moves forward, by appending — completed steps** (same assumptions): when an open node handles
a delivered operation (`Member.Enabled`, `ReqG`; append requests with configuration entries and `.changeConfig` requests
included) to completion, its applied index does not decrease and the new command sequence is the old one followed by the
update payloads of the entries between the old and the new applied index — no command is fed twice, none is skipped,
nothing already fed is taken back; and the log below the old applied index is untouched. -/
theorem applied_only_grows_member_partial (root : MemberCore.K) (x : Member.Sys) (h : ReachableR root x)
    (i : Nat) (op : Op) (ra : List Nat) (ord : List (List Nat)) (src : Nat) (he : Member.Enabled x i op src)
    (hg : ReqG x i op) (ho : (x.node i).closed = "") :
    (x.node i).fsm.index ≤ ((x.node i).step op ra ord).fsm.index ∧
    ((x.node i).step op ra ord).fsm.applied = (x.node i).fsm.applied ++
      ups ((((x.node i).step op ra ord).log.entries.drop (x.node i).fsm.index).take
        (((x.node i).step op ra ord).fsm.index - (x.node i).fsm.index)) ∧
    ((x.node i).step op ra ord).log.entries.take (x.node i).fsm.index =
      (x.node i).log.entries.take (x.node i).fsm.index := by
  obtain ⟨⟨G, hI, _⟩, hX⟩ := inv_reachable root x h
  have hF := fsmInvM_reachable root x h
  have hLC := C08Sys.leaderCache_reachable x (reachableP_of h)
  have hp := (C15NoPanic.good_step_two _ op ra ord (hX.good i) ho (reqok hI hX he hg)).1
  have sm : SM x G i op ra ord src := ⟨hI, sideM_of hI hX hLC, he, fun _ => hp⟩
  obtain ⟨f, _, _⟩ := fbp_step hI hX hF he ra ord hp
  have keep := (commit_index_safety_member_partial root x h).2.2.2 i op ra ord src he hg ho
  have htake : ((x.node i).step op ra ord).log.entries.take (x.node i).fsm.index =
      (x.node i).log.entries.take (x.node i).fsm.index := by
    apply List.ext_getElem?
    intro n
    rw [List.getElem?_take, List.getElem?_take]
    split
    · rename_i hn
      have := (keep (n + 1) (by omega) (by have := (hF i).fsm.le; omega)).1
      rw [sm.nwf_post.get?, (nwfM hI i).get?, if_pos (by omega), if_pos (by omega), Nat.add_sub_cancel] at this
      exact this
    · rfl
  refine ⟨f.mono, ?_, htake⟩
  rw [f.applied, take_split _ _ _ f.mono, ups_append, htake, ← (hF i).fsm.applied]

/-- **the state machine only moves forward — along every transition, crashes included** (same assumptions). In a
transition `x → y` of the cluster, for EVERY node `j`: either its command sequence in `y` extends the one in `x`
(`applied` only grows: the node completed a step — `applied_only_grows_member_partial` says by what — or did nothing), or
the node died and restarted in this transition: then a NEW state-machine lifetime begins, EMPTY (`fsm = {}`: nothing
applied, applied index 0 — there are no snapshots to restore from) and the commit index is 0. "Grows" across a restart
means: the restarted state machine re-applies from index 1, and since `y` and all later states are reachable, what it
re-applies is again a prefix of the one common sequence (`state_machine_safety_member_partial` 3/4) — in particular of
what every surviving node has applied, and of what the node itself had applied before the crash if some node still
witnesses it. -/
theorem applied_grows_or_restarts_member_partial (root : MemberCore.K) (x y : Member.Sys) (h : ReachableR root x)
    (ht : TransR x y) (j : Nat) :
    ((x.node j).fsm.applied <+: (y.node j).fsm.applied ∧ (x.node j).fsm.index ≤ (y.node j).fsm.index) ∨
    ((y.node j).fsm = {} ∧ (y.node j).commitIndex = 0 ∧ (y.node j).role = .follower) := by
  obtain ⟨⟨G, hI, _⟩, hX⟩ := inv_reachable root x h
  have hLC := C08Sys.leaderCache_reachable x (reachableP_of h)
  cases ht with
  | step i op ra ord src he hg ho =>
    have hp := (C15NoPanic.good_step_two _ op ra ord (hX.good i) ho (reqok hI hX he hg)).1
    have sm : SM x G i op ra ord src := ⟨hI, sideM_of hI hX hLC, he, fun _ => hp⟩
    left
    by_cases hj : j = i
    · subst hj
      show _ <+: (sm.y.node j).fsm.applied ∧ _ ≤ (sm.y.node j).fsm.index
      rw [sm.node_i]
      obtain ⟨a, b, _⟩ := applied_only_grows_member_partial root x h j op ra ord src he hg ho
      exact ⟨by rw [b]; exact List.prefix_append _ _, a⟩
    · show _ <+: (sm.y.node j).fsm.applied ∧ _ ≤ (sm.y.node j).fsm.index
      rw [sm.node_j hj]; exact ⟨List.prefix_refl _, Nat.le_refl _⟩
  | crash i op ra ord src k retain sor n he hg hopen hret hn =>
    have key : ∃ op' , ∃ cm : CM x G i op' ra ord src k retain sor n, crashM x i op n = crashM x i op' n := by
      rcases hopen with ho | hk
      · have hp := (C15NoPanic.good_step_two _ op ra ord (hX.good i) ho (reqok hI hX he hg)).1
        exact ⟨op, ⟨⟨hI, sideM_of hI hX hLC, he, fun _ => hp⟩, hn⟩, rfl⟩
      · subst hk
        obtain ⟨he', hp', heq⟩ := crash0_swap hI (sideM_of hI hX hLC) he hn
        exact ⟨.disconnected 0, ⟨⟨hI, sideM_of hI hX hLC, he', fun _ => hp'⟩, hn⟩, heq⟩
    obtain ⟨op', cm, heq⟩ := key
    rw [heq]
    by_cases hj : j = i
    · subst hj
      right
      show (cm.y.node j).fsm = {} ∧ (cm.y.node j).commitIndex = 0 ∧ (cm.y.node j).role = .follower
      rw [cm.node_i]
      obtain ⟨_, _, _, hr, hc, hf, _⟩ := cm.facts
      exact ⟨hf, hc, hr⟩
    · left
      show _ <+: (cm.y.node j).fsm.applied ∧ _ ≤ (cm.y.node j).fsm.index
      rw [cm.node_j hj]; exact ⟨List.prefix_refl _, Nat.le_refl _⟩
  | send i q hi hl hr hc => exact Or.inl ⟨List.prefix_refl _, Nat.le_refl _⟩

/-! ### the configuration of the state machine -/

/-- the term the log holds at the index of one of its entries is that entry's term -/
theorem termAt_of_mem {es : List Entry} (hc : ∀ k (h : k < es.length), es[k].index = k + 1) {e : Entry} (he : e ∈ es) :
    termAt es e.index = e.term := by
  obtain ⟨k, hk, rfl⟩ := List.getElem_of_mem he
  unfold termAt
  rw [hc k hk, if_neg (by omega), Nat.add_sub_cancel, List.getElem?_eq_getElem hk]
  rfl

/-- **C03 / C12 (also C11 flavour): the configuration the state machine holds is the newest configuration entry at or
below its applied index — hence a COMMITTED configuration (partial: the restrictions of the file header, and initially
`snapTerm = 0` on every node: `MemberApplyCfg.ReachableT`).** In every reachable state, on every node `i`: either the
state machine holds no configuration (`fsm.config.index = 0`) and no entry among `1 … fsm.index` is a configuration
entry (in particular when nothing has been applied) — or
1. `fsm.config` is the LAST CONFIGURATION ENTRY of the applied prefix `1 … fsm.index` of the node's log
   (`MemberCommit.CfgLast`: it decodes from an entry of the prefix, and every configuration entry of the prefix has an
   index `≤ fsm.config.index`): configuration entries are "applied" in log order like updates;
2. `fsm.config.index ≤ fsm.index ≤ commitIndex`;
3. the entry `(fsm.config.index, fsm.config.term)` is COMMITTED in the cluster (`Commit.Committed`: an ancestor-or-equal of
   an entry a leader committed by the majority rule) — by `C08Member.leader_completeness_member_partial` /
   `committed_never_replaced_member_partial` every later leader holds it and it is never replaced;
4. it is a `CfgAll` configuration (ids strictly increasing, two voters without pending action).
(`configs.latest`, which the node uses for quorums and candidacy, may be newer and uncommitted: `C08Member`.) -/
theorem fsm_config_is_committed_member_partial (root : MemberCore.K) (x : Member.Sys) (h : ReachableT root x) (i : Nat) :
    ((x.node i).fsm.config.index = 0 ∧
      ∀ e ∈ (x.node i).log.entries.take (x.node i).fsm.index, e.typ ≠ etConfig) ∨
    (0 < (x.node i).fsm.config.index ∧
      CfgLast ((x.node i).log.entries.take (x.node i).fsm.index) (x.node i).fsm.config ∧
      (x.node i).fsm.config.index ≤ (x.node i).fsm.index ∧ (x.node i).fsm.index ≤ (x.node i).commitIndex ∧
      Committed x.cm ((x.node i).fsm.config.index, (x.node i).fsm.config.term) ∧
      MemberGood.CfgAll (x.node i).fsm.config) := by
  have hr := h.toR
  obtain ⟨⟨G, hI, _⟩, hX⟩ := inv_reachable root x hr
  have hT := MemberApplyCfg.tinv_reachableT root x h i
  have hent := log_entOK hI hX.tree i
  have hsafe := state_machine_safety_member_partial root x hr
  rcases MemberApplyCfg.cfgLast_of_tracks _ hT (nwfM hI i)
    (fun e he ht => by obtain ⟨c, hc, _⟩ := MemberGood.entOK_dec (hent e he) ht; exact ⟨c, hc⟩) with h0 | ⟨hpos, hcl⟩
  · exact Or.inl h0
  · right
    obtain ⟨⟨e, he, hec⟩, _⟩ := (show CfgLast _ _ from hcl)
    obtain ⟨_, hci, hct⟩ := config?_facts hec
    have hmem : e ∈ (x.node i).log.entries := List.mem_of_mem_take he
    have hle : e.index ≤ (x.node i).fsm.index := by
      have hidx : ∀ k (hk : k < ((x.node i).log.entries.take (x.node i).fsm.index).length),
          ((x.node i).log.entries.take (x.node i).fsm.index)[k].index = k + 1 := by
        intro k hk
        rw [List.getElem_take]
        exact (nwfM hI i).contig k (by rw [List.length_take] at hk; omega)
      have := (MemberCommit.contig_index_le hidx e he).2
      rw [List.length_take] at this
      omega
    have h1 : 1 ≤ e.index := (MemberCommit.contig_index_le (nwfM hI i).contig e hmem).1
    refine ⟨hpos, hcl, by rw [hci]; exact hle, (hsafe.1 i).1, ?_, MemberGood.entOK_config (hent e hmem) hec⟩
    have := hsafe.2.1 i e.index h1 hle
    rw [termAt_of_mem (nwfM hI i).contig hmem] at this
    rw [hci, hct]; exact this

/-! ### C11 on the system: a leader whose own demotion / removal is committed does not lead -/

/-- **C11, cluster level, across membership changes — a leader that demotes or removes itself stops leading once that
change commits (partial: the restrictions of the file header; STATE form).** In every reachable state, a node that is
open and LEADER and whose latest configuration is committed (`configs.isCommitted`: `configs.committed` is
`configs.latest` — `Raft.setCommitIndex` runs `commitConfig` in the very call in which the commit index reaches the entry
of an uncommitted latest configuration, `C11.leader_steps_down_when_self_demotion_commits`) is a VOTER of it. So a node
whose demotion or removal is committed is not an open leader: it is follower (`stepDownIfNotVoter`), or it closed itself
(`ShutdownOnRemove`). Until then it keeps leading (but `leader.storeEntry` refuses new entries as soon as its own entry
of the latest configuration is not a voter: "inProgress:demoteLeader" / "removeLeader"). -/
theorem leader_is_voter_of_committed_member_partial (root : MemberCore.K) (x : Member.Sys) (h : ReachableR root x)
    (i : Nat) (ho : (x.node i).closed = "") (hl : (x.node i).role = .leader)
    (hc : (x.node i).configs.isCommitted = true) : (x.node i).configs.latest.isVoter i = true := by
  obtain ⟨⟨G, hI, _⟩, hX⟩ := inv_reachable root x h
  have := ((hX.good i).leader ho hl).1.lv hl hc
  rw [(hI.rp.el.ids i).1] at this
  exact this

/-- **C11 on the system, STEP form (partial).** When an open node handles a delivered operation (`Member.Enabled`, `ReqG`)
to completion — in particular a LEADER handling the match-index reports that move its commit index past a configuration
entry in which it is no longer a voter, or a report / request after which that configuration counts as committed — and
afterwards its latest configuration is committed and the node is not a voter of it (demoted or removed), then the node
is NOT LEADER afterwards, or it has closed itself; and if it is removed from that configuration altogether and still
open, it is not leader either way.
NOT proved here (see the report): that `configs.isCommitted` holds as soon as `configs.latest.index ≤ commitIndex`, as a
state invariant of the system (it is what `Raft.setCommitIndex` establishes at every call — node level:
`C11.leader_steps_down_when_self_demotion_commits`, `C11.removed_node_closes_only_after_commit`), and the cluster-level
form of "closed with `nodeRemoved` only after the removal is committed". -/
theorem self_demoted_leader_stops_partial (root : MemberCore.K) (x : Member.Sys) (h : ReachableR root x)
    (i : Nat) (op : Op) (ra : List Nat) (ord : List (List Nat)) (src : Nat) (he : Member.Enabled x i op src)
    (hg : ReqG x i op) (ho : (x.node i).closed = "")
    (hc : ((x.node i).step op ra ord).configs.isCommitted = true)
    (hnv : ((x.node i).step op ra ord).configs.latest.isVoter i = false) :
    ((x.node i).step op ra ord).role ≠ .leader ∨ ((x.node i).step op ra ord).closed ≠ "" := by
  have hy : ReachableR root (stepM x i op ra ord src) := .next x _ h (.step i op ra ord src he hg ho)
  have hnode : (stepM x i op ra ord src).node i = (x.node i).step op ra ord := by
    show Election.setNode x.cm.rp.el.node i _ i = _
    rw [Election.setNode_same]
  by_cases hcl : ((x.node i).step op ra ord).closed = ""
  · left
    intro hl
    have := leader_is_voter_of_committed_member_partial root _ hy i (by rw [hnode]; exact hcl) (by rw [hnode]; exact hl)
      (by rw [hnode]; exact hc)
    rw [hnode, hnv] at this
    cases this
  · exact Or.inr hcl

/-! ### Examples (non-vacuity) -/

open AuditMember in
/-- EXAMPLE: the hypothesis of the theorems holds of the state `m21` of the proved run of Props/AuditMember.lean
(election, no-op, configuration (3,2) adding node 4, its promotion (4,2), crash + restart of node 4, commit with four
voters). Props/C03MemberRun.lean re-proves that run for `ReachableT`, CONTINUES it (a client update is committed and
applied; the leader demotes itself and steps down when that configuration commits) and instantiates every theorem of
this file on it. -/
example : ReachableR (1, 1) m21 := q21.1

/-- EXAMPLE: the initial state `ex0` (every node bootstrapped with the entry (1,1), `snapTerm = 0`) starts a run of
`ReachableT` -/
example : ReachableT (1, 1) C08Member.ex0 := .init _ ex0_initR (fun _ => rfl)

end C03Member
end Raft

#print axioms Raft.MemberApply.fsmInvM_reachable
#print axioms Raft.C03Member.state_machine_safety_member_partial
#print axioms Raft.C03Member.leader_queue_is_log_member_partial
#print axioms Raft.C03Member.applied_only_grows_member_partial
#print axioms Raft.C03Member.applied_grows_or_restarts_member_partial
#print axioms Raft.MemberApplyCfg.tinv_reachableT -- also C12
#print axioms Raft.C03Member.fsm_config_is_committed_member_partial -- also C11 C12
#print axioms Raft.C03Member.leader_is_voter_of_committed_member_partial -- also C11
#print axioms Raft.C03Member.self_demoted_leader_stops_partial -- also C11
