/-
C16 — Leadership transfer is safe and means what it reports (node-local decision logic).
"never two leaders in one term" is C01 (vote requests with the transfer flag are part of that model).
-/
import RaftVerif.Lemmas.StepInv

namespace Raft
namespace C16
open Node

/-- **the successor is eligible**: `tryTransfer` picks `t` only if `t` is a voter of the latest
configuration other than the leader itself, reachable, and its match index equals the leader's last log
index (it holds every entry the leader accepted). -/
theorem transfer_target_eligible (s : Node) (t : Nat) (ht : s.tryTransferTarget.1 = t) (h0 : t ≠ 0)
    (hself : s.findRepl? s.nid = none) :
    s.configs.latest.isVoter t = true ∧ t ≠ s.nid ∧
    ∃ r, s.findRepl? t = some r ∧ r.noContact = false ∧ r.matchIndex = s.lastLogIndex := by
  unfold Node.tryTransferTarget at ht
  dsimp only at ht
  split at ht
  · rename_i htar
    split at ht
    · rename_i hv
      split at ht
      · rename_i r hr
        dsimp only at ht
        split at ht
        · rename_i hc
          subst ht
          refine ⟨hv, ?_, r, hr, by simpa using hc.1, hc.2⟩
          intro he; rw [he] at hr; rw [hself] at hr; cases hr
        · exact absurd ht.symm h0
      · exact absurd ht.symm h0
    · exact absurd ht.symm h0
  · dsimp only at ht
    cases hf : (List.filter (fun id => id != s.nid && s.configs.latest.isVoter id) s.replOrder).find? s.transferReady with
    | none => rw [hf] at ht; exact absurd ht.symm h0
    | some x =>
      rw [hf] at ht
      simp only [Option.getD_some] at ht
      subst ht
      have hm := List.mem_of_find?_eq_some hf
      have hp := List.find?_some hf
      simp only [List.mem_filter, Bool.and_eq_true, bne_iff_ne, ne_eq] at hm
      unfold Node.transferReady at hp
      split at hp
      · rename_i r hr
        simp only [Bool.and_eq_true, Bool.not_eq_eq_eq_not, Bool.not_true, beq_iff_eq] at hp
        exact ⟨hm.2.2, hm.2.1, r, hr, hp.1, hp.2⟩
      · cases hp

/-- while a transfer is in progress the leader appends nothing: every submitted entry is answered
`InProgressError("transferLeadership")`. -/
theorem store_rejected_during_transfer (fuel : Nat) (s : Node) (batch : List QItem)
    (h : s.ldr.transfer.active = true) (hf : fuel ≥ batch.length) :
    (storeItems fuel s batch).log = s.log ∧ (storeItems fuel s batch).lastLogIndex = s.lastLogIndex ∧
    (storeItems fuel s batch).ldr = s.ldr ∧ (storeItems fuel s batch).configs = s.configs := by
  induction batch generalizing s fuel with
  | nil => unfold storeItems; exact ⟨rfl, rfl, rfl, rfl⟩
  | cons q qs ih =>
    cases fuel with
    | zero => simp at hf
    | succ n =>
      unfold storeItems
      dsimp only
      rw [if_pos h]
      have hr : ∀ (x : Node) a b, (x.reply a b).log = x.log ∧ (x.reply a b).lastLogIndex = x.lastLogIndex ∧
          (x.reply a b).ldr = x.ldr ∧ (x.reply a b).configs = x.configs := by
        intro x a b; unfold Node.reply; split <;> exact ⟨rfl, rfl, rfl, rfl⟩
      obtain ⟨r1, r2, r3, r4⟩ := hr s q.task "inProgress:transferLeadership"
      obtain ⟨i1, i2, i3, i4⟩ := ih n (s.reply q.task "inProgress:transferLeadership") (by rw [r3]; exact h)
        (by simp at hf; omega)
      exact ⟨by rw [i1, r1], by rw [i2, r2], by rw [i3, r3], by rw [i4, r4]⟩

/-- no membership change is started while a transfer is in progress -/
theorem no_config_change_during_transfer (s : Node) (h : s.ldr.transfer.active = true) :
    s.canChangeConfig = false := by
  unfold Node.canChangeConfig; simp [h]

/-- `validateTransfer`: each invalid request gets the documented error and has no effect -/
theorem validate_transfer_classes (s : Node) (target : Nat) :
    (s.ldr.transfer.active = true → s.validateTransfer target = "inProgress:transferLeadership") ∧
    (s.ldr.transfer.active = false → s.configs.latest.numVoters = 1 → s.validateTransfer target = "plain:transferNoVoter") ∧
    (s.ldr.transfer.active = false → s.configs.latest.numVoters ≠ 1 → target ≠ 0 → target = s.nid →
        s.validateTransfer target = "plain:transferSelf") ∧
    (s.ldr.transfer.active = false → s.configs.latest.numVoters ≠ 1 → target ≠ 0 → target ≠ s.nid →
        s.configs.latest.find? target = none → s.validateTransfer target = "plain:transferInvalidTarget") ∧
    (s.validateTransfer target = "" → s.ldr.transfer.active = false ∧ s.configs.latest.numVoters ≠ 1 ∧
        (target = 0 ∨ (target ≠ s.nid ∧ s.configs.latest.isVoter target = true))) := by
  unfold Node.validateTransfer
  refine ⟨?_, ?_, ?_, ?_, ?_⟩
  · intro h; simp [h]
  · intro h1 h2; simp [h1, h2]
  · intro h1 h2 h3 h4; subst h4; simp [h1, h2, h3]
  · intro h1 h2 h3 h4 h5; simp [h1, h2, h3, h4, h5]
  · intro h
    split at h
    · simp at h
    · split at h
      · simp at h
      · rename_i ha hn
        refine ⟨by simpa using ha, hn, ?_⟩
        split at h
        · rename_i h0
          split at h
          · simp at h
          · rename_i hs
            right
            refine ⟨hs, ?_⟩
            unfold Config.isVoter
            split at h
            · rename_i n hfn
              rw [hfn]
              split at h
              · simp at h
              · rename_i hv; simpa using hv
            · simp at h
        · rename_i h0; left; simpa using h0

theorem onTransfer_invalid_no_effect (s : Node) (task target : Nat) (h : s.validateTransfer target ≠ "") :
    s.onTransfer task target = s.reply task (s.validateTransfer target) := by
  unfold Node.onTransfer
  dsimp only
  rw [if_pos h]

/-- **success means a higher term**: when a leader with a transfer in progress releases its role, the
transfer task is answered `nil` (success) exactly when the node's term is above the term in which the
transfer started; otherwise it is an error (server closed / quorum unreachable). -/
theorem transfer_success_means_higher_term (s : Node) :
    s.releaseResult = "ok" ↔ s.term > s.ldr.transfer.term := by
  unfold Node.releaseResult
  constructor
  · intro hr
    split at hr
    · assumption
    · split at hr <;> simp at hr
  · intro hgt; rw [if_pos hgt]

/-- the reply chosen by `leaderRelease` for a transfer in progress is the one characterised above -/
theorem leaderRelease_transfer_reply (s : Node) (ht : s.ldr.transfer.task ≠ 0) :
    (s.transferReply (s.releaseResult)).replies
      = s.replies ++ [{ task := s.ldr.transfer.task, result := s.releaseResult }] := by
  unfold Node.transferReply Node.reply Node.withLdr
  simp [ht]

/-- …and that is what `leaderRelease` does first when a transfer is in progress -/
theorem leaderRelease_uses_releaseResult (s : Node) (h : s.ldr.transfer.active = true) :
    s.leaderRelease = (s.transferReply s.releaseResult).leaderReleaseRest := by
  unfold Node.leaderRelease
  rw [if_pos h]

/-- after a transfer timed out the postponed configuration actions are re-evaluated -/
theorem timeout_reenables_actions (s : Node) (r : String) :
    s.replyTransfer r = checkConfigActions (fuelFor 0) (s.transferReply r) 0 (s.transferReply r).configs.latest := rfl

/-- a reply to the transfer task clears the transfer: afterwards entries and actions are accepted again -/
theorem transferReply_clears (s : Node) (r : String) : (s.transferReply r).ldr.transfer.active = false := by
  unfold Node.transferReply Node.withLdr; rfl

end C16
end Raft

#print axioms Raft.C16.transfer_target_eligible
#print axioms Raft.C16.store_rejected_during_transfer
#print axioms Raft.C16.no_config_change_during_transfer
#print axioms Raft.C16.validate_transfer_classes
#print axioms Raft.C16.onTransfer_invalid_no_effect
#print axioms Raft.C16.transfer_success_means_higher_term
#print axioms Raft.C16.leaderRelease_transfer_reply
#print axioms Raft.C16.leaderRelease_uses_releaseResult
#print axioms Raft.C16.timeout_reenables_actions
#print axioms Raft.C16.transferReply_clears
