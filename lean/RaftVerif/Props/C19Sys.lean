/-
C19 / C15 / C06 / C12 on the cluster-level transition system — **the per-node invariants hold in every reachable
state of the cluster**, so that inside the system the hypotheses "the operation is acceptable" (`Order.ReqOk`,
`NoPanic.ReqOk'`) and "the step completes without a failed assertion" of the per-node theorems disappear.

The system (definitions in Lemmas/SysInv.lean): `Raft.Commit` of Sys/Commit.lean — any node handles any enabled
operation with any content and oracle (`Node.step`), dies at any storage point of such a step and restarts from
disk, a leader puts on the wire a request read from its log; `_partial` restrictions: fixed voter set `V`, fixed
stable configuration (`SideV`), no snapshots / compaction, no configuration change (`OpOK2`) — with

* two more environment assumptions on a delivered operation (`SysInv.EnabledG`):
  - a `newTerm` report of a replication delivered to a leader carries a term not below the leader's;
  - a transport error reported for the `timeoutNow` request of a transfer names a node the leader replicates to;
* closed nodes are frozen (`SysInv.TransG`): only an OPEN node (`closed = ""`) handles operations — the state loop
  of a node that closed itself (removed from the cluster; `Shutdown` is excluded by `OpOK`) has returned; its
  process may still be restarted from its disk (a crash with `k = 0`);
* one more side condition on every state of a run (`SysInv.SideG`): every node retains at least one snapshot
  (`SnapshotsRetain ≥ 1`, an option validated by `New`);
* an initial state (`Commit.Init`) that satisfies `SysInv.GInv`: every node is `NoPanic.Good true`; both
  configurations of every node have an index ≤ 1; every configuration entry of the initial tree is the bootstrap
  entry — index 1, decodable, two voters without pending action — and the tree has one root. (Example: all nodes
  bootstrapped with the same configuration entry (1,1) of at least two voters, `ex0_ginv`.)

PROVED (`ReachableG V x` = reachable under these assumptions):
* `good_in_sys_partial`: every node of every reachable state is `NoPanic.Good true` — hence `Order.Ordered`,
  `C06Cache.LeaderCacheOpen`, `panicked = none`;
* `reqok_in_sys_partial`: every enabled operation is acceptable at its receiver (`NoPanic.ReqOk' true`, hence
  `Order.ReqOk` — the side condition `hcfg` of `C02Sys.reqok_in_sys_partial` is discharged), is handled WITHOUT
  failure (no `assert`, nil dereference, `bug{}`, `unreachable()`, exhausted budget), and leaves a good state;
* `reachable_np_of_good`: every such run is a run without failed assertions (`C03Sys.ReachableNP`); hence
  `state_machine_safety_sys_partial` (C03 on the cluster WITHOUT the no-failure hypothesis; "partial": the
  restrictions above), `applied_only_grows_sys_partial`;
* `ordered_in_sys_partial`, `leader_cache_in_sys_partial`, `tracks_in_sys_partial` (C12Track, along runs), and
  `tasks_step_in_sys_partial` / `tasks_in_sys_partial` (C15Tasks: one step / along runs, for fresh task ids);
* in Lemmas/SysInv.lean: `crashDisk_segsOK` — the segment list is well formed at EVERY crash point of a step that
  does not fail (what `C15NoPanic.restart_good` needs of the disk; so crashes INSIDE a step are covered).
-/
import RaftVerif.Lemmas.SysInv

namespace Raft
namespace C19Sys
open Node LogRel CommitRel Commit C02Sys NoPanic SysInv
open Election (setNode setNode_same setNode_other)

/-! ### the theorems -/

/-- **Every node is good in every reachable state (partial: the restrictions and assumptions of the file
header).** Let `V` be a duplicate-free list of node ids and `x` a state reachable in the cluster system
(`SysInv.ReachableG`: `Commit.Trans` with the assumptions `EnabledG` on delivered operations, closed nodes frozen;
`SideV V` and `SideG` in every state; a good initial state). Then every node `i` satisfies the no-failure
invariant `NoPanic.Good true` (C15NoPanic) — in particular nothing has failed (`panicked = none`), the state is
ordered (`Order.Ordered`, C19: `log.prev ≤ snapIndex ≤ applied ≤ commitIndex ≤ lastLogIndex = log.last`,
`committed.index ≤ latest.index ≤ lastLogIndex`, …) and the leader's caches are current
(`C06Cache.LeaderCacheOpen`) — and both its configurations are the bootstrap configuration or none (index ≤ 1). -/
theorem good_in_sys_partial (V : List Nat) (hV : V.Nodup) (x : Commit.Sys) (h : ReachableG V x) (i : Nat) :
    Good true (x.node i) ∧ (x.node i).panicked = none ∧ Order.Ordered (x.node i) ∧
    C06Cache.LeaderCacheOpen (x.node i) ∧ CfgLe1 (x.node i).configs := by
  have hG := ginv_reachable hV h
  exact ⟨hG.good i, (hG.good i).noPanic, (hG.good i).ordered, (hG.good i).leaderCacheOpen, hG.cfg i⟩

/-- **Every enabled operation is acceptable at its receiver and is handled without failure (partial; same
assumptions)** — `C02Sys.reqok_in_sys_partial` without its side condition, and more: in a reachable state `x`, for
every operation `op` that may be delivered to the open node `i` (`Commit.Enabled`, `EnabledG`), every oracle and
input:
1. `NoPanic.ReqOk' true (x.node i) op` — hence `Order.ReqOk (x.node i) op`: an append request that is not stale
   carries contiguous indexes, conflicts with the receiver's log only above its commit index and above the index
   of its committed configuration, and its configuration entries decode; match-index reports lie within the
   leader's log; …
2. the step does not fail: `panicked = none` — no `assert`, nil dereference, `bug{}`, `unreachable()`, log-view
   failure, and the model's recursion budget suffices;
3. the state after the step is good again. -/
theorem reqok_in_sys_partial (V : List Nat) (hV : V.Nodup) (x : Commit.Sys) (h : ReachableG V x)
    (i : Nat) (op : Op) (src : Nat) (he : Commit.Enabled x i op src) (heG : EnabledG x i op)
    (ho : (x.node i).closed = "") (ra : List Nat) (ord : List (List Nat)) :
    ReqOk' true (x.node i) op ∧ Order.ReqOk (x.node i) op ∧
    ((x.node i).step op ra ord).panicked = none ∧ Good true ((x.node i).step op ra ord) := by
  have hG := ginv_reachable hV h
  have hr := reqok' hV (reachableG_V h) hG he heG
  obtain ⟨hp, hg⟩ := C15NoPanic.good_step_two _ op ra ord (hG.good i) ho hr
  exact ⟨hr, hr.toReqOk, hp, hg⟩

/-- **Every run of the system is a run without failed assertions**: `ReachableG` implies `C03Sys.ReachableNP`. -/
theorem reachable_np_of_good (V : List Nat) (hV : V.Nodup) (x : Commit.Sys) (h : ReachableG V x) :
    C03Sys.ReachableNP V x := by
  induction h with
  | init x hi hs _ _ => exact .init x hi hs
  | next x y hx ht hs hsg ih =>
    have hy : ReachableG V y := .next x y hx ht hs hsg
    exact .next x y ih (transG_trans ht) hs (fun i => ((ginv_reachable hV hy).good i).noPanic)

/-- **C03, state-machine safety on the cluster, WITHOUT the hypothesis that no step fails an assertion (partial:
the restrictions and assumptions of the file header).** In every reachable state:
1. on every node the state machine has been fed exactly the update commands of its log entries `1 … fsm.index`,
   in order, each once, and never ran ahead of the commit index;
2. every entry it has been fed is committed;
3. a node that applied no more than another holds the same entries up to its applied index, and its command
   sequence is a prefix of the other's;
4. the command sequences applied on any two nodes are prefixes of one common sequence. -/
theorem state_machine_safety_sys_partial (V : List Nat) (hV : V.Nodup) (x : Commit.Sys) (h : ReachableG V x) :
    (∀ i, (x.node i).fsm.index ≤ (x.node i).commitIndex ∧
      (x.node i).fsm.index ≤ (x.node i).log.entries.length ∧
      (x.node i).fsm.applied =
        (((x.node i).log.entries.take (x.node i).fsm.index).filter (·.typ == etUpdate)).map (·.data)) ∧
    (∀ i k, 1 ≤ k → k ≤ (x.node i).fsm.index → Committed x (k, termAt (x.node i).log.entries k)) ∧
    (∀ i j, (x.node i).fsm.index ≤ (x.node j).fsm.index →
      (x.node i).log.entries.take (x.node i).fsm.index = (x.node j).log.entries.take (x.node i).fsm.index ∧
      (x.node i).fsm.applied <+: (x.node j).fsm.applied) ∧
    (∀ i j, (x.node i).fsm.applied <+: (x.node j).fsm.applied ∨
      (x.node j).fsm.applied <+: (x.node i).fsm.applied) :=
  C03Sys.state_machine_safety_sys_partial V hV x (reachable_np_of_good V hV x h)

/-- **the state machine only moves forward, by appending** — `C03Sys.applied_only_grows_sys_partial` without the
hypothesis that the step does not fail (same assumptions) -/
theorem applied_only_grows_sys_partial (V : List Nat) (hV : V.Nodup) (x : Commit.Sys) (h : ReachableG V x)
    (i : Nat) (op : Op) (ra : List Nat) (ord : List (List Nat)) (src : Nat) (he : Commit.Enabled x i op src)
    (heG : EnabledG x i op) (ho : (x.node i).closed = "") :
    (x.node i).fsm.index ≤ ((x.node i).step op ra ord).fsm.index ∧
    ((x.node i).step op ra ord).fsm.applied = (x.node i).fsm.applied ++
      C03Sys.ups ((((x.node i).step op ra ord).log.entries.drop (x.node i).fsm.index).take
        (((x.node i).step op ra ord).fsm.index - (x.node i).fsm.index)) :=
  C03Sys.applied_only_grows_sys_partial V hV x (reachable_np_of_good V hV x h) i op ra ord src he
    (reqok_in_sys_partial V hV x h i op src he heG ho ra ord).2.2.1

/-- **C19 orderings in the cluster (partial; same assumptions)**: in every reachable state every node reports
`fsm.index ≤ commitIndex ≤ lastLogIndex = log.last`, `log.prev ≤ snapIndex ≤ commitIndex`,
`configs.committed.index ≤ configs.latest.index ≤ lastLogIndex`. -/
theorem ordered_in_sys_partial (V : List Nat) (hV : V.Nodup) (x : Commit.Sys) (h : ReachableG V x) (i : Nat) :
    (x.node i).fsm.index ≤ (x.node i).commitIndex ∧ (x.node i).commitIndex ≤ (x.node i).lastLogIndex ∧
    (x.node i).lastLogIndex = (x.node i).log.last ∧ (x.node i).log.prev ≤ (x.node i).snapIndex ∧
    (x.node i).snapIndex ≤ (x.node i).commitIndex ∧ (x.node i).snapIndex ≤ (x.node i).lastLogIndex ∧
    (x.node i).configs.committed.index ≤ (x.node i).configs.latest.index ∧
    (x.node i).configs.latest.index ≤ (x.node i).lastLogIndex :=
  C19Order.ordered_chain _ (good_in_sys_partial V hV x h i).2.2.1

/-- **C06 leader caches in the cluster (partial; same assumptions)**: every open leader's cached own entry, voter
count and replication table agree with its latest configuration. -/
theorem leader_cache_in_sys_partial (V : List Nat) (hV : V.Nodup) (x : Commit.Sys) (h : ReachableG V x) (i : Nat)
    (ho : (x.node i).closed = "") (hl : (x.node i).role = .leader) : C06Cache.CacheOK (x.node i) :=
  (good_in_sys_partial V hV x h i).2.2.2.1 ho hl

/-! ### C12Track: the FSM's cache tracks the applied prefix on every node -/

theorem tracks_trans {V : List Nat} (hV : V.Nodup) {x y : Commit.Sys} (hx : ReachableG V x)
    (hT : ∀ i, C12Track.Tracks (x.node i)) (ht : TransG x y) (hsg : SideG y) :
    ∀ i, C12Track.Tracks (y.node i) := by
  have hG := ginv_reachable hV hx
  obtain ⟨hI, hS⟩ := inv_reachable hV (reachableG_V hx)
  cases ht with
  | step i op ra ord src he heG ho =>
    have sc : SC V x i op ra ord src := ⟨hV, hI, hS, he⟩
    obtain ⟨_, hro, hp, _⟩ := reqok_in_sys_partial V hV x hx i op src he heG ho ra ord
    intro j
    by_cases hj : j = i
    · subst hj
      rw [sc.node_i]
      exact C12Track.tracks_step _ op ra ord (hT j) (hG.good j).ordered hro hp
    · rw [sc.node_j hj]; exact hT j
  | crash i op ra ord src k retain sor n he heG _ hn =>
    have cc : CC V x i op ra ord src k retain sor n := ⟨⟨hV, hI, hS, he⟩, hn⟩
    intro j
    by_cases hj : j = i
    · subst hj
      rw [cc.node_i]
      refine cc_tracks cc ?_
      have := hsg j
      rw [cc.node_i, restart_retain _ _ _ _ hn] at this
      exact this
    · rw [cc.node_j hj]; exact hT j
  | send i q hi hl hr hc => exact hT

/-- **C12Track in the cluster (partial; same assumptions)**: if in a reachable state `x` the FSM's cached
configuration and term track the applied prefix on every node (`C12Track.Tracks`; e.g. an initial state: nothing
applied, no snapshot, `ex0_tracks`), they do so on every node in every later state `y` of the run — through crashes
and restarts. Hence every snapshot a node would store is labelled right (`C12Track.snapshot_labelled_right`). -/
theorem tracks_in_sys_partial (V : List Nat) (hV : V.Nodup) (x y : Commit.Sys) (hx : ReachableG V x)
    (hrun : RunG V x y) (hT : ∀ i, C12Track.Tracks (x.node i)) : ∀ i, C12Track.Tracks (y.node i) := by
  induction hrun with
  | refl => exact hT
  | next y z hy ht _ hsg ih => exact tracks_trans hV (run_reachableG hx hy) ih ht hsg

/-! ### C15Tasks: the ledger of client tasks, one step of the system -/

/-- **C15Tasks in the cluster, one step (partial; same assumptions)**: in a reachable state, when the open node `i` — whose
task ledger is consistent (`C15Tasks.TasksOK`) — handles an enabled operation that brings in fresh task ids
(`C15Tasks.Fresh`: distinct, waiting nowhere yet — an assumption on the client side), the step does not fail and
every submitted or pending task is afterwards EITHER answered OR pending, never both, never lost; no id is
answered twice; the ledger stays consistent. -/
theorem tasks_step_in_sys_partial (V : List Nat) (hV : V.Nodup) (x : Commit.Sys) (h : ReachableG V x)
    (i : Nat) (op : Op) (src : Nat) (he : Commit.Enabled x i op src) (heG : EnabledG x i op)
    (ho : (x.node i).closed = "") (ra : List Nat) (ord : List (List Nat)) (hT : C15Tasks.TasksOK (x.node i))
    (hF : C15Tasks.Fresh (x.node i) op) :
    (C15Tasks.submitted op ++ C15Tasks.pending (x.node i)).Perm
      (C15Tasks.answered ((x.node i).step op ra ord) ++ C15Tasks.pending ((x.node i).step op ra ord)) ∧
    (C15Tasks.answered ((x.node i).step op ra ord)).Nodup ∧
    (∀ t ∈ C15Tasks.answered ((x.node i).step op ra ord), t ∉ C15Tasks.pending ((x.node i).step op ra ord)) ∧
    C15Tasks.TasksOK ((x.node i).step op ra ord) := by
  have hG := ginv_reachable hV h
  obtain ⟨a, _, c, d, e, _⟩ := C15Tasks.task_step_two _ op ra ord (hG.good i) ho
    (reqok' hV (reachableG_V h) hG he heG) hT hF
  exact ⟨a, c, d, e⟩

/-- a restarted node has nothing pending and nothing answered -/
theorem restart_tasksOK (d : Durable) (r : Nat) (sor : Bool) (n : Node) (h : restart d r sor = some n) :
    C15Tasks.TasksOK n ∧ C15Tasks.pending n = [] := by
  obtain ⟨_, _, _, hn⟩ := C10.restart_some d r sor n h
  have hk : n.ldr = {} ∧ n.snapPending = none ∧ n.snapResult = none := by
    rw [hn]
    split
    · rw [fsmRestore_eq]; exact ⟨rfl, rfl, rfl⟩
    · exact ⟨rfl, rfl, rfl⟩
  obtain ⟨k1, k2, k3⟩ := hk
  have hp : C15Tasks.pending n = [] := by
    unfold C15Tasks.pending C15Tasks.pendRaw
    rw [k1, k2, k3]; rfl
  refine ⟨⟨⟨fun _ => by rw [k1], Or.inl k2⟩, fun _ => ⟨by rw [k1], by rw [k1], by rw [k1]⟩, by rw [hp]; exact List.nodup_nil⟩, hp⟩

/-- a run of the restricted system in which every operation handled to completion brings in fresh task ids
(`C15Tasks.Fresh`: distinct, waiting nowhere on that node — the client side generates a new id for every task) -/
inductive RunGF (V : List Nat) (x : Commit.Sys) : Commit.Sys → Prop
  | refl : RunGF V x x
  | step (y : Commit.Sys) (i : Nat) (op : Op) (ra : List Nat) (ord : List (List Nat)) (src : Nat) : RunGF V x y →
      Commit.Enabled y i op src → EnabledG y i op → (y.node i).closed = "" → C15Tasks.Fresh (y.node i) op →
      SideV V (stepC y i op ra ord src) → SideG (stepC y i op ra ord src) → RunGF V x (stepC y i op ra ord src)
  | crash (y : Commit.Sys) (i : Nat) (op : Op) (ra : List Nat) (ord : List (List Nat)) (src k retain : Nat)
      (sor : Bool) (n : Node) : RunGF V x y → Commit.Enabled y i op src → EnabledG y i op →
      ((y.node i).closed = "" ∨ k = 0) → Node.restart (C05.crashDisk (y.node i) op ra ord k) retain sor = some n →
      SideV V (crashC y i op n) → SideG (crashC y i op n) → RunGF V x (crashC y i op n)
  | send (y : Commit.Sys) (i : Nat) (q : AppendReq) : RunGF V x y → i ≠ 0 → (y.node i).role = .leader →
      Replication.ReadFrom (y.node i) q → q.ldrCommitIndex ≤ (y.node i).commitIndex →
      SideV V (sendC y q) → SideG (sendC y q) → RunGF V x (sendC y q)

theorem runGF_run {V : List Nat} {x y : Commit.Sys} (h : RunGF V x y) : RunG V x y := by
  induction h with
  | refl => exact .refl
  | step y i op ra ord src _ he heG ho _ hs hsg ih => exact .next y _ ih (.step i op ra ord src he heG ho) hs hsg
  | crash y i op ra ord src k retain sor n _ he heG ho hn hs hsg ih =>
    exact .next y _ ih (.crash i op ra ord src k retain sor n he heG ho hn) hs hsg
  | send y i q _ hi hl hr hc hs hsg ih => exact .next y _ ih (.send i q hi hl hr hc) hs hsg

/-- **C15Tasks in the cluster, along a run (partial; same assumptions + fresh task ids)**: if the task ledger of
every node is consistent in a reachable state `x` (`C15Tasks.TasksOK`: no task waits twice, an idle transfer carries
no task, nothing waits in the leader places of a non-leader; e.g. an initial state), it is consistent on every node
in every later state of a run in which the operations bring in fresh task ids — through crashes and restarts (a
restarted node has nothing pending: the tasks that were waiting in the process that died are lost with it). For
each completed step the conservation law is `tasks_step_in_sys_partial`. -/
theorem tasks_in_sys_partial (V : List Nat) (hV : V.Nodup) (x y : Commit.Sys) (hx : ReachableG V x)
    (hrun : RunGF V x y) (hT : ∀ i, C15Tasks.TasksOK (x.node i)) : ∀ i, C15Tasks.TasksOK (y.node i) := by
  induction hrun with
  | refl => exact hT
  | step y i op ra ord src hy he heG ho hF _ _ ih =>
    have hry := run_reachableG hx (runGF_run hy)
    obtain ⟨hI, hS⟩ := inv_reachable hV (reachableG_V hry)
    have sc : SC V y i op ra ord src := ⟨hV, hI, hS, he⟩
    intro j
    by_cases hj : j = i
    · subst hj
      rw [sc.node_i]
      exact (tasks_step_in_sys_partial V hV y hry j op src he heG ho ra ord (ih j) hF).2.2.2
    · rw [sc.node_j hj]; exact ih j
  | crash y i op ra ord src k retain sor n hy he heG _ hn _ _ ih =>
    have hry := run_reachableG hx (runGF_run hy)
    obtain ⟨hI, hS⟩ := inv_reachable hV (reachableG_V hry)
    have cc : CC V y i op ra ord src k retain sor n := ⟨⟨hV, hI, hS, he⟩, hn⟩
    intro j
    by_cases hj : j = i
    · subst hj
      rw [cc.node_i]
      exact (restart_tasksOK _ _ _ _ hn).1
    · rw [cc.node_j hj]; exact ih j
  | send y i q _ _ _ _ _ _ _ ih => exact ih

/-! ### Examples (non-vacuity): three voters, every node bootstrapped with the same configuration entry (1,1) -/

/-- a stable configuration (no pending action) with its anchors is one every node can hold -/
theorem cfgOk_of_stable {T : Bool} {c : Config} (hs : c.isStable = true) (ha : c.nodes ≠ [] → AnchoredT T c)
    (nid : Nat) : CfgOk T nid c :=
  ⟨⟨by rw [stable_action c hs nid]; decide, fun _ => by rw [stable_action c hs nid]; decide⟩, ha⟩

/-- example: the node `C04Sys.exNode i` (bootstrapped follower of term 1 holding the entry (1,1)) is good -/
theorem exNode_good (i : Nat) : Good true (C04Sys.exNode i) := by
  have ho : Order.Ordered (C04Sys.exNode 0) :=
    ⟨⟨by decide, by decide, by decide, by decide, by decide, by decide, ⟨by decide, by decide, by decide⟩, by decide,
      fun rs h => by cases h⟩, by decide⟩
  exact ⟨rfl, ⟨ho.toCoreW.congr rfl, ho.commit_le_last⟩,
    ⟨(by decide : LogDec [C04Sys.exE]), Nat.le_refl _, (fun g h => by cases h), (fun h => by cases h),
     cfgOk_of_stable (c := C04Sys.exCfg) (by decide) (fun _ => by decide) i,
     cfgOk_of_stable (c := C04Sys.exCfg) (by decide) (fun _ => by decide) i⟩,
    fun _ h => by cases h⟩

/-- example: the initial state `C02Sys.ex0` satisfies the invariant `GInv` … -/
theorem ex0_ginv : GInv C02Sys.ex0 := by
  refine ⟨exNode_good, fun i => ⟨Nat.le_refl _, Nat.le_refl _⟩, fun c hc => ?_, fun c hc d hd _ _ => ?_⟩
  · have e : c = ⟨C04Sys.exE, 0, 0⟩ := List.mem_singleton.mp hc
    rw [e]
    intro _
    exact ⟨rfl, fun nid => cfgOk_of_stable (c := C04Sys.exCfg.payload) (by decide) (fun _ => by decide) nid⟩
  · have e : c = ⟨C04Sys.exE, 0, 0⟩ := List.mem_singleton.mp hc
    have e' : d = ⟨C04Sys.exE, 0, 0⟩ := List.mem_singleton.mp hd
    rw [e, e']

/-- … and the side condition `SideG` (one snapshot retained) -/
theorem ex0_sideG : SideG C02Sys.ex0 := fun _ => Nat.le_refl _

/-- example: `ex0` is reachable in the restricted system -/
theorem ex0_reachable : ReachableG [1, 2, 3] C02Sys.ex0 :=
  .init _ C02Sys.ex0_init.1 C02Sys.ex0_init.2 ex0_sideG ex0_ginv

/-- example: in `ex0` every node tracks (nothing applied, no snapshot): the hypothesis of `tracks_in_sys_partial` -/
theorem ex0_tracks (i : Nat) : C12Track.Tracks (C02Sys.ex0.node i) := by
  have h0 : C12Track.Tracks (C04Sys.exNode 0) := by decide
  exact ⟨h0.toCore.congr rfl, fun h => by cases h⟩

/-- example: in `ex0` the task ledger of every node is consistent (nothing pending): the hypothesis of
`tasks_in_sys_partial` -/
theorem ex0_tasks (i : Nat) : C15Tasks.TasksOK (C02Sys.ex0.node i) := by
  have hp : C15Tasks.pending (C04Sys.exNode i) = [] := rfl
  exact ⟨⟨fun _ => rfl, Or.inl rfl⟩, fun _ => ⟨rfl, rfl, rfl⟩, by
    show (C15Tasks.pending (C04Sys.exNode i)).Nodup
    rw [hp]; exact List.nodup_nil⟩

/-- the election timeout of node 1 may be delivered in `ex0` (`Commit.Enabled`), and satisfies `EnabledG` -/
theorem ex1_enabled : Commit.Enabled C02Sys.ex0 1 .timeout 0 ∧ EnabledG C02Sys.ex0 1 .timeout :=
  ⟨⟨⟨by decide, (fun q h => by cases h), (fun ⟨_, _, _, h⟩ => by cases h), trivial, (fun q h => by cases h)⟩,
     ⟨trivial, (fun b h => by cases h), (fun t c h => by cases h)⟩, (fun q h => by cases h),
     (fun q h => by cases h), (fun us h => by cases h)⟩,
   ⟨(fun us h => by cases h), (fun s e r h => by cases h)⟩⟩

theorem ex1_sideG : SideG C02Sys.ex1 := by
  intro i
  by_cases h : i = 1
  · subst h; decide
  · show 1 ≤ (setNode C04Sys.exNode 1 _ i).retain
    rw [setNode_other _ _ _ _ h]; exact Nat.le_refl _

set_option maxRecDepth 100000 in
/-- EXAMPLE (non-vacuity of `good_in_sys_partial`, `reachable_np_of_good`, …): `ex1` (node 1 is candidate of term 2
after its election timeout) is reachable in the restricted system, from the good initial state `ex0` -/
theorem ex1_reachable : ReachableG [1, 2, 3] C02Sys.ex1 :=
  .next C02Sys.ex0 C02Sys.ex1 ex0_reachable (.step 1 .timeout [] [] 0 ex1_enabled.1 ex1_enabled.2 rfl) C02Sys.ex1_side
    ex1_sideG

set_option maxRecDepth 100000 in
/-- EXAMPLE (non-vacuity of `tracks_in_sys_partial` and `tasks_in_sys_partial`): the step `ex0 → ex1` is a run (an
election timeout submits no task), and in `ex0` every node tracks and has a consistent ledger -/
example : RunGF [1, 2, 3] C02Sys.ex0 C02Sys.ex1 ∧ RunG [1, 2, 3] C02Sys.ex0 C02Sys.ex1 ∧
    (∀ i, C12Track.Tracks (C02Sys.ex0.node i)) ∧ (∀ i, C15Tasks.TasksOK (C02Sys.ex0.node i)) := by
  have h : RunGF [1, 2, 3] C02Sys.ex0 C02Sys.ex1 :=
    .step _ 1 .timeout [] [] 0 .refl ex1_enabled.1 ex1_enabled.2 rfl ⟨List.nodup_nil, fun t ht => by cases ht⟩
      C02Sys.ex1_side ex1_sideG
  exact ⟨h, runGF_run h, ex0_tracks, ex0_tasks⟩

/-- EXAMPLE: the hypotheses of `reqok_in_sys_partial` hold in `ex1` for node 2 and the vote request of node 1;
hence (by the theorem) node 2 handles it without failure and stays good -/
example :
    let q : VoteReq := { term := 2, src := 1, lastLogIndex := 1, lastLogTerm := 1 }
    [1, 2, 3].Nodup ∧ ReachableG [1, 2, 3] C02Sys.ex1 ∧ Commit.Enabled C02Sys.ex1 2 (.vote q) 0 ∧
    EnabledG C02Sys.ex1 2 (.vote q) ∧ (C02Sys.ex1.node 2).closed = "" ∧
    ((C02Sys.ex1.node 2).step (.vote q) [] []).panicked = none := by
  intro q
  have he : Commit.Enabled C02Sys.ex1 2 (.vote q) 0 :=
    ⟨⟨by decide, (fun q h => by cases h; decide), (fun ⟨_, _, _, h⟩ => by cases h), trivial,
      (fun q h => by cases h)⟩,
    ⟨trivial, (fun b h => by cases h), (fun t c h => by cases h)⟩, (fun q h => by cases h; exact Or.inr (by decide)),
    (fun q h => by cases h), (fun us h => by cases h)⟩
  have heG : EnabledG C02Sys.ex1 2 (.vote q) := ⟨(fun us h => by cases h), (fun s e r h => by cases h)⟩
  exact ⟨by decide, ex1_reachable, he, heG, rfl,
    (reqok_in_sys_partial _ (by decide) _ ex1_reachable 2 _ 0 he heG rfl [] []).2.2.1⟩

/-- EXAMPLE (crash images): whatever is on disk when node 1 dies while handling its election timeout in `ex0`
(after any number `k` of storage points) has a well-formed segment list -/
example (k : Nat) : C09.SegsOK (C05.crashDisk (C02Sys.ex0.node 1) .timeout [] [] k).log :=
  crashDisk_segsOK _ _ _ _ k ex1_enabled.1.ok2 (exNode_good 1).ordered.segs ⟨Nat.zero_le _, Nat.le_refl _⟩ rfl
    (fun _ => by decide)

/-- node 1 after it died during its election timeout, after the first storage point (the new term and its own vote
are on disk), and restarted -/
def exN : Node := ((restart (C05.crashDisk (C02Sys.ex0.node 1) .timeout [] [] 1) 1 true).getD {})


theorem exN_restart : restart (C05.crashDisk (C02Sys.ex0.node 1) .timeout [] [] 1) 1 true = some exN := by
  have h : (restart (C05.crashDisk (C02Sys.ex0.node 1) .timeout [] [] 1) 1 true).isSome = true := by decide
  unfold exN
  cases hr : restart (C05.crashDisk (C02Sys.ex0.node 1) .timeout [] [] 1) 1 true with
  | none => rw [hr] at h; cases h
  | some n => rfl

def exCrash : Commit.Sys := crashC C02Sys.ex0 1 .timeout exN

theorem exCrash_sideV : SideV [1, 2, 3] exCrash := by
  constructor
  · intro i
    by_cases h : i = 1
    · subst h; decide
    · show (setNode C04Sys.exNode 1 _ i).configs.isBootstrapped = true ∧
        (setNode C04Sys.exNode 1 _ i).configs.latest.voters = _
      rw [setNode_other _ _ _ _ h]; exact ⟨rfl, rfl⟩
  · intro i
    by_cases h : i = 1
    · subst h; decide
    · show (setNode C04Sys.exNode 1 _ i).configs.latest.isStable = true
      rw [setNode_other _ _ _ _ h]; rfl

theorem exCrash_sideG : SideG exCrash := by
  intro i
  by_cases h : i = 1
  · subst h; decide
  · show 1 ≤ (setNode C04Sys.exNode 1 _ i).retain
    rw [setNode_other _ _ _ _ h]; exact Nat.le_refl _

/-- EXAMPLE (a crash INSIDE a step): node 1 dies during its election timeout in `ex0` after the first storage point
(`value.set`: term 2 and its own vote are on disk) and restarts; the resulting state is reachable in the restricted
system — so (by `good_in_sys_partial`) the restarted node is good: a follower of term 2 that has voted for itself -/
example : ReachableG [1, 2, 3] exCrash ∧ exN.term = 2 ∧ exN.votedFor = 1 ∧ exN.role = .follower :=
  ⟨.next C02Sys.ex0 exCrash ex0_reachable
    (.crash 1 .timeout [] [] 0 1 1 true exN ex1_enabled.1 ex1_enabled.2 (Or.inl rfl) exN_restart) exCrash_sideV exCrash_sideG,
   by decide, by decide, by decide⟩
end C19Sys
end Raft

#print axioms Raft.SysInv.ginv_reachable
#print axioms Raft.SysInv.crashDisk_segsOK
#print axioms Raft.C19Sys.good_in_sys_partial -- also C15
#print axioms Raft.C19Sys.reqok_in_sys_partial
#print axioms Raft.C19Sys.reachable_np_of_good -- also C03 C15
#print axioms Raft.C19Sys.state_machine_safety_sys_partial -- also C03
#print axioms Raft.C19Sys.applied_only_grows_sys_partial -- also C03
#print axioms Raft.C19Sys.ordered_in_sys_partial
#print axioms Raft.C19Sys.leader_cache_in_sys_partial -- also C06
#print axioms Raft.C19Sys.tracks_in_sys_partial -- also C12
#print axioms Raft.C19Sys.tasks_step_in_sys_partial
#print axioms Raft.C19Sys.tasks_in_sys_partial -- also C15 C07
