/-
C08 / C01 / C02 on the cluster-level transition system WITH membership changes (`Raft.Member`, Sys/Member.lean) — **the
side conditions of Props/C02Member.lean discharged**: election safety, leader completeness, "committed entries are never
replaced", commit-index safety and "every node uses the last configuration entry of its log", for ARBITRARY chains of
membership changes, from conditions on the INITIAL state and on WHAT IS DELIVERED only.

Props/C02Member.lean proves these statements for the states of `ReachableNF (SideC root)`: runs in which EVERY state
satisfies the side conditions `SideC` (`boot`, `q1`, `cfl0`, `tree`, `root`) and no operation handled by a candidate or
leader fails (`MemberStep.TransNF`; before this stage: a side condition `nofail : NoFail x` on every state). Here all of
this is PROVED of every run of `ReachableR root` (`reachableNF_of`), so the theorems hold with the reduced assumption set:

* `boot`   (every node bootstrapped), `root` (`RootI`), `cfl0` → `CfgLatest` in every state: follow from the invariant
           `MemberInv.MInv` of the state itself (`MemberSide.boot_of`, `TreeM.rootC/rootA/rootOnly`, `CfgM.cl`);
* `tree`   (`MemberInv.SideT`: configuration entries decode, have duplicate-free voter lists, a created configuration
           entry is adjacent to its predecessor): a CONTENT invariant on the tree of created entries —
           `MemberGood.EntOK`: every configuration entry carries a `MemberGood.CfgAll` configuration (ids strictly
           increasing, actions defined and never `Promote` on a voter, TWO voters without pending action) — carried
           through the leader's handlers by a new guarded closure (`MemberGood.block`, `MemberGood.step_content`: what a
           step writes into the log; the FIRST configuration entry of a step is adjacent to the latest configuration
           before it), plus "a step appends at most one configuration entry" (`MemberSide.ev_small`: with two voters no
           commit moment of a step reaches beyond the old log, so the guard `isCommitted` of a second change fails).
           Crashed steps: what a crashed step created is part of what the completed step creates (`crash_T_sub`);
* `q1`     (no quorum of one): `CfgAll` has two voters;
* `nofail` **could not be discharged as it was stated (`SideC.nofail : MemberStep.NoFail x`): it is FALSE** in every state
           in which a leader has a replication (`nofail_unsatisfiable`): `NoFail x` asks that NO operation admitted by
           `Member.Enabled` makes a candidate or leader fail, and `Member.Enabled` admits a `newTerm 0` report of a
           replication, which makes a leader of a term ≥ 1 fail the assertion of `storage.setTerm` (as `C15NoPanic` shows;
           `C19Sys` has the assumption `EnabledG.newTerm` for this) — the theorems held vacuously from the first leader
           with a replication on. The proofs only use the no-failure of the operation AT HAND: it is now a field of
           `MemberStep.SM` / a hypothesis of the transitions `MemberStep.TransNF` (Lemmas/MemberStep.lean,
           MemberCrash.lean and Props/C02Member.lean were edited accordingly), and here it is PROVED for every delivered
           operation: every node is `NoPanic.Good true` in every reachable state, every delivered operation satisfies
           `NoPanic.ReqOk' true` (`MemberSide.reqok`), hence `C15NoPanic.good_step_two` (`MemberSide.transNF_of`).

What is ASSUMED (`ReachableR root`):
* the initial state (`InitR`): `Member.Init`; every node `NoPanic.Good true`; every configuration entry of the initial
  tree carries a `CfgAll` configuration; `RootI root` (one bootstrap configuration entry below every entry); every node's
  latest configuration is the last configuration entry of its log (`CfgLatest`). Example: all nodes bootstrapped with the
  same entry (1,1) with three voters (`ex0_initR`);
* what is delivered (`MemberSide.TransR`): `Member.Enabled` (no snapshots; no forged append requests / vote requests /
  match-index reports; vote responses are real replies; a client batch holds no configuration entry) and
  `MemberSide.ReqG`: a submitted configuration has strictly increasing ids, a defined action for the receiver and TWO
  voters without pending action (`NoPanic.UserCfg true` — so no request leaves fewer than two stable voters); a `newTerm`
  report of a replication carries a term not below the leader's; a transport error of a `timeoutNow` request names a
  replicated node; closed nodes are frozen (only an open node handles operations; any node's process may be restarted
  from its disk); a restart retains at least one snapshot (`SnapshotsRetain ≥ 1`).
"partial": these assumptions (and no snapshots / compaction, as in Sys/Member.lean) — and every node of every run is
bootstrapped from the start (see `InitR`; `AuditMember.no_fresh_node`): a server added by a membership change starts with
a copy of the bootstrap entry, never with empty storage; the `Raft.bootstrap` path and "not bootstrapped yet" followers
are outside these theorems.
-/
import RaftVerif.Lemmas.MemberSide
import RaftVerif.Props.C02Member
import RaftVerif.Props.C19Sys

namespace Raft
namespace C08Member
open Node Election LogRel Replication CommitRel Commit Member MemberCore QuorumRel MemberInv MemberCommit
open MemberGood MemberSide NoPanic
open MemberStep (CfgLatest NoFail RootI)

/-! ### the runs -/

/-- the initial states.

RESTRICTION (made explicit by `AuditMember.no_fresh_node`): the field `cfl : CfgLatest x` asks of EVERY node — also of
nodes that are members of no configuration yet — that its log holds a configuration entry, and `good` that it is
bootstrapped. So EVERY NODE OF EVERY RUN IS BOOTSTRAPPED FROM THE START: a server that a membership change adds to the
cluster starts with a copy of the bootstrap entry, never with empty storage. The `Raft.bootstrap` path and followers that
are "not bootstrapped yet" (`follower.canStartElection`; a fresh server that receives its first configuration from the
leader) are OUTSIDE the theorems of this file. -/
structure InitR (root : K) (x : Member.Sys) : Prop where
  init : Member.Init x
  good : ∀ i, Good true (x.node i)
  /-- every configuration entry of the initial tree carries a `CfgAll` configuration -/
  tree : ∀ c ∈ x.cm.T, EntOK c.e
  root : RootI root x
  cfl : CfgLatest x

/-- States reachable by runs of `MemberSide.TransR` from an initial state satisfying `InitR root`. NO condition on the
states passed. -/
inductive ReachableR (root : K) : Member.Sys → Prop
  | init (x : Member.Sys) : InitR root x → ReachableR root x
  | next (x y : Member.Sys) : ReachableR root x → TransR x y → ReachableR root y

theorem reachableP_of {root : K} {x : Member.Sys} (h : ReachableR root x) : ReachableP (fun _ => True) x := by
  induction h with
  | init x hi => exact .init x hi.init trivial
  | next x y _ ht ih => exact .next x y ih (transR_trans ht) trivial

/-- **the invariants hold in every reachable state** -/
theorem inv_reachable (root : K) (x : Member.Sys) (h : ReachableR root x) :
    (∃ G, MInv x G ∧ G.root = root) ∧ XInv x := by
  induction h with
  | init x hi =>
    refine ⟨⟨⟨root, [], [], []⟩, MemberStep.minv_init root hi.init hi.root hi.cfl, rfl⟩, hi.good, hi.tree, ?_⟩
    intro c hc _ _ h0
    exact absurd (hi.init.cm.rp.cr0 c hc) h0
  | next x y hx ht ih =>
    obtain ⟨⟨G, hI, hr⟩, hX⟩ := ih
    obtain ⟨hX', G', hI', hr'⟩ := xinv_trans hI hX (C08Sys.leaderCache_reachable x (reachableP_of hx)) ht
    exact ⟨⟨G', hI', hr'.trans hr⟩, hX'⟩

/-! ### the finding: `NoFail` is unsatisfiable -/

/-- **`MemberStep.NoFail` (the side condition `SideC.nofail` of Props/C02Member.lean) is FALSE in every state in which a
leader (of a term ≥ 1, as every leader is) has a replication**: `Member.Enabled` admits the report "`newTerm 0`" of that
replication (it constrains match-index reports only), and a leader that handles it fails the assertion of
`storage.setTerm` (`assert.setTerm`; `NoPanic.UpdOk` / `SysInv.EnabledG.newTerm` exclude such a report). -/
theorem nofail_unsatisfiable (x : Member.Sys) (i : Nat) (r : Repl) (hi : i ≠ 0) (hl : (x.node i).role = .leader)
    (hr : r ∈ (x.node i).ldr.repls) (ht : (x.node i).term ≠ 0) : ¬ NoFail x := by
  intro hnf
  have he : Member.Enabled x i (.replUpdates [{ id := r.id, upd := .newTerm 0 }]) 0 :=
    ⟨⟨hi, (fun q h => by cases h), (fun ⟨_, _, _, h⟩ => by cases h),
        (fun u hu v hv => by rw [List.mem_singleton.mp hu] at hv; cases hv), (fun q h => by cases h)⟩, trivial,
      (fun q h => by cases h), (fun q h => by cases h),
      (fun us h u hu v hv => by
        injection h with h
        rw [← h, List.mem_singleton] at hu
        rw [hu] at hv; cases hv)⟩
  have hp := hnf i _ [] [] 0 he (by rw [hl]; exact fun h => by cases h)
  -- the handler fails …
  have hfind : ∃ st, ((x.node i).begin [] []).findRepl? r.id = some st := by
    unfold Node.findRepl?
    cases hf : ((x.node i).begin [] []).ldr.repls.find? (·.id == r.id) with
    | some st => exact ⟨st, rfl⟩
    | none =>
      have := List.find?_eq_none.mp hf r hr
      simp at this
  obtain ⟨st, hst⟩ := hfind
  have hloop : replUpdLoop ((x.node i).begin [] []) {} [{ id := r.id, upd := .newTerm 0 }] =
      (((((x.node i).begin [] []).setRole .follower).setLeader 0).setTerm 0, { stop := true }) := by
    unfold replUpdLoop
    rw [if_neg Bool.false_ne_true]
    dsimp only
    rw [hst]
  have hh : ((x.node i).begin [] []).handle (.replUpdates [{ id := r.id, upd := .newTerm 0 }]) =
      ((((x.node i).begin [] []).setRole .follower).setLeader 0).setTerm 0 := by
    unfold Node.handle
    dsimp only
    rw [if_pos (show ((x.node i).begin [] []).role = .leader from hl)]
    unfold Node.checkReplUpdates
    dsimp only
    rw [hloop]
    rfl
  have hpan : (((((x.node i).begin [] []).setRole .follower).setLeader 0).setTerm 0).panicked ≠ none := by
    unfold Node.setTerm
    rw [if_pos (show ((((x.node i).begin [] []).setRole .follower).setLeader 0).term ≠ 0 from ht),
      if_neg (Nat.not_lt_zero _)]
    exact CfgRel.panicked_panic _ _
  have hrole : (((((x.node i).begin [] []).setRole .follower).setLeader 0).setTerm 0).role = .follower := by
    unfold Node.setTerm Node.storeTermVote Node.panic Node.point
    repeat' split
    all_goals rfl
  -- … and the role transitions keep the failure recorded
  have hq := CfgRel.settle_follower_q 6 _ ((x.node i).begin [] []).role hrole
  have hs : (x.node i).step (.replUpdates [{ id := r.id, upd := .newTerm 0 }]) [] [] =
      settle 6 (((x.node i).begin [] []).handle (.replUpdates [{ id := r.id, upd := .newTerm 0 }]))
        ((x.node i).begin [] []).role := rfl
  rw [hs, hh] at hp
  exact hq.pan hpan hp

/-! ### the side conditions are invariants -/

/-- **The side conditions of Props/C02Member.lean, discharged (partial: the assumptions of the file header).** In every
state `x` reachable in the cluster with membership changes (`ReachableR root`: a good initial state, well-formed requests,
closed nodes frozen — NO condition on the states passed):
1. every node is bootstrapped (`boot`);
2. no node's latest configuration has a quorum of one (`q1`) — it is a `CfgAll` configuration: two voters without pending
   action;
3. every node's latest configuration is the last configuration entry of its log (`cfl0`, in EVERY state);
4. the tree of created entries satisfies `SideT` (`tree`): every configuration entry decodes, its voter list is duplicate
   free, and a configuration entry created by a node — in a completed step or in a step that ended in a crash — is
   adjacent to the previous configuration entry on its path; moreover every configuration entry carries a `CfgAll`
   configuration;
5. the initial entries descend from the one bootstrap configuration entry `root` (`root`);
6. every node is `NoPanic.Good true` (nothing has failed, orderings, caches, …);
7. (instead of `nofail`) every operation that may be delivered to an open node (`Member.Enabled`, `ReqG`) is acceptable
   (`NoPanic.ReqOk' true`), is handled WITHOUT FAILURE — no assertion, nil dereference, `bug{}`, `unreachable()`,
   exhausted recursion budget — and leaves the node good. -/
theorem side_conditions_member_partial (root : K) (x : Member.Sys) (h : ReachableR root x) :
    Boot x ∧ (∀ i, (x.node i).configs.latest.quorum ≠ 1) ∧ CfgLatest x ∧
    (SideT x ∧ ∀ c ∈ x.cm.T, EntOK c.e) ∧ RootI root x ∧ (∀ i, Good true (x.node i)) ∧
    (∀ i op src, Member.Enabled x i op src → ReqG x i op → (x.node i).closed = "" → ∀ ra ord,
      ReqOk' true (x.node i) op ∧ ((x.node i).step op ra ord).panicked = none ∧
      Good true ((x.node i).step op ra ord)) := by
  obtain ⟨⟨G, hI, hr⟩, hX⟩ := inv_reachable root x h
  refine ⟨boot_of hI, fun i => (latest_all hI hX.tree i).quorum_ne_one, hI.cfg.cl, ⟨hX.sideT, hX.tree⟩, ?_, hX.good,
    fun i op src he hg ho ra ord => ?_⟩
  · rw [← hr]; exact ⟨hI.tree.rootC, fun c hc _ => hI.tree.rootA c hc, hI.tree.rootOnly⟩
  · have hq := reqok hI hX he hg
    obtain ⟨hp, hgood⟩ := C15NoPanic.good_step_two _ op ra ord (hX.good i) ho hq
    exact ⟨hq, hp, hgood⟩

/-- **every run of `ReachableR root` is a run of Props/C02Member.lean**: its states satisfy the side conditions
`C02Member.SideC root`, and no operation handled in it fails -/
theorem reachableNF_of (root : K) (x : Member.Sys) (h : ReachableR root x) :
    C02Member.ReachableNF (C02Member.SideC root) x := by
  have side : ∀ y, ReachableR root y → C02Member.SideC root y := by
    intro y hy
    obtain ⟨b, q, cl, ⟨t, _⟩, r, _⟩ := side_conditions_member_partial root y hy
    exact ⟨b, q, fun _ => cl, t, r⟩
  induction h with
  | init x hi => exact .init x hi.init (side x (.init x hi))
  | next x y hx ht ih =>
    obtain ⟨⟨G, hI, _⟩, hX⟩ := inv_reachable root x hx
    exact .next x y ih (transNF_of hI hX (C08Sys.leaderCache_reachable x (reachableP_of hx)) ht)
      (side y (.next x y hx ht))

/-! ### the theorems of Props/C02Member.lean with the reduced assumption set -/

/-- **C02, leader completeness, across arbitrary chains of membership changes (partial: the assumptions of the file
header; NO side condition on the states of the run).** In every state reachable in `ReachableR root`:
1. every entry of the tree of created entries whose term is above that of an entry `m` of the ledger `committed` extends
   `m`: entries of later terms are only ever created on top of what was committed before, whatever configurations the
   cluster went through;
2. every leader holds every entry of the ledger `committed` whose term is not above its own — at the same index, with
   the same term. -/
theorem leader_completeness_member_partial (root : K) (x : Member.Sys) (h : ReachableR root x) :
    (∀ m ∈ x.cm.committed, ∀ c ∈ x.cm.T, m.2 < c.e.term → Anc x.cm.T m (key c)) ∧
    (∀ i, (x.node i).role = .leader → ∀ m ∈ x.cm.committed, m.2 ≤ (x.node i).term →
      ∃ e, (x.node i).log.get? m.1 = some e ∧ e.term = m.2) :=
  C02Member.leader_completeness_member_modulo_sides root x (reachableNF_of root x h)

/-- **C01, election safety, across arbitrary chains of membership changes (partial; no side condition on the states).**
In every reachable state:
1. two nodes that are leader in the same term are the same node;
2. the ledger `won` names at most one node per term;
3. two recorded candidates of one term that each hold a majority of grants of the voters of THEIR OWN election
   configuration are the same node (`C04Member.ESafe`). -/
theorem election_safety_member_partial (root : K) (x : Member.Sys) (h : ReachableR root x) :
    (∀ i j, (x.node i).role = .leader → (x.node j).role = .leader → (x.node i).term = (x.node j).term → i = j) ∧
    (∀ l l' t, (l, t) ∈ x.el.won → (l', t) ∈ x.el.won → l = l') ∧
    C04Member.ESafe x.el.grants x.ecfg :=
  C02Member.election_safety_member_modulo_sides root x (reachableNF_of root x h)

/-- **C02, committed entries are never replaced, across membership changes (partial; no side condition on the
states).**
1. The entries of the ledger `committed` lie on ONE path of the tree.
2. Two committed keys with the same index are the same key.
3. A key that is committed stays committed in every successor state. -/
theorem committed_never_replaced_member_partial (root : K) (x : Member.Sys) (h : ReachableR root x) :
    (∀ m ∈ x.cm.committed, ∀ m' ∈ x.cm.committed, Anc x.cm.T m m' ∨ Anc x.cm.T m' m) ∧
    (∀ m ∈ x.cm.committed, ∀ m' ∈ x.cm.committed, m.1 = m'.1 → m = m') ∧
    (∀ y, Member.Trans x y → ∀ a, Committed x.cm a → Committed y.cm a) :=
  C02Member.committed_never_replaced_member_modulo_sides root x (reachableNF_of root x h)

/-- **C02 / C03, state-machine safety for the commit indexes of ALL nodes, across membership changes (partial; no side
condition on the states).** In every reachable state:
1. everything within a node's commit index is committed;
2. two nodes whose commit indexes cover index `k` hold the same entry at `k`;
3. every leader whose term is at least the term of a node `j` holds, at every index within `j`'s commit index, the
   very entry `j` holds there;
4. when an open node handles a delivered operation (`Member.Enabled`, `ReqG`) to completion, every index within its
   commit index still holds the same entry afterwards, and is still within the commit index. -/
theorem commit_index_safety_member_partial (root : K) (x : Member.Sys) (h : ReachableR root x) :
    (∀ j k, 1 ≤ k → k ≤ (x.node j).commitIndex →
      k ≤ (x.node j).log.entries.length ∧ Cmt x.cm (k, termAt (x.node j).log.entries k) (x.node j).term) ∧
    (∀ i j k, 1 ≤ k → k ≤ (x.node i).commitIndex → k ≤ (x.node j).commitIndex →
      (x.node i).log.get? k = (x.node j).log.get? k ∧ ((x.node i).log.get? k).isSome = true) ∧
    (∀ i j k, (x.node i).role = .leader → (x.node j).term ≤ (x.node i).term → 1 ≤ k →
      k ≤ (x.node j).commitIndex →
      (x.node i).log.get? k = (x.node j).log.get? k ∧ ((x.node j).log.get? k).isSome = true) ∧
    (∀ i op ra ord src, Member.Enabled x i op src → ReqG x i op → (x.node i).closed = "" →
      ∀ k, 1 ≤ k → k ≤ (x.node i).commitIndex →
      ((x.node i).step op ra ord).log.get? k = (x.node i).log.get? k ∧
      k ≤ ((x.node i).step op ra ord).commitIndex) := by
  obtain ⟨a, b, c, d⟩ := C02Member.commit_index_safety_member_modulo_sides root x (reachableNF_of root x h)
  refine ⟨a, b, c, fun i op ra ord src he hg ho => d i op ra ord src he (fun _ => ?_)⟩
  exact ((side_conditions_member_partial root x h).2.2.2.2.2.2 i op src he hg ho ra ord).2.1

/-- **C08, every node uses the latest configuration of its log (partial; no side condition on the states).** In every
reachable state, for every node (leader, candidate or follower; after completed steps, truncations by append requests,
crashes and restarts):
1. `configs.latest` is the LAST CONFIGURATION ENTRY OF THE NODE'S LOG — and it is a `CfgAll` configuration: member ids
   strictly increasing, defined actions, two voters without pending action;
2. the index of that entry is protected (`C02Member.Protected`: the log holds an entry there, and no append request in the
   ledger `sent` of the node's current or a later term conflicts with the node's log at or below it) — or the
   configuration is pending: `configs.committed` is the configuration entry just before it (`MemberFollow.Pend`), and the
   index of THAT entry is protected;
3. what protection means for the next step: when an open node handles a delivered operation (`Member.Enabled`, `ReqG`) to
   completion, its log up to a protected index is unchanged — nothing at or below the index is truncated or replaced.
(Statement 2 used to be `∃ G, G.root = root ∧ ∀ i, ProtG x G i … ∨ …`, which a degenerate ghost ledger satisfies in every
state — `AuditMember.protG_degenerate`; repaired: it is now the consequence `MemberInv.protNoConf` draws from `ProtG` for
the ledger of the invariant `MInv`, stated without ghost ledgers. `AuditMember.protected_informative`: an instance in
which the first alternative is FALSE.) -/
theorem cfg_latest_member_partial (root : K) (x : Member.Sys) (h : ReachableR root x) :
    CfgLatest x ∧ (∀ i, CfgAll (x.node i).configs.latest) ∧
    (∀ i, C02Member.Protected x i (x.node i).configs.latest.index ∨
      (MemberFollow.Pend (x.node i).log.entries (x.node i).configs ∧
        C02Member.Protected x i (x.node i).configs.committed.index)) ∧
    (∀ i k, C02Member.Protected x i k → ∀ op ra ord src, Member.Enabled x i op src → ReqG x i op →
      (x.node i).closed = "" →
      ((x.node i).step op ra ord).log.entries.take k = (x.node i).log.entries.take k) := by
  obtain ⟨⟨G, hI, _⟩, hX⟩ := inv_reachable root x h
  obtain ⟨a, b, c⟩ := C02Member.cfg_latest_member_modulo_sides root x (reachableNF_of root x h)
  refine ⟨a, latest_all hI hX.tree, b, fun i k hp op ra ord src he hg ho => c i k hp op ra ord src he (fun _ => ?_)⟩
  exact ((side_conditions_member_partial root x h).2.2.2.2.2.2 i op src he hg ho ra ord).2.1

/-! ### Examples (non-vacuity) -/

/-- example initial state: `C08Sys.ex0` (three voters 1, 2, 3, every node bootstrapped with the configuration entry
(1,1)) -/
abbrev ex0 : Member.Sys := C08Sys.ex0

theorem exCfg_all : CfgAll C04Sys.exCfg.payload := ⟨by decide, by decide, by decide⟩

theorem exE_entOK : EntOK C04Sys.exE := fun _ => ⟨C04Sys.exCfg.payload, rfl, exCfg_all⟩

/-- **a way to satisfy `InitR`**: every node is bootstrapped with the SAME configuration entry `e0` (index 1), which
carries a `CfgAll` configuration — the log of every node is `[e0]`, its latest configuration is that of `e0`, the tree
of created entries is the one initial record of `e0` — and every node is `NoPanic.Good true`. The bootstrap key is
`(1, e0.term)`. -/
theorem initR_single {x : Member.Sys} (hi : Member.Init x) (hg : ∀ i, Good true (x.node i)) (e0 : Entry) (c0 : Config)
    (hc0 : e0.config? = some c0) (hidx : e0.index = 1) (hok : EntOK e0) (hT : x.cm.T = [⟨e0, 0, 0⟩])
    (hlog : ∀ i, (x.node i).log.entries = [e0]) (hcfg : ∀ i, (x.node i).configs.latest = c0) :
    InitR (1, e0.term) x := by
  obtain ⟨hty, hci, _⟩ := config?_facts hc0
  have hp : Path x.cm.T [e0] :=
    ⟨⟨⟨⟨e0, 0, 0⟩, by rw [hT]; exact List.mem_singleton.mpr rfl, rfl, fun pt h => by cases h⟩, trivial⟩,
      fun k hk => by
        have : k = 0 := by have : k < 1 := hk; omega
        subst this; exact hidx⟩
  have hh : Holds [e0] 1 e0.term := ⟨Nat.le_refl _, Nat.le_refl _, rfl⟩
  have hkey : ∀ c ∈ x.cm.T, key c = (1, e0.term) := by
    intro c hc
    rw [hT] at hc
    rw [List.mem_singleton.mp hc]
    show (e0.index, e0.term) = _
    rw [hidx]
  refine ⟨hi, hg, fun c hc => ?_, ⟨⟨⟨e0, 0, 0⟩, by rw [hT]; exact List.mem_singleton.mpr rfl, hkey _ (by rw [hT]; exact List.mem_singleton.mpr rfl), hty, rfl⟩,
    fun c hc _ => ?_, fun c hc _ _ => hkey c hc⟩, fun i => ?_⟩
  · rw [hT] at hc
    rw [List.mem_singleton.mp hc]; exact hok
  · rw [hkey c hc]
    exact anc_of_path hp hh hh (Nat.le_refl _)
  · show CfgLast (x.node i).log.entries (x.node i).configs.latest
    rw [hlog i, hcfg i]
    exact ⟨⟨e0, List.mem_singleton.mpr rfl, hc0⟩, fun e he _ => by rw [List.mem_singleton.mp he, hci]; exact Nat.le_refl _⟩

/-- EXAMPLE: the hypotheses on the initial state hold of `ex0` (by `initR_single`) -/
theorem ex0_initR : InitR (1, 1) ex0 :=
  initR_single C08Sys.ex0_init C19Sys.exNode_good C04Sys.exE C04Sys.exCfg C02Member.exE_config rfl exE_entOK rfl
    (fun _ => rfl) (fun _ => rfl)

/-- EXAMPLE: node 2 answers an identity request of node 1 — a transition of `TransR` (the operation satisfies `ReqG`, the
node is open) -/
theorem exA_transR : TransR ex0 C02Member.exA :=
  .step 2 (.identity 1 7 2) [] [] 0
    ⟨⟨by decide, (fun q h => by cases h), (fun ⟨_, _, _, h⟩ => by cases h), trivial, (fun q h => by cases h)⟩,
     trivial, (fun q h => by cases h), (fun q h => by cases h), (fun us h => by cases h)⟩
    ⟨(fun t c h => by cases h), (fun us h => by cases h), (fun s e r h => by cases h)⟩ rfl

/-- EXAMPLE: the hypotheses of the theorems hold for a non-initial state — `exA` is reachable — and hence their
conclusions, e.g. election safety and the discharged side conditions -/
example : ReachableR (1, 1) C02Member.exA ∧ C04Member.ESafe C02Member.exA.el.grants C02Member.exA.ecfg ∧
    SideT C02Member.exA :=
  have r : ReachableR (1, 1) C02Member.exA := .next ex0 _ (.init ex0 ex0_initR) exA_transR
  ⟨r, (election_safety_member_partial (1, 1) _ r).2.2, (side_conditions_member_partial (1, 1) _ r).2.2.2.1.1⟩

/-- the election timeout of node 1 may be delivered in `ex0` -/
theorem ex1_enabled : Member.Enabled ex0 1 .timeout 0 ∧ ReqG ex0 1 .timeout :=
  ⟨⟨⟨by decide, (fun q h => by cases h), (fun ⟨_, _, _, h⟩ => by cases h), trivial, (fun q h => by cases h)⟩,
     trivial, (fun q h => by cases h), (fun q h => by cases h), (fun us h => by cases h)⟩,
   ⟨(fun t c h => by cases h), (fun us h => by cases h), (fun s e r h => by cases h)⟩⟩

set_option maxRecDepth 100000 in
/-- EXAMPLE (a role change): `C08Sys.ex1` — node 1 is candidate of term 2 after its election timeout — is reachable; so
(by the theorems) it satisfies the side conditions, and the candidate is good -/
example : ReachableR (1, 1) C08Sys.ex1 ∧ (C08Sys.ex1.node 1).role = .candidate ∧ Good true (C08Sys.ex1.node 1) ∧
    (C08Sys.ex1.node 1).configs.latest.quorum ≠ 1 :=
  have r : ReachableR (1, 1) C08Sys.ex1 :=
    .next ex0 _ (.init ex0 ex0_initR) (.step 1 .timeout [] [] 0 ex1_enabled.1 ex1_enabled.2 rfl)
  have s := side_conditions_member_partial (1, 1) _ r
  ⟨r, by decide, s.2.2.2.2.2.1 1, s.2.1 1⟩

/-- EXAMPLE (a crash INSIDE a step): node 1 dies during its election timeout in `ex0` after the first storage point
(`value.set`: term 2 and its own vote are on disk) and restarts as `C19Sys.exN`; the resulting state is reachable, so
the restarted node is good and the side conditions hold -/
example : ReachableR (1, 1) (crashM ex0 1 .timeout C19Sys.exN) ∧ Good true ((crashM ex0 1 .timeout C19Sys.exN).node 1) ∧
    SideT (crashM ex0 1 .timeout C19Sys.exN) :=
  have r : ReachableR (1, 1) (crashM ex0 1 .timeout C19Sys.exN) :=
    .next ex0 _ (.init ex0 ex0_initR)
      (.crash 1 .timeout [] [] 0 1 1 true C19Sys.exN ex1_enabled.1 ex1_enabled.2 (Or.inl rfl) (Nat.le_refl _)
        C19Sys.exN_restart)
  have s := side_conditions_member_partial (1, 1) _ r
  ⟨r, s.2.2.2.2.2.1 1, s.2.2.2.1.1⟩

/-- EXAMPLE (the hypotheses of `nofail_unsatisfiable` are satisfiable): a state whose node 1 is the leader of
`C06Cache.exLeader` (term 1, replications for the nodes 2 and 3) does not satisfy `NoFail` -/
example : ¬ NoFail { cm := { rp := { el := { node := fun _ => C06Cache.exLeader, grants := [], counted := [], won := [] },
                                     sent := [], created := [] }, acks := [], camps := [], committed := [] },
                     ecfg := [], changes := [] } :=
  nofail_unsatisfiable _ 1 { id := 2, node := { id := 2, addr := "b:1", voter := true }, matchIndex := 2 } (by decide)
    (by decide) (by decide) (by decide)

end C08Member
end Raft

#print axioms Raft.MemberGood.step_content
#print axioms Raft.MemberSeg.crashDisk_segsOK
#print axioms Raft.MemberSide.reqok
#print axioms Raft.MemberSide.xinv_trans
#print axioms Raft.C08Member.inv_reachable
#print axioms Raft.C08Member.nofail_unsatisfiable
#print axioms Raft.C08Member.reachableNF_of
#print axioms Raft.C08Member.side_conditions_member_partial -- also C15 C19
#print axioms Raft.C08Member.leader_completeness_member_partial -- also C02
#print axioms Raft.C08Member.election_safety_member_partial -- also C01
#print axioms Raft.C08Member.committed_never_replaced_member_partial -- also C02
#print axioms Raft.C08Member.commit_index_safety_member_partial -- also C02 C03
#print axioms Raft.C08Member.cfg_latest_member_partial -- also C19
#print axioms Raft.C08Member.ex0_initR
