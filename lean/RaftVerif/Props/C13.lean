import RaftVerif.Lemmas.SegView
/-!
C13 — the segmented log behaves as an abstract sequence.

Model: `RaftVerif/Model/SegLog.lean` (`SegLog`, `AbsLog`, `abs`).  Invariant `Inv` and the helper
lemmas are in `RaftVerif/Lemmas/SegLog.lean` / `SegDisk.lean`.
-/
namespace Raft.SL

/-- One abstract step.  Two steps are relations rather than functions because the implementation
decides: `append` may refuse with `ErrExceedsSegmentSize` (then nothing changes) and `removeLTE`
removes whole segments only, so it drops SOME number `k` of leading entries, never beyond `i`. -/
def AbsStep (a : AbsLog) : Op → AbsLog → Prop
  | .append b, a' => a' = a.snoc b ∨ a' = a
  | .commitN _, a' => a' = a
  | .commit, a' => a' = a
  | .removeLTE i, a' => ∃ k, k ≤ a.entries.length ∧ a' = a.dropFront k ∧ (k = 0 ∨ a'.prev ≤ i)
  | .removeGTE i, a' => a' = a.removeGTE i
  | .reset j, a' => a' = AbsLog.reset j
  | .closeOpen _, a' => a' = a

def AbsRun : AbsLog → List Op → AbsLog → Prop
  | a, [], a' => a' = a
  | a, op :: ops, a' => ∃ m, AbsStep a op m ∧ AbsRun m ops a'

/-- Full-strength statement of C13 on the model: for every segment size and every program
(append with any payload incl. empty and larger than a segment, commitN, commit, removeLTE,
removeGTE, reset, close+reopen), started on an empty directory:
the invariant holds, the state is an abstract run of the program, every read (`Get`, `GetN`
concatenated, bounds, `Count`, `Contains`, including `ErrNotFound` and the documented panics)
equals the abstract one, `RemoveLTE` removes whole segments only / never beyond `i` / exactly what
`CanLTE` announces, a view keeps returning the same bytes while the writer appends and commits,
and close+open gives back the same sequence. -/
def C13_statement : Prop :=
  ∀ (ss : Nat) (ops : List Op), 1024 ≤ ss → (∀ o ∈ ops, o.valid) →
    let s := (SegLog.empty ss).run ops
    Inv s ∧ AbsRun (abs (SegLog.empty ss)) ops (abs s) ∧
    (∀ i, s.get i = (abs s).get i) ∧
    (∀ i n, flatChunks (s.getN i n) = (abs s).getN i n) ∧
    s.prevIndex = (abs s).prev ∧ s.lastIndex = (abs s).lastIndex ∧ s.count = (abs s).count ∧
    (∀ i, s.contains i = (abs s).contains i) ∧
    (∀ i, (s.removeLTE i).prevIndex = s.canLTE i ∧
          (s.removeLTE i).prevIndex ∈ s.segs.map (·.prev) ∧
          ((s.removeLTE i).prevIndex = s.prevIndex ∨ (s.removeLTE i).prevIndex ≤ i)) ∧
    (∀ p l v, s.viewAt p l = .ok (some v) → ∀ more, (∀ o ∈ more, o.appendish = true) →
        (∀ j, p < j → j ≤ l → v.get (s.run more) j = (abs s).get j) ∧
        (∀ i n, p < i → 0 < n → i + (n - 1) ≤ l →
          flatChunks (v.getN (s.run more) i n) = (abs s).getN i n)) ∧
    (∀ d, Rep s d → ∀ ss',
        reopen (killImg (runSteps d (script s (.closeOpen ss')))) ss' =
          .ok (s.closeOpen ss', killImg (runSteps d (script s (.closeOpen ss')))) ∧
        abs (s.closeOpen ss') = abs s)

/-! ### Per-operation refinement -/

/-- `seglog_refines`: every operation preserves `Inv` and commutes with `abs`. -/
theorem seglog_refines {l : SegLog} (h : Inv l) (op : Op) (hv : op.valid) :
    Inv (l.run [op]) ∧ AbsStep (abs l) op (abs (l.run [op])) := by
  refine ⟨op_inv h hv, ?_⟩
  cases op with
  | append b =>
    simp only [SegLog.run, SegLog.apply, AbsStep]
    rcases append_refines h b with ⟨l', e, _, ea⟩ | ⟨e, _, _⟩
    · rw [e]; exact Or.inl ea
    · rw [e]; exact Or.inr rfl
  | commitN n => exact commitN_abs h n
  | commit => exact commit_abs h
  | removeLTE i =>
    obtain ⟨_, k, hk, ea, _, hle, _⟩ := removeLTE_refines h i
    refine ⟨k, hk, ea, ?_⟩
    rcases hle with r | r
    · exact Or.inl r
    · exact Or.inr (by simpa [SegLog.run, SegLog.apply, abs_prev] using r)
  | removeGTE i => exact (removeGTE_refines h i).2
  | reset j => exact (reset_refines h j).2
  | closeOpen ss => exact (closeOpen_refines h hv).2

/-- `append` in detail: success = snoc; the only error is `ErrExceedsSegmentSize`, returned exactly
when the last segment is empty and the entry does not fit in it. -/
theorem append_outcome {l : SegLog} (h : Inv l) (b : Bytes) :
    (∃ l', l.append b = .ok l' ∧ Inv l' ∧ abs l' = (abs l).snoc b) ∨
    (l.append b = .error .exceedsSegmentSize ∧ l.last.n = 0 ∧ l.last.available < (b.length : Int)) :=
  append_refines h b

/-- Outputs equal the abstract ones. -/
theorem outputs_refine {l : SegLog} (h : Inv l) :
    (∀ i, l.get i = (abs l).get i) ∧
    (∀ i n, flatChunks (l.getN i n) = (abs l).getN i n) ∧
    l.prevIndex = (abs l).prev ∧ l.lastIndex = (abs l).lastIndex ∧ l.count = (abs l).count ∧
    (∀ i, l.contains i = (abs l).contains i) :=
  ⟨get_refines h, getN_refines h, rfl, (abs_lastIndex h).symm, (abs_count h).symm,
    fun i => (abs_contains h i).symm⟩

/-- `ops_refine`: lift to all operation sequences. -/
theorem ops_refine {l : SegLog} (h : Inv l) (ops : List Op) (hv : ∀ o ∈ ops, o.valid) :
    Inv (l.run ops) ∧ AbsRun (abs l) ops (abs (l.run ops)) := by
  induction ops generalizing l with
  | nil => exact ⟨h, rfl⟩
  | cons op ops ih =>
    obtain ⟨h1, h2⟩ := seglog_refines h op (hv op (by simp))
    obtain ⟨r1, r2⟩ := ih h1 (fun o ho => hv o (List.mem_cons_of_mem _ ho))
    rw [run_cons]
    exact ⟨r1, _, h2, r2⟩

/-- `removeLTE_whole_segments`: the new prevIndex is what `CanLTE(i)` announced, it is the
prevIndex of one of the old segments (whole segments only), and it is `≤ i` unless nothing was
removed; abstractly a number of leading entries is dropped. -/
theorem removeLTE_whole_segments {l : SegLog} (h : Inv l) (i : Nat) :
    (l.removeLTE i).prevIndex = l.canLTE i ∧
    (l.removeLTE i).prevIndex ∈ l.segs.map (·.prev) ∧
    ((l.removeLTE i).prevIndex = l.prevIndex ∨ (l.removeLTE i).prevIndex ≤ i) ∧
    ∃ k, abs (l.removeLTE i) = (abs l).dropFront k := by
  obtain ⟨_, k, _, ea, e1, e2, e3⟩ := removeLTE_refines h i
  refine ⟨e1, e3, ?_, k, ea⟩
  rcases e2 with r | r
  · left
    have := congrArg AbsLog.prev ea
    simpa [abs_prev, AbsLog.dropFront, r] using this
  · exact Or.inr r

/-- `view_stable`: a view `(p,l)` taken at state `s` returns, after any number of appends and
commits by the writer, the bytes the log had at `j` when the view was taken (`p < j ≤ l`). -/
theorem view_stable {s : SegLog} (h : Inv s) {p l : Nat} {v : View}
    (hv : s.viewAt p l = .ok (some v)) (more : List Op) (hm : ∀ o ∈ more, o.appendish = true)
    {j : Nat} (h1 : p < j) (h2 : j ≤ l) :
    v.get (s.run more) j = (abs s).get j ∧ v.contains j = true ∧ v.count = l - p := by
  obtain ⟨hok, ep, el⟩ := viewAt_ok h hv
  obtain ⟨hi', hok', extra, ea⟩ := run_appendish h hok more hm
  refine ⟨?_, by simp [View.contains, ep, el, h1, h2], by simp [View.count, ep, el]⟩
  rw [view_get_eq hi' hok' (by omega) (by omega), get_refines hi', ea]
  apply absget_extend
  rw [abs_lastIndex h]
  have := hok.2.2.1
  omega

/-- `view_stable` for `GetN`: the chunks a view returns for a range inside `(p, l]` concatenate to
the bytes the log had there when the view was taken, whatever was appended/committed since. -/
theorem view_getN_stable {s : SegLog} (h : Inv s) {p l : Nat} {v : View}
    (hv : s.viewAt p l = .ok (some v)) (more : List Op) (hm : ∀ o ∈ more, o.appendish = true)
    {i n : Nat} (h1 : p < i) (hn : 0 < n) (h2 : i + (n - 1) ≤ l) :
    flatChunks (v.getN (s.run more) i n) = (abs s).getN i n := by
  obtain ⟨hok, ep, el⟩ := viewAt_ok h hv
  have hok2 := viewAt_ok2 h hv
  obtain ⟨hi', hok', extra, ea⟩ := run_appendish h hok more hm
  have hok2' := viewOK2_mono hok2 (prevsPersist_run h more hm)
  have e := view_getN_eq hi' hok' hok2' (i := i) (n := n) (by omega) hn (by omega)
  rw [e, ea]
  apply absgetN_extend _ _ hn
  rw [abs_lastIndex h]
  have := hok.2.2.1
  omega

/-- `reopen_clean`: `Close` then `Open` (any directory `d` representing `s`) yields the same
abstract sequence, leaves the files alone, and the reopened in-memory state is the model's. -/
theorem reopen_clean {s : SegLog} {d : Disk} (h : Inv s) (hr : Rep s d) {ss' : Nat} (hs : 1024 ≤ ss') :
    reopen (killImg (runSteps d (script s (.closeOpen ss')))) ss' =
      .ok (s.closeOpen ss', killImg (runSteps d (script s (.closeOpen ss')))) ∧
    Inv (s.closeOpen ss') ∧ abs (s.closeOpen ss') = abs s :=
  ⟨closeOpen_reopen h hr ss', (closeOpen_refines h hs).1, (closeOpen_refines h hs).2⟩

/-- `segment_layout`: if `append(b)` is called on a segment with `len b ≤ available()`, the data
store `[size, size+len b)` lies below EVERY slot of the offset table and the header (slots
`0..n+2`, the last one being the slot `append` is about to write), and all those slots lie inside
the file.  (`available` is exactly the distance between `size` and slot `n+2`.) -/
theorem segment_layout (t : Seg) (b : Bytes) (h : (b.length : Int) ≤ t.available) :
    ∀ k, k ≤ t.n + 2 → ((t.size + b.length : Nat) : Int) ≤ t.slotAt k ∧ t.slotAt k + 8 ≤ (t.cap : Int) := by
  intro k hk
  simp only [Seg.available, Seg.slotAt] at h ⊢
  omega

/-- Both call sites of `segment.append` in `Log.Append` satisfy the premise of `segment_layout`. -/
theorem append_sites_fit {l l' : SegLog} (h : Inv l) {b : Bytes} (ha : l.append b = .ok l') :
    ∃ t, l'.last = t.append b ∧ (b.length : Int) ≤ t.available ∧ SegOK t := by
  unfold SegLog.append at ha
  by_cases hav : l.last.available < (b.length : Int)
  · by_cases hn : l.last.n = 0
    · simp [hav, hn] at ha
    · simp only [hav, hn, if_true, if_false, Except.ok.injEq] at ha
      subst ha
      have := h.2.2
      refine ⟨_, rfl, ?_, fresh_ok (by split <;> omega)⟩
      simp [Seg.available, Seg.slotAt, Seg.fresh, Seg.size, Seg.n, dataSize]
      split <;> omega
  · simp only [hav, if_false, Except.ok.injEq] at ha
    subst ha
    exact ⟨l.last, rfl, by omega, h.1⟩

/-- C13, full statement. -/
theorem C13 : C13_statement := by
  intro ss ops hss hv
  have h0 := inv_empty hss
  obtain ⟨hi, hrun⟩ := ops_refine h0 ops hv
  obtain ⟨o1, o2, o3, o4, o5, o6⟩ := outputs_refine hi
  refine ⟨hi, hrun, o1, o2, o3, o4, o5, o6, ?_, ?_, ?_⟩
  · intro i
    obtain ⟨e1, e2, e3, _⟩ := removeLTE_whole_segments hi i
    exact ⟨e1, e2, e3⟩
  · intro p l v hview more hm
    exact ⟨fun j h1 h2 => (view_stable hi hview more hm h1 h2).1,
      fun i n h1 hn h2 => view_getN_stable hi hview more hm h1 hn h2⟩
  · intro d hr ss'
    exact ⟨closeOpen_reopen hi hr ss', by
      have := commit_abs hi
      simpa [abs_eq, SegLog.closeOpen] using this⟩

/-! ### Non-vacuity -/

set_option maxRecDepth 100000 in
/-- A program that rolls over twice (1024-byte segments, 600-byte entries), commits, removes at a
boundary from both ends and reopens: hypotheses of `C13` are met and the state is non-trivial. -/
example :
    let ops : List Op := [.append (List.replicate 600 1), .append (List.replicate 600 2),
      .append (List.replicate 600 3), .commit, .removeLTE 1, .removeGTE 3, .closeOpen 2048]
    (∀ o ∈ ops, o.valid) ∧ ((SegLog.empty 1024).run ops).prevIndex = 1 ∧
      ((SegLog.empty 1024).run ops).count = 1 ∧ ((SegLog.empty 1024).run ops).older.length = 0 := by
  refine ⟨?_, by rfl, by rfl, by rfl⟩
  intro o ho
  simp only [List.mem_cons, List.not_mem_nil, or_false] at ho
  rcases ho with rfl | rfl | rfl | rfl | rfl | rfl | rfl <;> simp [Op.valid]

set_option maxRecDepth 100000 in
/-- The error branch of `append` is reachable: an entry larger than an empty 1024-byte segment. -/
example : (SegLog.empty 1024).append (List.replicate 1001 0) = .error .exceedsSegmentSize := by rfl

set_option maxRecDepth 100000 in
/-- A view over two segments exists (premise of `view_stable`). -/
example :
    ∃ v, (((SegLog.empty 1024).run [.append (List.replicate 600 1), .append (List.replicate 600 2)]).viewAt 0 2)
      = .ok (some v) ∧ v.firstPrev = 0 ∧ v.lastPrev = some 1 :=
  ⟨{ p := 0, l := 2, firstPrev := 0, lastPrev := some 1 }, by rfl, rfl, rfl⟩

/-- The panic branch of `Get` is reachable and is the abstract one too. -/
example : (SegLog.empty 1024).get 1 = .error (.panic .gtLastIndex) := by rfl

end Raft.SL

#print axioms Raft.SL.C13
#print axioms Raft.SL.seglog_refines
#print axioms Raft.SL.append_outcome
#print axioms Raft.SL.outputs_refine
#print axioms Raft.SL.ops_refine
#print axioms Raft.SL.removeLTE_whole_segments
#print axioms Raft.SL.view_stable
#print axioms Raft.SL.view_getN_stable
#print axioms Raft.SL.reopen_clean
#print axioms Raft.SL.segment_layout
#print axioms Raft.SL.append_sites_fit
