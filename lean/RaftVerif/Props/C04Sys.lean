/-
C04 (log matching) on the cluster-level transition system `Raft.Replication` (Sys/Replication.lean) — fixed
voter set, no snapshots / compaction (the `_partial` restrictions, see the header of Sys/Replication.lean).

`log_matching_sys_partial`: in every reachable state, two nodes' logs that hold an entry with the same index
and term hold equal entries (type, payload, configuration) at every index up to it.
`entry_created_once_partial`: the ledger of created entries never holds two different entries for one
(index, term); every log entry and every entry of every request on the wire is in it.
`request_consistent_partial`: every request on the wire is a slice of that tree; a request and a log (or two
requests) that agree on one (index, term) agree on everything before it, including `prevLogTerm`.
-/
import RaftVerif.Sys.Replication

namespace Raft
namespace C04Sys
open Node LogRel Replication C01
open Election (FixedV RealReply setNode stepSys votersCounted setNode_same setNode_other)

/-! ### lists and `chainOf` -/

theorem prefix_append_cases {l a b : List Entry} (h : l <+: a ++ b) :
    l <+: a ∨ ∃ b', b' ≠ [] ∧ b' <+: b ∧ l = a ++ b' := by
  by_cases hl : l.length ≤ a.length
  · left
    exact List.prefix_of_prefix_length_le h (List.prefix_append a b) hl
  · right
    have ha : a <+: l := List.prefix_of_prefix_length_le (List.prefix_append a b) h (by omega)
    obtain ⟨b', hb'⟩ := ha
    subst hb'
    refine ⟨b', ?_, ?_, rfl⟩
    · intro he; subst he; simp at hl
    · exact (List.prefix_append_right_inj a).mp h

theorem mem_chainOf {cr pt : Nat} {es : List Entry} {c : CEntry} (h : c ∈ chainOf cr pt es) :
    c.cr = cr ∧ c.e ∈ es := by
  induction es generalizing pt with
  | nil => cases h
  | cons e es ih =>
    simp only [chainOf, List.mem_cons] at h
    rcases h with h | h
    · subst h; exact ⟨rfl, List.mem_cons_self ..⟩
    · obtain ⟨a, b⟩ := ih h
      exact ⟨a, List.mem_cons_of_mem _ b⟩

/-- the entries just recorded form a path attached at `pt` -/
theorem chain_chainOf (cr : Nat) (T : List CEntry) : ∀ (pt : Nat) (es : List Entry) (A : List CEntry),
    (∀ c ∈ chainOf cr pt es, c ∈ A) → Chain (A ++ T) (some pt) es := by
  intro pt es
  induction es generalizing pt with
  | nil => intro A _; trivial
  | cons e es ih =>
    intro A hA
    refine ⟨⟨⟨e, pt, cr⟩, List.mem_append_left _ (hA _ (by simp [chainOf])), rfl, fun pt' hp => ?_⟩, ?_⟩
    · injection hp
    · exact ih e.term A (fun c hc => hA c (by simp only [chainOf, List.mem_cons]; exact Or.inr hc))

/-- two recorded entries with the same index are the same record, when the entries have distinct indexes -/
theorem chainOf_inj (cr : Nat) : ∀ (pt : Nat) (es : List Entry),
    es.Pairwise (fun a b => a.index ≠ b.index) →
    ∀ a ∈ chainOf cr pt es, ∀ b ∈ chainOf cr pt es, a.e.index = b.e.index → a = b := by
  intro pt es
  induction es generalizing pt with
  | nil => intro _ a ha; cases ha
  | cons e es ih =>
    intro hp a ha b hb hab
    obtain ⟨hp1, hp2⟩ := List.pairwise_cons.mp hp
    simp only [chainOf, List.mem_cons] at ha hb
    rcases ha with ha | ha <;> rcases hb with hb | hb
    · rw [ha, hb]
    · subst ha
      exact absurd hab (hp1 _ (mem_chainOf hb).2)
    · subst hb
      exact absurd hab.symm (hp1 _ (mem_chainOf ha).2)
    · exact ih e.term hp2 a ha b hb hab

/-- the entries of a contiguous list beyond position `n` have distinct indexes above `n` -/
theorem contig_drop {es : List Entry} (hc : Contig es) (n : Nat) :
    (es.drop n).Pairwise (fun a b => a.index ≠ b.index) ∧ ∀ e ∈ es.drop n, n < e.index ∧ e.index ≤ es.length := by
  constructor
  · rw [List.pairwise_iff_getElem]
    intro i j hi hj hij
    rw [List.getElem_drop, List.getElem_drop]
    rw [List.length_drop] at hi hj
    rw [hc _ (by omega), hc _ (by omega)]
    omega
  · intro e he
    obtain ⟨k, hk, rfl⟩ := List.getElem_of_mem he
    rw [List.getElem_drop]
    rw [List.length_drop] at hk
    rw [hc _ (by omega)]
    omega

/-! ### who creates entries -/

theorem mem_of_short {V : List Nat} {a b : Nat} (h : V.length / 2 + 1 = 1) (ha : a ∈ V) (hb : b ∈ V) : a = b := by
  match V, h, ha, hb with
  | [v], _, ha, hb => rw [List.mem_singleton.mp ha, List.mem_singleton.mp hb]
  | _ :: _ :: _, h, _, _ => simp at h; omega

theorem node_voter {V : List Nat} {x : Sys} (hI : Inv V x) (hF : FixedV V x.el) (i : Nat)
    (h : (x.el.node i).configs.latest.isVoter (x.el.node i).nid = true) : i ∈ V := by
  have := C01Sys.isVoter_mem_voters _ _ h
  rw [(hI.el.ids i).1, (hF i).2] at this
  exact this

/-- a node that appends to its own log is a voter … -/
theorem story_voter {V : List Nat} {x : Sys} (hI : Inv V x) (hF : FixedV V x.el) (i : Nat) (op : Op) (te : Nat)
    (hs : Story (x.el.node i) op te) : i ∈ V := by
  rcases hs with ⟨h, _⟩ | ⟨h, _, _⟩ | ⟨_, _, h | h⟩
  · exact hI.ldrV i h
  · exact (hI.el.cand i h.1).voter
  · exact (hI.el.cand i h).voter
  · exact node_voter hI hF i h

/-- … and is backed by a majority of grants (already in the ledger before the step) for the entries' term,
unless the quorum is one -/
theorem story_backed {V : List Nat} {x : Sys} (hI : Inv V x) (hF : FixedV V x.el) (i : Nat) (op : Op)
    (src te : Nat) (hr : Counts (x.el.node i) op → RealReply x.el i src) (hs : Story (x.el.node i) op te) :
    V.length / 2 + 1 = 1 ∨ Backed x.el.grants V i te := by
  rcases hs with ⟨h, ht⟩ | ⟨h, h0, ht⟩ | ⟨_, hq, _⟩
  · right; rw [ht]; exact hI.el.backed _ _ (hI.el.recorded i h)
  · right
    rw [ht]
    have ok := hI.el.cand i h.1
    obtain ⟨r1, r2, r3, r4⟩ := hr h
    have hsrcV : src ∈ V := by
      rw [← (hF i).2]; exact C01Sys.isVoter_mem_voters _ _ r2
    have hnotin : src ∉ votersCounted x.el.counted i (x.el.node i).term :=
      fun hm => r4 ((C01Sys.mem_votersCounted _ _ _ _).mp hm)
    refine ⟨i :: src :: votersCounted x.el.counted i (x.el.node i).term, ?_, ?_, ?_, ?_⟩
    · refine List.nodup_cons.mpr ⟨?_, List.nodup_cons.mpr ⟨hnotin, ok.nodup⟩⟩
      intro hm
      rcases List.mem_cons.mp hm with hm | hm
      · exact r1 hm.symm
      · exact (ok.real i hm).2.1 rfl
    · intro v hv
      rcases List.mem_cons.mp hv with hv | hv
      · subst hv; exact ok.voter
      · rcases List.mem_cons.mp hv with hv | hv
        · subst hv; exact hsrcV
        · exact (ok.real v hv).1
    · have := ok.count
      simp only [List.length_cons]
      omega
    · intro v hv
      rcases List.mem_cons.mp hv with hv | hv
      · subst hv; exact ok.self
      · rcases List.mem_cons.mp hv with hv | hv
        · subst hv; exact r3
        · exact (ok.real v hv).2.2
  · left
    rw [C01Sys.quorum_eq, (hF i).2] at hq
    exact hq

/-! ### what a transition of node `i` has to guarantee, and why that preserves the invariant -/

/-- Node `i` (state `x.el.node i`) is replaced by `n'` after handling — completely, or until a crash and
restart — the operation `op`. -/
structure Upd (V : List Nat) (x : Sys) (i : Nat) (op : Op) (n' : Node) : Prop where
  nwf : NWF n'
  term : (x.el.node i).term ≤ n'.term
  ldr : n'.role = .leader →
    ((x.el.node i).role = .leader ∧ n'.term = (x.el.node i).term ∧
      (x.el.node i).lastLogIndex ≤ n'.lastLogIndex) ∨
    ((x.el.node i).role = .candidate ∧ n'.term = (x.el.node i).term) ∨ (x.el.node i).term < n'.term
  cand : n'.role = .candidate →
    ((x.el.node i).role = .candidate ∧ n'.term = (x.el.node i).term) ∨ (x.el.node i).term < n'.term
  ldrV : n'.role = .leader → i ∈ V
  log : ((∃ q, op = .append q) ∧ Chain x.created none n'.log.entries) ∨
    ((∀ q, op ≠ .append q) ∧ (n'.log.entries <+: (x.el.node i).log.entries ∨
      ∃ es te, es ≠ [] ∧ n'.log.entries = (x.el.node i).log.entries ++ es ∧ (∀ e ∈ es, e.term = te) ∧
        te ≤ n'.term ∧ Story (x.el.node i) op te ∧ n'.role ≠ .candidate))

theorem newCreated_append (i : Nat) (pre post : List Entry) (q : AppendReq) :
    newCreated i pre post (.append q) = [] := rfl

theorem newCreated_other (i : Nat) (pre post : List Entry) (op : Op) (h : ∀ q, op ≠ .append q) :
    newCreated i pre post op = chainOf i (lastTerm pre) (post.drop pre.length) := by
  cases op <;> first | rfl | exact absurd rfl (h _)

theorem reqOK_mono {T T' : List CEntry} (h : ∀ c ∈ T, c ∈ T') {q : AppendReq} (hq : ReqOK T q) : ReqOK T' q :=
  ⟨hq.chain.mono h, hq.idx⟩

/-- the ledger update of a transition, described uniformly -/
theorem upd_add {V : List Nat} {x : Sys} {i : Nat} {op : Op} {n' : Node} (hI : Inv V x) (hu : Upd V x i op n') :
    ∃ es te, newCreated i (x.el.node i).log.entries n'.log.entries op =
        chainOf i (lastTerm (x.el.node i).log.entries) es ∧
      Chain (chainOf i (lastTerm (x.el.node i).log.entries) es ++ x.created) none n'.log.entries ∧
      (∀ e ∈ es, e.term = te ∧ (x.el.node i).lastLogIndex < e.index ∧ e.index ≤ n'.lastLogIndex) ∧
      es.Pairwise (fun a b => a.index ≠ b.index) ∧
      (es ≠ [] → te ≤ n'.term ∧ Story (x.el.node i) op te ∧ n'.role ≠ .candidate) := by
  have hpre := hI.nodes i
  rcases hu.log with ⟨⟨q, hq⟩, hc⟩ | ⟨hna, hl⟩
  · subst hq
    exact ⟨[], 0, rfl, hc, (fun e he => by cases he), List.Pairwise.nil, fun h => absurd rfl h⟩
  · rw [newCreated_other _ _ _ _ hna]
    rcases hl with hp | ⟨es, te, hne, he, ht, hle, hs, hnc⟩
    · have : n'.log.entries.drop (x.el.node i).log.entries.length = [] :=
        List.drop_eq_nil_of_le hp.length_le
      rw [this]
      exact ⟨[], 0, rfl, hpre.2.prefix hp, (fun e he => by cases he), List.Pairwise.nil, fun h => absurd rfl h⟩
    · have hd : n'.log.entries.drop (x.el.node i).log.entries.length = es := by
        rw [he, List.drop_left]
      rw [hd]
      obtain ⟨d1, d2⟩ := contig_drop hu.nwf.contig (x.el.node i).log.entries.length
      rw [hd] at d1 d2
      refine ⟨es, te, rfl, ?_, fun e hem => ⟨ht e hem, ?_, ?_⟩, d1, fun _ => ⟨hle, hs, hnc⟩⟩
      · rw [he, chain_append]
        refine ⟨hpre.2.mono (fun c hc => List.mem_append_right _ hc), ?_⟩
        have hch := chain_chainOf i x.created (lastTerm (x.el.node i).log.entries) es _ (fun c hc => hc)
        by_cases hnil : (x.el.node i).log.entries = []
        · rw [hnil] at hch ⊢; exact hch.weaken
        · rw [endO_none_eq _ hnil]; exact hch
      · rw [hpre.1.last]; exact (d2 e hem).1
      · rw [hu.nwf.last]; exact (d2 e hem).2

/-- an entry just created by node `i` cannot collide with one already in the ledger -/
theorem new_old_absurd {V : List Nat} (hV : V.Nodup) {x : Sys} (hI : Inv V x) (hF : FixedV V x.el) (i : Nat)
    (op : Op) (src te : Nat) (hr : Counts (x.el.node i) op → RealReply x.el i src)
    (hs : Story (x.el.node i) op te) (a b : CEntry) (hb : b ∈ x.created)
    (hat : a.e.term = te) (hai : (x.el.node i).lastLogIndex < a.e.index)
    (hidx : a.e.index = b.e.index) (hterm : a.e.term = b.e.term) : False := by
  by_cases h0 : b.cr = 0
  · obtain ⟨i1, i2⟩ := hI.init0 b hb h0 i
    rcases hs with ⟨h, ht⟩ | ⟨h, _, ht⟩ | ⟨hgt, _, _⟩
    · have := i2 (by rw [h]; decide); omega
    · have := i2 (by rw [h.1]; decide); omega
    · omega
  · obtain ⟨o1, o2, o3, o4, o5⟩ := hI.own b hb h0
    have hiV := story_voter hI hF i op te hs
    have hib := story_backed hI hF i op src te hr hs
    have hli : b.cr = i := by
      rcases o2 with q1 | bk
      · exact mem_of_short q1 o1 hiV
      · rcases hib with q1 | bk'
        · exact mem_of_short q1 o1 hiV
        · rw [← hterm, hat] at bk
          exact election_safety_partial x.el.grants V hV hI.el.unique _ _ te bk bk'
    rw [hli] at o3 o4 o5
    rcases hs with ⟨h, ht⟩ | ⟨h, _, ht⟩ | ⟨hgt, _, _⟩
    · have := o4 h (by omega); omega
    · have := o5 h.1; omega
    · omega

/-- **a transition of one node preserves the invariant** when the node update satisfies `Upd`, the election
part of the new state satisfies the election invariant and no grant was lost -/
theorem inv_upd {V : List Nat} (hV : V.Nodup) {x : Sys} (hI : Inv V x) (hF : FixedV V x.el) (i : Nat) (op : Op)
    (src : Nat) (n' : Node) (hi : i ≠ 0) (hr : Counts (x.el.node i) op → RealReply x.el i src)
    (hu : Upd V x i op n') (el' : Election.Sys) (hnode : el'.node = setNode x.el.node i n')
    (hgr : ∀ g ∈ x.el.grants, g ∈ el'.grants) (hel : C01Sys.Inv V el') :
    Inv V { el := el', sent := x.sent,
            created := newCreated i (x.el.node i).log.entries n'.log.entries op ++ x.created } := by
  obtain ⟨es, te, hadd, hchain, hes, hpw, hstory⟩ := upd_add hI hu
  rw [hadd]
  have hni : el'.node i = n' := by rw [hnode, setNode_same]
  have hnj : ∀ j, j ≠ i → el'.node j = x.el.node j := fun j hj => by rw [hnode, setNode_other _ _ _ _ hj]
  have hsub : ∀ c ∈ x.created, c ∈ chainOf i (lastTerm (x.el.node i).log.entries) es ++ x.created :=
    fun c hc => List.mem_append_right _ hc
  have hne : ∀ c ∈ chainOf i (lastTerm (x.el.node i).log.entries) es, es ≠ [] :=
    fun c hc he => by rw [he] at hc; cases hc
  refine ⟨hel, fun j => ?_, fun a ha b hb hidx hterm => ?_, fun q hq => reqOK_mono hsub (hI.sent q hq),
    fun j hj => ?_, fun c hc hc0 j => ?_, fun c hc hc0 => ?_⟩
  · -- nodes
    show NWF (el'.node j) ∧ Chain _ none (el'.node j).log.entries
    by_cases hj : j = i
    · subst hj; rw [hni]; exact ⟨hu.nwf, hchain⟩
    · rw [hnj j hj]; exact ⟨(hI.nodes j).1, (hI.nodes j).2.mono hsub⟩
  · -- uniq
    rcases List.mem_append.mp ha with ha | ha <;> rcases List.mem_append.mp hb with hb | hb
    · exact chainOf_inj i _ es hpw a ha b hb hidx
    · exfalso
      obtain ⟨_, hae⟩ := mem_chainOf ha
      obtain ⟨t1, t2, _⟩ := hes _ hae
      exact new_old_absurd hV hI hF i op src te hr (hstory (hne a ha)).2.1 a b hb t1 t2 hidx hterm
    · exfalso
      obtain ⟨_, hbe⟩ := mem_chainOf hb
      obtain ⟨t1, t2, _⟩ := hes _ hbe
      exact new_old_absurd hV hI hF i op src te hr (hstory (hne b hb)).2.1 b a ha t1 t2 hidx.symm hterm.symm
    · exact hI.uniq a ha b hb hidx hterm
  · -- leaders are voters
    have hj' : (el'.node j).role = .leader := hj
    by_cases hji : j = i
    · subst hji; rw [hni] at hj'; exact hu.ldrV hj'
    · rw [hnj j hji] at hj'; exact hI.ldrV j hj'
  · -- initial entries
    show c.e.term ≤ (el'.node j).term ∧ ((el'.node j).role ≠ .follower → c.e.term < (el'.node j).term)
    rcases List.mem_append.mp hc with hc | hc
    · exact absurd ((mem_chainOf hc).1.symm.trans hc0) hi
    · obtain ⟨i1, i2⟩ := hI.init0 c hc hc0 j
      by_cases hji : j = i
      · subst hji
        rw [hni]
        refine ⟨Nat.le_trans i1 hu.term, fun hrole => ?_⟩
        have ht := hu.term
        cases hr' : n'.role with
        | follower => exact absurd hr' hrole
        | leader =>
          rcases hu.ldr hr' with ⟨a, b, _⟩ | ⟨a, b⟩ | a
          · have := i2 (by rw [a]; decide); omega
          · have := i2 (by rw [a]; decide); omega
          · omega
        | candidate =>
          rcases hu.cand hr' with ⟨a, b⟩ | a
          · have := i2 (by rw [a]; decide); omega
          · omega
      · rw [hnj j hji]; exact ⟨i1, i2⟩
  · -- created entries
    show c.cr ∈ V ∧ (V.length / 2 + 1 = 1 ∨ Backed el'.grants V c.cr c.e.term) ∧
      c.e.term ≤ (el'.node c.cr).term ∧
      ((el'.node c.cr).role = .leader → c.e.term = (el'.node c.cr).term → c.e.index ≤ (el'.node c.cr).lastLogIndex) ∧
      ((el'.node c.cr).role = .candidate → c.e.term < (el'.node c.cr).term)
    rcases List.mem_append.mp hc with hc | hc
    · obtain ⟨hcr, hce⟩ := mem_chainOf hc
      obtain ⟨t1, _, t3⟩ := hes _ hce
      obtain ⟨s1, s2, s3⟩ := hstory (hne c hc)
      rw [hcr, hni, t1]
      refine ⟨story_voter hI hF i op te s2, ?_, s1, fun _ _ => t3, fun h => absurd h s3⟩
      exact (story_backed hI hF i op src te hr s2).imp id (C01Sys.backed_mono hgr)
    · obtain ⟨o1, o2, o3, o4, o5⟩ := hI.own c hc hc0
      refine ⟨o1, o2.imp id (C01Sys.backed_mono hgr), ?_⟩
      by_cases hji : c.cr = i
      · rw [hji] at o3 o4 o5 ⊢
        rw [hni]
        have ht := hu.term
        refine ⟨Nat.le_trans o3 ht, fun hl heq => ?_, fun hcd => ?_⟩
        · rcases hu.ldr hl with ⟨a, b, d⟩ | ⟨a, b⟩ | a
          · exact Nat.le_trans (o4 a (by omega)) d
          · have := o5 a; omega
          · omega
        · rcases hu.cand hcd with ⟨a, b⟩ | a
          · have := o5 a; omega
          · omega
      · rw [hnj _ hji]; exact ⟨o3, o4, o5⟩

/-! ### a completed step -/

theorem enabled_req {V : List Nat} {x : Sys} (hI : Inv V x) {i : Nat} {q : AppendReq} {src : Nat}
    (he : Enabled x i (.append q) src) : q.term < (x.el.node i).term ∨ ReqOK x.created q :=
  (he.append q rfl).imp id (fun h => hI.sent q h)

theorem upd_step {V : List Nat} {x : Sys} (hI : Inv V x) (hF : FixedV V x.el) (i : Nat) (op : Op)
    (ra : List Nat) (ord : List (List Nat)) (src : Nat) (he : Enabled x i op src) :
    Upd V x i op ((x.el.node i).step op ra ord) := by
  have hwf := (hI.el.ids i).2
  have hboot := (hF i).1
  have hc : (x.el.node i).role = .candidate → (x.el.node i).term ≠ 0 := fun h => (hI.el.cand i h).term_pos
  have rs := role_step (x.el.node i) op ra ord hc
  obtain ⟨hvs, _, _⟩ := C05.step_vote_stable (x.el.node i) op ra ord hwf
  -- the log part
  have hlog : NWF ((x.el.node i).step op ra ord) ∧
      (((x.el.node i).step op ra ord).role = .leader →
        (x.el.node i).lastLogIndex ≤ ((x.el.node i).step op ra ord).lastLogIndex) ∧
      (((∃ q, op = .append q) ∧ Chain x.created none ((x.el.node i).step op ra ord).log.entries) ∨
       ((∀ q, op ≠ .append q) ∧ (((x.el.node i).step op ra ord).log.entries <+: (x.el.node i).log.entries ∨
         ∃ es te, es ≠ [] ∧ ((x.el.node i).step op ra ord).log.entries = (x.el.node i).log.entries ++ es ∧
           (∀ e ∈ es, e.term = te) ∧ te ≤ ((x.el.node i).step op ra ord).term ∧
           Story (x.el.node i) op te ∧ ((x.el.node i).step op ra ord).role ≠ .candidate))) := by
    by_cases happ : ∃ q, op = .append q
    · obtain ⟨q, hq⟩ := happ
      subst hq
      have fi := follower_step (T := x.created) (x.el.node i) q ra ord (hI.nodes i).1 (hI.nodes i).2
        (enabled_req hI he)
      refine ⟨fi.nwf, fun hl => ?_, Or.inl ⟨⟨q, rfl⟩, fi.chain⟩⟩
      by_cases hst : q.term < (x.el.node i).term
      · have e := (append_step_stale (x.el.node i) q ra ord hst).1
        unfold LCore at e
        simp only [Prod.mk.injEq] at e
        rw [e.2.1]; exact Nat.le_refl _
      · rw [append_step_role (x.el.node i) q ra ord hst] at hl; cases hl
    · have hna : ∀ q, op ≠ .append q := fun q hq => happ ⟨q, hq⟩
      have ls := leader_step (x.el.node i) op ra ord (hI.nodes i).1 hwf hboot he.ok hna hc
      obtain ⟨es, te, h1, h2, h3, h4, _⟩ := ls.ext
      refine ⟨ls.nwf, fun _ => ?_, Or.inr ⟨hna, ?_⟩⟩
      · rw [ls.nwf.last, (hI.nodes i).1.last, h1, List.length_append]; omega
      · by_cases hes : es = []
        · left; rw [h1, hes, List.append_nil]; exact List.prefix_refl _
        · right; exact ⟨es, te, hes, h1, h2, h3, (h4 hes).1, (h4 hes).2⟩
  obtain ⟨l1, l2, l3⟩ := hlog
  refine ⟨l1, hvs.1, fun hl => ?_, fun hcd => ?_, fun hl => ?_, l3⟩
  · rcases rs.leader hl with ⟨a, b⟩ | ⟨a, _, b⟩ | ne
    · exact Or.inl ⟨a, b, l2 hl⟩
    · exact Or.inr (Or.inl ⟨a.1, b⟩)
    · exact Or.inr (Or.inr ne.term_gt)
  · rcases rs.candidate hcd with ⟨a, b, _⟩ | ne
    · exact Or.inl ⟨a, b⟩
    · exact Or.inr ne.term_gt
  · rcases rs.leader hl with ⟨a, _⟩ | ⟨a, _, _⟩ | ne
    · exact hI.ldrV i a
    · exact (hI.el.cand i a.1).voter
    · obtain ⟨_, _, ec, n3, n4, _, _⟩ := ne
      rcases n4 with n4 | n4
      · exact (hI.el.cand i n4).voter
      · rw [n3 hboot] at n4; exact node_voter hI hF i n4

/-! ### a crash during a step, and the restart -/

/-- what is on disk when the process dies: what was there before the step, at one of its crash points, or
after it -/
theorem crashDisk_cases (s : Node) (op : Op) (ra : List Nat) (ord : List (List Nat)) (k : Nat) :
    C05.crashDisk s op ra ord k = s.durable ∨
    (∃ p ∈ (s.step op ra ord).trace, C05.crashDisk s op ra ord k = p.2) ∨
    C05.crashDisk s op ra ord k = (s.step op ra ord).durable := by
  cases k with
  | zero => exact Or.inl rfl
  | succ k =>
    simp only [C05.crashDisk]
    split
    · rename_i p hp
      exact Or.inr (Or.inl ⟨p, List.mem_of_getElem? hp, rfl⟩)
    · exact Or.inr (Or.inr rfl)

/-- the disk at a crash of a step that is not an append request -/
theorem crash_disk_other {pre post : Node} {op : Op} (hn : NWF pre) (hwf' : C05.VoteWF post)
    (ls : LStep pre op post) (d : Durable)
    (hd : d = pre.durable ∨ (∃ p ∈ post.trace, d = p.2) ∨ d = post.durable) :
    d.snaps = [] ∧ d.log.prev = 0 ∧ Contig d.log.entries ∧
    (d.log.entries <+: pre.log.entries ∨
      ∃ es te, es ≠ [] ∧ d.log.entries = pre.log.entries ++ es ∧ (∀ e ∈ es, e.term = te) ∧ te ≤ d.term ∧
        Story pre op te) := by
  obtain ⟨es, te, h1, h2, _, h4, h5⟩ := ls.ext
  have key : d.snaps = [] ∧ d.log.prev = 0 ∧
      (d.log.entries <+: pre.log.entries ∨ (d.log.entries <+: post.log.entries ∧ te ≤ d.term)) := by
    rcases hd with hd | ⟨p, hp, hd⟩ | hd
    · rw [hd]; exact ⟨hn.snaps, hn.prev, Or.inl (List.take_prefix _ _)⟩
    · rw [hd]; exact h5 p hp
    · rw [hd]
      refine ⟨ls.nwf.snaps, ls.nwf.prev, Or.inr ⟨List.take_prefix _ _, ?_⟩⟩
      show te ≤ post.durTerm
      rw [hwf'.1]; omega
  obtain ⟨k1, k2, k3⟩ := key
  rcases k3 with k3 | ⟨k3, k4⟩
  · exact ⟨k1, k2, contig_prefix hn.contig k3, Or.inl k3⟩
  · refine ⟨k1, k2, contig_prefix ls.nwf.contig k3, ?_⟩
    rw [h1] at k3
    rcases prefix_append_cases k3 with k3 | ⟨es', e1, e2, e3⟩
    · exact Or.inl k3
    · have hes : es ≠ [] := by
        intro he; rw [he] at e2
        exact e1 (List.prefix_nil.mp e2)
      exact Or.inr ⟨es', te, e1, e3, fun e he => h2 e (e2.subset he), k4, (h4 hes).1⟩

theorem upd_crash {V : List Nat} {x : Sys} (hI : Inv V x) (hF : FixedV V x.el) (i : Nat) (op : Op)
    (ra : List Nat) (ord : List (List Nat)) (src k retain : Nat) (sor : Bool) (n : Node)
    (he : Enabled x i op src)
    (hn : Node.restart (C05.crashDisk (x.el.node i) op ra ord k) retain sor = some n) :
    Upd V x i op n := by
  have hwf := (hI.el.ids i).2
  have hboot := (hF i).1
  have hc : (x.el.node i).role = .candidate → (x.el.node i).term ≠ 0 := fun h => (hI.el.cand i h).term_pos
  obtain ⟨_, hwf', _⟩ := C05.step_vote_stable (x.el.node i) op ra ord hwf
  obtain ⟨r1, _, _⟩ := C05.restart_reads_durable _ _ _ _ hn
  have hdur := Election.crashDisk_durStep (x.el.node i) op ra ord k hwf
  have hcases := crashDisk_cases (x.el.node i) op ra ord k
  generalize C05.crashDisk (x.el.node i) op ra ord k = d at hn r1 hdur hcases
  -- the disk
  have hdisk : d.snaps = [] ∧ d.log.prev = 0 ∧ Contig d.log.entries ∧
      (((∃ q, op = .append q) ∧ Chain x.created none d.log.entries) ∨
       ((∀ q, op ≠ .append q) ∧ (d.log.entries <+: (x.el.node i).log.entries ∨
         ∃ es te, es ≠ [] ∧ d.log.entries = (x.el.node i).log.entries ++ es ∧ (∀ e ∈ es, e.term = te) ∧
           te ≤ d.term ∧ Story (x.el.node i) op te))) := by
    by_cases happ : ∃ q, op = .append q
    · obtain ⟨q, hq⟩ := happ
      subst hq
      have fi := follower_step (T := x.created) (x.el.node i) q ra ord (hI.nodes i).1 (hI.nodes i).2
        (enabled_req hI he)
      have hd : DiskOK x.created d := by
        rcases hcases with hd | ⟨p, hp, hd⟩ | hd
        · rw [hd]; exact diskOK_durable (hI.nodes i).1 (hI.nodes i).2
        · rw [hd]; exact fi.tr p hp
        · rw [hd]; exact diskOK_durable fi.nwf fi.chain
      exact ⟨hd.1, hd.2.1, hd.2.2.2, Or.inl ⟨⟨q, rfl⟩, hd.2.2.1⟩⟩
    · have hna : ∀ q, op ≠ .append q := fun q hq => happ ⟨q, hq⟩
      have ls := leader_step (x.el.node i) op ra ord (hI.nodes i).1 hwf hboot he.ok hna hc
      obtain ⟨a, b, c, e⟩ := crash_disk_other (hI.nodes i).1 hwf' ls d hcases
      exact ⟨a, b, c, Or.inr ⟨hna, e⟩⟩
  obtain ⟨d1, d2, d3, d4⟩ := hdisk
  obtain ⟨n1, n2, n3, _⟩ := restart_nwf d retain sor n hn d1 d2 d3
  have hnl : n.role = .leader → False := fun hl => by rw [n3] at hl; cases hl
  have hnc : n.role = .candidate → False := fun hl => by rw [n3] at hl; cases hl
  refine ⟨n1, (by rw [r1]; exact hdur.1), fun hl => (hnl hl).elim, fun hl => (hnc hl).elim,
    fun hl => (hnl hl).elim, ?_⟩
  rw [n2]
  rcases d4 with ⟨a, b⟩ | ⟨a, b⟩
  · exact Or.inl ⟨a, b⟩
  · refine Or.inr ⟨a, b.imp id ?_⟩
    rintro ⟨es, te, e1, e2, e3, e4, e5⟩
    exact ⟨es, te, e1, e2, e3, (by rw [r1]; exact e4), e5, (by rw [n3]; decide)⟩

/-! ### sending, and the invariant in every reachable state -/

/-- what a leader reads from its log is a slice of the tree -/
theorem readFrom_reqOK {T : List CEntry} {s : Node} {q : AppendReq} (hn : NWF s)
    (hc : Chain T none s.log.entries) (hr : ReadFrom s q) : ReqOK T q := by
  obtain ⟨n, hn'⟩ := hr.entries
  constructor
  · rw [hn', hr.prevTerm]
    apply Chain.take
    have h1 : Chain T none (s.log.entries.take q.prevLogIndex ++ s.log.entries.drop q.prevLogIndex) := by
      rw [List.take_append_drop]; exact hc
    have h2 := (chain_append.mp h1).2
    by_cases h0 : q.prevLogIndex = 0
    · rw [if_pos h0]
      rw [h0] at h2 ⊢
      exact h2
    · rw [if_neg h0]
      rw [endO_take none _ _ (by omega) hr.prev] at h2
      exact h2
  · intro k hk
    have hk' : k < ((s.log.entries.drop q.prevLogIndex).take n).length := by rw [← hn']; exact hk
    have e : q.entries[k] = ((s.log.entries.drop q.prevLogIndex).take n)[k] := by simp only [hn']
    rw [e, List.getElem_take, List.getElem_drop]
    rw [List.length_take, List.length_drop] at hk'
    rw [hn.contig _ (by omega)]

theorem inv_send {V : List Nat} {x : Sys} (hI : Inv V x) (i : Nat) (q : AppendReq)
    (hr : ReadFrom (x.el.node i) q) : Inv V { x with sent := q :: x.sent } := by
  refine ⟨hI.el, hI.nodes, hI.uniq, fun q' hq' => ?_, hI.ldrV, hI.init0, hI.own⟩
  rcases List.mem_cons.mp hq' with h | h
  · subst h; exact readFrom_reqOK (hI.nodes i).1 (hI.nodes i).2 hr
  · exact hI.sent q' h

theorem inv_trans {V : List Nat} (hV : V.Nodup) {x y : Sys} (hI : Inv V x) (hF : FixedV V x.el)
    (ht : Trans x y) : Inv V y := by
  cases ht with
  | step i op ra ord src he =>
    exact inv_upd hV hI hF i op src _ he.id he.real (upd_step hI hF i op ra ord src he)
      (stepSys x.el i op ra ord src) rfl
      (fun g hg => List.mem_append_right _ (List.mem_append_right _ hg))
      (C01Sys.inv_step V x.el hI.el hF i op ra ord src he.id he.voteSrc he.real)
  | crash i op ra ord src k retain sor n he hn =>
    exact inv_upd hV hI hF i op src n he.id he.real (upd_crash hI hF i op ra ord src k retain sor n he hn)
      { x.el with node := setNode x.el.node i n } rfl (fun g hg => hg)
      (C01Sys.inv_crash V x.el hI.el i op ra ord k retain sor n hn)
  | send i q _ _ hr => exact inv_send hI i q hr

theorem inv_reachable {V : List Nat} (hV : V.Nodup) {x : Sys} (h : ReachableV V x) :
    Inv V x ∧ FixedV V x.el := by
  induction h with
  | init x hi hf => exact ⟨inv_init V x hi, hf⟩
  | next x y _ ht hf ih => exact ⟨inv_trans hV ih.1 ih.2 ht, hf⟩

/-! ### matching of two slices of the tree -/

/-- the entry with index `i` of a slice that starts after index `p` -/
def segGet (p : Nat) (es : List Entry) (i : Nat) : Option Entry := if p < i then es[i - p - 1]? else none

/-- a slice of the tree: entries with the indexes `p+1, p+2, …` forming a path in `T` attached at `o` -/
structure Seg (T : List CEntry) (p : Nat) (o : Option Nat) (es : List Entry) : Prop where
  chain : Chain T o es
  idx : ∀ k (h : k < es.length), es[k].index = p + k + 1

theorem chain_get {T : List CEntry} : ∀ {es : List Entry} {o : Option Nat}, Chain T o es →
    ∀ k x, es[k]? = some x → ∃ c ∈ T, c.e = x ∧ (∀ y, 1 ≤ k → es[k - 1]? = some y → c.pt = y.term) ∧
      (k = 0 → ∀ pt, o = some pt → c.pt = pt) := by
  intro es
  induction es with
  | nil => intro o _ k x hx; simp at hx
  | cons e es ih =>
    intro o hc k x hx
    obtain ⟨⟨c, hcT, hce, hcp⟩, hrest⟩ := hc
    cases k with
    | zero =>
      simp only [List.getElem?_cons_zero, Option.some.injEq] at hx
      subst hx
      exact ⟨c, hcT, hce, fun y h1 _ => absurd h1 (by omega), fun _ => hcp⟩
    | succ k =>
      simp only [List.getElem?_cons_succ] at hx
      obtain ⟨c', hc'T, hc'e, hc'1, hc'0⟩ := ih hrest k x hx
      refine ⟨c', hc'T, hc'e, fun y _ hy => ?_, fun h0 => absurd h0 (by omega)⟩
      simp only [Nat.add_sub_cancel] at hy
      cases k with
      | zero =>
        simp only [List.getElem?_cons_zero, Option.some.injEq] at hy
        subst hy
        exact hc'0 rfl _ rfl
      | succ k =>
        simp only [List.getElem?_cons_succ] at hy
        exact hc'1 y (by omega) (by simpa using hy)

theorem segGet_some {p : Nat} {es : List Entry} {i : Nat} {x : Entry} (h : segGet p es i = some x) :
    p < i ∧ es[i - p - 1]? = some x := by
  unfold segGet at h
  split at h
  · exact ⟨‹_›, h⟩
  · cases h

theorem seg_index {T : List CEntry} {p : Nat} {o : Option Nat} {es : List Entry} (s : Seg T p o es) {i : Nat}
    {x : Entry} (h : segGet p es i = some x) : x.index = i := by
  obtain ⟨h1, h2⟩ := segGet_some h
  obtain ⟨hk, he⟩ := List.getElem?_eq_some_iff.mp h2
  rw [← he, s.idx _ hk]; omega

/-- one step of the matching argument: two slices that hold entries with the same term at index `i` hold the
same entry there, and the entries they hold at `i-1` (if any) have the same term; a slice that starts at `i`
(its first entry) is attached with the term the other slice holds at `i-1` -/
theorem seg_step {T : List CEntry} (hU : Uniq T) {pa pb : Nat} {oa ob : Option Nat} {a b : List Entry}
    (sa : Seg T pa oa a) (sb : Seg T pb ob b) (i : Nat) (x y : Entry) (hx : segGet pa a i = some x)
    (hy : segGet pb b i = some y) (ht : x.term = y.term) :
    x = y ∧
    (∀ x1 y1, segGet pa a (i - 1) = some x1 → segGet pb b (i - 1) = some y1 → x1.term = y1.term) ∧
    (i = pa + 1 → ∀ pt, oa = some pt → ∀ y1, segGet pb b (i - 1) = some y1 → y1.term = pt) := by
  obtain ⟨ax, hxe⟩ := segGet_some hx
  obtain ⟨bx, hye⟩ := segGet_some hy
  obtain ⟨ca, hca, ea, ca1, ca0⟩ := chain_get sa.chain _ _ hxe
  obtain ⟨cb, hcb, eb, cb1, cb0⟩ := chain_get sb.chain _ _ hye
  have hcc : ca = cb := hU ca hca cb hcb (by rw [ea, eb, seg_index sa hx, seg_index sb hy]) (by rw [ea, eb]; exact ht)
  refine ⟨by rw [← ea, ← eb, hcc], fun x1 y1 hx1 hy1 => ?_, fun hi pt hpt y1 hy1 => ?_⟩
  · obtain ⟨a1, hx1e⟩ := segGet_some hx1
    obtain ⟨b1, hy1e⟩ := segGet_some hy1
    have e1 : i - 1 - pa - 1 = i - pa - 1 - 1 := by omega
    have e2 : i - 1 - pb - 1 = i - pb - 1 - 1 := by omega
    rw [e1] at hx1e
    rw [e2] at hy1e
    rw [← ca1 x1 (by omega) hx1e, ← cb1 y1 (by omega) hy1e, hcc]
  · obtain ⟨b1, hy1e⟩ := segGet_some hy1
    have e2 : i - 1 - pb - 1 = i - pb - 1 - 1 := by omega
    rw [e2] at hy1e
    rw [← cb1 y1 (by omega) hy1e, ← hcc]
    exact ca0 (by omega) pt hpt

/-- **matching of two slices**: if they hold entries with the same term at index `i`, they hold the same
entry at every index `j ≤ i` that both hold. -/
theorem seg_match {T : List CEntry} (hU : Uniq T) {pa pb : Nat} {oa ob : Option Nat} {a b : List Entry}
    (sa : Seg T pa oa a) (sb : Seg T pb ob b) : ∀ (d i j : Nat), i = j + d → ∀ x y,
    segGet pa a i = some x → segGet pb b i = some y → x.term = y.term →
    ∀ x' y', segGet pa a j = some x' → segGet pb b j = some y' → x' = y' := by
  intro d
  induction d with
  | zero =>
    intro i j hij x y hx hy ht x' y' hx' hy'
    have : i = j := by omega
    subst this
    rw [hx] at hx'; rw [hy] at hy'
    injection hx' with hx'; injection hy' with hy'
    rw [← hx', ← hy']
    exact (seg_step hU sa sb i x y hx hy ht).1
  | succ d ih =>
    intro i j hij x y hx hy ht x' y' hx' hy'
    obtain ⟨ai, hxe⟩ := segGet_some hx
    obtain ⟨bi, hye⟩ := segGet_some hy
    obtain ⟨aj, _⟩ := segGet_some hx'
    obtain ⟨bj, _⟩ := segGet_some hy'
    obtain ⟨hka, _⟩ := List.getElem?_eq_some_iff.mp hxe
    obtain ⟨hkb, _⟩ := List.getElem?_eq_some_iff.mp hye
    have hx1 : segGet pa a (i - 1) = some (a[i - 1 - pa - 1]'(by omega)) := by
      unfold segGet; rw [if_pos (by omega)]; exact List.getElem?_eq_getElem _
    have hy1 : segGet pb b (i - 1) = some (b[i - 1 - pb - 1]'(by omega)) := by
      unfold segGet; rw [if_pos (by omega)]; exact List.getElem?_eq_getElem _
    have ht1 := (seg_step hU sa sb i x y hx hy ht).2.1 _ _ hx1 hy1
    exact ih (i - 1) j (by omega) _ _ hx1 hy1 ht1 x' y' hx' hy'

/-! ### the theorems -/

theorem chain_mem {T : List CEntry} : ∀ {es : List Entry} {o : Option Nat}, Chain T o es →
    ∀ e ∈ es, ∃ c ∈ T, c.e = e := by
  intro es
  induction es with
  | nil => intro o _ e he; cases he
  | cons x xs ih =>
    intro o hc e he
    obtain ⟨⟨c, hcT, hce, _⟩, hrest⟩ := hc
    rcases List.mem_cons.mp he with h | h
    · subst h; exact ⟨c, hcT, hce⟩
    · exact ih hrest e h

theorem log_seg {V : List Nat} {x : Sys} (hI : Inv V x) (i : Nat) :
    Seg x.created 0 none (x.el.node i).log.entries :=
  ⟨(hI.nodes i).2, fun k h => by rw [(hI.nodes i).1.contig k h]; omega⟩

theorem log_get {V : List Nat} {x : Sys} (hI : Inv V x) (i k : Nat) :
    (x.el.node i).log.get? k = segGet 0 (x.el.node i).log.entries k := by
  rw [(hI.nodes i).1.get?]
  unfold segGet
  rw [Nat.sub_zero]

theorem req_seg {V : List Nat} {x : Sys} (hI : Inv V x) (q : AppendReq) (hq : q ∈ x.sent) :
    Seg x.created q.prevLogIndex (if q.prevLogIndex = 0 then none else some q.prevLogTerm) q.entries :=
  ⟨(hI.sent q hq).chain, (hI.sent q hq).idx⟩

/-- **C04, log matching, cluster level — fixed voter set, no snapshots (partial).**
Let `V` be a duplicate-free list of node ids and `x` any state of the cluster reachable in the transition
system `Raft.Replication` (Sys/Replication.lean): from an initial state in which the nodes' logs pairwise
match (`Replication.Init`), by ANY sequence of: a node handling any enabled operation with any content and
oracle (`Node.step`); a node dying at any storage point of such a step and restarting from disk; a leader
putting on the wire an append request read from its log — where "enabled" means: append requests that are
not refused as stale were really sent (any sent request may be delivered to any node, any number of times, in
any order, or never); counted vote responses are real replies (`Election.RealReply`); **restrictions
(`_partial`)**: the voters of every node's latest configuration are `V` in every state (no membership change),
and no snapshot is ever installed, taken or published and no log is ever compacted (`LogRel.OpOK`; truncation
on conflict, crashes losing unflushed suffixes, restarts ARE covered).
Then: if the logs of nodes `i` and `j` hold entries with the same term at index `k`, then at every index
`k' ≤ k` that both logs hold they hold the SAME entry — index, term, type, payload and configuration. -/
theorem log_matching_sys_partial (V : List Nat) (hV : V.Nodup) (x : Sys) (h : ReachableV V x) (i j k : Nat)
    (a b : Entry) (ha : (x.el.node i).log.get? k = some a) (hb : (x.el.node j).log.get? k = some b)
    (ht : a.term = b.term) :
    ∀ k', k' ≤ k → ∀ a' b', (x.el.node i).log.get? k' = some a' → (x.el.node j).log.get? k' = some b' → a' = b' := by
  obtain ⟨hI, _⟩ := inv_reachable hV h
  intro k' hk a' b' ha' hb'
  rw [log_get hI] at ha hb ha' hb'
  exact seg_match hI.uniq (log_seg hI i) (log_seg hI j) (k - k') k k' (by omega) a b ha hb ht a' b' ha' hb'

/-- **a log and a request on the wire** (same assumptions): every request in `sent` is a slice of the tree of
created entries (`ReqOK`: contiguous indexes from `prevLogIndex+1`, each entry recorded with the term of its
predecessor, the first one with `prevLogTerm`); if a request and a node's log hold entries with the same term
at index `k`, they hold the same entry at every index `k' ≤ k` that both hold, and if the log also holds the
request's `prevLogIndex` (≥ 1) its entry there has term `prevLogTerm` — the consistency check of
`onAppendEntriesRequest` would succeed. -/
theorem request_consistent_partial (V : List Nat) (hV : V.Nodup) (x : Sys) (h : ReachableV V x)
    (q : AppendReq) (hq : q ∈ x.sent) :
    ReqOK x.created q ∧
    ∀ (j k : Nat) (e b : Entry), segGet q.prevLogIndex q.entries k = some e →
      (x.el.node j).log.get? k = some b → e.term = b.term →
      (∀ k', k' ≤ k → ∀ e' b', segGet q.prevLogIndex q.entries k' = some e' →
        (x.el.node j).log.get? k' = some b' → e' = b') ∧
      (∀ b0, (x.el.node j).log.get? q.prevLogIndex = some b0 → b0.term = q.prevLogTerm) := by
  obtain ⟨hI, _⟩ := inv_reachable hV h
  refine ⟨hI.sent q hq, fun j k e b he hb ht => ?_⟩
  rw [log_get hI] at hb
  have sq := req_seg hI q hq
  have sl := log_seg hI j
  have hm := seg_match hI.uniq sq sl
  refine ⟨fun k' hk e' b' he' hb' => ?_, fun b0 hb0 => ?_⟩
  · rw [log_get hI] at hb'
    exact hm (k - k') k k' (by omega) e b he hb ht e' b' he' hb'
  · rw [log_get hI] at hb0
    obtain ⟨h0, hb0e⟩ := segGet_some hb0
    obtain ⟨hpk, hee⟩ := segGet_some he
    obtain ⟨hkb, hbe⟩ := segGet_some hb
    obtain ⟨hl1, _⟩ := List.getElem?_eq_some_iff.mp hee
    obtain ⟨hl2, _⟩ := List.getElem?_eq_some_iff.mp hbe
    -- both hold index prevLogIndex + 1
    have he1 : segGet q.prevLogIndex q.entries (q.prevLogIndex + 1) = some (q.entries[0]'(by omega)) := by
      unfold segGet
      rw [if_pos (by omega)]
      have : q.prevLogIndex + 1 - q.prevLogIndex - 1 = 0 := by omega
      rw [this]; exact List.getElem?_eq_getElem _
    have hb1 : segGet 0 (x.el.node j).log.entries (q.prevLogIndex + 1) =
        some ((x.el.node j).log.entries[q.prevLogIndex]'(by omega)) := by
      unfold segGet
      rw [if_pos (by omega)]
      have : q.prevLogIndex + 1 - 0 - 1 = q.prevLogIndex := by omega
      rw [this]; exact List.getElem?_eq_getElem _
    have heq := hm (k - (q.prevLogIndex + 1)) k (q.prevLogIndex + 1) (by omega) e b he hb ht _ _ he1 hb1
    have st := (seg_step hI.uniq sq sl (q.prevLogIndex + 1) _ _ he1 hb1 (by rw [heq])).2.2 rfl
      q.prevLogTerm (by rw [if_neg (by omega)]) b0
    exact st (by rw [Nat.add_sub_cancel]; exact hb0)

/-- two requests on the wire (same assumptions): same term at index `k` ⇒ same entries at every index up to
`k` that both carry. -/
theorem requests_match_partial (V : List Nat) (hV : V.Nodup) (x : Sys) (h : ReachableV V x)
    (q q' : AppendReq) (hq : q ∈ x.sent) (hq' : q' ∈ x.sent) (k : Nat) (e e' : Entry)
    (he : segGet q.prevLogIndex q.entries k = some e) (he' : segGet q'.prevLogIndex q'.entries k = some e')
    (ht : e.term = e'.term) :
    ∀ k', k' ≤ k → ∀ a a', segGet q.prevLogIndex q.entries k' = some a →
      segGet q'.prevLogIndex q'.entries k' = some a' → a = a' := by
  obtain ⟨hI, _⟩ := inv_reachable hV h
  intro k' hk a a' ha ha'
  exact seg_match hI.uniq (req_seg hI q hq) (req_seg hI q' hq') (k - k') k k' (by omega) e e' he he' ht a a' ha ha'

/-- **no (index, term) is created twice with different content** (same assumptions): the ledger `created`
(every entry any leader ever appended to its own log, with the term of its predecessor and its creator, plus
the entries of the initial logs; it only grows, see `created_mono`) holds at most one record per
(index, term); every entry of every node's log and of every request on the wire is recorded in it. -/
theorem entry_created_once_partial (V : List Nat) (hV : V.Nodup) (x : Sys) (h : ReachableV V x) :
    (∀ a ∈ x.created, ∀ b ∈ x.created, a.e.index = b.e.index → a.e.term = b.e.term → a = b) ∧
    (∀ i k e, (x.el.node i).log.get? k = some e → ∃ c ∈ x.created, c.e = e) ∧
    (∀ q ∈ x.sent, ∀ e ∈ q.entries, ∃ c ∈ x.created, c.e = e) := by
  obtain ⟨hI, _⟩ := inv_reachable hV h
  refine ⟨hI.uniq, fun i k e he => ?_, fun q hq e he => chain_mem (hI.sent q hq).chain e he⟩
  rw [(hI.nodes i).1.get?] at he
  split at he
  · exact chain_mem (hI.nodes i).2 e (List.mem_of_getElem? he)
  · cases he

theorem created_mono {x y : Sys} (h : Trans x y) : ∀ c ∈ x.created, c ∈ y.created := by
  cases h with
  | step i op ra ord src _ => exact fun c hc => List.mem_append_right _ hc
  | crash i op ra ord src k retain sor n _ _ => exact fun c hc => List.mem_append_right _ hc
  | send i q _ _ _ => exact fun c hc => hc

theorem sent_mono {x y : Sys} (h : Trans x y) : ∀ q ∈ x.sent, q ∈ y.sent := by
  cases h with
  | step i op ra ord src _ => exact fun c hc => hc
  | crash i op ra ord src k retain sor n _ _ => exact fun c hc => hc
  | send i q _ _ _ => exact fun c hc => List.mem_cons_of_mem _ hc

/-- a run from `x` to `y` with membership `V` in every state passed -/
inductive RunV (V : List Nat) (x : Sys) : Sys → Prop
  | refl : RunV V x x
  | next (y z : Sys) : RunV V x y → Trans y z → FixedV V z.el → RunV V x z

theorem run_reachable {V : List Nat} {x y : Sys} (hx : ReachableV V x) (h : RunV V x y) :
    ReachableV V y ∧ ∀ c ∈ x.created, c ∈ y.created := by
  induction h with
  | refl => exact ⟨hx, fun c hc => hc⟩
  | next y z _ ht hf ih => exact ⟨.next y z ih.1 ht hf, fun c hc => created_mono ht c (ih.2 c hc)⟩

/-- **…ever**: an entry recorded as created in some reachable state and an entry with the same index and term
recorded in any later state of the run are the same entry (same type, payload, configuration, predecessor
term and creator). -/
theorem entry_created_once_ever_partial (V : List Nat) (hV : V.Nodup) (x y : Sys) (hx : ReachableV V x)
    (hrun : RunV V x y) (a b : CEntry) (ha : a ∈ x.created) (hb : b ∈ y.created)
    (hi : a.e.index = b.e.index) (ht : a.e.term = b.e.term) : a = b := by
  obtain ⟨hy, hmono⟩ := run_reachable hx hrun
  exact (entry_created_once_partial V hV y hy).1 a (hmono a ha) b hb hi ht

/-- who created what (same assumptions): an entry created by node `l ≠ 0` carries a term in which `l` was
backed by a majority of `V` (or `V` has a single member), so by election safety all entries of one term were
created by one node. -/
theorem one_creator_per_term_partial (V : List Nat) (hV : V.Nodup) (x : Sys) (h : ReachableV V x)
    (a b : CEntry) (ha : a ∈ x.created) (hb : b ∈ x.created) (ha0 : a.cr ≠ 0) (hb0 : b.cr ≠ 0)
    (ht : a.e.term = b.e.term) : a.cr = b.cr := by
  obtain ⟨hI, _⟩ := inv_reachable hV h
  obtain ⟨a1, a2, _⟩ := hI.own a ha ha0
  obtain ⟨b1, b2, _⟩ := hI.own b hb hb0
  rcases a2 with q | a2
  · exact mem_of_short q a1 b1
  · rcases b2 with q | b2
    · exact mem_of_short q a1 b1
    · rw [ht] at a2
      exact election_safety_partial x.el.grants V hV hI.el.unique _ _ _ a2 b2

/-! ### `Trans.send` and the replication step function of Model/Repl.lean -/

theorem filterMap_range_getElem? (l : List Entry) : ∀ n, (List.range n).filterMap (fun k => l[k]?) = l.take n := by
  intro n
  induction n with
  | zero => simp
  | succ n ih =>
    rw [List.range_succ, List.filterMap_append, ih, List.take_add_one]
    cases h : l[n]? <;> simp [h]

theorem writeAppend_entries (s : Node) (hn : NWF s) (st : Repl.State) (b : Bool) (q : AppendReq)
    (h : (Repl.writeAppend st { log := s.log, snapIndex := s.snapIndex, snapTerm := s.snapTerm } b).append = some q)
    (h1 : 1 ≤ st.nextIndex) : ∃ n, q.entries = (s.log.entries.drop q.prevLogIndex).take n := by
  unfold Repl.writeAppend at h
  extract_lets prev pt n es at h
  generalize hpt : pt = ptv at h
  match ptv, hpt with
  | .error p, _ => simp at h
  | .ok none, _ => simp at h
  | .ok (some prevTerm), _ =>
    dsimp only at h
    split at h
    · simp at h
    · split at h
      · simp at h
      · simp only [Option.some.injEq] at h
        rw [← h]
        refine ⟨n, ?_⟩
        show es = (s.log.entries.drop prev).take n
        have hprev : prev = st.nextIndex - 1 := rfl
        have e : (fun k => s.log.get? (st.nextIndex + k)) = fun k => (s.log.entries.drop prev)[k]? := by
          funext k
          rw [hn.get?, if_pos (by omega), List.getElem?_drop]
          congr 1; omega
        show List.filterMap (fun k => s.log.get? (st.nextIndex + k)) (List.range n) = _
        rw [e, filterMap_range_getElem?]

/-- **`Trans.send` is what the replication step function does**: the request `writeAppendEntriesReq`
(Model/Repl.lean, `Repl.writeAppend`) builds from the log of a well-formed node `s`, with `nextIndex ≥ 1`, the
leader's term and id, is `ReadFrom s`. -/
theorem readFrom_of_writeAppend (s : Node) (hn : NWF s) (st : Repl.State) (b : Bool) (q : AppendReq)
    (h : (Repl.writeAppend st { log := s.log, snapIndex := s.snapIndex, snapTerm := s.snapTerm } b).append = some q)
    (ht : st.term = s.term) (hs : st.src = s.nid) (h1 : 1 ≤ st.nextIndex) : ReadFrom s q := by
  obtain ⟨_, r2, r3, _, r5, _, r7, _, _, _⟩ := Repl.repl_request_from_log st _ b q h
  have hp : q.prevLogIndex ≤ s.log.entries.length ∧ q.prevLogTerm = termAt s.log.entries q.prevLogIndex := by
    by_cases h0 : q.prevLogIndex = 0
    · rw [h0, r5 h0]; exact ⟨Nat.zero_le _, rfl⟩
    · obtain ⟨e, he, het⟩ := r7 h0 (by show q.prevLogIndex ≠ s.snapIndex; rw [hn.snapIndex]; exact h0)
      have he' : s.log.get? q.prevLogIndex = some e := he
      rw [hn.get?, if_pos (by omega)] at he'
      obtain ⟨hk, hee⟩ := List.getElem?_eq_some_iff.mp he'
      refine ⟨by omega, ?_⟩
      unfold termAt
      rw [if_neg h0, he', ← het]; rfl
  exact ⟨r2.trans ht, r3.trans hs, hp.1, hp.2, writeAppend_entries s hn st b q h h1⟩

/-! ### Examples (non-vacuity): three voters, every node bootstrapped with the same configuration entry (1,1).
(States in which a node has run `leader.init` are evaluated with `#guard` — tests, not proofs — because the
mutually recursive leader block is defined by well-founded recursion and does not reduce in the kernel.) -/

/-- example configuration: voters 1, 2, 3 -/
def exCfg : Config :=
  { nodes := [{ id := 1, addr := "a:1", voter := true }, { id := 2, addr := "a:2", voter := true },
              { id := 3, addr := "a:3", voter := true }], index := 1, term := 1 }

/-- the configuration entry every log starts with -/
def exE : Entry := exCfg.toEntry

/-- example node `i`: bootstrapped, term 1, log = [(1,1) configuration] -/
def exNode (i : Nat) : Node :=
  { cid := 7, nid := i, term := 1, durTerm := 1, log := { entries := [exE], flushed := 1 },
    lastLogIndex := 1, lastLogTerm := 1, configs := { committed := exCfg, latest := exCfg } }

def ex0 : Sys :=
  { el := { node := exNode, grants := [], counted := [], won := [] }, sent := [], created := [⟨exE, 0, 0⟩] }

/-- node 1: election timeout -/
def ex1 : Sys :=
  { el := stepSys ex0.el 1 .timeout [] [] 0, sent := ex0.sent,
    created := newCreated 1 (ex0.el.node 1).log.entries ((ex0.el.node 1).step .timeout [] []).log.entries .timeout
                 ++ ex0.created }

/-- example: `ex0` is an initial state with membership `[1, 2, 3]` -/
theorem ex0_init : Init ex0 ∧ FixedV [1, 2, 3] ex0.el := by
  refine ⟨⟨⟨fun i => ⟨rfl, ⟨rfl, rfl⟩, rfl⟩, rfl, rfl, rfl⟩, rfl, ?_, ?_, fun i => ⟨⟨rfl, rfl, rfl, ?_, rfl, rfl⟩, ?_⟩, ?_⟩,
    fun i => ⟨rfl, rfl⟩⟩
  · intro c hc
    rw [List.mem_singleton.mp hc]
  · intro a ha b hb _ _
    rw [List.mem_singleton.mp ha, List.mem_singleton.mp hb]
  · intro k hk
    have : k = 0 := by
      have : k < 1 := hk
      omega
    subst this; rfl
  · exact ⟨⟨⟨exE, 0, 0⟩, List.mem_singleton.mpr rfl, rfl, fun pt h => by cases h⟩, trivial⟩
  · intro c hc j
    rw [List.mem_singleton.mp hc]
    exact Nat.le_refl _

set_option maxRecDepth 100000 in
/-- example: `ex1` (node 1 is candidate of term 2) is reachable — the hypotheses of the theorems hold for a
non-initial state -/
example : [1, 2, 3].Nodup ∧ ReachableV [1, 2, 3] ex1 := by
  have f1 : FixedV [1, 2, 3] ex1.el := by
    intro i
    by_cases h : i = 1
    · subst h; decide
    · show (setNode exNode 1 _ i).configs.isBootstrapped = true ∧ (setNode exNode 1 _ i).configs.latest.voters = _
      rw [setNode_other _ _ _ _ h]; exact ⟨rfl, rfl⟩
  refine ⟨by decide, .next ex0 ex1 (.init ex0 ex0_init.1 ex0_init.2) ?_ f1⟩
  exact .step 1 .timeout [] [] 0
    ⟨by decide, (fun q h => by cases h), (fun ⟨_, _, _, h⟩ => by cases h), trivial, (fun q h => by cases h)⟩

set_option maxRecDepth 100000 in
/-- example: in `ex1` the logs of nodes 1 and 2 hold the same term at index 1 (the hypotheses of
`log_matching_sys_partial` are satisfiable), node 1 is candidate of term 2 -/
example : (ex1.el.node 1).log.get? 1 = some exE ∧ (ex1.el.node 2).log.get? 1 = some exE ∧
    (ex1.el.node 1).role = .candidate ∧ (ex1.el.node 1).term = 2 ∧ ex1.created = [⟨exE, 0, 0⟩] := by decide

/-- node 2 grants its vote, node 1 counts it, becomes leader of term 2 and appends its no-op entry (2,2) -/
def ex2 : Sys :=
  { el := stepSys ex1.el 2 (.vote { term := 2, src := 1, lastLogIndex := 1, lastLogTerm := 1 }) [] [] 0,
    sent := [], created := ex1.created }
def ex3 : Sys :=
  { el := stepSys ex2.el 1 (.voteResult false 2 rSuccess) [] [] 2, sent := [],
    created := newCreated 1 (ex2.el.node 1).log.entries
      ((ex2.el.node 1).step (.voteResult false 2 rSuccess) [] []).log.entries (.voteResult false 2 rSuccess)
      ++ ex2.created }
/-- the request node 1 reads from its log for `prevLogIndex = 1` -/
def exReq : AppendReq :=
  { term := 2, src := 1, prevLogIndex := 1, prevLogTerm := 1, entries := (ex3.el.node 1).log.entries.drop 1 }
/-- node 3 handles it -/
def ex4 : Sys :=
  { el := stepSys ex3.el 3 (.append exReq) [] [] 0, sent := [exReq], created := ex3.created }

-- evaluation (tests, not proofs) of the scenario: the leader's no-op is recorded as created by node 1 with
-- predecessor term 1; the follower's log equals the leader's; nobody panicked
#guard (ex3.el.node 1).role == .leader && (ex3.el.node 1).term == 2 && (ex3.el.node 1).panicked.isNone
#guard (ex3.el.node 1).log.entries.map (fun e => (e.index, e.term, e.typ)) == [(1, 1, etConfig), (2, 2, etNop)]
#guard ex3.created.map (fun c => (c.e.index, c.e.term, c.pt, c.cr)) == [(2, 2, 1, 1), (1, 1, 0, 0)]
#guard exReq.entries.map (fun e => (e.index, e.term)) == [(2, 2)]
#guard (ex4.el.node 3).log.entries == (ex3.el.node 1).log.entries && (ex4.el.node 3).panicked.isNone
#guard (ex4.el.node 3).lastLogIndex == 2 && (ex4.el.node 3).lastLogTerm == 2 && (ex4.el.node 3).term == 2

end C04Sys
end Raft

#print axioms Raft.C04Sys.inv_reachable
#print axioms Raft.C04Sys.log_matching_sys_partial
#print axioms Raft.C04Sys.request_consistent_partial
#print axioms Raft.C04Sys.requests_match_partial
#print axioms Raft.C04Sys.entry_created_once_partial
#print axioms Raft.C04Sys.entry_created_once_ever_partial
#print axioms Raft.C04Sys.one_creator_per_term_partial
#print axioms Raft.C04Sys.readFrom_of_writeAppend
