/-
C02 — Committed entries are never lost, overwritten or replaced (node-local rules).

PROVED here, for ALL states and inputs of the executable node model (Model/Handlers.lean):
* `leader_never_truncates_*`: every leader-side handler (the whole mutually recursive block
  storeEntry … onMajorityCommit, and onChangeConfig, onTransfer, replyTransfer, onTimeoutNowResult,
  onWaitForStable, leaderInit) only appends to / flushes the log: `C04.Extends s (f s)`.
* `follower_no_conflict_only_appends`: an append request none of whose entries conflicts with an entry
  the follower holds removes nothing (`C04.Extends`).
* `follower_log_changes`: whatever the request, the follower's log is obtained from the old one only by
  (a) `removeGTE i` at an index `i` above the snapshot index at which the follower holds an entry whose
  term differs from the request's entry at `i`, and (b) `append`.
* `committed_prefix_preserved` / `truncation_above_commit_requires_conflict_above_commit`: a request that
  agrees with the follower's log on every index ≤ c (c = commit index in the application) leaves every
  entry at an index ≤ c untouched; a single conflict resolution truncates at an index > c.
* `leader_commit_rule_*`: `onMajorityCommit` moves the commit index only if the majority match index is
  above it AND at or beyond the leader's `startIndex` (own-term rule), and then to at least that value.
* `follower_commit_rule_*`: `appendCheck` / `onAppendEntries` change the commit index only under
  `canCommit` (index ≤ leader commit, entry term = request term, index above the current commit index).

NOT proved here (cluster-level; evaluated on explored executions by clustersim/nodediff with the
`CommittedStable` ledger): leader completeness, i.e. that every later leader holds every committed
entry, and stability of committed entries across elections, crashes, snapshots and membership changes.
-/
import RaftVerif.Lemmas.LocalA
import RaftVerif.Props.C04
import RaftVerif.Props.C19

namespace Raft
namespace C02
open Node

/-! ### 1. a leader never truncates -/

theorem ext_refl (s : Node) : C04.Extends s s := ⟨rfl, List.prefix_refl _⟩

theorem ext_trans {a b c : Node} (h1 : C04.Extends a b) (h2 : C04.Extends b c) : C04.Extends a c :=
  ⟨h2.1.trans h1.1, List.IsPrefix.trans h1.2 h2.2⟩

/-- `Raft.setCommitIndex` does not touch the log (no guard needed) -/
theorem setCommitIndexR_log (s : Node) (i : Nat) : (s.setCommitIndexR i).1.log = s.log := by
  unfold Node.setCommitIndexR Node.afterConfigCommit Node.closeIfRemoved Node.stepDownIfNotVoter
    Node.commitConfig Node.doClose
  dsimp only; repeat' split
  all_goals rfl

theorem leader_never_truncates_storeEntry (fuel : Nat) (s : Node) (batch : List QItem) :
    C04.Extends s (storeEntry fuel s batch) := C04.leader_log_append_only fuel s batch

theorem leader_never_truncates_storeItems (fuel : Nat) (s : Node) (batch : List QItem) :
    C04.Extends s (storeItems fuel s batch) := (C04.leader_closed s).storeItems_inv' fuel s batch (ext_refl s)

theorem leader_never_truncates_changeConfigL (fuel : Nat) (s : Node) (c : Config) :
    C04.Extends s (changeConfigL fuel s c) := (C04.leader_closed s).changeConfigL_inv' fuel s c (ext_refl s)

theorem leader_never_truncates_doChangeConfig (fuel : Nat) (s : Node) (t : Nat) (c : Config) :
    C04.Extends s (doChangeConfig fuel s t c) := (C04.leader_closed s).doChangeConfig_inv' fuel s t c (ext_refl s)

theorem leader_never_truncates_checkConfigActions (fuel : Nat) (s : Node) (t : Nat) (c : Config) :
    C04.Extends s (checkConfigActions fuel s t c) := C04.leader_actions_append_only fuel s t c

theorem leader_never_truncates_checkConfigAction (fuel : Nat) (s : Node) (t : Nat) (c : Config) (id : Nat) :
    C04.Extends s (checkConfigAction fuel s t c id) :=
  (C04.leader_closed s).checkConfigAction_inv' fuel s t c id (ext_refl s)

theorem leader_never_truncates_onMajorityCommit (fuel : Nat) (s : Node) :
    C04.Extends s (onMajorityCommit fuel s) := C04.leader_commit_append_only fuel s

/-- `leader.setCommitIndex`, for EVERY index (the framework lemma assumes `i > commitIndex`; the log
does not care). -/
theorem leader_never_truncates_setCommitIndexL (fuel : Nat) (s : Node) (i : Nat) :
    C04.Extends s (setCommitIndexL fuel s i) := by
  have hc := C04.leader_closed s
  cases fuel with
  | zero => unfold setCommitIndexL; exact hc.panic _ _ (ext_refl s)
  | succ n =>
    unfold setCommitIndexL
    extract_lets s1 ready r s2 s3
    have h1 : C04.Extends s s1 := hc.commitLog_inv _ _ (ext_refl s)
    have h2 : C04.Extends s s2 := C04.ext_congr h1 (setCommitIndexR_log s1 i)
    have h3 : C04.Extends s s3 := by
      unfold s3; split
      · exact hc.checkConfigActions_inv' _ _ _ _ h2
      · exact h2
    split
    · split
      · exact hc.ldr _ _ (Closed.foldl_inv _ (fun s t hs => hc.reply _ _ _ hs) _ _ h3)
      · exact hc.checkConfigActions_inv' _ _ _ _ h3
    · exact h3

theorem leader_never_truncates_onChangeConfig (s : Node) (t : Nat) (c : Config) :
    C04.Extends s (s.onChangeConfig t c) := (C04.leader_closed s).onChangeConfig_inv' s t c (ext_refl s)

theorem leader_never_truncates_onTransfer (s : Node) (t g : Nat) :
    C04.Extends s (s.onTransfer t g) := (C04.leader_closed s).onTransfer_inv' s t g (ext_refl s)

theorem leader_never_truncates_replyTransfer (s : Node) (r : String) :
    C04.Extends s (s.replyTransfer r) := (C04.leader_closed s).replyTransfer_inv' s r (ext_refl s)

theorem leader_never_truncates_onTimeoutNowResult (s : Node) (src : Nat) (e : Bool) (r : Nat) :
    C04.Extends s (s.onTimeoutNowResult src e r) :=
  (C04.leader_closed s).onTimeoutNowResult_inv' s src e r (ext_refl s)

theorem leader_never_truncates_onWaitForStable (s : Node) (t : Nat) :
    C04.Extends s (s.onWaitForStable t) := (C04.leader_closed s).onWaitForStable_inv' s t (ext_refl s)

theorem leader_never_truncates_tryTransfer (s : Node) :
    C04.Extends s s.tryTransfer := (C04.leader_closed s).tryTransfer_inv' s (ext_refl s)

theorem leader_never_truncates_leaderInit (s : Node) :
    C04.Extends s s.leaderInit := (C04.leader_closed s).leaderInit_inv' s (ext_refl s)

/-- **a leader never truncates**: every operation the `stateLoop` hands to the leader handlers that can
write the log — new entries, membership change, wait-for-stable, leadership transfer and its timers /
results — leaves the old log as a prefix of the new one. (`replUpdates`, `timeout` (checkQuorum),
`snapTaken` never append; they may compact the START of the log below every follower's match index, which
is C09's subject, or step down.) -/
theorem leader_never_truncates (s : Node) (op : Op) (hrole : s.role = .leader)
    (hop : match op with
      | .newEntries _ | .changeConfig _ _ | .waitStable _ | .transfer _ _ | .transferTimeout
      | .timeoutNowResult _ _ _ | .newTermTimeout => True
      | _ => False) :
    C04.Extends s (s.handle op) := by
  have hc := C04.leader_closed s
  cases op <;> simp only at hop <;> unfold Node.handle <;> dsimp only
  case newEntries b => rw [if_pos hrole]; exact leader_never_truncates_storeEntry _ _ _
  case changeConfig t c => rw [if_pos hrole]; exact leader_never_truncates_onChangeConfig _ _ _
  case waitStable t => rw [if_pos hrole]; exact leader_never_truncates_onWaitForStable _ _
  case transfer t g => rw [if_pos hrole]; exact leader_never_truncates_onTransfer _ _ _
  case transferTimeout => split; exact leader_never_truncates_replyTransfer _ _; exact ext_refl s
  case timeoutNowResult a b c => split; exact leader_never_truncates_onTimeoutNowResult _ _ _ _; exact ext_refl s
  case newTermTimeout => split; exact hc.tryTransfer_inv' _ (hc.ldr _ _ (ext_refl s)); exact ext_refl s

/-! ### 2. a follower truncates only on conflict -/

/-- no entry of the request conflicts with an entry the node holds above its snapshot -/
def NoConflict (s : Node) (es : List Entry) : Prop :=
  ∀ ne ∈ es, s.snapIndex < ne.index → ne.index ≤ s.lastLogIndex → s.entryTerm? ne.index = some ne.term

/-- **no conflict ⇒ only appends**: if every entry of the request (indexes increasing) that the follower
already holds above its snapshot has the term the follower has at that index, processing the request
removes nothing from the follower's log. -/
theorem follower_no_conflict_only_appends (st : AppLoop) (es : List Entry)
    (hs : es.Pairwise (fun a b => a.index < b.index)) (hnc : NoConflict st.s es) :
    C04.Extends st.s (appendLoop st es).s := by
  induction es generalizing st with
  | nil => exact ext_refl _
  | cons ne rest ih =>
    have hrest := (List.pairwise_cons.mp hs).2
    have hlt := (List.pairwise_cons.mp hs).1
    have hnc' : NoConflict st.s rest := fun e he => hnc e (List.mem_cons_of_mem _ he)
    unfold appendLoop
    split
    · exact ext_refl _
    · dsimp only
      split
      · exact ih _ hrest hnc'
      · rename_i hsnap
        split
        · exact ih _ hrest hnc'
        · rename_i hpres
          have hgt : ¬ ne.index ≤ st.s.lastLogIndex := by
            intro hle
            apply hpres
            have := hnc ne (List.mem_cons_self ..) (by omega) hle
            simp [hle, this]
          rw [C04.no_truncation_beyond_log _ _ _ hgt]
          have h1 : C04.Extends st.s (st.s.appendEntry ne) :=
            (C04.leader_closed st.s).appendEntry_inv _ _ (ext_refl _)
          obtain ⟨_, a2, _, _⟩ := appendEntry_fields st.s ne
          split
          · split
            · rename_i c hc
              refine ext_trans (C04.ext_congr h1 (changeConfigR_fields _ c).1) (ih _ hrest ?_)
              intro e he _ hle
              have := hlt e he
              rw [(changeConfigR_fields _ c).2.1, a2] at hle
              omega
            · exact h1
          · refine ext_trans h1 (ih _ hrest ?_)
            intro e he _ hle
            have := hlt e he
            rw [a2] at hle
            omega

/-- How a follower's log can change while it processes the entries `es` of one append request
(`snap` = its snapshot index): only by truncating at an index above the snapshot where it holds an entry
whose term differs from the term of the request's entry with that index, and by appending an entry of the
request. -/
inductive LogReach (snap : Nat) (es : List Entry) : NLog → NLog → Prop
  | refl (l : NLog) : LogReach snap es l l
  | truncate (l l' : NLog) (ne : Entry) (t : Nat) : ne ∈ es → snap < ne.index →
      (l.get? ne.index).map (·.term) = some t → t ≠ ne.term →
      LogReach snap es (l.removeGTE ne.index) l' → LogReach snap es l l'
  | append (l l' : NLog) (e : Entry) (roll : Bool) : e ∈ es →
      LogReach snap es (l.append e roll) l' → LogReach snap es l l'

theorem LogReach.mono {snap : Nat} {es es' : List Entry} (hsub : ∀ e ∈ es, e ∈ es') {l l' : NLog}
    (h : LogReach snap es l l') : LogReach snap es' l l' := by
  induction h with
  | refl l => exact .refl l
  | truncate l l' ne t hm hsn hg ht _ ih => exact .truncate l l' ne t (hsub _ hm) hsn hg ht ih
  | append l l' e roll hm _ ih => exact .append l l' e roll (hsub _ hm) ih

/-- what `resolveConflict` does to the log: nothing, unless the node holds an entry at `ne.index`, in
which case exactly `removeGTE ne.index`. Snapshot and commit index are untouched. -/
theorem resolveConflict_log (s : Node) (ne : Entry) (pt : Nat) :
    ((s.resolveConflict ne pt).snapIndex = s.snapIndex ∧ (s.resolveConflict ne pt).commitIndex = s.commitIndex) ∧
    (((s.resolveConflict ne pt).log = s.log ∧ ¬ (ne.index ≤ s.lastLogIndex ∧ ∃ t, s.entryTerm? ne.index = some t)) ∨
     (∃ t, ne.index ≤ s.lastLogIndex ∧ s.entryTerm? ne.index = some t ∧
        (s.resolveConflict ne pt).log = s.log.removeGTE ne.index)) := by
  unfold Node.resolveConflict
  split
  · rename_i hle
    split
    · rename_i hn
      obtain ⟨p1, _, p3, p4, _⟩ := panic_fields s "bug.mustGetEntry"
      refine ⟨⟨p3, p4⟩, Or.inl ⟨p1, ?_⟩⟩
      intro ⟨_, t, ht⟩; rw [hn] at ht; cases ht
    · rename_i t ht
      dsimp only
      split
      · exact ⟨⟨rfl, rfl⟩, Or.inr ⟨t, hle, ht, rfl⟩⟩
      · exact ⟨⟨rfl, rfl⟩, Or.inr ⟨t, hle, ht, rfl⟩⟩
  · rename_i hle
    exact ⟨⟨rfl, rfl⟩, Or.inl ⟨rfl, fun h => hle h.1⟩⟩

/-- **a follower truncates only on conflict** (general form): whatever the request, the log after
`appendLoop` is reached from the log before by conflict truncations above the snapshot index and appends
of request entries — there is no other way the log changes. -/
theorem follower_log_changes (st : AppLoop) (es : List Entry) :
    LogReach st.s.snapIndex es st.s.log (appendLoop st es).s.log := by
  induction es generalizing st with
  | nil => exact .refl _
  | cons ne rest ih =>
    have hmono : ∀ {l l'}, LogReach st.s.snapIndex rest l l' → LogReach st.s.snapIndex (ne :: rest) l l' :=
      fun h => h.mono (fun e he => List.mem_cons_of_mem _ he)
    unfold appendLoop
    split
    · exact .refl _
    · dsimp only
      split
      · exact hmono (ih ⟨st.s, ne.index, ne.term, st.syncLog, st.err⟩)
      · rename_i hsnap
        split
        · exact hmono (ih ⟨st.s, ne.index, ne.term, st.syncLog, st.err⟩)
        · rename_i hpres
          obtain ⟨⟨r1, r2⟩, hr⟩ := resolveConflict_log st.s ne st.term
          obtain ⟨⟨roll, a1⟩, a2, a3, a4⟩ := appendEntry_fields (st.s.resolveConflict ne st.term) ne
          -- from the old log to the log after resolveConflict + appendEntry
          have hstep : ∀ l', LogReach st.s.snapIndex (ne :: rest)
              ((st.s.resolveConflict ne st.term).appendEntry ne).log l' →
              LogReach st.s.snapIndex (ne :: rest) st.s.log l' := by
            intro l' hl'
            rw [a1] at hl'
            rcases hr with ⟨e1, _⟩ | ⟨t, hle, ht, e1⟩
            · rw [e1] at hl'
              exact .append _ _ ne roll (List.mem_cons_self ..) hl'
            · rw [e1] at hl'
              refine .truncate _ _ ne t (List.mem_cons_self ..) (by omega) ht ?_
                (.append _ _ ne roll (List.mem_cons_self ..) hl')
              intro he
              apply hpres
              simp [hle, ht, he]
          have hsn : ((st.s.resolveConflict ne st.term).appendEntry ne).snapIndex = st.s.snapIndex := by
            rw [a3, r1]
          split
          · split
            · rename_i c hc
              apply hstep
              have := ih ⟨((st.s.resolveConflict ne st.term).appendEntry ne).changeConfigR c, ne.index, ne.term,
                true, st.err⟩
              dsimp only at this
              rw [(changeConfigR_fields _ c).1, (changeConfigR_fields _ c).2.2.1, hsn] at this
              exact hmono this
            · exact hstep _ (.refl _)
          · apply hstep
            have := ih ⟨(st.s.resolveConflict ne st.term).appendEntry ne, ne.index, ne.term, true, st.err⟩
            dsimp only at this
            rw [hsn] at this
            exact hmono this

/-! ### 3. truncation never reaches an index on which the request agrees -/

/-- `removeGTE j` keeps every entry below `j` -/
theorem get?_removeGTE (l : NLog) (j i : Nat) (h : i < j) : (l.removeGTE j).get? i = l.get? i := by
  unfold NLog.get? NLog.removeGTE
  dsimp only
  split
  · rw [List.getElem?_take, if_pos (by omega)]
  · rfl

/-- `append` keeps every entry the log holds -/
theorem get?_append (l : NLog) (e : Entry) (roll : Bool) (i : Nat) (h : i ≤ l.last) :
    (l.append e roll).get? i = l.get? i := by
  have hp : (l.append e roll).prev = l.prev ∧ (l.append e roll).entries = l.entries ++ [e] := by
    unfold NLog.append; split <;> exact ⟨rfl, rfl⟩
  unfold NLog.get?
  rw [hp.1, hp.2]
  unfold NLog.last at h
  split
  · rw [List.getElem?_append_left (by omega)]
  · rfl

theorem last_removeGTE (l : NLog) (j c : Nat) (hc : c ≤ l.last) (hj : c < j) : c ≤ (l.removeGTE j).last := by
  unfold NLog.last NLog.removeGTE at *
  dsimp only
  rw [List.length_take]
  omega

theorem last_append (l : NLog) (e : Entry) (roll : Bool) : (l.append e roll).last = l.last + 1 := by
  unfold NLog.append NLog.last; split <;> simp <;> omega

/-- the request agrees with the log `l` on every index ≤ c above the snapshot: an entry of the request
with such an index has the term `l` holds there -/
def AgreeUpTo (c snap : Nat) (l : NLog) (es : List Entry) : Prop :=
  ∀ ne ∈ es, ne.index ≤ c → snap < ne.index → (l.get? ne.index).map (·.term) = some ne.term

/-- a sequence of conflict truncations and appends driven by a request that agrees with the log up to `c`
never touches an index ≤ c -/
theorem LogReach.keeps_agreed {snap c : Nat} {es : List Entry} {l l' : NLog} (h : LogReach snap es l l')
    (hc : c ≤ l.last) (hag : AgreeUpTo c snap l es) :
    c ≤ l'.last ∧ ∀ i, i ≤ c → l'.get? i = l.get? i := by
  induction h with
  | refl l => exact ⟨hc, fun _ _ => rfl⟩
  | truncate l l' ne t hm hsn hg ht _ ih =>
    have hgt : c < ne.index := by
      apply Nat.lt_of_not_le
      intro hle
      have := hag ne hm hle hsn
      rw [hg] at this
      injection this with this
      exact ht this
    have hag' : AgreeUpTo c snap (l.removeGTE ne.index) es := by
      intro e he h1 h2
      rw [get?_removeGTE _ _ _ (by omega)]
      exact hag e he h1 h2
    obtain ⟨i1, i2⟩ := ih (last_removeGTE l _ c hc hgt) hag'
    exact ⟨i1, fun i hi => by rw [i2 i hi, get?_removeGTE _ _ _ (by omega)]⟩
  | append l l' e roll hm _ ih =>
    have hag' : AgreeUpTo c snap (l.append e roll) es := by
      intro e' he h1 h2
      rw [get?_append _ _ _ _ (by omega)]
      exact hag e' he h1 h2
    obtain ⟨i1, i2⟩ := ih (by rw [last_append]; omega) hag'
    exact ⟨i1, fun i hi => by rw [i2 i hi, get?_append _ _ _ _ (by omega)]⟩

/-- **committed entries are never removed by a consistent request**: if the log holds everything up to
`c` and the request agrees with it on every index ≤ c (for `c` = the commit index this is what Log
Matching + Leader Completeness give for a request from a legitimate leader), then after the request every
index ≤ c holds the same entry as before. -/
theorem committed_prefix_preserved (st : AppLoop) (es : List Entry) (c : Nat) (hc : c ≤ st.s.log.last)
    (hag : AgreeUpTo c st.s.snapIndex st.s.log es) :
    c ≤ (appendLoop st es).s.log.last ∧ ∀ i, i ≤ c → (appendLoop st es).s.log.get? i = st.s.log.get? i :=
  (follower_log_changes st es).keeps_agreed hc hag

/-- the commit index itself is not touched by the entry loop -/
theorem appendLoop_commitIndex (st : AppLoop) (es : List Entry) :
    (appendLoop st es).s.commitIndex = st.s.commitIndex ∧ (appendLoop st es).s.snapIndex = st.s.snapIndex := by
  induction es generalizing st with
  | nil => exact ⟨rfl, rfl⟩
  | cons ne rest ih =>
    unfold appendLoop
    split
    · exact ⟨rfl, rfl⟩
    · dsimp only
      obtain ⟨⟨r1, r2⟩, _⟩ := resolveConflict_log st.s ne st.term
      obtain ⟨_, _, a3, a4⟩ := appendEntry_fields (st.s.resolveConflict ne st.term) ne
      split
      · exact ih ⟨st.s, ne.index, ne.term, st.syncLog, st.err⟩
      · split
        · exact ih ⟨st.s, ne.index, ne.term, st.syncLog, st.err⟩
        · split
          · split
            · rename_i c _
              have := ih ⟨((st.s.resolveConflict ne st.term).appendEntry ne).changeConfigR c, ne.index, ne.term,
                true, st.err⟩
              dsimp only at this
              rw [(changeConfigR_fields _ c).2.2.1, (changeConfigR_fields _ c).2.2.2.1, a3, a4, r1, r2] at this
              exact this
            · exact ⟨by rw [a4, r2], by rw [a3, r1]⟩
          · have := ih ⟨(st.s.resolveConflict ne st.term).appendEntry ne, ne.index, ne.term, true, st.err⟩
            dsimp only at this
            rw [a3, a4, r1, r2] at this
            exact this

/-- **truncation above commit requires a conflict above commit** (single step): when the entry loop
reaches `resolveConflict` (the entry is not "present with the same term") and the request agrees with the
log at every index ≤ c, a truncation can only be at an index > c — and it is exactly `removeGTE ne.index`. -/
theorem truncation_above_commit_requires_conflict_above_commit (s : Node) (ne : Entry) (pt c : Nat)
    (hnp : ¬ (ne.index ≤ s.lastLogIndex ∧ s.entryTerm? ne.index = some ne.term))
    (hag : ne.index ≤ c → s.entryTerm? ne.index = some ne.term)
    (hchg : (s.resolveConflict ne pt).log ≠ s.log) :
    c < ne.index ∧ ne.index ≤ s.lastLogIndex ∧ (∃ t, s.entryTerm? ne.index = some t ∧ t ≠ ne.term) ∧
    (s.resolveConflict ne pt).log = s.log.removeGTE ne.index := by
  obtain ⟨_, hr⟩ := resolveConflict_log s ne pt
  rcases hr with ⟨e1, _⟩ | ⟨t, hle, ht, e1⟩
  · exact absurd e1 hchg
  · refine ⟨?_, hle, ⟨t, ht, ?_⟩, e1⟩
    · apply Nat.lt_of_not_le
      intro h; exact hnp ⟨hle, hag h⟩
    · intro he; apply hnp; rw [he] at ht; exact ⟨hle, ht⟩

/-- non-vacuity: a follower holding (1,t1) (2,t1), commit index 1, receiving a conflicting entry (2,t2)
truncates at 2 > 1 and keeps entry 1. -/
example :
    let s : Node := { log := { entries := [{ index := 1, term := 1 }, { index := 2, term := 1 }] },
                      lastLogIndex := 2, lastLogTerm := 1, commitIndex := 1 }
    let st := appendLoop { s := s, index := 1, term := 1 } [{ index := 2, term := 2 }]
    st.s.log.entries = [{ index := 1, term := 1 }, { index := 2, term := 2 }] := by
  decide

/-! ### 4. the leader's commit rule -/

/-- `leader.setCommitIndex(i)` (with recursion budget left) leaves the commit index at `i` or beyond
(beyond: a single-voter leader may append and commit a configuration entry in the same call). -/
theorem setCommitIndexL_reaches (fuel : Nat) (s : Node) (i : Nat) :
    i ≤ (setCommitIndexL (fuel + 1) s i).commitIndex := by
  have hc := (C19.closed (s.withCommitIndex i)).toClosed
  show C19.CommitMono (s.withCommitIndex i) _
  unfold setCommitIndexL
  extract_lets s1 ready r s2 s3
  have h2 : C19.CommitMono (s.withCommitIndex i) s2 := by
    show i ≤ (s1.setCommitIndexR i).1.commitIndex
    rw [C19.setCommitIndexR_commitIndex]; exact Nat.le_refl _
  have h3 : C19.CommitMono (s.withCommitIndex i) s3 := by
    unfold s3; split
    · exact hc.checkConfigActions_inv' _ _ _ _ h2
    · exact h2
  split
  · split
    · exact hc.ldr _ _ (Closed.foldl_inv _ (fun s t hs => hc.reply _ _ _ hs) _ _ h3)
    · exact hc.checkConfigActions_inv' _ _ _ _ h3
  · exact h3

/-- **leader commit rule, part 1**: `onMajorityCommit` does nothing (but record a nil dereference, which
`C15` excludes) unless the majority match index is above the commit index AND at or beyond `startIndex`,
the index of the first entry of the leader's own term. -/
theorem leader_commit_rule_guard (fuel : Nat) (s : Node)
    (h : ¬ (s.majorityMatchIndex.1 > s.commitIndex ∧ s.majorityMatchIndex.1 ≥ s.ldr.startIndex)) :
    onMajorityCommit (fuel + 1) s = (if s.majorityMatchIndex.2 then s else s.panic "nil.majorityMatchIndex") := by
  unfold onMajorityCommit
  dsimp only
  have e : ∀ x : Node, (x = s ∨ x = s.panic "nil.majorityMatchIndex") →
      x.commitIndex = s.commitIndex ∧ x.ldr = s.ldr := by
    intro x hx
    rcases hx with hx | hx
    · rw [hx]; exact ⟨rfl, rfl⟩
    · rw [hx]; exact ⟨(panic_fields _ _).2.2.2.1, (panic_fields _ _).2.2.2.2.2.2.1⟩
  have := e (if s.majorityMatchIndex.2 then s else s.panic "nil.majorityMatchIndex")
    (by split; exact Or.inl rfl; exact Or.inr rfl)
  rw [if_neg (by rw [this.1, this.2]; exact h)]

/-- …in particular the commit index, the log and the FSM do not move (for every recursion budget). -/
theorem leader_commit_rule_unchanged (fuel : Nat) (s : Node)
    (h : ¬ (s.majorityMatchIndex.1 > s.commitIndex ∧ s.majorityMatchIndex.1 ≥ s.ldr.startIndex)) :
    (onMajorityCommit fuel s).commitIndex = s.commitIndex ∧ (onMajorityCommit fuel s).log = s.log ∧
    (onMajorityCommit fuel s).fsm = s.fsm := by
  cases fuel with
  | zero =>
    unfold onMajorityCommit
    exact ⟨(panic_fields _ _).2.2.2.1, (panic_fields _ _).1, (panic_fields _ _).2.2.2.2.1⟩
  | succ n =>
    rw [leader_commit_rule_guard n s h]
    split
    · exact ⟨rfl, rfl, rfl⟩
    · exact ⟨(panic_fields _ _).2.2.2.1, (panic_fields _ _).1, (panic_fields _ _).2.2.2.2.1⟩

/-- **leader commit rule, part 2**: when it does move the commit index, the new value is at least the
majority match index (which is > the old commit index and ≥ startIndex). -/
theorem leader_commit_rule_advances (fuel : Nat) (s : Node)
    (h : s.majorityMatchIndex.1 > s.commitIndex ∧ s.majorityMatchIndex.1 ≥ s.ldr.startIndex) :
    s.majorityMatchIndex.1 ≤ (onMajorityCommit (fuel + 2) s).commitIndex ∧
    s.commitIndex < (onMajorityCommit (fuel + 2) s).commitIndex ∧
    s.ldr.startIndex ≤ (onMajorityCommit (fuel + 2) s).commitIndex := by
  have hc := (C19.closed (s.withCommitIndex s.majorityMatchIndex.1)).toClosed
  suffices hh : s.majorityMatchIndex.1 ≤ (onMajorityCommit (fuel + 2) s).commitIndex by
    exact ⟨hh, by omega, by omega⟩
  show C19.CommitMono (s.withCommitIndex s.majorityMatchIndex.1) _
  unfold onMajorityCommit
  dsimp only
  have e : ∀ x : Node, (x = s ∨ x = s.panic "nil.majorityMatchIndex") →
      x.commitIndex = s.commitIndex ∧ x.ldr = s.ldr := by
    intro x hx
    rcases hx with hx | hx
    · rw [hx]; exact ⟨rfl, rfl⟩
    · rw [hx]; exact ⟨(panic_fields _ _).2.2.2.1, (panic_fields _ _).2.2.2.2.2.2.1⟩
  have := e (if s.majorityMatchIndex.2 then s else s.panic "nil.majorityMatchIndex")
    (by split; exact Or.inl rfl; exact Or.inr rfl)
  rw [if_pos (by rw [this.1, this.2]; exact h)]
  exact hc.notifyFlr_inv _ (hc.applyCommittedL_inv _ (setCommitIndexL_reaches fuel _ _))

/-- the contrapositive reading: the commit index moved ⇒ the own-term majority rule held -/
theorem leader_commit_rule (fuel : Nat) (s : Node)
    (h : (onMajorityCommit fuel s).commitIndex ≠ s.commitIndex) :
    s.majorityMatchIndex.1 > s.commitIndex ∧ s.majorityMatchIndex.1 ≥ s.ldr.startIndex := by
  apply Classical.byContradiction
  intro hn
  exact h (leader_commit_rule_unchanged fuel s hn).1

/-- non-vacuity of the guard: a single-voter leader whose last index 3 is of an OLD term (startIndex = 5)
does not commit it; once its own entry 5 is there it commits. -/
example :
    let s : Node := { nid := 1, role := .leader, lastLogIndex := 3, ldr := { numVoters := 1, startIndex := 5, node := { id := 1, voter := true } } }
    s.majorityMatchIndex = (3, true) ∧ (onMajorityCommit 3 s).commitIndex = 0 := by
  intro s
  exact ⟨by decide, (leader_commit_rule_unchanged 3 s (by decide)).1⟩

/-! ### 5. the follower's commit rule -/

/-- `canCommit` (restated from C19): index ≤ leader commit, term = request term, index above commit index -/
theorem follower_commit_guard (s : Node) (q : AppendReq) (index term : Nat) (h : s.canCommit q index term = true) :
    q.ldrCommitIndex ≥ index ∧ term = q.term ∧ index > s.commitIndex := C19.follower_commit_guard s q index term h

/-- `appendCheck` moves the commit index only under `canCommit` for the previous-entry coordinates, which it
has just verified against its own log, and then exactly to `prevLogIndex`. -/
theorem follower_commit_rule_check (s : Node) (q : AppendReq) :
    (s.appendCheck q).commitIndex = s.commitIndex ∨
    (s.canCommit q q.prevLogIndex q.prevLogTerm = true ∧ (s.appendCheck q).commitIndex = q.prevLogIndex ∧
     s.snapIndex < q.prevLogIndex ∧ q.prevLogIndex ≤ s.lastLogIndex ∧
     q.prevLogTerm = (if q.prevLogIndex = s.lastLogIndex then s.lastLogTerm else (s.entryTerm? q.prevLogIndex).getD 0)) := by
  unfold Node.appendCheck
  split
  · rename_i hsn
    split
    · exact Or.inl rfl
    · rename_i hle
      extract_lets s1 plt
      have e1 : s1.commitIndex = s.commitIndex ∧ s1.lastLogIndex = s.lastLogIndex ∧ s1.lastLogTerm = s.lastLogTerm ∧
          s1.log = s.log ∧ s1.canCommit q q.prevLogIndex q.prevLogTerm = s.canCommit q q.prevLogIndex q.prevLogTerm := by
        unfold s1
        split
        · exact ⟨rfl, rfl, rfl, rfl, rfl⟩
        · split
          · exact ⟨rfl, rfl, rfl, rfl, rfl⟩
          · unfold Node.panic; split <;> exact ⟨rfl, rfl, rfl, rfl, rfl⟩
      split
      · exact Or.inl e1.1
      · rename_i hterm
        split
        · rename_i hcc
          right
          refine ⟨by rw [← e1.2.2.2.2]; exact hcc, ?_, hsn, by omega, ?_⟩
          · show ((s1.setCommitIndexR q.prevLogIndex).1.applyCommitted).commitIndex = _
            rw [fsmFrame_commitIndex.applyCommitted_eq, C19.setCommitIndexR_commitIndex]
          · have : q.prevLogTerm = plt := Classical.byContradiction (fun hne => hterm hne)
            rw [this]
            unfold plt Node.entryTerm?
            rw [e1.2.1, e1.2.2.1, e1.2.2.2.1]
        · exact Or.inl e1.1
  · exact Or.inl rfl

/-- the coordinates the entry loop ends with are the request's previous-entry coordinates or those of one
of the request's entries -/
theorem appendLoop_coords (st : AppLoop) (es : List Entry) :
    ((appendLoop st es).index = st.index ∧ (appendLoop st es).term = st.term) ∨
    ∃ e ∈ es, (appendLoop st es).index = e.index ∧ (appendLoop st es).term = e.term := by
  induction es generalizing st with
  | nil => exact Or.inl ⟨rfl, rfl⟩
  | cons ne rest ih =>
    have lift : ∀ st' : AppLoop, st'.index = ne.index → st'.term = ne.term →
        (((appendLoop st' rest).index = st.index ∧ (appendLoop st' rest).term = st.term) ∨
         ∃ e ∈ ne :: rest, (appendLoop st' rest).index = e.index ∧ (appendLoop st' rest).term = e.term) := by
      intro st' h1 h2
      rcases ih st' with ⟨a, b⟩ | ⟨e, he, a, b⟩
      · exact Or.inr ⟨ne, List.mem_cons_self .., by rw [a, h1], by rw [b, h2]⟩
      · exact Or.inr ⟨e, List.mem_cons_of_mem _ he, a, b⟩
    unfold appendLoop
    split
    · exact Or.inl ⟨rfl, rfl⟩
    · dsimp only
      split
      · exact lift _ rfl rfl
      · split
        · exact lift _ rfl rfl
        · split
          · split
            · exact lift _ rfl rfl
            · exact Or.inr ⟨ne, List.mem_cons_self .., rfl, rfl⟩
          · exact lift _ rfl rfl

/-- **follower commit rule**: an append request moves the follower's commit index only forward, never
beyond the leader's commit index, and only to the index of the previous entry it verified or of an entry of
the request it has just stored or found present — in both cases an index whose entry has the LEADER'S
CURRENT TERM (`canCommit`: "term == req.term"). A request of a lower term moves nothing. -/
theorem follower_commit_rule (s : Node) (q : AppendReq) :
    (s.onAppendEntries q).commitIndex = s.commitIndex ∨
    (s.commitIndex < (s.onAppendEntries q).commitIndex ∧ (s.onAppendEntries q).commitIndex ≤ q.ldrCommitIndex ∧
     s.term ≤ q.term ∧
     (((s.onAppendEntries q).commitIndex = q.prevLogIndex ∧ q.prevLogTerm = q.term) ∨
      ∃ e ∈ q.entries, e.index = (s.onAppendEntries q).commitIndex ∧ e.term = q.term)) := by
  unfold Node.onAppendEntries
  split
  · exact Or.inl rfl
  · rename_i hstale
    extract_lets s1 s2 s3 st s4 s6 s5
    have e1 : s1.commitIndex = s.commitIndex := by
      unfold s1; split
      · exact (setTerm_fields s q.term).2.2.2.1
      · rfl
    have e2 : s2.commitIndex = s.commitIndex := e1
    have h3 := follower_commit_rule_check s2 q
    have g3 : s3.commitIndex = s.commitIndex ∨ (s.commitIndex < s3.commitIndex ∧ s3.commitIndex ≤ q.ldrCommitIndex ∧
        s3.commitIndex = q.prevLogIndex ∧ q.prevLogTerm = q.term) := by
      rcases h3 with h3 | ⟨hcc, hci, _⟩
      · exact Or.inl (h3.trans e2)
      · obtain ⟨g1, g2, g3⟩ := follower_commit_guard _ _ _ _ hcc
        right
        refine ⟨?_, ?_, hci, g2⟩
        · show s.commitIndex < (s2.appendCheck q).commitIndex
          rw [hci, ← e2]; exact g3
        · show (s2.appendCheck q).commitIndex ≤ _
          rw [hci]; exact g1
    have fin3 : s3.commitIndex = s.commitIndex ∨
        (s.commitIndex < s3.commitIndex ∧ s3.commitIndex ≤ q.ldrCommitIndex ∧ s.term ≤ q.term ∧
         ((s3.commitIndex = q.prevLogIndex ∧ q.prevLogTerm = q.term) ∨
          ∃ e ∈ q.entries, e.index = s3.commitIndex ∧ e.term = q.term)) := by
      rcases g3 with g | ⟨a, b, c, d⟩
      · exact Or.inl g
      · exact Or.inr ⟨a, b, by omega, Or.inl ⟨c, d⟩⟩
    split
    · exact fin3
    · have e4 : s4.commitIndex = s3.commitIndex := (appendLoop_commitIndex _ _).1
      show s5.commitIndex = s.commitIndex ∨ (s.commitIndex < s5.commitIndex ∧ s5.commitIndex ≤ q.ldrCommitIndex ∧ _ ∧
        ((s5.commitIndex = q.prevLogIndex ∧ _) ∨ ∃ e ∈ q.entries, e.index = s5.commitIndex ∧ _))
      have key : s5.commitIndex = s3.commitIndex ∨
          (s3.commitIndex < s5.commitIndex ∧ s5.commitIndex ≤ q.ldrCommitIndex ∧ s5.commitIndex = st.index ∧
           st.term = q.term) := by
        unfold s5
        split
        · split
          · rename_i hcc
            obtain ⟨g1, g2, g3⟩ := follower_commit_guard _ _ _ _ hcc
            right
            have : ((s6.setCommitIndexR st.index).1.applyCommitted).commitIndex = st.index := by
              rw [fsmFrame_commitIndex.applyCommitted_eq, C19.setCommitIndexR_commitIndex]
            rw [this]
            refine ⟨?_, g1, rfl, g2⟩
            have : s6.commitIndex = s4.commitIndex := rfl
            omega
          · exact Or.inl e4
        · exact Or.inl e4
      rcases key with k | ⟨k1, k2, k3, k4⟩
      · rw [k]; exact fin3
      · right
        have hmono : s.commitIndex ≤ s3.commitIndex := by
          rcases g3 with g | ⟨a, _⟩ <;> omega
        refine ⟨by omega, k2, by omega, ?_⟩
        rcases appendLoop_coords { s := s3, index := q.prevLogIndex, term := q.prevLogTerm } q.entries with
          ⟨a, b⟩ | ⟨e, he, a, b⟩
        · left
          refine ⟨by rw [k3]; exact a, ?_⟩
          rw [← k4]; exact b.symm
        · right
          exact ⟨e, he, by rw [k3]; exact a.symm, by rw [← k4]; exact b.symm⟩

end C02
end Raft

#print axioms Raft.C02.ext_refl
#print axioms Raft.C02.ext_trans
#print axioms Raft.C02.setCommitIndexR_log
#print axioms Raft.C02.leader_never_truncates_storeEntry
#print axioms Raft.C02.leader_never_truncates_storeItems
#print axioms Raft.C02.leader_never_truncates_changeConfigL
#print axioms Raft.C02.leader_never_truncates_doChangeConfig
#print axioms Raft.C02.leader_never_truncates_checkConfigActions
#print axioms Raft.C02.leader_never_truncates_checkConfigAction
#print axioms Raft.C02.leader_never_truncates_onMajorityCommit
#print axioms Raft.C02.leader_never_truncates_setCommitIndexL
#print axioms Raft.C02.leader_never_truncates_onChangeConfig
#print axioms Raft.C02.leader_never_truncates_onTransfer
#print axioms Raft.C02.leader_never_truncates_replyTransfer
#print axioms Raft.C02.leader_never_truncates_onTimeoutNowResult
#print axioms Raft.C02.leader_never_truncates_onWaitForStable
#print axioms Raft.C02.leader_never_truncates_tryTransfer
#print axioms Raft.C02.leader_never_truncates_leaderInit
#print axioms Raft.C02.leader_never_truncates
#print axioms Raft.C02.follower_no_conflict_only_appends
#print axioms Raft.C02.LogReach.mono
#print axioms Raft.C02.resolveConflict_log
#print axioms Raft.C02.follower_log_changes
#print axioms Raft.C02.get?_removeGTE
#print axioms Raft.C02.get?_append
#print axioms Raft.C02.last_removeGTE
#print axioms Raft.C02.last_append
#print axioms Raft.C02.LogReach.keeps_agreed
#print axioms Raft.C02.committed_prefix_preserved
#print axioms Raft.C02.appendLoop_commitIndex
#print axioms Raft.C02.truncation_above_commit_requires_conflict_above_commit
#print axioms Raft.C02.setCommitIndexL_reaches
#print axioms Raft.C02.leader_commit_rule_guard
#print axioms Raft.C02.leader_commit_rule_unchanged
#print axioms Raft.C02.leader_commit_rule_advances
#print axioms Raft.C02.leader_commit_rule
#print axioms Raft.C02.follower_commit_guard
#print axioms Raft.C02.follower_commit_rule_check
#print axioms Raft.C02.appendLoop_coords
#print axioms Raft.C02.follower_commit_rule
