/-
C07 (client-visible semantics), second part (S42).

PART 1 — leadership lost, for ANY reason and under ANY operation (no `_partial` restriction: membership changes,
snapshots, shutdown … are all covered; node level, every state):
* `role_change_never_rejects_definitely` — no answer given by the role transition of a step (`leader.release` of the old
  role — this is where the entries still pending are answered — and `init` of the new role, repeated until the role is
  stable) is a definite rejection (`ClientRel.Definite`: notLeader/lost=false, inProgress:…);
* `step_definite_only_from_handler` — so a definite rejection in a step was given by the handler proper;
* `lost_leadership_answers_pending_ambiguously` — a leader whose handler left it without leadership (self-removal or
  demotion committed: `stepDownIfNotVoter`; higher term; quorum lost; transfer) answers EVERY entry still queued, with a
  result that is neither a value nor a definite rejection (`Harmless`: notLeader/lost=true, or serverClosed), and that
  answer is still in the reply list at the end of the step.

PART 2 — answers and crash points (`answer_precedes_storage_point`, `crash_after_all_points`): the modelling decision
"a crashed step delivers no answer" (Props/C07Sys.lean) is a STRICT under-approximation: in the model (and in the Go
code: `leader.storeEntry` runs `applyCommitted` for a read/barrier at the head of the queue BEFORE the single-voter
commit `onMajorityCommit → storage.commitLog`) an answer can be delivered before a later storage point of the same step.

PART 3 — `barrier_ok_means_applied_node`: what an `ok` (barrier) / value (read, update) answer of `leader.applyCommitted`
means, at the only place where queued tasks are answered (node level; NOT lifted to the ledger invariant of
`Sys/Commit`: the guarded closure `ClientRel.RClosed` lets the generic part of a step answer `ok` to any task, so tying an
`ok` in the answer ledger to a barrier submission needs a finer closure — see the report).

PART 4 — `answers_before_crash_are_sound_partial`: the ledger invariant `C07Sys.CL` survives a crash transition that had
delivered answers `A` before the crash point, for answers of the kind that can precede a storage point (`Early`).
-/
import RaftVerif.Lemmas.ClientRel2
import RaftVerif.Props.C07Sys

namespace Raft
namespace C07Sys2
open Node ClientRel ClientRel2

/-! ### Part 1: leadership lost -/

/-- **No answer of a role transition is a definite rejection.** `h`: the node after the handler of a step, `cur`: the
role whose `init` ran last. Every answer in the reply list after the role transitions (`settle`, any number of rounds)
was already there, or is no definite rejection. Holds for every state, whatever made the role change (a membership change
that removes or demotes the leader included). -/
theorem role_change_never_rejects_definitely (h : Node) (cur : Role) (n : Nat) :
    ∀ r ∈ (settle n h cur).replies, r ∈ h.replies ∨ ¬ Definite r.result :=
  (newND_closed h.replies).settle_inv trivial trivial n h cur (fun _ hr => Or.inl hr)

/-- **A definite rejection is given by the handler, never by the role transition**, for EVERY operation and state. -/
theorem step_definite_only_from_handler (pre : Node) (op : Op) (ra : List Nat) (ord : List (List Nat)) :
    ∀ r ∈ (pre.step op ra ord).replies, Definite r.result → r ∈ ((pre.begin ra ord).handle op).replies := by
  intro r hr hd
  by_cases hs : op = .shutdown
  · subst hs; exact hr
  · rw [TL.step_eq_settle pre op ra ord hs] at hr
    rcases role_change_never_rejects_definitely _ _ _ r hr with h | h
    · exact h
    · exact absurd hd h

theorem harmless_releaseErr' (s : Node) : Harmless (C07.releaseErr s) := by
  have := RBase.harmless_releaseErr (if s.leader = s.nid then s.setLeader 0 else s)
  unfold C07.releaseErr
  have e : (if s.leader = s.nid then s.setLeader 0 else s).isClosed = s.isClosed := by split <;> rfl
  rw [e] at this
  exact this

/-- the queue `leader.release` answers is the one the handler left -/
theorem release_head_queue (h : Node) :
    (if h.ldr.transfer.active then h.transferReply h.releaseResult else h).ldr.queue = h.ldr.queue := by
  split
  · unfold Node.transferReply
    show (h.reply _ _).ldr.queue = _
    rw [(reply_fields _ _ _).2.2.2.2.2.2.1]
  · rfl

/-- **Leadership lost ⇒ every pending entry is answered, ambiguously.** `h`: the node after the handler of a step that
began as leader; if `h` is no longer leader then for every entry `q` still queued (with a task) the reply list at the end
of the step holds an answer to `q.task` that is neither a value nor a definite rejection. -/
theorem lost_leadership_answers_pending_ambiguously (h : Node) (n : Nat) (hr : h.role ≠ .leader)
    (q : QItem) (hq : q ∈ h.ldr.queue) (h0 : q.task ≠ 0) :
    ∃ r ∈ (settle (n + 1) h .leader).replies, r.task = q.task ∧ Harmless r.result := by
  let h1 := if h.ldr.transfer.active then h.transferReply h.releaseResult else h
  have hq1 : q ∈ h1.ldr.queue := by rw [release_head_queue]; exact hq
  have hm := C07.lost_leadership_replies_mem h1 q hq1 h0
  have hrel : h.releaseRole .leader = h1.leaderReleaseRest := rfl
  have hC := has_closed [({ task := q.task, result := C07.releaseErr h1 } : Reply)]
  have H0 : Has [({ task := q.task, result := C07.releaseErr h1 } : Reply)] (h.releaseRole .leader) := by
    intro r hr'
    rw [List.mem_singleton.mp hr', hrel]; exact hm
  have H1 := hC.initRole_inv trivial trivial _ H0
  have H2 := hC.settle_inv trivial trivial n _ (h.releaseRole .leader).role H1
  refine ⟨{ task := q.task, result := C07.releaseErr h1 }, ?_, rfl, harmless_releaseErr' h1⟩
  unfold settle
  rw [if_neg hr]
  exact H2 _ (List.mem_singleton.mpr rfl)

/-- the same, for a step: a leader that handled `op` and is no longer leader after the handler -/
theorem step_lost_leadership_answers_pending (pre : Node) (op : Op) (ra : List Nat) (ord : List (List Nat))
    (hs : op ≠ .shutdown) (hl : pre.role = .leader) (hr : ((pre.begin ra ord).handle op).role ≠ .leader)
    (q : QItem) (hq : q ∈ ((pre.begin ra ord).handle op).ldr.queue) (h0 : q.task ≠ 0) :
    ∃ r ∈ (pre.step op ra ord).replies, r.task = q.task ∧ Harmless r.result ∧ ¬ Definite r.result := by
  rw [TL.step_eq_settle pre op ra ord hs, hl]
  obtain ⟨r, h1, h2, h3⟩ := lost_leadership_answers_pending_ambiguously _ 5 hr q hq h0
  exact ⟨r, h1, h2, h3, h3.2⟩

/-- a vote request of a higher term -/
def exVoteOp : Op := .vote { term := 5, src := 2, lastLogIndex := 9, lastLogTerm := 4, transfer := true }

/-- EXAMPLE (hypotheses satisfiable, non-trivially): the leader `C06Cache.exLeader` (update "x" queued for task 9,
not committed) receives a vote request (leadership transfer) of a higher term: it steps down, task 9 is answered `notLeader:0:true`. -/
example :
    exVoteOp ≠ .shutdown ∧ C06Cache.exLeader.role = .leader ∧
    ((C06Cache.exLeader.begin [] []).handle exVoteOp).role ≠ .leader ∧
    ((C06Cache.exLeader.begin [] []).handle exVoteOp).ldr.queue.map (·.task) = [9] ∧
    (C06Cache.exLeader.step exVoteOp [] []).replies = [{ task := 9, result := notLeaderStr 0 true }] := by
  refine ⟨?_, rfl, by decide +kernel, by decide +kernel, by decide +kernel⟩
  intro h; unfold exVoteOp at h; cases h

/-! ### Part 2: answers and crash points -/

/-- a crash "after the last storage point" of a step (`k` beyond the trace) leaves on disk what the completed step
leaves: such a crash, with ALL answers of the step delivered, is the run "the step completes; the node dies at the very
beginning (`k = 0`) of its next step" — which the transition systems already contain. -/
theorem crash_after_all_points (s : Node) (op : Op) (ra : List Nat) (ord : List (List Nat)) (k : Nat)
    (hk : (s.step op ra ord).trace.length < k) (op' : Op) (ra' : List Nat) (ord' : List (List Nat)) :
    C05.crashDisk s op ra ord k = C05.crashDisk (s.step op ra ord) op' ra' ord' 0 := by
  cases k with
  | zero => omega
  | succ k =>
    show (match (s.step op ra ord).trace[k]? with
      | some p => p.2
      | none => (s.step op ra ord).durable) = (s.step op ra ord).durable
    rw [List.getElem?_eq_none (by omega)]

/-- the batch of the witness: a read, then an update -/
def exBatchRU : List QItem := [{ typ := etRead, task := 8 }, { typ := etUpdate, data := "y", task := 7 }]

/-- the single-voter leader `C15Tasks.exSolo` inside `leader.storeEntry`, after the loop over the batch and the
head-of-queue call of `applyCommitted`, before `onMajorityCommit` -/
def exMid : Node := (storeItems 71 (C15Tasks.exSolo.begin [] []) exBatchRU).applyCommittedL

/-- `storeEntry` when the head of the queue is a read/barrier and the leader is the only voter: the loop, then
`applyCommitted`, then the commit -/
theorem storeEntry_head_rule (f : Nat) (s : Node) (b : List QItem) (q : QItem) (qs : List QItem)
    (hq : (storeItems f s b).ldr.queue = q :: qs) (hn : isLogEntryTyp q.typ = false)
    (hl : (storeItems f s b).applyCommittedL.lastLogIndex > s.lastLogIndex)
    (hv : (storeItems f s b).applyCommittedL.beginFinishedRounds.notifyFlr.ldr.numVoters = 1 ∧
          (storeItems f s b).applyCommittedL.beginFinishedRounds.notifyFlr.ldr.node.voter = true) :
    storeEntry (f + 1) s b =
      onMajorityCommit f (storeItems f s b).applyCommittedL.beginFinishedRounds.notifyFlr := by
  unfold storeEntry
  dsimp only
  rw [hq]
  dsimp only
  simp only [hn, Bool.not_false, ↓reduceIte]
  rw [if_pos hl, if_pos hv]

set_option maxRecDepth 100000 in
/-- **WITNESS (proved): an answer is delivered BEFORE a later storage point of the same step.** The single-voter leader
`exSolo` (log: configuration, no-op, update "x"; all committed and applied) is handed the batch [read (task 8), update
"y" (task 7)]. Inside `storeEntry`, at `exMid`, the read has been answered (`val:1`) and NO storage point has been passed
(`trace = []`); the step goes on with `onMajorityCommit`, whose `commitLog` is the one storage point of the step, and
answers the update after it. A process death at that point before the flush (`crashDisk … 0`) leaves a disk without
"y" — and the client of task 8 has its answer. (The answer is sound: it counts the updates of the prefix that was
committed before the step.) -/
theorem answer_precedes_storage_point :
    let pre := C15Tasks.exSolo
    let op : Op := .newEntries exBatchRU
    exMid.replies = [{ task := 8, result := valStr 1 }] ∧ exMid.trace.length = 0 ∧
    storeEntry 72 (pre.begin [] []) exBatchRU = onMajorityCommit 71 exMid.beginFinishedRounds.notifyFlr ∧
    (pre.step op [] []).replies = [{ task := 8, result := valStr 1 }, { task := 7, result := valStr 2 }] ∧
    (pre.step op [] []).trace.map (·.1) = ["commitLog"] ∧ (pre.step op [] []).panicked = none ∧
    (C05.crashDisk pre op [] [] 0).log.entries.length = 3 ∧
    (C05.crashDisk pre op [] [] 1).log.entries.length = 4 := by
  refine ⟨by decide +kernel, by decide +kernel, ?_, by decide +kernel, by decide +kernel, by decide +kernel,
    by decide +kernel, by decide +kernel⟩
  exact storeEntry_head_rule 71 _ exBatchRU { index := 4, term := 1, typ := etRead, task := 8 }
    [{ index := 4, term := 1, typ := etUpdate, data := "y", task := 7 }]
    (by decide +kernel) (by decide) (by decide +kernel) (by decide +kernel)

/-! ### Part 3: what an `ok` (barrier) or a value (read) answer of `leader.applyCommitted` means — node level -/

/-- unless an assertion failed, `fsmApply` leaves the applied index at the commit index -/
theorem fsmApply_index_commit (s : Node) (items : List QItem) (hp : (s.fsmApply items).panicked = none) :
    (s.fsmApply items).fsm.index = s.commitIndex := by
  have hci : (s.fsmApply items).commitIndex = s.commitIndex := fsmFrame_commitIndex.fsmApply_eq s items
  rw [← hci]
  revert hp
  unfold Node.fsmApply
  split
  · exact fun hp => absurd hp (panic_panicked_ne _ _)
  · split
    · exact fun hp => absurd hp (panic_panicked_ne _ _)
    · extract_lets front s1 s2
      intro hp
      have hc : (s2.fsm.index == s2.commitIndex) = true := Order.assert_true hp
      have e2 : s2.assert (s2.fsm.index == s2.commitIndex) "fsm.assertCommit" = s2 := by
        unfold Node.assert; rw [if_pos hc]
      rw [e2]
      simpa using hc

/-- **What an answer of `leader.applyCommitted` means** (the only place a queued task gets `ok` or a value). `s`: a
leader state inside a step that satisfies the step invariant `FL 0` of C03Sys (the state machine holds exactly the update
payloads of the applied log prefix; the log starts at index 1; every log-type queue item is the log entry at its index) —
which `C03Sys` proves for every reachable state of `Sys/Commit` and every intermediate state of a step. If the call does not
fail, then every NEW answer belongs to a queued item `q` with `q.index ≤ commitIndex + 1`, and at that moment the applied
index equals the commit index and the state machine holds exactly the update payloads of the first `commitIndex` log
entries — so EVERY log entry below `q.index` (all entries the leader had accepted when it stamped `q`: a barrier or read is
stamped `lastLogIndex + 1`, `C07.store_reads_leave_log`) has been applied; a barrier (any item that is not
read/dirty-read/update) is answered `ok`; a read or update is answered with the number of update entries among the first
`k` log entries for some `k` with `q.index ≤ k + 1` (`k = q.index` for an update). -/
theorem barrier_ok_means_applied_node (s : Node) (hs : C03Sys.FL 0 s) (hp : s.applyCommittedL.panicked = none) :
    s.applyCommittedL.fsm.index = s.commitIndex ∧
    s.applyCommittedL.fsm.applied = C03Sys.ups (s.log.entries.take s.commitIndex) ∧
    ∀ r ∈ s.applyCommittedL.replies, r ∈ s.replies ∨
      ∃ q ∈ s.ldr.queue, q.task = r.task ∧ q.task ≠ 0 ∧ q.index ≤ s.commitIndex + 1 ∧
        (¬ isValTyp q.typ → r.result = "ok") ∧
        (isValTyp q.typ → ∃ k, k ≤ s.commitIndex ∧ q.index ≤ k + 1 ∧
          r.result = valStr (C03Sys.ups (s.log.entries.take k)).length ∧ (q.typ = etUpdate → k = q.index)) := by
  have hfl := C03Sys.fl_applyL (m := 0) s hs
  obtain ⟨f', _, _⟩ := hfl hp
  have hlogA : s.applyCommittedL.log = s.log := by
    unfold Node.applyCommittedL
    extract_lets sp l0 s1
    exact fsmFrame_log.fsmApply_eq s1 sp.1
  have hidx : s.applyCommittedL.fsm.index = s.commitIndex := by
    revert hp
    unfold Node.applyCommittedL
    extract_lets sp l0 s1
    intro hp
    exact fsmApply_index_commit s1 sp.1 hp
  refine ⟨hidx, by rw [f'.applied, hlogA, hidx], ?_⟩
  revert hp hidx
  unfold Node.applyCommittedL
  extract_lets sp l0 s1
  intro hp hidx
  have hps : s.panicked = none := by
    apply Classical.byContradiction
    intro hne
    exact (C15.panicked_closed.fsmApply_inv s1 sp.1 (show s1.panicked ≠ none from hne)) hp
  obtain ⟨f, w, c⟩ := hs hps
  have hfn1 : C03Sys.FN s.fsm.index s1 := fun _ => ⟨⟨f.le, f.len, f.applied, Nat.le_refl _⟩, w⟩
  obtain ⟨_, hr⟩ := fsmApply_rep s1 sp.1 hfn1
    (fun _ q hq ht => c q (C03Sys.splitQueue_mem _ _ q (Or.inl hq)) ht) hp
  intro r hrm
  rcases hr r hrm with h | ⟨q, hq, hqt, h0, hcase⟩
  · exact Or.inl h
  · right
    have hrel := (C07.reply_only_after_commit_split s.commitIndex s.ldr.queue).2.1 q hq
    refine ⟨q, C03Sys.splitQueue_mem _ _ q (Or.inl hq), hqt, h0, ?_, ?_, ?_⟩
    · rcases hrel with h | h
      · omega
      · omega
    · intro hnv
      rcases hcase with ⟨_, h⟩ | ⟨hv, _⟩
      · exact h
      · exact absurd hv hnv
    · intro hv
      rcases hcase with ⟨hnv, _⟩ | ⟨_, k, _, k2, k3, k4, k5⟩
      · exact absurd hv hnv
      · exact ⟨k, by rw [← hidx]; exact k2, k4, k3, fun hu => (k5 hu).1⟩

set_option maxRecDepth 100000 in
/-- EXAMPLE (hypotheses satisfiable, non-trivially): the single-voter leader `exSolo` inside `storeEntry` with a barrier
(task 8) at the head of its queue and an update behind it: the call answers the barrier `ok`. -/
example :
    let s := storeItems 71 (C15Tasks.exSolo.begin [] [])
      [{ typ := etBarrier, task := 8 }, { typ := etUpdate, data := "y", task := 7 }]
    s.applyCommittedL.panicked = none ∧ s.commitIndex = 3 ∧ s.replies = [] ∧
    s.ldr.queue.map (fun q => (q.index, q.typ, q.task)) = [(4, etBarrier, 8), (4, etUpdate, 7)] ∧
    s.applyCommittedL.replies = [{ task := 8, result := "ok" }] ∧ s.applyCommittedL.fsm.applied = ["x"] := by
  decide +kernel

/-! ### Part 4: a crash with answers delivered before the crash point — system level (`Sys/Commit` + client ledgers) -/

section early
open C07Sys

/-- the state after node `i` died while handling `op`, restarted as `n`, and the answers `A` had been delivered before
it died (`C07Sys.crashS` delivers none) -/
def crashSA (x : C07Sys.Sys) (i : Nat) (op : Op) (n : Node) (A : List Ans) : C07Sys.Sys :=
  { crashS x i op n with answers := A ++ x.answers }

/-- **answers delivered before a storage point of the step**, as far as the model can say it (the model does not record
how answers and storage points interleave): `A` are answers of the completed step, to distinct tasks, none a definite
rejection, and every value among them is backed by a root path that was committed BEFORE the step (`ValPath x`). By
inspection of the handlers (see the report) the answers that precede a storage point in the restricted model are of this
kind: reads/barriers answered by the head-of-queue rule of `storeEntry` before the single-voter commit
(`answer_precedes_storage_point`), and the lost-leadership answers of `leader.release` before a candidate's vote is
stored. -/
structure Early (x : C07Sys.Sys) (i : Nat) (op : Op) (ra : List Nat) (ord : List (List Nat)) (A : List Ans) : Prop where
  sub : ∀ a ∈ A, a.node = i ∧ a.task ≠ 0 ∧ (⟨a.task, a.result⟩ : Reply) ∈ ((x.node i).step op ra ord).replies
  nodup : (A.map (·.task)).Nodup
  notDef : ∀ a ∈ A, ¬ Definite a.result
  backed : ∀ a ∈ A, ∀ m, a.result = valStr m → ∃ s ∈ subsOf i (x.node i) op ++ x.subs, s.node = a.node ∧
    s.task = a.task ∧ isValTyp s.typ ∧ ∃ p, ValPath x s m p

/-- **The ledger invariant `C07Sys.CL` survives a crash that had delivered early answers** (`_partial`: the
restrictions of C07Sys; and `Early` is an assumption about which answers can precede a storage point, not derived
from the model). Consequently all statements of C07Sys that are consequences of `CL` and of the cluster invariants
(exactly-once, position, definite rejection, value = committed prefix, answered at most once) hold for the answers
delivered before the crash as well. -/
theorem answers_before_crash_are_sound_partial {V : List Nat} {x : C07Sys.Sys} {i : Nat} {op : Op} {ra : List Nat}
    {ord : List (List Nat)} {src k retain : Nat} {sor : Bool} {n : Node} {A : List Ans}
    (h : CrashFacts V x i op ra ord src k retain sor n) (ho : (x.node i).closed = "") (hA : Early x i op ra ord A) :
    CL (crashSA x i op n A) := by
  have base := h.inv
  have sf : StepFacts V x i op ra ord src := ⟨h.hV, h.rx, h.he, h.heG, ho, h.en, h.cl⟩
  obtain ⟨_, tk2, _, _, _, _⟩ := sf.tasks
  have cc := h.cc
  obtain ⟨_, tn2⟩ := C19Sys.restart_tasksOK _ _ _ _ h.hn
  have hcl := h.cl
  have hknown : ∀ t ∈ C15Tasks.submitted op ++ C15Tasks.pending (x.node i), (i, t) ∈ (crashS x i op n).tasks := by
    intro t ht
    rcases List.mem_append.mp ht with ht | ht
    · exact List.mem_append_left _ (List.mem_map.mpr ⟨t, ht, rfl⟩)
    · exact List.mem_append_right _ (hcl.pend i t ht)
  have hold : ∀ a ∈ x.answers, a.node = i → a.task ∉ C15Tasks.submitted op ++ C15Tasks.pending (x.node i) := by
    intro a ha hn hm
    rcases List.mem_append.mp hm with hm | hm
    · have := (hcl.ansTask a ha).2
      rw [hn] at this
      exact h.en.idsFresh _ hm this
    · have := hcl.ansNP a ha
      rw [hn] at this
      exact this hm
  have hsplit : ∀ a ∈ (crashSA x i op n A).answers, a ∈ A ∨ a ∈ x.answers := fun a ha => List.mem_append.mp ha
  refine ⟨base.tasksOK, base.pend, base.subTask, base.subUniq, base.subNode, base.subData, base.queue, base.updSub,
    base.updUniq, base.updCr, fun a ha => ?_, fun a ha m hm => ?_, fun a ha hd => ?_, fun a ha => ?_,
    fun a ha a' ha' en et => ?_⟩
  · rcases hsplit a ha with ha | ha
    · obtain ⟨e1, e2, e3⟩ := hA.sub a ha
      exact ⟨e2, by rw [e1]; exact hknown _ (tk2 _ e3 e2)⟩
    · exact base.ansTask a ha
  · rcases hsplit a ha with ha | ha
    · obtain ⟨s, hs, k1, k2, k3, p, hp⟩ := hA.backed a ha m hm
      exact ⟨s, hs, k1, k2, k3, p, hp.mono cc.ext.T cc.ext.committed⟩
    · exact base.ansVal a ha m hm
  · rcases hsplit a ha with ha | ha
    · exact absurd hd (hA.notDef a ha)
    · exact base.ansDef a ha hd
  · rcases hsplit a ha with ha | ha
    · rw [(hA.sub a ha).1]
      show a.task ∉ C15Tasks.pending ((crashS x i op n).node i)
      rw [h.node_i, tn2]; exact fun hc => by cases hc
    · exact base.ansNP a ha
  · rcases hsplit a ha with ha | ha <;> rcases hsplit a' ha' with ha' | ha'
    · have hnd : ((A.filter (fun _ => true)).map (·.task)).Nodup := by
        have e : A.filter (fun _ => true) = A := List.filter_eq_self.mpr (fun _ _ => rfl)
        rw [e]; exact hA.nodup
      exact inj_of_nodup (fun _ => true) (·.task) A hnd a ha a' ha' rfl rfl et
    · obtain ⟨e1, e2, e3⟩ := hA.sub a ha
      exact (hold a' ha' (by rw [← en, e1]) (by rw [← et]; exact tk2 _ e3 e2)).elim
    · obtain ⟨e1, e2, e3⟩ := hA.sub a' ha'
      exact (hold a ha (by rw [en, e1]) (by rw [et]; exact tk2 _ e3 e2)).elim
    · exact base.ansOnce a ha a' ha' en et

/-- EXAMPLE (`Early` is satisfiable with a non-empty `A` only by answers of the step; trivially by none): delivering
no answer is the transition `C07Sys.Trans.crash` itself. -/
example (x : C07Sys.Sys) (i : Nat) (op : Op) (ra : List Nat) (ord : List (List Nat)) (n : Node) :
    Early x i op ra ord [] ∧ (crashSA x i op n []).answers = (crashS x i op n).answers :=
  ⟨Early.mk (fun _ ha => absurd ha List.not_mem_nil) List.nodup_nil (fun _ ha => absurd ha List.not_mem_nil)
    (fun _ ha => absurd ha List.not_mem_nil), rfl⟩

end early

end C07Sys2
end Raft

#print axioms Raft.C07Sys2.role_change_never_rejects_definitely
#print axioms Raft.C07Sys2.step_definite_only_from_handler
#print axioms Raft.C07Sys2.lost_leadership_answers_pending_ambiguously
#print axioms Raft.C07Sys2.step_lost_leadership_answers_pending
#print axioms Raft.C07Sys2.crash_after_all_points
#print axioms Raft.C07Sys2.storeEntry_head_rule
#print axioms Raft.C07Sys2.answer_precedes_storage_point
#print axioms Raft.C07Sys2.fsmApply_index_commit
#print axioms Raft.C07Sys2.barrier_ok_means_applied_node
#print axioms Raft.C07Sys2.answers_before_crash_are_sound_partial
