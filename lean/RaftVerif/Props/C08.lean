/-
C08 — Membership changes preserve safety (node-local part).

Proved for ALL inputs (any latest configuration, any submitted configuration, any replication status,
any value of the timing bit):
* every configuration the leader derives differs from its predecessor by at most one voter and keeps a
  voter that is not leaving (`actionConfig_adjacent`, `actionConfig_keeps_voter`, `selfAction_*`);
* nothing is appended unless `canChangeConfig` = previous configuration committed ∧ an entry of the
  leader's own term committed ∧ no transfer in progress (`no_append_unless_canChangeConfig`);
* a rejected ChangeConfig request has no effect (`onChangeConfig_rejections`).
Election safety / commit stability across configurations (the cluster-level clause) are C01/C02.
-/
import RaftVerif.Lemmas.StepInv

namespace Raft
namespace C08
open Node

/-- voting rights agree everywhere except possibly at one node id -/
def AdjacentVoters (c c' : Config) : Prop := ∃ id, ∀ x, x ≠ id → c'.isVoter x = c.isVoter x

theorem find_insertSorted_ne (m : CNode) (l : List CNode) (x : Nat) (h : x ≠ m.id) :
    (Config.insertSorted m l).find? (·.id == x) = l.find? (·.id == x) := by
  induction l with
  | nil => simp [Config.insertSorted, List.find?]; intro he; exact absurd he.symm h
  | cons a as ih =>
    unfold Config.insertSorted
    split
    · simp only [List.find?]
      have : (m.id == x) = false := by simp; intro he; exact h he.symm
      rw [this]
    · split
      · rename_i heq
        simp only [List.find?]
        have h1 : (m.id == x) = false := by simp; intro he; exact h he.symm
        have h2 : (a.id == x) = false := by simp; intro he; exact h (by rw [heq, he])
        rw [h1, h2]
      · simp only [List.find?]
        split
        · rfl
        · exact ih

theorem isVoter_set_ne (c : Config) (m : CNode) (x : Nat) (h : x ≠ m.id) :
    (c.set m).isVoter x = c.isVoter x := by
  unfold Config.isVoter Config.find? Config.set
  simp only
  rw [find_insertSorted_ne m c.nodes x h]

theorem find_filter_ne (l : List CNode) (id x : Nat) (h : x ≠ id) :
    (l.filter (·.id != id)).find? (·.id == x) = l.find? (·.id == x) := by
  induction l with
  | nil => rfl
  | cons a as ih =>
    simp only [List.filter]
    by_cases ha : a.id = id
    · have h1 : (a.id != id) = false := by simp [ha]
      have h2 : (a.id == x) = false := by simp; intro he; exact h (by rw [← he, ha])
      rw [h1]
      simp only [List.find?, h2]
      exact ih
    · have h1 : (a.id != id) = true := by simp [ha]
      rw [h1]
      simp only [List.find?]
      split
      · rfl
      · exact ih

theorem isVoter_erase_ne (c : Config) (id x : Nat) (h : x ≠ id) :
    (c.erase id).isVoter x = c.isVoter x := by
  unfold Config.isVoter Config.find? Config.erase
  simp only
  rw [find_filter_ne c.nodes id x h]

/-- **one voter at a time**: whatever `checkConfigAction` proposes for node `n` differs from the
configuration it was derived from at most in the voting right of `n`. -/
theorem actionConfig_adjacent (latestIndex : Nat) (config : Config) (n : CNode) (action : Nat) (st : Repl)
    (c' : Config) (h : actionConfig latestIndex config n action st = some c') :
    AdjacentVoters config c' := by
  refine ⟨n.id, fun x hx => ?_⟩
  unfold actionConfig at h
  repeat' (split at h)
  all_goals first
    | (injection h with h; subst h; first | exact isVoter_set_ne _ _ _ hx | exact isVoter_erase_ne _ _ _ hx)
    | cases h

/-- the same for the leader acting on itself (`checkConfigActions`, Demote / Remove / ForceRemove of self) -/
theorem selfAction_adjacent (config : Config) (n : CNode) :
    AdjacentVoters config (config.set { n with voter := false, action := actNone }) ∧
    AdjacentVoters config (config.erase n.id) :=
  ⟨⟨n.id, fun x hx => isVoter_set_ne _ _ _ hx⟩, ⟨n.id, fun x hx => isVoter_erase_ne _ _ _ hx⟩⟩

/-- **a voter always remains**: a voter that is not the subject of the action keeps its vote. In
particular, if the configuration has a voter without pending action (what `onChangeConfig` demands
of every submitted configuration), the derived configuration still has that voter. -/
theorem actionConfig_keeps_voter (latestIndex : Nat) (config : Config) (n : CNode) (action : Nat) (st : Repl)
    (c' : Config) (h : actionConfig latestIndex config n action st = some c')
    (v : Nat) (hv : config.isVoter v = true) (hne : v ≠ n.id) : c'.isVoter v = true := by
  obtain ⟨id, hid⟩ := actionConfig_adjacent latestIndex config n action st c' h
  -- the exceptional id of adjacency is n.id in every branch; reuse the branch analysis
  unfold actionConfig at h
  repeat' (split at h)
  all_goals first
    | (injection h with h; subst h
       first
        | (refine Eq.trans (isVoter_set_ne _ _ _ ?_) hv; exact hne)
        | (refine Eq.trans (isVoter_erase_ne _ _ _ ?_) hv; exact hne))
    | cases h

/-! ### the append guard -/

theorem canChangeConfig_setRepl (s : Node) (r : Repl) : (s.setRepl r).canChangeConfig = s.canChangeConfig := rfl

/-- `checkConfigAction` appends nothing unless `canChangeConfig` holds. -/
theorem checkConfigAction_no_append (fuel : Nat) (s : Node) (task : Nat) (config : Config) (id : Nat)
    (h : s.canChangeConfig = false) :
    (checkConfigAction fuel s task config id).log = s.log ∧
    (checkConfigAction fuel s task config id).canChangeConfig = false ∧
    (checkConfigAction fuel s task config id).nid = s.nid := by
  have hp : ∀ (x : Node) site, (x.panic site).log = x.log ∧ (x.panic site).canChangeConfig = x.canChangeConfig ∧
      (x.panic site).nid = x.nid := by
    intro x site; unfold Node.panic; split <;> exact ⟨rfl, rfl, rfl⟩
  cases fuel with
  | zero =>
    unfold checkConfigAction
    obtain ⟨a, b, c⟩ := hp s "fuel"; exact ⟨a, by rw [b]; exact h, c⟩
  | succ n =>
    unfold checkConfigAction
    dsimp only
    split
    · exact ⟨rfl, h, rfl⟩
    · split
      · exact ⟨rfl, h, rfl⟩
      · split
        · exact ⟨rfl, by rw [canChangeConfig_setRepl]; exact h, rfl⟩
        · rw [if_pos (by rw [canChangeConfig_setRepl, h]; rfl)]
          exact ⟨rfl, by rw [canChangeConfig_setRepl]; exact h, rfl⟩

/-- **the guard**: when `canChangeConfig` is false — the previous configuration is not committed, or
the leader has not committed an entry of its own term, or a transfer is in progress — `checkConfigActions`
(called from leader.init, commit, replication updates, transfer timeout) appends nothing. -/
theorem no_append_unless_canChangeConfig (fuel : Nat) (s : Node) (task : Nat) (config : Config)
    (h : s.canChangeConfig = false) :
    (checkConfigActions fuel s task config).log = s.log := by
  cases fuel with
  | zero =>
    unfold checkConfigActions Node.panic; split <;> rfl
  | succ n =>
    unfold checkConfigActions
    dsimp only
    rw [if_neg (by rw [h]; simp)]
    dsimp only
    have key : ∀ (ids : List Nat) (x : Node), x.canChangeConfig = false →
        (ids.foldl (fun s id => match s.findRepl? id with
            | some _ => checkConfigAction n s task config id
            | none => s) x).log = x.log := by
      intro ids
      induction ids with
      | nil => intro x _; rfl
      | cons i is ih =>
        intro x hx
        simp only [List.foldl]
        split
        · obtain ⟨a, b, _⟩ := checkConfigAction_no_append n x task config i hx
          rw [ih _ b, a]
        · exact ih _ hx
    exact key _ s.popOrder h

/-- what `canChangeConfig` means -/
theorem canChangeConfig_iff (s : Node) :
    s.canChangeConfig = true ↔
      (s.configs.latest.index = s.configs.committed.index ∧ s.ldr.transfer.active = false ∧
       s.commitIndex ≥ s.ldr.startIndex) := by
  unfold Node.canChangeConfig Configs.isCommitted
  simp [Bool.and_eq_true]
  constructor
  · intro ⟨⟨a, b⟩, c⟩; exact ⟨a, b, c⟩
  · intro ⟨a, b, c⟩; exact ⟨⟨a, b⟩, c⟩

/-! ### rejected requests have no effect -/

/-- every rejection path of `onChangeConfig` only replies -/
theorem onChangeConfig_rejections (s : Node) (task : Nat) (c : Config)
    (h : ¬ s.configs.isCommitted = true ∨ s.commitIndex < s.ldr.startIndex ∨
         c.index ≠ s.configs.latest.index ∨ configValid c = false) :
    ∃ r, s.onChangeConfig task c = s.reply task r := by
  unfold Node.onChangeConfig
  by_cases h1 : s.configs.isCommitted = true
  · rw [if_neg (by simp [h1])]
    by_cases h2 : s.commitIndex < s.ldr.startIndex
    · rw [if_pos h2]; exact ⟨_, rfl⟩
    · rw [if_neg h2]
      by_cases h3 : c.index ≠ s.configs.latest.index
      · rw [if_pos h3]; exact ⟨_, rfl⟩
      · rw [if_neg h3]
        by_cases h4 : configValid c = false
        · rw [if_pos (by simp [h4])]; exact ⟨_, rfl⟩
        · exfalso; rcases h with h | h | h | h
          · exact h h1
          · exact h2 h
          · exact h3 h
          · exact h4 h
  · rw [if_pos (by simpa using h1)]; exact ⟨_, rfl⟩

end C08
end Raft

#print axioms Raft.C08.actionConfig_adjacent
#print axioms Raft.C08.selfAction_adjacent
#print axioms Raft.C08.actionConfig_keeps_voter
#print axioms Raft.C08.checkConfigAction_no_append
#print axioms Raft.C08.no_append_unless_canChangeConfig
#print axioms Raft.C08.canChangeConfig_iff
#print axioms Raft.C08.onChangeConfig_rejections
