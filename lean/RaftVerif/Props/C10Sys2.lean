/-
C10 on the cluster-level systems WITH SNAPSHOTS — **a node process that dies at any instant, between any two storage
operations of any handler (those of the snapshot goroutine, of `onSnapshotTaken` / compaction and of the install handler
included), and is restarted on the same storage directory starts successfully, with a term and vote no older than any it
had acknowledged, with every log entry it had acknowledged as stored and that its snapshot does not cover, with a snapshot
that is a committed prefix consistent with its log, and with configurations derived from snapshot label + log; the cluster
it rejoins is a reachable state again, so every safety theorem keeps holding; and (fixed-membership system without
snapshots) the restarted node CAN be brought up to date within an explicit bound.**

Part 1 — `Raft.Snap4` (Sys/Snap4.lean = Sys/Snap3.lean without the premise `TermTracked`: local snapshots, compaction,
installation of snapshots, crashes at every storage point of every handler). Restrictions (`_partial`): those of the
system (fixed voter set `V`, fixed stable configuration, no forged requests, no `shutdown`, replication updates report no
compaction, side conditions `Side4` on every state), and
* existence of the restarted node (`restart_succeeds_snap_partial`, `restart_succeeds_install_partial`) needs NEITHER
  `NoCut` NOR "the log on disk is not stale": it holds at EVERY crash point of EVERY enabled step that would not panic —
  explicit assumptions: the node has a cluster id (`cid ≠ 0`, else `Raft.New` refuses to start; never changes), and
  `TrackCrash.SnapFbOp` (for `.snapRun` only: if the state machine holds NO configuration when the snapshot goroutine
  stores a snapshot, the configuration captured at request time is covered by it — see `C12Crash.snapFb_needed`; the
  per-node invariants do not exclude a state machine without configuration above a compacted prefix);
* "rejoins" (`rejoin_snap_partial`) and the statements that use the cluster invariant in the state after the restart
  (`restart_keeps_acknowledged_entries_snap_partial`, `restart_snapshot_consistent_snap_partial`) are about the crash
  transitions of the system (`RestartSys.CrashOf`): a crash in an operation of stage 2 with `Snap3.NoCut` and a log on
  disk that is not stale (`staleLog = false`), or a crash at any point of the install handler; the state after the restart
  satisfies the side conditions `Side4`. What is NOT covered: a crash in an append handler inside the `NoCut` window, and a
  crash after which `openStorage` resets a log that ends below a snapshot the node TOOK itself (possible: a follower may
  commit, apply and snapshot entries it created as an earlier leader and never flushed — finding (a) of C02Sys/C06Sys) —
  there the restart SUCCEEDS and yields a tracking, ordered node (part of the first theorem) but the state is outside
  the system's crash transition.
  `restart_keeps_acknowledged_vote_snap_partial` needs none of these (C05 holds for arbitrary requests).
Part 2 — `Raft.Member` (Sys/Member.lean, runs of `C08Member.ReachableR`: arbitrary chains of membership changes; no
snapshots): `restart_succeeds_member_partial` (the restart succeeds at every crash point of every step the system admits;
the restarted node tracks, is ordered and `Good`; ITS CONFIGURATIONS ARE DERIVED FROM THE LOG ON DISK AT THAT CRASH POINT —
configuration entries appended / truncated / half flushed included; the state after the restart is reachable, NO side
condition), `restart_keeps_acknowledged_vote_member_partial`, `restart_keeps_acknowledged_entries_member_partial`,
`restart_keeps_committed_acknowledged_member_partial`, `rejoin_member_partial`. One explicit hypothesis: every node of the
state tracks (`C12Track.Tracks`) — inductive along the runs (`tracks_in_member_partial`), true of initial states.
Part 3 — `rejoin_converges_possible_partial` on `Raft.Commit` (`SysInv.ReachableG`, the system of Props/C10Sys.lean): after
the restart, every live majority that contains the restarted node can elect a leader of a new term, commit an entry of it
and bring the restarted node up to date, within `6·|M| + 1` transitions (`C17Sys.progress_possible_partial`).
-/
import RaftVerif.Lemmas.RestartSysB
import RaftVerif.Lemmas.RestartSysC
import RaftVerif.Props.C09Sys3
import RaftVerif.Props.C10Sys
import RaftVerif.Props.C17Sys
import RaftVerif.Props.AuditMember

namespace Raft
namespace C10Sys2
open Node Election LogRel Replication CommitRel Commit C02Sys C03Sys SnapRel SnapRelU SnapSim Snap Snap2 SnapInv SnapInv2
open SnapInst Snap3 SnapInst3 Snap4 SnapInst4 TrackCrash RestartSys

section
variable {V : List Nat}

/-! ## Part 1: the system with snapshots, compaction and installation -/

/-! ### 1. the restart succeeds -/

/-- **C10 (1) with snapshots — a restart after a crash at any point succeeds (partial: see the file header).** Let `x`
be a state reachable in `Raft.Snap4`, `i` a node with a cluster id, `op` ANY operation of stage 2 that may be delivered to
`i` in `x` (`Snap.Enabled`: votes, append requests of the ledger, timeouts, client batches, `takeSnapshot`, `snapRun` —
the snapshot goroutine —, `snapTaken` — which compacts the log —, replication updates …) handled with ANY oracle, which
run to completion would not panic, with `SnapFbOp` (a condition on `.snapRun` only), and `k` ANY crash point of that step.
Restart the node on what is then on disk with any options (`r ≥ 1`). Then there is `n` with `Node.restart … = some n` (no
manual repair), `n.nid = i`, and `n` is `RestartSys.Restarted`:
* `n` tracks (`C12Track.Tracks`: state machine restored from the newest snapshot, label = newest configuration at or
  below the snapshot index, `snapTerm` = term of the log entry at the snapshot index), is ordered (`Order.Ordered`:
  `log.prev ≤ snapIndex ≤ applied ≤ commitIndex ≤ lastLogIndex = log.last`) and satisfies `C12Crash.CrashInv` again;
* its configurations are derived from the snapshot label and the log on disk at that point: `configs.latest` /
  `configs.committed` are the newest / second newest configuration entry above the snapshot, else the label;
  `configs.latest` is the newest configuration entry of its log (`C19Latest.LatestIsNewest`);
* it is a follower with the ids it had; `(term, votedFor)` is the durable pair, memory = disk, a legal successor of the
  pair the step started from (`C05.VoteStep`);
* its log is completely flushed, contiguous with the snapshot and agrees with it at the snapshot index. -/
theorem restart_succeeds_snap_partial (hV : V.Nodup) (x : Snap3.Sys) (h : Reachable4 V x) (i : Nat) (op : Op)
    (ra : List Nat) (ord : List (List Nat)) (src : Nat) (en : Snap.Enabled x.s2.cs i op src)
    (hp : ((x.node i).step op ra ord).panicked = none) (hfb : SnapFbOp (x.node i) op) (hcid : (x.node i).cid ≠ 0)
    (k r : Nat) (hr : 1 ≤ r) (sor : Bool) :
    ∃ n, Node.restart (C05.crashDisk (x.node i) op ra ord k) r sor = some n ∧
      Restarted (x.node i) (C05.crashDisk (x.node i) op ra ord k) n ∧ n.nid = i := by
  obtain ⟨r3, _, s4⟩ := reach4 hV h
  have hI := (inv3_reachable hV r3).1
  obtain ⟨n, hn, hR⟩ := restarted_of_crash (x.node i) op ra ord k r sor (crashInv_node4 hV h i en.id hcid)
    (voteWF3 hV r3 i) (reqOk_old hI en (s4.cfg i)) (reqDec_enabled (sentDec_reach3 r3) en) hfb hp hr
  exact ⟨n, hn, hR, by rw [hR.ident.2.1]; exact (hI.sinv.cinv.rp.el.ids i).1⟩

/-- **… and at every storage point of the install handler** (`value.set`, `snap.publish`, `snap.retain`, `clearLog`), for
every install request that is stale or one of the ledger — no further assumption. If the disk already holds the received
file the restarted node is in the installed state (`C09Sys3.install_crash_restarts_installed`). -/
theorem restart_succeeds_install_partial (hV : V.Nodup) (x : Snap3.Sys) (h : Reachable4 V x) (i : Nat) (m : SnapMsg)
    (ra : List Nat) (ord : List (List Nat)) (hi : i ≠ 0) (hm : m.q.term < (x.node i).term ∨ m ∈ x.sentSnaps)
    (hp : ((x.node i).step (.install m.q) ra ord).panicked = none) (hcid : (x.node i).cid ≠ 0)
    (k r : Nat) (hr : 1 ≤ r) (sor : Bool) :
    ∃ n, Node.restart (C05.crashDisk (x.node i) (.install m.q) ra ord k) r sor = some n ∧
      Restarted (x.node i) (C05.crashDisk (x.node i) (.install m.q) ra ord k) n ∧ n.nid = i := by
  obtain ⟨r3, i4, _⟩ := reach4 hV h
  have hI := (inv3_reachable hV r3).1
  have hrq : Order.ReqOk (x.node i) (.install m.q) := by
    show m.q.term < (x.node i).term ∨ m.q.lastIndex ≤ (x.node i).commitIndex ∨ Order.InstallOk m.q
    rcases hm with h' | h'
    · exact Or.inl h'
    · exact Or.inr (Or.inr (i4.mlab m h'))
  obtain ⟨n, hn, hR⟩ := restarted_of_crash (x.node i) (.install m.q) ra ord k r sor (crashInv_node4 hV h i hi hcid)
    (voteWF3 hV r3 i) hrq trivial trivial hp hr
  exact ⟨n, hn, hR, by rw [hR.ident.2.1]; exact (hI.sinv.cinv.rp.el.ids i).1⟩

/-! ### 2. acknowledged votes -/

/-- **C10 (2) with snapshots — the restarted node reports a term and vote no older than any it had acknowledged
(partial: the restrictions of `Raft.Snap4`; no condition on the crashing step).** Let `x` be reachable, `g = (voter, term,
cand)` any entry of the ledger `grants` of `x` (the voter answered `success` to a vote request of `cand` for `term`, or
voted for itself), `y` any later state of the run. If the voter dies in `y` at ANY crash point `k` of ANY step — any
operation, install requests and snapshot operations included, any oracle — and restarts as `n`, then `n` still honours
the grant: its term is above `term`, or it is `term` and `n.votedFor = cand`. -/
theorem restart_keeps_acknowledged_vote_snap_partial (hV : V.Nodup) (x y : Snap3.Sys) (hx : Reachable4 V x)
    (hrun : Run4 V x y) (g : C01.Grant) (hg : g ∈ x.s2.cs.rp.el.grants)
    (op : Op) (ra : List Nat) (ord : List (List Nat)) (k retain : Nat) (sor : Bool) (n : Node)
    (hn : Node.restart (C05.crashDisk (y.node g.voter) op ra ord k) retain sor = some n) :
    g.term < n.term ∨ (g.term = n.term ∧ n.votedFor = g.cand) := by
  obtain ⟨r3, _, _⟩ := reach4 hV (run4_reachable hx hrun)
  have hh := grant_honoured3 hV r3 g ((run4_mono hrun).grants g hg)
  obtain ⟨r1, r2, _⟩ := C05.restart_reads_durable _ _ _ _ hn
  have hd := Election.crashDisk_durStep (y.node g.voter) op ra ord k (voteWF3 hV r3 g.voter)
  have hvs : C05.VoteStep (y.node g.voter) n := by
    unfold C05.VoteStep; rw [r1, r2]; exact hd
  exact (C01Sys.honouredBy_step hh hvs).2

/-! ### 3. the cluster after the restart -/

/-- **the safety properties in a state `z` of the cluster with snapshots**, as proved for reachable states
(Props/C09Sys3.lean):
* `election` (C01): two leaders of one term are the same node; the ledger `won` names at most one node per term;
* `matching` (C04): two logs that hold entries with the same term at an index hold the same entry at every index up to
  it that both still hold;
* `completeness` (C02): a leader whose term is at least the term of node `j` holds (virtually: compacted-away and
  installed prefixes included) at every index within `j`'s commit index the very entry `j` holds;
* `stateMachine` (C03): every state machine holds exactly the update payloads of the entries `1 … fsm.index` of the
  node's virtual log, never beyond the commit index; any two command sequences are prefix-comparable;
* `snapshot` (C09): `log.prev ≤ snapIndex ≤ commitIndex`; the log entry at the snapshot index, if held, has term
  `snapTerm`; every snapshot file on disk is the replay of the node's virtual log up to its index — a committed prefix,
  the same on every node whose commit index covers it;
* `tracked` (C12/C19): every node tracks and is ordered. -/
structure SafeS (V : List Nat) (z : Snap3.Sys) : Prop where
  election : (∀ i j, (z.node i).role = .leader → (z.node j).role = .leader → (z.node i).term = (z.node j).term → i = j) ∧
    (∀ l l' t, (l, t) ∈ z.s2.cs.rp.el.won → (l', t) ∈ z.s2.cs.rp.el.won → l = l')
  matching : ∀ i j k a b, (z.node i).log.get? k = some a → (z.node j).log.get? k = some b → a.term = b.term →
    ∀ k', k' ≤ k → ∀ a' b', (z.node i).log.get? k' = some a' → (z.node j).log.get? k' = some b' → a' = b'
  completeness : ∀ i j k, (z.node i).role = .leader → (z.node j).term ≤ (z.node i).term → 1 ≤ k →
    k ≤ (z.node j).commitIndex →
    (z.vnode i).log.get? k = (z.vnode j).log.get? k ∧ ((z.vnode j).log.get? k).isSome = true
  stateMachine : (∀ i, (z.node i).fsm.index ≤ (z.node i).commitIndex ∧
      (z.node i).fsm.applied = ups ((z.vlog i).take (z.node i).fsm.index)) ∧
    (∀ i j, (z.node i).fsm.applied <+: (z.node j).fsm.applied ∨ (z.node j).fsm.applied <+: (z.node i).fsm.applied)
  snapshot : ∀ i, ((z.node i).log.prev ≤ (z.node i).snapIndex ∧ (z.node i).snapIndex ≤ (z.node i).commitIndex) ∧
    (∀ e, (z.node i).log.get? (z.node i).snapIndex = some e → e.term = (z.node i).snapTerm) ∧
    ∀ f ∈ (z.node i).snapsDisk, 1 ≤ f.index ∧ f.index ≤ (z.node i).snapIndex ∧
      f.data = ups ((z.vlog i).take f.index) ∧
      ∀ j, f.index ≤ (z.node j).commitIndex → f.data = ups ((z.vlog j).take f.index)
  tracked : ∀ i, C12Track.Tracks (z.node i) ∧ Order.Ordered (z.node i)

/-- every state reachable in `Raft.Snap4` is safe -/
theorem safeS_of_reachable (hV : V.Nodup) (z : Snap3.Sys) (h : Reachable4 V z) : SafeS V z := by
  obtain ⟨r3, i4, _⟩ := reach4 hV h
  have hE := (inv3_reachable hV r3).1.sinv.cinv.rp.el
  have hwon : ∀ l l' t, (l, t) ∈ z.s2.cs.rp.el.won → (l', t) ∈ z.s2.cs.rp.el.won → l = l' := fun l l' t h1 h2 =>
    C01.election_safety_partial _ V hV hE.unique l l' t (hE.backed l t h1) (hE.backed l' t h2)
  obtain ⟨s1, _, _, s4⟩ := C09Sys3.state_machine_safety_sys_snap3_partial hV z r3
  refine ⟨⟨fun i j hi hj ht => ?_, hwon⟩,
    fun i j k a b ha hb ht => (C09Sys3.log_matching_sys_snap3_partial hV z r3 i j k a b ha hb ht).1,
    (C09Sys3.leader_completeness_sys_snap3_partial hV z r3).2.1,
    ⟨fun i => ⟨(s1 i).1, (s1 i).2.2⟩, s4⟩, fun i => ?_, fun i => ⟨i4.tracks i, i4.ord i⟩⟩
  · exact hwon i j (z.node i).term (hE.recorded i hi) (by rw [ht]; exact hE.recorded j hj)
  · obtain ⟨a1, _, a3⟩ := C09Sys3.snapshot_agrees_with_log_partial hV z r3 i
    refine ⟨a1, a3.1, fun f hf => ?_⟩
    obtain ⟨b1, b2, _, _, b5, b6⟩ := C09Sys3.snapshot_is_committed_prefix_partial hV z r3 i f (Or.inr hf)
    exact ⟨b1, b2, b5, b6⟩

/-- **C10 (4) with snapshots — the restarted node rejoins the cluster without violating any safety property (partial:
see the file header).** Let `x` be reachable in `Raft.Snap4` and `y` the state after node `i` died — at ANY crash point
of an enabled operation of stage 2 (with `NoCut`, the log on disk not stale) or at ANY crash point of the install handler
(`RestartSys.CrashOf`) — and restarted as `n`; let `y` satisfy the side conditions `Side4` (configurations: the restarted
node's latest configuration is the stable configuration with voters `V`, …). Then
* `y` is a reachable state of `Raft.Snap4` again, node `i` of `y` is `n`, the other nodes are untouched;
* every state `z` of every continuation of the run is reachable (also in `Raft.Snap3`: ALL theorems of
  Props/C09Sys3.lean hold in `z`) and `SafeS V z`: election safety, log matching, leader completeness, state-machine
  safety, snapshots are committed prefixes consistent with the logs, every node tracking and ordered — whatever the
  restarted node and the others do next (more crashes, snapshots, installations included);
* nothing acknowledged before the crash is forgotten by the ledgers (`RestartSys.Keeps`: leaders ever elected, votes
  granted, acknowledgements, committed and created entries, snapshot files, install requests). -/
theorem rejoin_snap_partial (hV : V.Nodup) (x y : Snap3.Sys) (hx : Reachable4 V x) (i : Nat) (n : Node)
    (hc : CrashOf x i n y) (hs : Side4 V y) :
    (Reachable4 V y ∧ y.node i = n ∧ ∀ j, j ≠ i → y.node j = x.node j) ∧
    ∀ z, Run4 V y z → Reachable4 V z ∧ Reachable3 V z ∧ SafeS V z ∧ Keeps x z := by
  have hy : Reachable4 V y := .next x y hx hc.trans hs
  refine ⟨⟨hy, hc.node_i, fun j hj => hc.node_j hj⟩, fun z hrun => ?_⟩
  have hz := run4_reachable hy hrun
  exact ⟨hz, (reach4 hV hz).1, safeS_of_reachable hV z hz, (trans4_mono hc.trans).trans (run4_mono hrun)⟩

/-! ### 4. acknowledged entries -/

/-- **C10 (3) with snapshots — the restarted node holds every entry it had acknowledged as stored and that its snapshot
does not cover (partial: see the file header).** Let `x` be reachable in `Raft.Snap4`, `a = (voter, term, index, eterm)` an
acknowledgement recorded in `x` (indexes are indexes of the voter's VIRTUAL log), `b` an entry OF THE ACKNOWLEDGEMENT'S
TERM on the path to the acknowledged entry, `y` any later state of the run, and let the voter die in `y` (a crash
transition of the system, `CrashOf y a.voter n y'`: any crash point of an enabled operation of stage 2, or of the install
handler) and restart as `n`, the state `y'` after the restart satisfying `Side4`. Then EITHER
* `b.1` is within the flushed part of `n`'s log, and: if `b.1` is above `n.log.prev`, `n`'s log holds an entry of term
  `b.2` at `b.1`; if `b.1 ≤ n.log.prev`, then `b.1 ≤ n.snapIndex`: the entry is covered by `n`'s snapshot (which is the
  replay of a log holding it: `restart_snapshot_consistent_snap_partial`); OR
* the tree of created entries holds an entry of a later term, not above `n`'s term, that does not extend `b`: a later
  leader overwrote it (never the case for a committed `b`: `restart_keeps_committed_acknowledged_snap_partial`). -/
theorem restart_keeps_acknowledged_entries_snap_partial (hV : V.Nodup) (x y y' : Snap3.Sys) (hx : Reachable4 V x)
    (hrun : Run4 V x y) (a : Ack) (ha : a ∈ x.s2.cs.acks) (b : Nat × Nat) (hb : b.2 = a.term)
    (hanc : Anc x.s2.cs.T b a.key) (n : Node) (hc : CrashOf y a.voter n y') (hs : Side4 V y') :
    (b.1 ≤ n.log.flushed ∧ (n.log.prev < b.1 → ∃ e, n.log.get? b.1 = some e ∧ e.term = b.2) ∧
      (b.1 ≤ n.log.prev → b.1 ≤ n.snapIndex)) ∨
    ∃ c ∈ y'.s2.cs.T, b.2 < c.e.term ∧ c.e.term ≤ n.term ∧ ¬ Anc y'.s2.cs.T b (c.e.index, c.e.term) := by
  have hy := run4_reachable hx hrun
  have hy' : Reachable4 V y' := .next y y' hy hc.trans hs
  have kp := (run4_mono hrun).trans (trans4_mono hc.trans)
  have key := ack_held3 hV (reach4 hV hy').1 a (kp.acks a ha) b hb (hanc.mono kp.tree)
  rw [hc.node_i] at key
  rcases key with ⟨k1, _, k3, k4⟩ | ⟨c, hcT, h1, h2, h3⟩
  · exact Or.inl ⟨k1, k3, k4⟩
  · exact Or.inr ⟨c, hcT, h1, h2, h3⟩

/-- **… and a committed entry it acknowledged in the entry's term, without exception** (same assumptions): if `m` is in
the ledger `committed` of `x` and `a` is an acknowledgement of `x` in `m`'s term at or beyond `m` on `m`'s path, then after
the crash and restart `m.1` is within the flushed part of the restarted node's log, which holds an entry of `m`'s term
there — or `m.1 ≤ n.log.prev ≤ n.snapIndex`: the snapshot covers it. -/
theorem restart_keeps_committed_acknowledged_snap_partial (hV : V.Nodup) (x y y' : Snap3.Sys) (hx : Reachable4 V x)
    (hrun : Run4 V x y) (m : Nat × Nat) (hm : m ∈ x.s2.cs.committed) (a : Ack) (ha : a ∈ x.s2.cs.acks)
    (hat : a.term = m.2) (hanc : Anc x.s2.cs.T m a.key) (n : Node) (hc : CrashOf y a.voter n y') (hs : Side4 V y') :
    m.1 ≤ n.log.flushed ∧ (n.log.prev < m.1 → ∃ e, n.log.get? m.1 = some e ∧ e.term = m.2) ∧
      (m.1 ≤ n.log.prev → m.1 ≤ n.snapIndex) := by
  have hy := run4_reachable hx hrun
  have hy' : Reachable4 V y' := .next y y' hy hc.trans hs
  have kp := (run4_mono hrun).trans (trans4_mono hc.trans)
  rcases restart_keeps_acknowledged_entries_snap_partial hV x y y' hx hrun a ha m hat.symm hanc n hc hs with
    h | ⟨c, hcT, h1, _, h3⟩
  · exact h
  · have hI := (inv3_reachable hV (reach4 hV hy').1).1
    exact absurd (hI.sinv.cinv.cmt.lc m (kp.committed m hm) c hcT h1) h3

/-! ### 5. the snapshot of the restarted node -/

/-- **C10 with snapshots — the restarted node's snapshot is a committed prefix consistent with its log (partial: see the
file header).** Under the hypotheses of `rejoin_snap_partial` (`y`: the state after node `i` of the reachable state `x`
died at any crash point covered by `CrashOf` and restarted as `n`; `Side4 V y`):
1. `n.log.prev ≤ n.snapIndex ≤ n.commitIndex`, and the log entry at the snapshot index, if `n`'s log holds it, has term
   `n.snapTerm` — whether the snapshot was taken by the node or installed from a leader, and whether the process died
   before, between or after `snap.publish` / `snap.retain` / `compactLog` / `clearLog`;
2. every snapshot file `f` on `n`'s disk has `1 ≤ f.index ≤ n.snapIndex`; `f.data` is the replay (update payloads, in
   order) of the first `f.index` entries of `n`'s virtual log in `y`, every one of them committed; and it is the replay
   of the virtual log of EVERY node `j` whose commit index covers `f.index`;
3. `n`'s state machine holds exactly the update payloads of the first `n.fsm.index` entries of its virtual log. -/
theorem restart_snapshot_consistent_snap_partial (hV : V.Nodup) (x y : Snap3.Sys) (hx : Reachable4 V x) (i : Nat)
    (n : Node) (hc : CrashOf x i n y) (hs : Side4 V y) :
    ((n.log.prev ≤ n.snapIndex ∧ n.snapIndex ≤ n.commitIndex) ∧
      ∀ e, n.log.get? n.snapIndex = some e → e.term = n.snapTerm) ∧
    (∀ f ∈ n.snapsDisk, 1 ≤ f.index ∧ f.index ≤ n.snapIndex ∧
      (∀ k, 1 ≤ k → k ≤ f.index → Committed (view3 y).cs (k, termAt (y.vlog i) k)) ∧
      f.data = ups ((y.vlog i).take f.index) ∧
      ∀ j, f.index ≤ (y.node j).commitIndex → f.data = ups ((y.vlog j).take f.index)) ∧
    (n.fsm.index ≤ n.commitIndex ∧ n.fsm.applied = ups ((y.vlog i).take n.fsm.index)) := by
  have hy : Reachable4 V y := .next x y hx hc.trans hs
  have r3 := (reach4 hV hy).1
  obtain ⟨a1, _, a3⟩ := C09Sys3.snapshot_agrees_with_log_partial hV y r3 i
  have hp := C09Sys3.snapshot_is_committed_prefix_partial hV y r3 i
  obtain ⟨s1, _, _, _⟩ := C09Sys3.state_machine_safety_sys_snap3_partial hV y r3
  have hs1 := s1 i
  rw [hc.node_i] at a1 a3 hp hs1
  refine ⟨⟨a1, a3.1⟩, fun f hf => ?_, hs1.1, hs1.2.2⟩
  obtain ⟨b1, b2, _, b4, b5, b6⟩ := hp f (Or.inr hf)
  exact ⟨b1, b2, b4, b5, b6⟩

end

/-! ## Part 3: after the restart the node can be brought up to date (fixed-membership system, `Raft.Commit`) -/

section
open NoPanic SysInv SysMore Progress
open Election (setNode setNode_same setNode_other)

/-- a restarted node is open: its state loop runs -/
theorem restart_closed (d : Durable) (r : Nat) (sor : Bool) (n : Node) (hn : Node.restart d r sor = some n) :
    n.closed = "" := by
  obtain ⟨_, _, _, hne⟩ := C10.restart_some d r sor n hn
  rw [hne]
  split
  · show (restartNode d r sor).fsmRestore.closed = ""
    rw [fsmRestore_eq]; rfl
  · rfl

/-- **C10, last clause, as POSSIBILITY — the restarted node rejoins and CAN converge with the cluster (partial: the
restrictions of Props/C10Sys.lean and Props/C17Sys.lean: fixed voter set `V`, fixed stable configuration, no snapshots;
a model has no clocks: a run EXISTS).** Under the hypotheses of `C10Sys.rejoin_preserves_safety_partial` — `x` reachable
(`SysInv.ReachableG`), node `i` dies at ANY crash point `k` of ANY enabled step and restarts as `n`, `x' = crashC x i op n`
the state after the restart with its side condition `SideV` — let `M` be a live majority that CONTAINS the restarted
node: a duplicate-free list of non-zero voter ids, `2·|M| > |V|`, every OTHER node of `M` open (the restarted node is:
`restart_closed`), the member ids of the latest configurations of the nodes of `M` (in `x'`) distinct. Then there is a
run from `x'` of at most `6·|M| + 1` transitions, every one an operation of a node of `M`, at most two election timeouts
per node, no crash, to a state `y` in which a node `w ∈ M` is leader of a term above the restarted node's term `n.term`
and has committed and applied an entry of its own term at index `N`, and **the restarted node `i` is up to date**: it has
the leader's term, its log agrees with the leader's up to `N` entry by entry, `N` is within its commit index and its
state machine has applied everything up to its commit index (if `i = w` it is that leader). `y` is reachable, hence safe
(`C10Sys.Safe`: C01–C04, C19). -/
theorem rejoin_converges_possible_partial (V : List Nat) (hV : V.Nodup) (x : Commit.Sys) (h : ReachableG V x)
    (i : Nat) (op : Op) (ra : List Nat) (ord : List (List Nat)) (src : Nat) (he : Commit.Enabled x i op src)
    (heG : EnabledG x i op) (k : Nat) (hopen : (x.node i).closed = "" ∨ k = 0)
    (retain : Nat) (hret : 1 ≤ retain) (sor : Bool) (n : Node)
    (hn : Node.restart (C05.crashDisk (x.node i) op ra ord k) retain sor = some n)
    (hs : SideV V (crashC x i op n))
    (M : List Nat) (hM : M.Nodup) (hMV : ∀ j ∈ M, j ∈ V) (hmaj : 2 * M.length > V.length) (h0 : ∀ j ∈ M, j ≠ 0)
    (hiM : i ∈ M) (hopenM : ∀ j ∈ M, j ≠ i → (x.node j).closed = "")
    (hids : ∀ j ∈ M, ((crashC x i op n).node j).configs.latest.ids.Nodup) :
    ∃ (ls : List Lbl) (y : Commit.Sys) (w N : Nat),
      Exec V (crashC x i op n) ls y ∧ RunG V (crashC x i op n) y ∧ ReachableG V y ∧ C10Sys.Safe V y ∧
      ls.length ≤ 6 * M.length + 1 ∧ (∀ l ∈ ls, l.actor ∈ M) ∧ (∀ j, (ls.filter (Lbl.isTimeoutOf j)).length ≤ 2) ∧
      w ∈ M ∧ (y.node w).role = .leader ∧ n.term < (y.node w).term ∧
      N ≤ (y.node w).log.entries.length ∧ termAt (y.node w).log.entries N = (y.node w).term ∧
      N ≤ (y.node w).commitIndex ∧
      ((y.node i).term = (y.node w).term ∧ (y.node i).log.entries.take N = (y.node w).log.entries.take N ∧
        N ≤ (y.node i).commitIndex ∧ (y.node i).fsm.index = (y.node i).commitIndex ∧ (y.node i).closed = "") := by
  have hx' := (C10Sys.rejoin_preserves_safety_partial V hV x h i op ra ord src he heG k hopen retain hret sor n hn hs).1
  have hni : (crashC x i op n).node i = n := by
    show setNode x.rp.el.node i n i = n
    exact setNode_same _ _ _
  have hnj : ∀ j, j ≠ i → (crashC x i op n).node j = x.node j := fun j hj => by
    show setNode x.rp.el.node i n j = _
    exact setNode_other _ _ _ _ hj
  have hop : ∀ j ∈ M, ((crashC x i op n).node j).closed = "" := by
    intro j hj
    by_cases hji : j = i
    · rw [hji, hni]; exact restart_closed _ _ _ _ hn
    · rw [hnj j hji]; exact hopenM j hj hji
  obtain ⟨ls, y, w, N, ex, run, len, act, tmo, hw, hl, hterm, _, _, hN, hNt, hNc, hap, hfol, _, hopy, _⟩ :=
    C17Sys.progress_possible_partial V hV (crashC x i op n) hx' M hM hMV hmaj h0 hop hids
  have hy := run_reachableG hx' run
  have hti := hterm i hiM
  rw [hni] at hti
  refine ⟨ls, y, w, N, ex, run, hy, C10Sys.safe_of_reachable V hV y hy, len, act, tmo, hw, hl, hti, hN, hNt, hNc, ?_⟩
  by_cases hiw : i = w
  · rw [hiw]; exact ⟨rfl, rfl, hNc, hap, hopy w hw⟩
  · obtain ⟨_, t, l, c, f⟩ := hfol i hiM hiw
    exact ⟨t, l, by rw [c]; exact Nat.le_refl _, by rw [f, c], hopy i hiM⟩

end

/-! ## Part 2: the system with membership changes (`Raft.Member`, runs of `C08Member.ReachableR`) -/

section member
open Member MemberCore QuorumRel MemberInv MemberCommit MemberStep MemberSide C08Member MemberDurable MemberGood NoPanic

/-- **the hypothesis "every node tracks" of the theorems below is inductive (partial: the restrictions of
Props/C08Member.lean).** If every node of a reachable state `x` of the system with membership changes satisfies the
tracking invariant `C12Track.Tracks` (e.g. the initial states: nothing applied, no snapshot — `C19Sys.ex0_tracks`), so
does every node of every later state `y` of the run — through completed steps of every operation (configuration entries
appended by a leader, adopted, truncated and reverted by a follower included), crashes at every storage point and
restarts. Likewise the cluster id of a node never changes (`RestartSys.cid_runR`). -/
theorem tracks_in_member_partial (root : K) (x y : Member.Sys) (hx : ReachableR root x)
    (hT : ∀ j, C12Track.Tracks (x.node j)) (hrun : RunR x y) : ∀ j, C12Track.Tracks (y.node j) :=
  tracks_runR hx hT hrun

/-- **C10 (1) with membership changes — a restart after a crash at any point succeeds, and the configuration of the
restarted node is derived from its log (partial: the restrictions of Props/C08Member.lean — no snapshots / compaction,
every node bootstrapped from the start, submitted configurations keep two action-free voters, `ReqG`, closed nodes
frozen).** Let `x` be reachable (`C08Member.ReachableR root`: arbitrary chains of membership changes, crashes, restarts)
with every node tracking (inductive: `tracks_in_member_partial`), `i` a node with a cluster id, `op` ANY operation the
system delivers to `i` in `x` (`Member.Enabled`, `ReqG`: append requests CARRYING CONFIGURATION ENTRIES, `changeConfig`
requests handled by a leader, replication updates that promote / commit a configuration, …) handled with ANY oracle, and
`k` ANY crash point of that step (an open node; `k = 0` for a closed one). Restart it on what is then on disk with
`retain ≥ 1`. Then there is `n` with `Node.restart … = some n`, `n.nid = i`, and
* `n` is `RestartSys.Restarted`: tracking, ordered, `CrashInv` again; a follower with its ids; `(term, votedFor)` the
  durable pair, a legal successor of the pair the step started from; log completely flushed;
* **its configurations are derived from the log on disk AT THAT CRASH POINT**: `n.configs.latest` is the newest
  configuration entry of that log, `n.configs.committed` the second newest (else the zero label: there is no snapshot) —
  after a truncation that removed the latest configuration entry the previous one; when only a prefix of the step's
  appends was flushed, the configurations of that prefix (`Restarted.cfgLatest`, `cfgCommitted`, `latestNewest`);
* `n` is `NoPanic.Good true`, and in the state `y = crashM x i op n` after the restart — a REACHABLE state again, every
  node tracking — `n.configs.latest` is the last configuration entry of `n`'s log and a `CfgAll` configuration
  (`C08Member.cfg_latest_member_partial` for `y`). -/
theorem restart_succeeds_member_partial (root : K) (x : Member.Sys) (hx : ReachableR root x)
    (hT : ∀ j, C12Track.Tracks (x.node j)) (i : Nat) (op : Op) (ra : List Nat) (ord : List (List Nat)) (src : Nat)
    (he : Member.Enabled x i op src) (hg : ReqG x i op) (k : Nat) (hopen : (x.node i).closed = "" ∨ k = 0)
    (hcid : (x.node i).cid ≠ 0) (retain : Nat) (hret : 1 ≤ retain) (sor : Bool) :
    ∃ n, Node.restart (C05.crashDisk (x.node i) op ra ord k) retain sor = some n ∧
      Restarted (x.node i) (C05.crashDisk (x.node i) op ra ord k) n ∧ n.nid = i ∧ Good true n ∧
      ReachableR root (crashM x i op n) ∧ (∀ j, C12Track.Tracks ((crashM x i op n).node j)) ∧
      (crashM x i op n).node i = n ∧ CfgLatest (crashM x i op n) ∧ CfgAll n.configs.latest := by
  obtain ⟨G, hs, _⟩ := rs_of hx
  obtain ⟨n, hn, hR⟩ := restarted_member hs he hg ra ord k hopen (hT i) hcid retain hret sor
  have ht : TransR x (crashM x i op n) := .crash i op ra ord src k retain sor n he hg hopen hret hn
  have hy : ReachableR root (crashM x i op n) := .next x _ hx ht
  have hni : (crashM x i op n).node i = n := by
    show setNode x.cm.rp.el.node i n i = n
    exact setNode_same _ _ _
  obtain ⟨_, hX⟩ := C08Member.inv_reachable root _ hy
  have hgood := hX.good i
  rw [hni] at hgood
  obtain ⟨c1, c2, _, _⟩ := cfg_latest_member_partial root _ hy
  have hc2 := c2 i
  rw [hni] at hc2
  exact ⟨n, hn, hR, by rw [hR.ident.2.1]; exact (hs.inv.rp.el.ids i).1, hgood, hy, tracks_transR hs hT ht, hni, c1, hc2⟩

/-- **C10 (2) with membership changes — the restarted node reports a term and vote no older than any it had
acknowledged (partial: the restrictions of Props/C08Member.lean; no condition on the crashing step).** For every grant
`g` of the ledger of a reachable state `x`, every later state `y`, ANY operation, oracle and crash point: the node
restarted from the voter's disk still honours the grant. -/
theorem restart_keeps_acknowledged_vote_member_partial (root : K) (x y : Member.Sys) (hx : ReachableR root x)
    (hrun : RunR x y) (g : C01.Grant) (hg : g ∈ x.el.grants)
    (op : Op) (ra : List Nat) (ord : List (List Nat)) (k retain : Nat) (sor : Bool) (n : Node)
    (hn : Node.restart (C05.crashDisk (y.node g.voter) op ra ord k) retain sor = some n) :
    g.term < n.term ∨ (g.term = n.term ∧ n.votedFor = g.cand) := by
  obtain ⟨G, hs, _⟩ := rs_of (run_reachable hx hrun)
  have hh := hs.inv.rp.el.honoured g (grants_runR hrun g hg)
  obtain ⟨r1, r2, _⟩ := C05.restart_reads_durable _ _ _ _ hn
  have hd := Election.crashDisk_durStep (y.node g.voter) op ra ord k (hs.inv.rp.el.ids g.voter).2
  have hvs : C05.VoteStep (y.node g.voter) n := by
    unfold C05.VoteStep; rw [r1, r2]; exact hd
  exact (C01Sys.honouredBy_step hh hvs).2

/-- **C10 (3) with membership changes — the restarted node holds every entry it had acknowledged as stored (partial:
the restrictions of Props/C08Member.lean).** Let `a` be an acknowledgement recorded in the reachable state `x`, `b` an
entry OF THE ACKNOWLEDGEMENT'S TERM on the path to the acknowledged entry (a configuration entry or not), `y` any later
state, and let the voter die in `y` at ANY crash point of ANY step the system admits and restart as `n`. Then `n`'s log,
completely flushed, holds an entry of `b`'s term at `b`'s index — unless the tree of created entries (of the state after
the restart) holds an entry of a later term, not above `n`'s term, that does not extend `b` (never the case for a
committed `b`: `restart_keeps_committed_acknowledged_member_partial`). (The majority statement — a committed entry is
kept by a majority of the voters of the configuration in force, through every crash — is
`C06Member.committed_entry_stays_flushed_on_Q_partial`.) -/
theorem restart_keeps_acknowledged_entries_member_partial (root : K) (x y : Member.Sys) (hx : ReachableR root x)
    (hrun : RunR x y) (a : Ack) (ha : a ∈ x.cm.acks) (b : Nat × Nat) (hb : b.2 = a.term)
    (hanc : Anc x.cm.T b a.key)
    (op : Op) (ra : List Nat) (ord : List (List Nat)) (src : Nat) (he : Member.Enabled y a.voter op src)
    (hg : ReqG y a.voter op) (k : Nat) (hopen : (y.node a.voter).closed = "" ∨ k = 0)
    (retain : Nat) (hret : 1 ≤ retain) (sor : Bool) (n : Node)
    (hn : Node.restart (C05.crashDisk (y.node a.voter) op ra ord k) retain sor = some n) :
    (b.1 ≤ n.log.flushed ∧ ∃ e, n.log.get? b.1 = some e ∧ e.term = b.2) ∨
    ∃ c ∈ (crashM y a.voter op n).cm.T, b.2 < c.e.term ∧ c.e.term ≤ n.term ∧
      ¬ Anc (crashM y a.voter op n).cm.T b (c.e.index, c.e.term) := by
  have hy := run_reachable hx hrun
  have ht : TransR y (crashM y a.voter op n) := .crash a.voter op ra ord src k retain sor n he hg hopen hret hn
  obtain ⟨G', hs', _⟩ := rs_of (ReachableR.next y _ hy ht)
  obtain ⟨g1, g2, _⟩ := run_grow hrun
  obtain ⟨t1, t2, _⟩ := trans_grow (transR_trans ht)
  have hni : (crashM y a.voter op n).node a.voter = n := by
    show setNode y.cm.rp.el.node a.voter n a.voter = n
    exact setNode_same _ _ _
  have key := hs'.inv.ack.stable a (List.mem_append_left _ (t2 a (g2 a ha))) b hb
    (hanc.mono (fun c hc => t1 c (g1 c hc)))
  rw [hni] at key
  rcases key with ⟨d1, d2⟩ | ⟨c, hcT, h1, h2, h3⟩
  · left
    have wn : NWF n := by have := nwfM hs'.inv a.voter; rwa [hni] at this
    obtain ⟨e, hee, het⟩ := holds_get d2
    exact ⟨d1, e, by rw [wn.get?, if_pos (show 0 < b.1 from d2.1)]; exact hee, het⟩
  · exact Or.inr ⟨c, hcT, h1, h2, h3⟩

/-- **… and a committed entry it acknowledged in the entry's term, without exception** (same assumptions). -/
theorem restart_keeps_committed_acknowledged_member_partial (root : K) (x y : Member.Sys) (hx : ReachableR root x)
    (hrun : RunR x y) (m : Nat × Nat) (hm : m ∈ x.cm.committed) (a : Ack) (ha : a ∈ x.cm.acks)
    (hat : a.term = m.2) (hanc : Anc x.cm.T m a.key)
    (op : Op) (ra : List Nat) (ord : List (List Nat)) (src : Nat) (he : Member.Enabled y a.voter op src)
    (hg : ReqG y a.voter op) (k : Nat) (hopen : (y.node a.voter).closed = "" ∨ k = 0)
    (retain : Nat) (hret : 1 ≤ retain) (sor : Bool) (n : Node)
    (hn : Node.restart (C05.crashDisk (y.node a.voter) op ra ord k) retain sor = some n) :
    m.1 ≤ n.log.flushed ∧ ∃ e, n.log.get? m.1 = some e ∧ e.term = m.2 := by
  have hy := run_reachable hx hrun
  have ht : TransR y (crashM y a.voter op n) := .crash a.voter op ra ord src k retain sor n he hg hopen hret hn
  obtain ⟨G', hs', _⟩ := rs_of (ReachableR.next y _ hy ht)
  obtain ⟨_, _, g3⟩ := run_grow hrun
  obtain ⟨_, _, t3⟩ := trans_grow (transR_trans ht)
  rcases restart_keeps_acknowledged_entries_member_partial root x y hx hrun a ha m hat.symm hanc op ra ord src he hg k
      hopen retain hret sor n hn with h | ⟨c, hcT, h1, _, h3⟩
  · exact h
  · exact absurd (C02Member.lc_ledger hs'.inv hs'.sideT m (t3 m (g3 m hm)) c hcT h1) h3

/-- **the safety properties in a state `z` of the cluster with membership changes** (Props/C08Member.lean): election
safety (two leaders of one term are the same node; `won` names one node per term), leader completeness (entries of later
terms extend every committed entry; a leader holds every committed entry of a term not above its own), commit-index
safety (two nodes whose commit indexes cover an index hold the same entry there), every node uses the last configuration
entry of its log, a `CfgAll` configuration, and every node is `NoPanic.Good true`. -/
structure SafeM (z : Member.Sys) : Prop where
  election : (∀ i j, (z.node i).role = .leader → (z.node j).role = .leader → (z.node i).term = (z.node j).term → i = j) ∧
    (∀ l l' t, (l, t) ∈ z.el.won → (l', t) ∈ z.el.won → l = l')
  completeness : (∀ m ∈ z.cm.committed, ∀ c ∈ z.cm.T, m.2 < c.e.term → Anc z.cm.T m (key c)) ∧
    (∀ i, (z.node i).role = .leader → ∀ m ∈ z.cm.committed, m.2 ≤ (z.node i).term →
      ∃ e, (z.node i).log.get? m.1 = some e ∧ e.term = m.2)
  commitIndex : ∀ i j k, 1 ≤ k → k ≤ (z.node i).commitIndex → k ≤ (z.node j).commitIndex →
    (z.node i).log.get? k = (z.node j).log.get? k ∧ ((z.node i).log.get? k).isSome = true
  config : CfgLatest z ∧ ∀ i, CfgAll (z.node i).configs.latest
  good : ∀ i, Good true (z.node i)

theorem safeM_of_reachable (root : K) (z : Member.Sys) (h : ReachableR root z) : SafeM z := by
  obtain ⟨e1, e2, _⟩ := election_safety_member_partial root z h
  obtain ⟨_, c2, _, _⟩ := commit_index_safety_member_partial root z h
  obtain ⟨l1, l2, _, _⟩ := cfg_latest_member_partial root z h
  exact ⟨⟨e1, e2⟩, leader_completeness_member_partial root z h, c2, ⟨l1, l2⟩, (C08Member.inv_reachable root z h).2.good⟩

/-- **C10 (4) with membership changes — the restarted node rejoins the cluster without violating any safety property
(partial: the restrictions of Props/C08Member.lean).** Under the hypotheses of `restart_succeeds_member_partial`, with `n`
the restarted node: the state `crashM x i op n` is reachable again (NO side condition: the system with membership changes
has none), and every state `z` of every continuation of the run is reachable and `SafeM` — whatever membership changes,
crashes and restarts follow; every node of `z` tracks; the ledgers forget nothing. -/
theorem rejoin_member_partial (root : K) (x : Member.Sys) (hx : ReachableR root x)
    (hT : ∀ j, C12Track.Tracks (x.node j)) (i : Nat) (op : Op) (ra : List Nat) (ord : List (List Nat)) (src : Nat)
    (he : Member.Enabled x i op src) (hg : ReqG x i op) (k : Nat) (hopen : (x.node i).closed = "" ∨ k = 0)
    (retain : Nat) (hret : 1 ≤ retain) (sor : Bool) (n : Node)
    (hn : Node.restart (C05.crashDisk (x.node i) op ra ord k) retain sor = some n) :
    ReachableR root (crashM x i op n) ∧
    ∀ z, RunR (crashM x i op n) z → ReachableR root z ∧ SafeM z ∧ (∀ j, C12Track.Tracks (z.node j)) ∧
      (∀ g ∈ x.el.grants, g ∈ z.el.grants) ∧ (∀ a ∈ x.cm.acks, a ∈ z.cm.acks) ∧
      (∀ m ∈ x.cm.committed, m ∈ z.cm.committed) ∧ (∀ c ∈ x.cm.T, c ∈ z.cm.T) := by
  obtain ⟨G, hs, _⟩ := rs_of hx
  have ht : TransR x (crashM x i op n) := .crash i op ra ord src k retain sor n he hg hopen hret hn
  have hy : ReachableR root (crashM x i op n) := .next x _ hx ht
  refine ⟨hy, fun z hrun => ?_⟩
  have hz := run_reachable hy hrun
  obtain ⟨t1, t2, t3⟩ := trans_grow (transR_trans ht)
  obtain ⟨g1, g2, g3⟩ := run_grow hrun
  exact ⟨hz, safeM_of_reachable root z hz, tracks_runR hy (tracks_transR hs hT ht) hrun,
    fun g hg' => grants_runR hrun g (grants_transR ht g hg'), fun a ha => g2 a (t2 a ha),
    fun m hm => g3 m (t3 m hm), fun c hc => g1 c (t1 c hc)⟩

end member

/-! ## Examples (non-vacuity)

Part 1: three voters bootstrapped with the configuration entry (1,1) (`C09Sys3.exW0`); node 2 is asked for a snapshot, the
snapshot goroutine runs, the result is handed over (`C09Sys3.exW3`: reachable in `Raft.Snap4`). Node 2 then dies while
handling its election timeout, after the first storage point (`value.set`: term 2 and its own vote are on disk).
(A leader cannot be elected inside a kernel-checked example — the mutually recursive leader block does not reduce there;
states with real snapshots, compaction and an installation are EVALUATED below.) -/

section
open C09Sys3

set_option maxRecDepth 100000 in
/-- `exW3` is reachable in `Raft.Snap4` (as in Props/C09Sys3.lean) -/
theorem exW3_reach4 : Reachable4 [1, 2, 3] exW3 := by
  have en : ∀ (x : Commit.Sys) (op : Op), OpOKS op → (∀ q, op ≠ .vote q) → (∀ q, op ≠ .append q) →
      (∀ b, op ≠ .newEntries b) → (∀ t c, op ≠ .changeConfig t c) → (∀ a b c, op ≠ .voteResult a b c) →
      (∀ us, op ≠ .replUpdates us) → Snap.Enabled x 2 op 0 := C09Sys.exEnabled
  have i0 : Snap4.Init4 exW0 :=
    ⟨⟨C09Sys2.exY0_init, fun _ => rfl, rfl⟩, C19Sys.ex0_tracks, fun i => (C19Sys.exNode_good i).ordered⟩
  have s0 : Side4 [1, 2, 3] exW0 := exSide4 _ (C04Sys.exNode 2) rfl rfl (by
    show C04Sys.exNode = _
    funext j; unfold setNode; split
    · rename_i h; rw [h]
    · rfl) (by decide) rfl (by decide)
  have t1 : Snap4.Trans exW0 exW1 :=
    .step 2 (.takeSnapshot 7 0) [] [] 0
      (en _ _ trivial (fun _ h => by cases h) (fun _ h => by cases h) (fun _ h => by cases h)
        (fun _ _ h => by cases h) (fun _ _ _ h => by cases h) (fun _ h => by cases h)) (by decide)
  have s1 : Side4 [1, 2, 3] exW1 :=
    exSide4 _ ((C04Sys.exNode 2).step (.takeSnapshot 7 0) [] []) (by decide) (by decide) rfl (by decide) (by decide)
      (by decide)
  have t2 : Snap4.Trans exW1 exW2 :=
    .step 2 .snapRun [] [] 0
      (en _ _ trivial (fun _ h => by cases h) (fun _ h => by cases h) (fun _ h => by cases h)
        (fun _ _ h => by cases h) (fun _ _ _ h => by cases h) (fun _ h => by cases h)) (by decide)
  have s2 : Side4 [1, 2, 3] exW2 :=
    exSide4 _ (((C04Sys.exNode 2).step (.takeSnapshot 7 0) [] []).step .snapRun [] []) (by decide) (by decide)
      (by
        show setNode (setNode C04Sys.exNode 2 _) 2 _ = _
        funext j
        unfold setNode
        split <;> rfl) (by decide) (by decide) (by decide)
  have t3 : Snap4.Trans exW2 exW3 :=
    .step 2 .snapTaken [] [] 0
      (en _ _ trivial (fun _ h => by cases h) (fun _ h => by cases h) (fun _ h => by cases h)
        (fun _ _ h => by cases h) (fun _ _ _ h => by cases h) (fun _ h => by cases h)) (by decide)
  have s3 : Side4 [1, 2, 3] exW3 :=
    exSide4 _ ((((C04Sys.exNode 2).step (.takeSnapshot 7 0) [] []).step .snapRun [] []).step .snapTaken [] [])
      (by decide) (by decide) (by
        show setNode (setNode (setNode C04Sys.exNode 2 _) 2 _) 2 _ = _
        funext j
        unfold setNode
        split <;> rfl) (by decide) (by decide) (by decide)
  exact .next _ _ (.next _ _ (.next _ _ (.init _ i0 s0) t1 s1) t2 s2) t3 s3

theorem exTimeout_enabled (x : Commit.Sys) : Snap.Enabled x 2 .timeout 0 :=
  C09Sys.exEnabled x .timeout trivial (fun _ h => by cases h) (fun _ h => by cases h) (fun _ h => by cases h)
    (fun _ _ h => by cases h) (fun _ _ _ h => by cases h) (fun _ h => by cases h)

/-- the disk of node 2 of `exW3` after the first storage point of its election timeout -/
def exD : Durable := C05.crashDisk (exW3.node 2) .timeout [] [] 1
/-- the node restarted from it -/
def exRn : Node := (Node.restart exD 1 true).getD {}

theorem exRn_restart : Node.restart exD 1 true = some exRn := by
  have h : (Node.restart exD 1 true).isSome = true := by decide
  unfold exRn
  cases hr : Node.restart exD 1 true with
  | none => rw [hr] at h; cases h
  | some n => rfl

/-- the side conditions `Side4` of a state in which node 2 was replaced by a node with the bootstrap log, a stable latest
configuration with the three voters and no snapshot (as `C09Sys3.exSide4`, for a RESTARTED node: its committed
configuration is the zero label) -/
theorem exSide4r (x : Snap3.Sys) (n : Node)
    (hb : n.configs.isBootstrapped = true ∧ n.configs.latest.voters = [1, 2, 3])
    (hst : n.configs.latest.isStable = true) (hl : n.log = (C04Sys.exNode 2).log)
    (hx : x.s2.cs.rp.el.node = setNode C04Sys.exNode 2 n)
    (hord : n.configs.committed.index ≤ n.configs.latest.index ∧ n.configs.latest.index ≤ n.lastLogIndex)
    (hsd : n.snapsDisk = []) (hT : ∀ c ∈ x.s2.cs.T, c = ⟨C04Sys.exE, 0, 0⟩) : Side4 [1, 2, 3] x := by
  have hnode : ∀ i, x.node i = setNode C04Sys.exNode 2 n i := fun i => by
    show x.s2.cs.rp.el.node i = _; rw [hx]
  have hlog : ∀ i, (x.node i).log = (C04Sys.exNode 2).log := fun i => by
    rw [hnode i]
    unfold setNode
    split
    · exact hl
    · rfl
  refine ⟨⟨⟨fun i => ?_, fun i => ?_⟩, fun i e he ht => ?_, fun i => ?_⟩, fun i => ?_,
    fun i => Or.inr (fun c hc d hd _ _ => ?_), fun i => ?_⟩
  · show (x.node i).configs.isBootstrapped = true ∧ (x.node i).configs.latest.voters = _
    rw [hnode i]; unfold setNode
    split
    · exact hb
    · exact ⟨rfl, rfl⟩
  · show (x.node i).configs.latest.isStable = true
    rw [hnode i]; unfold setNode
    split
    · exact hst
    · rfl
  · have he' : e ∈ (uncLog (x.s2.base i) (x.node i).log).entries := he
    rw [uncLog_entries0 _ (by rw [hlog i]; rfl), hlog i] at he'
    have : e = C04Sys.exE := List.mem_singleton.mp he'
    subst this; rfl
  · rw [hlog i]
    exact ⟨by decide, rfl, by decide⟩
  · rw [hnode i]; unfold setNode
    split
    · exact hord
    · exact ⟨Nat.le_refl _, Nat.le_refl _⟩
  · rw [hT c hc, hT d hd]
  · rw [hnode i]; unfold setNode
    split
    · unfold Track.label; rw [hsd]; exact Nat.zero_le _
    · exact Nat.zero_le _
/-- the cluster after the crash and the restart -/
def exW3c : Snap3.Sys := { exW3 with s2 := crashS exW3.s2 2 .timeout exRn }

set_option maxRecDepth 100000 in
/-- EXAMPLE (`restart_succeeds_snap_partial`): its hypotheses hold for node 2 of `exW3`, its election timeout and the
crash point `k = 1`; the node the theorem promises is `exRn`: term 2, voted for itself -/
example : [1, 2, 3].Nodup ∧ Reachable4 [1, 2, 3] exW3 ∧ Snap.Enabled exW3.s2.cs 2 .timeout 0 ∧
    ((exW3.node 2).step .timeout [] []).panicked = none ∧ SnapFbOp (exW3.node 2) .timeout ∧ (exW3.node 2).cid ≠ 0 ∧
    Node.restart exD 1 true = some exRn ∧ exRn.term = 2 ∧ exRn.votedFor = 2 :=
  ⟨by decide, exW3_reach4, exTimeout_enabled _, by decide, trivial, by decide, exRn_restart, by decide, by decide⟩

set_option maxRecDepth 100000 in
/-- EXAMPLE (`rejoin_snap_partial`, `restart_snapshot_consistent_snap_partial`, `restart_keeps_acknowledged_…`): that crash
is a crash transition of the system (`CrashOf`) and the state after it satisfies the side conditions — so `exW3c` is
reachable and safe -/
theorem exW3c_crashOf : CrashOf exW3 2 exRn exW3c ∧ Side4 [1, 2, 3] exW3c := by
  refine ⟨.op .timeout [] [] 0 1 1 true (exTimeout_enabled _) (Nat.le_refl _) (by decide) trivial (by decide) exRn_restart,
    exSide4r _ exRn (by decide) (by decide) (by decide) ?_ (by decide) (by decide) (by decide)⟩
  show setNode (setNode (setNode (setNode C04Sys.exNode 2 _) 2 _) 2 _) 2 _ = _
  funext j
  unfold setNode
  split <;> rfl

example : Reachable4 [1, 2, 3] exW3c ∧ SafeS [1, 2, 3] exW3c := by
  have h := rejoin_snap_partial (by decide) exW3 exW3c exW3_reach4 2 exRn exW3c_crashOf.1 exW3c_crashOf.2
  exact ⟨h.1.1, (h.2 _ .refl).2.2.1⟩

set_option maxRecDepth 100000 in
/-- EXAMPLE (`restart_keeps_acknowledged_vote_snap_partial`): node 2 of `exW3` completes its election timeout (`exV`):
the ledger holds the grant (voter 2, term 2, candidate 2),
`exV` is reachable, and a restart of node 2 from its disk between two steps succeeds — by the theorem the restarted node
still honours the grant -/
example :
    let exV : Snap3.Sys := { exW3 with s2 := stepS exW3.s2 2 .timeout [] [] 0 }
    Reachable4 [1, 2, 3] exV ∧ Run4 [1, 2, 3] exV exV ∧
    ({ voter := 2, term := 2, cand := 2 } : C01.Grant) ∈ exV.s2.cs.rp.el.grants ∧
    (Node.restart (C05.crashDisk (exV.node 2) .timeout [] [] 0) 1 true).isSome = true := by
  intro exV
  have t : Snap4.Trans exW3 exV := .step 2 .timeout [] [] 0 (exTimeout_enabled _) (by decide)
  have s : Side4 [1, 2, 3] exV :=
    exSide4 _ (((((C04Sys.exNode 2).step (.takeSnapshot 7 0) [] []).step .snapRun [] []).step .snapTaken [] []).step
        .timeout [] [])
      (by decide) (by decide) (by
        show setNode (setNode (setNode (setNode C04Sys.exNode 2 _) 2 _) 2 _) 2 _ = _
        funext j
        unfold setNode
        split <;> rfl) (by decide) (by decide) (by decide)
  exact ⟨.next _ _ exW3_reach4 t s, .refl, by decide, by decide⟩

-- evaluation (tests, not proofs): the scenario of Props/C09Sys3.lean with REAL snapshots — node 1 leads term 2, has
-- committed and applied "a" (index 3). (1) it dies at each storage point of the snapshot goroutine (`snap.publish`,
-- `snap.retain`): the restart succeeds; from `snap.publish` on the restarted node has the snapshot at 3, commit index 3,
-- the state machine ["a"], and tracks. (2) node 3 (log [(1,1)], term 1) dies at each storage point of the install
-- handler (`value.set`, `snap.publish`, `snap.retain`, `clearLog`): the restart succeeds and tracks; from `snap.publish`
-- on the log is reset to the snapshot (F18 repaired). (3) node 3 after the installation dies in its election timeout.
#guard (List.range 4).map (fun k => (Node.restart (C05.crashDisk (exX12.node 1) .snapRun [] [] k) 1 true).map
    (fun n => (n.term, n.snapIndex, n.log.prev, n.log.entries.length, n.commitIndex, n.fsm.applied,
      decide (C12Track.Tracks n)))) ==
  [some (2, 0, 0, 3, 0, [], true), some (2, 3, 0, 3, 3, ["a"], true), some (2, 3, 0, 3, 3, ["a"], true),
   some (2, 3, 0, 3, 3, ["a"], true)]
#guard (List.range 6).map (fun k => (Node.restart (C05.crashDisk (exX15.node 3) (.install exQ) [] [] k) 1 true).map
    (fun n => (n.term, n.snapIndex, n.log.prev, n.log.entries.length, n.commitIndex, decide (C12Track.Tracks n)))) ==
  [some (1, 0, 0, 1, 0, true), some (2, 0, 0, 1, 0, true), some (2, 3, 3, 0, 3, true), some (2, 3, 3, 0, 3, true),
   some (2, 3, 3, 0, 3, true), some (2, 3, 3, 0, 3, true)]
#guard (List.range 3).map (fun k => (Node.restart (C05.crashDisk (exX16.node 3) .timeout [] [] k) 1 true).map
    (fun n => (n.term, n.votedFor, n.snapIndex, n.log.prev, n.commitIndex, n.fsm.applied, decide (C12Track.Tracks n)))) ==
  [some (2, 0, 3, 3, 3, ["a"], true), some (3, 3, 3, 3, 3, ["a"], true), some (3, 3, 3, 3, 3, ["a"], true)]

end

/-! ### the delimitation "the log on disk is not stale" (premise of `Snap4.Trans.crash`, `RestartSys.CrashOf.op`) -/

/-- the follower `C12Track.exT` (snapshot at 1; entries 2, 3, 4) with only entry 2 FLUSHED but commit index 4, everything
applied, and a snapshot request pending — a node may commit and apply entries it created itself as an earlier leader and
never flushed (finding (a) of C02Sys / C06Sys: a follower that appends nothing acknowledges and commits without
flushing) -/
def exStale : Node :=
  { C12Track.exT with log := { C12Track.exT.log with flushed := 2 }, commitIndex := 4,
                      fsm := { index := 4, term := 1, config := C12Track.c3, applied := ["a"] },
                      snapPending := some { task := 1, minIndex := 0, config := C12Track.c3 } }

/-- **NECESSITY of the premise `staleLog = false` for a crash in an operation of stage 2 — and what happens without it
(node level).** `exStale` satisfies the per-node invariant `CrashInv`; its snapshot goroutine stores a snapshot at index 4
(`snap.publish`, `snap.retain`). If the process dies after `snap.publish` the disk holds the NEW snapshot (index 4) and a
log that ends at index 2: the log is stale, `openStorage` resets it to the snapshot. The restart SUCCEEDS
(`restart_succeeds_snap_partial` covers this crash point) and the restarted node tracks: log empty, starting at 4,
snapshot / commit index 4, state machine restored, `latest` = the snapshot's label — the unflushed entries 3 and 4 are
replaced by the snapshot that covers them. But the state is outside the crash transition of `Raft.Snap3` / `Raft.Snap4`
(whose crash analysis un-compacts the log on disk), so `rejoin_snap_partial` does not speak about it. -/
theorem stale_log_after_own_snapshot :
    C12Crash.CrashInv exStale ∧ (exStale.step .snapRun [] []).panicked = none ∧
    (exStale.step .snapRun [] []).trace.map (·.1) = ["snap.publish", "snap.retain"] ∧
    Node.staleLog (C05.crashDisk exStale .snapRun [] [] 1) = true ∧
    (Node.restart (C05.crashDisk exStale .snapRun [] [] 1) 1 true).map
      (fun n => (n.log.prev, n.log.entries.length, n.snapIndex, n.commitIndex, n.fsm.index, n.configs.latest.index)) =
        some (4, 0, 4, 4, 4, 3) ∧
    (Node.restart (C05.crashDisk exStale .snapRun [] [] 1) 1 true).map (fun n => decide (C12Track.Tracks n)) =
      some true := by
  refine ⟨⟨by decide, ⟨⟨by decide, by decide, by decide, by decide, by decide, by decide,
    ⟨by decide, by decide, by decide⟩, by decide, fun rs h => by cases h⟩, by decide⟩, by decide, by decide, by decide⟩,
    by decide, by decide, by decide, by decide, by decide⟩

/-! Part 3: the crash of Props/C10Sys.lean (node 1 of `C02Sys.ex0` dies during its election timeout after the first
storage point; `C19Sys.exCrash` is the state after the restart) -/

/-- EXAMPLE (`rejoin_converges_possible_partial`): its hypotheses hold for that crash and the live majority `M = [1, 2]`,
which contains the restarted node 1 -/
example : SysInv.ReachableG [1, 2, 3] C02Sys.ex0 ∧ Commit.Enabled C02Sys.ex0 1 .timeout 0 ∧
    SysInv.EnabledG C02Sys.ex0 1 .timeout ∧
    Node.restart (C05.crashDisk (C02Sys.ex0.node 1) .timeout [] [] 1) 1 true = some C19Sys.exN ∧
    SideV [1, 2, 3] (crashC C02Sys.ex0 1 .timeout C19Sys.exN) ∧
    [1, 2].Nodup ∧ (∀ j ∈ [1, 2], j ∈ [1, 2, 3]) ∧ 2 * [1, 2].length > [1, 2, 3].length ∧ (∀ j ∈ [1, 2], j ≠ 0) ∧
    1 ∈ [1, 2] ∧ (∀ j ∈ [1, 2], j ≠ 1 → (C02Sys.ex0.node j).closed = "") ∧
    (∀ j ∈ [1, 2], ((crashC C02Sys.ex0 1 .timeout C19Sys.exN).node j).configs.latest.ids.Nodup) :=
  ⟨C19Sys.ex0_reachable, C19Sys.ex1_enabled.1, C19Sys.ex1_enabled.2, C19Sys.exN_restart, C19Sys.exCrash_sideV,
    by decide, by decide, by decide, by decide, by decide, by decide, by decide⟩

/-! Part 2: the initial state `C08Member.ex0` (three voters bootstrapped with the configuration entry (1,1)); node 1 dies
during its election timeout after the first storage point -/

/-- EXAMPLE (`restart_succeeds_member_partial`, `rejoin_member_partial`): their hypotheses hold for node 1 of `ex0`, its
election timeout and the crash point `k = 1`; the restarted node is `C19Sys.exN` -/
example : C08Member.ReachableR (1, 1) C08Member.ex0 ∧ (∀ j, C12Track.Tracks (C08Member.ex0.node j)) ∧
    Member.Enabled C08Member.ex0 1 .timeout 0 ∧ MemberSide.ReqG C08Member.ex0 1 .timeout ∧
    ((C08Member.ex0.node 1).closed = "" ∨ 1 = 0) ∧ (C08Member.ex0.node 1).cid ≠ 0 ∧
    Node.restart (C05.crashDisk (C08Member.ex0.node 1) .timeout [] [] 1) 1 true = some C19Sys.exN :=
  ⟨.init _ C08Member.ex0_initR, C19Sys.ex0_tracks, C08Member.ex1_enabled.1, C08Member.ex1_enabled.2, Or.inl rfl,
    by decide, C19Sys.exN_restart⟩

-- evaluation (tests, not proofs): the run of Props/AuditMember.lean — node 1 leads term 2 and has introduced the
-- configuration entry (3,2) that adds node 4 (`m8`); the append request `mReq3` carrying it is on the wire (`m9`).
-- (1) follower 2 dies while handling that request (one storage point, `commitLog`): restarted from the disk BEFORE it the
-- node uses the bootstrap configuration (entry 1, three members; `committed` is the zero label), from the `commitLog`
-- point on configuration (3,2) with four members and `committed` = entry 1 — in each case it tracks and `latest` is the
-- newest configuration entry of its log. (2) the LEADER appends the configuration entry without a storage point of its
-- own (it is flushed by a later `commitLog`): a leader that dies right after `changeConfig` restarts with the OLD
-- configuration — the entry was never acknowledged.
#guard (List.range 3).map (fun k =>
    (Node.restart (C05.crashDisk (AuditMember.m9.node 2) (.append AuditMember.mReq3) [] [] k) 1 true).map
      (fun n => (n.term, n.log.entries.length, n.configs.latest.index, n.configs.committed.index,
        n.configs.latest.nodes.length, decide (C12Track.Tracks n), decide (C19Latest.LatestIsNewest n)))) ==
  [some (2, 2, 1, 0, 3, true, true), some (2, 3, 3, 1, 4, true, true), some (2, 3, 3, 1, 4, true, true)]
#guard (List.range 2).map (fun k =>
    (Node.restart (C05.crashDisk (AuditMember.m7.node 1) (.changeConfig 5 AuditMember.mAdd) [] [] k) 1 true).map
      (fun n => (n.log.entries.length, n.configs.latest.index, decide (C12Track.Tracks n)))) ==
  [some (2, 1, true), some (2, 1, true)]

end C10Sys2
end Raft

#print axioms Raft.C10Sys2.restart_succeeds_snap_partial
#print axioms Raft.C10Sys2.restart_succeeds_install_partial
#print axioms Raft.C10Sys2.restart_keeps_acknowledged_vote_snap_partial
#print axioms Raft.C10Sys2.safeS_of_reachable
#print axioms Raft.C10Sys2.rejoin_snap_partial
#print axioms Raft.C10Sys2.restart_keeps_acknowledged_entries_snap_partial
#print axioms Raft.C10Sys2.restart_keeps_committed_acknowledged_snap_partial
#print axioms Raft.C10Sys2.restart_snapshot_consistent_snap_partial
#print axioms Raft.C10Sys2.rejoin_converges_possible_partial
#print axioms Raft.C10Sys2.tracks_in_member_partial
#print axioms Raft.C10Sys2.restart_succeeds_member_partial
#print axioms Raft.C10Sys2.restart_keeps_acknowledged_vote_member_partial
#print axioms Raft.C10Sys2.restart_keeps_acknowledged_entries_member_partial
#print axioms Raft.C10Sys2.restart_keeps_committed_acknowledged_member_partial
#print axioms Raft.C10Sys2.safeM_of_reachable
#print axioms Raft.C10Sys2.rejoin_member_partial
#print axioms Raft.C10Sys2.stale_log_after_own_snapshot
