/-
C06 — acknowledged entries are durable on a majority of the voters — on the cluster-level systems WITH SNAPSHOTS
(`Raft.Snap3`, Sys/Snap3.lean: local snapshots, log compaction, installation of snapshots, crashes at every storage point
of every handler incl. the install handler; `Raft.Snap4`, Sys/Snap4.lean: the same without the premise `TermTracked`, with
the side conditions `Side4`).  The theorems are stated for the runs of `Raft.Snap4` (every run of it is a run of
`Raft.Snap3`: `C09Sys3.tracked_runs_partial`).

With snapshots a committed entry may LEAVE a voter's log: compaction removes it (it is then covered by the voter's newest
snapshot FILE, which is durable — `snap.publish` is a storage point), and a lagging voter may receive it only inside an
installed snapshot.  So "durably held" becomes "DURABLY COVERED" (`DurableSnap.Covers`, `KeepsS`, `DurablyCovered`): the
flushed part of the log on disk answers every index `log.prev < k' ≤ k` with the committed entry, and every index
`≤ log.prev` is at or below the index of the newest snapshot file on disk — which is the replay of the committed prefix
(`DurableSnap.SnapBacked`, from `C09Sys3.snapshot_is_committed_prefix_partial`).

Theorems:
* `commit_durable_on_majority_snap_partial` — for every index `k` within ANY node's commit index (and for every entry of
  the ledger `committed`) there is ONE duplicate-free majority `Q` of the voters whose members durably cover `1 … k` in
  that state, in EVERY later state of the run, in the disk image of every crash transition of the system taken from those
  states (the storage points of the install handler and of `onSnapshotTaken` / compaction included) and after the restart;
* `no_loss_under_minority_crash_snap_partial` — crash any set of nodes: the same majority still covers, every majority of
  voters contains a node that does, and every later leader holds the entries in log or snapshot (leader completeness on
  the virtual log);
* `install_ack_after_publish` (node level) — a follower that answers `success` to an install request has published the
  received snapshot file before: the storage points are `snap.publish`, `snap.retain`, `clearLog` in this order, at every
  crash point the disk holds either the old log AND old files or the received file as the newest one, and the reply exists
  only in the completed step;  `install_ack_covers_sys_partial` — the cluster-level consequence.
Restrictions (`_partial`): those of `Raft.Snap4` (fixed voter set `V`, fixed stable configuration, no forged requests, no
`shutdown`, replication updates report no compaction, completed steps do not panic, `Side4` in every state) and, for the
crash clauses, those of its crash transitions (`DurableSnap.CrashAt` = `RestartSys.CrashOf`: `Snap3.NoCut`, the log on disk
is not stale unless the disk holds a newly received snapshot file; the state after the restart satisfies `Side4`).
-/
import RaftVerif.Lemmas.DurableSnapB

namespace Raft
namespace C06Snap
open Node Election LogRel Replication CommitRel Commit C02Sys C03Sys SnapRel SnapRelU SnapSim Snap Snap2 SnapInv SnapInv2
open SnapInst Snap3 SnapInst3 Snap4 SnapInst4 RestartSys DurableRel DurableSnap
open C06Sys (Majority)

section
variable {V : List Nat}

/-- **C06 with snapshots — every committed index is durably covered by a majority of the voters, now, in every later
state, whenever a member dies, and after every restart (partial: see the file header).** Let `V` be duplicate free and `x`
a state reachable in `Raft.Snap4` (any schedule; message delay, loss, duplication, reordering; snapshots taken, logs
compacted, snapshots sent and installed at any time; crashes at any storage point and restarts).
1. For every node `j` and every index `1 ≤ k ≤ commitIndex(j)` (leader or follower; the commit index may come from an
   installed snapshot) there is a duplicate-free majority `Q` of `V` such that in `x` and in EVERY later state `y` of the
   run every `v ∈ Q` DURABLY COVERS the entries `1 … k` of `j`'s virtual log in `x` (`DurablyCovered V y v (x.vlog j) k`):
   * `k ≤ log.flushed`; `v`'s virtual log agrees with `x.vlog j` at every index `1 ≤ k' ≤ k`;
   * the flushed part of `v`'s log on disk returns, for EVERY `log.prev < k' ≤ k`, the very entry `j` held at `k'`, and
     `log.prev ≤ snapIndex` = the index of the newest snapshot file on `v`'s disk; so (`Covers.cases`) EITHER the log on
     disk holds entry `k` and all entries between `log.prev` and `k`, flushed, OR the newest snapshot file has index `≥ k`;
   * every snapshot file on `v`'s disk is the replay of a prefix of `v`'s virtual log all of whose entries are committed,
     and of the virtual log of every node whose commit index covers it (`SnapBacked`; also C09);
   * for every crash transition of `v` from `y` (`CrashAt y v d n y'`: `v` dies at ANY storage point of an enabled operation
     of stage 2 — `snapRun`, `snapTaken` / compaction, append, … — or of the install handler — `value.set`, `snap.publish`,
     `snap.retain`, `clearLog` — leaving the disk `d`, and restarts as `n`; `Side4 V y'`): the disk image `d` covers
     `1 … k` with the log `openStorage` works with — `d.log` itself if it is not stale; if it is (the F18 window) the
     newest snapshot file on `d` has index `≥ k` —, the restarted node `n` has `k ≤ n.log.flushed` and covers them, and `v`
     keeps them in `y'`.
2. For every entry `m` of the ledger `committed` (recorded when a LEADER's commit index reaches it) there are a root path
   `ref` of the tree of created entries of length `m.1` ending with `m` and such a majority for `ref`, `m.1`. -/
theorem commit_durable_on_majority_snap_partial (hV : V.Nodup) (x : Snap3.Sys) (hx : Reachable4 V x) :
    (∀ j k, 1 ≤ k → k ≤ (x.node j).commitIndex → ((x.vlog j)[k - 1]?).isSome = true ∧
      ∃ Q, Majority V Q ∧ ∀ y, Run4 V x y → ∀ v ∈ Q, DurablyCovered V y v (x.vlog j) k) ∧
    (∀ m ∈ x.s2.cs.committed, ∃ ref, ref.length = m.1 ∧ Holds ref m.1 m.2 ∧ Path x.s2.cs.T ref ∧
      ∃ Q, Majority V Q ∧ ∀ y, Run4 V x y → ∀ v ∈ Q, DurablyCovered V y v ref m.1) := by
  refine ⟨fun j k hk hkc => ?_, fun m hm => ?_⟩
  · obtain ⟨m, Q, _, hs⟩ := sit_of_commit hV hx hk hkc
    refine ⟨?_, Q, C06Sys.AckQuorum.majority hs.hQ, fun y hrun v hv => covered_later hV hs hrun hv⟩
    have : k - 1 < (x.vlog j).length := by have := hs.hh.2.1; omega
    rw [List.getElem?_eq_getElem this]; rfl
  · obtain ⟨Q, ref, hlen, hs⟩ := sit_of_ledger hV hx hm
    exact ⟨ref, hlen, hs.hh, hs.hp, Q, C06Sys.AckQuorum.majority hs.hQ, fun y hrun v hv => covered_later hV hs hrun hv⟩

/-- **the two cases of C06, spelled out.** A node that durably covers `1 … k` (`DurablyCovered`, the conclusion of the
theorem above) EITHER holds entry `k` — the very entry of the reference sequence — in the flushed part of its log on disk,
together with all entries between `log.prev` and `k`, OR the newest snapshot file on its disk has an index `≥ k`, and that
file is the replay of the first `index` entries of the node's virtual log (which agrees with the reference sequence up to
`k`), every one of them committed. -/
theorem covered_by_log_or_snapshot {y : Snap3.Sys} {v : Nat} {ref : List Entry} {k : Nat}
    (h : DurablyCovered V y v ref k) (hk : 1 ≤ k) :
    ((y.node v).log.prev < k ∧ k ≤ (y.node v).log.flushed ∧
      (∃ e, (y.node v).durable.log.get? k = some e ∧ ref[k - 1]? = some e) ∧
      ∀ k', (y.node v).log.prev < k' → k' ≤ k → (y.node v).durable.log.get? k' = ref[k' - 1]?) ∨
    (k ≤ (headOf (y.node v).durable.snaps).index ∧ headOf (y.node v).durable.snaps ∈ (y.node v).durable.snaps ∧
      (headOf (y.node v).durable.snaps).data =
        ups ((y.vlog v).take (headOf (y.node v).durable.snaps).index) ∧
      (∀ k', 1 ≤ k' → k' ≤ (headOf (y.node v).durable.snaps).index → Committed (view3 y).cs (k', termAt (y.vlog v) k')) ∧
      ∀ k', 1 ≤ k' → k' ≤ k → (y.vlog v)[k' - 1]? = ref[k' - 1]?) := by
  rcases h.keeps.disk.cases with ⟨h1, e, h2, h3⟩ | h1
  · exact Or.inl ⟨h1, h.keeps.flushed, ⟨e, h2, h3⟩, fun k' a b => (h.keeps.disk.log k' a b).1⟩
  · right
    have hpos : 0 < (y.node v).snapIndex := by rw [h.backed.head]; omega
    have hm := h.backed.headMem hpos
    obtain ⟨_, _, f3, f4, _⟩ := h.backed.files _ hm
    exact ⟨h1, hm, f4, f3, h.keeps.virt⟩

/-! ### crashes -/

/-- a burst of crashes: nodes of the list `C` die — each at any storage point of any step for which the system has a
crash transition (`RestartSys.CrashOf`), any number of times, in any order — and restart from disk; nothing else happens
(every state satisfies the side conditions) -/
inductive CrashRun4 (V : List Nat) (C : List Nat) (x : Snap3.Sys) : Snap3.Sys → Prop
  | refl : CrashRun4 V C x x
  | crash (y y' : Snap3.Sys) (i : Nat) (n : Node) : CrashRun4 V C x y → i ∈ C → CrashOf y i n y' → Side4 V y' →
      CrashRun4 V C x y'

/-- a burst of crashes is a run of the system -/
theorem crashRun4_run {C : List Nat} {x y : Snap3.Sys} (h : CrashRun4 V C x y) : Run4 V x y := by
  induction h with
  | refl => exact .refl
  | crash y y' i n _ _ hc hs ih => exact .next y y' ih hc.trans hs

/-- the nodes outside `C` are untouched -/
theorem crashRun4_other {C : List Nat} {x y : Snap3.Sys} (h : CrashRun4 V C x y) :
    ∀ j, j ∉ C → y.node j = x.node j := by
  induction h with
  | refl => exact fun _ _ => rfl
  | crash y y' i n _ hi hc _ ih =>
    intro j hj
    have hne : j ≠ i := fun e => hj (e ▸ hi)
    rw [hc.node_j hne]; exact ih j hj

theorem run4_trans {x y z : Snap3.Sys} (h1 : Run4 V x y) (h2 : Run4 V y z) : Run4 V x z := by
  induction h2 with
  | refl => exact h1
  | next z w _ ht hs ih => exact .next z w ih ht hs

/-- **C06 with snapshots — no committed entry is lost when nodes crash (partial: see the file header).** Let `x` be
reachable in `Raft.Snap4` and let the nodes of ANY list `C` — a minority of the voters, the leader, or all nodes — die, each
at any storage point of any step for which the system has a crash transition (operations of stage 2 incl. the snapshot
goroutine and compaction; the install handler), any number of times, and restart from what is on their disks
(`CrashRun4 V C x y`; the nodes outside `C` are untouched: `crashRun4_other`). Then for every index `k` that was within the
commit index of some node `j` in `x`:
1. a majority `Q` of the voters durably covers, in `y`, the entries `1 … k` exactly as `j` held them (virtually) in `x`
   (`DurablyCovered`: flushed log above `log.prev`, snapshot file at or below; at every further crash point; after every
   further restart);
2. hence EVERY majority `S` of the voters — the survivors, the electorate of any future leader — contains such a node;
3. in every state `z` after `y` the majority `Q` still covers them, and every leader `l` whose term is at least the term
   `j` had in `x` holds at every index `1 ≤ k' ≤ k` of its VIRTUAL log the very entry `j` held there; its real log returns
   that entry if `k'` is above `log.prev`, and otherwise `k' ≤ snapIndex`: the entry is inside the leader's snapshot
   (leader completeness on the virtual log; also C02). -/
theorem no_loss_under_minority_crash_snap_partial (hV : V.Nodup) (x y : Snap3.Sys) (hx : Reachable4 V x)
    (C : List Nat) (hc : CrashRun4 V C x y) (j k : Nat) (hk : 1 ≤ k) (hkc : k ≤ (x.node j).commitIndex) :
    ∃ Q, Majority V Q ∧
      (∀ v ∈ Q, DurablyCovered V y v (x.vlog j) k) ∧
      (∀ S, Majority V S → ∃ v ∈ S, DurablyCovered V y v (x.vlog j) k) ∧
      (∀ z, Run4 V y z →
        (∀ v ∈ Q, DurablyCovered V z v (x.vlog j) k) ∧
        ∀ l, (z.node l).role = .leader → (x.node j).term ≤ (z.node l).term → ∀ k', 1 ≤ k' → k' ≤ k →
          (z.vlog l)[k' - 1]? = (x.vlog j)[k' - 1]? ∧ ((x.vlog j)[k' - 1]?).isSome = true ∧
          ((z.node l).log.prev < k' → (z.node l).log.get? k' = (x.vlog j)[k' - 1]?) ∧
          (k' ≤ (z.node l).log.prev → k' ≤ (z.node l).snapIndex)) := by
  have hxy := crashRun4_run hc
  obtain ⟨m, Q, hmt, hs⟩ := sit_of_commit hV hx hk hkc
  have hQ := C06Sys.AckQuorum.majority hs.hQ
  refine ⟨Q, hQ, fun v hv => covered_later hV hs hxy hv, fun S hS => ?_, fun z hyz => ?_⟩
  · obtain ⟨v, hvQ, hvS⟩ := C01.quorums_intersect V Q S hV hQ.1 hS.1 hQ.2.1 hS.2.1
      (by have := hQ.2.2; have := hS.2.2; omega)
    exact ⟨v, hvS, covered_later hV hs hxy hvQ⟩
  · have hxz := run4_trans hxy hyz
    refine ⟨fun v hv => covered_later hV hs hxz hv, fun l hl ht => ?_⟩
    exact leader_holds_later hV (hs.run hxz) hl (Nat.le_trans hmt ht)

end

/-! ### the acknowledgement of an install request -/

/-- **C06, the acknowledgement clause for snapshots — a follower that answers `success` to an install request has
published the snapshot file before (node level; no cluster assumptions).** Let `s` be any node with `retain ≥ 1` whose
newest snapshot file (if any) is not newer than the request's snapshot (in reachable states: `snapIndex ≤ commitIndex <
lastIndex` for a request that installs — `C09.snapsWF_head_le`), and let the completed step `s.step (.install q)` carry a
reply with result `success`. Then the request was not refused as stale, and
1. if the request INSTALLS (`Installs s q`: it is ahead of the commit index and the log does not hold `(lastIndex,
   lastTerm)`): the storage points of the step are `pre ++ [snap.publish, snap.retain, clearLog]` IN THIS ORDER, where `pre`
   is at most `value.set` (log and files untouched); at `snap.publish` and `snap.retain` the disk holds the OLD log and the
   received file as the NEWEST snapshot file; at `clearLog` and when the handler returns, the log reset to `lastIndex` and
   that file — the file is durable before the log is discarded and before the reply exists;
2. if it does not install, then `lastIndex ≤ commitIndex` (everything the snapshot covers is already committed on the
   follower) or the log holds `(lastIndex, lastTerm)` — nothing is published and nothing is discarded;
3. at EVERY crash point `k` of the step the disk holds either the old log AND the old snapshot files, or (only if the
   request installs) the received file as the newest snapshot file. A reply exists only in the completed step: the crash
   transitions of the systems record no acknowledgement. -/
theorem install_ack_after_publish (s : Node) (q : InstallReq) (ra : List Nat) (ord : List (List Nat))
    (hr : 1 ≤ s.retain) (hh : ∀ g, s.snapsDisk.head? = some g → g.index ≤ q.lastIndex)
    (hack : (s.step (.install q) ra ord).rpcReply.map (·.result) = some rSuccess) :
    ¬ q.term < s.term ∧
    (Installs s q → ∃ pre d1 d2 d3,
      (s.step (.install q) ra ord).trace = pre ++ [("snap.publish", d1), ("snap.retain", d2), ("clearLog", d3)] ∧
      (∀ p ∈ pre, p.2.log = s.durable.log ∧ p.2.snaps = s.snapsDisk) ∧
      (d1.log = s.durable.log ∧ d1.snaps.head? = some (C09.fileOf q)) ∧
      (d2.log = s.durable.log ∧ d2.snaps.head? = some (C09.fileOf q)) ∧
      (d3.log = NLog.reset q.lastIndex ∧ d3.snaps.head? = some (C09.fileOf q)) ∧
      ((s.step (.install q) ra ord).durable.log = NLog.reset q.lastIndex ∧
        (s.step (.install q) ra ord).durable.snaps.head? = some (C09.fileOf q))) ∧
    (¬ Installs s q → q.lastIndex ≤ s.commitIndex ∨ C09.keepsLog s q = true) ∧
    (∀ k, ((C05.crashDisk s (.install q) ra ord k).log = s.durable.log ∧
        (C05.crashDisk s (.install q) ra ord k).snaps = s.snapsDisk) ∨
      (Installs s q ∧ (C05.crashDisk s (.install q) ra ord k).snaps.head? = some (C09.fileOf q))) := by
  have hns := install_reply_success s q ra ord hack
  refine ⟨hns, fun hi => install_trace_order s q ra ord hi hr hh, fun hni => ?_,
    fun k => install_crash_point s q ra ord k hr hh⟩
  by_cases h2 : q.lastIndex ≤ s.commitIndex
  · exact Or.inl h2
  · right
    cases hk : C09.keepsLog s q with
    | true => rfl
    | false => exact absurd ⟨hns, by omega, hk⟩ hni

section
variable {V : List Nat}

/-- **… and what the acknowledging follower then holds (cluster level, partial: the restrictions of `Raft.Snap3`).** Let
`x` be reachable in `Raft.Snap3` (a fortiori in `Raft.Snap4`), `m` an install request of the ledger that node `i ≠ 0`
handles to completion without failing an assertion, let the request install, and let the state `y` after the step satisfy
the side conditions. Then the step's reply is `success`, its storage points are `… snap.publish, snap.retain, clearLog` in
this order (statement 1 of `install_ack_after_publish`), and in `y` the follower durably covers the prefix `m.pre` the
snapshot stands for, up to `lastIndex` (`KeepsS y i m.pre lastIndex`: its log is reset to and flushed up to `lastIndex`,
its virtual log IS `m.pre`, the newest snapshot file on its disk is the received one, at `lastIndex`), that file is the
replay of `m.pre`, every entry of `m.pre` is committed, and every node whose commit index covers `lastIndex` holds
`m.pre` (`SnapBacked`, `C09Sys3.install_request_is_committed_prefix_partial`; also C09). -/
theorem install_ack_covers_sys_partial (hV : V.Nodup) (x : Snap3.Sys) (h : Reachable3 V x) (i : Nat) (m : SnapMsg)
    (ra : List Nat) (ord : List (List Nat)) (hi : i ≠ 0) (hm : m ∈ x.sentSnaps)
    (hp : ((x.node i).step (.install m.q) ra ord).panicked = none) (hin : Installs (x.node i) m.q)
    (hS' : Side3 V (installS x i m ra ord)) :
    let y := installS x i m ra ord
    (y.node i).rpcReply.map (·.result) = some rSuccess ∧
    (∃ pre d1 d2 d3, (y.node i).trace = pre ++ [("snap.publish", d1), ("snap.retain", d2), ("clearLog", d3)] ∧
      d1.snaps.head? = some (C09.fileOf m.q) ∧ d1.log = (x.node i).durable.log) ∧
    KeepsS y i m.pre m.q.lastIndex ∧ SnapBacked y i ∧
    ((y.node i).durable.snaps.head? = some (C09.fileOf m.q) ∧ (C09.fileOf m.q).data = ups m.pre) ∧
    (∀ k, 1 ≤ k → k ≤ m.q.lastIndex → Cmt (view3 y).cs (k, termAt m.pre k) m.q.term) ∧
    Reachable3 V y := by
  intro y
  have hI := (inv3_reachable hV h).1
  have wf := snapsWF_node hI i
  have so : SnapOK (x.vnode i) := hI.sinv.snap i
  have hh := C09.snapsWF_head_le (x.node i) m.q wf hin.2.1
  obtain ⟨c1, c2, c3, c4, c5⟩ := C09Sys3.lagging_follower_catches_up_by_snapshot_partial hV x h i m ra ord hi hm hp hin hS'
  have hny : y.node i = (x.node i).step (.install m.q) ra ord := by
    show (installS x i m ra ord).node i = _
    unfold installS; rw [replS_node_i]
  obtain ⟨pre, d1, d2, d3, t1, _, t3, _, _, _⟩ := install_trace_order (x.node i) m.q ra ord hin so.retain hh
  have hmo := C09Sys3.install_request_is_committed_prefix_partial hV y c5 m hm
  have hrep : (y.node i).rpcReply.map (·.result) = some rSuccess := by
    rw [hny, install_reply]
    have hb1 : ¬ m.q.term < ((x.node i).begin ra ord).term := hin.1
    have hb2 : ((x.node i).begin ra ord).commitIndex < m.q.lastIndex := hin.2.1
    have hb3 : C09.keepsLog ((x.node i).begin ra ord) m.q = false := hin.2.2
    rw [C09.install_discard_shape _ m.q hb1 hb2 hb3]
    rfl
  have hlog : (y.node i).log = NLog.reset m.q.lastIndex := c1.1
  have hvl : y.vlog i = m.pre := c2.2.2.2
  have hlen : m.pre.length = m.q.lastIndex := hmo.1
  refine ⟨hrep, ⟨pre, d1, d2, d3, by rw [hny]; exact t1, t3.2, t3.1⟩, ⟨?_, fun k' _ _ => by rw [hvl], ?_, ?_⟩,
    snapBacked hV c5 i, ⟨c3, c2.2.2.1⟩, hmo.2.2.2.2.1, c5⟩
  · rw [hlog]; exact Nat.le_refl _
  · intro k' h1 h2
    have h1' : (y.node i).log.prev < k' := h1
    rw [hlog] at h1'
    have : (NLog.reset m.q.lastIndex).prev = m.q.lastIndex := rfl
    omega
  · show (y.node i).log.prev ≤ (headOf (y.node i).snapsDisk).index
    have hd : (y.node i).snapsDisk.head? = some (C09.fileOf m.q) := c3
    unfold headOf
    rw [hlog, hd]
    exact Nat.le_refl _

/-- **an install request never carries an uncommitted index (partial: the restrictions of `Raft.Snap3`)** — why the
acknowledgement of an install request is never NEEDED for a commit (and why the systems record no entry of the ledger
`acks` for it): when the leader `i` reads its newest snapshot file into the request `q` (`Snap3.SnapRead`, the premise of
`Trans.sendSnap`), `q.lastIndex = snapIndex ≤ commitIndex` of the leader. The match index `lastIndex` the leader derives
from the follower's `success` (`replication.sendInstallSnapReq`) is therefore at or below the leader's commit index and
moves nothing in `majorityMatchIndex`; every index `≤ lastIndex` is already durably covered by a majority
(`commit_durable_on_majority_snap_partial`). In particular the two `success` answers that publish nothing
(`install_ack_after_publish`, case 2: `lastIndex ≤ commitIndex` on the follower, or its log holds `(lastIndex, lastTerm)`
— possibly NOT flushed) acknowledge nothing that was not committed before. -/
theorem install_request_within_commit_partial (hV : V.Nodup) (x : Snap3.Sys) (h : Reachable3 V x) (i : Nat)
    (q : InstallReq) (hr : SnapRead (x.node i) q) :
    q.lastIndex = (x.node i).snapIndex ∧ q.lastIndex ≤ (x.node i).commitIndex := by
  have sb := snapBacked hV h i
  have hd : (x.node i).durable.snaps.head? = some (C09.fileOf q) := hr.file
  have e : (x.node i).snapIndex = q.lastIndex := by
    rw [sb.head]; unfold headOf; rw [hd]; rfl
  exact ⟨e.symm, by rw [← e]; exact sb.commit⟩

end

/-! ### Examples (non-vacuity) -/

/-- EXAMPLE (`Covers`, both cases): a log compacted up to index 2 that still holds entry 3, with a snapshot file at index
2, covers the first three entries of the reference sequence — entry 3 from the log, entries 1 and 2 by the snapshot; and
it covers the first two by the snapshot alone -/
example :
    let e (i : Nat) : Entry := { index := i, term := 1 }
    let l : NLog := { prev := 2, entries := [e 3], flushed := 3, segs := [2] }
    let f : SnapFile := { index := 2, term := 1 }
    Covers l [f] [e 1, e 2, e 3] 3 ∧ Covers l [f] [e 1, e 2, e 3] 2 ∧ 2 ≤ (headOf [f]).index := by
  intro e l f
  have c3 : Covers l [f] [e 1, e 2, e 3] 3 := by
    refine ⟨fun k' h1 h2 => ?_, by decide⟩
    have h1' : 2 < k' := h1
    have : k' = 3 := by omega
    subst this
    exact ⟨by decide, by decide⟩
  exact ⟨c3, c3.mono (by decide), by decide⟩

set_option maxRecDepth 100000 in
/-- EXAMPLE: the hypotheses of the theorems (`V.Nodup`, a state reachable in `Raft.Snap4` by steps that use the snapshot
operations and the install handler, a later state, a burst of crashes, a majority) are satisfiable: `C09Sys3.exW4` (three
voters; node 2 is asked for a snapshot, the snapshot goroutine runs, the result is handed over, node 2 handles a stale
install request). (States with a positive commit index need an elected leader, which the kernel cannot evaluate: the
leader block does not reduce there; they are EVALUATED below.) -/
theorem exW4_reachable4 : Reachable4 [1, 2, 3] C09Sys3.exW4 := by
  have en : ∀ (x : Commit.Sys) (op : Op), OpOKS op → (∀ q, op ≠ .vote q) → (∀ q, op ≠ .append q) →
      (∀ b, op ≠ .newEntries b) → (∀ t c, op ≠ .changeConfig t c) → (∀ a b c, op ≠ .voteResult a b c) →
      (∀ us, op ≠ .replUpdates us) → Snap.Enabled x 2 op 0 := C09Sys.exEnabled
  have i0 : Snap4.Init4 C09Sys3.exW0 :=
    ⟨⟨C09Sys2.exY0_init, fun _ => rfl, rfl⟩, C19Sys.ex0_tracks, fun i => (C19Sys.exNode_good i).ordered⟩
  have s0 : Side4 [1, 2, 3] C09Sys3.exW0 := C09Sys3.exSide4 _ (C04Sys.exNode 2) rfl rfl (by
    show C04Sys.exNode = _
    funext j; unfold setNode; split
    · rename_i h; rw [h]
    · rfl) (by decide) rfl (by decide)
  have t1 : Snap4.Trans C09Sys3.exW0 C09Sys3.exW1 :=
    .step 2 (.takeSnapshot 7 0) [] [] 0
      (en _ _ trivial (fun _ h => by cases h) (fun _ h => by cases h) (fun _ h => by cases h)
        (fun _ _ h => by cases h) (fun _ _ _ h => by cases h) (fun _ h => by cases h)) (by decide)
  have s1 : Side4 [1, 2, 3] C09Sys3.exW1 :=
    C09Sys3.exSide4 _ ((C04Sys.exNode 2).step (.takeSnapshot 7 0) [] []) (by decide) (by decide) rfl (by decide)
      (by decide) (by decide)
  have t2 : Snap4.Trans C09Sys3.exW1 C09Sys3.exW2 :=
    .step 2 .snapRun [] [] 0
      (en _ _ trivial (fun _ h => by cases h) (fun _ h => by cases h) (fun _ h => by cases h)
        (fun _ _ h => by cases h) (fun _ _ _ h => by cases h) (fun _ h => by cases h)) (by decide)
  have s2 : Side4 [1, 2, 3] C09Sys3.exW2 :=
    C09Sys3.exSide4 _ (((C04Sys.exNode 2).step (.takeSnapshot 7 0) [] []).step .snapRun [] []) (by decide) (by decide)
      (by
        show setNode (setNode C04Sys.exNode 2 _) 2 _ = _
        funext j
        unfold setNode
        split <;> rfl) (by decide) (by decide) (by decide)
  have t3 : Snap4.Trans C09Sys3.exW2 C09Sys3.exW3 :=
    .step 2 .snapTaken [] [] 0
      (en _ _ trivial (fun _ h => by cases h) (fun _ h => by cases h) (fun _ h => by cases h)
        (fun _ _ h => by cases h) (fun _ _ _ h => by cases h) (fun _ h => by cases h)) (by decide)
  have s3 : Side4 [1, 2, 3] C09Sys3.exW3 :=
    C09Sys3.exSide4 _ ((((C04Sys.exNode 2).step (.takeSnapshot 7 0) [] []).step .snapRun [] []).step .snapTaken [] [])
      (by decide) (by decide) (by
        show setNode (setNode (setNode C04Sys.exNode 2 _) 2 _) 2 _ = _
        funext j
        unfold setNode
        split <;> rfl) (by decide) (by decide) (by decide)
  have t4 : Snap4.Trans C09Sys3.exW3 C09Sys3.exW4 :=
    .install 2 C09Sys3.exMs [] [] (by decide) (Or.inl (by decide)) (by decide)
  have s4 : Side4 [1, 2, 3] C09Sys3.exW4 :=
    C09Sys3.exSide4 _ (((((C04Sys.exNode 2).step (.takeSnapshot 7 0) [] []).step .snapRun [] []).step .snapTaken [] []).step
        (.install C09Sys3.exMs.q) [] [])
      (by decide) (by decide) (by
        show setNode (setNode (setNode (setNode C04Sys.exNode 2 _) 2 _) 2 _) 2 _ = _
        funext j
        unfold setNode
        split <;> rfl) (by decide) (by decide) (by decide)
  exact .next _ _ (.next _ _ (.next _ _ (.next _ _ (.init _ i0 s0) t1 s1) t2 s2) t3 s3) t4 s4

/-- EXAMPLE: the hypotheses of `commit_durable_on_majority_snap_partial` and `no_loss_under_minority_crash_snap_partial` -/
example : [1, 2, 3].Nodup ∧ Reachable4 [1, 2, 3] C09Sys3.exW4 ∧ Run4 [1, 2, 3] C09Sys3.exW4 C09Sys3.exW4 ∧
    CrashRun4 [1, 2, 3] [2, 3] C09Sys3.exW4 C09Sys3.exW4 ∧ Majority [1, 2, 3] [3, 1] :=
  ⟨by decide, exW4_reachable4, .refl, .refl, by decide, by decide, by decide⟩

set_option maxRecDepth 100000 in
/-- EXAMPLE (`CrashAt`, the crash clause of `DurablyCovered`): node 2 of `exW4` dies while handling an election timeout,
after the first storage point (`value.set`: term 2 and the vote for itself are on disk), and restarts with term 2 -/
example : ∃ d n y', CrashAt C09Sys3.exW4 2 d n y' ∧ d.term = 2 ∧ n.term = 2 := by
  have hn : (Node.restart (C05.crashDisk (C09Sys3.exW4.node 2) .timeout [] [] 1) 1 true).isSome = true := by decide
  obtain ⟨n, hn'⟩ := Option.isSome_iff_exists.mp hn
  have ht : n.term = 2 := by
    have := (C05.restart_reads_durable _ _ _ _ hn').1
    rw [this]; decide
  exact ⟨_, n, _, .op n .timeout [] [] 0 1 1 true
    (C09Sys.exEnabled _ _ trivial (fun _ h => by cases h) (fun _ h => by cases h) (fun _ h => by cases h)
      (fun _ _ h => by cases h) (fun _ _ _ h => by cases h) (fun _ h => by cases h))
    (by decide) (by decide) trivial (by decide) hn', by decide, ht⟩

/-- EXAMPLE (`install_ack_after_publish`): the F18 scenario of Props/C09Sys2.lean — the follower `exI0` (uncommitted
entries 2–4 of term 2, no snapshot, `retain = 1`) handles the leader's snapshot `exIq` (index 3, term 3): the hypotheses
hold, the reply is `success`, the request installs -/
example : 1 ≤ C09Sys2.exI0.retain ∧ (∀ g, C09Sys2.exI0.snapsDisk.head? = some g → g.index ≤ C09Sys2.exIq.lastIndex) ∧
    (C09Sys2.exI0.step (.install C09Sys2.exIq) [] []).rpcReply.map (·.result) = some rSuccess ∧
    Installs C09Sys2.exI0 C09Sys2.exIq := by
  refine ⟨by decide, fun g hg => ?_, by decide, by decide⟩
  have : C09Sys2.exI0.snapsDisk.head? = none := rfl
  rw [this] at hg; cases hg

/-! #### EVALUATED (tests, not proofs) — the scenario of Props/C09Sys3.lean: node 1 leads term 2, commits index 3 (the
update "a") with node 2, takes a snapshot at 3 and compacts; node 3 (log [(1,1)], nothing committed) installs the
snapshot (`exX16`) and then accepts entry 4 behind it (`exX19`); alternatively node 3 dies after `snap.retain` (`exXd`). -/

/-- executable `Covers` -/
def coversB (l : NLog) (snaps : List SnapFile) (ref : List Entry) (k : Nat) : Bool :=
  (List.range (k + 1)).all (fun k' => !(decide (l.prev < k')) || (l.get? k' == ref[k' - 1]? && (ref[k' - 1]?).isSome)) &&
    decide (l.prev ≤ (headOf snaps).index)

/-- executable `KeepsS` -/
def keepsB (y : Snap3.Sys) (v : Nat) (ref : List Entry) (k : Nat) : Bool :=
  decide (k ≤ (y.node v).log.flushed) &&
    (List.range (k + 1)).all (fun k' => k' == 0 || (y.vlog v)[k' - 1]? == ref[k' - 1]?) &&
    coversB (y.node v).durable.log (y.node v).durable.snaps ref k

-- index 3 is committed on the leader; ALL THREE voters durably cover 1 … 3 of the leader's virtual log after the
-- installation: node 1 (leader, compacted) and node 3 (installed) by their snapshot files, node 2 by its flushed log
#guard (C09Sys3.exX16.node 1).commitIndex == 3 && keepsB C09Sys3.exX16 1 (C09Sys3.exX16.vlog 1) 3 &&
  keepsB C09Sys3.exX16 2 (C09Sys3.exX16.vlog 1) 3 && keepsB C09Sys3.exX16 3 (C09Sys3.exX16.vlog 1) 3
#guard (C09Sys3.exX16.node 3).log.prev == 3 && ((C09Sys3.exX16.node 3).durable.snaps.map (·.index)) == [3] &&
  (C09Sys3.exX16.node 2).log.prev == 0 && (C09Sys3.exX16.node 2).log.flushed ≥ 3
-- BEFORE the installation node 3 does not cover index 3 (it is not in the acknowledging majority {1, 2})
#guard !keepsB C09Sys3.exX15 3 (C09Sys3.exX15.vlog 1) 3 && keepsB C09Sys3.exX15 2 (C09Sys3.exX15.vlog 1) 3
-- node 3 dies after `snap.retain` (F18 window): the disk holds the OLD log — stale — and the received file at index 3:
-- the snapshot file alone covers 1 … 3; with the log `openStorage` works with the disk image covers
#guard staleLog C09Sys3.exXd && decide (3 ≤ (headOf C09Sys3.exXd.snaps).index) &&
  coversB (C10.logOf C09Sys3.exXd) C09Sys3.exXd.snaps (C09Sys3.exX15.vlog 1) 3
-- at every crash point of the installation on node 3: old log and old files, or the received file is the newest
#guard (List.range 6).all (fun k =>
  let d := C05.crashDisk (C09Sys3.exX15.node 3) (.install C09Sys3.exQ) [] [] k
  (d.log == (C09Sys3.exX15.node 3).durable.log && d.snaps == (C09Sys3.exX15.node 3).snapsDisk) ||
    d.snaps.head? == some (C09.fileOf C09Sys3.exQ))
-- after the next entry (index 4) behind the snapshot: node 3 covers 1 … 4 — entry 4 from the log, 1 … 3 by the snapshot
#guard keepsB C09Sys3.exX19 3 (C09Sys3.exX19.vlog 1) 4 && (C09Sys3.exX19.node 3).log.prev == 3

end C06Snap
end Raft

#print axioms Raft.C06Snap.commit_durable_on_majority_snap_partial -- also C09
#print axioms Raft.C06Snap.covered_by_log_or_snapshot
#print axioms Raft.C06Snap.no_loss_under_minority_crash_snap_partial -- also C02
#print axioms Raft.C06Snap.install_ack_after_publish
#print axioms Raft.C06Snap.install_ack_covers_sys_partial -- also C09
#print axioms Raft.C06Snap.install_request_within_commit_partial -- also C09
