/-
AUDIT of the theorems over `Raft.Snap2` (Sys/Snap2.lean, Props/C09Sys2.lean — snapshots AND compaction, stage 2).

Props/C09Sys2.lean proves reachable only a state in which a snapshot was REFUSED; the scenario with a real compaction is
evaluated there (`#guard`) without checking the enabling conditions and the side conditions `Side2` (segment lists well
formed, no log compacted exactly up to its snapshot index, configuration entries of the virtual logs decode) on its
states.  Here that scenario is PROVED to be a run of `Raft.Snap2`: node 1 is elected (its first entry starts a new log
segment), commits its no-op, takes a snapshot at index 2, `onSnapshotTaken` COMPACTS its log (`log.prev = 1`), the leader
goes on on the compacted log (accepts, replicates — `Trans.send` with `ReadFrom2` — and commits a client update), dies
and restarts from the compacted log and the snapshot file.
-/
import RaftVerif.Props.AuditSnap
import RaftVerif.Props.C09Sys2

namespace Raft
namespace AuditSnap2
open Node LogRel CommitRel Commit C02Sys C03Sys SysInv NoPanic Snap Snap2 SnapRelU SnapSim AuditSnap
open Election (setNode setNode_same setNode_other)
open C07Sys (altPost replUpdates_step_alt)

/-- `Snap2.stepS` with the post-state of the acting node as a parameter -/
def stepSP (x : Snap2.Sys) (i : Nat) (op : Op) (src : Nat) (post : Node) : Snap2.Sys :=
  { cs := withNodes (stepL (view x).cs i op src (U (newBase x i post.log.prev) post))
      (setNode x.cs.rp.el.node i post)
    snaps := newSnaps i (x.node i).snapsDisk post.snapsDisk ++ x.snaps
    base := setBase x.base i (newBase x i post.log.prev) }

theorem stepS_eq (x : Snap2.Sys) (i : Nat) (op : Op) (ra : List Nat) (ord : List (List Nat)) (src : Nat) :
    stepS x i op ra ord src = stepSP x i op src ((x.node i).step op ra ord) := rfl

/-- what has to be checked of the node that acted (`β`: what is compacted away from its log) -/
def NodeSide2 (V : List Nat) (β : List Entry) (n : Node) : Prop :=
  n.configs.isBootstrapped = true ∧ n.configs.latest.voters = V ∧ n.configs.latest.isStable = true ∧
  (∀ e ∈ (uncLog β n.log).entries, e.typ = etConfig → e.cfg.isSome = true) ∧
  (n.log.segs.Pairwise (· < ·) ∧ n.log.segs.head? = some n.log.prev ∧ ∀ x ∈ n.log.segs, x ≤ n.log.last) ∧
  (n.log.prev = 0 ∨ n.log.prev ≠ n.snapIndex)

instance (V : List Nat) (β : List Entry) (n : Node) : Decidable (NodeSide2 V β n) := by
  unfold NodeSide2; infer_instance

theorem side2_set {V : List Nat} (x y : Snap2.Sys) (i : Nat) (n : Node) (β : List Entry) (hs : Side2 V x)
    (hy : y.cs.rp.el.node = setNode x.cs.rp.el.node i n) (hb : y.base = setBase x.base i β)
    (hn : NodeSide2 V β n) : Side2 V y := by
  have hnode : ∀ j, y.node j = setNode x.cs.rp.el.node i n j := fun j => by
    show y.cs.rp.el.node j = _; rw [hy]
  have key : ∀ j, NodeSide2 V (y.base j) (y.node j) := by
    intro j
    rw [hnode j, hb]
    by_cases hj : j = i
    · subst hj
      rw [setNode_same]
      unfold setBase; rw [if_pos rfl]; exact hn
    · rw [setNode_other _ _ _ _ hj]
      unfold setBase; rw [if_neg hj]
      exact ⟨(hs.sideV.1 j).1, (hs.sideV.1 j).2, hs.sideV.2 j, hs.dec j,
        ⟨(hs.segs j).sorted, (hs.segs j).head, (hs.segs j).le_last⟩, hs.gap j⟩
  exact ⟨⟨fun j => ⟨(key j).1, (key j).2.1⟩, fun j => (key j).2.2.1⟩, fun j => (key j).2.2.2.1,
    fun j => ⟨(key j).2.2.2.2.1.1, (key j).2.2.2.2.1.2.1, (key j).2.2.2.2.1.2.2⟩, fun j => (key j).2.2.2.2.2⟩

/-- a reachable state with its side conditions -/
def R2 (V : List Nat) (x : Snap2.Sys) : Prop := Reachable2 V x ∧ Side2 V x

theorem r2_step {V : List Nat} {x : Snap2.Sys} (hx : R2 V x) (i : Nat) (op : Op) (ra : List Nat) (src : Nat)
    (he : Snap.Enabled x.cs i op src) (hp : ((x.node i).step op ra []).panicked = none)
    (hn : NodeSide2 V (newBase x i ((x.node i).step op ra []).log.prev) ((x.node i).step op ra [])) :
    R2 V (stepS x i op ra [] src) := by
  have hs : Side2 V (stepS x i op ra [] src) := side2_set x _ i _ _ hx.2 rfl rfl hn
  exact ⟨.next x _ hx.1 (.step i op ra [] src he hp) hs, hs⟩

theorem r2_crash {V : List Nat} {x : Snap2.Sys} (hx : R2 V x) (i : Nat) (op : Op) (src k : Nat) (n : Node)
    (he : Snap.Enabled x.cs i op src) (hp : ((x.node i).step op [] []).panicked = none)
    (hr : Node.restart (C05.crashDisk (x.node i) op [] [] k) 1 true = some n)
    (hn : NodeSide2 V (newBase x i n.log.prev) n) : R2 V (crashS x i op n) := by
  have hs : Side2 V (crashS x i op n) := side2_set x _ i _ _ hx.2 rfl rfl hn
  exact ⟨.next x _ hx.1 (.crash i op [] [] src k 1 true n he (Nat.le_refl _) hp hr) hs, hs⟩

def sendS2 (x : Snap2.Sys) (q : AppendReq) : Snap2.Sys := { x with cs := sendC x.cs q }

theorem r2_send {V : List Nat} {x : Snap2.Sys} (hx : R2 V x) (i : Nat) (q : AppendReq) (hi : i ≠ 0)
    (hl : (x.node i).role = .leader) (hr : ReadFrom2 (x.node i) (x.vnode i) q)
    (hc : q.ldrCommitIndex ≤ (x.node i).commitIndex) : R2 V (sendS2 x q) :=
  have hs : Side2 V (sendS2 x q) := ⟨hx.2.sideV, hx.2.dec, hx.2.segs, hx.2.gap⟩
  ⟨.next x _ hx.1 (.send i q hi hl hr hc) hs, hs⟩

/-! ### the run (the states `exY0 … exY6` are those of Props/C09Sys2.lean) -/

open C09Sys2

theorem c0 : R2 [1, 2, 3] exY0 := by
  have s0 : Side2 [1, 2, 3] exY0 := exSide2 _ (C04Sys.exNode 2) rfl rfl (by
    show C04Sys.exNode = _
    funext j; unfold setNode; split
    · rename_i h; rw [h]
    · rfl)
  exact ⟨.init _ exY0_init s0, s0⟩

set_option maxRecDepth 100000 in
theorem c1 : R2 [1, 2, 3] exY1 :=
  r2_step c0 1 .timeout [] 0 (plainS _ 1 _ (by decide) rfl) (by decide +kernel) (by decide +kernel)

abbrev yVote : VoteReq := { term := 2, src := 1, lastLogIndex := 1, lastLogTerm := 1 }

set_option maxRecDepth 100000 in
theorem c2 : R2 [1, 2, 3] exY2 :=
  r2_step c1 2 (.vote yVote) [] 0 (enS_vote _ 2 yVote (by decide) (by decide) (by decide +kernel))
    (by decide +kernel) (by decide +kernel)

set_option maxRecDepth 100000 in
theorem c3 : R2 [1, 2, 3] exY3 :=
  r2_step c2 1 (.voteResult false 2 rSuccess) [1] 2
    (enS_voteResult _ 1 2 2 (by decide) ⟨by decide, by decide +kernel, by decide +kernel, by decide +kernel⟩)
    (by decide +kernel) (by decide +kernel)

set_option maxRecDepth 100000 in
theorem c4 : R2 [1, 2, 3] exY4 :=
  r2_send c3 1 exYReq (by decide) (by decide +kernel)
    ⟨⟨by decide +kernel, by decide +kernel, by decide +kernel, by decide +kernel, ⟨1, by decide +kernel⟩⟩,
      by decide +kernel⟩ (by decide +kernel)

set_option maxRecDepth 100000 in
theorem c5 : R2 [1, 2, 3] exY5 :=
  r2_step c4 2 (.append exYReq) [] 0 (enS_append _ 2 exYReq (by decide) (by decide +kernel) (by decide +kernel))
    (by decide +kernel) (by decide +kernel)

set_option maxRecDepth 100000 in
theorem c6 : R2 [1, 2, 3] exY6 :=
  r2_step c5 3 (.append exYReq) [] 0 (enS_append _ 3 exYReq (by decide) (by decide +kernel) (by decide +kernel))
    (by decide +kernel) (by decide +kernel)

abbrev yUpd (v : Nat) : List ReplUpdate := [{ id := 2, upd := .matchIndex v }, { id := 3, upd := .matchIndex v }]

/-- the leader commits its no-op (index 2); the commit step is rewritten (`replUpdates_step_alt`: `List.mergeSort`
does not reduce in the kernel) -/
def y7 : Snap2.Sys := stepSP exY6 1 (.replUpdates (yUpd 2)) 0 (altPost (exY6.node 1) (yUpd 2) 2)

set_option maxRecDepth 100000 in
theorem mm6 : (replUpdLoop ((exY6.node 1).begin [] []) {} (yUpd 2)).1.majorityMatchIndex = (2, true) := by
  unfold Node.majorityMatchIndex
  rw [if_neg (by decide +kernel)]
  dsimp only
  have h1 : (replUpdLoop ((exY6.node 1).begin [] []) {} (yUpd 2)).1.voterMatches = [2, 2, 2] := by decide +kernel
  have h2 : [2, 2, 2].mergeSort geB = [2, 2, 2] := by
    simp [List.mergeSort, List.MergeSort.Internal.splitInTwo, geB]
  rw [h1, h2]
  decide +kernel

set_option maxRecDepth 100000 in
theorem step6 : (exY6.node 1).step (.replUpdates (yUpd 2)) [] [] = altPost (exY6.node 1) (yUpd 2) 2 :=
  replUpdates_step_alt _ _ 2 (by decide +kernel) mm6

theorem y7_eq : stepS exY6 1 (.replUpdates (yUpd 2)) [] [] 0 = y7 := by
  rw [stepS_eq, step6]; rfl

theorem upd2_backed (x : Commit.Sys) (i v : Nat) (a2 a3 : Ack) (h2 : a2 ∈ x.acks) (h3 : a3 ∈ x.acks)
    (e2 : a2.voter = 2 ∧ a2.term = (x.node i).term ∧ v ≤ a2.index)
    (e3 : a3.voter = 3 ∧ a3.term = (x.node i).term ∧ v ≤ a3.index) :
    ∀ u ∈ yUpd v, ∀ w, u.upd = .matchIndex w →
      w = 0 ∨ ∃ a ∈ x.acks, a.voter = u.id ∧ a.term = (x.node i).term ∧ w ≤ a.index := by
  intro u hu w hw
  rcases List.mem_cons.mp hu with e | hu
  · rw [e] at hw ⊢; cases hw; exact Or.inr ⟨a2, h2, e2⟩
  · rw [List.mem_singleton.mp hu] at hw ⊢; cases hw; exact Or.inr ⟨a3, h3, e3⟩

theorem yUpd_nc (v : Nat) : NoCompact (yUpd v) := by
  intro u hu w hw
  rcases List.mem_cons.mp hu with e | hu
  · rw [e] at hw; cases hw
  · rw [List.mem_singleton.mp hu] at hw; cases hw

set_option maxRecDepth 100000 in
theorem c7 : R2 [1, 2, 3] y7 := by
  have := r2_step c6 1 (.replUpdates (yUpd 2)) [] 0
    (enS_upd _ 1 _ (by decide) (yUpd_nc 2)
      (upd2_backed _ 1 2 ⟨2, 2, 2, 2⟩ ⟨3, 2, 2, 2⟩ (by decide +kernel) (by decide +kernel) (by decide +kernel)
        (by decide +kernel)))
    (by rw [step6]; decide +kernel) (by rw [step6]; decide +kernel)
  rw [y7_eq] at this
  exact this

/-- node 1 is asked for a snapshot; the goroutine writes the file (2, 2, []); `onSnapshotTaken` COMPACTS the log up to
the segment boundary 1 -/
def y8 : Snap2.Sys := stepS y7 1 (.takeSnapshot 9 0) [] [] 0
def y9 : Snap2.Sys := stepS y8 1 .snapRun [] [] 0
def y10 : Snap2.Sys := stepS y9 1 .snapTaken [] [] 0

set_option maxRecDepth 100000 in
theorem c8 : R2 [1, 2, 3] y8 :=
  r2_step c7 1 _ [] 0 (plainS _ 1 _ (by decide) rfl) (by decide +kernel) (by decide +kernel)

set_option maxRecDepth 100000 in
theorem c9 : R2 [1, 2, 3] y9 :=
  r2_step c8 1 _ [] 0 (plainS _ 1 _ (by decide) rfl) (by decide +kernel) (by decide +kernel)

set_option maxRecDepth 100000 in
theorem c10 : R2 [1, 2, 3] y10 :=
  r2_step c9 1 _ [] 0 (plainS _ 1 _ (by decide) rfl) (by decide +kernel) (by decide +kernel)

abbrev yBatch : List QItem := [{ typ := etUpdate, data := "a", task := 7 }]

theorem yBatch_noCfg : NoCfg yBatch := fun q hq => by rw [List.mem_singleton.mp hq]; decide

/-- the leader goes on on the compacted log: a client update (index 3) … -/
def y11 : Snap2.Sys := stepS y10 1 (.newEntries yBatch) [] [] 0
/-- … read from the part of the log that is still there (`prevLogIndex = 2 ≥ log.prev = 1`) … -/
def yReq2 : AppendReq :=
  { term := 2, src := 1, prevLogIndex := 2, prevLogTerm := 2, entries := (y11.vnode 1).log.entries.drop 2,
    ldrCommitIndex := 2 }
def y12 : Snap2.Sys := sendS2 y11 yReq2
/-- … replicated to node 2 … -/
def y13 : Snap2.Sys := stepS y12 2 (.append yReq2) [] [] 0
abbrev yUpd1 : List ReplUpdate := [{ id := 2, upd := .matchIndex 3 }]
/-- … and committed -/
def y14 : Snap2.Sys := stepSP y13 1 (.replUpdates yUpd1) 0 (altPost (y13.node 1) yUpd1 3)

set_option maxRecDepth 100000 in
theorem c11 : R2 [1, 2, 3] y11 :=
  r2_step c10 1 _ [] 0 (enS_batch _ 1 yBatch (by decide) yBatch_noCfg) (by decide +kernel) (by decide +kernel)

set_option maxRecDepth 100000 in
theorem c12 : R2 [1, 2, 3] y12 :=
  r2_send c11 1 yReq2 (by decide) (by decide +kernel)
    ⟨⟨by decide +kernel, by decide +kernel, by decide +kernel, by decide +kernel, ⟨1, by decide +kernel⟩⟩,
      by decide +kernel⟩ (by decide +kernel)

set_option maxRecDepth 100000 in
theorem c13 : R2 [1, 2, 3] y13 :=
  r2_step c12 2 (.append yReq2) [] 0 (enS_append _ 2 yReq2 (by decide) (by decide +kernel) (by decide +kernel))
    (by decide +kernel) (by decide +kernel)

set_option maxRecDepth 100000 in
theorem mm13 : (replUpdLoop ((y13.node 1).begin [] []) {} yUpd1).1.majorityMatchIndex = (3, true) := by
  unfold Node.majorityMatchIndex
  rw [if_neg (by decide +kernel)]
  dsimp only
  have h1 : (replUpdLoop ((y13.node 1).begin [] []) {} yUpd1).1.voterMatches = [3, 3, 2] := by decide +kernel
  have h2 : [3, 3, 2].mergeSort geB = [3, 3, 2] := by
    simp [List.mergeSort, List.MergeSort.Internal.splitInTwo, geB]
  rw [h1, h2]
  decide +kernel

set_option maxRecDepth 100000 in
theorem step13 : (y13.node 1).step (.replUpdates yUpd1) [] [] = altPost (y13.node 1) yUpd1 3 :=
  replUpdates_step_alt _ _ 3 (by decide +kernel) mm13

theorem y14_eq : stepS y13 1 (.replUpdates yUpd1) [] [] 0 = y14 := by
  rw [stepS_eq, step13]; rfl

set_option maxRecDepth 100000 in
theorem c14 : R2 [1, 2, 3] y14 := by
  have hb : ∀ u ∈ yUpd1, ∀ w, u.upd = .matchIndex w →
      w = 0 ∨ ∃ a ∈ y13.cs.acks, a.voter = u.id ∧ a.term = (y13.cs.node 1).term ∧ w ≤ a.index := by
    intro u hu w hw
    rw [List.mem_singleton.mp hu] at hw ⊢; cases hw
    exact Or.inr ⟨⟨2, 2, 3, 2⟩, by decide +kernel, by decide +kernel⟩
  have hnc : NoCompact yUpd1 := by
    intro u hu w hw
    rw [List.mem_singleton.mp hu] at hw; cases hw
  have := r2_step c13 1 (.replUpdates yUpd1) [] 0 (enS_upd _ 1 _ (by decide) hnc hb)
    (by rw [step13]; decide +kernel) (by rw [step13]; decide +kernel)
  rw [y14_eq] at this
  exact this

/-- node 1 dies between two steps and restarts from its COMPACTED log and its snapshot file -/
def k1 : Node := (Node.restart (C05.crashDisk (y14.node 1) .timeout [] [] 0) 1 true).getD {}
def y15 : Snap2.Sys := crashS y14 1 .timeout k1

set_option maxRecDepth 100000 in
theorem k1_restart : Node.restart (C05.crashDisk (y14.node 1) .timeout [] [] 0) 1 true = some k1 :=
  AuditSys.restart_getD (by decide +kernel)

set_option maxRecDepth 100000 in
theorem c15 : R2 [1, 2, 3] y15 :=
  r2_crash c14 1 .timeout 0 0 k1 (plainS _ 1 _ (by decide) rfl) (by decide +kernel) k1_restart (by decide +kernel)

set_option maxRecDepth 100000 in
/-- WITNESS S2 (`Raft.Snap2`): facts about the run. `y10`: the leader's log is compacted (`log.prev = 1`, below
`snapIndex = 2`), the removed entry is in `base`; `y14`: on the compacted log the leader has accepted, replicated and
committed the update "a" (commit index 3, applied ["a"]), node 2 holds 3 entries and node 1's `Log.Get 1` fails;
`y15`: node 1 restarted from the compacted log (first index 1, entries 2 and 3) and the snapshot (commit index =
applied index = 2), nothing failed. -/
theorem runS2_facts :
    ((y10.node 1).log.prev = 1 ∧ (y10.node 1).snapIndex = 2 ∧ (y10.node 1).log.segs = [1] ∧
      (y10.base 1).map (fun e => (e.index, e.term)) = [(1, 1)] ∧ (y10.node 1).role = .leader) ∧
    ((y14.node 1).commitIndex = 3 ∧ (y14.node 1).fsm.applied = ["a"] ∧ (y14.node 2).log.entries.length = 3 ∧
      (y14.node 1).log.get? 1 = none ∧ y14.cs.committed = [(3, 2), (2, 2)]) ∧
    ((y15.node 1).log.prev = 1 ∧ (y15.node 1).log.entries.map (fun e => (e.index, e.term, e.data)) =
        [(2, 2, ""), (3, 2, "a")] ∧ (y15.node 1).snapIndex = 2 ∧ (y15.node 1).commitIndex = 2 ∧
      (y15.node 1).fsm.index = 2 ∧ (y15.node 1).role = .follower ∧ (y15.node 1).panicked = none) := by
  refine ⟨⟨?_, ?_, ?_, ?_, ?_⟩, ⟨?_, ?_, ?_, ?_, ?_⟩, ⟨?_, ?_, ?_, ?_, ?_, ?_, ?_⟩⟩ <;> decide +kernel

end AuditSnap2
end Raft

#print axioms Raft.AuditSnap2.c15
#print axioms Raft.AuditSnap2.runS2_facts
