/-
C15 — No self-inflicted failure on EVERY path: `Node.step` never panics from a good state.

A Go panic (failed `assert`, nil dereference, `bug{}`, a log view that cannot be built, `unreachable()`) is the
model field `panicked`. `Props/C15.lean` shows that the simple handlers cannot fail; `Props/C19Order.lean` shows
that the orderings are inductive for steps that *complete*. Here the hypothesis "completes" is removed.

* `Good T s` (Lemmas/NoPanic.lean): `panicked = none`, `Order.Ordered s`, `C06Cache.LeaderCacheOpen s` (as
  `LC.Cache`), the global part `Glob` (every configuration entry of the log decodes; `retain ≥ 1`; no snapshot file
  newer than `snaps.index`; a candidate is a voter; both configurations are `CfgOk`: the node's own entry carries a
  defined action, and a non-empty configuration has an *anchor* — a voter without pending action; two of them
  when `T = true`) and, for an open leader, `LdrR` (views constructible: `log.prev ≤ ldr.removeLTE` — the F6
  class; the queue `neHead..` is a chain of the entries beyond the applied index up to the log end; every
  `matchIndex ≤ lastLogIndex`; the transfer target is not the leader; the leader's own entry does not ask for
  promotion; a leader with a committed configuration is a voter of it; the configuration is not empty).
* `ReqOk' T s op`: the decidable condition on the operation (see its doc comment in Lemmas/NoPanic.lean).
* `step_never_fails`, `good_step` (`T` arbitrary): from a good, open state and an acceptable operation, for every
  oracle (`rollAt`, `orders`: no well-formedness is needed — `replOrder` repairs any oracle) and input, the step
  does not fail — except that the MODEL's recursion budget (`fuelFor`) may run out (`panicked = some "fuel"`; the
  Go code has no budget: this is not a failure of the implementation) — and unless that happened the new state
  is good.
* `good_step_two` (`T = true`): with two anchors the budget provably suffices: NO caveat.
* `good_run`, `good_run_two`, `shutdown_good`, `restart_good`.
* necessity examples for the clauses of `ReqOk'` and `Good`; `checkConfigActions_unreachable` (a genuine defect:
  an undefined `Action` value on the leader's own entry reaches `panic(unreachable())`); `exFuel`: the model's
  budget can run out in a single-voter cluster.
-/
import RaftVerif.Lemmas.NoPanic

namespace Raft
namespace C15NoPanic
open Node NoPanic

/-! ### one step -/

variable {T : Bool}

/-- **No operation makes a good node fail.** From a good, open (`closed = ""`: the state loop is running) state,
for an operation acceptable in the sense of `ReqOk'`, for every oracle and input: after the step either the
model's recursion budget has run out (`some "fuel"`, a model artefact), or nothing has failed. No `assert`, nil
dereference, `bug{}`, `unreachable()`, log-view or FSM failure is possible — on the follower paths (append,
install, votes, snapshots, compaction) as on the leader paths (new entries, commit, membership changes,
transfers). (`T = false`: one anchor voter per configuration; `T = true`: two, see `good_step_two`.) -/
theorem step_never_fails (s : Node) (op : Op) (rollAt : List Nat) (orders : List (List Nat)) (hG : Good T s)
    (ho : s.closed = "") (hr : ReqOk' T s op) :
    (s.step op rollAt orders).panicked = none ∨ (s.step op rollAt orders).panicked = some "fuel" :=
  (step_goodF (F := True) (Or.inl trivial) op rollAt orders hG ho hr).pf.imp id (fun h => h.2)

/-- **`Good` is inductive**: … and unless the model's budget ran out, the state after the step is good again. -/
theorem good_step (s : Node) (op : Op) (rollAt : List Nat) (orders : List (List Nat)) (hG : Good T s)
    (ho : s.closed = "") (hr : ReqOk' T s op) (hf : (s.step op rollAt orders).panicked ≠ some "fuel") :
    Good T (s.step op rollAt orders) := by
  have h := step_goodF (F := True) (Or.inl trivial) op rollAt orders hG ho hr
  rcases h.pf with e | e
  · exact h.good e
  · exact absurd e.2 hf

/-- in particular: no failure at all -/
theorem good_step_noPanic (s : Node) (op : Op) (rollAt : List Nat) (orders : List (List Nat)) (hG : Good T s)
    (ho : s.closed = "") (hr : ReqOk' T s op) (hf : (s.step op rollAt orders).panicked ≠ some "fuel") :
    (s.step op rollAt orders).panicked = none :=
  (good_step s op rollAt orders hG ho hr hf).noPanic

/-- **The model's budget suffices when configurations have two anchors** (two voters without pending action,
`Good true` / `ReqOk' true`: every cluster that keeps two stable voters). Then there are always at least two
voters, the leader never commits alone (no single-voter fast path), a membership change is never committed inside
the call that stored it, so changes do not nest: `leader.onMajorityCommit` needs 10 units of the budget,
`storeEntry` `4 + |batch|`, and `fuelFor k = 64 + 4k` are supplied. Hence, with NO caveat: the step does not fail
and the new state is good. -/
theorem good_step_two (s : Node) (op : Op) (rollAt : List Nat) (orders : List (List Nat)) (hG : Good true s)
    (ho : s.closed = "") (hr : ReqOk' true s op) :
    (s.step op rollAt orders).panicked = none ∧ Good true (s.step op rollAt orders) := by
  have h := step_goodF (F := False) (Or.inr rfl) op rollAt orders hG ho hr
  have hp : (s.step op rollAt orders).panicked = none := h.pf.elim id (fun e => e.1.elim)
  exact ⟨hp, h.good hp⟩

/-- `Shutdown` from a good state: no failure (up to the model's budget), the node is closed, and the state is
still ordered with `Glob` (the leader part is given up on purpose: `leader.release` drops the replications). -/
theorem shutdown_good (s : Node) (rollAt : List Nat) (orders : List (List Nat)) (hG : Good T s) :
    (s.step .shutdown rollAt orders).panicked = none ∧
    (s.step .shutdown rollAt orders).closed ≠ "" ∧ Good T (s.step .shutdown rollAt orders) := by
  have hsh : I False T false false (fun r => r = s.role) s ((s.begin rollAt orders).shutdown) :=
    i_shutdown (i_begin rollAt orders hG)
  have e : s.step .shutdown rollAt orders = (s.begin rollAt orders).shutdown := rfl
  have hcl := C06Cache.shutdown_closes s rollAt orders
  have hp : (s.step .shutdown rollAt orders).panicked = none := by
    rw [e]; exact hsh.pf.elim id (fun x => x.1.elim)
  refine ⟨hp, hcl, hp, ?_, ?_, fun hc => absurd hc hcl⟩
  · rw [e] at hp ⊢
    obtain ⟨c, hcl'⟩ := hsh.core hp
    exact ⟨c, hcl'⟩
  · rw [e] at hp ⊢
    exact hsh.glob hp

/-! ### any sequence of operations -/

/-- every operation of the run is handled by an open node, is acceptable in the state it is handled in, and does
not exhaust the model's recursion budget -/
def RunOk (T : Bool) : Node → List (Op × List Nat × List (List Nat)) → Prop
  | _, [] => True
  | s, o :: os =>
    s.closed = "" ∧ ReqOk' T s o.1 ∧ (s.step o.1 o.2.1 o.2.2).panicked ≠ some "fuel" ∧ RunOk T (s.step o.1 o.2.1 o.2.2) os

/-- … with two anchors: no budget condition -/
def RunOkTwo : Node → List (Op × List Nat × List (List Nat)) → Prop
  | _, [] => True
  | s, o :: os => s.closed = "" ∧ ReqOk' true s o.1 ∧ RunOkTwo (s.step o.1 o.2.1 o.2.2) os

/-- **over any sequence of events** (messages, tasks, timeouts, snapshots, compactions, transfers, membership
changes, in any order, with any oracles) a good node never fails and stays good. -/
theorem good_run (s : Node) (ops : List (Op × List Nat × List (List Nat))) (hG : Good T s) (hr : RunOk T s ops) :
    Good T (C19Order.run s ops) ∧ (C19Order.run s ops).panicked = none := by
  induction ops generalizing s with
  | nil => exact ⟨hG, hG.noPanic⟩
  | cons o os ih =>
    obtain ⟨h1, h2, h3, h4⟩ := hr
    exact ih _ (good_step s o.1 o.2.1 o.2.2 hG h1 h2 h3) h4

/-- every intermediate state of such a run is free of failures -/
theorem good_run_prefix (s : Node) (ops : List (Op × List Nat × List (List Nat))) (hG : Good T s) (hr : RunOk T s ops)
    (k : Nat) : (C19Order.run s (ops.take k)).panicked = none := by
  induction ops generalizing s k with
  | nil => simp [C19Order.run]; exact hG.noPanic
  | cons o os ih =>
    cases k with
    | zero => exact hG.noPanic
    | succ k =>
      obtain ⟨h1, h2, h3, h4⟩ := hr
      exact ih _ (good_step s o.1 o.2.1 o.2.2 hG h1 h2 h3) h4 k

/-- **… with two anchors, without any condition on the model's budget** -/
theorem good_run_two (s : Node) (ops : List (Op × List Nat × List (List Nat))) (hG : Good true s) (hr : RunOkTwo s ops) :
    Good true (C19Order.run s ops) ∧ (C19Order.run s ops).panicked = none := by
  induction ops generalizing s with
  | nil => exact ⟨hG, hG.noPanic⟩
  | cons o os ih =>
    obtain ⟨h1, h2, h3⟩ := hr
    exact ih _ (good_step_two s o.1 o.2.1 o.2.2 hG h1 h2).2 h3

/-! ### restart -/

/-- Disk well-formedness from which a restart yields a good state: `C19Order.DiskOK`; at least one snapshot is
retained; the snapshot listing's head is its newest file; every configuration entry of the log decodes to a
configuration the node can hold, and so is the newest snapshot's label. -/
structure DiskOK' (T : Bool) (d : Durable) (retain : Nat) : Prop where
  ord : C19Order.DiskOK d
  retain : 1 ≤ retain
  snaps : ∀ g ∈ d.snaps, g.index ≤ (C10.snapOf d).index
  entries : EntriesDec T d.nid d.log.entries
  label : CfgOk T d.nid (C10.snapOf d).config

theorem logOf_entries (d : Durable) : ∀ e ∈ (C10.logOf d).entries, e ∈ d.log.entries := by
  rcases C10.logOf_cases d with ⟨_, e⟩ | ⟨_, e⟩ <;> rw [e]
  · intro x hx; cases hx
  · exact fun x hx => hx

theorem window_sub (log : NLog) (sn i : Nat) : ∀ e ∈ C10.window log sn i, e ∈ log.entries := by
  intro e he
  unfold C10.window at he
  exact List.mem_of_mem_take (List.mem_of_mem_drop (List.mem_reverse.mp he))

theorem config?_nodes {e : Entry} {c c' : Config} (hc : e.cfg = some c) (h : e.config? = some c') : c'.nodes = c.nodes := by
  unfold Entry.config? at h
  split at h
  · rw [hc] at h
    injection h with h
    rw [← h]
  · cases h

/-- **a restart yields a good state** from every disk satisfying `DiskOK'` -/
theorem restart_good (d : Durable) (r : Nat) (sor : Bool) (n : Node) (hd : DiskOK' T d r)
    (h : restart d r sor = some n) : Good T n := by
  obtain ⟨_, hpan, hsnap, hlog, hlast, hcfg, hdisk⟩ := C10.restart_fsm d r sor n h
  obtain ⟨_, _, _, hn⟩ := C10.restart_some d r sor n h
  obtain ⟨_, _, e3, _, _, _, _, _, _, _, _, e12⟩ := C10.restartNode_fields d r sor
  have hrest : n.role = .follower ∧ n.retain = r ∧ n.nid = d.nid := by
    rw [hn]
    split
    · rw [fsmRestore_eq]; exact ⟨rfl, rfl, rfl⟩
    · exact ⟨rfl, rfl, rfl⟩
  have hdecE : ∀ e ∈ (C10.logOf d).entries, e.typ = etConfig → ∃ c, e.cfg = some c ∧ CfgOk T d.nid c :=
    fun e he ht => (hd.entries e (logOf_entries d e he) ht).get
  have hok : C10.NoDecodeErr (C10.window (C10.logOf d) (C10.snapOf d).index (C10.logOf d).last) := by
    intro e he ht
    obtain ⟨c, hc, _⟩ := hdecE e (window_sub _ _ _ e he) ht
    unfold Entry.config?
    rw [if_pos ht, hc]; rfl
  obtain ⟨_, hl, hc⟩ := C10.restart_configs d r sor hd.ord.durWF hok
  -- every configuration found above the snapshot is `CfgOk`
  have habove : ∀ c ∈ C10.configsAbove d, CfgOk T d.nid c := by
    intro c hc
    unfold C10.configsAbove at hc
    obtain ⟨e, he, hec⟩ := List.mem_filterMap.mp hc
    have hmem := window_sub _ _ _ e he
    have ht : e.typ = etConfig := by
      unfold Entry.config? at hec
      split at hec
      · assumption
      · cases hec
    obtain ⟨c0, hc0, hok0⟩ := hdecE e hmem ht
    exact hok0.congr (config?_nodes hc0 hec)
  have hget : ∀ k : Nat, CfgOk T d.nid (((C10.configsAbove d)[k]?).getD (C10.snapOf d).config) := by
    intro k
    cases hk : (C10.configsAbove d)[k]? with
    | none => exact hd.label
    | some c => exact habove c (List.mem_of_getElem? hk)
  refine ⟨hpan, C19Order.restart_ordered d r sor n hd.ord h, ⟨?_, ?_, ?_, ?_, ?_, ?_⟩, ?_⟩
  · rw [hlog, e3]
    intro e he ht
    obtain ⟨c, hc, _⟩ := hdecE e he ht
    rw [hc]; rfl
  · rw [hrest.2.1]; exact hd.retain
  · rw [hdisk, hsnap]; exact hd.snaps
  · intro hc; rw [hrest.1] at hc; cases hc
  · rw [hrest.2.2, hcfg, hl]; exact hget 0
  · rw [hrest.2.2, hcfg, hc]; exact hget 1
  · intro _ hl; rw [hrest.1] at hl; cases hl

/-! ### examples: the hypotheses are satisfiable -/

/-- EXAMPLE state: the leader of `C06Cache.exLeader` (node 1 leads {1 voter, 2 voter, 3 non-voter being promoted},
entries 1..3, commit index 2, one queued update) -/
def exL : Node := C06Cache.exLeader

/-- EXAMPLE state: the follower of `C19Order.exNode` (entries 2..4 above a snapshot at 1, commit index 3) -/
def exF : Node := C19Order.exNode

theorem exL_good : Good true exL :=
  ⟨rfl,
   ⟨⟨by decide, by decide, by decide, by decide, by decide, by decide, ⟨by decide, by decide, by decide⟩, by decide,
     fun rs h => by cases h⟩, by decide⟩,
   ⟨by decide, by decide, by decide, by decide, by decide, by decide⟩,
   fun _ _ => ⟨⟨by decide, ⟨3, by decide, ⟨rfl, rfl⟩⟩, by decide, by decide, by decide, by decide, by decide, by decide,
     by decide⟩, (C06Cache.cacheOK_iff _).mp C06Cache.exLeader_ok⟩⟩

theorem exF_good : Good true exF :=
  ⟨rfl, C19Order.exNode_ordered, ⟨by decide, by decide, by decide, by decide, by decide, by decide⟩,
   fun _ h => by cases h⟩

/-- EXAMPLE (non-vacuity of `good_step_two`, leader side): the hypotheses hold for `exL` (two anchors: the voters
1 and 2) and a batch of one update; hence the step completes and the new state is good -/
example :
    Good true exL ∧ exL.closed = "" ∧ ReqOk' true exL (.newEntries [{ typ := etUpdate, data := "y", task := 3 }]) ∧
    (exL.step (.newEntries [{ typ := etUpdate, data := "y", task := 3 }]) [] []).panicked = none ∧
    Good true (exL.step (.newEntries [{ typ := etUpdate, data := "y", task := 3 }]) [] []) :=
  ⟨exL_good, rfl, by decide, (good_step_two _ _ _ _ exL_good rfl (by decide)).1,
    (good_step_two _ _ _ _ exL_good rfl (by decide)).2⟩

/-- EXAMPLE (`good_step`, one anchor): the same through the general theorem; here the hypothesis on the model's
budget is discharged by evaluation -/
example : Good false (exL.step (.newEntries [{ typ := etUpdate, data := "y", task := 3 }]) [] []) := by
  have hp : (exL.step (.newEntries [{ typ := etUpdate, data := "y", task := 3 }]) [] []).panicked = none := by
    decide +kernel
  exact good_step _ _ _ _ exL_good.weaken rfl (by decide) (by rw [hp]; exact fun h => by cases h)

/-- EXAMPLE (a membership change): the client asks to demote node 2 (`C06Cache.exDemote`); `ReqOk' false` holds
(`ReqOk' true` does not: the new configuration keeps one voter without pending action only) -/
example : ReqOk' false exL (.changeConfig 1 C06Cache.exDemote) ∧ ¬ ReqOk' true exL (.changeConfig 1 C06Cache.exDemote) := by
  refine ⟨by decide, by decide⟩

-- … the step completes: a configuration entry is stored (index 4), node 2 is a non-voter in it, the caches are
-- refreshed. (`Config.validate` parses addresses: the kernel cannot evaluate the string functions, `#guard` runs
-- the compiled model.)
#guard (exL.step (.changeConfig 1 C06Cache.exDemote) [] []).panicked = none
#guard (exL.step (.changeConfig 1 C06Cache.exDemote) [] []).lastLogIndex = 4
#guard (exL.step (.changeConfig 1 C06Cache.exDemote) [] []).configs.latest.isVoter 2 = false
#guard (exL.step (.changeConfig 1 C06Cache.exDemote) [] []).ldr.numVoters = 1

/-- EXAMPLE (follower side, and `good_run_two`): `C19Order.exAppend`, then a user snapshot (request, the snapshot
goroutine, its completion) -/
example :
    let ops : List (Op × List Nat × List (List Nat)) :=
      [(.append C19Order.exAppend, [], []), (.takeSnapshot 1 0, [], []), (.snapRun, [], []), (.snapTaken, [], [])]
    RunOkTwo exF ops ∧ Good true (C19Order.run exF ops) := by
  have h : RunOkTwo exF [(.append C19Order.exAppend, [], []), (.takeSnapshot 1 0, [], []), (.snapRun, [], []), (.snapTaken, [], [])] :=
    ⟨by decide, by decide, ⟨by decide, trivial, ⟨by decide, trivial, ⟨by decide, trivial, trivial⟩⟩⟩⟩
  exact ⟨h, (good_run_two exF _ exF_good h).1⟩

/-- EXAMPLE disk: snapshot at 2 labelled {1 voter}, entries 3 (no-op) and 4 (the configuration {1 voter, 2 voter}) -/
def exDiskG : Durable :=
  { cid := 1, nid := 1,
    log := { prev := 2,
             entries := [{ index := 3, typ := etNop },
                         { index := 4, typ := etConfig,
                           cfg := some { nodes := [{ id := 1, voter := true }, { id := 2, voter := true }] } }],
             flushed := 4, segs := [2] },
    snaps := [{ index := 2, term := 1, config := { nodes := [{ id := 1, voter := true }], index := 1 } }] }

/-- EXAMPLE (`restart_good`): `exDiskG` satisfies `DiskOK' false`, the restart succeeds, the node is good -/
example : DiskOK' false exDiskG 1 ∧ (restart exDiskG 1 true).isSome = true ∧
    ∀ n, restart exDiskG 1 true = some n → Good false n := by
  have hd : DiskOK' false exDiskG 1 := by
    refine ⟨⟨by unfold C10.DurWF; decide, ⟨by decide, by decide, by decide⟩, ?_, by decide⟩, by decide, by decide,
      by decide, by decide⟩
    intro i e h
    have hi : i = 3 ∨ i = 4 := by
      unfold NLog.get? at h
      split at h
      · rename_i hlt
        have hlen := (List.getElem?_eq_some_iff.mp h).1
        have h2 : exDiskG.log.prev = 2 := rfl
        have h3 : exDiskG.log.entries.length = 2 := rfl
        omega
      · cases h
    rcases hi with rfl | rfl
    · have : exDiskG.log.get? 3 = some { index := 3, typ := etNop } := by decide
      rw [this] at h; injection h with h; rw [← h]
    · have : (exDiskG.log.get? 4).map (·.index) = some 4 := by decide
      rw [h] at this; simpa using this
  exact ⟨hd, by decide, fun n h => restart_good _ _ _ n hd h⟩

/-! ### necessity of the clauses of `ReqOk'`

Each example: a GOOD state (`exL_good` / `exF_good`), an operation violating exactly one clause, and the failure
site the step ends in. -/

/-- NECESSITY (`append`: configuration entries decode): a configuration entry without decodable payload makes
`Config.decode` fail; the handler answers `unexpectedErr`, `replyRPC` panics. NOT reachable in a correct cluster
(a leader stores what `Config.encode` produced). -/
example :
    let q : AppendReq := { term := 1, src := 2, prevLogIndex := 4, prevLogTerm := 1,
                           entries := [{ index := 5, term := 1, typ := etConfig }] }
    Order.AppendOk exF q ∧ ¬ ReqOk' false exF (.append q) ∧
    (exF.step (.append q) [] []).panicked = some "error.unexpectedErr" := by
  refine ⟨by decide, by decide, by decide⟩

/-- the leader's own entry with the undefined action 9 -/
def badConf : Config :=
  { exL.configs.latest with nodes := exL.configs.latest.nodes.map (fun n => if n.id = 1 then { n with action := 9 } else n) }

/-- once a failure site is recorded it stays the recorded one -/
theorem siteClosed (site : String) : Closed (fun x : Node => x.panicked = some site) where
  panic := fun x st hx => by rw [panic_of_some st (by rw [hx]; exact fun e => by cases e)]; exact hx
  reply := fun x t r hx => by rw [(reply_fields x t r).2.2.2.2.2.1]; exact hx
  point := fun _ _ hx => hx
  ldr := fun _ _ hx => hx
  append := fun _ _ _ hx => hx
  commitN := fun _ _ hx => hx
  fsm := fun _ _ hx => hx
  changeConfigR := fun x c hx => by rw [(changeConfigR_fields x c).2.2.2.2.2.1]; exact hx
  setCommitIndexR := fun x i hx _ => by
    show (x.setCommitIndexR i).1.panicked = _
    rw [Order.setCommitIndexR_panicked]; exact hx
  popOrder := fun _ hx => hx

/-- **`unreachable()` is reachable**: whenever a leader that can change the configuration (`canChangeConfig`:
configuration committed, no transfer, commit-ready) runs `checkConfigActions` on a configuration in which ITS OWN
entry carries an action other than None/Demote/Remove/ForceRemove — `Promote`, or one of the 251 undefined values
of the `uint8` — it executes `panic(unreachable())`. -/
theorem checkConfigActions_unreachable (f : Nat) (s : Node) (t : Nat) (c : Config) (hp : s.panicked = none)
    (hcan : s.canChangeConfig = true)
    (hact : (c.get s.nid).action ≠ actNone ∧ (c.get s.nid).action ≠ actDemote ∧ (c.get s.nid).action ≠ actRemove ∧
      (c.get s.nid).action ≠ actForceRemove) :
    (checkConfigActions (f + 1) s t c).panicked = some "unreachable" := by
  unfold checkConfigActions
  dsimp only
  rw [if_pos ⟨hcan, hact.1⟩, if_neg hact.2.1, if_neg (by intro h; rcases h with h | h; exact hact.2.2.1 h; exact hact.2.2.2 h)]
  dsimp only
  apply Closed.foldl_inv (Inv := fun x : Node => x.panicked = some "unreachable")
  · intro x id hx
    split
    · exact (siteClosed "unreachable").checkConfigAction_inv' f x t c id hx
    · exact hx
  · exact panic_of_none _ hp

/-- NECESSITY (`changeConfig`: own action one of the five defined ones) — **WAS REACHABLE: defect F16, repaired**.
On the original tree `Node.validate` checked `Promote ∧ voter` and `Demote ∧ ¬voter` only, not the range of
`Action` (a `uint8`): a `ChangeConfig` whose entry for the LEADER carries `Action(9)` (settable through
`Config.SetAction`) passed every check of `leader.onChangeConfig` and reached the `default: panic(unreachable())`
of `leader.checkConfigActions` (`checkConfigActions_unreachable`): the leader process died by a client request —
replayed on the real code, repaired in /repo (`fix: Node.validate rejects an action outside the defined range`)
and in the model (`nodeValid` requires `action ≤ actForceRemove`). The request is now answered with an error and
nothing else happens; a configuration of that kind can no longer be stored, which is what `Glob.cfgL`/`cfgC`
(`SelfAct`) assume for the configurations a node holds. -/
example : ¬ ReqOk' false exL (.changeConfig 1 badConf) ∧ exL.canChangeConfig = true ∧ (badConf.get exL.nid).action = 9 := by
  refine ⟨by decide, by decide, by decide⟩

#guard configValid badConf = false
#guard (exL.step (.changeConfig 1 badConf) [] []).panicked = none
#guard ((exL.step (.changeConfig 1 badConf) [] []).replies.map (·.result)) = ["error"]
#guard (exL.step (.changeConfig 1 badConf) [] []).log.entries = exL.log.entries

/-- NECESSITY (`newEntries`: a configuration item carries a configuration): NOT reachable, the client API has no
such task (`leader.doChangeConfig` is the only producer). -/
example :
    ¬ ReqOk' false exL (.newEntries [{ typ := etConfig }]) ∧
    (exL.step (.newEntries [{ typ := etConfig }]) [] []).panicked = some "bug.configDecode" := by
  refine ⟨by decide, by decide +kernel⟩

/-- NECESSITY (`changeConfig` on a node that is not bootstrapped: term at most 1): `storage.bootstrap` asserts
`setTerm(1)`. In Go the panic is recovered INSIDE `storage.bootstrap` and returned as an error — after the
configuration entry has been appended and flushed. LOOKS REACHABLE by operator error only: a fresh node that a
leader of term 5 has contacted (it adopted the term) is told to bootstrap. -/
example :
    let s : Node := { nid := 1, cid := 7, term := 5, durTerm := 5 }
    let c : Config := { nodes := [{ id := 1, addr := "a:1", voter := true }] }
    ¬ ReqOk' false s (.changeConfig 1 c) := by
  decide

#guard (({ nid := 1, cid := 7, term := 5, durTerm := 5 } : Node).step
  (.changeConfig 1 { nodes := [{ id := 1, addr := "a:1", voter := true }] }) [] []).panicked = some "assert.setTerm"

/-- NECESSITY (… and an empty log): `storage.appendEntry` asserts `index = lastLogIndex + 1`. -/
example :
    let s : Node := { nid := 1, cid := 7, log := { entries := [{ index := 1, term := 1, typ := etNop }] },
                      lastLogIndex := 1, lastLogTerm := 1 }
    let c : Config := { nodes := [{ id := 1, addr := "a:1", voter := true }] }
    ¬ ReqOk' false s (.changeConfig 1 c) := by
  decide

/-- a node that is not bootstrapped but holds a log entry -/
def exUnboot : Node :=
  { nid := 1, cid := 7, log := { entries := [{ index := 1, term := 1, typ := etNop }] }, lastLogIndex := 1, lastLogTerm := 1 }

#guard (exUnboot.step (.changeConfig 1 { nodes := [{ id := 1, addr := "a:1", voter := true }] }) [] []).panicked =
  some "assert.appendEntry"

/-- NECESSITY (`replUpdates`: a newer term is not below the leader's): `storage.setTerm` asserts. NOT reachable:
a replication reports a term only when it is higher than the one it was started with. -/
example :
    ¬ ReqOk' false exL (.replUpdates [{ id := 2, upd := .newTerm 0 }]) ∧
    (exL.step (.replUpdates [{ id := 2, upd := .newTerm 0 }]) [] []).panicked = some "assert.setTerm" := by
  refine ⟨by decide, by decide⟩

/-- NECESSITY (`replUpdates`: match indexes within the leader's log): a quorum beyond the log makes `ViewAt` fail
(`C19Order.commit_beyond_log_panics`). NOT reachable: a follower acknowledges what it was sent. -/
example :
    let us : List ReplUpdate := [{ id := 2, upd := .matchIndex 9 }]
    let s : Node := exL.withLdr { exL.ldr with repls := [{ id := 2, node := { id := 2, addr := "b:1", voter := true }, matchIndex := 2 },
                                                         { id := 3, node := { id := 3, addr := "c:1", voter := false, action := actPromote }, matchIndex := 9 }] }
    ¬ ReqOk' false exL (.replUpdates us) ∧ ¬ (∀ r ∈ s.ldr.repls, r.matchIndex ≤ s.lastLogIndex) := by
  refine ⟨by decide, by decide⟩

/-- NECESSITY (`timeoutNowResult`: an error is reported for a node that has a replication): NOT reachable, the
request went to a replication's node and membership does not change during a transfer. -/
example :
    let s : Node := exL.withLdr { exL.ldr with transfer := { active := true, respPending := true } }
    ¬ ReqOk' false s (.timeoutNowResult 7 true 0) ∧
    (s.step (.timeoutNowResult 7 true 0) [] []).panicked = some "nil.onTimeoutNowResult" := by
  refine ⟨by decide, by decide⟩

/-- NECESSITY (`closed = ""`): after `Shutdown` the state loop has returned; `leader.release` has dropped the
replications while the role variable still says "leader". The model can be stepped further, the Go code
cannot: an election timeout of that closed "leader" dereferences a replication that is gone. -/
example : (exL.step .shutdown [] []).closed ≠ "" := C06Cache.shutdown_closes _ _ _

#guard ((exL.step .shutdown [] []).step .timeout [] []).panicked = some "nil.checkQuorum"

/-! ### necessity of the clauses of `Good` (beyond `Ordered` and the caches) -/

/-- a single-voter cluster whose configuration has NO anchor: the leader and the only other member, a non-voter,
are both marked for removal -/
def exNoAnchor : Node :=
  let n1 : CNode := { id := 1, addr := "a:1", voter := true, action := actRemove }
  let n2 : CNode := { id := 2, addr := "b:1", voter := false, action := actRemove }
  let c : Config := { nodes := [n1, n2], index := 1, term := 1 }
  { nid := 1, cid := 7, term := 1, durTerm := 1, role := .leader, leader := 1,
    log := { entries := [c.toEntry, { index := 2, term := 1, typ := etNop }], flushed := 2 },
    lastLogIndex := 2, lastLogTerm := 1, commitIndex := 2, fsm := { index := 2, term := 1, config := c },
    configs := { committed := c, latest := c },
    ldr := { node := n1, numVoters := 1, startIndex := 2, repls := [{ id := 2, node := n2, matchIndex := 0 }] } }

/-- NECESSITY (`CfgOk`: a configuration has an anchor, i.e. a voter without pending action): the non-voter
catches up; it is removed, the new configuration commits at once (single voter), the leader removes ITSELF, the
configuration is empty, and `majorityMatchIndex` indexes an empty slice. NOT reachable in a correct cluster:
`leader.onChangeConfig` demands a voter without action, and the leader's own machinery never touches one. -/
example :
    ¬ Anchored exNoAnchor.configs.latest ∧ SelfAct exNoAnchor.configs.latest 1 ∧
    ReqOk' false exNoAnchor (.replUpdates [{ id := 2, upd := .matchIndex 2 }]) ∧
    (exNoAnchor.step (.replUpdates [{ id := 2, upd := .matchIndex 2 }]) [] []).panicked = some "nil.majorityMatchIndex" := by
  refine ⟨by decide, by decide, by decide, by decide +kernel⟩

/-- NECESSITY (`Glob.cand`: a candidate is a voter): `candidate.startElection` asserts it. -/
example :
    let s : Node := { exF with role := .candidate, nid := 5 }
    s.configs.latest.isVoter s.nid = false ∧ (s.step .timeout [] []).panicked = some "assert.startElection" := by
  refine ⟨by decide, by decide⟩

/-- NECESSITY (`Glob.retain`): with `retain = 0` the snapshot just installed is deleted at once and the restore
cannot open it. NOT reachable: `Options.validate` demands `SnapshotsRetain ≥ 1`. -/
example :
    let s : Node := { exF with retain := 0 }
    let q : InstallReq := { term := 1, src := 2, lastIndex := 9, lastTerm := 1, lastConfig := exF.configs.latest }
    ReqOk' false s (.install q) ∧ (s.step (.install q) [] []).panicked = some "fsm.restoreOpen" := by
  refine ⟨by decide, by decide⟩

/-- NECESSITY (`LdrR.prevLe`, the F6 class): a leader whose compaction bound lies below the start of the log
cannot build the view `ViewAt(removeLTE, lastLogIndex)` for its replications. `onSnapshotTaken` (after F6's
repair) and `checkLogCompact` keep `log.prev ≤ ldr.removeLTE`. -/
example :
    let s : Node := { exL with log := { exL.log with prev := 1, entries := exL.log.entries.drop 1, segs := [1] },
                               snapIndex := 1, snapsDisk := [{ index := 1 }] }
    ¬ (s.log.prev ≤ s.ldr.removeLTE) ∧
    (s.step (.newEntries [{ typ := etUpdate, data := "y", task := 3 }]) [] []).panicked = some "nilView" := by
  refine ⟨by decide, by decide +kernel⟩

/-- NECESSITY (`LdrR.target`): a transfer to the leader itself dereferences a replication that does not exist.
NOT reachable: `validateTransfer` refuses the leader's own id. -/
example :
    let s : Node := exL.withLdr { exL.ldr with transfer := { active := true, target := 1, newTermTimer := true } }
    (s.step .newTermTimeout [] []).panicked = some "nil.tryTransfer" := by
  decide

/-- NECESSITY (`LdrR.queue`): a queue whose head is not beyond the applied index fails the FSM's
`assert(index == lastApplied + 1)` as soon as it is handed over. -/
example :
    let s : Node := exL.withLdr { exL.ldr with queue := [{ index := 2, term := 1, typ := etUpdate, data := "x", task := 9 }] }
    ReqOk' false s (.replUpdates [{ id := 2, upd := .matchIndex 3 }]) ∧
    ¬ (∃ n, s.fsm.index < n ∧ QChain n s.ldr.queue (s.lastLogIndex + 1)) := by
  refine ⟨by decide, ?_⟩
  rintro ⟨n, h0, h1, _⟩
  have h1' : 2 = n := h1
  have h0' : 2 < n := h0
  omega

#guard ((exL.withLdr { exL.ldr with queue := [{ index := 2, term := 1, typ := etUpdate, data := "x", task := 9 }] }).step
  (.replUpdates [{ id := 2, upd := .matchIndex 3 }]) [] []).panicked = some "fsm.assertNext"

/-- NECESSITY (`Glob.logDec`): an undecodable configuration entry in the log fails in the FSM goroutine
(`Config.decode` in `onApply`) when it is applied. -/
example :
    let s : Node := { exF with log := { exF.log with entries := exF.log.entries.take 2 ++ [{ index := 4, term := 1, typ := etConfig }] } }
    let q : AppendReq := { term := 1, src := 2, prevLogIndex := 4, prevLogTerm := 1, ldrCommitIndex := 4, entries := [] }
    ReqOk' false s (.append q) ∧ (s.step (.append q) [] []).panicked = some "fsm.configDecode" := by
  refine ⟨by decide, by decide⟩

/-! ### the model's recursion budget -/

/-- a single-voter leader with `k` non-voters, all marked `ForceRemove` -/
def exFuel (k : Nat) : Node :=
  let others : List CNode := (List.range k).map (fun i => { id := i + 2, addr := "h:1", voter := false, action := actForceRemove })
  let c : Config := { nodes := { id := 1, addr := "a:1", voter := true } :: others, index := 1, term := 1 }
  { nid := 1, cid := 7, term := 1, durTerm := 1, role := .leader, leader := 1,
    log := { entries := [c.toEntry, { index := 2, term := 1, typ := etNop }], flushed := 2 },
    lastLogIndex := 2, lastLogTerm := 1, commitIndex := 2, fsm := { index := 2, term := 1, config := c },
    configs := { committed := c, latest := c },
    ldr := { node := { id := 1, addr := "a:1", voter := true }, numVoters := 1, startIndex := 2,
             repls := others.map (fun n => { id := n.id, node := n, matchIndex := 2 }) } }

/-- **the model's budget can run out** (`#eval` below: `[none, some "fuel"]` for `k = 10, 11`): a single-voter
leader removes one non-voter, the new configuration commits at once (fast path), which triggers the next removal
INSIDE `setCommitIndex`, … — every nested change costs 6 units of the budget `fuelFor 0 = 64`; ten nest, eleven
do not. The Go code has no budget (the recursion is as deep as there are pending changes): this is a limit of
the model, stated as the hypothesis `panicked ≠ some "fuel"` of `good_step`. It needs more than ten membership
changes that are executed AND committed within one iteration of the state loop, which only a single-voter
cluster can do. -/
example : ((exFuel 3).step (.replUpdates [{ id := 2, upd := .matchIndex 2 }]) [] []).panicked = none ∧
    ((exFuel 3).step (.replUpdates [{ id := 2, upd := .matchIndex 2 }]) [] []).configs.latest.nodes.length = 1 := by
  refine ⟨by decide +kernel, by decide +kernel⟩

#guard ((exFuel 10).step (.replUpdates [{ id := 2, upd := .matchIndex 2 }]) [] []).panicked = none
#guard ((exFuel 11).step (.replUpdates [{ id := 2, upd := .matchIndex 2 }]) [] []).panicked = some "fuel"

end C15NoPanic
end Raft

#print axioms Raft.C15NoPanic.step_never_fails
#print axioms Raft.C15NoPanic.good_step
#print axioms Raft.C15NoPanic.good_step_noPanic
#print axioms Raft.C15NoPanic.good_step_two
#print axioms Raft.C15NoPanic.shutdown_good
#print axioms Raft.C15NoPanic.good_run
#print axioms Raft.C15NoPanic.good_run_prefix
#print axioms Raft.C15NoPanic.good_run_two
#print axioms Raft.C15NoPanic.restart_good
#print axioms Raft.C15NoPanic.checkConfigActions_unreachable
#print axioms Raft.C15NoPanic.exL_good
#print axioms Raft.C15NoPanic.exF_good
#print axioms Raft.NoPanic.block
#print axioms Raft.NoPanic.fsmApply_chain
#print axioms Raft.NoPanic.handle_post
#print axioms Raft.NoPanic.settle_post
#print axioms Raft.NoPanic.step_goodF
