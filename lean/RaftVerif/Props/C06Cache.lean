/-
C06 / C11 / C17 — the leader's cached view of the configuration is current.

The Go leader caches `l.numVoters`, `l.node` (its own entry of the latest configuration) and keeps one
replication per other member, each with a copy `node` of that member's configuration entry. The commit
rule (`majorityMatchIndex`), the refusal of new entries by a demoted leader and the promotion trigger
read these caches; a stale cache is a safety bug (defect F2: `numVoters` refreshed from the OLD
configuration made a leader commit alone).

Proved here, for EVERY operation, every input and every oracle of `Node.step`:
* `step_leaderCache`: `LeaderCache` is an invariant of every step other than `shutdown`;
  `step_leaderCacheOpen`: for a node that is not closed it is an invariant of every step (shutdown
  closes the node and deliberately drops the replications);
* `run_leaderCacheOpen`: along any run from a state where it holds (e.g. any restarted node);
* corollaries connecting `C06.commit_index_has_majority` / `commit_index_fast_path` with the
  configuration itself: `commit_needs_majority_of_latest_voters`, `fast_path_only_voter`,
  `voter_has_replication`, `repl_voter_flag_current`, `nonvoter_ack_never_counts`, `majority_no_nil`.

Nothing is assumed about the requests. The corollaries that identify a replication's cached node with
THE member of that id need the member ids of `configs.latest` to be distinct (`IdsNodup`; a Go map has
distinct keys, the model's association list is not forced to by adversarial wire input).
-/
import RaftVerif.Lemmas.LeaderCache
import RaftVerif.Props.C06
import RaftVerif.Props.C17

namespace Raft
namespace C06Cache
open Node

/-- The leader's caches describe `configs.latest`:
* `numVoters` is its number of voters, `ldr.node` is self's entry (Go's zero node when self is not a member);
* the replications are sorted by id (a Go map: one per id);
* every replication belongs to another node, caches a node of the latest configuration and that
  node has the replication's id (so with distinct member ids: caches THE member, flag `voter` included);
* every other member has a replication. -/
structure CacheOK (s : Node) : Prop where
  numVoters : s.ldr.numVoters = s.configs.latest.numVoters
  node : s.ldr.node = s.configs.latest.get s.nid
  sorted : s.ldr.repls.Pairwise (fun a b => a.id < b.id)
  repl_member : ∀ r ∈ s.ldr.repls, r.id ≠ s.nid ∧ r.node ∈ s.configs.latest.nodes ∧ r.node.id = r.id
  member_repl : ∀ n ∈ s.configs.latest.nodes, n.id ≠ s.nid → ∃ r ∈ s.ldr.repls, r.id = n.id

/-- **the invariant**: whenever the node is leader its caches are current. -/
def LeaderCache (s : Node) : Prop := s.role = .leader → CacheOK s

/-- the invariant for nodes that have not been closed (`Shutdown`, or removed from the cluster) -/
def LeaderCacheOpen (s : Node) : Prop := s.closed = "" → LeaderCache s

/-- distinct member ids (Go: `Config.Nodes` is a map keyed by id) -/
def IdsNodup (c : Config) : Prop := (c.nodes.map (·.id)).Nodup

theorem cacheOK_iff (s : Node) : CacheOK s ↔ LC.Cache s := by
  rw [LC.cache_iff]
  constructor
  · intro h; exact ⟨h.numVoters, h.node, h.sorted, h.repl_member, h.member_repl⟩
  · rintro ⟨a, b, c, d, e⟩; exact ⟨a, b, c, d, e⟩

/-! ### the invariant -/

theorem role_rpcDone (s : Node) (a b : Bool) : (s.rpcDone a b).role = s.role := by
  unfold Node.rpcDone
  split
  · exact LC.role_panic _ _
  · rfl

/-- the handler of any operation other than `shutdown`, run by a leader with current caches, ends with
current caches or with a node that is no longer leader -/
theorem handle_leader (s : Node) (op : Op) (hop : op ≠ .shutdown) (hr : s.role = .leader) (hc : LC.Cache s) :
    (s.handle op).role = .leader → LC.Cache (s.handle op) := by
  cases op <;> unfold Node.handle <;> dsimp only
  case vote q => exact fun _ => LC.crpcDone _ _ (LC.conVoteRequest q hc)
  case append q =>
    by_cases hq : q.term < s.term
    · intro _
      apply LC.crpcDone
      unfold Node.onAppendEntries
      rw [if_pos hq]
      exact hc
    · intro hl
      rw [role_rpcDone] at hl
      exact absurd hl (LC.nl_onAppendEntries s q hq)
  case install q =>
    by_cases hq : q.term < s.term
    · intro _
      apply LC.crpcDone
      unfold Node.onInstallSnap
      rw [if_pos hq]
      exact hc
    · intro hl
      rw [role_rpcDone] at hl
      exact absurd hl (LC.nl_onInstallSnap s q hq)
  case timeoutNow => exact fun _ => LC.crpcDone _ _ (LC.conTimeoutNow hc)
  case identity a b c => exact fun _ => hc
  case disconnected n =>
    intro _; split
    · exact hc
    · exact hc
  case timeout =>
    intro _
    rw [hr]
    exact LC.ccheckQuorum hc
  case newEntries b => intro _; rw [if_pos hr]; exact LC.cstoreEntry _ _ hc
  case changeConfig t c => intro _; rw [if_pos hr]; exact LC.conChangeConfig _ _ hc
  case takeSnapshot t th => exact fun _ => LC.conTakeSnapshot _ _ hc
  case snapRun => exact fun _ => LC.csnapRun hc
  case snapTaken => exact fun _ => LC.conSnapshotTaken hc
  case waitStable t => intro _; rw [if_pos hr]; exact LC.conWaitForStable _ hc
  case transfer t g => intro _; rw [if_pos hr]; exact LC.conTransfer _ _ hc
  case voteResult e t r =>
    intro _
    rw [if_neg (by rw [hr]; exact fun x => by cases x)]
    exact hc
  case replUpdates us => intro _; rw [if_pos hr]; exact LC.ccheckReplUpdates _ hc
  case transferTimeout =>
    intro _; split
    · exact LC.creplyTransfer _ hc
    · exact hc
  case timeoutNowResult a b c =>
    intro _; split
    · exact LC.conTimeoutNowResult _ _ _ hc
    · exact hc
  case newTermTimeout =>
    intro _; split
    · exact LC.ctryTransfer (LC.cldr0 _ rfl rfl rfl hc)
    · exact hc
  case shutdown => exact absurd rfl hop

/-- **the leader's caches are current after every step** (any operation other than `shutdown`, any
input, any oracle): if `LeaderCache` holds before, it holds after. A node that BECOMES leader in the
step gets its caches from `leader.init`; a leader that changes the configuration (`leader.changeConfig`,
reached from `storeEntry`, `onChangeConfig`, promotions/demotions/removals in `checkConfigActions`)
refreshes them from the NEW configuration; a leader never reverts or replaces its configuration
otherwise (append/install requests make it follower first). -/
theorem step_leaderCache (s : Node) (op : Op) (ra : List Nat) (ord : List (List Nat)) (hop : op ≠ .shutdown)
    (h : LeaderCache s) : LeaderCache (s.step op ra ord) := by
  intro hl
  rw [cacheOK_iff]
  revert hl
  unfold Node.step
  dsimp only
  split
  · exact absurd rfl hop
  · apply LC.settle_cache
    · exact Nat.le_trans (LC.need_le _ _) (by decide)
    · intro hcur
      have hc : LC.Cache (s.begin ra ord) := (cacheOK_iff s).mp (h hcur)
      exact handle_leader (s.begin ra ord) op hop hcur hc

/-! ### closed nodes stay closed; the invariant for open nodes holds for every operation -/

theorem closed_panic (s : Node) (site : String) : (s.panic site).closed = s.closed := by
  unfold Node.panic; split <;> rfl
theorem closed_reply (s : Node) (t : Nat) (r : String) : (s.reply t r).closed = s.closed := by
  unfold Node.reply; split <;> rfl

theorem closed_doClose (s : Node) (r : String) (h : s.closed ≠ "") : (s.doClose r).closed ≠ "" := by
  unfold Node.doClose; split
  · exact h
  · rename_i hn
    exfalso; apply hn
    unfold Node.isClosed
    simpa using h

theorem closed_storeTermVote (s : Node) (t c : Nat) : (s.storeTermVote t c).closed = s.closed := by
  unfold Node.storeTermVote; dsimp only; split <;> rfl

/-- once closed, always closed -/
theorem closedStays : StepClosed (fun s : Node => s.closed ≠ "") where
  panic := fun s site h => by rw [closed_panic]; exact h
  reply := fun s t r h => by rw [closed_reply]; exact h
  point := fun s n h => h
  ldr := fun s l h => h
  append := fun s e r h => h
  commitN := fun s n h => h
  fsm := fun s f h => h
  changeConfigR := fun s c h => by
    unfold Node.changeConfigR; dsimp only; split <;> exact h
  setCommitIndexR := fun s i h _ => by
    unfold Node.setCommitIndexR
    split
    · show ((s.withCommitIndex i).commitConfig.stepDownIfNotVoter.closeIfRemoved).closed ≠ ""
      have h1 : (s.withCommitIndex i).commitConfig.closed ≠ "" := by
        unfold Node.commitConfig; dsimp only; split <;> exact h
      have h2 : (s.withCommitIndex i).commitConfig.stepDownIfNotVoter.closed ≠ "" := by
        unfold Node.stepDownIfNotVoter; split
        · exact h1
        · exact h1
      unfold Node.closeIfRemoved; split
      · exact closed_doClose _ _ h2
      · exact h2
    · exact h
  popOrder := fun s h => h
  begin := fun s ra ord h => h
  rpcReply := fun s r h => h
  ret := fun s r h => h
  setRole := fun s r h => h
  setLeader := fun s l h => h
  doClose := fun s r h => closed_doClose s r h
  setTerm := fun s t h => by
    unfold Node.setTerm
    split
    · split
      · rw [closed_storeTermVote]; exact h
      · rw [closed_panic]; exact h
    · exact h
  voteNewTerm := fun s t c h _ => by
    unfold Node.setVotedFor
    split
    · split
      · rw [closed_storeTermVote]; exact h
      · rw [closed_panic]; exact h
    · exact h
  voteGrant := fun s c h _ => by
    unfold Node.setVotedFor
    split
    · split
      · rw [closed_storeTermVote]; exact h
      · rw [closed_panic]; exact h
    · exact h
  votesNeeded := fun s v h => h
  candTransfer := fun s v h => h
  removeGTE := fun s i pt h => h
  removeLTE := fun s i h => h
  clearLog := fun s h => h
  revertConfig := fun s h => h
  commitConfig := fun s h => by unfold Node.commitConfig; dsimp only; split <;> exact h
  publishSnapshot := fun s f h => h
  installCommit := fun s h _ => h
  snapPending := fun s v h => h
  snapResult := fun s v h => h
  bootstrapLast := fun s i t h => h

/-- a closed node stays closed through every step -/
theorem step_closed (s : Node) (op : Op) (ra : List Nat) (ord : List (List Nat)) (h : s.closed ≠ "") :
    (s.step op ra ord).closed ≠ "" := closedStays.step_inv s op ra ord h

/-- `shutdown` closes the node -/
theorem shutdown_closes (s : Node) (ra : List Nat) (ord : List (List Nat)) :
    (s.step .shutdown ra ord).closed ≠ "" := by
  by_cases h : s.closed = ""
  · unfold Node.step
    dsimp only
    unfold Node.handle Node.shutdown
    dsimp only
    have h1 : ((s.begin ra ord).doClose "serverClosed").closed ≠ "" := by
      unfold Node.doClose Node.isClosed
      have : (s.begin ra ord).closed = "" := h
      rw [this, if_neg (by decide)]
      show "serverClosed" ≠ ""
      decide
    have hS : ∀ x : Node, x.closed ≠ "" → x.snapRun.closed ≠ "" := fun x hx => closedStays.snapRun_inv x hx
    have hT : ∀ x : Node, x.closed ≠ "" → x.onSnapshotTaken.closed ≠ "" := fun x hx => closedStays.onSnapshotTaken_inv x hx
    have h2 := closedStays.releaseRole_inv _ ((s.begin ra ord).doClose "serverClosed").role h1
    repeat' split
    all_goals first | exact h2 | exact hS _ h2 | exact hT _ h2 | exact hT _ (hS _ h2)
  · exact step_closed s .shutdown ra ord h

/-- **for a node that is not closed the invariant survives EVERY operation** (`shutdown` included: it
closes the node — `stateLoop` has returned, the replications are stopped and dropped on purpose). -/
theorem step_leaderCacheOpen (s : Node) (op : Op) (ra : List Nat) (ord : List (List Nat))
    (h : LeaderCacheOpen s) : LeaderCacheOpen (s.step op ra ord) := by
  intro hopen
  by_cases hc : s.closed = ""
  · by_cases hop : op = .shutdown
    · subst hop
      exact absurd hopen (shutdown_closes s ra ord)
    · exact step_leaderCache s op ra ord hop (h hc)
  · exact absurd hopen (step_closed s op ra ord hc)

/-- a node constructed by `restart` (or any non-leader) satisfies the invariant -/
theorem leaderCache_of_not_leader (s : Node) (h : s.role ≠ .leader) : LeaderCacheOpen s :=
  fun _ hl => absurd hl h

theorem restart_leaderCache (d : Durable) (retain : Nat) (sor : Bool) (n : Node)
    (h : Node.restart d retain sor = some n) : LeaderCacheOpen n := by
  apply leaderCache_of_not_leader
  unfold Node.restart at h
  split at h
  · cases h
  · split at h
    · cases h
    · injection h with h
      rw [← h]
      split
      · have : ∀ x : Node, x.fsmRestore.role = x.role := by
          intro x; unfold Node.fsmRestore
          split
          · exact LC.role_panic _ _
          · split
            · rfl
            · exact LC.role_panic _ _
        show (Node.fsmRestore _).role ≠ _
        rw [this]
        exact fun x => by cases x
      · exact fun x => by cases x

/-- **along any run** of operations with arbitrary inputs and oracles -/
theorem run_leaderCacheOpen (s : Node) (ops : List (Op × List Nat × List (List Nat))) (h : LeaderCacheOpen s) :
    LeaderCacheOpen (ops.foldl (fun s o => s.step o.1 o.2.1 o.2.2) s) := by
  induction ops generalizing s with
  | nil => exact h
  | cons o os ih => exact ih _ (step_leaderCacheOpen s o.1 o.2.1 o.2.2 h)

/-! ### what current caches mean for the commit rule (C06), non-voters (C11), availability (C17) -/

theorem find_of_nodup (nodes : List CNode) (hn : (nodes.map (·.id)).Nodup) (n : CNode) (h : n ∈ nodes) :
    nodes.find? (·.id == n.id) = some n := by
  induction nodes with
  | nil => cases h
  | cons m ms ih =>
    rw [List.map_cons, List.nodup_cons] at hn
    rcases List.mem_cons.mp h with e | h'
    · rw [e]; simp
    · have hne : m.id ≠ n.id := by
        intro e
        exact hn.1 (by rw [e]; exact List.mem_map_of_mem h')
      rw [List.find?_cons_of_neg (by simpa using hne)]
      exact ih hn.2 h'

/-- with distinct member ids, two members with the same id are the same member -/
theorem member_unique (c : Config) (hn : IdsNodup c) (a b : CNode) (ha : a ∈ c.nodes) (hb : b ∈ c.nodes)
    (e : a.id = b.id) : a = b := by
  have h1 := find_of_nodup c.nodes hn a ha
  have h2 := find_of_nodup c.nodes hn b hb
  rw [e, h2] at h1
  injection h1 with h1
  exact h1.symm

/-- **each replication caches THE member it replicates to** (distinct member ids) -/
theorem repl_node_is_member (s : Node) (hc : CacheOK s) (hn : IdsNodup s.configs.latest) :
    ∀ r ∈ s.ldr.repls, s.configs.latest.find? r.id = some r.node := by
  intro r hr
  obtain ⟨_, h2, h3⟩ := hc.repl_member r hr
  have := find_of_nodup _ hn r.node h2
  rw [h3] at this
  exact this

/-- **the voter flag a replication carries is the member's current one** -/
theorem repl_voter_flag_current (s : Node) (hc : CacheOK s) (hn : IdsNodup s.configs.latest) :
    ∀ r ∈ s.ldr.repls, r.node.voter = s.configs.latest.isVoter r.id := by
  intro r hr
  unfold Config.isVoter
  rw [repl_node_is_member s hc hn r hr]

/-- **every other member has its replication** (`l.repls[n.ID]` is never nil), with the member's id -/
theorem member_has_replication (s : Node) (hc : CacheOK s) (n : CNode) (hn : n ∈ s.configs.latest.nodes)
    (hne : n.id ≠ s.nid) : ∃ r, s.findRepl? n.id = some r ∧ r ∈ s.ldr.repls ∧ r.id = n.id := by
  obtain ⟨r0, hr0, e0⟩ := hc.member_repl n hn hne
  unfold Node.findRepl?
  cases hf : s.ldr.repls.find? (·.id == n.id) with
  | none =>
    have := List.find?_eq_none.mp hf r0 hr0
    simp [e0] at this
  | some r => exact ⟨r, rfl, (LC.find_mem hf).1, (LC.find_mem hf).2⟩

/-- … and (distinct member ids) that replication caches exactly this member, voter flag included -/
theorem voter_has_replication (s : Node) (hc : CacheOK s) (hnd : IdsNodup s.configs.latest) (n : CNode)
    (hn : n ∈ s.configs.latest.nodes) (hne : n.id ≠ s.nid) :
    ∃ r, s.findRepl? n.id = some r ∧ r.id = n.id ∧ r.node = n := by
  obtain ⟨r, h1, h2, h3⟩ := member_has_replication s hc n hn hne
  refine ⟨r, h1, h3, ?_⟩
  obtain ⟨_, h5, h6⟩ := hc.repl_member r h2
  exact member_unique _ hnd _ _ h5 hn (h6.trans h3)

/-- **acknowledgements of non-voters never count** (C11): a replication whose cached flag says
"non-voter" belongs to no voter of the latest configuration, so `voterMatches` never reads it; and a
replication of a non-voter carries the flag "non-voter". -/
theorem nonvoter_ack_never_counts (s : Node) (hc : CacheOK s) (hnd : IdsNodup s.configs.latest)
    (r : Repl) (hr : r ∈ s.ldr.repls) :
    (r.node.voter = false → ∀ n ∈ s.configs.latest.nodes.filter (·.voter), n.id ≠ r.id) ∧
    (s.configs.latest.isVoter r.id = false → r.node.voter = false) := by
  constructor
  · intro hv n hn e
    obtain ⟨hn1, hn2⟩ := List.mem_filter.mp hn
    obtain ⟨_, h5, h6⟩ := hc.repl_member r hr
    have := member_unique _ hnd n r.node hn1 h5 (e.trans h6.symm)
    rw [this, hv] at hn2
    cases hn2
  · intro h; rw [repl_voter_flag_current s hc hnd r hr]; exact h

/-- **no nil dereference in `majorityMatchIndex`**: with current caches and a non-empty configuration
the model's "no nil / index out of range" flag is set. -/
theorem majority_no_nil (s : Node) (hc : CacheOK s) (hne : s.configs.latest.nodes ≠ []) :
    s.majorityMatchIndex.2 = true := by
  unfold Node.majorityMatchIndex
  split
  · rfl
  · dsimp only
    have hm : (s.configs.latest.nodes.filter (·.voter)).any
        (fun n => n.id != s.nid && (s.findRepl? n.id).isNone) = false := by
      rw [List.any_eq_false]
      intro n hn
      by_cases e : n.id = s.nid
      · simp [e]
      · obtain ⟨r, h1, _⟩ := member_has_replication s hc n (List.mem_filter.mp hn).1 e
        simp [h1]
    rw [hm]
    have : s.configs.latest.nodes.length > 0 := List.length_pos_iff.mpr hne
    simp [this]

/-- self's entry, when self is a voter according to the cache, really is self's -/
theorem self_entry (s : Node) (hc : CacheOK s) (hv : s.ldr.node.voter = true) :
    ∃ x, s.configs.latest.find? s.nid = some x ∧ x ∈ s.configs.latest.nodes ∧ x.id = s.nid ∧ x.voter = true := by
  have h := hc.node
  unfold Config.get at h
  cases hx : s.configs.latest.find? s.nid with
  | none => rw [hx] at h; rw [h] at hv; cases hv
  | some x =>
    rw [hx] at h
    unfold Config.find? at hx
    refine ⟨x, rfl, List.mem_of_find?_eq_some hx, ?_, ?_⟩
    · have := List.find?_some hx
      simpa using this
    · rw [← hv, h]; rfl

/-- **the single-voter fast path is only taken when self is the only voter of the latest
configuration** (this is what defect F2 violated). -/
theorem fast_path_only_voter (s : Node) (hc : CacheOK s) (hfast : s.ldr.numVoters = 1 ∧ s.ldr.node.voter = true) :
    s.configs.latest.voters = [s.nid] := by
  obtain ⟨x, _, hx2, hx3, hx4⟩ := self_entry s hc hfast.2
  have hlen : (s.configs.latest.nodes.filter (·.voter)).length = 1 := by
    have := hc.numVoters; unfold Config.numVoters at this; rw [← this]; exact hfast.1
  obtain ⟨y, hy⟩ := List.length_eq_one_iff.mp hlen
  have hxm : x ∈ s.configs.latest.nodes.filter (·.voter) := List.mem_filter.mpr ⟨hx2, hx4⟩
  unfold Config.voters
  rw [hy] at hxm ⊢
  rw [List.mem_singleton] at hxm
  rw [← hxm, List.map_singleton, hx3]

/-- **the commit rule counts a majority of the voters of the configuration itself.** With current
caches, the index `N` that `majorityMatchIndex` selects — on the general path AND on the single-voter
fast path — is reached by the match indexes of more than half of the voters of `configs.latest`, where
`voterMatches` attributes to self (if voter) its last log index and to every other voter the match
index of its replication (which exists: `member_has_replication`); non-members and non-voters
contribute nothing. -/
theorem commit_needs_majority_of_latest_voters (s : Node) (hc : CacheOK s)
    (hv : s.configs.latest.numVoters ≠ 0) :
    2 * (s.voterMatches.countP (fun m => decide (m ≥ s.majorityMatchIndex.1))) > s.configs.latest.numVoters := by
  by_cases hfast : s.ldr.numVoters = 1 ∧ s.ldr.node.voter = true
  · obtain ⟨x, hx1, _, hx3, _⟩ := self_entry s hc hfast.2
    have hself : (s.configs.latest.get s.nid).id = s.nid := by
      unfold Config.get; rw [hx1]; exact hx3
    obtain ⟨e1, e2⟩ := C06.commit_index_fast_path s hfast hc.numVoters hc.node hself
    have hall : s.voterMatches.countP (fun m => decide (m ≥ s.majorityMatchIndex.1)) = s.voterMatches.length := by
      apply List.countP_eq_length.mpr
      intro m hm
      rw [e1, e2 m hm]
      simp
    rw [hall, C06.voterMatches_length]
    omega
  · exact C06.commit_index_has_majority s hfast hv

/-- the same, for a leader satisfying the invariant -/
theorem leader_commit_needs_majority (s : Node) (h : LeaderCache s) (hr : s.role = .leader)
    (hv : s.configs.latest.numVoters ≠ 0) :
    2 * (s.voterMatches.countP (fun m => decide (m ≥ s.majorityMatchIndex.1))) > s.configs.latest.numVoters :=
  commit_needs_majority_of_latest_voters s (h hr) hv

/-- **commit is not stuck behind stale caches** (C17): with current caches, whenever more than half of
the voters of the latest configuration have reached `N`, the selected index is at least `N` — on both paths. -/
theorem majority_of_latest_voters_commits (s : Node) (hc : CacheOK s) (N : Nat)
    (hmaj : 2 * (s.voterMatches.countP (fun m => decide (m ≥ N))) > s.configs.latest.numVoters) :
    s.majorityMatchIndex.1 ≥ N := by
  by_cases hfast : s.ldr.numVoters = 1 ∧ s.ldr.node.voter = true
  · obtain ⟨x, hx1, _, hx3, _⟩ := self_entry s hc hfast.2
    have hself : (s.configs.latest.get s.nid).id = s.nid := by
      unfold Config.get; rw [hx1]; exact hx3
    obtain ⟨e1, e2⟩ := C06.commit_index_fast_path s hfast hc.numVoters hc.node hself
    rw [e1]
    -- some voter reached N, and every voter's match index is the leader's last log index
    have hpos : 0 < s.voterMatches.countP (fun m => decide (m ≥ N)) := by omega
    obtain ⟨m, hm, hmN⟩ := List.countP_pos_iff.mp hpos
    rw [e2 m hm] at hmN
    simpa using hmN
  · exact C17.majority_commits s N hfast (by rw [C06.voterMatches_length]; exact hmaj)

/-! ### examples (hypotheses are satisfiable; the cache hypothesis is needed) -/

/-- EXAMPLE state: node 1 leads {1 voter, 2 voter, 3 non-voter being promoted} in term 1; its log holds
the configuration, its no-op and one update (uncommitted, waiting in the queue for task 9); node 2
acknowledged index 2, the non-voter 3 acknowledged 3. -/
def exLeader : Node :=
  let n1 : CNode := { id := 1, addr := "a:1", voter := true }
  let n2 : CNode := { id := 2, addr := "b:1", voter := true }
  let n3 : CNode := { id := 3, addr := "c:1", voter := false, action := actPromote }
  let c : Config := { nodes := [n1, n2, n3], index := 1, term := 1 }
  { nid := 1, cid := 7, term := 1, durTerm := 1, role := .leader, leader := 1,
    log := { entries := [c.toEntry, { index := 2, term := 1, typ := etNop },
                         { index := 3, term := 1, typ := etUpdate, data := "x" }], flushed := 3 },
    lastLogIndex := 3, lastLogTerm := 1, commitIndex := 2, fsm := { index := 2, term := 1, config := c },
    configs := { committed := c, latest := c },
    ldr := { node := n1, numVoters := 2, startIndex := 2,
             queue := [{ index := 3, term := 1, typ := etUpdate, data := "x", task := 9 }],
             repls := [{ id := 2, node := n2, matchIndex := 2 }, { id := 3, node := n3, matchIndex := 3 }] } }

theorem exLeader_ok : CacheOK exLeader := ⟨by decide, by decide, by decide, by decide, by decide⟩

/-- EXAMPLE: the hypotheses of the corollaries hold on `exLeader` (a leader, so `LeaderCache` is not vacuous) -/
example : exLeader.role = .leader ∧ LeaderCache exLeader ∧ LeaderCacheOpen exLeader ∧
    IdsNodup exLeader.configs.latest ∧ exLeader.configs.latest.numVoters ≠ 0 :=
  ⟨rfl, fun _ => exLeader_ok, fun _ _ => exLeader_ok, by unfold IdsNodup; decide, by decide⟩

/-- EXAMPLE: there the commit rule selects 2: the non-voter's 3 does not count, the leader's own 3 is not a majority -/
example : exLeader.voterMatches = [3, 2] ∧ exLeader.majorityMatchIndex = (2, true) := by
  have hv : exLeader.voterMatches = [3, 2] := by decide
  refine ⟨hv, ?_⟩
  unfold Node.majorityMatchIndex
  rw [if_neg (by decide)]
  simp only [hv]
  simp [List.mergeSort, geB]
  decide

/-- EXAMPLE (the hypothesis is needed; this is defect F2): the same state with a STALE `numVoters = 1`
takes the fast path and selects the leader's own last index 3, which only one of the two voters reached. -/
example :
    let s := exLeader.withLdr { exLeader.ldr with numVoters := 1 }
    s.majorityMatchIndex.1 = 3 ∧
    ¬ (2 * (s.voterMatches.countP (fun m => decide (m ≥ s.majorityMatchIndex.1))) > s.configs.latest.numVoters) := by
  decide +kernel

/-- EXAMPLE input: a client asks to demote node 2 -/
def exDemote : Config :=
  { exLeader.configs.latest with
    nodes := exLeader.configs.latest.nodes.map (fun n => if n.id = 2 then { n with action := actDemote } else n) }

/-- EXAMPLE: a step of `exLeader` that changes the configuration keeps the caches current (an instance
of `step_leaderCache`). `#eval` of this step: no panic, still leader, configuration 4 appended and
installed in which node 2 is a non-voter, replications `[(2, voter := false), (3, voter := false)]`,
`numVoters = 1` (the kernel cannot replay it by `decide`: `mergeSort` and the string functions are
defined by well-founded recursion). -/
example : LeaderCache (exLeader.step (.changeConfig 1 exDemote) [] []) :=
  step_leaderCache _ _ _ _ (fun h => by cases h) (fun _ => exLeader_ok)

/-- EXAMPLE (why `shutdown` is excluded from `step_leaderCache`): `Shutdown` runs `leader.release`, which
stops and drops the replications while the role variable stays "leader" and the configuration keeps its
three members; the node is closed, `stateLoop` has returned. -/
example :
    (exLeader.step .shutdown [] []).role = .leader ∧ (exLeader.step .shutdown [] []).ldr.repls = [] ∧
    (exLeader.step .shutdown [] []).configs.latest.nodes.length = 3 ∧
    (exLeader.step .shutdown [] []).closed = "serverClosed" ∧
    ¬ LeaderCache (exLeader.step .shutdown [] []) := by
  have h : (exLeader.step .shutdown [] []).role = .leader ∧ (exLeader.step .shutdown [] []).ldr.repls = [] ∧
      (exLeader.step .shutdown [] []).configs.latest.nodes = exLeader.configs.latest.nodes ∧
      (exLeader.step .shutdown [] []).nid = 1 ∧
      (exLeader.step .shutdown [] []).closed = "serverClosed" := by decide +kernel
  obtain ⟨h1, h2, h3, h4, h5⟩ := h
  refine ⟨h1, h2, by rw [h3]; rfl, h5, ?_⟩
  intro hc
  obtain ⟨r, hr, _⟩ := (hc h1).member_repl { id := 2, addr := "b:1", voter := true } (by rw [h3]; decide)
    (by rw [h4]; decide)
  rw [h2] at hr
  cases hr

end C06Cache
end Raft

#print axioms Raft.C06Cache.step_leaderCache
#print axioms Raft.C06Cache.step_leaderCacheOpen
#print axioms Raft.C06Cache.run_leaderCacheOpen
#print axioms Raft.C06Cache.restart_leaderCache
#print axioms Raft.C06Cache.step_closed -- also C15
#print axioms Raft.C06Cache.shutdown_closes -- also C15
#print axioms Raft.C06Cache.repl_node_is_member
#print axioms Raft.C06Cache.repl_voter_flag_current -- also C11
#print axioms Raft.C06Cache.member_has_replication
#print axioms Raft.C06Cache.voter_has_replication
#print axioms Raft.C06Cache.nonvoter_ack_never_counts -- also C11
#print axioms Raft.C06Cache.majority_no_nil
#print axioms Raft.C06Cache.fast_path_only_voter -- also C11 C17
#print axioms Raft.C06Cache.commit_needs_majority_of_latest_voters
#print axioms Raft.C06Cache.leader_commit_needs_majority
#print axioms Raft.C06Cache.majority_of_latest_voters_commits -- also C17
#print axioms Raft.Node.LC.block
#print axioms Raft.Node.LC.cleaderInit
#print axioms Raft.Node.LC.settle_cache
