/-
AUDIT (vacuity / weakness) of the cluster-level theorems over the fixed-membership systems
`Election` ⊂ `Replication` ⊂ `Commit` ⊂ `SysInv.ReachableG` ⊂ `C07Sys.Reachable`
(Props/C01Sys, C04Sys, C02Sys, C03Sys, C06Sys, C07Sys, C10Sys, C16Sys, C19Sys).

This file contains WITNESS RUNS — proved, not evaluated: every transition is shown to be a transition of the most
restricted system (`C07Sys.Trans`: `Commit.Enabled`, `EnabledG`, `EnabledC`, open nodes) and every state is shown to
satisfy the side predicates (`SideV`, `SideG`), so the runs are runs of ALL the systems above.

The runs continue `C07Sys.zs13` (three voters; node 1 elected in term 2, its no-op and two client updates replicated,
committed, applied and answered):

* run A (crashes): the leader accepts a third update (index 5); follower 2 DIES INSIDE the append step (after the
  storage point `commitLog`) and restarts; follower 3 acknowledges; the LEADER DIES between two steps and restarts —
  its unflushed entry 5 is gone from its disk; node 3 times out, is elected in term 3 with the vote of the restarted
  node 2, appends its no-op (6,3), brings the restarted node 1 up to date and commits index 6 (and with it the entry
  (5,2) of the dead leader's term).
* run T (a complete leadership transfer): `TransferLeadership` at node 1 designates node 2; `timeoutNow` at node 2; node
  3 grants the vote with the transfer flag; node 2 is leader of term 3; node 1 learns the new term, steps down and
  answers the transfer task `ok`.

Then the hypotheses of the theorems of the files above are instantiated on these runs (section "instances").
-/
import RaftVerif.Props.C07Sys
import RaftVerif.Props.C16Sys
import RaftVerif.Props.C06Sys

namespace Raft
namespace AuditSys
open Node LogRel CommitRel Commit C02Sys C03Sys SysInv ClientRel NoPanic C07Sys
open Election (setNode setNode_same setNode_other)

/-! ### one more crash, in `C07Sys` -/

/-- the side conditions after a crash + restart: only the restarted node has to be looked at -/
theorem side_of_crash {V : List Nat} (x : C07Sys.Sys) (i : Nat) (op : Op) (n : Node)
    (hs : SideV V x.c) (hg : SideG x.c)
    (hi : n.configs.isBootstrapped = true ∧ n.configs.latest.voters = V ∧ n.configs.latest.isStable = true ∧
      1 ≤ n.retain) :
    SideV V (crashS x i op n).c ∧ SideG (crashS x i op n).c := by
  have hn : ∀ j, j ≠ i → (crashS x i op n).c.rp.el.node j = x.c.rp.el.node j := fun j hj => by
    show setNode x.c.rp.el.node i _ j = _
    rw [setNode_other _ _ _ _ hj]
  have hni : (crashS x i op n).c.rp.el.node i = n := by
    show setNode x.c.rp.el.node i _ i = _
    rw [setNode_same]
  refine ⟨⟨fun j => ?_, fun j => ?_⟩, fun j => ?_⟩
  · by_cases hj : j = i
    · subst hj; rw [hni]; exact ⟨hi.1, hi.2.1⟩
    · rw [hn j hj]; exact hs.1 j
  · by_cases hj : j = i
    · subst hj
      show ((crashS x j op n).c.rp.el.node j).configs.latest.isStable = true
      rw [hni]; exact hi.2.2.1
    · show ((crashS x i op n).c.rp.el.node j).configs.latest.isStable = true
      rw [hn j hj]; exact hs.2 j
  · by_cases hj : j = i
    · subst hj
      show 1 ≤ ((crashS x j op n).c.rp.el.node j).retain
      rw [hni]; exact hi.2.2.2
    · show 1 ≤ ((crashS x i op n).c.rp.el.node j).retain
      rw [hn j hj]; exact hg j

/-- one more crash + restart (run from `b`) -/
theorem rb_crash {V : List Nat} {b x : C07Sys.Sys} (hx : RB V b x) (i : Nat) (op : Op) (src k : Nat) (n : Node)
    (he : Commit.Enabled x.c i op src) (heG : EnabledG x.c i op) (ho : (x.node i).closed = "" ∨ k = 0)
    (hn : Node.restart (C05.crashDisk (x.node i) op [] [] k) 1 true = some n)
    (heC : EnabledC x i op)
    (hi : n.configs.isBootstrapped = true ∧ n.configs.latest.voters = V ∧ n.configs.latest.isStable = true ∧
      1 ≤ n.retain) :
    RB V b (crashS x i op n) := by
  have hside := side_of_crash x i op n hx.1.2.1 hx.1.2.2 hi
  have ht : C07Sys.Trans x (crashS x i op n) := .crash i op [] [] src k 1 true n he heG ho hn heC
  exact ⟨⟨.next x _ hx.1.1 ht hside.1 hside.2, hside⟩, .next x _ hx.2 ht hside.1 hside.2⟩

/-- the node a restart yields, as a term (`getD`), with the proof that the restart succeeds -/
theorem restart_getD {d : Durable} {r : Nat} {b : Bool} (h : (Node.restart d r b).isSome = true) :
    Node.restart d r b = some ((Node.restart d r b).getD {}) := by
  cases hr : Node.restart d r b with
  | none => rw [hr] at h; cases h
  | some n => rfl

/-! ### run A: crashes, loss of an unflushed entry, re-election, commit of an old-term entry -/

/-- a third update, payload "c", task 11 -/
def batchC : List QItem := [{ typ := etUpdate, data := "c", task := 11 }]

theorem batchC_noCfg : NoCfg batchC := fun q hq => by rw [List.mem_singleton.mp hq]; decide

/-- the leader 1 accepts "c": entry (5,2) -/
def a1 : C07Sys.Sys := stepS zs13 1 (.newEntries batchC) [] [] 0
/-- the request carrying it -/
def aReq : AppendReq :=
  { term := 2, src := 1, prevLogIndex := 4, prevLogTerm := 2, ldrCommitIndex := 4,
    entries := (a1.node 1).log.entries.drop 4 }
def a1s : C07Sys.Sys := sendS a1 aReq
/-- follower 2 after it died while handling the request, after the FIRST storage point (`commitLog`), and restarted -/
def n2 : Node := (Node.restart (C05.crashDisk (a1s.node 2) (.append aReq) [] [] 1) 1 true).getD {}
def a2 : C07Sys.Sys := crashS a1s 2 (.append aReq) n2
/-- follower 3 handles the request to completion -/
def a3 : C07Sys.Sys := stepS a2 3 (.append aReq) [] [] 0
/-- the leader after it died between two steps and restarted: entry 5 was not flushed -/
def n1 : Node := (Node.restart (C05.crashDisk (a3.node 1) .timeout [] [] 0) 1 true).getD {}
def a4 : C07Sys.Sys := crashS a3 1 .timeout n1
/-- node 3 times out and starts the election of term 3 -/
def a5 : C07Sys.Sys := stepS a4 3 .timeout [] [] 0
def aVote : VoteReq := { term := 3, src := 3, lastLogIndex := 5, lastLogTerm := 2 }
/-- the restarted node 2 grants its vote -/
def a6 : C07Sys.Sys := stepS a5 2 (.vote aVote) [] [] 0
/-- node 3 counts it: leader of term 3, no-op (6,3) -/
def a7 : C07Sys.Sys := stepS a6 3 (.voteResult false 3 rSuccess) [] [] 2
def aReq2 : AppendReq :=
  { term := 3, src := 3, prevLogIndex := 4, prevLogTerm := 2, ldrCommitIndex := 4,
    entries := (a7.node 3).log.entries.drop 4 }
def a7s : C07Sys.Sys := sendS a7 aReq2
/-- the restarted node 1 (4 entries) takes the entries 5 and 6 -/
def a8 : C07Sys.Sys := stepS a7s 1 (.append aReq2) [] [] 0
abbrev aUpd : List ReplUpdate := [{ id := 1, upd := .matchIndex 6 }]
/-- the new leader learns it and commits index 6 -/
def a9 : C07Sys.Sys := stepSW a8 3 (.replUpdates aUpd) (altPost (a8.node 3) aUpd 6) 0

theorem ra0 : RB [1, 2, 3] zs13 zs13 := ⟨(rb13).1, .refl⟩

set_option maxRecDepth 100000 in
theorem ra1 : RB [1, 2, 3] zs13 a1 := by
  have hc : EnabledC zs13 1 (.newEntries batchC) :=
    ⟨by decide, by decide +kernel, by decide, by decide +kernel, by decide +kernel⟩
  obtain ⟨he, heG, heC⟩ := batch_enabled zs13 1 batchC (by decide) batchC_noCfg hc
  exact rb_step ra0 1 _ 0 he heG (by decide +kernel) heC (by decide +kernel)

set_option maxRecDepth 100000 in
theorem ra1s : RB [1, 2, 3] zs13 a1s :=
  rb_send ra1 1 aReq (by decide) (by decide +kernel)
    ⟨by decide +kernel, by decide +kernel, by decide +kernel, by decide +kernel, ⟨1, by decide +kernel⟩⟩
    (by decide +kernel)

set_option maxRecDepth 100000 in
theorem n2_restart : Node.restart (C05.crashDisk (a1s.node 2) (.append aReq) [] [] 1) 1 true = some n2 :=
  restart_getD (by decide +kernel)

set_option maxRecDepth 100000 in
theorem ra2 : RB [1, 2, 3] zs13 a2 := by
  obtain ⟨he, heG, heC⟩ := append_enabled a1s 2 aReq (by decide) (by decide +kernel) (by decide +kernel)
  exact rb_crash ra1s 2 _ 0 1 n2 he heG (Or.inl (by decide +kernel)) n2_restart heC (by decide +kernel)

set_option maxRecDepth 100000 in
theorem ra3 : RB [1, 2, 3] zs13 a3 := by
  obtain ⟨he, heG, heC⟩ := append_enabled a2 3 aReq (by decide) (by decide +kernel) (by decide +kernel)
  exact rb_step ra2 3 _ 0 he heG (by decide +kernel) heC (by decide +kernel)

set_option maxRecDepth 100000 in
theorem n1_restart : Node.restart (C05.crashDisk (a3.node 1) .timeout [] [] 0) 1 true = some n1 :=
  restart_getD (by decide +kernel)

set_option maxRecDepth 100000 in
theorem ra4 : RB [1, 2, 3] zs13 a4 := by
  obtain ⟨he, heG, heC⟩ := plain_enabled a3 1 .timeout (by decide) trivial (fun _ h => by cases h)
    (fun _ h => by cases h) (fun _ _ _ h => by cases h) (fun _ h => by cases h) (fun _ _ h => by cases h)
    (fun _ h => by cases h) (fun _ _ _ h => by cases h) rfl rfl
  exact rb_crash ra3 1 _ 0 0 n1 he heG (Or.inr rfl) n1_restart heC (by decide +kernel)

set_option maxRecDepth 100000 in
theorem ra5 : RB [1, 2, 3] zs13 a5 := by
  obtain ⟨he, heG, heC⟩ := plain_enabled a4 3 .timeout (by decide) trivial (fun _ h => by cases h)
    (fun _ h => by cases h) (fun _ _ _ h => by cases h) (fun _ h => by cases h) (fun _ _ h => by cases h)
    (fun _ h => by cases h) (fun _ _ _ h => by cases h) rfl rfl
  exact rb_step ra4 3 _ 0 he heG (by decide +kernel) heC (by decide +kernel)

set_option maxRecDepth 100000 in
theorem ra6 : RB [1, 2, 3] zs13 a6 := by
  have he : Commit.Enabled a5.c 2 (.vote aVote) 0 :=
    ⟨⟨by decide, (fun q h => by cases h; decide), (fun ⟨_, _, _, h⟩ => by cases h), trivial,
      (fun q h => by cases h)⟩,
    ⟨trivial, (fun b h => by cases h), (fun t c h => by cases h)⟩,
    (fun q h => by cases h; exact Or.inr (by decide +kernel)),
    (fun q h => by cases h), (fun us h => by cases h)⟩
  exact rb_step ra5 2 (.vote aVote) 0 he ⟨(fun us h => by cases h), (fun s e r h => by cases h)⟩
    (by decide +kernel) (enabledC_plain _ _ _ rfl rfl) (by decide +kernel)

set_option maxRecDepth 100000 in
theorem ra7 : RB [1, 2, 3] zs13 a7 := by
  have he : Commit.Enabled a6.c 3 (.voteResult false 3 rSuccess) 2 :=
    ⟨⟨by decide, (fun q h => by cases h),
      (fun _ => ⟨by decide, by decide +kernel, by decide +kernel, by decide +kernel⟩), trivial,
      (fun q h => by cases h)⟩,
    ⟨trivial, (fun b h => by cases h), (fun t c h => by cases h)⟩, (fun q h => by cases h),
    (fun q h => by cases h), (fun us h => by cases h)⟩
  exact rb_step ra6 3 (.voteResult false 3 rSuccess) 2 he ⟨(fun us h => by cases h), (fun s e r h => by cases h)⟩
    (by decide +kernel) (enabledC_plain _ _ _ rfl rfl) (by decide +kernel)

set_option maxRecDepth 100000 in
theorem ra7s : RB [1, 2, 3] zs13 a7s :=
  rb_send ra7 3 aReq2 (by decide) (by decide +kernel)
    ⟨by decide +kernel, by decide +kernel, by decide +kernel, by decide +kernel, ⟨2, by decide +kernel⟩⟩
    (by decide +kernel)

set_option maxRecDepth 100000 in
theorem ra8 : RB [1, 2, 3] zs13 a8 := by
  obtain ⟨he, heG, heC⟩ := append_enabled a7s 1 aReq2 (by decide) (by decide +kernel) (by decide +kernel)
  exact rb_step ra7s 1 _ 0 he heG (by decide +kernel) heC (by decide +kernel)

set_option maxRecDepth 100000 in
theorem ma8 : (replUpdLoop ((a8.node 3).begin [] []) {} aUpd).1.majorityMatchIndex = (6, true) := by
  unfold Node.majorityMatchIndex
  rw [if_neg (by decide +kernel)]
  dsimp only
  have h1 : (replUpdLoop ((a8.node 3).begin [] []) {} aUpd).1.voterMatches = [6, 0, 6] := by decide +kernel
  have h2 : [6, 0, 6].mergeSort geB = [6, 6, 0] := by
    simp [List.mergeSort, List.MergeSort.Internal.splitInTwo, geB]
  rw [h1, h2]
  decide +kernel

set_option maxRecDepth 100000 in
theorem a9_eq : stepS a8 3 (.replUpdates aUpd) [] [] 0 = a9 := by
  rw [stepS_eq, replUpdates_step_alt _ _ 6 (by decide +kernel) ma8]; rfl

set_option maxRecDepth 100000 in
theorem ra9 : RB [1, 2, 3] zs13 a9 := by
  obtain ⟨he, heG, heC⟩ := upd1_enabled a8 3 1 6 (by decide) ⟨1, 3, 6, 3⟩ (by decide +kernel) (by decide +kernel)
  have := rb_step ra8 3 (.replUpdates aUpd) 0 he heG (by decide +kernel) heC
    (by rw [replUpdates_step_alt _ _ 6 (by decide +kernel) ma8]; decide +kernel)
  rw [a9_eq] at this
  exact this

set_option maxRecDepth 100000 in
/-- WITNESS A: facts about the states of run A (all by kernel evaluation).
* `a2`: the restarted follower 2 holds entry 5 (flushed before it died), is a follower with commit index 0;
* `a4`: the restarted leader 1 has LOST entry 5 (4 entries), is a follower of term 2 that voted for itself;
* `a9`: node 3 is leader of term 3; nodes 1 and 3 hold 6 entries; the ledger `committed` holds (6,3) on top of the
  commits of term 2; the state machine of node 3 has applied "a", "b", "c"; the ledger `won` names node 1 for term 2
  and node 3 for term 3; nobody failed an assertion. -/
theorem runA_facts :
    ((a2.node 2).log.entries.length = 5 ∧ (a2.node 2).role = .follower ∧ (a2.node 2).commitIndex = 0 ∧
      (a1s.node 2).log.entries.length = 4) ∧
    ((a3.node 1).log.entries.length = 5 ∧ (a4.node 1).log.entries.length = 4 ∧ (a4.node 1).role = .follower ∧
      (a4.node 1).term = 2 ∧ (a4.node 1).votedFor = 1) ∧
    ((a9.node 3).role = .leader ∧ (a9.node 3).term = 3 ∧ (a9.node 3).commitIndex = 6 ∧
      (a9.node 1).log.entries.length = 6 ∧ (a9.node 3).fsm.applied = ["a", "b", "c"] ∧
      a9.c.committed = [(6, 3), (4, 2), (3, 2), (2, 2)] ∧ (3, 3) ∈ a9.c.rp.el.won ∧ (1, 2) ∈ a9.c.rp.el.won ∧
      (∀ i ∈ [1, 2, 3], (a9.node i).panicked = none)) := by
  refine ⟨⟨?_, ?_, ?_, ?_⟩, ⟨?_, ?_, ?_, ?_, ?_⟩, ⟨?_, ?_, ?_, ?_, ?_, ?_, ?_, ?_, ?_⟩⟩ <;> decide +kernel

/-! ### run T: a complete leadership transfer (continues `zs13`) -/

/-- `TransferLeadership(task 12, no target)` at the leader 1: `tryTransfer` designates node 2 -/
def t1 : C07Sys.Sys := stepS zs13 1 (.transfer 12 0) [] [] 0
/-- the `timeoutNow` request at node 2: candidate of term 3 with the transfer flag -/
def t2 : C07Sys.Sys := stepS t1 2 .timeoutNow [] [] 0
def tVote : VoteReq := { term := 3, src := 2, lastLogIndex := 4, lastLogTerm := 2, transfer := true }
/-- node 3 knows the leader 1 and grants all the same (transfer flag) -/
def t3 : C07Sys.Sys := stepS t2 3 (.vote tVote) [] [] 0
/-- node 2 is leader of term 3 -/
def t4 : C07Sys.Sys := stepS t3 2 (.voteResult false 3 rSuccess) [] [] 3
/-- the old leader gets the (successful) result of its `timeoutNow` request … -/
def t5 : C07Sys.Sys := stepS t4 1 (.timeoutNowResult 2 false rSuccess) [] [] 0
abbrev tUpd : List ReplUpdate := [{ id := 2, upd := .newTerm 3 }]
/-- … and learns the new term from its replication of node 2: it steps down and answers the transfer task `ok` -/
def t6 : C07Sys.Sys := stepS t5 1 (.replUpdates tUpd) [] [] 0

theorem transfer_enabled (x : C07Sys.Sys) (i t g : Nat) (hi : i ≠ 0) (hf : (i, t) ∉ x.tasks) :
    Commit.Enabled x.c i (.transfer t g) 0 ∧ EnabledG x.c i (.transfer t g) ∧ EnabledC x i (.transfer t g) := by
  refine ⟨⟨⟨hi, (fun q h => by cases h), (fun ⟨_, _, _, h⟩ => by cases h), trivial, (fun q h => by cases h)⟩,
     ⟨trivial, (fun b h => by cases h), (fun t c h => by cases h)⟩, (fun q h => by cases h),
     (fun q h => by cases h), (fun us h => by cases h)⟩,
   ⟨(fun us h => by cases h), (fun s e r h => by cases h)⟩,
   ⟨?_, ?_, List.nodup_nil, fun d hd => (by cases hd), fun d hd => (by cases hd)⟩⟩
  · show ((([t] : List Nat).filter (· ≠ 0))).Nodup
    by_cases h0 : t = 0
    · subst h0; decide
    · simp [h0]
  · intro u hu
    have : u = t := by
      have hu' : u ∈ ([t] : List Nat).filter (· ≠ 0) := hu
      exact List.mem_singleton.mp (List.mem_filter.mp hu').1
    rw [this]; exact hf

set_option maxRecDepth 100000 in
theorem rt1 : RB [1, 2, 3] zs13 t1 := by
  obtain ⟨he, heG, heC⟩ := transfer_enabled zs13 1 12 0 (by decide) (by decide +kernel)
  exact rb_step ra0 1 _ 0 he heG (by decide +kernel) heC (by decide +kernel)

set_option maxRecDepth 100000 in
theorem rt2 : RB [1, 2, 3] zs13 t2 := by
  obtain ⟨he, heG, heC⟩ := plain_enabled t1 2 .timeoutNow (by decide) trivial (fun _ h => by cases h)
    (fun _ h => by cases h) (fun _ _ _ h => by cases h) (fun _ h => by cases h) (fun _ _ h => by cases h)
    (fun _ h => by cases h) (fun _ _ _ h => by cases h) rfl rfl
  exact rb_step rt1 2 _ 0 he heG (by decide +kernel) heC (by decide +kernel)

set_option maxRecDepth 100000 in
theorem rt3 : RB [1, 2, 3] zs13 t3 := by
  have he : Commit.Enabled t2.c 3 (.vote tVote) 0 :=
    ⟨⟨by decide, (fun q h => by cases h; decide), (fun ⟨_, _, _, h⟩ => by cases h), trivial,
      (fun q h => by cases h)⟩,
    ⟨trivial, (fun b h => by cases h), (fun t c h => by cases h)⟩,
    (fun q h => by cases h; exact Or.inr (by decide +kernel)),
    (fun q h => by cases h), (fun us h => by cases h)⟩
  exact rb_step rt2 3 (.vote tVote) 0 he ⟨(fun us h => by cases h), (fun s e r h => by cases h)⟩
    (by decide +kernel) (enabledC_plain _ _ _ rfl rfl) (by decide +kernel)

set_option maxRecDepth 100000 in
theorem rt4 : RB [1, 2, 3] zs13 t4 := by
  have he : Commit.Enabled t3.c 2 (.voteResult false 3 rSuccess) 3 :=
    ⟨⟨by decide, (fun q h => by cases h),
      (fun _ => ⟨by decide, by decide +kernel, by decide +kernel, by decide +kernel⟩), trivial,
      (fun q h => by cases h)⟩,
    ⟨trivial, (fun b h => by cases h), (fun t c h => by cases h)⟩, (fun q h => by cases h),
    (fun q h => by cases h), (fun us h => by cases h)⟩
  exact rb_step rt3 2 (.voteResult false 3 rSuccess) 3 he ⟨(fun us h => by cases h), (fun s e r h => by cases h)⟩
    (by decide +kernel) (enabledC_plain _ _ _ rfl rfl) (by decide +kernel)

theorem tnr_enabled (x : C07Sys.Sys) (i src : Nat) (r : Nat) (hi : i ≠ 0) :
    Commit.Enabled x.c i (.timeoutNowResult src false r) 0 ∧ EnabledG x.c i (.timeoutNowResult src false r) ∧
    EnabledC x i (.timeoutNowResult src false r) :=
  ⟨⟨⟨hi, (fun q h => by cases h), (fun ⟨_, _, _, h⟩ => by cases h), trivial, (fun q h => by cases h)⟩,
     ⟨trivial, (fun b h => by cases h), (fun t c h => by cases h)⟩, (fun q h => by cases h),
     (fun q h => by cases h), (fun us h => by cases h)⟩,
   ⟨(fun us h => by cases h), (fun s e r' h _ _ he => by cases h; cases he)⟩, enabledC_plain _ _ _ rfl rfl⟩

set_option maxRecDepth 100000 in
theorem rt5 : RB [1, 2, 3] zs13 t5 := by
  obtain ⟨he, heG, heC⟩ := tnr_enabled t4 1 2 rSuccess (by decide)
  exact rb_step rt4 1 _ 0 he heG (by decide +kernel) heC (by decide +kernel)

/-- a `newTerm v` report of the replication of node `j`, `v` not below the leader's term -/
theorem newTerm_enabled (x : C07Sys.Sys) (i j v : Nat) (hi : i ≠ 0) (hv : (x.node i).term ≤ v) :
    Commit.Enabled x.c i (.replUpdates [{ id := j, upd := .newTerm v }]) 0 ∧
    EnabledG x.c i (.replUpdates [{ id := j, upd := .newTerm v }]) ∧
    EnabledC x i (.replUpdates [{ id := j, upd := .newTerm v }]) := by
  refine ⟨⟨⟨hi, (fun q h => by cases h), (fun ⟨_, _, _, h⟩ => by cases h), ?_, (fun q h => by cases h)⟩,
     ⟨?_, (fun b h => by cases h), (fun t c h => by cases h)⟩, (fun q h => by cases h),
     (fun q h => by cases h), ?_⟩, ⟨?_, (fun s e r h => by cases h)⟩, enabledC_plain _ _ _ rfl rfl⟩
  · intro u hu w hw
    rw [List.mem_singleton.mp hu] at hw; cases hw
  · intro u hu w hw
    rw [List.mem_singleton.mp hu] at hw; cases hw
  · intro us hus u hu w hw
    cases hus
    rw [List.mem_singleton.mp hu] at hw
    cases hw
  · intro us hus _ u hu _ w hw
    cases hus
    rw [List.mem_singleton.mp hu] at hw
    cases hw
    exact hv

set_option maxRecDepth 100000 in
theorem rt6 : RB [1, 2, 3] zs13 t6 := by
  obtain ⟨he, heG, heC⟩ := newTerm_enabled t5 1 2 3 (by decide) (by decide +kernel)
  exact rb_step rt5 1 (.replUpdates tUpd) 0 he heG (by decide +kernel) heC (by decide +kernel)

set_option maxRecDepth 100000 in
/-- WITNESS T: facts about the states of run T. In `t1` the leader has a `timeoutNow` request in flight for the target
2; in `t4` node 2 is leader of term 3 while node 1 still is leader of term 2; in `t6` node 1 is a follower of term 3 and
its last step answered the transfer task 12 with `ok`. -/
theorem runT_facts :
    ((zs13.node 1).ldr.transfer.respPending = false ∧ (t1.node 1).ldr.transfer.respPending = true ∧
      (t1.node 1).ldr.transfer.active = true ∧ (t1.node 1).ldr.transfer.task = 12 ∧
      (t1.node 1).tryTransferTarget.1 = 2) ∧
    ((t4.node 2).role = .leader ∧ (t4.node 2).term = 3 ∧ (t4.node 1).role = .leader ∧ (t4.node 1).term = 2) ∧
    ((t6.node 1).role = .follower ∧ (t6.node 1).term = 3 ∧
      ({ task := 12, result := "ok" } : Reply) ∈ (t6.node 1).replies ∧ (⟨1, 12, "ok"⟩ : Ans) ∈ t6.answers) := by
  refine ⟨⟨?_, ?_, ?_, ?_, ?_⟩, ⟨?_, ?_, ?_, ?_⟩, ⟨?_, ?_, ?_, ?_⟩⟩ <;> decide +kernel

/-! ### projections: a run of `C07Sys` is a run of every system below it -/

theorem runG_of {V : List Nat} {x y : C07Sys.Sys} (h : C07Sys.Run V x y) : RunG V x.c y.c := by
  induction h with
  | refl => exact .refl
  | next y z _ ht hs hg ih => exact .next _ _ ih (trans_c ht) hs hg

theorem runV4_of {V : List Nat} {x y : Commit.Sys} (h : C02Sys.RunV V x y) : C04Sys.RunV V x.rp y.rp := by
  induction h with
  | refl => exact .refl
  | next y z _ ht hs ih => exact .next _ _ ih (trans_rp ht) hs.1

theorem runV1_of {V : List Nat} {x y : Replication.Sys} (h : C04Sys.RunV V x y) : C01Sys.RunV V x.el y.el := by
  induction h with
  | refl => exact .refl
  | next y z _ ht hs ih =>
    rcases Replication.trans_el ht with h' | h'
    · exact .next _ _ ih h' hs
    · rw [h']; exact ih

/-- every state of run A / run T, in every system -/
theorem reach_all {x : C07Sys.Sys} (h : RB [1, 2, 3] zs13 x) :
    C07Sys.Reachable [1, 2, 3] x ∧ ReachableG [1, 2, 3] x.c ∧ C03Sys.ReachableNP [1, 2, 3] x.c ∧
    Commit.ReachableV [1, 2, 3] x.c ∧ Replication.ReachableV [1, 2, 3] x.c.rp ∧
    Election.ReachableV [1, 2, 3] x.c.rp.el :=
  have g := reachable_c h.1.1
  ⟨h.1.1, g, C19Sys.reachable_np_of_good _ (by decide) _ g, reachableG_V g, reachable_rp (reachableG_V g),
    Replication.reachable_el (reachable_rp (reachableG_V g))⟩

/-- run A from `zs13` to `a9`, in every system -/
theorem runA_all :
    C07Sys.Run [1, 2, 3] zs13 a9 ∧ RunG [1, 2, 3] zs13.c a9.c ∧ C02Sys.RunV [1, 2, 3] zs13.c a9.c ∧
    C04Sys.RunV [1, 2, 3] zs13.c.rp a9.c.rp ∧ C01Sys.RunV [1, 2, 3] zs13.c.rp.el a9.c.rp.el :=
  have g := runG_of ra9.2
  ⟨ra9.2, g, C10Sys.runG_runV g, runV4_of (C10Sys.runG_runV g), runV1_of (runV4_of (C10Sys.runG_runV g))⟩

/-! ### instances: the hypotheses of the theorems hold on the runs (each `example` applies the theorem) -/

set_option maxRecDepth 100000 in
/-- C01Sys `election_safety_sys_partial` / `leader_backed_partial` on `a9`: two leaders ever (node 1 in term 2, node 3 in
term 3), both in `won`, both backed -/
example : C01.Backed a9.c.rp.el.grants [1, 2, 3] 3 3 ∧ C01.Backed a9.c.rp.el.grants [1, 2, 3] 1 2 :=
  have h := C01Sys.election_safety_sys_partial [1, 2, 3] (by decide) _ (reach_all ra9).2.2.2.2.2
  ⟨h.2.2.2.1 3 3 (by decide +kernel), h.2.2.2.1 1 2 (by decide +kernel)⟩

set_option maxRecDepth 100000 in
/-- C01Sys `election_safety_ever_partial`: hypotheses satisfiable with a real later state (`zs13 → a3`: node 1 leads term
2 in both) -/
example : (1 : Nat) = 1 :=
  C01Sys.election_safety_ever_partial [1, 2, 3] (by decide) zs13.c.rp.el a3.c.rp.el (reach_all ra0).2.2.2.2.2
    (runV1_of (runV4_of (C10Sys.runG_runV (runG_of ra3.2)))) 1 1 (by decide +kernel) (by decide +kernel)
    (by decide +kernel)

set_option maxRecDepth 100000 in
/-- C04Sys `log_matching_sys_partial` on `a9`: the restarted node 1 and the new leader 3 hold the same term at index 6,
hence the same entries up to 6 — in particular the entry (5,2) that node 1 had LOST in its crash -/
example : (a9.node 1).log.get? 5 = (a9.node 3).log.get? 5 ∧ ((a9.node 1).log.get? 5).map (·.data) = some "c" := by
  have hm := C04Sys.log_matching_sys_partial [1, 2, 3] (by decide) a9.c.rp (reach_all ra9).2.2.2.2.1 1 3 6
  cases h1 : (a9.node 1).log.get? 6 with
  | none => exact absurd h1 (by decide +kernel)
  | some a =>
    cases h3 : (a9.node 3).log.get? 6 with
    | none => exact absurd h3 (by decide +kernel)
    | some b =>
      have ht : a.term = b.term := by
        have e1 : ((a9.node 1).log.get? 6).map (·.term) = some 3 := by decide +kernel
        have e3 : ((a9.node 3).log.get? 6).map (·.term) = some 3 := by decide +kernel
        rw [h1] at e1; rw [h3] at e3
        simp at e1 e3; rw [e1, e3]
      cases h15 : (a9.node 1).log.get? 5 with
      | none => exact absurd h15 (by decide +kernel)
      | some a' =>
        cases h35 : (a9.node 3).log.get? 5 with
        | none => exact absurd h35 (by decide +kernel)
        | some b' =>
          have := hm a b h1 h3 ht 5 (by decide) a' b' h15 h35
          refine ⟨by rw [this], ?_⟩
          have e : ((a9.node 1).log.get? 5).map (·.data) = some "c" := by decide +kernel
          rw [h15] at e; exact e

set_option maxRecDepth 100000 in
/-- C02Sys `leader_completeness_ever_partial`: `x = zs13` (node 1's commit index 4), `y = a9` (crashes, re-election in
between): the leader 3 of term 3 holds at index 4 the entry node 1 had committed -/
example : (a9.node 3).log.get? 4 = (zs13.node 1).log.get? 4 :=
  (C02Sys.leader_completeness_ever_partial [1, 2, 3] (by decide) zs13.c a9.c (reach_all ra0).2.2.2.1 runA_all.2.2.1
    3 1 4 (by decide) (by decide +kernel) (by decide +kernel) (by decide +kernel)).1

set_option maxRecDepth 100000 in
/-- C06Sys `no_loss_under_minority_crash_partial`: a REAL burst of crashes — the leader 1 dies in `a3` and restarts
(`a4`) — for the index 4 within node 1's commit index -/
example : C06Sys.CrashRun [1, 2, 3] [1] a3.c a4.c ∧ ∃ Q, C06Sys.Majority [1, 2, 3] Q ∧
    ∀ v ∈ Q, DurableRel.Keeps a4.c v (a3.node 1) 4 := by
  have he : Commit.Enabled a3.c 1 .timeout 0 :=
    (plain_enabled a3 1 .timeout (by decide) trivial (fun _ h => by cases h)
      (fun _ h => by cases h) (fun _ _ _ h => by cases h) (fun _ h => by cases h) (fun _ _ h => by cases h)
      (fun _ h => by cases h) (fun _ _ _ h => by cases h) rfl rfl).1
  have hc : C06Sys.CrashRun [1, 2, 3] [1] a3.c a4.c :=
    .crash a3.c 1 .timeout [] [] 0 0 1 true n1 .refl (by decide) he n1_restart ra4.1.2.1
  obtain ⟨Q, hQ, hk, _⟩ := C06Sys.no_loss_under_minority_crash_partial [1, 2, 3] (by decide) a3.c a4.c
    (reach_all ra3).2.2.2.1 [1] hc 1 4 (by decide) (by decide +kernel)
  exact ⟨hc, Q, hQ, hk⟩

set_option maxRecDepth 100000 in
/-- C10Sys `restart_succeeds_sys_partial` / `rejoin_preserves_safety_partial`: a crash INSIDE an append step of a
follower of an elected leader (`a1s`, node 2, after the first storage point) -/
example : ReachableG [1, 2, 3] a2.c ∧ C10Sys.Safe [1, 2, 3] a9.c := by
  obtain ⟨he, heG, _⟩ := append_enabled a1s 2 aReq (by decide) (by decide +kernel) (by decide +kernel)
  have h := C10Sys.rejoin_preserves_safety_partial [1, 2, 3] (by decide) a1s.c (reach_all ra1s).2.1 2 (.append aReq)
    [] [] 0 he heG 1 (Or.inl (by decide +kernel)) 1 (Nat.le_refl _) true n2 n2_restart ra2.1.2.1
  exact ⟨h.1, (C10Sys.safe_of_reachable [1, 2, 3] (by decide) a9.c (reach_all ra9).2.1)⟩

set_option maxRecDepth 100000 in
/-- C10Sys `restart_keeps_committed_acknowledged_partial`: `m = (4,2)` committed in `zs13`, acknowledged by node 2 in
term 2; node 2 dies in the LATER state `a1s` inside the append step — the restarted node holds (4,2) -/
example : 4 ≤ n2.log.flushed ∧ ∃ e, n2.log.get? 4 = some e ∧ e.term = 2 := by
  obtain ⟨he, _, _⟩ := append_enabled a1s 2 aReq (by decide) (by decide +kernel) (by decide +kernel)
  have hanc : Anc zs13.c.T (4, 2) (4, 2) :=
    Anc.refl_of_holds (C02Sys.log_path (C02Sys.inv_reachable (by decide) (reach_all ra0).2.2.2.1).1 1)
      ⟨by decide, by decide +kernel, by decide +kernel⟩
  exact C10Sys.restart_keeps_committed_acknowledged_partial [1, 2, 3] (by decide) zs13.c a1s.c (reach_all ra0).2.1
    (runG_of ra1s.2) (4, 2) (by decide +kernel) ⟨2, 2, 4, 2⟩ (by decide +kernel) rfl hanc (.append aReq) [] [] 0 he
    1 1 true n2 n2_restart

set_option maxRecDepth 100000 in
/-- C16Sys (5) `transfer_target_holds_log_sys_partial`: ALL its hypotheses hold for `x = zs13`, node 1, the operation
`TransferLeadership(12)` (reachable leader, no request in flight before, one in flight after) -/
example : ∃ (c : Node) (t : Nat), (zs13.node 1).step (.transfer 12 0) [] [] = c.tryTransfer ∧
    c.tryTransferTarget.1 = t ∧ t ≠ 0 ∧ t ∈ [1, 2, 3] ∧ t ≠ 1 := by
  obtain ⟨he, heG, _⟩ := transfer_enabled zs13 1 12 0 (by decide) (by decide +kernel)
  obtain ⟨c, t, h1, h2, h3, ⟨h4, h5, _⟩, _⟩ := C16Sys.transfer_target_holds_log_sys_partial [1, 2, 3] (by decide)
    zs13.c (reach_all ra0).2.1 1 (.transfer 12 0) 0 he heG (by decide +kernel) [] [] rt1.1.2.1 (by decide +kernel)
    (by decide +kernel) (by decide +kernel) (by decide +kernel) (by decide +kernel)
  exact ⟨c, t, h1, h2, h3, h4, h5⟩

set_option maxRecDepth 100000 in
/-- C16Sys (7) `transfer_success_means_stepped_down_sys_partial`: ALL its hypotheses hold for `x = t5`, node 1 and the
`newTerm 3` report: the transfer task 12 is answered `ok` in that step -/
example : (((t5.node 1).begin [] []).handle (.replUpdates tUpd)).role ≠ .leader ∧
    (t5.node 1).ldr.transfer.term < ((t5.node 1).step (.replUpdates tUpd) [] []).term := by
  obtain ⟨he, heG, _⟩ := newTerm_enabled t5 1 2 3 (by decide) (by decide +kernel)
  exact C16Sys.transfer_success_means_stepped_down_sys_partial [1, 2, 3] (by decide) t5.c (reach_all rt5).2.1 1
    (.replUpdates tUpd) 0 he heG (by decide +kernel) [] [] (by decide +kernel)
    ⟨by decide +kernel, by decide +kernel⟩ (by decide +kernel) (by decide +kernel) (by decide +kernel)
    (by decide +kernel)

set_option maxRecDepth 100000 in
/-- C07Sys (3) `ambiguous_update_at_most_once_partial`: the update "c" was submitted to the leader 1, which DIED before
answering (no answer for task 11 in the ledger); it is committed by the next leader and applied exactly once -/
example : (⟨1, 11, etUpdate, "c", 4, 2⟩ : Sub) ∈ a9.subs ∧ (∀ a ∈ a9.answers, a.task ≠ 11) ∧
    (a9.node 3).fsm.applied.count "c" ≤ 1 ∧ "c" ∈ (a9.node 3).fsm.applied := by
  have hs : (⟨1, 11, etUpdate, "c", 4, 2⟩ : Sub) ∈ a9.subs := by decide +kernel
  exact ⟨hs, by decide +kernel,
    (ambiguous_update_at_most_once_partial [1, 2, 3] (by decide) a9 ra9.1.1 _ hs rfl).2.2 3, by decide +kernel⟩

set_option maxRecDepth 100000 in
/-- C03Sys / C19Sys `state_machine_safety_sys_partial` and C19Sys `good_in_sys_partial` on `a9`: the state machines of
the restarted node 1 (nothing applied) and of the leader 3 ([a, b, c]) are prefix-comparable; every node is good -/
example : ((a9.node 1).fsm.applied <+: (a9.node 3).fsm.applied ∨ (a9.node 3).fsm.applied <+: (a9.node 1).fsm.applied) ∧
    (a9.node 3).fsm.applied = ["a", "b", "c"] ∧ NoPanic.Good true (a9.node 1) :=
  ⟨(C19Sys.state_machine_safety_sys_partial [1, 2, 3] (by decide) a9.c (reach_all ra9).2.1).2.2.2 1 3,
    by decide +kernel, (C19Sys.good_in_sys_partial [1, 2, 3] (by decide) a9.c (reach_all ra9).2.1 1).1⟩

end AuditSys
end Raft

#print axioms Raft.AuditSys.ra9
#print axioms Raft.AuditSys.rt6
#print axioms Raft.AuditSys.runA_facts
#print axioms Raft.AuditSys.runT_facts
#print axioms Raft.AuditSys.reach_all
#print axioms Raft.AuditSys.runA_all
