/-
C19 / C12 / C10 — **`NodeInv` is carried along the RUNS of the cluster-level system `Raft.Snap4`** (what
`Props/C19FsmConfigSys.lean` left open): no fallback hypothesis, no per-node hypothesis.

`C19FsmConfigSys.NodeInv s` (entry 1 of the log, if held, is a configuration; every snapshot file is labelled with a real
configuration; above a snapshot the state machine holds a configuration; `configs.latest` is the newest configuration entry
of log ∪ snapshot; a node that is not a follower has a non-empty log) was proved inductive per node and per transition.
Here the induction over the runs is done (Lemmas/FirstConfigSysA.lean, FirstConfigSysB.lean):
* `Init4F` — an initial state of `Raft.Snap4` in which every node satisfies `NodeInv` (no snapshot; entry 1 of every
  non-empty log is the bootstrap configuration); `Reachable4F V` — the states reachable from those;
* carried along the runs (`FirstCfgSys.InvF`): `NodeInv` of EVERY node (whatever its cluster id: the identity clauses of
  `CrashInv` are only needed for a restart to succeed, which is a premise of the crash transitions), and the two ledger
  invariants "every append request on the wire carries a configuration at index 1 if it carries index 1" (the request was
  read from the part of the virtual log its leader still holds, whose entry 1 is a configuration) and "every install request
  on the wire is labelled with a real configuration" (it was built from a snapshot file of its leader);
* through ALL six transitions: completed steps, crashes at any storage point + restart, `send`, `sendSnap`, completed
  installations, crashes at any storage point of the install handler + restart.

PROVED (all for EVERY state of `Reachable4F V`, `V.Nodup`):
* `nodeInv_reachable4F`      : every node satisfies `NodeInv`, hence `FsmHasConfig`, hence `Latest.NoFallback` and
                               `TrackCrash.SnapFbOp` for every operation;
* `ledgers_reachable4F`, `enabled_ok_reachable4F` : the ledger invariants; every operation that may be delivered satisfies
                               `Order.ReqOk`, `ReqDec`, `ReqLab`, `ReqFirst`;
* `latest_is_newest_sys_partial` (C19) : `configs.latest` is the newest configuration entry of log ∪ snapshot, on every node;
* `tracks_after_crash_at_any_point_sys_partial`, `tracks_after_crash_in_install_sys_partial` (C12): a node with a cluster
  id dying at ANY crash point of ANY deliverable operation / install request restarts successfully as a tracking, ordered,
  `CrashInv`, `NodeInv` node whose state machine holds a configuration;
* `restart_succeeds_snap_run_partial`, `restart_succeeds_install_run_partial` (C10 (1)): the same with
  `RestartSys.Restarted`, re-exporting `C10Sys2.restart_succeeds_snap_partial` WITHOUT `SnapFbOp`;
* `reachable4F_next`, `reachable4F_of_run` : `Reachable4F` is closed under the transitions (so the restarted cluster is again
  a state to which all of the above applies).
`_partial`: the restrictions of `Raft.Snap4` (Sys/Snap3.lean, Sys/Snap4.lean: fixed voter set and configuration, no forged
requests, `.shutdown` never occurs, `NoCut` for crashes, side conditions `Side4`) remain.

The same on `SysInv.ReachableG` (`Raft.Commit` with `GInv`; Lemmas/FirstConfigSysC.lean): `GInv` does not contain
`LatestIsNewest`; `Tracks`, `NodeInv` and the ledger invariant are carried (`FirstCfgSys.InvG`) from initial states in which
every node tracks and satisfies `NodeInv` (`ReachableGF`) — or along any run from a reachable state in which they hold
(`nodeInv_runG_partial`, the form of `C19Sys.tracks_in_sys_partial`): `nodeInv_reachableGF`, `latest_is_newest_sysG_partial`,
`tracks_after_crash_at_any_point_sysG_partial`.
-/
import RaftVerif.Lemmas.FirstConfigSysC
import RaftVerif.Props.C06Snap

namespace Raft
namespace C19FsmConfigRun
open Node Track Order FsmCfg C19FsmConfig C19FsmConfigSys TrackCrash FirstCfgSys
open Snap Snap2 Snap3 Snap4 SnapInst SnapInst3 SnapInst4 RestartSys SnapInv2

section
variable {V : List Nat}

/-! ### 1. the invariant on every reachable state -/

/-- **every node of every state reachable in `Raft.Snap4` from `Init4F` satisfies `NodeInv`** — entry 1 of its log (if
held) is a configuration, its snapshot files carry real configurations, above a snapshot its state machine holds a
configuration, its latest configuration is the newest configuration entry of log ∪ snapshot, and it has a non-empty log
unless it is a follower. Hence its state machine holds a configuration once it has applied anything (`FsmHasConfig`), and
the snapshot goroutine never takes its fallback: `Latest.NoFallback` and `TrackCrash.SnapFbOp` hold for EVERY operation.
No hypothesis on the node (not even a cluster id). -/
theorem nodeInv_reachable4F (hV : V.Nodup) (x : Snap3.Sys) (h : Reachable4F V x) (i : Nat) :
    NodeInv (x.node i) ∧ FsmHasConfig (x.node i) ∧ (∀ op, Latest.NoFallback (x.node i) op) ∧
      (∀ op, SnapFbOp (x.node i) op) := by
  have hF := reach4F hV h
  obtain ⟨_, i4, s4⟩ := reach4 hV (reachable4F_reachable4 h)
  have hf := fsm_has_config _ (i4.tracks i) (i4.ord i) (s4.lab i) (hF.ninv i).cfg
  exact ⟨hF.ninv i, hf, fun op => no_fallback _ op (i4.ord i) hf, fun op => snapFbOp _ op (i4.ord i) hf⟩

/-- **the ledger invariants**: every append request on the wire carries a configuration at index 1 if it carries index
1; every install request on the wire is labelled with a real configuration -/
theorem ledgers_reachable4F (hV : V.Nodup) (x : Snap3.Sys) (h : Reachable4F V x) :
    (∀ q ∈ x.s2.cs.rp.sent, ∀ e ∈ q.entries, e.index = 1 → e.config?.isSome = true) ∧
      (∀ m ∈ x.sentSnaps, 0 < m.q.lastConfig.index) :=
  ⟨(reach4F hV h).sentFirst, (reach4F hV h).snapLab⟩

/-- **every operation that may be delivered to a node is acceptable** in the sense of ALL per-node theorems: `Order.ReqOk`,
`TrackCrash.ReqDec`, `ReqLab`, `ReqFirst` — for the operations of stage 2 (`Snap.Enabled`) and for install requests that
are stale or of the ledger -/
theorem enabled_ok_reachable4F (hV : V.Nodup) (x : Snap3.Sys) (h : Reachable4F V x) (i : Nat) :
    (∀ op src, Snap.Enabled x.s2.cs i op src →
      ReqOk (x.node i) op ∧ ReqDec (x.node i) op ∧ ReqLab (x.node i) op ∧ ReqFirst (x.node i) op) ∧
    (∀ m : SnapMsg, (m.q.term < (x.node i).term ∨ m ∈ x.sentSnaps) →
      ReqOk (x.node i) (.install m.q) ∧ ReqDec (x.node i) (.install m.q) ∧ ReqLab (x.node i) (.install m.q) ∧
        ReqFirst (x.node i) (.install m.q)) := by
  have hF := reach4F hV h
  obtain ⟨r3, i4, s4⟩ := reach4 hV (reachable4F_reachable4 h)
  have hI := (inv3_reachable hV r3).1
  refine ⟨fun op src en => ?_, fun m hm => ?_⟩
  · obtain ⟨a, b⟩ := reqFirst_enabled hF en
    exact ⟨reqOk_old hI en (s4.cfg i), reqDec_enabled (sentDec_reach3 r3) en, b, a⟩
  · obtain ⟨a, b⟩ := reqLab_install i4 hF hm
    exact ⟨a, trivial, b, trivial⟩

/-- **C19 on the runs of `Raft.Snap4` (partial: the restrictions of `Raft.Snap4`; initial states `Init4F`): the latest
configuration of every node is the newest configuration entry of its log, else the label of its newest snapshot** — in
EVERY reachable state, with NO fallback hypothesis and no hypothesis on the node. -/
theorem latest_is_newest_sys_partial (hV : V.Nodup) (x : Snap3.Sys) (h : Reachable4F V x) (i : Nat) :
    C19Latest.LatestIsNewest (x.node i) :=
  (reach4F hV h).ninv i |>.latest

/-! ### 2. `Reachable4F` is closed under the transitions -/

theorem reachable4F_next {x y : Snap3.Sys} (h : Reachable4F V x) (ht : Snap4.Trans x y) (hs : Side4 V y) :
    Reachable4F V y := .next x y h ht hs

theorem reachable4F_of_run {x y : Snap3.Sys} (h : Reachable4F V x) (hr : Run4 V x y) : Reachable4F V y := by
  induction hr with
  | refl => exact h
  | next y z _ ht hs ih => exact .next y z ih ht hs

/-! ### 3. C12 at every crash point -/

/-- **C12 at every crash point, on the runs of `Raft.Snap4` (partial: the restrictions of `Raft.Snap4`; NO fallback
hypothesis, NO per-node hypothesis besides a cluster id).** Let `x` be reachable from `Init4F`, `i` a node with a cluster
id, `op` ANY operation of stage 2 that may be delivered to `i` in `x` (`Snap.Enabled`: the snapshot goroutine and the
compacting `snapTaken` included), handled with ANY oracle, which run to completion would not panic; let the process die
after ANY number `k` of storage points of that step and restart with `retain = r ≥ 1`. Then the restart succeeds; the
restarted node tracks, is ordered, derives its configurations from label + log on disk at that point, satisfies
`LatestIsNewest`, `CrashInv` and `NodeInv` again, and its state machine holds a configuration once it has applied anything. -/
theorem tracks_after_crash_at_any_point_sys_partial (hV : V.Nodup) (x : Snap3.Sys) (h : Reachable4F V x) (i : Nat)
    (op : Op) (ra : List Nat) (ord : List (List Nat)) (src : Nat) (en : Snap.Enabled x.s2.cs i op src)
    (hp : ((x.node i).step op ra ord).panicked = none) (hcid : (x.node i).cid ≠ 0) (k r : Nat) (hr : 1 ≤ r)
    (sor : Bool) :
    ∃ n, Node.restart (C05.crashDisk (x.node i) op ra ord k) r sor = some n ∧
      C12Track.Tracks n ∧ Order.Ordered n ∧
      n.configs.latest = ((C10.configsAbove (C05.crashDisk (x.node i) op ra ord k))[0]?).getD
        (C10.snapOf (C05.crashDisk (x.node i) op ra ord k)).config ∧
      n.configs.committed = ((C10.configsAbove (C05.crashDisk (x.node i) op ra ord k))[1]?).getD
        (C10.snapOf (C05.crashDisk (x.node i) op ra ord k)).config ∧
      C19Latest.LatestIsNewest n ∧ C12Crash.CrashInv n ∧ NodeInv n ∧ FsmHasConfig n := by
  have h4 := reachable4F_reachable4 h
  have hc := crashInv_node4 hV h4 i en.id hcid
  have hi := (reach4F hV h).ninv i
  obtain ⟨a, b, c, d⟩ := (enabled_ok_reachable4F hV x h i).1 op src en
  obtain ⟨n, hn, t1, t2, t3, t4, t5, t6⟩ :=
    tracks_after_crash_at_any_point_nofb_partial (x.node i) op ra ord k r sor hc hi.cfg a b hp hr
  have hni := nodeInv_crash_nc (x.node i) op ra ord k r sor n hc.tracks hc.ordered hc.mem hi a b c d hp hn
  exact ⟨n, hn, t1, t2, t3, t4, t5, t6, hni, fsm_has_config n t1 t2 t6.mem.lab hni.cfg⟩

/-- **… and at every storage point of the install handler** (`value.set`, `snap.publish`, `snap.retain`, `clearLog`), for
every install request that is stale or one of the ledger. -/
theorem tracks_after_crash_in_install_sys_partial (hV : V.Nodup) (x : Snap3.Sys) (h : Reachable4F V x) (i : Nat)
    (m : SnapMsg) (ra : List Nat) (ord : List (List Nat)) (hi0 : i ≠ 0)
    (hm : m.q.term < (x.node i).term ∨ m ∈ x.sentSnaps)
    (hp : ((x.node i).step (.install m.q) ra ord).panicked = none) (hcid : (x.node i).cid ≠ 0) (k r : Nat)
    (hr : 1 ≤ r) (sor : Bool) :
    ∃ n, Node.restart (C05.crashDisk (x.node i) (.install m.q) ra ord k) r sor = some n ∧
      C12Track.Tracks n ∧ Order.Ordered n ∧ C19Latest.LatestIsNewest n ∧ C12Crash.CrashInv n ∧ NodeInv n ∧
      FsmHasConfig n := by
  have h4 := reachable4F_reachable4 h
  have hc := crashInv_node4 hV h4 i hi0 hcid
  have hi := (reach4F hV h).ninv i
  obtain ⟨a, b, c, d⟩ := (enabled_ok_reachable4F hV x h i).2 m hm
  obtain ⟨n, hn, t1, t2, _, _, t5, t6⟩ :=
    tracks_after_crash_at_any_point_nofb_partial (x.node i) (.install m.q) ra ord k r sor hc hi.cfg a b hp hr
  have hni := nodeInv_crash_nc (x.node i) (.install m.q) ra ord k r sor n hc.tracks hc.ordered hc.mem hi a b c d hp hn
  exact ⟨n, hn, t1, t2, t5, t6, hni, fsm_has_config n t1 t2 t6.mem.lab hni.cfg⟩

/-! ### 4. C10 (1): the restart succeeds -/

/-- **C10 (1) on the runs of `Raft.Snap4`, with NO fallback hypothesis and NO per-node hypothesis besides a cluster id
(partial: the restrictions of `C10Sys2.restart_succeeds_snap_partial` other than `SnapFbOp`; initial states `Init4F`).** A
node `i` with a cluster id of a state reachable from `Init4F`, dying at ANY crash point `k` of ANY operation of stage 2
that may be delivered to it (the snapshot goroutine included) and would complete, restarts successfully (any options,
`r ≥ 1`) as a `RestartSys.Restarted` node with `nid = i` that satisfies `NodeInv` again. -/
theorem restart_succeeds_snap_run_partial (hV : V.Nodup) (x : Snap3.Sys) (h : Reachable4F V x) (i : Nat) (op : Op)
    (ra : List Nat) (ord : List (List Nat)) (src : Nat) (en : Snap.Enabled x.s2.cs i op src)
    (hp : ((x.node i).step op ra ord).panicked = none) (hcid : (x.node i).cid ≠ 0) (k r : Nat) (hr : 1 ≤ r)
    (sor : Bool) :
    ∃ n, Node.restart (C05.crashDisk (x.node i) op ra ord k) r sor = some n ∧
      Restarted (x.node i) (C05.crashDisk (x.node i) op ra ord k) n ∧ n.nid = i ∧ NodeInv n := by
  obtain ⟨_, _, c, d⟩ := (enabled_ok_reachable4F hV x h i).1 op src en
  exact restart_succeeds_snap_sys_partial hV x (reachable4F_reachable4 h) i op ra ord src en hp hcid
    ((reach4F hV h).ninv i) c d k r hr sor

/-- **… and at every storage point of the install handler**, `NodeInv` included -/
theorem restart_succeeds_install_run_partial (hV : V.Nodup) (x : Snap3.Sys) (h : Reachable4F V x) (i : Nat)
    (m : SnapMsg) (ra : List Nat) (ord : List (List Nat)) (hi0 : i ≠ 0)
    (hm : m.q.term < (x.node i).term ∨ m ∈ x.sentSnaps)
    (hp : ((x.node i).step (.install m.q) ra ord).panicked = none) (hcid : (x.node i).cid ≠ 0) (k r : Nat)
    (hr : 1 ≤ r) (sor : Bool) :
    ∃ n, Node.restart (C05.crashDisk (x.node i) (.install m.q) ra ord k) r sor = some n ∧
      Restarted (x.node i) (C05.crashDisk (x.node i) (.install m.q) ra ord k) n ∧ n.nid = i ∧ NodeInv n := by
  have h4 := reachable4F_reachable4 h
  obtain ⟨n, hn, hR, hid⟩ := C10Sys2.restart_succeeds_install_partial hV x h4 i m ra ord hi0 hm hp hcid k r hr sor
  have hc := crashInv_node4 hV h4 i hi0 hcid
  obtain ⟨a, b, c, d⟩ := (enabled_ok_reachable4F hV x h i).2 m hm
  exact ⟨n, hn, hR, hid, nodeInv_crash_nc (x.node i) (.install m.q) ra ord k r sor n hc.tracks hc.ordered hc.mem
    ((reach4F hV h).ninv i) a b c d hp hn⟩

end

/-! ### 5. the same on `SysInv.ReachableG` -/

section
open LogRel CommitRel Commit C02Sys NoPanic SysInv
variable {V : List Nat}

/-- **every node of every state reachable in `SysInv.ReachableG` from an initial state in which every node tracks and
satisfies `NodeInv` satisfies `NodeInv`** (in particular `LatestIsNewest`, which `GInv` does not contain), hence
`FsmHasConfig`, `Latest.NoFallback` and `TrackCrash.SnapFbOp` for every operation; and it tracks. -/
theorem nodeInv_reachableGF (hV : V.Nodup) (x : Commit.Sys) (h : ReachableGF V x) (i : Nat) :
    NodeInv (x.node i) ∧ C12Track.Tracks (x.node i) ∧ FsmHasConfig (x.node i) ∧
      (∀ op, Latest.NoFallback (x.node i) op) ∧ (∀ op, SnapFbOp (x.node i) op) := by
  have hF := reachGF hV h
  have hx := reachableGF_reachableG h
  have ho := ((ginv_reachable hV hx).good i).ordered
  have hI := (inv_reachable hV (reachableG_V hx)).1
  have hf := fsm_has_config _ (hF.tracks i) ho (label_le_of_nwf (nwf hI i)) (hF.ninv i).cfg
  exact ⟨hF.ninv i, hF.tracks i, hf, fun op => no_fallback _ op ho hf, fun op => snapFbOp _ op ho hf⟩

/-- **… and along every run** (partial: the restrictions of `SysInv.ReachableG`): if in a reachable state `x` every node
tracks and satisfies `NodeInv` and every append request on the wire satisfies `FirstCfg.First` (e.g. an initial state),
then so it is in every later state `y` of the run — through crashes and restarts. -/
theorem nodeInv_runG_partial (hV : V.Nodup) (x y : Commit.Sys) (hx : ReachableG V x) (hrun : RunG V x y)
    (hT : ∀ i, C12Track.Tracks (x.node i)) (hN : ∀ i, NodeInv (x.node i))
    (hS : ∀ q ∈ x.rp.sent, FirstCfg.First q.entries) :
    (∀ i, C12Track.Tracks (y.node i)) ∧ (∀ i, NodeInv (y.node i)) ∧ ∀ q ∈ y.rp.sent, FirstCfg.First q.entries :=
  let r := invG_run hV hx hrun ⟨hT, hN, hS⟩; ⟨r.tracks, r.ninv, r.sentFirst⟩

/-- **C19 on the runs of `SysInv.ReachableG` (partial: its restrictions): the latest configuration of every node is the
newest configuration entry of its log** -/
theorem latest_is_newest_sysG_partial (hV : V.Nodup) (x : Commit.Sys) (h : ReachableGF V x) (i : Nat) :
    C19Latest.LatestIsNewest (x.node i) :=
  (reachGF hV h).ninv i |>.latest

/-- **C12 / C10 (1) at every crash point on the runs of `SysInv.ReachableG` (partial: its restrictions; NO fallback
hypothesis, NO per-node hypothesis besides a cluster id).** A node `i` with a cluster id of a state of `ReachableGF`, dying
at ANY crash point `k` of ANY operation that may be delivered to it (`Commit.Enabled`, `EnabledG`; an open node, or `k = 0`:
the process of a closed node is restarted), restarts successfully (`r ≥ 1`) as a node satisfying `CrashInv` (tracking,
ordered, …) and `NodeInv`, whose state machine holds a configuration once it has applied anything. -/
theorem tracks_after_crash_at_any_point_sysG_partial (hV : V.Nodup) (x : Commit.Sys) (h : ReachableGF V x) (i : Nat)
    (op : Op) (src : Nat) (he : Commit.Enabled x i op src) (heG : EnabledG x i op) (ra : List Nat)
    (ord : List (List Nat)) (k : Nat) (hopen : (x.node i).closed = "" ∨ k = 0) (hcid : (x.node i).cid ≠ 0)
    (r : Nat) (hr : 1 ≤ r) (sor : Bool) :
    ∃ n, Node.restart (C05.crashDisk (x.node i) op ra ord k) r sor = some n ∧ C12Crash.CrashInv n ∧ NodeInv n ∧
      FsmHasConfig n := by
  have hF := reachGF hV h
  have hx := reachableGF_reachableG h
  have hG := ginv_reachable hV hx
  have hI := (inv_reachable hV (reachableG_V hx)).1
  have hc : C12Crash.CrashInv (x.node i) :=
    ⟨hF.tracks i, (hG.good i).ordered, ⟨hI.node.lwf i, label_le_of_nwf (nwf hI i), (hG.good i).glob.logDec⟩, hcid,
      by rw [(hI.rp.el.ids i).1]; exact he.rp.id⟩
  have key : ∀ n, C12Crash.CrashInv n → NodeInv n → FsmHasConfig n := fun n a b =>
    fsm_has_config n a.tracks a.ordered a.mem.lab b.cfg
  rcases hopen with ho | hk
  · obtain ⟨hr', hro, hp, _⟩ := C19Sys.reqok_in_sys_partial V hV x hx i op src he heG ho ra ord
    obtain ⟨hq, hlb⟩ := reqFirst_enabledG hF he
    obtain ⟨n, hn, a, b⟩ := nodeInv_after_crash_partial (x.node i) op ra ord k r sor hc (hF.ninv i) hro
      (RestartSys.reqDec_member hr') hlb hq hp hr
    exact ⟨n, hn, a, b, key n a b⟩
  · subst hk
    have hp' : ((x.node i).step (.disconnected 0) ra ord).panicked = none := by
      rw [MemberSide.step_disconnected0]; rfl
    have e : C05.crashDisk (x.node i) op ra ord 0 = C05.crashDisk (x.node i) (.disconnected 0) ra ord 0 := rfl
    rw [e]
    obtain ⟨n, hn, a, b⟩ := nodeInv_after_crash_partial (x.node i) (.disconnected 0) ra ord 0 r sor hc (hF.ninv i)
      trivial trivial trivial trivial hp' hr
    exact ⟨n, hn, a, b, key n a b⟩

end

/-! ### examples -/

/-- the bootstrapped follower `C04Sys.exNode i` (log = [(1,1) configuration], no snapshot) satisfies `NodeInv` -/
theorem exNode_nodeInv (i : Nat) : NodeInv (C04Sys.exNode i) := by
  have h0 : NodeInv (C04Sys.exNode 0) := by decide
  exact ⟨⟨h0.cfg.first, h0.cfg.labels, h0.cfg.above⟩, h0.latest, fun hne => absurd rfl hne⟩

/-- EXAMPLE (`Init4F`): the initial state `C09Sys3.exW0` (three voters bootstrapped with the configuration entry (1,1)) -/
theorem exW0_init4F : Init4F C09Sys3.exW0 :=
  ⟨⟨⟨C09Sys2.exY0_init, fun _ => rfl, rfl⟩, C19Sys.ex0_tracks, fun i => (C19Sys.exNode_good i).ordered⟩, exNode_nodeInv⟩

section
open C09Sys3 C10Sys2 Election

set_option maxRecDepth 100000 in
/-- EXAMPLE (`Reachable4F`): `C09Sys3.exW3` — node 2 is asked for a snapshot, the snapshot goroutine runs, the result is
handed over — is reachable from the `Init4F` state `exW0` (the run of `C10Sys2.exW3_reach4`) -/
theorem exW3_reach4F : Reachable4F [1, 2, 3] exW3 := by
  have en : ∀ (x : Commit.Sys) (op : Op), OpOKS op → (∀ q, op ≠ .vote q) → (∀ q, op ≠ .append q) →
      (∀ b, op ≠ .newEntries b) → (∀ t c, op ≠ .changeConfig t c) → (∀ a b c, op ≠ .voteResult a b c) →
      (∀ us, op ≠ .replUpdates us) → Snap.Enabled x 2 op 0 := C09Sys.exEnabled
  have s0 : Side4 [1, 2, 3] exW0 := exSide4 _ (C04Sys.exNode 2) rfl rfl (by
    show C04Sys.exNode = _
    funext j; unfold setNode; split
    · rename_i h; rw [h]
    · rfl) (by decide) rfl (by decide)
  have t1 : Snap4.Trans exW0 exW1 :=
    .step 2 (.takeSnapshot 7 0) [] [] 0
      (en _ _ trivial (fun _ h => by cases h) (fun _ h => by cases h) (fun _ h => by cases h)
        (fun _ _ h => by cases h) (fun _ _ _ h => by cases h) (fun _ h => by cases h)) (by decide)
  have s1 : Side4 [1, 2, 3] exW1 :=
    exSide4 _ ((C04Sys.exNode 2).step (.takeSnapshot 7 0) [] []) (by decide) (by decide) rfl (by decide) (by decide)
      (by decide)
  have t2 : Snap4.Trans exW1 exW2 :=
    .step 2 .snapRun [] [] 0
      (en _ _ trivial (fun _ h => by cases h) (fun _ h => by cases h) (fun _ h => by cases h)
        (fun _ _ h => by cases h) (fun _ _ _ h => by cases h) (fun _ h => by cases h)) (by decide)
  have s2 : Side4 [1, 2, 3] exW2 :=
    exSide4 _ (((C04Sys.exNode 2).step (.takeSnapshot 7 0) [] []).step .snapRun [] []) (by decide) (by decide)
      (by
        show setNode (setNode C04Sys.exNode 2 _) 2 _ = _
        funext j
        unfold setNode
        split <;> rfl) (by decide) (by decide) (by decide)
  have t3 : Snap4.Trans exW2 exW3 :=
    .step 2 .snapTaken [] [] 0
      (en _ _ trivial (fun _ h => by cases h) (fun _ h => by cases h) (fun _ h => by cases h)
        (fun _ _ h => by cases h) (fun _ _ _ h => by cases h) (fun _ h => by cases h)) (by decide)
  have s3 : Side4 [1, 2, 3] exW3 :=
    exSide4 _ ((((C04Sys.exNode 2).step (.takeSnapshot 7 0) [] []).step .snapRun [] []).step .snapTaken [] [])
      (by decide) (by decide) (by
        show setNode (setNode (setNode C04Sys.exNode 2 _) 2 _) 2 _ = _
        funext j
        unfold setNode
        split <;> rfl) (by decide) (by decide) (by decide)
  exact .next _ _ (.next _ _ (.next _ _ (.init _ exW0_init4F s0) t1 s1) t2 s2) t3 s3

set_option maxRecDepth 100000 in
/-- EXAMPLE (`nodeInv_reachable4F`, `latest_is_newest_sys_partial`, `tracks_after_crash_at_any_point_sys_partial`,
`restart_succeeds_snap_run_partial`): their hypotheses hold for node 2 of `exW3`, its election timeout and the crash point
`k = 1` (term 2 and its own vote are on disk); the node the theorems promise is `C10Sys2.exRn` — NO `SnapFbOp` / `NodeInv` /
`ReqLab` / `ReqFirst` hypothesis is left -/
example : [1, 2, 3].Nodup ∧ Reachable4F [1, 2, 3] exW3 ∧ Snap.Enabled exW3.s2.cs 2 .timeout 0 ∧
    ((exW3.node 2).step .timeout [] []).panicked = none ∧ (exW3.node 2).cid ≠ 0 ∧
    Node.restart (C05.crashDisk (exW3.node 2) .timeout [] [] 1) 1 true = some exRn ∧ exRn.term = 2 :=
  ⟨by decide, exW3_reach4F, exTimeout_enabled _, by decide, by decide, exRn_restart, by decide⟩

/-- EXAMPLE (`reachable4F_next`, and the install clause of `tracks_after_crash_in_install_sys_partial` /
`restart_succeeds_install_run_partial`): the cluster after that crash and restart (`C10Sys2.exW3c`) is reachable from
`Init4F` again, so every node of it — the restarted one included — satisfies `NodeInv`; and a STALE install request (term 0
< term 1 of node 2) may be delivered to node 2 of `exW3` and completes -/
example : Reachable4F [1, 2, 3] exW3c ∧ NodeInv (exW3c.node 2) ∧
    (exMs.q.term < (exW3.node 2).term ∨ exMs ∈ exW3.sentSnaps) ∧
    ((exW3.node 2).step (.install exMs.q) [] []).panicked = none := by
  have h : Reachable4F [1, 2, 3] exW3c := reachable4F_next exW3_reach4F exW3c_crashOf.1.trans exW3c_crashOf.2
  exact ⟨h, (nodeInv_reachable4F (by decide) _ h 2).1, Or.inl (by decide), by decide⟩

end

section
open SysInv

/-- EXAMPLE (`ReachableGF`): the initial state `C02Sys.ex0` and the state `C02Sys.ex1` after the election timeout of node 1
(the run of `C19Sys.ex1_reachable`) -/
theorem ex0_reachGF : ReachableGF [1, 2, 3] C02Sys.ex0 :=
  .init _ C02Sys.ex0_init.1 C02Sys.ex0_init.2 C19Sys.ex0_sideG C19Sys.ex0_ginv C19Sys.ex0_tracks exNode_nodeInv

set_option maxRecDepth 100000 in
theorem ex1_reachGF : ReachableGF [1, 2, 3] C02Sys.ex1 :=
  .next C02Sys.ex0 C02Sys.ex1 ex0_reachGF (.step 1 .timeout [] [] 0 C19Sys.ex1_enabled.1 C19Sys.ex1_enabled.2 rfl)
    C02Sys.ex1_side C19Sys.ex1_sideG

/-- EXAMPLE (`tracks_after_crash_at_any_point_sysG_partial`): its hypotheses hold for node 1 of `ex0`, its election timeout
and the crash point `k = 1`; the restarted node is `C19Sys.exN` -/
example : [1, 2, 3].Nodup ∧ ReachableGF [1, 2, 3] C02Sys.ex0 ∧ Commit.Enabled C02Sys.ex0 1 .timeout 0 ∧
    EnabledG C02Sys.ex0 1 .timeout ∧ (C02Sys.ex0.node 1).closed = "" ∧ (C02Sys.ex0.node 1).cid ≠ 0 ∧
    Node.restart (C05.crashDisk (C02Sys.ex0.node 1) .timeout [] [] 1) 1 true = some C19Sys.exN :=
  ⟨by decide, ex0_reachGF, C19Sys.ex1_enabled.1, C19Sys.ex1_enabled.2, rfl, by decide, C19Sys.exN_restart⟩

end

end C19FsmConfigRun
end Raft

#print axioms Raft.FirstCfgSys.nodeInv_step_nc
#print axioms Raft.FirstCfgSys.crashDisk_pd_nc -- also C12
#print axioms Raft.FirstCfgSys.nodeInv_crash_nc -- also C12
#print axioms Raft.FirstCfgSys.first_of_readFrom2
#print axioms Raft.FirstCfgSys.lab_of_snapRead
#print axioms Raft.FirstCfgSys.invF_trans
#print axioms Raft.FirstCfgSys.reach4F
#print axioms Raft.C19FsmConfigRun.nodeInv_reachable4F -- also C12
#print axioms Raft.C19FsmConfigRun.ledgers_reachable4F
#print axioms Raft.C19FsmConfigRun.enabled_ok_reachable4F
#print axioms Raft.C19FsmConfigRun.latest_is_newest_sys_partial
#print axioms Raft.C19FsmConfigRun.reachable4F_of_run
#print axioms Raft.C19FsmConfigRun.tracks_after_crash_at_any_point_sys_partial -- also C12
#print axioms Raft.C19FsmConfigRun.tracks_after_crash_in_install_sys_partial -- also C12
#print axioms Raft.C19FsmConfigRun.restart_succeeds_snap_run_partial -- also C10
#print axioms Raft.C19FsmConfigRun.restart_succeeds_install_run_partial -- also C10
#print axioms Raft.C19FsmConfigRun.exW3_reach4F
#print axioms Raft.FirstCfgSys.invG_trans
#print axioms Raft.FirstCfgSys.reachGF
#print axioms Raft.C19FsmConfigRun.nodeInv_reachableGF -- also C12
#print axioms Raft.C19FsmConfigRun.nodeInv_runG_partial -- also C12
#print axioms Raft.C19FsmConfigRun.latest_is_newest_sysG_partial
#print axioms Raft.C19FsmConfigRun.tracks_after_crash_at_any_point_sysG_partial -- also C12 C10
#print axioms Raft.C19FsmConfigRun.ex1_reachGF
