/-
C08 — Membership changes, for EVERY operation: how `configs` (latest / committed configuration) can move in a step.

`Props/C08.lean` has the local theorems about `doChangeConfig` / `checkConfigActions` / `onChangeConfig`. Here is the
two-state statement for `Node.step` itself (definitions in `Lemmas/ConfigRel.lean`, namespace `CfgRel`):

* `ConfigStep s op s'` : `s'.configs` is reached from `s.configs` by a `Chain` of `Move`s, each of them one of
  (a) `change`  — LEADER CHANGE: the node IS leader and a voter, its configuration is committed, no transfer is in
                  progress, an entry of its own term is committed (`ldr.startIndex ≤ commitIndex`); the new `latest` is
                  the entry just appended (index `lastLogIndex`, beyond the predecessor's; the leader's term); it is
                  derived by at most ONE action from a configuration with the predecessor's voters and keeps an
                  anchor (a voter without pending action); `committed :=` the predecessor;
  (b) `commit`  — `latest` unchanged, `committed := latest`, because the commit index moves to `i ≥ latest.index`;
  (c) `adopt` / `revert` — a follower stores a configuration entry of the append request being handled
                  (`committed :=` previous `latest`), or truncates at or below `latest.index` (`latest := committed`);
  (d) `install` — `latest = committed =` the label of the snapshot of the install request;
  (e) `bootstrap`.
  (f) RESTART is not a step: `C10.restart_configs` (the newest two configuration entries above the snapshot, else
      the label).
  A `Phase` records where the step stands: `fresh` (no configuration introduced so far), `changed` (one, not committed
  since), `settled` (that one was committed within the step: the single-voter fast path), `nested` (more than one, or
  one after a failure was recorded). The comparison with the immediate predecessor is claimed for the first
  configuration a step introduces (`Move.change`); `nested` is reached only through the single-voter fast path (or
  match indexes beyond the leader's log, or a recorded failure).
* `config_step` : `ConfigStep s op (s.step op rollAt orders)` for every operation, oracle and input, from
  `SelfCache s` (the leader's cached own entry is current — `C06Cache.LeaderCache`), `latest.index ≤ lastLogIndex`
  (`Order.Ordered`), an anchor in a non-empty latest configuration (`NoPanic.Glob.cfgL`) and `OpOk op`.
  `config_step_good`: the same from `NoPanic.Good`.
* corollaries: `config_step_cases` (the cases of a leader's step), `leader_config_adjacent` / `settled_configs`
  (`OneChange`: adjacent to the predecessor, which was committed; own-term entry committed; leader and voter; no
  transfer), `at_most_one_uncommitted` (moves), `at_most_one_uncommitted_log_partial` (`LogInv`: the configuration
  entries of the LOG, every operation except the append request), `always_a_voter` (+ `_run`, `av_has_voter`).
* examples: satisfiability (leader: demotion committed at once, promotion; follower adoption), and necessity of each
  hypothesis. Nothing reachable was found. Observations: (1) `leader.setCommitIndex` goes on to `checkConfigActions`
  after the leader stepped down in `Raft.setCommitIndex` — harmless only because `storeEntry` consults the cached
  `l.node.Voter` (`exStale`); (2) on a follower `configs.committed` is merely the previous `latest` (`exNewLeader`).
-/
import RaftVerif.Lemmas.ConfigRel
import RaftVerif.Props.C06Cache
import RaftVerif.Props.C15NoPanic

namespace Raft
namespace C08Step
open Node CfgRel

/-! ### the statement for every operation -/

/-- **How `configs` moves in ANY step.** For every operation `op` (any RPC with any content, any timeout, task,
replication update, snapshot event, shutdown), every oracle and input: the configurations of the state after the
step are reached from those before it by a chain of the moves (a)–(e) of `CfgRel.Move` — leader change under the
guards (leader and voter; predecessor committed; own-term entry committed; no transfer; one action; an anchor stays),
commit, follower adoption / revert, install, bootstrap — and by nothing else. No assumption that nothing fails. -/
theorem config_step (s : Node) (op : Op) (rollAt : List Nat) (orders : List (List Nat)) (hsc : SelfCache s)
    (hli : s.configs.latest.index ≤ s.lastLogIndex) (hanch : AnchC s.configs.latest) (hok : OpOk op) :
    ConfigStep s op (s.step op rollAt orders) := by
  have fin : ∀ x, Fin s op x → ConfigStep s op x := fun x ⟨ph, hm⟩ => ⟨ph, hm.chain⟩
  have m0 := main_begin s op rollAt orders hli hanch
  by_cases ha : ∃ q, op = .append q
  · obtain ⟨q, rfl⟩ := ha
    show ConfigStep s _ (settle 6 ((s.begin rollAt orders).handle (.append q)) (s.begin rollAt orders).role)
    have hh : (s.begin rollAt orders).handle (.append q) = ((s.begin rollAt orders).onAppendEntries q).rpcDone false true := rfl
    rcases onAppendEntries_fi (s.begin rollAt orders) q rfl m0.chain m0.ci with h | h
    · rw [hh, h]
      exact fin _ (settle_fin 6 _ _ _ ((mainQ s _ _).rpcDone_q _ _ _ ((mainQ s _ _).ret _ _ m0)))
    · have h' : FI s (.append q) ((s.begin rollAt orders).handle (.append q)) := by
        rw [hh]; exact h.congr (kf_rpcDone _ _ _)
      exact ⟨.fresh, by rw [settle_follower 6 _ _ h'.role]; exact h'.chain⟩
  by_cases hi : ∃ q, op = .install q
  · obtain ⟨q, rfl⟩ := hi
    show ConfigStep s _ (settle 6 ((s.begin rollAt orders).handle (.install q)) (s.begin rollAt orders).role)
    have hh : (s.begin rollAt orders).handle (.install q) = ((s.begin rollAt orders).onInstallSnap q).rpcDone false := rfl
    rcases onInstallSnap_fi (s.begin rollAt orders) q rfl m0.chain m0.ci with h | h
    · rw [hh, h]
      exact fin _ (settle_fin 6 _ _ _ ((mainQ s _ _).rpcDone_q _ _ _ ((mainQ s _ _).ret _ _ m0)))
    · have h' : FI s (.install q) ((s.begin rollAt orders).handle (.install q)) := by
        rw [hh]; exact h.congr (kf_rpcDone _ _ _)
      exact ⟨.fresh, by rw [settle_follower 6 _ _ h'.role]; exact h'.chain⟩
  have hf := handle_fin s op rollAt orders hsc hli hanch hok (fun q h => ha ⟨q, h⟩) (fun q h => hi ⟨q, h⟩)
  obtain ⟨ph, hm⟩ := hf
  unfold Node.step
  dsimp only
  split
  · exact ⟨ph, hm.chain⟩
  · exact fin _ (settle_fin 6 _ _ ph hm)

/-- the hypotheses of `config_step` are part of `C06Cache.LeaderCache` … -/
theorem selfCache_of_leaderCache (s : Node) (h : C06Cache.LeaderCache s) : SelfCache s := by
  intro hr
  rw [(h hr).node]
  exact get_voter_eq_isVoter _ _

/-- an anchor in the sense of `NoPanic.Anchored` (an entry that is the only one of its id) is one in the sense of
`CfgRel.HasAnchor` (the entry found under that id) -/
theorem hasAnchor_of_anchored {c : Config} (h : NoPanic.Anchored c) : HasAnchor c := by
  obtain ⟨a, hm, hv, hact, huniq⟩ := h
  refine ⟨a.id, a, ?_, hv, hact⟩
  unfold Config.find?
  cases hf : c.nodes.find? (·.id == a.id) with
  | none =>
    have := List.find?_eq_none.mp hf a hm
    simp at this
  | some m =>
    have hmem : m ∈ c.nodes := List.mem_of_find?_eq_some hf
    have hid : m.id = a.id := by simpa using List.find?_some hf
    rw [huniq m hmem hid]

/-- … and of `NoPanic.Good`: **the statement for every operation from the no-failure invariant** (any `T`) -/
theorem config_step_good {T : Bool} (s : Node) (op : Op) (rollAt : List Nat) (orders : List (List Nat))
    (hG : NoPanic.Good T s) (ho : s.closed = "") (hok : OpOk op) : ConfigStep s op (s.step op rollAt orders) := by
  refine config_step s op rollAt orders ?_ hG.ordered.latest_le_last ?_ hok
  · intro hr
    have hc := (hG.leader ho hr).2
    rw [((LC.cache_iff s).mp hc).2.1]
    exact get_voter_eq_isVoter _ _
  · by_cases hn : s.configs.latest.nodes = []
    · exact Or.inl hn
    · exact Or.inr (hasAnchor_of_anchored (hG.glob.cfgL.2 hn).1)

/-! ### reading the chain -/

variable {s : Node} {op : Op}

/-- in phase `changed` (a configuration was introduced in this step and not committed since) the latest
configuration is not committed -/
theorem changed_uncommitted {ph : Phase} {cs : Configs} (h : Chain s op ph cs) (hp : ph = .changed) :
    cs.isCommitted = false := by
  induction h with
  | start => cases hp
  | @step ph0 ph1 cs0 cs1 hc mv _ =>
    cases mv with
    | change _ x b c _ _ _ _ _ _ _ _ hlt =>
      unfold Configs.isCommitted
      simp only [beq_eq_false_iff_ne, ne_eq]
      omega
    | commit _ _ i => cases ph0 <;> cases hp
    | adopt => cases hp
    | revert => cases hp
    | install => cases hp
    | bootstrap => cases hp

/-- the operation is handled by leader code only: not an append or install request, and a `ChangeConfig` request is
taken by a leader -/
def LeaderOp (s : Node) (op : Op) : Prop :=
  (∀ q, op ≠ .append q) ∧ (∀ q, op ≠ .install q) ∧ (∀ t c, op = .changeConfig t c → s.role = .leader)

/-- while no configuration was introduced (`fresh`), a leader operation has at most committed the latest one -/
theorem fresh_configs {ph : Phase} {cs : Configs} (h : Chain s op ph cs) (hp : ph = .fresh) (hl : LeaderOp s op) :
    cs = s.configs ∨ (s.configs.isCommitted = false ∧ cs = ⟨s.configs.latest, s.configs.latest⟩) := by
  induction h with
  | start => exact Or.inl rfl
  | @step ph0 ph1 cs0 cs1 hc mv ih =>
    cases mv with
    | change => exact absurd hp (Phase.afterChangeP_ne _ _)
    | commit _ _ i hnc =>
      rcases ih (Phase.afterCommit_fresh hp) with h | h
      · subst h; exact Or.inr ⟨hnc, rfl⟩
      · rw [h.2, isCommitted_self] at hnc; cases hnc
    | adopt _ q _ _ hop => exact absurd hop (hl.1 q)
    | revert _ q _ hop => exact absurd hop (hl.1 q)
    | install _ q hop => exact absurd hop (hl.2.1 q)
    | bootstrap t c _ hop hr => exact absurd (hl.2.2 t c hop) hr

/-- what is known of the ONE configuration a step has introduced when it ends in phase `changed` -/
structure OneChange (s : Node) (op : Op) (cs : Configs) (x : Node) (c : Config) : Prop where
  /-- the configurations after the step: the predecessor and the new configuration -/
  configs : cs = ⟨x.configs.latest, c⟩
  /-- `x` (the leader right after it appended the entry) is the same node, not older than `s` -/
  nid : x.nid = s.nid
  term : s.term ≤ x.term
  ci : s.commitIndex ≤ x.commitIndex
  /-- it is leader, and a voter of its configuration -/
  leader : x.role = .leader
  voter : x.configs.latest.isVoter x.nid = true
  /-- the predecessor is committed, no transfer is in progress, an entry of the leader's own term is committed -/
  committed : x.configs.isCommitted = true
  noTransfer : x.ldr.transfer.active = false
  ownTerm : x.ldr.startIndex ≤ x.commitIndex
  /-- the new configuration is the entry just appended -/
  newer : x.configs.latest.index < c.index
  index : c.index = x.lastLogIndex
  cterm : c.term = x.term
  /-- adjacent to the predecessor, and anchored -/
  adjacent : Adjacent x.configs.latest c
  /-- no failure had been recorded -/
  noPanic : x.panicked = none
  anchor : HasAnchor c
  /-- before it only commits (or follower moves) happened -/
  before : Chain s op .fresh x.configs

/-- **every configuration a leader introduces** (a step ending in phase `changed`: exactly one was introduced):
it is adjacent to its predecessor — voting rights differ at one node at most, a voter remains —, the predecessor was
committed, an entry of the leader's own term was committed, no transfer was in progress, and the node was leader and
voter. -/
theorem leader_config_adjacent {ph : Phase} {cs : Configs} (h : Chain s op ph cs) (hp : ph = .changed) :
    ∃ x c, OneChange s op cs x c := by
  cases h with
  | start => cases hp
  | @step ph0 ph1 cs0 cs1 hc mv =>
    cases mv with
    | change _ x b c h1 h2 h3 h4 h5 h6 h7 h8 h9 h10 h11 h12 h13 h14 =>
      cases hx : x.panicked with
      | some v => rw [hx] at hp; cases ph0 <;> cases hp
      | none =>
        rw [hx] at hp
        cases ph0 with
        | fresh =>
          exact ⟨x, c, rfl, h1, h2, h3, h4, h5, h6, h7, h8, h9, h10, h11,
            ⟨h12.adjacent (h13 rfl hx), h14.voter⟩, hx, h14, hc⟩
        | changed => rw [changed_uncommitted hc rfl] at h6; cases h6
        | settled => cases hp
        | nested => cases hp
    | commit _ _ i => cases ph0 <;> cases hp
    | adopt => cases hp
    | revert => cases hp
    | install => cases hp
    | bootstrap => cases hp

/-- … for a leader operation the predecessor is the latest configuration before the step -/
theorem OneChange.pred {cs : Configs} {x : Node} {c : Config} (h : OneChange s op cs x c) (hl : LeaderOp s op) :
    cs.committed = s.configs.latest ∧ x.configs.latest = s.configs.latest := by
  have : x.configs.latest = s.configs.latest := by
    rcases fresh_configs h.before rfl hl with e | e
    · rw [e]
    · rw [e.2]
  rw [h.configs]
  exact ⟨this, this⟩

/-- a step ending in phase `settled`: exactly one configuration `c` was introduced (as `OneChange` describes, from
the configurations `⟨x.configs.latest, c⟩`) and committed at once -/
theorem settled_configs {ph : Phase} {cs : Configs} (h : Chain s op ph cs) (hp : ph = .settled) :
    ∃ x c, OneChange s op ⟨x.configs.latest, c⟩ x c ∧ cs = ⟨c, c⟩ := by
  induction h with
  | start => cases hp
  | @step ph0 ph1 cs0 cs1 hc mv ih =>
    cases mv with
    | change _ x =>
      cases hx : x.panicked <;> rw [hx] at hp <;> cases ph0 <;> cases hp
    | commit _ _ i hnc =>
      cases ph0 with
      | changed =>
        obtain ⟨x, c, h⟩ := leader_config_adjacent hc rfl
        have e := h.configs
        subst e
        exact ⟨x, c, h, rfl⟩
      | fresh => cases hp
      | settled =>
        -- a configuration that is committed cannot be committed again
        obtain ⟨x, c, _, e⟩ := ih rfl
        rw [e, isCommitted_self] at hnc
        cases hnc
      | nested => cases hp
    | adopt => cases hp
    | revert => cases hp
    | install => cases hp
    | bootstrap => cases hp

/-- **the cases of a leader's step** (any operation other than append / install / bootstrap): `configs` is unchanged;
or the latest configuration got committed; or exactly one configuration `c` was introduced, as `OneChange` describes,
adjacent to `s.configs.latest`, and either `committed` is now `s.configs.latest` or `c` was committed at once
(`⟨c, c⟩`: the single-voter fast path); or a further configuration was introduced after that (`nested` — see
`Move.change` for what is known of each). -/
theorem config_step_cases (s : Node) (op : Op) (rollAt : List Nat) (orders : List (List Nat)) (hsc : SelfCache s)
    (hli : s.configs.latest.index ≤ s.lastLogIndex) (hanch : AnchC s.configs.latest) (hok : OpOk op)
    (hl : LeaderOp s op) :
    let s' := s.step op rollAt orders
    s'.configs = s.configs ∨
    (s.configs.isCommitted = false ∧ s'.configs = ⟨s.configs.latest, s.configs.latest⟩) ∨
    (∃ x c, OneChange s op ⟨s.configs.latest, c⟩ x c ∧ Adjacent s.configs.latest c ∧
      (s'.configs = ⟨s.configs.latest, c⟩ ∨ s'.configs = ⟨c, c⟩)) ∨
    Chain s op .nested s'.configs := by
  intro s'
  obtain ⟨ph, hc⟩ := config_step s op rollAt orders hsc hli hanch hok
  cases ph with
  | fresh =>
    rcases fresh_configs hc rfl hl with h | h
    · exact Or.inl h
    · exact Or.inr (Or.inl h)
  | changed =>
    obtain ⟨x, c, h⟩ := leader_config_adjacent hc rfl
    obtain ⟨_, e⟩ := h.pred hl
    have hcfg : s'.configs = ⟨s.configs.latest, c⟩ := by rw [h.configs, e]
    refine Or.inr (Or.inr (Or.inl ⟨x, c, ?_, ?_, Or.inl hcfg⟩))
    · rw [← hcfg]; exact h
    · rw [← e]; exact h.adjacent
  | settled =>
    obtain ⟨x, c, h, hcfg⟩ := settled_configs hc rfl
    obtain ⟨_, e⟩ := h.pred hl
    refine Or.inr (Or.inr (Or.inl ⟨x, c, ?_, ?_, Or.inr hcfg⟩))
    · rw [← e]; exact h
    · rw [← e]; exact h.adjacent
  | nested => exact Or.inr (Or.inr (Or.inr hc))

/-- **a leader holds at most one configuration that is not committed, and introduces the next one only after that
one is committed**: in a leader operation, a move that replaces `latest` starts from committed configurations
(`isCommitted`) and ends in uncommitted ones whose `committed` is the predecessor; the only other move is the commit
of that one configuration. (On a follower `committed` is merely the previous `latest`, see `Move.adopt`.) -/
theorem at_most_one_uncommitted {ph ph' : Phase} {cs cs' : Configs} (mv : Move s op ph cs ph' cs')
    (hl : LeaderOp s op) :
    (cs.isCommitted = true ∧ cs'.isCommitted = false ∧ cs'.committed = cs.latest ∧
      cs.latest.index < cs'.latest.index) ∨
    (cs.isCommitted = false ∧ cs'.latest = cs.latest ∧ cs'.committed = cs.latest) := by
  cases mv with
  | change _ x b c _ _ _ _ _ h6 _ _ hlt =>
    refine Or.inl ⟨h6, ?_, rfl, hlt⟩
    unfold Configs.isCommitted
    simp only [beq_eq_false_iff_ne, ne_eq]
    omega
  | commit _ _ i hnc => exact Or.inr ⟨hnc, rfl, rfl⟩
  | adopt _ q _ _ hop => exact absurd hop (hl.1 q)
  | revert _ q _ hop => exact absurd hop (hl.1 q)
  | install _ q hop => exact absurd hop (hl.2.1 q)
  | bootstrap t c _ hop hr => exact absurd (hl.2.2 t c hop) hr

/-- what `LogInv` says: a configuration entry of the log beyond `configs.committed` is the entry of `configs.latest`;
in particular, when the latest configuration is committed (`isCommitted`) the log holds NO configuration entry
beyond it -/
theorem logInv_reads (x : Node) (h : LogInv x) :
    (∀ e ∈ x.log.entries, e.typ = etConfig → x.configs.committed.index < e.index → e.index = x.configs.latest.index) ∧
    (x.configs.isCommitted = true → ∀ e ∈ x.log.entries, e.typ = etConfig → e.index ≤ x.configs.latest.index) := by
  refine ⟨fun e he ht hlt => ?_, fun hc e he ht => ?_⟩
  · rcases h.1 e he ht with h' | h'
    · omega
    · exact h'
  · have := isCommitted_eq hc
    rcases h.1 e he ht with h' | h'
    · omega
    · omega

/-- **at most one uncommitted configuration entry in the log** (`LogInv`: beyond the index of `configs.committed`
the log holds no configuration entry other than that of `configs.latest`, and `committed.index ≤ latest.index`) is
preserved by every step that completes — for every operation OTHER THAN AN APPEND-ENTRIES REQUEST: the leader
appends a configuration entry only together with adopting it, from committed configurations; commits and client
entries add none; compaction and install only remove entries.

PARTIAL: the append-entries request (follower side) is not covered. There the statement needs the hypothesis of
`Order.AppendOk` that a conflicting entry lies above `configs.committed.index` (on a follower `committed` is merely
the previous `latest`, and a truncation below it would leave `configs` pointing at removed entries), and the
no-failure argument of `Lemmas/Order.lean` for the entry indexes. With respect to the COMMIT INDEX the statement is
false for a new leader: a follower that received two configuration entries in one request without the commit index
covering them holds both above its commit index when it is elected. -/
theorem at_most_one_uncommitted_log_partial (s : Node) (op : Op) (rollAt : List Nat) (orders : List (List Nat))
    (hsc : SelfCache s) (hli : s.configs.latest.index ≤ s.lastLogIndex) (hanch : AnchC s.configs.latest)
    (hok : OpOk op) (hl : LogInv s) (ha : ∀ q, op ≠ .append q)
    (hp : (s.step op rollAt orders).panicked = none) : LogInv (s.step op rollAt orders) := by
  have m0 := main_begin s op rollAt orders hli hanch
  by_cases hi : ∃ q, op = .install q
  · obtain ⟨q, rfl⟩ := hi
    have hst : s.step (.install q) rollAt orders =
        settle 6 ((s.begin rollAt orders).handle (.install q)) (s.begin rollAt orders).role := rfl
    have hh : (s.begin rollAt orders).handle (.install q) = ((s.begin rollAt orders).onInstallSnap q).rpcDone false := rfl
    rw [hst] at hp ⊢
    rcases onInstallSnap_fi (s.begin rollAt orders) q rfl m0.chain m0.ci with h | h
    · rw [hh, h] at hp ⊢
      obtain ⟨ph, hm⟩ := settle_fin 6 _ (s.begin rollAt orders).role _
        ((mainQ s _ _).rpcDone_q _ false false ((mainQ s _ _).ret _ rStaleTerm m0))
      exact hm.cl hl hp
    · have h' : FI s (.install q) ((s.begin rollAt orders).handle (.install q)) := by
        rw [hh]; exact h.congr (kf_rpcDone _ _ _)
      have hq := settle_follower_q 6 _ (s.begin rollAt orders).role h'.role
      refine LogInv.congr ?_ hq.configs (fun e he => by rw [← hq.entries]; exact he)
      rw [hh]
      have hq2 : ∀ (y : Node) (a b : Bool), (y.rpcDone a b).configs = y.configs ∧ (y.rpcDone a b).log = y.log := by
        intro y a b
        unfold Node.rpcDone Node.panic
        constructor <;> repeat' split
        all_goals rfl
      exact (onInstallSnap_logInv (s.begin rollAt orders) q hl).congr (hq2 _ _ _).1
        (fun e he => by rw [← (hq2 _ _ _).2]; exact he)
  · have hf := handle_fin s op rollAt orders hsc hli hanch hok ha (fun q h => hi ⟨q, h⟩)
    obtain ⟨ph, hm⟩ := hf
    have key : ∃ ph', Main s op ph' (s.step op rollAt orders) := by
      unfold Node.step
      dsimp only
      split
      · exact ⟨ph, hm⟩
      · exact settle_fin 6 _ _ ph hm
    obtain ⟨ph', hm'⟩ := key
    exact hm'.cl hl hp

/-! ### a voter always remains -/

/-- the zero configuration (a node that holds none), or a configuration with an anchor -/
def AnchZ (c : Config) : Prop := (c.nodes = [] ∧ c.index = 0) ∨ HasAnchor c

/-- **the invariant**: both configurations a node holds are zero or anchored -/
def AV (s : Node) : Prop := AnchZ s.configs.latest ∧ AnchZ s.configs.committed

/-- well-formedness of the configurations carried by requests: every configuration entry of an append request,
and the label of an installed snapshot, has an anchor (what a correct leader sends: its own configurations) -/
def ReqAnch : Op → Prop
  | .append q => ∀ e ∈ q.entries, ∀ c, e.config? = some c → HasAnchor c
  | .install q => AnchZ q.lastConfig
  | _ => True

theorem AnchZ.anchC {c : Config} (h : AnchZ c) : AnchC c := h.imp (fun h => h.1) id

theorem chain_av {ph : Phase} {cs : Configs} (h : Chain s op ph cs) (hav : AV s) (hreq : ReqAnch op) :
    AnchZ cs.latest ∧ AnchZ cs.committed := by
  induction h with
  | start => exact hav
  | step hc mv ih =>
    cases mv with
    | change _ x b c _ _ _ _ _ _ _ _ _ _ _ _ _ ha => exact ⟨Or.inr ha, ih.1⟩
    | commit => exact ⟨ih.1, ih.1⟩
    | adopt _ q e c hop he hc' =>
      subst hop
      exact ⟨Or.inr (hreq e he c hc'), ih.1⟩
    | revert => exact ⟨ih.2, ih.2⟩
    | install _ q hop =>
      subst hop
      exact ⟨hreq, hreq⟩
    | bootstrap t c self hop _ _ hself hv hst =>
      refine ⟨Or.inr ⟨s.nid, self, hself, hv, ?_⟩, hav.1⟩
      have hmem : self ∈ c.nodes := List.mem_of_find?_eq_some hself
      unfold Config.isStable at hst
      have := List.all_eq_true.mp hst self hmem
      simpa using this

/-- **a voter always remains**: `AV` is preserved by every step — every configuration a node adopts (as leader: by
one action that never touches an anchor; as follower: from requests whose configurations are anchored; by
bootstrap: stable with itself a voter) has a voter without pending action. -/
theorem always_a_voter (s : Node) (op : Op) (rollAt : List Nat) (orders : List (List Nat)) (hsc : SelfCache s)
    (hli : s.configs.latest.index ≤ s.lastLogIndex) (hav : AV s) (hok : OpOk op) (hreq : ReqAnch op) :
    AV (s.step op rollAt orders) := by
  obtain ⟨ph, hc⟩ := config_step s op rollAt orders hsc hli hav.1.anchC hok
  exact chain_av hc hav hreq

/-- … hence the latest configuration of a bootstrapped node has a voter -/
theorem av_has_voter (s : Node) (h : AV s) (hb : s.configs.isBootstrapped = true) :
    ∃ v, s.configs.latest.isVoter v = true := by
  rcases h.1 with h | h
  · unfold Configs.isBootstrapped Config.isBootstrapped at hb
    rw [h.2] at hb
    simp at hb
  · exact h.voter

/-- every operation of the run is acceptable for `config_step` and carries anchored configurations -/
def RunAnch : List (Op × List Nat × List (List Nat)) → Prop
  | [] => True
  | o :: os => OpOk o.1 ∧ ReqAnch o.1 ∧ RunAnch os

/-- **along any run** of a good node (`NoPanic.Good`: it supplies `SelfCache` and `latest.index ≤ lastLogIndex`
at every step) whose requests are acceptable: a voter always remains. -/
theorem always_a_voter_run {T : Bool} (s : Node) (ops : List (Op × List Nat × List (List Nat)))
    (hG : NoPanic.Good T s) (hr : C15NoPanic.RunOk T s ops) (ha : RunAnch ops) (hav : AV s) :
    AV (C19Order.run s ops) := by
  induction ops generalizing s with
  | nil => exact hav
  | cons o os ih =>
    obtain ⟨h1, h2, h3, h4⟩ := hr
    obtain ⟨a1, a2, a3⟩ := ha
    refine ih _ (C15NoPanic.good_step s o.1 o.2.1 o.2.2 hG h1 h2 h3) h4 a3 ?_
    refine always_a_voter s o.1 o.2.1 o.2.2 ?_ hG.ordered.latest_le_last hav a1 a2
    intro hl
    have hc := (hG.leader h1 hl).2
    rw [((LC.cache_iff s).mp hc).2.1]
    exact get_voter_eq_isVoter _ _

/-! ### examples: the hypotheses are satisfiable -/

/-- EXAMPLE state: the leader of `C06Cache.exLeader` (node 1 leads {1 voter, 2 voter, 3 non-voter being promoted},
entries 1..3, commit index 2 ≥ startIndex 2, configuration 1 committed) -/
def exL : Node := C06Cache.exLeader

/-- EXAMPLE state: the follower of `C19Order.exNode` (entries 2..4 above a snapshot at 1, configuration 1) -/
def exF : Node := C19Order.exNode

theorem exL_anchor : HasAnchor exL.configs.latest :=
  ⟨1, { id := 1, addr := "a:1", voter := true }, by decide, rfl, rfl⟩

theorem exL_av : AV exL := ⟨Or.inr exL_anchor, Or.inr exL_anchor⟩

theorem exF_av : AV exF :=
  ⟨Or.inr ⟨1, { id := 1, addr := "a:1", voter := true }, by decide, rfl, rfl⟩,
   Or.inr ⟨1, { id := 1, addr := "a:1", voter := true }, by decide, rfl, rfl⟩⟩

/-- EXAMPLE (`config_step`, `config_step_cases`, leader side): the hypotheses hold for `exL` and the client's
request to demote node 2 (`C06Cache.exDemote`); hence the step is one of the four cases. -/
example :
    SelfCache exL ∧ exL.configs.latest.index ≤ exL.lastLogIndex ∧ AnchC exL.configs.latest ∧
    OpOk (.changeConfig 1 C06Cache.exDemote) ∧ LeaderOp exL (.changeConfig 1 C06Cache.exDemote) ∧
    ConfigStep exL (.changeConfig 1 C06Cache.exDemote) (exL.step (.changeConfig 1 C06Cache.exDemote) [] []) := by
  have h1 : SelfCache exL := fun _ => by decide
  have h2 : exL.configs.latest.index ≤ exL.lastLogIndex := by decide
  have h3 : AnchC exL.configs.latest := Or.inr exL_anchor
  have h4 : OpOk (.changeConfig 1 C06Cache.exDemote) := by unfold OpOk; decide
  have h5 : LeaderOp exL (.changeConfig 1 C06Cache.exDemote) := by
    unfold LeaderOp
    exact ⟨fun q h => (by cases h), fun q h => (by cases h), fun _ _ _ => rfl⟩
  exact ⟨h1, h2, h3, h4, h5, config_step _ _ _ _ h1 h2 h3 h4⟩

-- … it is the third case, in its second form: configuration 4 = {1 voter, 2 non-voter, 3 …} is introduced (adjacent to
-- {1, 2 voters}: node 2 loses the vote, the anchor 1 stays) and, node 1 being the only voter left, committed at once
-- (`settled`). (`Config.validate` parses addresses: `#guard` runs the compiled model.)
#guard (exL.step (.changeConfig 1 C06Cache.exDemote) [] []).configs.latest.index = 4
#guard (exL.step (.changeConfig 1 C06Cache.exDemote) [] []).configs.latest.voters = [1]
#guard exL.configs.latest.voters = [1, 2]
#guard (exL.step (.changeConfig 1 C06Cache.exDemote) [] []).configs.committed =
  (exL.step (.changeConfig 1 C06Cache.exDemote) [] []).configs.latest

/-- a configuration entry {1, 2 voters, 3 non-voter} at index 5 -/
def exCfgEntry : Entry :=
  { index := 5, term := 1, typ := etConfig,
    cfg := some { nodes := [{ id := 1, addr := "a:1", voter := true }, { id := 2, addr := "b:1", voter := true },
                            { id := 3, addr := "c:1", voter := false }] } }

/-- EXAMPLE request: the leader 2 sends that entry after entry 4 -/
def exAdopt : AppendReq :=
  { term := 1, src := 2, prevLogIndex := 4, prevLogTerm := 1, ldrCommitIndex := 4, entries := [exCfgEntry] }

/-- EXAMPLE (`config_step`, `always_a_voter`, follower side): `exF` adopts the configuration entry of `exAdopt`
(move `adopt`: `committed :=` the previous `latest`, `latest :=` the entry), and keeps a voter. -/
example :
    ConfigStep exF (.append exAdopt) (exF.step (.append exAdopt) [] []) ∧
    (exF.step (.append exAdopt) [] []).configs.committed = exF.configs.latest ∧
    (exF.step (.append exAdopt) [] []).configs.latest.index = 5 ∧
    AV (exF.step (.append exAdopt) [] []) := by
  have h1 : SelfCache exF := fun h => by cases h
  have h2 : exF.configs.latest.index ≤ exF.lastLogIndex := by decide
  refine ⟨config_step _ _ _ _ h1 h2 exF_av.1.anchC trivial, by decide, by decide,
    always_a_voter _ _ _ _ h1 h2 exF_av trivial ?_⟩
  intro e he c hc
  have he' : e = exCfgEntry := by simpa [exAdopt] using he
  subst he'
  have : c = { nodes := [{ id := 1, addr := "a:1", voter := true }, { id := 2, addr := "b:1", voter := true },
                         { id := 3, addr := "c:1", voter := false }], index := 5, term := 1 } := by
    have h : exCfgEntry.config? = some _ := rfl
    rw [h] at hc
    injection hc with hc
    exact hc.symm
  subst this
  exact ⟨1, { id := 1, addr := "a:1", voter := true }, by decide, rfl, rfl⟩

/-- EXAMPLE (the case "one configuration introduced, not committed" of `config_step_cases`): node 3, being
promoted, has caught up; its acknowledgement makes the leader introduce configuration 4 = {1, 2, 3 voters} (adjacent
to {1, 2}: node 3 gains the vote), `committed` becomes the predecessor, the commit index moves to 3 only. -/
def exPromote : Op := .replUpdates [{ id := 3, upd := .matchIndex 3 }]

#guard (exL.step exPromote [] []).panicked = none
#guard (exL.step exPromote [] []).configs.latest.index = 4
#guard (exL.step exPromote [] []).configs.latest.voters = [1, 2, 3]
#guard (exL.step exPromote [] []).configs.committed = exL.configs.latest
#guard (exL.step exPromote [] []).commitIndex = 3

/-- EXAMPLE (`at_most_one_uncommitted_log_partial`): `LogInv` holds for `exL` (the only configuration entry is
entry 1 = `committed` = `latest`) and for `exF`, and is preserved by a step (here a client update; the hypothesis
"the step completes" is discharged by evaluation) -/
example :
    LogInv exL ∧ LogInv exF ∧
    LogInv (exL.step (.newEntries [{ typ := etUpdate, data := "y", task := 3 }]) [] []) := by
  have h1 : LogInv exL := by unfold LogInv CfgLog; decide
  have h2 : LogInv exF := by unfold LogInv CfgLog; decide
  refine ⟨h1, h2, at_most_one_uncommitted_log_partial _ _ _ _ (fun _ => by decide) (by decide) (Or.inr exL_anchor)
    ?_ h1 (fun q h => by cases h) (by decide +kernel)⟩
  intro q hq
  rw [List.mem_singleton.mp hq]
  decide

/-- two configuration entries: {1, 2 voters, 3 non-voter} at 5, {…, 4 non-voter} at 6, sent in ONE request by the
leader 2 whose commit index is 5 (it committed entry 5 before it created entry 6) -/
def exTwoCfg : AppendReq :=
  { term := 1, src := 2, prevLogIndex := 4, prevLogTerm := 1, ldrCommitIndex := 5, entries := [{ index := 5, term := 1, typ := etConfig, cfg := some { nodes := [{ id := 1, addr := "a:1", voter := true }, { id := 2, addr := "b:1", voter := true }, { id := 3, addr := "c:1", voter := false }] } }, { index := 6, term := 1, typ := etConfig, cfg := some { nodes := [{ id := 1, addr := "a:1", voter := true }, { id := 2, addr := "b:1", voter := true }, { id := 3, addr := "c:1", voter := false }, { id := 4, addr := "d:1", voter := false }] } }] }

/-- EXAMPLE (why "uncommitted" is measured against `configs.committed`, not against the commit index): `exF` receives
`exTwoCfg`; `canCommit` compares the leader's commit index with the LAST new entry, so the follower's commit index
moves to 4 only; its `configs` are ⟨entry 5, entry 6⟩. Elected afterwards (timeout, one vote), it is a leader with
TWO configuration entries above its commit index 4. `LogInv` holds: beyond `committed.index = 5` there is entry 6
only; and it cannot introduce a configuration before entry 6 is committed (`isCommitted` is false). -/
def exNewLeader : Node :=
  C19Order.run exF [(.append exTwoCfg, [], []), (.timeout, [], []), (.timeout, [], []), (.voteResult false 2 rSuccess, [], [])]

#guard exNewLeader.role = .leader ∧ exNewLeader.panicked = none
#guard exNewLeader.commitIndex = 4
#guard (exNewLeader.log.entries.filter (fun e => e.typ == etConfig)).map (·.index) = [5, 6]
#guard exNewLeader.configs.committed.index = 5 ∧ exNewLeader.configs.latest.index = 6
#guard exNewLeader.configs.isCommitted = false

/-! ### necessity of the hypotheses -/

/-- NECESSITY (`OpOk`, client batches hold no configuration entry): a configuration entry smuggled into a batch of
client entries is stored and adopted by `leader.storeEntry` WITHOUT any of the checks of `leader.onChangeConfig` —
here a configuration without any voter. NOT reachable: the client API (`UpdateFSM`, `ReadFSM`, `BarrierFSM`, …) has
no task that produces one; `leader.doChangeConfig` is the only producer. -/
def exBadItem : QItem := { typ := etConfig, cfg := some { nodes := [{ id := 3, addr := "c:1", voter := false }] } }

example : ¬ OpOk (.newEntries [exBadItem]) := by
  intro h
  exact h exBadItem (List.mem_singleton_self _) rfl

#guard (exL.step (.newEntries [exBadItem]) [] []).configs.latest.voters = []
#guard (exL.step (.newEntries [exBadItem]) [] []).configs.latest.index = 4

/-- NECESSITY (`AnchC`: the latest configuration has an anchor): in `C15NoPanic.exNoAnchor` the only voter is the
leader, marked for removal, and the other member, a non-voter, too. Once the non-voter caught up it is removed, the
change commits at once, the leader removes ITSELF: the configuration adopted has no member at all. NOT reachable:
`leader.onChangeConfig` demands a voter without action, and no action touches one (`OneNode.anchor`). -/
example : ¬ AnchC C15NoPanic.exNoAnchor.configs.latest := by
  rintro (h | ⟨a, m, h1, h2, h3⟩)
  · cases h
  · have hm : m ∈ C15NoPanic.exNoAnchor.configs.latest.nodes := List.mem_of_find?_eq_some h1
    have : m = { id := 1, addr := "a:1", voter := true, action := actRemove } ∨
        m = { id := 2, addr := "b:1", voter := false, action := actRemove } := by
      simpa [C15NoPanic.exNoAnchor] using hm
    rcases this with rfl | rfl
    · cases h3
    · cases h2

#guard (C15NoPanic.exNoAnchor.step (.replUpdates [{ id := 2, upd := .matchIndex 2 }]) [] []).configs.latest.nodes = []
#guard (C15NoPanic.exNoAnchor.step (.replUpdates [{ id := 2, upd := .matchIndex 2 }]) [] []).configs.latest.index = 4

/-- a leader (node 1) that has demoted itself: configuration 3 = {1 non-voter with Remove pending, 2, 3 voters} is
not committed yet; `v` is the voter flag of the CACHED own entry `ldr.node` (current: `false`) -/
def exStale (v : Bool) : Node :=
  let n1 : CNode := { id := 1, addr := "a:1", voter := false, action := actRemove }
  let n2 : CNode := { id := 2, addr := "b:1", voter := true }
  let n3 : CNode := { id := 3, addr := "c:1", voter := true }
  let c0 : Config := { nodes := [{ n1 with voter := true }, n2, n3], index := 1, term := 1 }
  let c3 : Config := { nodes := [n1, n2, n3], index := 3, term := 1 }
  { nid := 1, cid := 7, term := 1, durTerm := 1, role := .leader, leader := 1,
    log := { entries := [c0.toEntry, { index := 2, term := 1, typ := etNop }, c3.toEntry], flushed := 3 },
    lastLogIndex := 3, lastLogTerm := 1, commitIndex := 2, fsm := { index := 2, term := 1, config := c0 },
    configs := { committed := c0, latest := c3 },
    ldr := { node := { n1 with voter := v }, numVoters := 2, startIndex := 2,
             queue := [{ index := 3, term := 1, typ := etConfig, cfg := some c3.payload }],
             repls := [{ id := 2, node := n2, matchIndex := 2 }, { id := 3, node := n3, matchIndex := 2 }] } }

/-- NECESSITY (`SelfCache`): both voters acknowledge entry 3; the configuration commits, node 1 — no longer a voter —
steps down, and `leader.setCommitIndex` goes on to `checkConfigActions` (the configuration is not stable: node 1 is
to be removed). With the current cache (`false`) `storeEntry` refuses ("inProgress:demoteLeader"); with a STALE
cache (`true`) the node, now a FOLLOWER, appends entry 4 and adopts the configuration {2, 3}: the clause `role =
leader` of `Move.change` fails. NOT reachable: `C06Cache.step_leaderCache` (the cache is refreshed with every
configuration the leader adopts; defect F2 was of this kind). -/
example : SelfCache (exStale false) ∧ ¬ SelfCache (exStale true) := by
  refine ⟨fun _ => by decide, fun h => ?_⟩
  have := h rfl
  revert this
  decide

#guard ((exStale true).step (.replUpdates [{ id := 2, upd := .matchIndex 3 }, { id := 3, upd := .matchIndex 3 }]) [] []).role = .follower
#guard ((exStale true).step (.replUpdates [{ id := 2, upd := .matchIndex 3 }, { id := 3, upd := .matchIndex 3 }]) [] []).configs.latest.index = 4
#guard ((exStale true).step (.replUpdates [{ id := 2, upd := .matchIndex 3 }, { id := 3, upd := .matchIndex 3 }]) [] []).configs.latest.ids = [2, 3]
#guard ((exStale false).step (.replUpdates [{ id := 2, upd := .matchIndex 3 }, { id := 3, upd := .matchIndex 3 }]) [] []).role = .follower
#guard ((exStale false).step (.replUpdates [{ id := 2, upd := .matchIndex 3 }, { id := 3, upd := .matchIndex 3 }]) [] []).lastLogIndex = 3

/-- `exL` with a latest (and committed) configuration whose index 4 lies BEYOND the log end 3 -/
def exLI : Node :=
  { exL with configs := { committed := { exL.configs.latest with index := 4 }, latest := { exL.configs.latest with index := 4 } } }

/-- the request: demote node 2 (node 3 is already being promoted) -/
def exLIReq : Config :=
  { exLI.configs.latest with nodes := exLI.configs.latest.nodes.map (fun n => if n.id = 2 then { n with action := actDemote } else n) }

/-- NECESSITY (`latest.index ≤ lastLogIndex`): `IsCommitted` compares INDEXES. When the latest configuration claims
index 4 = `lastLogIndex + 1`, the configuration the leader introduces next (promote 3) gets the same index 4 and
passes for committed at once; the demotion of 2 follows in the same step: entries 4 ({1, 2, 3} vote) and 5 ({1, 3}
vote) are both above the commit index 2 — a configuration was introduced while its predecessor was NOT committed. With
the true index only the promotion is carried out. NOT reachable: `Order.Ordered.latest_le_last` is an invariant
(`C19Order.ordered_step`). -/
example : ¬ (exLI.configs.latest.index ≤ exLI.lastLogIndex) := by decide

#guard (exLI.step (.changeConfig 1 exLIReq) [] [[3, 2]]).lastLogIndex = 5
#guard (exLI.step (.changeConfig 1 exLIReq) [] [[3, 2]]).configs.committed.voters = [1, 2, 3]
#guard (exLI.step (.changeConfig 1 exLIReq) [] [[3, 2]]).configs.latest.voters = [1, 3]
#guard (exLI.step (.changeConfig 1 exLIReq) [] [[3, 2]]).commitIndex = 2
#guard (exL.step (.changeConfig 1 { exLIReq with index := 1 }) [] [[3, 2]]).lastLogIndex = 4
#guard (exL.step (.changeConfig 1 { exLIReq with index := 1 }) [] [[3, 2]]).configs.latest.voters = [1, 2, 3]

/-- NECESSITY (`OpOk`, distinct member ids in a submitted configuration): with two entries of the same id the check
"a voter without action remains" of `onChangeConfig` (a scan of the list) is passed by the SECOND entry, while every
lookup (`Config.find?`, hence `isVoter`) sees the first, a non-voter: the configuration has no anchor. NOT reachable:
`Config.Nodes` is a Go map keyed by id. -/
example :
    let c : Config := { nodes := [{ id := 1, addr := "a:1", voter := false }, { id := 1, addr := "b:1", voter := true }] }
    ¬ OpOk (.changeConfig 1 c) ∧ c.nodes.any (fun n => n.voter && n.action == actNone) = true ∧ ¬ HasAnchor c := by
  refine ⟨by unfold OpOk; decide, by decide, ?_⟩
  rintro ⟨a, m, h1, h2, _⟩
  have hm := List.mem_of_find?_eq_some h1
  have hid := find?_id h1
  have : m = { id := 1, addr := "a:1", voter := false } ∨ m = { id := 1, addr := "b:1", voter := true } := by
    simpa using hm
  rcases this with rfl | rfl
  · cases h2
  · subst hid
    revert h1
    decide

/-- NECESSITY (`ReqAnch`): a follower adopts whatever configuration entry it is sent; one without voter leaves it
without voter. NOT reachable from a correct leader (`always_a_voter` on the leader's side). -/
example :
    let e : Entry := { index := 5, term := 1, typ := etConfig, cfg := some { nodes := [{ id := 3, addr := "c:1" }] } }
    let q : AppendReq := { term := 1, src := 2, prevLogIndex := 4, prevLogTerm := 1, ldrCommitIndex := 4, entries := [e] }
    ¬ ReqAnch (.append q) ∧ (exF.step (.append q) [] []).configs.latest.voters = [] := by
  refine ⟨fun h => ?_, by decide⟩
  obtain ⟨a, m, h1, h2, _⟩ := h _ (List.mem_singleton_self _) _ rfl
  have hm := List.mem_of_find?_eq_some h1
  have : m = { id := 3, addr := "c:1" } := by simpa using hm
  subst this
  cases h2

end C08Step
end Raft

#print axioms Raft.C08Step.config_step
#print axioms Raft.C08Step.config_step_good
#print axioms Raft.C08Step.leader_config_adjacent
#print axioms Raft.C08Step.settled_configs
#print axioms Raft.C08Step.config_step_cases
#print axioms Raft.C08Step.at_most_one_uncommitted
#print axioms Raft.C08Step.at_most_one_uncommitted_log_partial
#print axioms Raft.C08Step.always_a_voter
#print axioms Raft.C08Step.av_has_voter
#print axioms Raft.C08Step.always_a_voter_run
#print axioms Raft.C08Step.logInv_reads
#print axioms Raft.CfgRel.block
#print axioms Raft.CfgRel.handle_fin
#print axioms Raft.CfgRel.settle_fin
#print axioms Raft.CfgRel.onAppendEntries_fi
#print axioms Raft.CfgRel.onInstallSnap_fi
