/-
C20 — Cluster/node identity isolation and storage exclusivity.

Model: `RaftVerif/Model/Conn.lean` (`Raft.Conn`: connection automaton of conn.go / server.go / rpc.go's identity
branch; `Raft.Lock`: lockDir/unlockDir/SetIdentity/New/Serve over an abstract directory with atomic `link`).
The functions the theorems talk about (`Conn.step`, `Conn.run`, `Lock.step`, `Lock.run`, and the compound
operations built from them) are the ones `go/conndiff` compares with the real code.
-/
import RaftVerif.Model.Conn

namespace Raft
namespace C20
open Conn

/-! ## Part 1 — the identity handshake -/

/-- the listener the connection is attached to IS the node the dialer intended -/
def Verified (c : Conn) : Prop := c.lident = c.intended

/-- the identity request a library dialer writes on connection `c` -/
def idReq (c : Conn) : Msg := Msg.identity c.src.nid c.intended

/-- Invariant of one connection. -/
def ConnOK (c : Conn) : Prop :=
  (c.pooled = true → c.lib = true ∧ ∃ n, c.dstate = .verified n) ∧
  (c.lib = true →
    c.intended.cid = c.src.cid ∧
    (c.dstate = .dialed → c.wrote = []) ∧
    (Verified c ∨ c.wrote = [] ∨ c.wrote = [idReq c]) ∧
    (∀ m ∈ c.inbox, m = idReq c ∨ Verified c) ∧
    (Resp.idOk ∈ c.outbox → Verified c) ∧
    (∀ n, c.dstate = .verified n → Verified c))

/-- the fields of a connection that describe the wire, not its state -/
def SameWire (c c' : Conn) : Prop :=
  c'.lib = c.lib ∧ c'.dialer = c.dialer ∧ c'.src = c.src ∧ c'.intended = c.intended ∧
  c'.lpid = c.lpid ∧ c'.lident = c.lident

theorem SameWire.refl (c : Conn) : SameWire c c := ⟨rfl, rfl, rfl, rfl, rfl, rfl⟩

theorem SameWire.trans {a b c : Conn} (h1 : SameWire a b) (h2 : SameWire b c) : SameWire a c := by
  obtain ⟨a1, a2, a3, a4, a5, a6⟩ := h1
  obtain ⟨b1, b2, b3, b4, b5, b6⟩ := h2
  exact ⟨b1.trans a1, b2.trans a2, b3.trans a3, b4.trans a4, b5.trans a5, b6.trans a6⟩

/-- what a recorded request must satisfy -/
def ProcOK (p : Processed) : Prop :=
  p.lib = true → p.listener = p.intended ∧ p.src.cid = p.listener.cid

/-- a recorded request belongs to the connection it names -/
def ProcOf (conns : List Conn) (p : Processed) : Prop :=
  ∃ c, conns[p.conn]? = some c ∧ p.lib = c.lib ∧ p.pid = c.lpid ∧ p.listener = c.lident ∧
    p.intended = c.intended ∧ p.src = c.src

def Inv (w : World) : Prop :=
  (∀ c ∈ w.conns, ConnOK c) ∧ (∀ p ∈ w.processed, ProcOK p) ∧ (∀ p ∈ w.processed, ProcOf w.conns p)

/-! ### each per-connection transition keeps `ConnOK` and the wire fields -/

section transitions
variable (c : Conn)

theorem sendIdentity_ok (h : ConnOK c) : ConnOK c.sendIdentity := by
  unfold Conn.sendIdentity
  split
  · rename_i hg
    obtain ⟨hp, hl⟩ := h
    obtain ⟨h1, h2, h3, h4, h5, h6⟩ := hl hg.1
    refine ⟨?_, fun _ => ⟨h1, ?_, ?_, ?_, h5, ?_⟩⟩
    · intro hpool; obtain ⟨_, n, hn⟩ := hp hpool; rw [hg.2] at hn; cases hn
    · intro hd; simp at hd
    · right; right; simp [h2 hg.2, idReq]
    · intro m hm
      simp only [List.mem_append, List.mem_singleton] at hm
      rcases hm with hm | hm
      · exact h4 m hm
      · left; exact hm
    · intro n hd; simp at hd
  · exact h

theorem sendIdentity_wire : SameWire c c.sendIdentity := by
  unfold Conn.sendIdentity; split <;> exact ⟨rfl, rfl, rfl, rfl, rfl, rfl⟩

theorem recvIdentity_ok (h : ConnOK c) : ConnOK c.recvIdentity := by
  unfold Conn.recvIdentity
  split
  · rename_i hg
    obtain ⟨hp, hl⟩ := h
    obtain ⟨h1, h2, h3, h4, h5, h6⟩ := hl hg.1
    have hnp : c.pooled = true → False := fun hpool => by
      obtain ⟨_, n, hn⟩ := hp hpool; rw [hg.2] at hn; cases hn
    split
    · rename_i r rest hout
      split
      · rename_i hr
        subst hr
        have hv : Verified c := h5 (by rw [hout]; simp)
        refine ⟨fun hpool => (hnp hpool).elim, fun _ => ⟨h1, ?_, Or.inl hv, h4, fun _ => hv, fun _ _ => hv⟩⟩
        intro hd; simp at hd
      · refine ⟨fun hpool => (hnp hpool).elim, fun _ => ⟨h1, ?_, h3, h4, ?_, ?_⟩⟩
        · intro hd; simp at hd
        · intro hm; exact h5 (by rw [hout]; exact List.mem_cons_of_mem _ hm)
        · intro n hd; simp at hd
    · split
      · exact ⟨hp, hl⟩
      · refine ⟨fun hpool => (hnp hpool).elim, fun _ => ⟨h1, ?_, h3, h4, h5, ?_⟩⟩
        · intro hd; simp at hd
        · intro n hd; simp at hd
  · exact h

theorem recvIdentity_wire : SameWire c c.recvIdentity := by
  unfold Conn.recvIdentity
  repeat' split
  all_goals exact ⟨rfl, rfl, rfl, rfl, rfl, rfl⟩

theorem pop_ok (h : ConnOK c) : ConnOK c.pop := by
  unfold Conn.pop
  split
  · obtain ⟨hp, hl⟩ := h
    exact ⟨fun hpool => by simp at hpool, hl⟩
  · exact h

theorem pop_wire : SameWire c c.pop := by
  unfold Conn.pop; split <;> exact ⟨rfl, rfl, rfl, rfl, rfl, rfl⟩

theorem sendReq_ok (k : Kind) (h : ConnOK c) : ConnOK (c.sendReq k) := by
  unfold Conn.sendReq
  split
  · rename_i n hd
    split
    · rename_i hg
      obtain ⟨hp, hl⟩ := h
      obtain ⟨h1, h2, h3, h4, h5, h6⟩ := hl hg.1
      have hv : Verified c := h6 n hd
      refine ⟨?_, fun _ => ⟨h1, ?_, Or.inl hv, fun _ _ => Or.inr hv, fun _ => hv, fun _ _ => hv⟩⟩
      · intro hpool
        have : c.pooled = true := hpool
        rw [hg.2] at this; cases this
      · intro hd'; simp at hd'
    · exact h
  · exact h

theorem sendReq_wire (k : Kind) : SameWire c (c.sendReq k) := by
  unfold Conn.sendReq
  repeat' split
  all_goals exact ⟨rfl, rfl, rfl, rfl, rfl, rfl⟩

theorem recvResp_ok (h : ConnOK c) : ConnOK c.recvResp := by
  unfold Conn.recvResp
  split
  · rename_i hg
    split
    · rename_i n hd
      obtain ⟨hp, hl⟩ := h
      obtain ⟨h1, h2, h3, h4, h5, h6⟩ := hl hg.1
      have hv : Verified c := h6 _ hd
      have hnp : c.pooled = true → False := fun hpool => by rw [hg.2] at hpool; cases hpool
      split
      · refine ⟨fun hpool => (hnp hpool).elim, fun _ => ⟨h1, ?_, Or.inl hv, h4, fun _ => hv, fun _ _ => hv⟩⟩
        intro hd'; simp at hd'
      · split
        · exact ⟨hp, hl⟩
        · refine ⟨fun hpool => (hnp hpool).elim, fun _ => ⟨h1, ?_, Or.inl hv, h4, fun _ => hv, fun _ _ => hv⟩⟩
          intro hd'; simp at hd'
    · exact h
  · exact h

theorem recvResp_wire : SameWire c c.recvResp := by
  unfold Conn.recvResp
  repeat' split
  all_goals exact ⟨rfl, rfl, rfl, rfl, rfl, rfl⟩

theorem returnConn_ok (room : Bool) (now : Nat) (h : ConnOK c) : ConnOK (c.returnConn room now) := by
  unfold Conn.returnConn
  split
  · rename_i n hd
    split
    · rename_i hg
      obtain ⟨hp, hl⟩ := h
      obtain ⟨h1, h2, h3, h4, h5, h6⟩ := hl hg.1
      have hv : Verified c := h6 n hd
      split
      · exact ⟨fun _ => ⟨hg.1, n, hd⟩, fun _ => ⟨h1, h2, h3, h4, h5, h6⟩⟩
      · refine ⟨?_, fun _ => ⟨h1, ?_, Or.inl hv, h4, fun _ => hv, fun _ _ => hv⟩⟩
        · intro hpool
          have : c.pooled = true := hpool
          rw [hg.2] at this; cases this
        · intro hd'; simp at hd'
    · exact h
  · exact h

theorem returnConn_wire (room : Bool) (now : Nat) : SameWire c (c.returnConn room now) := by
  unfold Conn.returnConn
  repeat' split
  all_goals exact ⟨rfl, rfl, rfl, rfl, rfl, rfl⟩

theorem dialerClose_ok (h : ConnOK c) : ConnOK c.dialerClose := by
  unfold Conn.dialerClose
  obtain ⟨hp, hl⟩ := h
  refine ⟨fun hpool => by simp at hpool, fun hlib => ?_⟩
  obtain ⟨h1, h2, h3, h4, h5, h6⟩ := hl hlib
  refine ⟨h1, ?_, h3, h4, h5, ?_⟩
  · intro hd; simp at hd
  · intro n hd; simp at hd

theorem dialerClose_wire : SameWire c c.dialerClose := ⟨rfl, rfl, rfl, rfl, rfl, rfl⟩

theorem afterRead_ok (h : ConnOK c) : ConnOK c.afterRead := by
  unfold Conn.afterRead
  obtain ⟨hp, hl⟩ := h
  split
  · split
    · exact ⟨hp, hl⟩
    · rename_i s want rest hin
      split
      · rename_i hw
        refine ⟨hp, fun hlib => ?_⟩
        obtain ⟨h1, h2, h3, h4, h5, h6⟩ := hl hlib
        have hv : Verified c := by
          rcases h4 (Msg.identity s want) (by rw [hin]; simp) with hm | hv
          · simp only [idReq, Msg.identity.injEq] at hm
            unfold Verified; rw [← hw, hm.2]
          · exact hv
        exact ⟨h1, h2, h3, fun _ _ => Or.inr hv, fun _ => hv, h6⟩
      · refine ⟨hp, fun hlib => ?_⟩
        obtain ⟨h1, h2, h3, h4, h5, h6⟩ := hl hlib
        refine ⟨h1, h2, h3, ?_, ?_, h6⟩
        · intro m hm; exact h4 m (by rw [hin]; exact List.mem_cons_of_mem _ hm)
        · intro hm
          simp only [List.mem_append, List.mem_singleton] at hm
          rcases hm with hm | hm
          · exact h5 hm
          · cases hm
    · rename_i k s rest hin
      refine ⟨hp, fun hlib => ?_⟩
      obtain ⟨h1, h2, h3, h4, h5, h6⟩ := hl hlib
      refine ⟨h1, h2, h3, ?_, ?_, h6⟩
      · intro m hm; exact h4 m (by rw [hin]; exact List.mem_cons_of_mem _ hm)
      · intro hm
        simp only [List.mem_append, List.mem_singleton] at hm
        rcases hm with hm | hm
        · exact h5 hm
        · cases hm
  · exact ⟨hp, hl⟩

theorem afterRead_wire : SameWire c c.afterRead := by
  unfold Conn.afterRead
  repeat' split
  all_goals exact ⟨rfl, rfl, rfl, rfl, rfl, rfl⟩

/-- The heart of the property: whatever `handleConn` passes to `onRequest` from a library connection comes from a
connection whose listener is the intended node. -/
theorem readRecords_ok (i : Nat) (h : ConnOK c) : ∀ p ∈ c.readRecords i, ProcOK p := by
  unfold Conn.readRecords
  intro p hp
  split at hp
  · split at hp
    · rename_i k s rest hin
      simp only [List.mem_singleton] at hp
      subst hp
      intro hlib
      obtain ⟨_, hl⟩ := h
      obtain ⟨h1, _, _, h4, _, _⟩ := hl hlib
      have hv : Verified c := by
        rcases h4 (Msg.req k s) (by rw [hin]; simp) with hm | hv
        · simp [idReq] at hm
        · exact hv
      refine ⟨hv, ?_⟩
      show c.src.cid = c.lident.cid
      rw [hv, h1]
    · cases hp
  · cases hp

theorem readRecords_of (i : Nat) : ∀ p ∈ c.readRecords i,
    p.conn = i ∧ p.lib = c.lib ∧ p.pid = c.lpid ∧ p.listener = c.lident ∧ p.intended = c.intended ∧ p.src = c.src := by
  unfold Conn.readRecords
  intro p hp
  split at hp
  · split at hp
    · simp only [List.mem_singleton] at hp
      subst hp
      exact ⟨rfl, rfl, rfl, rfl, rfl, rfl⟩
    · cases hp
  · cases hp

theorem listenerEOF_ok (h : ConnOK c) : ConnOK c.listenerEOF := by
  unfold Conn.listenerEOF; split <;> exact h

theorem listenerEOF_wire : SameWire c c.listenerEOF := by
  unfold Conn.listenerEOF; split <;> exact ⟨rfl, rfl, rfl, rfl, rfl, rfl⟩

theorem listenerClose_ok (h : ConnOK c) : ConnOK c.listenerClose := h

theorem listenerClose_wire : SameWire c c.listenerClose := ⟨rfl, rfl, rfl, rfl, rfl, rfl⟩

theorem rawWrite_ok (m : Msg) (h : ConnOK c) : ConnOK (c.rawWrite m) := by
  unfold Conn.rawWrite
  split
  · rename_i hg
    obtain ⟨hp, hl⟩ := h
    refine ⟨hp, fun hlib => ?_⟩
    have : c.lib = true := hlib
    rw [hg.1] at this; cases this
  · exact h

theorem rawWrite_wire (m : Msg) : SameWire c (c.rawWrite m) := by
  unfold Conn.rawWrite; split <;> exact ⟨rfl, rfl, rfl, rfl, rfl, rfl⟩

theorem rawRead_ok (h : ConnOK c) : ConnOK c.rawRead := by
  unfold Conn.rawRead
  split
  · rename_i hg
    obtain ⟨hp, hl⟩ := h
    refine ⟨hp, fun hlib => ?_⟩
    have : c.lib = true := hlib
    rw [hg] at this; cases this
  · exact h

theorem rawRead_wire : SameWire c c.rawRead := by
  unfold Conn.rawRead; split <;> exact ⟨rfl, rfl, rfl, rfl, rfl, rfl⟩

end transitions

/-! ### lifting to the world -/

theorem procOf_mono {conns conns' : List Conn} {p : Processed}
    (hw : ∀ (j : Nat) (c : Conn), conns[j]? = some c → ∃ c', conns'[j]? = some c' ∧ SameWire c c')
    (h : ProcOf conns p) : ProcOf conns' p := by
  obtain ⟨c, hc, e1, e2, e3, e4, e5⟩ := h
  obtain ⟨c', hc', w1, _, w3, w4, w5, w6⟩ := hw _ _ hc
  exact ⟨c', hc', by rw [e1, w1], by rw [e2, w5], by rw [e3, w6], by rw [e4, w4], by rw [e5, w3]⟩

theorem set_wire {conns : List Conn} {i : Nat} {c0 x : Conn} (h0 : conns[i]? = some c0) (hx : SameWire c0 x) :
    ∀ (j : Nat) (c : Conn), conns[j]? = some c → ∃ c', (conns.set i x)[j]? = some c' ∧ SameWire c c' := by
  intro j c hj
  by_cases hij : i = j
  · subst hij
    rw [h0] at hj
    injection hj with hj
    subst hj
    have hlt : i < conns.length := by
      rcases Nat.lt_or_ge i conns.length with h | h
      · exact h
      · rw [List.getElem?_eq_none h] at h0; cases h0
    exact ⟨x, by simp [hlt], hx⟩
  · exact ⟨c, by rw [List.getElem?_set_ne hij]; exact hj, SameWire.refl c⟩

theorem inv_onConn (w : World) (i : Nat) (f : Conn → Conn)
    (hf : ∀ c, ConnOK c → ConnOK (f c)) (hw : ∀ c, SameWire c (f c)) (h : Inv w) : Inv (w.onConn i f) := by
  unfold World.onConn
  split
  · rename_i c0 h0
    obtain ⟨hc, hp, ho⟩ := h
    refine ⟨?_, hp, ?_⟩
    · intro x hx
      rcases List.mem_or_eq_of_mem_set hx with hx | hx
      · exact hc x hx
      · subst hx; exact hf c0 (hc c0 (List.mem_of_getElem? h0))
    · intro p hpm
      exact procOf_mono (set_wire h0 (hw c0)) (ho p hpm)
  · exact h

theorem append_wire (conns extra : List Conn) :
    ∀ (j : Nat) (c : Conn), conns[j]? = some c → ∃ c', (conns ++ extra)[j]? = some c' ∧ SameWire c c' := by
  intro j c hj
  have hlt : j < conns.length := by
    rcases Nat.lt_or_ge j conns.length with h | h
    · exact h
    · rw [List.getElem?_eq_none h] at hj; cases hj
  exact ⟨c, by rw [List.getElem?_append_left hlt]; exact hj, SameWire.refl c⟩

theorem inv_newConn (w : World) (x : Conn) (hx : ConnOK x) (h : Inv w) :
    Inv { w with conns := w.conns ++ [x] } := by
  obtain ⟨hc, hp, ho⟩ := h
  refine ⟨?_, hp, ?_⟩
  · intro y hy
    simp only [List.mem_append, List.mem_singleton] at hy
    rcases hy with hy | hy
    · exact hc y hy
    · subst hy; exact hx
  · intro p hpm
    exact procOf_mono (append_wire w.conns [x]) (ho p hpm)

theorem inv_dial (w : World) (d dest : Nat) (h : Inv w) : Inv (w.dial d dest) := by
  unfold World.dial
  repeat' split
  all_goals first
    | exact h
    | (apply inv_newConn _ _ _ h
       refine ⟨fun hp => by simp at hp, fun _ => ⟨rfl, fun _ => rfl, Or.inr (Or.inl rfl), ?_, ?_, ?_⟩⟩
       · intro m hm; cases hm
       · intro hm; cases hm
       · intro n hd; simp at hd)

theorem inv_rawDial (w : World) (a : Addr) (h : Inv w) : Inv (w.rawDial a) := by
  unfold World.rawDial
  repeat' split
  all_goals first
    | exact h
    | (apply inv_newConn _ _ _ h
       exact ⟨fun hp => by simp at hp, fun hl => by simp at hl⟩)

theorem inv_listenerRead (w : World) (i : Nat) (h : Inv w) : Inv (w.listenerRead i) := by
  unfold World.listenerRead
  split
  · rename_i c0 h0
    obtain ⟨hc, hp, ho⟩ := h
    have hc0 : ConnOK c0 := hc c0 (List.mem_of_getElem? h0)
    have hlt : i < w.conns.length := by
      rcases Nat.lt_or_ge i w.conns.length with h | h
      · exact h
      · rw [List.getElem?_eq_none h] at h0; cases h0
    refine ⟨?_, ?_, ?_⟩
    · intro x hx
      rcases List.mem_or_eq_of_mem_set hx with hx | hx
      · exact hc x hx
      · subst hx; exact afterRead_ok c0 hc0
    · intro p hpm
      simp only [List.mem_append] at hpm
      rcases hpm with hpm | hpm
      · exact hp p hpm
      · exact readRecords_ok c0 i hc0 p hpm
    · intro p hpm
      simp only [List.mem_append] at hpm
      rcases hpm with hpm | hpm
      · exact procOf_mono (set_wire h0 (afterRead_wire c0)) (ho p hpm)
      · obtain ⟨e0, e1, e2, e3, e4, e5⟩ := readRecords_of c0 i p hpm
        obtain ⟨w1, _, w3, w4, w5, w6⟩ := afterRead_wire c0
        refine ⟨c0.afterRead, by rw [e0]; simp [hlt], ?_, ?_, ?_, ?_, ?_⟩
        · rw [e1, w1]
        · rw [e2, w5]
        · rw [e3, w6]
        · rw [e4, w4]
        · rw [e5, w3]
  · exact h

theorem inv_returnConn (w : World) (i : Nat) (h : Inv w) : Inv (w.returnConn i) := by
  unfold World.returnConn
  split
  · rename_i c0 h0
    obtain ⟨hc, hp, ho⟩ := h
    refine ⟨?_, hp, ?_⟩
    · intro x hx
      rcases List.mem_or_eq_of_mem_set hx with hx | hx
      · exact hc x hx
      · subst hx; exact returnConn_ok c0 _ _ (hc c0 (List.mem_of_getElem? h0))
    · intro p hpm
      exact procOf_mono (set_wire h0 (returnConn_wire c0 _ _)) (ho p hpm)
  · exact h

theorem map_wire (conns : List Conn) (f : Conn → Conn) (hw : ∀ c, SameWire c (f c)) :
    ∀ (j : Nat) (c : Conn), conns[j]? = some c → ∃ c', (conns.map f)[j]? = some c' ∧ SameWire c c' := by
  intro j c hj
  exact ⟨f c, by simp [hj], hw c⟩

theorem inv_stopAt (w : World) (a : Addr) (h : Inv w) : Inv (w.stopAt a) := by
  unfold World.stopAt
  split
  · rename_i pid _
    obtain ⟨hc, hp, ho⟩ := h
    refine ⟨?_, hp, ?_⟩
    · intro x hx
      simp only [List.mem_map] at hx
      obtain ⟨c, hcm, rfl⟩ := hx
      split
      · exact listenerClose_ok c (hc c hcm)
      · exact hc c hcm
    · intro p hpm
      refine procOf_mono (map_wire w.conns _ ?_) (ho p hpm)
      intro c
      split
      · exact listenerClose_wire c
      · exact SameWire.refl c
  · exact h

theorem inv_onDialer (w : World) (d : Nat) (f : Dialer → Dialer) (h : Inv w) : Inv (w.onDialer d f) := by
  unfold World.onDialer
  split <;> exact h

/-- Every event preserves the invariant. -/
theorem inv_step (w : World) (e : Ev) (h : Inv w) : Inv (step w e) := by
  cases e with
  | addrUpdate d nid a => exact inv_onDialer _ _ _ h
  | resolverSet d nid a => exact inv_onDialer _ _ _ h
  | dial d dest => exact inv_dial _ _ _ h
  | sendIdentity c => exact inv_onConn _ _ _ sendIdentity_ok sendIdentity_wire h
  | recvIdentity c => exact inv_onConn _ _ _ recvIdentity_ok recvIdentity_wire h
  | pop c => exact inv_onConn _ _ _ pop_ok pop_wire h
  | sendReq c k => exact inv_onConn _ _ _ (fun x => sendReq_ok x k) (fun x => sendReq_wire x k) h
  | recvResp c => exact inv_onConn _ _ _ recvResp_ok recvResp_wire h
  | returnConn c => exact inv_returnConn _ _ h
  | dialerClose c => exact inv_onConn _ _ _ dialerClose_ok dialerClose_wire h
  | listenerRead c => exact inv_listenerRead _ _ h
  | listenerEOF c => exact inv_onConn _ _ _ listenerEOF_ok listenerEOF_wire h
  | listenerClose c => exact inv_onConn _ _ _ listenerClose_ok listenerClose_wire h
  | start a id =>
    have h1 := inv_stopAt w a h
    exact h1
  | stop a => exact inv_stopAt _ _ h
  | rawDial a => exact inv_rawDial _ _ h
  | rawWrite c m => exact inv_onConn _ _ _ (fun x => rawWrite_ok x m) (fun x => rawWrite_wire x m) h
  | rawRead c => exact inv_onConn _ _ _ rawRead_ok rawRead_wire h

theorem inv_run (w : World) (evs : List Ev) (h : Inv w) : Inv (run w evs) := by
  induction evs generalizing w with
  | nil => exact h
  | cons e evs ih => exact ih (step w e) (inv_step w e h)

/-- A world in which nothing has been dialled yet: any listeners, any dialers, any address maps. -/
def Fresh (w : World) : Prop := w.conns = [] ∧ w.processed = []

theorem inv_fresh (w : World) (h : Fresh w) : Inv w := by
  obtain ⟨h1, h2⟩ := h
  refine ⟨?_, ?_, ?_⟩ <;> (intro x hx; simp_all)

/-! ### the theorems -/

/-- **handshake_isolation (a)** — in every trace (any address updates by configurations or resolvers, any
restarts of listeners under other identities, any interleaving of dialer and listener steps, any foreign
peers on other connections), a request that reaches `onRequest` and was written by a library dialer was
processed by a listener whose `(cid, nid)` is exactly the `(cid, nid)` the dialer intended. -/
theorem handshake_isolation (w : World) (hw : Fresh w) (evs : List Ev) :
    ∀ p ∈ (run w evs).processed, p.lib = true → p.listener = p.intended := by
  intro p hp hlib
  exact ((inv_run w evs (inv_fresh w hw)).2.1 p hp hlib).1

/-- **handshake_isolation (b)** — on a library connection that reached a listener with another identity the
dialer never writes anything but its identity request; the connection is never considered verified, never
pooled, and no response `success` is ever produced for it. -/
theorem mismatch_writes_nothing_else (w : World) (hw : Fresh w) (evs : List Ev) :
    ∀ c ∈ (run w evs).conns, c.lib = true → c.lident ≠ c.intended →
      (c.wrote = [] ∨ c.wrote = [idReq c]) ∧ c.pooled = false ∧ Resp.idOk ∉ c.outbox ∧
      (c.dstate = .dialed ∨ c.dstate = .awaitId ∨ c.dstate = .closed) := by
  intro c hc hlib hne
  obtain ⟨hp, hl⟩ := (inv_run w evs (inv_fresh w hw)).1 c hc
  obtain ⟨_, _, h3, _, h5, h6⟩ := hl hlib
  have hnv : ¬ Verified c := hne
  refine ⟨?_, ?_, fun hm => hnv (h5 hm), ?_⟩
  · rcases h3 with h3 | h3
    · exact absurd h3 hnv
    · exact h3
  · cases hpool : c.pooled with
    | false => rfl
    | true =>
      obtain ⟨_, n, hn⟩ := hp hpool
      exact absurd (h6 n hn) hnv
  · cases hd : c.dstate with
    | dialed => exact Or.inl rfl
    | awaitId => exact Or.inr (Or.inl rfl)
    | verified n => exact absurd (h6 n hd) hnv
    | closed => exact Or.inr (Or.inr rfl)

/-- **handshake_isolation (c)** — on such a connection, reading the identity response (or the end of the
stream) closes the connection on the dialer side; and the listener has closed its end when it answered. -/
theorem mismatch_closes (w : World) (hw : Fresh w) (evs : List Ev) (i : Nat) (c : Conn)
    (hc : (run w evs).conns[i]? = some c) (hlib : c.lib = true) (hne : c.lident ≠ c.intended)
    (hd : c.dstate = .awaitId) (hready : c.outbox ≠ [] ∨ c.lopen = false) :
    dstateOf (step (run w evs) (.recvIdentity i)) i = .closed := by
  have hm := (mismatch_writes_nothing_else w hw evs c (List.mem_of_getElem? hc) hlib hne).2.2.1
  have hlt : i < (run w evs).conns.length := by
    rcases Nat.lt_or_ge i (run w evs).conns.length with h | h
    · exact h
    · rw [List.getElem?_eq_none h] at hc; cases hc
  simp only [step, World.onConn, hc, dstateOf]
  simp only [List.getElem?_set_self hlt]
  unfold Conn.recvIdentity
  rw [if_pos ⟨hlib, hd⟩]
  split
  · rename_i r rest hout
    have : r ≠ Resp.idOk := fun h => hm (by rw [hout, h]; simp)
    rw [if_neg this]
  · rename_i hout
    rcases hready with h | h
    · exact absurd hout h
    · rw [h]; rfl

/-- the listener side of a mismatch: after answering `identityMismatch` the listener's end is closed and the
rest of the stream is never read (`handleConn` returns) -/
theorem listener_closes_on_mismatch (c : Conn) (s : Nat) (want : Identity) (rest : List Msg)
    (ho : c.lopen = true) (hin : c.inbox = Msg.identity s want :: rest) (hne : want ≠ c.lident) :
    c.afterRead.lopen = false ∧ c.afterRead.afterRead = c.afterRead ∧ c.afterRead.readRecords 0 = [] := by
  have h1 : c.afterRead = { c with inbox := rest, outbox := c.outbox ++ [Resp.idMismatch], lopen := false } := by
    unfold Conn.afterRead; rw [if_pos ho, hin]; simp [hne]
  rw [h1]
  refine ⟨rfl, ?_, ?_⟩
  · unfold Conn.afterRead; simp
  · unfold Conn.readRecords; simp

/-- **pooled_conn_identity_stable** — (1) the fields tying a connection to one listener process and one
intended identity never change; (2) a connection sitting in a pool was verified for exactly its pool's
identity; (3) whatever is ever processed from a connection is processed by the process it was dialled to,
under the identity verified at dial time.  A process that later listens on the same address has another pid:
it never sees anything written on the old connection. -/
theorem conn_wire_immutable (w : World) (e : Ev) (i : Nat) (c : Conn) (h : w.conns[i]? = some c) :
    ∃ c', (step w e).conns[i]? = some c' ∧ SameWire c c' := by
  have onC : ∀ (j : Nat) (f : Conn → Conn), (∀ x, SameWire x (f x)) →
      ∃ c', (w.onConn j f).conns[i]? = some c' ∧ SameWire c c' := by
    intro j f hf
    unfold World.onConn
    split
    · rename_i c0 h0
      exact set_wire h0 (hf c0) i c h
    · exact ⟨c, h, SameWire.refl c⟩
  have onD : ∀ (d : Nat) (f : Dialer → Dialer), ∃ c', (w.onDialer d f).conns[i]? = some c' ∧ SameWire c c' := by
    intro d f
    unfold World.onDialer
    split <;> exact ⟨c, h, SameWire.refl c⟩
  have onStop : ∀ a, ∃ c', (w.stopAt a).conns[i]? = some c' ∧ SameWire c c' := by
    intro a
    unfold World.stopAt
    split
    · refine map_wire w.conns _ ?_ i c h
      intro x
      split
      · exact listenerClose_wire x
      · exact SameWire.refl x
    · exact ⟨c, h, SameWire.refl c⟩
  cases e with
  | addrUpdate d nid a => exact onD _ _
  | resolverSet d nid a => exact onD _ _
  | dial d dest =>
    simp only [step]
    unfold World.dial
    repeat' split
    all_goals first
      | exact ⟨c, h, SameWire.refl c⟩
      | exact append_wire w.conns _ i c h
  | sendIdentity j => exact onC _ _ sendIdentity_wire
  | recvIdentity j => exact onC _ _ recvIdentity_wire
  | pop j => exact onC _ _ pop_wire
  | sendReq j k => exact onC _ _ (fun x => sendReq_wire x k)
  | recvResp j => exact onC _ _ recvResp_wire
  | returnConn j =>
    simp only [step]
    unfold World.returnConn
    split
    · rename_i c0 h0
      exact set_wire h0 (returnConn_wire c0 _ _) i c h
    · exact ⟨c, h, SameWire.refl c⟩
  | dialerClose j => exact onC _ _ dialerClose_wire
  | listenerRead j =>
    simp only [step]
    unfold World.listenerRead
    split
    · rename_i c0 h0
      exact set_wire h0 (afterRead_wire c0) i c h
    · exact ⟨c, h, SameWire.refl c⟩
  | listenerEOF j => exact onC _ _ listenerEOF_wire
  | listenerClose j => exact onC _ _ listenerClose_wire
  | start a id => exact onStop a
  | stop a => exact onStop a
  | rawDial a =>
    simp only [step]
    unfold World.rawDial
    repeat' split
    all_goals first
      | exact ⟨c, h, SameWire.refl c⟩
      | exact append_wire w.conns _ i c h
  | rawWrite j m => exact onC _ _ (fun x => rawWrite_wire x m)
  | rawRead j => exact onC _ _ rawRead_wire

theorem conn_wire_immutable_run (w : World) (evs : List Ev) (i : Nat) (c : Conn) (h : w.conns[i]? = some c) :
    ∃ c', (run w evs).conns[i]? = some c' ∧ SameWire c c' := by
  induction evs generalizing w c with
  | nil => exact ⟨c, h, SameWire.refl c⟩
  | cons e evs ih =>
    obtain ⟨c1, h1, w1⟩ := conn_wire_immutable w e i c h
    obtain ⟨c2, h2, w2⟩ := ih (step w e) c1 h1
    exact ⟨c2, h2, SameWire.trans w1 w2⟩

theorem pooled_conn_identity_stable (w : World) (hw : Fresh w) (evs : List Ev) :
    -- (2) pooled ⇒ library connection, in the verified state, attached to the pool's identity
    (∀ c ∈ (run w evs).conns, c.pooled = true →
        c.lib = true ∧ (∃ n, c.dstate = .verified n) ∧ c.lident = c.intended ∧ c.intended.cid = c.src.cid) ∧
    -- (3) processed ⇒ by the process the connection was dialled to, whose identity is the one recorded
    (∀ p ∈ (run w evs).processed, ∃ c, (run w evs).conns[p.conn]? = some c ∧
        p.pid = c.lpid ∧ p.listener = c.lident ∧ p.intended = c.intended ∧ p.lib = c.lib) ∧
    -- (1) and those fields are the ones fixed at dial time, whatever happens later
    (∀ (more : List Ev) (i : Nat) (c : Conn), (run w evs).conns[i]? = some c →
        ∃ c', (run (run w evs) more).conns[i]? = some c' ∧ SameWire c c') := by
  have hinv := inv_run w evs (inv_fresh w hw)
  refine ⟨?_, ?_, ?_⟩
  · intro c hc hpool
    obtain ⟨hp, hl⟩ := hinv.1 c hc
    obtain ⟨hlib, n, hidle⟩ := hp hpool
    obtain ⟨h1, _, _, _, _, h6⟩ := hl hlib
    exact ⟨hlib, ⟨n, hidle⟩, h6 n hidle, h1⟩
  · intro p hp
    obtain ⟨c, hc, e1, e2, e3, e4, _⟩ := hinv.2.2 p hp
    exact ⟨c, hc, e2, e3, e4, e1⟩
  · intro more i c hc
    exact conn_wire_immutable_run _ more i c hc

/-- the part of a listener's raft state that requests can influence: any fold over what reached `onRequest` -/
def nodeState {σ : Type} (f : σ → Processed → σ) (s₀ : σ) (w : World) (pid : Nat) : σ :=
  (w.processed.filter (fun p => p.pid = pid)).foldl f s₀

/-- a request counts as coming from the listener's own cluster and being meant for this very node -/
def Own (p : Processed) : Prop := p.src.cid = p.listener.cid ∧ p.intended = p.listener

instance (p : Processed) : Decidable (Own p) := by unfold Own; exact inferInstance

/-- **no_cross_cluster_influence** — several clusters share one address map (any identities on any addresses,
any mix-ups).  Every request of a library dialer that influences a node comes from a dialer of the node's own
cluster and was meant for that node; hence the node's state is the same function of the requests whether or
not the library requests of foreign clusters are erased from history. -/
theorem no_cross_cluster_influence (w : World) (hw : Fresh w) (evs : List Ev) :
    (∀ p ∈ (run w evs).processed, p.lib = true → Own p) ∧
    (∀ {σ : Type} (f : σ → Processed → σ) (s₀ : σ) (pid : Nat),
      nodeState f s₀ (run w evs) pid =
        (((run w evs).processed.filter (fun p => p.lib = false ∨ Own p)).filter (fun p => p.pid = pid)).foldl f s₀) := by
  have hinv := inv_run w evs (inv_fresh w hw)
  have h1 : ∀ p ∈ (run w evs).processed, p.lib = true → Own p := by
    intro p hp hlib
    obtain ⟨a, b⟩ := hinv.2.1 p hp hlib
    exact ⟨b, a.symm⟩
  refine ⟨h1, ?_⟩
  intro σ f s₀ pid
  unfold nodeState
  congr 1
  congr 1
  symm
  apply List.filter_eq_self.mpr
  intro p hp
  cases hl : p.lib with
  | false => simp
  | true => simp [h1 p hp hl]

/-- `handleConn` itself does not insist on a handshake: a peer that is NOT this library gets a vote request
processed by whatever listens at the address.  (This is why the property speaks about nodes running the
library; see `handshake_isolation` for those.) -/
theorem listener_does_not_require_handshake :
    ∃ (w : World) (evs : List Ev), Fresh w ∧
      ∃ p ∈ (run w evs).processed, p.lib = false ∧ p.kind = .vote ∧ p.listener = ⟨7, 1⟩ := by
  refine ⟨{ procs := [{ ident := ⟨7, 1⟩, addr := 0, alive := true }] },
    [.rawDial 0, .rawWrite 0 (.req .vote 9), .listenerRead 0], ⟨rfl, rfl⟩, ?_⟩
  exact ⟨_, List.mem_singleton.mpr rfl, rfl, rfl, rfl⟩

/-- The compound operations compared by `conndiff` are traces of the automaton, so the theorems cover them. -/
theorem run_append (w : World) (a b : List Ev) : run (run w a) b = run w (a ++ b) := by
  simp [run, List.foldl_append]

theorem getConn_world (w : World) (d dest : Nat) : (getConn w d dest).world = run w (getConnEvs w d dest) := by
  unfold getConn
  dsimp only
  repeat' split
  all_goals rfl

theorem useConn_is_trace (w : World) (c : Nat) (k : Kind) : ∃ evs, (useConn w c k).world = run w evs := by
  unfold useConn
  split
  · exact ⟨useEvs c k, rfl⟩
  · exact ⟨[], rfl⟩

theorem doRPC_is_trace (w : World) (d dest : Nat) (k : Kind) : ∃ evs, (doRPC w d dest k).world = run w evs := by
  unfold doRPC
  dsimp only
  split
  · exact ⟨getConnEvs w d dest, getConn_world w d dest⟩
  · rename_i c _
    obtain ⟨e2, h2⟩ := useConn_is_trace (getConn w d dest).world c k
    split
    · refine ⟨getConnEvs w d dest ++ e2 ++ putEvs c, ?_⟩
      show putConn _ c = _
      unfold putConn
      rw [h2, getConn_world, run_append, run_append, List.append_assoc]
    · refine ⟨getConnEvs w d dest ++ e2, ?_⟩
      rw [h2, getConn_world, run_append]


/-! ### non-vacuity of Part 1: cluster 7 and cluster 8 both have a node 1; the dialer's address map is wrong first -/

def exWorld : World :=
  { procs := [{ ident := ⟨7, 1⟩, addr := 0, alive := true }, { ident := ⟨8, 1⟩, addr := 1, alive := true }],
    dialers := [{ ident := ⟨7, 2⟩, addrs := [(1, 1)] }] }

example : Fresh exWorld := ⟨rfl, rfl⟩
/-- node (7,2) dials "node 1" at the address of (8,1): `IdentityError`, nothing processed, connection closed on
both ends, nothing but the identity request was written -/
example : (doRPC exWorld 0 1 .vote).err = .identityErr ∧ (doRPC exWorld 0 1 .vote).world.processed = [] ∧
    (doRPC exWorld 0 1 .vote).world.conns.map (fun c => (c.dstate, c.lopen, c.wrote.length, c.lident)) =
      [(.closed, false, 1, ⟨8, 1⟩)] := by decide
/-- after the configuration corrects the address the request is processed by (7,1) … -/
example : (doRPC (step exWorld (.addrUpdate 0 1 0)) 0 1 .vote).err = .ok ∧
    (doRPC (step exWorld (.addrUpdate 0 1 0)) 0 1 .vote).world.processed.map (fun p => (p.lib, p.listener, p.intended)) =
      [(true, ⟨7, 1⟩, ⟨7, 1⟩)] := by decide
/-- … the connection is pooled and reused without a new handshake even when the map is wrong again … -/
example :
    let w1 := (doRPC (step exWorld (.addrUpdate 0 1 0)) 0 1 .vote).world
    let w2 := (doRPC (step w1 (.addrUpdate 0 1 1)) 0 1 .append).world
    w1.conns.map (·.pooled) = [true] ∧ w2.conns.length = 1 ∧
    w2.processed.map (fun p => (p.kind, p.listener)) = [(.vote, ⟨7, 1⟩), (.append, ⟨7, 1⟩)] := by decide
/-- … and when (8,1) takes over address 0 the pooled connection is dead: I/O error, nothing reaches (8,1);
the next call dials again and is refused by the handshake -/
example :
    let w1 := (doRPC (step exWorld (.addrUpdate 0 1 0)) 0 1 .vote).world
    let w2 := step w1 (.start 0 ⟨8, 1⟩)
    let r3 := doRPC w2 0 1 .append
    let r4 := doRPC r3.world 0 1 .append
    r3.err = .ioErr ∧ r4.err = .identityErr ∧ r4.world.processed.length = 1 := by decide

/-- replication.go pipelines: two append requests are written before the first response is read; both reach
(7,1), the connection goes back to the pool with nothing outstanding -/
example :
    let g := getConn (step exWorld (.addrUpdate 0 1 0)) 0 1
    let w := run g.world [.sendReq 0 .append, .sendReq 0 .append, .listenerRead 0, .listenerRead 0,
      .recvResp 0, .recvResp 0, .returnConn 0]
    g.conn = some 0 ∧ w.processed.map (fun p => (p.kind, p.listener)) = [(.append, ⟨7, 1⟩), (.append, ⟨7, 1⟩)] ∧
    w.conns.map (fun c => (c.dstate, c.pooled)) = [(.verified 0, true)] := by decide

/-! ## Part 2 — the directory lock, SetIdentity, New, Serve -/

open Lock

def inoOf : PC → Option Nat
  | .idle => none
  | .created i => some i
  | .linked i => some i
  | .linkFailed i => some i
  | .checked i _ => some i
  | .holding i => some i

/-- the inode with which a process owns the name `lock` -/
def owns : PC → Option Nat
  | .linked i => some i
  | .checked i r => if r = .ok then some i else none
  | .holding i => some i
  | _ => none

def LInv (s : State) : Prop :=
  (∀ p i, owns (s.procs p).pc = some i → s.lock = some i) ∧
  (∀ p i, inoOf (s.procs p).pc = some i → i < s.next) ∧
  (∀ p q i, inoOf (s.procs p).pc = some i → inoOf (s.procs q).pc = some i → p = q)

theorem owns_ino (pc : PC) (i : Nat) (h : owns pc = some i) : inoOf pc = some i := by
  cases pc <;> simp_all [owns, inoOf]

theorem linv_step (s : State) (e : Lock.Ev) (h : LInv s) : LInv (Lock.step s e) := by
  obtain ⟨h1, h2, h3⟩ := h
  cases e <;> simp only [Lock.step] <;> repeat' split
  all_goals first
    | exact ⟨h1, h2, h3⟩
    | (refine ⟨?_, ?_, ?_⟩ <;> simp only [State.setProc] <;> grind [owns, inoOf, owns_ino])

theorem linv_run (s : State) (evs : List Lock.Ev) (h : LInv s) : LInv (Lock.run s evs) := by
  induction evs generalizing s with
  | nil => exact h
  | cons e evs ih => exact ih (Lock.step s e) (linv_step s e h)

/-- nobody is inside `lockDir` or a critical section (a stale `lock` file may or may not be present) -/
def Quiet (s : State) : Prop := ∀ p, (s.procs p).pc = .idle

theorem linv_quiet (s : State) (h : Quiet s) : LInv s := by
  refine ⟨?_, ?_, ?_⟩ <;> intro p <;> simp [h p, owns, inoOf]

/-- **lock_exclusive** — any number of processes run `lockDir`, their critical section and `unlockDir`,
interleaved at the granularity of single file-system calls in any order: at no moment do two of them hold the
lock (have returned nil from `lockDir` and not yet called `unlockDir`); and whoever holds it owns the name
`lock`, so every `os.Link` of anybody else fails meanwhile. -/
theorem lock_exclusive (s : State) (hq : Quiet s) (evs : List Lock.Ev) :
    (∀ p q i j, ((Lock.run s evs).procs p).pc = .holding i → ((Lock.run s evs).procs q).pc = .holding j → p = q) ∧
    (∀ p i, ((Lock.run s evs).procs p).pc = .holding i → (Lock.run s evs).lock = some i) := by
  obtain ⟨h1, _, h3⟩ := linv_run s evs (linv_quiet s hq)
  refine ⟨?_, ?_⟩
  · intro p q i j hp hq'
    have e1 := h1 p i (by rw [hp]; rfl)
    have e2 := h1 q j (by rw [hq']; rfl)
    rw [e1] at e2
    injection e2 with e2
    subst e2
    exact h3 p q i (by rw [hp]; rfl) (by rw [hq']; rfl)
  · intro p i hp
    exact h1 p i (by rw [hp]; rfl)

/-- the holder keeps holding until ITS `unlockDir` -/
theorem holding_until_unlock (s : State) (p i : Nat) (e : Lock.Ev) (h : (s.procs p).pc = .holding i)
    (hne : e ≠ .unlock p) : ((Lock.step s e).procs p).pc = .holding i := by
  cases e <;> simp only [Lock.step] <;> repeat' split
  all_goals first
    | exact h
    | (simp only [State.setProc]; grind)

theorem holding_until_unlock_run (s : State) (p i : Nat) (evs : List Lock.Ev) (h : (s.procs p).pc = .holding i)
    (hne : Lock.Ev.unlock p ∉ evs) : ((Lock.run s evs).procs p).pc = .holding i := by
  induction evs generalizing s with
  | nil => exact h
  | cons e evs ih =>
    simp only [List.mem_cons, not_or] at hne
    exact ih (Lock.step s e) (holding_until_unlock s p i e h (fun he => hne.1 he.symm)) hne.2

/-- while the name `lock` exists every `os.Link` fails and that `lockDir` call ends with `ErrLockExists` -/
theorem link_fails_while_locked (s : State) (q j i : Nat) (hq : (s.procs q).pc = .created j) (hl : s.lock = some i) :
    ((Lock.step s (.link q)).procs q).pc = .linkFailed j ∧
    ((Lock.step (Lock.step s (.link q)) (.cleanup q)).procs q).last = some .lockExists ∧
    ((Lock.step (Lock.step s (.link q)) (.cleanup q)).procs q).pc = .idle := by
  simp [Lock.step, hq, hl, State.setProc]

/-- What breaks without the discipline "only the holder unlocks": `unlockDir` removes the name whoever owns it.
(Not a defect of the library: both call sites run after a successful `lockDir`.) -/
theorem rogue_unlock_breaks_exclusion :
    ∃ s : State, (s.procs 0).pc = .holding 0 ∧ (s.procs 1).pc = .holding 1 :=
  ⟨Lock.run (rogueUnlock (Lock.run {} (lockDirEvs 0 .serve))) (lockDirEvs 1 .serve), by decide, by decide⟩

/-- one event changes the stored identity only if it is the write step of a `SetIdentity(cid, nid)` with non-zero
ids, and only when the stored value has a zero component -/
theorem stored_step (s : State) (e : Lock.Ev) :
    (Lock.step s e).stored = s.stored ∨
    ((s.stored.1 = 0 ∨ s.stored.2 = 0) ∧
      ∃ p cid nid, e = .idWrite p cid nid ∧ cid ≠ 0 ∧ nid ≠ 0 ∧ (Lock.step s e).stored = (cid, nid)) := by
  cases e with
  | idWrite p cid nid =>
    simp only [Lock.step]
    split
    · split
      · rename_i v _
        by_cases hz : cid = 0 ∨ nid = 0
        · rw [if_pos hz]; exact Or.inl rfl
        · rw [if_neg hz]
          by_cases he : cid = v.1 ∧ nid = v.2
          · rw [if_pos he]; exact Or.inl rfl
          · rw [if_neg he]
            by_cases hv : v.1 ≠ 0 ∧ v.2 ≠ 0
            · rw [if_pos hv]; exact Or.inl rfl
            · rw [if_neg hv]
              by_cases hs : s.stored = v
              · rw [if_pos hs]
                right
                simp only [not_or] at hz
                refine ⟨?_, p, cid, nid, rfl, hz.1, hz.2, rfl⟩
                rw [hs]
                by_cases h1 : v.1 = 0
                · exact Or.inl h1
                · by_cases h2 : v.2 = 0
                  · exact Or.inr h2
                  · exact absurd ⟨h1, h2⟩ hv
              · rw [if_neg hs]; exact Or.inl rfl
      · exact Or.inl rfl
    · exact Or.inl rfl
  | _ => left; simp only [Lock.step]; (repeat' split) <;> rfl

/-- **identity_immutable** — once both ids are non-zero nothing changes the stored identity: not `SetIdentity`
with other ids (by anyone, concurrently, interleaved in any way), not lock traffic. -/
theorem identity_immutable (s : State) (evs : List Lock.Ev) (h : s.stored.1 ≠ 0 ∧ s.stored.2 ≠ 0) :
    (Lock.run s evs).stored = s.stored := by
  induction evs generalizing s with
  | nil => rfl
  | cons e evs ih =>
    have hs : (Lock.step s e).stored = s.stored := by
      rcases stored_step s e with h1 | ⟨h1, _⟩
      · exact h1
      · rcases h1 with h1 | h1
        · exact absurd h1 h.1
        · exact absurd h1 h.2
    show (Lock.run (Lock.step s e) evs).stored = s.stored
    rw [ih (Lock.step s e) (by rw [hs]; exact h), hs]

/-- what the API can produce: no identity, or both ids non-zero -/
def StoredWF (s : State) : Prop := s.stored = (0, 0) ∨ (s.stored.1 ≠ 0 ∧ s.stored.2 ≠ 0)

theorem storedWF_run (s : State) (evs : List Lock.Ev) (h : StoredWF s) : StoredWF (Lock.run s evs) := by
  induction evs generalizing s with
  | nil => exact h
  | cons e evs ih =>
    apply ih
    rcases stored_step s e with h1 | ⟨_, p, cid, nid, _, hc, hn, h1⟩
    · unfold StoredWF; rw [h1]; exact h
    · right; rw [h1]; exact ⟨hc, hn⟩

/-- hence: the stored identity changes at most once, from `(0,0)` -/
theorem identity_set_once (s : State) (evs : List Lock.Ev) (h : StoredWF s) :
    (Lock.run s evs).stored = s.stored ∨ s.stored = (0, 0) := by
  rcases h with h | h
  · exact Or.inr h
  · exact Or.inl (identity_immutable s evs h)

/-- `SetIdentity` as a whole is a trace of the lock automaton -/
theorem setIdentity_is_trace (s : State) (p cid nid : Nat) :
    ∃ evs, (setIdentity s p cid nid).state = Lock.run s evs := by
  unfold setIdentity
  split
  · exact ⟨[], rfl⟩
  · split
    · exact ⟨[], rfl⟩
    · dsimp only
      split
      · exact ⟨lockDirEvs p .setId ++ [.idRead p, .idWrite p cid nid, .unlock p], by simp [Lock.run, List.foldl_append]⟩
      · exact ⟨lockDirEvs p .setId, rfl⟩

/-- **What `SetIdentity` guarantees about the directory**: a stored identity with both ids non-zero survives
every call, whatever the arguments. -/
theorem setIdentity_guarantee (s : State) (p cid nid : Nat) (h : s.stored.1 ≠ 0 ∧ s.stored.2 ≠ 0) :
    (setIdentity s p cid nid).state.stored = s.stored := by
  obtain ⟨evs, he⟩ := setIdentity_is_trace s p cid nid
  rw [he]; exact identity_immutable s evs h

/-- an uninterrupted `lockDir` on an unlocked directory succeeds -/
theorem lockDir_free (s : State) (p : Nat) (job : Job) (hp : (s.procs p).pc = .idle) (hl : s.lock = none) :
    ((Lock.run s (lockDirEvs p job)).procs p).pc = .holding s.next ∧
    (Lock.run s (lockDirEvs p job)).stored = s.stored := by
  simp [lockDirEvs, Lock.run, Lock.step, hp, hl, State.setProc]

theorem unlock_releases (t : State) (p i : Nat) (h : (t.procs p).pc = .holding i) :
    (Lock.step t (.unlock p)).lock = none := by
  simp [Lock.step, h]

/-- the result and the lock after a call of `SetIdentity` by an idle process on an unlocked directory -/
theorem setIdentity_unlocked (s : State) (p cid nid : Nat) (hc : cid ≠ 0) (hn : nid ≠ 0)
    (hp : (s.procs p).pc = .idle) (hl : s.lock = none) :
    (setIdentity s p cid nid).returned = bodyResult s.stored cid nid ∧
    (setIdentity s p cid nid).state.lock = none := by
  obtain ⟨h1, h2⟩ := lockDir_free s p .setId hp hl
  have hh : isHolding ((Lock.run s (lockDirEvs p .setId)).procs p).pc = true := by rw [h1]; rfl
  unfold setIdentity
  rw [if_neg hc, if_neg hn]
  dsimp only
  rw [if_pos hh]
  refine ⟨by rw [h2], ?_⟩
  show (Lock.step (Lock.step (Lock.step _ (.idRead p)) (.idWrite p cid nid)) (.unlock p)).lock = none
  apply unlock_releases _ p s.next
  apply holding_until_unlock _ _ _ _ _ (by intro h; cases h)
  exact holding_until_unlock _ _ _ _ h1 (by intro h; cases h)

/-- **and what it reports** (after the repair of the deferred unlock in storage.go): on a directory that
stores a non-zero identity, `SetIdentity(cid, nid)` with non-zero ids returns nil exactly when the ids are the
stored ones and `ErrIdentityAlreadySet` otherwise; the stored identity is unchanged and the lock released. -/
theorem setIdentity_mismatch_reports_alreadySet (s : State) (p cid nid : Nat) (hc : cid ≠ 0) (hn : nid ≠ 0)
    (hp : (s.procs p).pc = .idle) (hl : s.lock = none) (hs : s.stored.1 ≠ 0 ∧ s.stored.2 ≠ 0) :
    (setIdentity s p cid nid).returned = (if cid = s.stored.1 ∧ nid = s.stored.2 then .ok else .alreadySet) ∧
    (setIdentity s p cid nid).state.stored = s.stored ∧ (setIdentity s p cid nid).state.lock = none := by
  obtain ⟨h1, h2⟩ := setIdentity_unlocked s p cid nid hc hn hp hl
  refine ⟨?_, setIdentity_guarantee s p cid nid hs, h2⟩
  rw [h1]; unfold bodyResult
  by_cases he : cid = s.stored.1 ∧ nid = s.stored.2
  · rw [if_pos he, if_pos he]
  · rw [if_neg he, if_neg he, if_pos hs]

/-- zero ids are refused before anything is touched -/
theorem setIdentity_zero (s : State) (p cid nid : Nat) (h : cid = 0 ∨ nid = 0) :
    (setIdentity s p cid nid).returned ≠ .ok ∧ (setIdentity s p cid nid).state.stored = s.stored ∧
    (setIdentity s p cid nid).state.lock = s.lock := by
  unfold setIdentity
  by_cases hc : cid = 0
  · simp [hc]
  · have hn : nid = 0 := by rcases h with h | h; exact absurd h hc; exact h
    simp [hc, hn]

/-- on a directory without identity the first call stores it -/
theorem setIdentity_fresh (s : State) (p cid nid : Nat) (hc : cid ≠ 0) (hn : nid ≠ 0)
    (hp : (s.procs p).pc = .idle) (hl : s.lock = none) (hs : s.stored = (0, 0)) :
    (setIdentity s p cid nid).returned = .ok ∧ (setIdentity s p cid nid).state.stored = (cid, nid) := by
  refine ⟨?_, ?_⟩
  · rw [(setIdentity_unlocked s p cid nid hc hn hp hl).1]
    unfold bodyResult; simp [hs]
  · obtain ⟨h1, h2⟩ := lockDir_free s p .setId hp hl
    have hh : isHolding ((Lock.run s (lockDirEvs p .setId)).procs p).pc = true := by rw [h1]; rfl
    unfold setIdentity
    rw [if_neg hc, if_neg hn]
    dsimp only
    rw [if_pos hh]
    show (Lock.step (Lock.step (Lock.step _ (.idRead p)) (.idWrite p cid nid)) (.unlock p)).stored = (cid, nid)
    generalize Lock.run s (lockDirEvs p .setId) = t at h1 h2
    simp [Lock.step, h1, State.setProc, h2, hs, hc, hn]

/-- concrete instance (the input on which the unrepaired code returned nil): stored `(1,2)`, `SetIdentity(dir, 3, 4)` -/
example :
    let r := setIdentity { stored := (1, 2) } 0 3 4
    r.returned = .alreadySet ∧ r.state.stored = (1, 2) ∧ r.state.lock = none := by decide
example : (setIdentity { stored := (1, 2) } 0 1 2).returned = .ok := by decide

/-- a held lock makes `SetIdentity` fail with `ErrLockExists` and change nothing -/
theorem setIdentity_locked (s : State) (p cid nid i : Nat) (hc : cid ≠ 0) (hn : nid ≠ 0)
    (hp : (s.procs p).pc = .idle) (hl : s.lock = some i) :
    (setIdentity s p cid nid).returned = .lockExists ∧ (setIdentity s p cid nid).state.stored = s.stored := by
  unfold setIdentity
  simp [hc, hn, lockDirEvs, Lock.run, Lock.step, hp, hl, State.setProc, isHolding]

/-- **new_requires_identity** — `New` succeeds exactly when both ids are non-zero; the node then carries the
stored identity, and by `identity_immutable` the directory keeps saying the same for ever after. -/
theorem new_requires_identity (s : State) :
    ((newNode s).1 = .ok ↔ (s.stored.1 ≠ 0 ∧ s.stored.2 ≠ 0)) ∧
    ((newNode s).1 ≠ .ok → (newNode s).1 = .identityNotSet) ∧
    ((newNode s).1 = .ok → ∀ evs, (⟨(Lock.run s evs).stored.1, (Lock.run s evs).stored.2⟩ : Identity) = (newNode s).2) := by
  unfold newNode
  split
  · rename_i h
    refine ⟨⟨fun h' => by simp at h', fun h' => ?_⟩, fun _ => rfl, fun h' => by simp at h'⟩
    rcases h with h | h
    · exact absurd h h'.1
    · exact absurd h h'.2
  · rename_i h
    simp only [not_or] at h
    refine ⟨⟨fun _ => h, fun _ => rfl⟩, fun h' => absurd rfl h', fun _ evs => ?_⟩
    rw [identity_immutable s evs h]

/-- **serve_holds_lock** — from the moment `Serve`'s `lockDir` returned nil until `Serve` returns (its deferred
`unlockDir`), whatever else happens on the directory: it still holds, the name `lock` is its link, nobody else
holds, and every `SetIdentity` / `Serve` started by anyone else meanwhile gets `ErrLockExists` at its link step. -/
theorem serve_holds_lock (s : State) (hq : Quiet s) (evs₁ evs₂ : List Lock.Ev) (p i : Nat)
    (hserve : ((Lock.run s evs₁).procs p).pc = .holding i) (hno : Lock.Ev.unlock p ∉ evs₂) :
    let s' := Lock.run (Lock.run s evs₁) evs₂
    (s'.procs p).pc = .holding i ∧ s'.lock = some i ∧ ∀ q j, (s'.procs q).pc = .holding j → q = p := by
  intro s'
  have hp : (s'.procs p).pc = .holding i := holding_until_unlock_run _ p i evs₂ hserve hno
  have he : s' = Lock.run s (evs₁ ++ evs₂) := by simp [s', Lock.run, List.foldl_append]
  obtain ⟨x1, x2⟩ := lock_exclusive s hq (evs₁ ++ evs₂)
  rw [← he] at x1 x2
  exact ⟨hp, x2 p i hp, fun q j hq' => x1 q p j i hq' hp⟩

/-- `Serve` start/end as defined in the model are such traces -/
theorem serveStart_is_trace (s : State) (p : Nat) : serveStart s p = Lock.run s (lockDirEvs p .serve) := rfl

/-! ### non-vacuity of Part 2 -/

/-- three processes race, their file-system calls interleaved; exactly process 1 (first to link) holds -/
example :
    let s := Lock.run {} [.create 0 .serve, .create 1 .setId, .create 2 .serve, .link 1, .link 0, .stat 1, .link 2,
      .cleanup 0, .cleanup 1, .cleanup 2]
    (s.procs 0).pc = .idle ∧ (s.procs 0).last = some .lockExists ∧ (s.procs 1).pc = .holding 1 ∧
    (s.procs 2).last = some .lockExists ∧ s.lock = some 1 ∧ s.temps = [] := by decide
example : Quiet ({} : State) := fun _ => rfl
/-- first `SetIdentity` stores, a different one afterwards changes nothing, zero ids are refused -/
example : (setIdentity {} 0 1 2).state.stored = (1, 2) ∧ (setIdentity {} 0 1 2).returned = .ok ∧
    (setIdentity {} 0 0 2).returned = .cidZero ∧ (setIdentity {} 0 1 0).returned = .nidZero := by decide
example : (newNode {}).1 = .identityNotSet ∧ (newNode (setIdentity {} 0 1 2).state).1 = .ok := by decide
/-- `Serve` holds; a second `Serve` and a `SetIdentity` on the same directory fail; after the first returns they succeed -/
example :
    let s1 := serveStart { stored := (1, 2) } 0
    let s2 := serveStart s1 1
    (s1.procs 0).pc = .holding 0 ∧ (s2.procs 1).last = some .lockExists ∧
    (setIdentity s2 2 1 2).returned = .lockExists ∧
    ((serveStart (serveEnd s2 0) 1).procs 1).pc = .holding 2 := by decide

/-! ## The property -/

/-- C20 over the model: for every trace of the connection automaton from a world without connections (any
listeners under any identities on any addresses, any dialers, any address maps and resolver answers, changing
in any way) and every interleaving of lock/identity operations on a directory:

1. a request of a library dialer reaches `onRequest` only at a listener whose `(cid,nid)` equals the dialer's
   intended `(cid,nid)`, and dialer and listener are then of the same cluster;
2. on a connection to anybody else the dialer writes nothing but its identity request, and never pools it;
3. a pooled connection is attached to the identity verified when it was dialled, and what is processed from a
   connection is processed by the process it was dialled to;
4. at most one process holds the directory lock at a time;
5. a stored identity with both ids non-zero never changes;
6. `New` succeeds exactly on a directory with both ids non-zero;
7. `SetIdentity` with non-zero ids on an unlocked directory that stores a non-zero identity returns nil exactly
   for the stored ids and `ErrIdentityAlreadySet` otherwise, and never changes what is stored. -/
def C20_statement : Prop :=
  (∀ (w : World) (evs : List Conn.Ev), Fresh w →
    (∀ p ∈ (Conn.run w evs).processed, p.lib = true → p.listener = p.intended ∧ p.src.cid = p.listener.cid) ∧
    (∀ c ∈ (Conn.run w evs).conns, c.lib = true → c.lident ≠ c.intended →
        (c.wrote = [] ∨ c.wrote = [idReq c]) ∧ c.pooled = false) ∧
    (∀ c ∈ (Conn.run w evs).conns, c.pooled = true → c.lib = true ∧ c.lident = c.intended) ∧
    (∀ p ∈ (Conn.run w evs).processed, ∃ c, (Conn.run w evs).conns[p.conn]? = some c ∧
        p.pid = c.lpid ∧ p.listener = c.lident ∧ p.intended = c.intended)) ∧
  (∀ (s : State) (evs : List Lock.Ev), Quiet s →
    ∀ p q i j, ((Lock.run s evs).procs p).pc = .holding i → ((Lock.run s evs).procs q).pc = .holding j → p = q) ∧
  (∀ (s : State) (evs : List Lock.Ev), s.stored.1 ≠ 0 ∧ s.stored.2 ≠ 0 → (Lock.run s evs).stored = s.stored) ∧
  (∀ s : State, (newNode s).1 = .ok ↔ (s.stored.1 ≠ 0 ∧ s.stored.2 ≠ 0)) ∧
  (∀ (s : State) (p cid nid : Nat), cid ≠ 0 → nid ≠ 0 → (s.procs p).pc = .idle → s.lock = none →
    s.stored.1 ≠ 0 ∧ s.stored.2 ≠ 0 →
    (setIdentity s p cid nid).returned = (if cid = s.stored.1 ∧ nid = s.stored.2 then .ok else .alreadySet) ∧
    (setIdentity s p cid nid).state.stored = s.stored)

theorem C20 : C20_statement := by
  refine ⟨fun w evs hw => ⟨?_, ?_, ?_, ?_⟩, ?_, ?_, ?_, ?_⟩
  · intro p hp hlib
    obtain ⟨a, b⟩ := (no_cross_cluster_influence w hw evs).1 p hp hlib
    exact ⟨b.symm, a⟩
  · intro c hc hlib hne
    obtain ⟨a, b, _⟩ := mismatch_writes_nothing_else w hw evs c hc hlib hne
    exact ⟨a, b⟩
  · intro c hc hpool
    obtain ⟨a, _, b, _⟩ := (pooled_conn_identity_stable w hw evs).1 c hc hpool
    exact ⟨a, b⟩
  · intro p hp
    obtain ⟨c, hc, a, b, d, _⟩ := (pooled_conn_identity_stable w hw evs).2.1 p hp
    exact ⟨c, hc, a, b, d⟩
  · intro s evs hq
    exact (lock_exclusive s hq evs).1
  · exact fun s evs h => identity_immutable s evs h
  · exact fun s => (new_requires_identity s).1
  · intro s p cid nid hc hn hp hl hs
    obtain ⟨a, b, _⟩ := setIdentity_mismatch_reports_alreadySet s p cid nid hc hn hp hl hs
    exact ⟨a, b⟩

end C20
end Raft

#print axioms Raft.C20.C20
#print axioms Raft.C20.handshake_isolation
#print axioms Raft.C20.mismatch_writes_nothing_else
#print axioms Raft.C20.mismatch_closes
#print axioms Raft.C20.listener_closes_on_mismatch
#print axioms Raft.C20.pooled_conn_identity_stable
#print axioms Raft.C20.no_cross_cluster_influence
#print axioms Raft.C20.listener_does_not_require_handshake
#print axioms Raft.C20.doRPC_is_trace
#print axioms Raft.C20.lock_exclusive
#print axioms Raft.C20.holding_until_unlock_run
#print axioms Raft.C20.rogue_unlock_breaks_exclusion
#print axioms Raft.C20.identity_immutable
#print axioms Raft.C20.identity_set_once
#print axioms Raft.C20.setIdentity_guarantee
#print axioms Raft.C20.setIdentity_mismatch_reports_alreadySet
#print axioms Raft.C20.setIdentity_zero
#print axioms Raft.C20.setIdentity_fresh
#print axioms Raft.C20.setIdentity_locked
#print axioms Raft.C20.new_requires_identity
#print axioms Raft.C20.serve_holds_lock
