/-
C08 / C01 / C02 / C11 on the cluster-level transition system WITH membership changes (`Raft.Member`, Sys/Member.lean:
`.changeConfig` requests allowed, configuration entries replicated like any entry, every node uses the latest
configuration of its log, no fixed voter set, no snapshots).

PROVED for every reachable state (`Member.ReachableP`, any schedule, crashes and restarts included):
* `election_safety_sys_member_partial` — every leader is recorded in `won`; every recorded (leader, term) has a recorded
  ELECTION CONFIGURATION (the node's latest configuration when it started the election) of which it is a voter and is
  backed by a majority OF THE VOTERS OF THAT CONFIGURATION who each durably granted it their single vote of the term;
  grants are unique per (voter, term). Hence: two leaders of one term whose election configurations are equal or
  adjacent (`QuorumRel.AdjLists`) are the same node. PARTIAL: that the election configurations of one term ARE equal
  or adjacent is an explicit hypothesis here — it is the conclusion `es_overlap` of the ledger-level argument
  (Lemmas/MemberCore.lean), whose rules are not yet proved over `ReachableP` (see below).
* `election_safety_one_change_partial` — hence, with NO hypothesis on elections: in every run in which the voters of
  every node's latest configuration are `V` or an adjacent `V'` (one change of the voter set, at any time, node by
  node) two leaders of one term are the same node; `V' = V` is `C01Sys.election_safety_sys_partial`.
* `nonvoter_never_leads_partial` (C11) — a candidate is a voter of its latest configuration; a leader is a voter of
  the configuration it was elected with; a follower that leaves the follower role in a step is a voter of its latest
  configuration (`canStartElection`, `onTimeoutNowRequest`).
* `config_chain_partial` (C08) — every configuration a node ever introduced as leader (ledger `changes`): exactly one
  configuration `c` was introduced in that step under the guards of `C08Step.OneChange` — the node was leader and a
  voter, its previous configuration was committed, an entry of its own term was committed, no transfer was in
  progress, `c` is the entry just appended — and `c` is ADJACENT to the previous latest configuration (at most one
  voter differs, a voter remains); or the step introduced more than one configuration (`nested`: the single-voter
  fast path, each introduction under the same guards, see `CfgRel.Move.change`). Side condition on the states of the
  run: `NodesOK` (bootstrapped; `latest.index ≤ lastLogIndex`, an anchor — preserved by every step other than an
  append request, `nodeOK_step_nonappend`; for those and for restarts they follow from `C19Order.ReqOk` /
  `C08Step.ReqAnch`, i.e. from commit safety). `leaderCache_reachable`: the leader caches (`SelfCache`) are current in
  EVERY reachable state.

PROVED from explicit hypotheses on one state (NOT yet over `ReachableP`):
* `leader_completeness_sys_member_partial` (C02 + C01) — instantiates `MemberCore.member_safety` on the ledgers of a
  state: if the tree of created entries is well formed (`Uniq`, `PathClosed`, terms monotone — proved for fixed
  membership in C04Sys / C02Sys) and the LOCAL rules `MemberCore.Local` hold for the tree, some commit records `R` and
  election records `E` (each rule speaks of one action of one node: a commit / an election used a majority of the
  latest configuration entry of the acting node's log; a configuration entry is adjacent to its predecessor and was
  created after the predecessor and an own-term entry were committed; the strict up-to-date check), then every entry
  of a later term extends every committed key, and all entries of one term were created by one node. Grant uniqueness
  is discharged by `einv_reachable`. What is missing for C02 across membership changes is exactly `Local True` as an
  invariant of `Member.Trans` (the generalisation of `C02Sys.CInv`). Note: `Commit.UpTo` has the extra escape `Other`
  ("an entry of the campaign's term was created by somebody else"); with configurations that change it cannot be
  resolved after the fact by election safety (which itself needs the candidates' logs to extend the committed keys),
  so the rule is stated in the strict form `MemberCore.UpToC` (for a WINNER the escape is refuted by election safety of
  the state in which it counts its last vote). `MemberCore.bug_unsafe` shows that the own-term requirement of the
  chain rule (`canChangeConfig`: `commitIndex ≥ startIndex`) cannot be dropped.
-/
import RaftVerif.Props.C01Member
import RaftVerif.Props.C08Step
import RaftVerif.Props.C02Sys
import RaftVerif.Lemmas.MemberCore

namespace Raft
namespace C08Sys
open Node Election C01 C01Sys Member C01Member QuorumRel CfgRel LogRel CommitRel Replication

/-! ### election safety (C01) -/

/-- **C01, cluster level, WITH membership changes (partial).** Let `x` be any state of `Member` reachable by runs in
which every node is bootstrapped in every state (`Boot`; nothing is assumed of the voter sets: configurations change).
Then
1. every node that is leader is recorded in `won` with its term;
2. every `(l, t) ∈ won` has an election record `k ∈ ecfg` (`k.cfg`: the latest configuration of `l` when it started
   the election of term `t`) such that `l` is a voter of `k.cfg` and `l` is `C01.Backed` by a duplicate-free majority
   of `k.cfg.voters` each of whom has a grant `(voter, t, l)` in the ledger (only recorded for durable votes, C05);
3. grants are unique per (voter, term); there is one election record per (candidate, term);
4. hence `(l, t), (l', t) ∈ won` implies `l = l'` PROVIDED the voter lists of the two election configurations are
   duplicate-free and equal or adjacent (`AdjLists`: at most one id differs) — **this proviso is the `_partial`
   restriction**; `MemberCore.es_overlap` derives it from the local rules of the single-server-change protocol. -/
theorem election_safety_sys_member_partial (x : Member.Sys) (h : ReachableP Boot x) :
    (∀ i, (x.node i).role = .leader → (i, (x.node i).term) ∈ x.el.won) ∧
    (∀ l t, (l, t) ∈ x.el.won → ∃ k ∈ x.ecfg, k.cand = l ∧ k.term = t ∧ k.cfg.isVoter l = true ∧
      Backed x.el.grants k.cfg.voters l t) ∧
    (∀ a ∈ x.el.grants, ∀ b ∈ x.el.grants, a.voter = b.voter → a.term = b.term → a.cand = b.cand) ∧
    (∀ k ∈ x.ecfg, ∀ k' ∈ x.ecfg, k.cand = k'.cand → k.term = k'.term → k = k') ∧
    (∀ l l' t, (l, t) ∈ x.el.won → (l', t) ∈ x.el.won →
      (∀ k ∈ x.ecfg, ∀ k' ∈ x.ecfg, k.cand = l → k'.cand = l' → k.term = t → k'.term = t →
        k.cfg.voters.Nodup ∧ k'.cfg.voters.Nodup ∧ AdjLists k.cfg.voters k'.cfg.voters) → l = l') := by
  have hI := einv_reachable x h
  refine ⟨hI.recorded, hI.backed, hI.unique, hI.ecfgUniq, fun l l' t hl hl' hov => ?_⟩
  obtain ⟨k, hk, k1, k2, _, k4⟩ := hI.backed l t hl
  obtain ⟨k', hk', j1, j2, _, j4⟩ := hI.backed l' t hl'
  obtain ⟨n1, n2, n3⟩ := hov k hk k' hk' k1 j1 k2 j2
  exact election_safety_adjacent x.el.grants k.cfg.voters k'.cfg.voters n1 n2 n3 hI.unique l l' t k4 j4

/-- … for two nodes that are leader now -/
theorem two_leaders_member_partial (x : Member.Sys) (h : ReachableP Boot x) (i j : Nat)
    (hi : (x.node i).role = .leader) (hj : (x.node j).role = .leader) (ht : (x.node i).term = (x.node j).term)
    (hov : ∀ k ∈ x.ecfg, ∀ k' ∈ x.ecfg, k.cand = i → k'.cand = j → k.term = (x.node i).term →
      k'.term = (x.node i).term → k.cfg.voters.Nodup ∧ k'.cfg.voters.Nodup ∧ AdjLists k.cfg.voters k'.cfg.voters) :
    i = j := by
  obtain ⟨r, _, _, _, s⟩ := election_safety_sys_member_partial x h
  exact s i j (x.node i).term (r i hi) (by rw [ht]; exact r j hj) hov

/-! ### election safety across ONE change of the voter set, unconditionally -/

/-- side condition: every node is bootstrapped and the voters of its latest configuration are `V` or `V'` -/
def TwoV (V V' : List Nat) (x : Member.Sys) : Prop :=
  Boot x ∧ ∀ i, (x.node i).configs.latest.voters = V ∨ (x.node i).configs.latest.voters = V'

theorem ecfg_twoV {V V' : List Nat} (x : Member.Sys) (h : ReachableP (TwoV V V') x) :
    ∀ k ∈ x.ecfg, k.cfg.voters = V ∨ k.cfg.voters = V' := by
  induction h with
  | init x hi _ => rw [hi.ecfg]; intro k hk; cases hk
  | next x y hx ht _ ih =>
    cases ht with
    | step i op ra ord src he =>
      intro k hk
      rcases List.mem_append.mp hk with hk | hk
      · obtain ⟨_, _, rfl⟩ := mem_ecfgOf hk
        exact hx.side.2 i
      · exact ih k hk
    | crash i op ra ord src k' retain sor n he hn =>
      intro k hk
      rcases List.mem_append.mp hk with hk | hk
      · obtain ⟨_, _, rfl⟩ := mem_ecfgOf hk
        exact hx.side.2 i
      · exact ih k hk
    | send i q _ _ _ _ => exact ih

/-- **C01 across one membership change (no hypothesis on elections).** Let `V`, `V'` be duplicate-free voter lists
that differ by at most one id (`AdjLists`: `V' = V`, `V` plus one voter, `V` minus one voter). In every state of
`Member` reachable by runs in which every node is bootstrapped and the voters of every node's latest configuration
are `V` or `V'` in every state — the cluster changes its voter set from `V` to `V'` (or back) at any time, node by
node, any number of times, with any number of non-voter changes, crashes and restarts (for `V' = V` this is
`C01Sys.election_safety_sys_partial`) — two nodes that are leader in the same term are the same node, and the
ledger `won` names at most one node per term. (**`_partial`: one pair of adjacent voter sets per run**; for longer
chains of configurations the overlap of the election configurations is the conclusion of `MemberCore.es_overlap`.) -/
theorem election_safety_one_change_partial (V V' : List Nat) (hV : V.Nodup) (hV' : V'.Nodup) (hadj : AdjLists V V')
    (x : Member.Sys) (h : ReachableP (TwoV V V') x) :
    (∀ i j, (x.node i).role = .leader → (x.node j).role = .leader → (x.node i).term = (x.node j).term → i = j) ∧
    (∀ l l' t, (l, t) ∈ x.el.won → (l', t) ∈ x.el.won → l = l') := by
  have hb : ReachableP Boot x := h.mono (fun _ hp => hp.1)
  obtain ⟨r, _, _, _, s⟩ := election_safety_sys_member_partial x hb
  have hcf := ecfg_twoV x h
  have hwon : ∀ l l' t, (l, t) ∈ x.el.won → (l', t) ∈ x.el.won → l = l' := by
    intro l l' t hl hl'
    refine s l l' t hl hl' (fun k hk k' hk' _ _ _ _ => ?_)
    rcases hcf k hk with e | e <;> rcases hcf k' hk' with e' | e' <;> rw [e, e']
    · exact ⟨hV, hV, AdjLists.refl V⟩
    · exact ⟨hV, hV', hadj⟩
    · exact ⟨hV', hV, hadj.symm⟩
    · exact ⟨hV', hV', AdjLists.refl V'⟩
  exact ⟨fun i j hi hj ht => hwon i j _ (r i hi) (by rw [ht]; exact r j hj), hwon⟩

/-! ### non-voters never lead (C11) -/

/-- **C11, cluster level, with membership changes.** In every state reachable in `Member` (every node bootstrapped):
1. a CANDIDATE is a voter of its latest configuration (which is the configuration it started its election with:
   `MemberRel.cand_configs`);
2. a LEADER was elected as a voter: its election record `k ∈ ecfg` for its current term has `k.cfg.isVoter` of it
   (a leader may afterwards demote or remove itself: it stays leader until that configuration is committed —
   `Raft.setCommitIndex` — but it was a voter of the configuration it campaigned with);
3. a FOLLOWER that is candidate or leader after a step — any operation of the model, any content, any oracle — is a
   voter of the latest configuration it had before the step: a node that is not a voter of its latest configuration
   never starts an election (`follower.onTimeout` → `canStartElection`; `onTimeoutNowRequest` → `nonVoter`). -/
theorem nonvoter_never_leads_partial (x : Member.Sys) (h : ReachableP Boot x) :
    (∀ i, (x.node i).role = .candidate → (x.node i).configs.latest.isVoter i = true) ∧
    (∀ i, (x.node i).role = .leader → ∃ k ∈ x.ecfg, k.cand = i ∧ k.term = (x.node i).term ∧ k.cfg.isVoter i = true) ∧
    (∀ i op ra ord, (x.node i).role = .follower → ((x.node i).step op ra ord).role ≠ .follower →
      (x.node i).configs.latest.isVoter i = true) := by
  have hI := einv_reachable x h
  refine ⟨fun i hi => (hI.cand i hi).voter, fun i hi => ?_, fun i op ra ord hf hnf => ?_⟩
  · obtain ⟨k, hk, k1, k2, k3, _⟩ := hI.backed i _ (hI.recorded i hi)
    exact ⟨k, hk, k1, k2, k3⟩
  · have rs := role_step (x.node i) op ra ord (fun hc => by rw [hf] at hc; cases hc)
    have hnid := (hI.ids i).1
    have fin : NewElection (x.node i) ((x.node i).step op ra ord) → (x.node i).configs.latest.isVoter i = true := by
      rintro ⟨_, _, ec, n3, n4, _, _⟩
      rw [← n3 (h.side i), ← hnid]
      rcases n4 with n4 | n4
      · rw [hf] at n4; cases n4
      · exact n4
    cases hr : ((x.node i).step op ra ord).role with
    | follower => exact absurd hr hnf
    | candidate =>
      rcases rs.candidate hr with ⟨c1, _⟩ | ne
      · rw [hf] at c1; cases c1
      · exact fin ne
    | leader =>
      rcases rs.leader hr with ⟨l1, _⟩ | ⟨l1, _⟩ | ne
      · rw [hf] at l1; cases l1
      · have l2 := l1.1; rw [hf] at l2; cases l2
      · exact fin ne

/-! ### the configuration chain (C08) -/

/-- **the leader's caches are current in every reachable state** (`C06Cache.LeaderCache`: a leader's cached own entry,
voter count and replication table are those of its latest configuration) — for any side condition `P`: the initial
nodes and a restarted node are followers, and `C06Cache.step_leaderCache` covers every operation of the model other
than `shutdown` (excluded with the snapshot operations, `LogRel.OpOK`). In particular `CfgRel.SelfCache` holds. -/
theorem leaderCache_reachable {P : Member.Sys → Prop} (x : Member.Sys) (h : ReachableP P x) :
    ∀ i, C06Cache.LeaderCache (x.node i) := by
  induction h with
  | init x hi _ =>
    intro i hl
    rw [(hi.cm.rp.el.1 i).2.2] at hl; cases hl
  | next x y _ ht _ ih =>
    cases ht with
    | step i op ra ord src he =>
      intro j
      show C06Cache.LeaderCache (setNode x.cm.rp.el.node i _ j)
      by_cases hj : j = i
      · subst hj
        rw [setNode_same]
        exact C06Cache.step_leaderCache _ op ra ord
          (fun e => by subst e; exact absurd he.rp.ok (by simp [LogRel.OpOK])) (ih j)
      · rw [setNode_other _ _ _ _ hj]; exact ih j
    | crash i op ra ord src k retain sor n he hn =>
      intro j
      show C06Cache.LeaderCache (setNode x.cm.rp.el.node i n j)
      by_cases hj : j = i
      · subst hj
        rw [setNode_same]
        intro hl
        rw [(restart_role_nid _ _ _ _ hn).1] at hl; cases hl
      · rw [setNode_other _ _ _ _ hj]; exact ih j
    | send i q _ _ _ _ => exact ih

/-- the node-level facts `C08Step.config_step` needs beyond `SelfCache`: the latest configuration is an entry of the
log (`latest.index ≤ lastLogIndex`, part of `Order.Ordered`) and has an anchor — a voter without pending action — or is
empty (`CfgRel.AnchC`, `NoPanic.Glob.cfgL`) -/
def NodeOK (s : Node) : Prop :=
  s.configs.latest.index ≤ s.lastLogIndex ∧ AnchC s.configs.latest

/-- side condition on the states of a run: every node is bootstrapped and satisfies `NodeOK` -/
def NodesOK (x : Member.Sys) : Prop := Boot x ∧ ∀ i, NodeOK (x.node i)

/-- `NodeOK` is preserved by every step that does not handle an append (or install) request — for every oracle and
input, whether or not anything fails: it can only be broken by what a follower is SENT (an append request that
truncates at or below `configs.committed`, or carries a configuration without voter: `C19Order.ReqOk`,
`C08Step.ReqAnch`) or by what a restart finds on disk. -/
theorem nodeOK_step_nonappend (s : Node) (op : Op) (ra : List Nat) (ord : List (List Nat)) (hsc : SelfCache s)
    (hn : NodeOK s) (hok : CfgRel.OpOk op) (ha : ∀ q, op ≠ .append q) (hi : ∀ q, op ≠ .install q) :
    NodeOK (s.step op ra ord) := by
  obtain ⟨ph, hm⟩ := handle_fin s op ra ord hsc hn.1 hn.2 hok ha hi
  have key : ∃ ph', Main s op ph' (s.step op ra ord) := by
    unfold Node.step
    dsimp only
    split
    · exact ⟨ph, hm⟩
    · exact settle_fin 6 _ _ ph hm
  obtain ⟨ph', hm'⟩ := key
  exact ⟨hm'.li, hm'.anch⟩

/-- what is known of a recorded introduction of a configuration -/
structure ChangeOK (r : Change) : Prop where
  /-- the record is a step of the model that did not handle an append request -/
  step : ∃ ra ord, r.post = r.pre.step r.op ra ord
  noAppend : ∀ q, r.op ≠ .append q
  grew : r.pre.configs.latest.index < r.post.configs.latest.index
  /-- exactly one configuration, adjacent to the previous latest one, under the guards of `OneChange`; or more than
  one (`nested`) -/
  cases : (∃ x c, C08Step.OneChange r.pre r.op ⟨r.pre.configs.latest, c⟩ x c ∧ Adjacent r.pre.configs.latest c ∧
      r.post.configs.latest = c) ∨ Chain r.pre r.op .nested r.post.configs

/-- a `ChangeConfig` request handled by a bootstrapped node that is not leader changes no configuration -/
theorem changeConfig_nonleader (s : Node) (t : Nat) (c : Config) (ra : List Nat) (ord : List (List Nat))
    (hr : s.role ≠ .leader) (hb : s.configs.isBootstrapped = true) :
    (s.step (.changeConfig t c) ra ord).configs = s.configs := by
  have hh : (s.begin ra ord).handle (.changeConfig t c) = (s.begin ra ord).reply t ((s.begin ra ord).notLeader false) := by
    show (if (s.begin ra ord).role = .leader then _ else (s.begin ra ord).bootstrap t c) = _
    rw [if_neg (show ¬ (s.begin ra ord).role = .leader from hr)]
    unfold Node.bootstrap
    rw [if_pos (show (s.begin ra ord).configs.isBootstrapped = true from hb)]
  have hs : s.step (.changeConfig t c) ra ord = settle 6 ((s.begin ra ord).handle (.changeConfig t c)) (s.begin ra ord).role := rfl
  have k := SameKey.reply (s.begin ra ord) t ((s.begin ra ord).notLeader false)
  rw [hs, hh]
  have e : settle 6 ((s.begin ra ord).reply t ((s.begin ra ord).notLeader false)) (s.begin ra ord).role =
      (s.begin ra ord).reply t ((s.begin ra ord).notLeader false) := by
    unfold settle; rw [if_pos k.role]
  rw [e, k.configs]
  rfl

theorem isAppend_false {op : Op} (h : Commit.isAppend op = false) : ∀ q, op ≠ .append q := by
  intro q e; subst e; cases h

theorem mem_changeOf {i : Nat} {pre post : Node} {op : Op} {r : Change} (h : r ∈ changeOf i pre op post) :
    Commit.isAppend op = false ∧ pre.configs.latest.index < post.configs.latest.index ∧
    r = { node := i, pre := pre, op := op, post := post } := by
  unfold changeOf at h
  split at h
  · rename_i hc
    exact ⟨hc.1, hc.2, by simpa using h⟩
  · cases h

/-- a recorded step of a good node is a legal introduction -/
theorem changeOK_step (i : Nat) (s : Node) (op : Op) (ra : List Nat) (ord : List (List Nat)) (hb : s.configs.isBootstrapped = true)
    (hsc : SelfCache s) (hn : NodeOK s) (hok : LogRel.OpOK op) (hcf : CfgRel.OpOk op) (r : Change)
    (hr : r ∈ changeOf i s op (s.step op ra ord)) : ChangeOK r := by
  obtain ⟨h1, h2, rfl⟩ := mem_changeOf hr
  obtain ⟨hli, hanch⟩ := hn
  have hna := isAppend_false h1
  have hl : C08Step.LeaderOp s op := by
    refine ⟨hna, fun q e => by subst e; exact absurd hok (by simp [LogRel.OpOK]), fun t c e => ?_⟩
    subst e
    apply Classical.byContradiction
    intro hnl
    have := changeConfig_nonleader s t c ra ord hnl hb
    rw [this] at h2
    exact Nat.lt_irrefl _ h2
  refine ⟨⟨ra, ord, rfl⟩, hna, h2, ?_⟩
  rcases C08Step.config_step_cases s op ra ord hsc hli hanch hcf hl with e | ⟨_, e⟩ | ⟨x, c, o, adj, e⟩ | e
  · rw [e] at h2; exact absurd h2 (Nat.lt_irrefl _)
  · rw [e] at h2; exact absurd h2 (Nat.lt_irrefl _)
  · refine Or.inl ⟨x, c, o, adj, ?_⟩
    rcases e with e | e <;> rw [e]
  · exact Or.inr e

/-- **C08, cluster level: the configuration chain (partial).** In every state of `Member` reachable by runs whose
states satisfy `NodesOK` (every node bootstrapped; `latest.index ≤ lastLogIndex` and an anchor in the latest
configuration — node-level invariants of C19Order / C08Step that only an append request or a restart can break,
`nodeOK_step_nonappend`; **assuming them of every state is the `_partial` restriction**; `SelfCache` is proved:
`leaderCache_reachable`), every record `r` of the ledger `changes` — every completed step, of any node, other than an
append request, in which the index of the node's latest configuration grew, i.e. EVERY CONFIGURATION EVER INTRODUCED BY
A LEADER — is a step `r.post = r.pre.step r.op …` of the model in which
* either exactly ONE configuration `c` was introduced, `r.post.configs.latest = c`, as `C08Step.OneChange` describes:
  at that moment the node was LEADER and a VOTER of its configuration, that configuration was COMMITTED
  (`configs.isCommitted`), an entry of the leader's OWN TERM was committed (`ldr.startIndex ≤ commitIndex`), no
  leadership transfer was in progress, `c` is the entry just appended (index `lastLogIndex`, the leader's term); and
  `c` is `Adjacent` to the configuration that was latest before the step: the voting rights differ at one node at
  most and a voter remains;
* or more than one configuration was introduced in the step (`nested`: the single-voter fast path commits a
  configuration within the step; each introduction satisfies the guards of `CfgRel.Move.change`, adjacency to the
  immediate predecessor is claimed for the first only). -/
theorem config_chain_partial (x : Member.Sys) (h : ReachableP NodesOK x) : ∀ r ∈ x.changes, ChangeOK r := by
  induction h with
  | init x hi _ => rw [hi.changes]; intro r hr; cases hr
  | next x y hx ht _ ih =>
    cases ht with
    | step i op ra ord src he =>
      intro r hr
      rcases List.mem_append.mp hr with hr | hr
      · exact changeOK_step i (x.node i) op ra ord (hx.side.1 i)
          (C08Step.selfCache_of_leaderCache _ (leaderCache_reachable x hx i)) (hx.side.2 i) he.rp.ok he.cfg r hr
      · exact ih r hr
    | crash i op ra ord src k retain sor n he hn => exact ih
    | send i q _ _ _ _ => exact ih

/-- … in particular the voters of the new configuration and of its predecessor differ by at most one id -/
theorem change_adjacent_voters (r : Change) (h : ChangeOK r)
    (hn : ¬ Chain r.pre r.op .nested r.post.configs) :
    C08.AdjacentVoters r.pre.configs.latest r.post.configs.latest ∧ ∃ v, r.post.configs.latest.isVoter v = true := by
  rcases h.cases with ⟨x, c, _, adj, e⟩ | e
  · rw [e]; exact adj
  · exact absurd e hn

/-! ### leader completeness and election safety from the local rules (C02 + C01) -/

open MemberCore in
/-- the creator recorded for a key of the tree (0 if none) -/
def crOf (T : List CEntry) (a : K) : Nat := ((T.find? (fun c => key c == a)).map (·.cr)).getD 0

open MemberCore in
/-- the voters of the configuration entry recorded under a key (empty if none) -/
def votersAt (T : List CEntry) (a : K) : List Nat :=
  (((T.find? (fun c => key c == a)).bind (·.e.config?)).map (·.voters)).getD []

open MemberCore in
/-- the ledgers of a state as `MemberCore.Data`: the tree of created entries under `CommitRel.Anc`; a key is a
configuration entry if its record has type `entryConfig`; acknowledgements and grants are those of the ledgers; `root`,
the commit records `R` and the election records `E` are supplied -/
def dataOf (x : Member.Sys) (root : K) (R : List Rec) (E : List El) : Data where
  A := Anc x.cm.T
  N := fun a => ∃ c ∈ x.cm.T, key c = a
  cr := crOf x.cm.T
  isC := fun a => ∃ c ∈ x.cm.T, key c = a ∧ c.e.typ = etConfig
  V := votersAt x.cm.T
  root := root
  R := R
  E := E
  acked := fun v w a => ∃ k ∈ x.cm.acks, k.voter = v ∧ k.term = w ∧ k.key = a
  granted := fun v t c => ({ voter := v, term := t, cand := c } : Grant) ∈ x.el.grants

theorem crOf_eq {T : List CEntry} (hU : Uniq T) {c : CEntry} (hc : c ∈ T) : crOf T (key c) = c.cr := by
  unfold crOf
  cases hf : T.find? (fun c' => key c' == key c) with
  | none =>
    have := List.find?_eq_none.mp hf c hc
    simp at this
  | some c' =>
    have hm : c' ∈ T := List.mem_of_find?_eq_some hf
    have hk : key c' = key c := by simpa using List.find?_some hf
    have : c' = c := by
      unfold key at hk
      simp only [Prod.mk.injEq] at hk
      exact hU c' hm c hc hk.1 hk.2
    rw [this]; rfl

open MemberCore in
/-- a well-formed tree of created entries is a forest in the sense of `MemberCore` -/
theorem forest_of (x : Member.Sys) (root : K) (R : List Rec) (E : List El) (hU : Uniq x.cm.T)
    (hP : PathClosed x.cm.T) (hm : ∀ c ∈ x.cm.T, c.pt ≤ c.e.term) : Forest (dataOf x root R E) where
  refl := fun a ⟨c, hc, hk⟩ => by
    obtain ⟨es, p, hh⟩ := hP c hc
    rw [← hk]
    exact Anc.refl_of_holds p (a := key c) hh
  node := fun a c h => by
    obtain ⟨_, es, p, hc, ha⟩ := h
    obtain ⟨ca, hca, a1, a2, _⟩ := path_record p ha
    obtain ⟨cc, hcc, c1, c2, _⟩ := path_record p hc
    exact ⟨⟨ca, hca, Prod.ext a1 a2⟩, ⟨cc, hcc, Prod.ext c1 c2⟩⟩
  trans := fun _ _ _ h1 h2 => Anc.trans hU h1 h2
  cmp := fun _ _ _ h1 h2 hi => Anc.comparable hU h1 h2 hi
  eqi := fun _ _ h hi => Anc.eq_of_index h hi
  idx := fun _ _ h => h.1
  trm := fun _ _ h => Anc.term_le hm h

open MemberCore in
/-- **C02 + C01 across membership changes, from the local rules (partial).** Let `x` be a state of `Member` reachable
by runs in which every node is bootstrapped. ASSUME (explicit hypotheses, not yet proved over `ReachableP`):
* the tree `x.cm.T` of created entries is well formed: at most one record per (index, term) (`Uniq`), every record on
  a root path (`PathClosed`), terms do not decrease along paths — the facts `C04Sys` / `C02Sys` prove for a fixed
  membership;
* for a bootstrap key `root`, commit records `R` and election records `E`, the LOCAL rules `MemberCore.Local` hold of
  these ledgers (`dataOf`): every commit in `R` was acknowledged, in the leader's term, by a majority of the voters of
  the LATEST CONFIGURATION ENTRY of the leader's log; every node that created entries of a term did so on top of the
  log it campaigned with, after a majority of the voters of the latest configuration entry of THAT log granted their
  vote and passed the strict up-to-date check `UpToC`; every configuration entry other than `root` is adjacent to its
  predecessor and was created by a leader that had committed, in its own term, a key at or above that predecessor
  (`C08Step.OneChange`: `isCommitted`, `startIndex ≤ commitIndex`); the commit index of a leader is monotone;
  the entries a node creates in one term lie on one path; initial entries have terms not above any commit.
THEN (`MemberCore.member_safety`; grant uniqueness comes from `einv_reachable`):
1. LEADER COMPLETENESS: every entry `c` of the tree with a term above that of a commit record `r ∈ R` extends the
   committed key `r.m` — in particular the log of every later leader holds it;
2. ELECTION SAFETY: any two entries of one term that were created by nodes were created by the same node. -/
theorem leader_completeness_sys_member_partial (x : Member.Sys) (h : ReachableP Boot x) (hU : Uniq x.cm.T)
    (hP : PathClosed x.cm.T) (hm : ∀ c ∈ x.cm.T, c.pt ≤ c.e.term) (root : K) (R : List Rec) (E : List El)
    (hloc : Local True (dataOf x root R E)) :
    (∀ r ∈ R, ∀ c ∈ x.cm.T, r.m.2 < c.e.term → Anc x.cm.T r.m (key c)) ∧
    (∀ c ∈ x.cm.T, ∀ c' ∈ x.cm.T, c.e.term = c'.e.term → c.cr ≠ 0 → c'.cr ≠ 0 → c.cr = c'.cr) := by
  have hI := einv_reachable x h
  have hR : Rules (dataOf x root R E) :=
    { toForest := forest_of x root R E hU hP hm
      toLocal := hloc
      grantU := fun v t c c' h1 h2 => hI.unique _ h1 _ h2 rfl rfl }
  obtain ⟨lc, es⟩ := member_safety hR
  refine ⟨fun r hr c hc hlt => lc r hr (key c) ⟨c, hc, rfl⟩ hlt, fun c hc c' hc' ht h0 h0' => ?_⟩
  have := es (key c) (key c') ⟨c, hc, rfl⟩ ⟨c', hc', rfl⟩ ht
    (by show crOf x.cm.T (key c) ≠ 0; rw [crOf_eq hU hc]; exact h0)
    (by show crOf x.cm.T (key c') ≠ 0; rw [crOf_eq hU hc']; exact h0')
  have this' : crOf x.cm.T (key c) = crOf x.cm.T (key c') := this
  rw [crOf_eq hU hc, crOf_eq hU hc'] at this'
  exact this'

/-! ### Examples (non-vacuity) -/

/-- example initial state: the commit example `C02Sys.ex0` (three voters 1, 2, 3, every node bootstrapped with the
configuration entry (1,1)) with empty ledgers -/
def ex0 : Member.Sys := { cm := C02Sys.ex0, ecfg := [], changes := [] }

/-- node 1: election timeout -/
def ex1 : Member.Sys := stepM ex0 1 .timeout [] [] 0

theorem ex0_init : Member.Init ex0 := ⟨C02Sys.ex0_init.1, rfl, rfl⟩

theorem exNode_ok (i : Nat) : NodeOK (C04Sys.exNode i) := by
  refine ⟨Nat.le_refl 1, Or.inr ⟨1, { id := 1, addr := "a:1", voter := true }, ?_, rfl, rfl⟩⟩
  show C04Sys.exCfg.find? 1 = some _
  decide

theorem ex0_ok : NodesOK ex0 := ⟨fun _ => rfl, exNode_ok⟩

theorem ex1_trans : Member.Trans ex0 ex1 :=
  .step 1 .timeout [] [] 0
    ⟨⟨by decide, (fun q h => by cases h), (fun ⟨_, _, _, h⟩ => by cases h), trivial, (fun q h => by cases h)⟩,
     trivial, (fun q h => by cases h), (fun q h => by cases h), (fun us h => by cases h)⟩

set_option maxRecDepth 100000 in
theorem ex1_ok : NodesOK ex1 := by
  constructor
  · intro i
    by_cases h : i = 1
    · subst h; decide
    · show (setNode C04Sys.exNode 1 _ i).configs.isBootstrapped = true
      rw [setNode_other _ _ _ _ h]; rfl
  · intro i
    by_cases h : i = 1
    · subst h
      exact ⟨by decide, Or.inr ⟨1, { id := 1, addr := "a:1", voter := true }, by decide, rfl, rfl⟩⟩
    · show NodeOK (setNode C04Sys.exNode 1 _ i)
      rw [setNode_other _ _ _ _ h]; exact exNode_ok i

set_option maxRecDepth 100000 in
/-- EXAMPLE: `ex1` (node 1 is candidate of term 2; its election configuration — voters 1, 2, 3 — is recorded) is
reachable with `NodesOK` in every state: the hypotheses of `election_safety_sys_member_partial`,
`nonvoter_never_leads_partial` and `config_chain_partial` hold for a non-initial state -/
example : ReachableP NodesOK ex1 ∧ ReachableP Boot ex1 ∧ (ex1.node 1).role = .candidate ∧
    ex1.ecfg = [{ cand := 1, term := 2, cfg := C04Sys.exCfg }] := by
  have r : ReachableP NodesOK ex1 := .next ex0 ex1 (.init ex0 ex0_init ex0_ok) ex1_trans ex1_ok
  exact ⟨r, r.mono (fun _ h => h.1), by decide, by decide⟩

set_option maxRecDepth 100000 in
/-- EXAMPLE: the hypotheses of `election_safety_one_change_partial` hold for `ex1` with `V = {1,2,3}` and
`V' = {1,2,3,4}` (the voter sets before and after the promotion of node 4 in the scenario below) -/
theorem ex1_twoV : [1, 2, 3].Nodup ∧ [1, 2, 3, 4].Nodup ∧ AdjLists [1, 2, 3] [1, 2, 3, 4] ∧
    ReachableP (TwoV [1, 2, 3] [1, 2, 3, 4]) ex1 := by
  have t0 : TwoV [1, 2, 3] [1, 2, 3, 4] ex0 := ⟨fun _ => rfl, fun _ => Or.inl rfl⟩
  have t1 : TwoV [1, 2, 3] [1, 2, 3, 4] ex1 := by
    refine ⟨ex1_ok.1, fun i => ?_⟩
    by_cases h : i = 1
    · subst h; exact Or.inl (by decide)
    · show (setNode C04Sys.exNode 1 _ i).configs.latest.voters = _ ∨ _
      rw [setNode_other _ _ _ _ h]; exact Or.inl rfl
  exact ⟨by decide, by decide, ⟨4, fun x hx => by simp; omega⟩, .next ex0 ex1 (.init ex0 ex0_init t0) ex1_trans t1⟩

/-- the scenario continues: node 2 grants its vote, node 1 becomes leader of term 2 and appends its no-op (2,2); nodes
2 and 3 acknowledge it, node 1 commits index 2; a client asks to add node 4 as a non-voter to be promoted: the leader
introduces configuration (3,2) — recorded in `changes` -/
def ex2 : Member.Sys := stepM ex1 2 (.vote { term := 2, src := 1, lastLogIndex := 1, lastLogTerm := 1 }) [] [] 0
def ex3 : Member.Sys := stepM ex2 1 (.voteResult false 2 rSuccess) [] [] 2
def exReq : AppendReq :=
  { term := 2, src := 1, prevLogIndex := 1, prevLogTerm := 1, entries := (ex3.node 1).log.entries.drop 1 }
def ex4 : Member.Sys := { ex3 with cm := { ex3.cm with rp := { ex3.cm.rp with sent := exReq :: ex3.cm.rp.sent } } }
def ex5 : Member.Sys := stepM ex4 2 (.append exReq) [] [] 0
def ex6 : Member.Sys := stepM ex5 3 (.append exReq) [] [] 0
def ex7 : Member.Sys :=
  stepM ex6 1 (.replUpdates [{ id := 2, upd := .matchIndex 2 }, { id := 3, upd := .matchIndex 2 }]) [] [] 0
/-- the request: the present members plus node 4, a non-voter to be promoted -/
def exAdd : Config :=
  { C04Sys.exCfg with nodes := C04Sys.exCfg.nodes ++ [{ id := 4, addr := "a:4", voter := false, action := actPromote }] }
def ex8 : Member.Sys := stepM ex7 1 (.changeConfig 5 exAdd) [] [] 0

-- evaluation (tests, not proofs; the leader block does not reduce in the kernel): node 1 leads term 2 with the election
-- configuration {1,2,3}; after the request the ledger `changes` holds the step of node 1, the new latest configuration
-- is entry (3,2) with the same voters and the new non-voter, its predecessor is `committed`
#guard (ex3.node 1).role == .leader && ex3.ecfg.map (fun k => (k.cand, k.term, k.cfg.voters)) == [(1, 2, [1, 2, 3])]
#guard ex3.el.won == [(1, 2)]
#guard (ex7.node 1).commitIndex == 2 && ex7.changes.length == 0
#guard (ex8.node 1).panicked.isNone && ex8.changes.map (fun r => (r.node, r.post.configs.latest.index)) == [(1, 3)]
#guard (ex8.node 1).configs.latest.voters == [1, 2, 3] && (ex8.node 1).configs.latest.ids == [1, 2, 3, 4]
#guard (ex8.node 1).configs.committed.index == 1 && (ex8.node 1).configs.latest.term == 2

/-- the leader puts the append request `q` on the wire (the post-state of the transition `Member.Trans.send`) -/
def exSend (x : Member.Sys) (q : AppendReq) : Member.Sys :=
  { x with cm := { x.cm with rp := { x.cm.rp with sent := q :: x.cm.rp.sent } } }

/-- the leader replicates configuration (3,2): the request with entry 3 is handled by the nodes 2 and 3 … -/
def exReq3 : AppendReq :=
  { term := 2, src := 1, prevLogIndex := 2, prevLogTerm := 2, ldrCommitIndex := 2,
    entries := (ex8.node 1).log.entries.drop 2 }
def ex9 : Member.Sys := stepM (stepM (exSend ex8 exReq3) 2 (.append exReq3) [] [] 0) 3 (.append exReq3) [] [] 0
/-- … and the new node 4 (it holds the bootstrap entry only) gets the entries 2 and 3 -/
def exReq4 : AppendReq :=
  { term := 2, src := 1, prevLogIndex := 1, prevLogTerm := 1, ldrCommitIndex := 2,
    entries := (ex8.node 1).log.entries.drop 1 }
def ex10 : Member.Sys := stepM (exSend ex9 exReq4) 4 (.append exReq4) [] [] 0
/-- the match-index reports of the nodes 2 and 3 — backed by their acknowledgements of entry 3 — reach the leader:
configuration (3,2) is committed -/
def ex11 : Member.Sys :=
  stepM ex10 1 (.replUpdates [{ id := 2, upd := .matchIndex 3 }, { id := 3, upd := .matchIndex 3 }]) [] [] 0
/-- node 4 has caught up (its report is backed by its acknowledgement of entry 3): the leader promotes it — configuration
(4,2) with the voters 1, 2, 3, 4, ADJACENT to its predecessor, is the second record of `changes` -/
def ex12 : Member.Sys := stepM ex11 1 (.replUpdates [{ id := 4, upd := .matchIndex 3 }]) [] [] 0

-- evaluation (tests, not proofs). Every step of `ex1 … ex12` is a transition of the system: the scenario is the initial
-- segment `m1 … m15` of the run PROVED reachable in Props/AuditMember.lean (`AuditMember.c08sys_scenario_run`:
-- `ex12 = m15`, `ReachableR (1,1) ex12`), which continues with the replication of (4,2), a crash and restart of node 4 and
-- the commit of (4,2) by three of four voters (`m16 … m21`). (An earlier version of this scenario delivered the match-index
-- reports WITHOUT the append requests before them — not enabled: `AuditMember.c08sys_ex10_not_enabled`.)
#guard (ex9.node 2).log.entries.length == 3 && (ex9.node 3).log.entries.length == 3 && (ex9.node 2).panicked.isNone
#guard ex9.cm.acks.any (fun a => a.voter == 2 && a.index == 3) && ex9.cm.acks.any (fun a => a.voter == 3 && a.index == 3)
#guard (ex10.node 4).log.entries.length == 3 && (ex10.node 4).configs.latest.index == 3 && (ex10.node 4).panicked.isNone
#guard ex10.cm.acks.any (fun a => a.voter == 4 && a.index == 3 && a.term == 2)
#guard (ex11.node 1).commitIndex == 3 && (ex11.node 1).configs.isCommitted && ex11.changes.length == 1
#guard (ex12.node 1).panicked.isNone && (ex12.node 1).role == .leader
#guard ex12.changes.map (fun r => (r.node, r.pre.configs.latest.voters, r.post.configs.latest.voters)) ==
  [(1, [1, 2, 3], [1, 2, 3, 4]), (1, [1, 2, 3], [1, 2, 3])]
#guard (ex12.node 1).configs.latest.index == 4 && (ex12.node 1).configs.committed.index == 3

end C08Sys
end Raft

#print axioms Raft.C01Member.einv_reachable
#print axioms Raft.C08Sys.election_safety_sys_member_partial -- also C01
#print axioms Raft.C08Sys.two_leaders_member_partial
#print axioms Raft.C08Sys.election_safety_one_change_partial -- also C01
#print axioms Raft.C08Sys.nonvoter_never_leads_partial -- also C11
#print axioms Raft.C08Sys.config_chain_partial
#print axioms Raft.C08Sys.leaderCache_reachable
#print axioms Raft.C08Sys.nodeOK_step_nonappend
#print axioms Raft.C08Sys.leader_completeness_sys_member_partial -- also C02
#print axioms Raft.MemberCore.member_safety -- also C01 C02
#print axioms Raft.QuorumRel.adjacent_quorums_intersect -- also C01
