/-
C12 (tracking) — The FSM's cached configuration and term track the applied prefix, as an inductive invariant of
`Node.step`; hence EVERY snapshot ever stored is labelled with the index and term of the last entry it covers and
with the membership in force at that index.

`Tracks s` (the fields of `Track.Core` + the leader queue), with `label s` = the configuration in the meta file of
the newest snapshot on disk (zero if none) and `newest log L i` = the newest configuration entry of `log` with
index `≤ i`, else `L` (= `C12.newestConfigUpTo`):
* `fsmOk.cfgPos`  : if the FSM holds a configuration (`fsm.config.index > 0`), it is `newest log (label s) fsm.index`;
* `fsmOk.cfgZero` : if it holds none, the log has no configuration entry at or below `fsm.index`
                    (only then does `snapRun` fall back to the configuration captured at request time);
* `fsmOk.termLog` : `fsm.term` is the term of the log entry `fsm.index` (when the log still holds it);
  `fsmOk.termSnap`: … and the snapshot's term when `fsm.index = snaps.index`;
* `lab`           : the label is self-consistent: `newest log (label s) snaps.index = label s` (what lets compaction
                    drop configuration entries at or below the snapshot);
* `snapOk`        : `snaps.term` is the term of the log entry `snaps.index` (when the log still holds it) and the
                    term recorded in the newest file;
* strengthening   : `retain ≥ 1`, `snaps.index` = index of the newest file, the log is index-contiguous,
                    `fsm.index ≤ log.last`, and on a leader the queue items are the log entries at their index
                    (`queue`: a leader's FSM is fed with queue items, not with log entries).

PROVED here, for EVERY operation, oracle and input:
* `tracks_step` : `Tracks s → Ordered s → ReqOk s op → (the step does not panic) → Tracks (s.step op rollAt orders)`
  (`Ordered`, `ReqOk`: `Props/C19Order.lean`; no new hypothesis on any operation);  `tracks_run` over sequences;
* `restart_tracks` : a restart from a disk whose newest label is self-consistent (`DiskTracks`) yields a `Tracks`
  state; `durable_diskTracks`, `restart_after_crash_tracks`: the disk of an ordered tracking node (between two
  steps) is such a disk, so the invariant survives crash + restart;
* `every_snapshot_labelled_right` : in any run from a `Tracks` state, a snapshot stored by `snapRun` is
  `(fsm.index, term of that log entry, newest configuration entry at or below it — else the previous label)`;
* `restart_latest_after_crash` : after a crash at any point of such a run, the restarted node's `configs.latest`
  is the newest configuration entry above the snapshot in its durable log, else the snapshot's label.

NOT proved here: `DiskTracks` for the disk at the storage points INSIDE a step (`C05.crashDisk` with `k > 0`, e.g.
between `snap.publish` and `snap.retain`); that the three goroutines interleave as the synchronous model does
(nodediff); the comparison with the cluster-wide ledger of configuration entries.
-/
import RaftVerif.Lemmas.ConfigTrack
import RaftVerif.Props.C19Order

namespace Raft
namespace C12Track
open Node Track Order

/-! ### the invariant -/

/-- **The FSM's cache tracks the applied prefix** (see the file header for the clauses). -/
structure Tracks (s : Node) : Prop extends Track.Core s where
  /-- on a leader, the log-type items waiting in the queue are the log entries at their index -/
  queue : s.role = .leader → QM s

instance (log : NLog) (L : Config) (si st : Nat) (f : Fsm) : Decidable (FsmOk log L si st f) :=
  decidable_of_iff
    ((0 < f.config.index → f.config = newest log L f.index) ∧ (f.config.index = 0 → pre log f.index = []) ∧
     (log.prev < f.index → (log.get? f.index).map (·.term) = some f.term) ∧ (f.index = si → f.term = st))
    ⟨fun ⟨a, b, c, d⟩ => ⟨a, b, c, d⟩, fun h => ⟨h.cfgPos, h.cfgZero, h.termLog, h.termSnap⟩⟩

instance (l : NLog) : Decidable (C03.LogContig l) := by unfold C03.LogContig; infer_instance

instance (log : NLog) (disk : List SnapFile) (si st : Nat) : Decidable (SnapOk log disk si st) :=
  decidable_of_iff
    ((log.prev < si → (log.get? si).map (·.term) = some st) ∧ st = ((disk.head?).map (·.term)).getD 0 ∧
     (si = 0 → st = 0))
    ⟨fun ⟨a, b, c⟩ => ⟨a, b, c⟩, fun h => ⟨h.termLog, h.headTerm, h.zero⟩⟩

instance (s : Node) : Decidable (Track.Core s) :=
  decidable_of_iff
    (1 ≤ s.retain ∧ s.snapIndex = ((s.snapsDisk.head?).map (·.index)).getD 0 ∧ C03.LogContig s.log ∧
     s.fsm.index ≤ s.log.last ∧ newest s.log (label s) s.snapIndex = label s ∧
     FsmOk s.log (label s) s.snapIndex s.snapTerm s.fsm ∧ SnapOk s.log s.snapsDisk s.snapIndex s.snapTerm)
    ⟨fun ⟨a, b, c, d, e, f, g⟩ => ⟨a, b, c, d, e, f, g⟩,
     fun h => ⟨h.retain, h.snapHead, h.contig, h.fsmLe, h.lab, h.fsmOk, h.snapOk⟩⟩

instance (s : Node) : Decidable (QM s) := by unfold QM; infer_instance

instance (s : Node) : Decidable (Tracks s) :=
  decidable_of_iff (Track.Core s ∧ (s.role = .leader → QM s))
    ⟨fun ⟨a, b⟩ => ⟨a, b⟩, fun h => ⟨h.toCore, h.queue⟩⟩

/-- the property in the words of `Props/C12.lean`: `ConfigTracks` w.r.t. the label on disk, whenever the FSM
holds a configuration at all -/
theorem tracks_configTracks (s : Node) (ht : Tracks s) (hpos : 0 < s.fsm.config.index) :
    C12.ConfigTracks s (label s) := ht.fsmOk.cfgPos hpos

/-- … and when it holds none, no configuration entry at or below `fsm.index` is in the log -/
theorem tracks_no_config (s : Node) (ht : Tracks s) (hz : s.fsm.config.index = 0) :
    (s.log.entries.take (s.fsm.index - s.log.prev)).filterMap Entry.config? = [] := ht.fsmOk.cfgZero hz

/-- `fsm.term` is the term of the entry at `fsm.index` -/
theorem tracks_term (s : Node) (ht : Tracks s) (h : s.log.prev < s.fsm.index) :
    s.entryTerm? s.fsm.index = some s.fsm.term := ht.fsmOk.termLog h

/-! ### one step, any sequence of steps -/

/-- **The tracking invariant is inductive.** From an ordered state in which the FSM's cache tracks the applied
prefix, an operation acceptable in the sense of `Order.ReqOk` (any operation but a malformed append/install
request — the follower truncates only above its commit index `≥ fsm.index`), handled to completion without a Go
panic, leads to a state in which it does — for every oracle (`rollAt`, `orders`) and every input. -/
theorem tracks_step (s : Node) (op : Op) (rollAt : List Nat) (orders : List (List Nat))
    (ht : Tracks s) (ho : Ordered s) (hr : ReqOk s op) (hp : (s.step op rollAt orders).panicked = none) :
    Tracks (s.step op rollAt orders) := by
  obtain ⟨h1, h2⟩ := ti_stepAll op rollAt orders ho ht.toCore ht.queue hr
  exact ⟨(h1.2 hp).1, fun hl => ((h2 hl).2 hp).2 rfl⟩

/-- **over any sequence of events** (each acceptable and handled to completion, `C19Order.RunOk`) the state stays
ordered and tracking -/
theorem tracks_run (s : Node) (ops : List (Op × List Nat × List (List Nat))) (ht : Tracks s) (ho : Ordered s)
    (hr : C19Order.RunOk s ops) : Tracks (C19Order.run s ops) ∧ Ordered (C19Order.run s ops) := by
  induction ops generalizing s with
  | nil => exact ⟨ht, ho⟩
  | cons o os ih =>
    obtain ⟨h1, h2, h3⟩ := hr
    exact ih _ (tracks_step s o.1 o.2.1 o.2.2 ht ho h1 h2) (C19Order.ordered_step s o.1 o.2.1 o.2.2 ho h1 h2) h3

/-! ### restart -/

/-- What a restart needs of the disk: the log is index-contiguous; the newest snapshot's label is the newest
configuration at or below its index (in the log `openStorage` works with, `C10.logOf`); its term is that of the
log entry at its index, when the log holds it; "no snapshot" means index and term `0`. -/
structure DiskTracks (d : Durable) : Prop where
  contig : C03.LogContig d.log
  lab : newest (C10.logOf d) (C10.snapOf d).config (C10.snapOf d).index = (C10.snapOf d).config
  term : (C10.logOf d).prev < (C10.snapOf d).index →
    ((C10.logOf d).get? (C10.snapOf d).index).map (·.term) = some (C10.snapOf d).term
  zero : (C10.snapOf d).index = 0 → (C10.snapOf d).term = 0

instance (d : Durable) : Decidable (DiskTracks d) :=
  decidable_of_iff
    (C03.LogContig d.log ∧ newest (C10.logOf d) (C10.snapOf d).config (C10.snapOf d).index = (C10.snapOf d).config ∧
     ((C10.logOf d).prev < (C10.snapOf d).index →
        ((C10.logOf d).get? (C10.snapOf d).index).map (·.term) = some (C10.snapOf d).term) ∧
     ((C10.snapOf d).index = 0 → (C10.snapOf d).term = 0))
    ⟨fun ⟨a, b, c, e⟩ => ⟨a, b, c, e⟩, fun h => ⟨h.contig, h.lab, h.term, h.zero⟩⟩

/-- the fields of a restarted node that `C10.restart_fsm` does not list -/
theorem restart_more (d : Durable) (r : Nat) (sor : Bool) (n : Node) (h : restart d r sor = some n) :
    n.retain = r ∧ n.snapTerm = (C10.snapOf d).term ∧ n.ldr.queue = [] ∧ n.role = .follower := by
  obtain ⟨_, _, _, hn⟩ := C10.restart_some d r sor n h
  rw [hn]
  split
  · rw [fsmRestore_eq]; exact ⟨rfl, rfl, rfl, rfl⟩
  · exact ⟨rfl, rfl, rfl, rfl⟩

/-- **a restart establishes the invariant** (`openStorage` + `New` + the restore step of `Serve`): the FSM is
restored from the newest snapshot — index, term and configuration are the label's. -/
theorem restart_tracks (d : Durable) (r : Nat) (sor : Bool) (n : Node) (hr : 1 ≤ r) (hd : DiskTracks d)
    (h : restart d r sor = some n) : Tracks n := by
  obtain ⟨hfsm, _, hsnap, hlog, _, _, hdisk⟩ := C10.restart_fsm d r sor n h
  obtain ⟨m1, m2, m3, m4⟩ := restart_more d r sor n h
  obtain ⟨_, q2, _⟩ := C10.restart_log_contiguous_with_snapshot d r sor
  obtain ⟨e1, _, e3, _⟩ := C10.restartNode_fields d r sor
  have hL : label n = (C10.snapOf d).config := by unfold label; rw [hdisk]; rfl
  have hlast : (C10.snapOf d).index ≤ n.log.last := by rw [hlog]; rw [e1] at q2; exact q2
  have hcontig : C03.LogContig n.log := by
    rw [hlog, e3]
    show C03.LogContig (C10.logOf d)
    rcases C10.logOf_cases d with ⟨_, e⟩ | ⟨_, e⟩ <;> rw [e]
    · exact C03.LogContig.reset _
    · exact hd.contig
  have hnew : ∀ L i, newest n.log L i = newest (C10.logOf d) L i := by
    intro L i; rw [hlog, e3]; rfl
  have hget : ∀ i, n.log.get? i = (C10.logOf d).get? i := by intro i; rw [hlog, e3]; rfl
  have hprev : n.log.prev = (C10.logOf d).prev := by rw [hlog, e3]
  have hpre : ∀ i, pre n.log i = pre (C10.logOf d) i := by intro i; rw [hlog, e3]; rfl
  have hsnapOk : SnapOk n.log n.snapsDisk n.snapIndex n.snapTerm := by
    rw [hsnap, m2, hdisk]
    refine ⟨fun hlt => ?_, ?_, hd.zero⟩
    · rw [hget]; exact hd.term (by rw [← hprev]; exact hlt)
    · unfold C10.snapOf
      cases d.snaps.head? <;> rfl
  refine ⟨⟨by rw [m1]; exact hr, ?_, hcontig, ?_, ?_, ?_, hsnapOk⟩, fun hl => by rw [m4] at hl; cases hl⟩
  · rw [hsnap, hdisk]
    unfold C10.snapOf
    cases d.snaps.head? <;> rfl
  · split at hfsm
    · rw [hfsm.1]; exact hlast
    · rw [hfsm.1]; exact Nat.zero_le _
  · rw [hL, hsnap, hnew]; exact hd.lab
  · rw [hL, hsnap, m2]
    split at hfsm
    · rename_i hpos
      rw [hfsm.1]
      refine ⟨fun _ => ?_, fun hz => ?_, fun hlt => ?_, fun _ => rfl⟩
      · show (C10.snapOf d).config = newest n.log _ (C10.snapOf d).index
        rw [hnew]; exact hd.lab.symm
      · -- the label has index 0: no configuration entry at or below the snapshot (they have positive index)
        show pre n.log (C10.snapOf d).index = []
        have hz' : (C10.snapOf d).config.index = 0 := hz
        cases hp : pre n.log (C10.snapOf d).index with
        | nil => rfl
        | cons a l =>
          exfalso
          have hne : pre n.log (C10.snapOf d).index ≠ [] := by rw [hp]; exact List.cons_ne_nil _ _
          have := newest_index_pos hcontig (C10.snapOf d).config _ hne
          rw [hnew, hd.lab] at this
          omega
      · show (n.log.get? (C10.snapOf d).index).map (·.term) = some (C10.snapOf d).term
        rw [hget]
        exact hd.term (by rw [← hprev]; exact hlt)
    · rename_i hpos
      have h0 : (C10.snapOf d).index = 0 := by omega
      rw [hfsm.1, h0]
      refine ⟨fun hp => absurd hp (by decide), fun _ => ?_, fun hlt => absurd hlt (Nat.not_lt_zero _),
        fun _ => (hd.zero h0).symm⟩
      show pre n.log 0 = []
      unfold pre; rw [Nat.zero_sub]; rfl

/-! ### every snapshot ever stored carries the right label -/

/-- the file `snapRun` stores (when it does not refuse): what is on disk afterwards -/
theorem snapRun_stores (s : Node) (ht : Tracks s) (ho : Ordered s) (rq : SnapReq) (hp : s.snapPending = some rq)
    (h1 : s.fsm.index ≠ s.snapIndex) (h2 : rq.minIndex ≤ s.fsm.index) :
    s.snapRun.snapsDisk.head? = some (C09.snapFileOf s rq) ∧
    s.snapRun.snapResult = some { task := rq.task, index := s.fsm.index } := by
  obtain ⟨a, _, _, d, _⟩ := C09.snapshot_at_applied_index s rq hp h1 h2
  refine ⟨?_, d⟩
  have hh : ∀ g, s.snapsDisk.head? = some g → g.index ≤ (C09.snapFileOf s rq).index := fun g hg => by
    have := ht.toCore.headLe g hg
    have := ho.snap_le_applied
    show g.index ≤ s.fsm.index
    omega
  have := (C09.publish_keeps_new_file s (C09.snapFileOf s rq) ht.retain hh).2
  rw [a]
  exact this

/-- the single-state form of `every_snapshot_labelled_right` -/
theorem snapshot_labelled_right (s : Node) (ht : Tracks s) (ho : Ordered s) (rq : SnapReq)
    (hp : s.snapPending = some rq) (h1 : s.fsm.index ≠ s.snapIndex) (h2 : rq.minIndex ≤ s.fsm.index) :
    s.snapRun.snapsDisk.head? = some (C09.snapFileOf s rq) ∧
    s.snapRun.snapResult = some { task := rq.task, index := (C09.snapFileOf s rq).index } ∧
    (C09.snapFileOf s rq).index = s.fsm.index ∧ s.snapIndex < (C09.snapFileOf s rq).index ∧
    (C09.snapFileOf s rq).index ≤ s.log.last ∧
    s.entryTerm? (C09.snapFileOf s rq).index = some (C09.snapFileOf s rq).term ∧
    (0 < s.fsm.config.index → (C09.snapFileOf s rq).config = newest s.log (label s) (C09.snapFileOf s rq).index) ∧
    (s.fsm.config.index = 0 → (C09.snapFileOf s rq).config = rq.config ∧ pre s.log (C09.snapFileOf s rq).index = []) := by
  obtain ⟨a, b⟩ := snapRun_stores s ht ho rq hp h1 h2
  have hsa := ho.snap_le_applied
  have hps := ho.prev_le_snap
  have hlt : s.snapIndex < s.fsm.index := by omega
  refine ⟨a, b, rfl, hlt, ht.fsmLe, ht.fsmOk.termLog (by omega), fun hpos => ?_, fun hz => ?_⟩
  · show (if s.fsm.config.index > 0 then s.fsm.config else rq.config) = _
    rw [if_pos hpos]; exact ht.fsmOk.cfgPos hpos
  · refine ⟨?_, ht.fsmOk.cfgZero hz⟩
    show (if s.fsm.config.index > 0 then s.fsm.config else rq.config) = _
    rw [if_neg (by omega)]

/-- **every_snapshot_labelled_right.** In any run (acceptable operations handled to completion) from an ordered
tracking state, whenever `snapRun` stores a snapshot (a request is pending, the FSM is past the last snapshot and
past the threshold), the file it stores — the newest on disk afterwards, reported in `snapResult` without error —
carries
* the index of the last entry applied, `fsm.index`, which is above the previous snapshot and within the log;
* the term of THAT log entry;
* the membership in force at that index: the newest configuration entry at or below it, else the previous
  snapshot's label — never the (possibly older or newer) configuration captured at request time, which is used
  only when the FSM has seen no configuration at all (then the log holds no configuration entry at or below that
  index; not reachable in a cluster: entry 1 of every log is the bootstrap configuration and every label a leader
  sends has index `≥ 1`). -/
theorem every_snapshot_labelled_right (s₀ : Node) (ops : List (Op × List Nat × List (List Nat)))
    (ht₀ : Tracks s₀) (ho₀ : Ordered s₀) (hr : C19Order.RunOk s₀ ops) (rq : SnapReq)
    (hp : (C19Order.run s₀ ops).snapPending = some rq)
    (h1 : (C19Order.run s₀ ops).fsm.index ≠ (C19Order.run s₀ ops).snapIndex)
    (h2 : rq.minIndex ≤ (C19Order.run s₀ ops).fsm.index) :
    let s := C19Order.run s₀ ops
    let f := C09.snapFileOf s rq
    s.snapRun.snapsDisk.head? = some f ∧
    s.snapRun.snapResult = some { task := rq.task, index := f.index } ∧
    f.index = s.fsm.index ∧ s.snapIndex < f.index ∧ f.index ≤ s.log.last ∧
    s.entryTerm? f.index = some f.term ∧
    (0 < s.fsm.config.index → f.config = newest s.log (label s) f.index) ∧
    (s.fsm.config.index = 0 → f.config = rq.config ∧ pre s.log f.index = []) := by
  obtain ⟨ht, ho⟩ := tracks_run s₀ ops ht₀ ho₀ hr
  exact snapshot_labelled_right _ ht ho rq hp h1 h2

/-! ### after a crash and restart -/

/-- the disk of a tracking, ordered node: the log starts at or below the newest snapshot, and that snapshot's
label is the node's `label` -/
theorem durable_snap (s : Node) (ht : Tracks s) (ho : Ordered s) :
    C10.DurWF s.durable ∧ (C10.snapOf s.durable).config = label s ∧ (C10.snapOf s.durable).index = s.snapIndex := by
  have hidx : (C10.snapOf s.durable).index = s.snapIndex := by
    rw [ht.snapHead]
    show ((s.snapsDisk.head?).getD {}).index = _
    cases s.snapsDisk.head? <;> rfl
  refine ⟨?_, rfl, hidx⟩
  unfold C10.DurWF
  rw [hidx]
  exact ho.prev_le_snap

theorem contig_durable {l : NLog} (hc : C03.LogContig l) : C03.LogContig l.durable := by
  intro k h
  simp only [NLog.durable] at h ⊢
  rw [List.getElem_take]
  exact hc k (by rw [List.length_take] at h; omega)

/-- **what a tracking node leaves on disk is what a restart needs**: the disk of an ordered tracking node (as it
is BETWEEN two steps: the entries up to `flushed`, the snapshot files) satisfies `DiskTracks` -/
theorem durable_diskTracks (s : Node) (ht : Tracks s) (ho : Ordered s) : DiskTracks s.durable := by
  obtain ⟨_, hcfg, hidx⟩ := durable_snap s ht ho
  have hterm : (C10.snapOf s.durable).term = s.snapTerm := by
    rw [ht.snapOk.headTerm]
    show ((s.snapsDisk.head?).getD {}).term = _
    cases s.snapsDisk.head? <;> rfl
  have hcontig : C03.LogContig s.durable.log := contig_durable ht.contig
  refine ⟨hcontig, ?_, ?_, fun h0 => ?_⟩
  · rw [hcfg, hidx]
    rcases C10.logOf_cases s.durable with ⟨_, e⟩ | ⟨hle, e⟩ <;> rw [e]
    · exact newest_of_nil _ (pre_reset _ _)
    · -- the entries up to the snapshot index are all flushed
      rw [hidx] at hle
      have hlen : s.snapIndex - s.log.prev ≤ (s.log.entries.take (s.log.flushed - s.log.prev)).length := by
        have : s.snapIndex ≤ s.log.prev + (s.log.entries.take (s.log.flushed - s.log.prev)).length := hle
        omega
      have he : s.durable.log.entries.take (s.snapIndex - s.log.prev) = s.log.entries.take (s.snapIndex - s.log.prev) := by
        show (s.log.entries.take (s.log.flushed - s.log.prev)).take _ = _
        rw [List.length_take] at hlen
        rw [List.take_take]; congr 1; omega
      have hp : pre s.durable.log s.snapIndex = pre s.log s.snapIndex := pre_congr rfl he
      unfold newest; rw [hp]; exact ht.lab
  · rw [hidx, hterm]
    rcases C10.logOf_cases s.durable with ⟨_, e⟩ | ⟨hle, e⟩ <;> rw [e]
    · intro hlt
      rw [hidx] at hlt
      exact absurd hlt (Nat.lt_irrefl _)
    · intro hlt
      rw [hidx] at hle
      have hlen : s.snapIndex - s.log.prev ≤ (s.log.entries.take (s.log.flushed - s.log.prev)).length := by
        have : s.snapIndex ≤ s.log.prev + (s.log.entries.take (s.log.flushed - s.log.prev)).length := hle
        omega
      have he : s.durable.log.entries.take (s.snapIndex - s.log.prev) = s.log.entries.take (s.snapIndex - s.log.prev) := by
        show (s.log.entries.take (s.log.flushed - s.log.prev)).take _ = _
        rw [List.length_take] at hlen
        rw [List.take_take]; congr 1; omega
      rw [get?_congr (log := s.log) (log' := s.durable.log) rfl he]
      exact ht.snapOk.termLog hlt
  · rw [hterm]
    exact ht.snapOk.zero (by rw [← hidx]; exact h0)

/-- **the invariant survives a crash and restart between two steps**: a node restarted from the disk of an
ordered tracking node tracks again (its FSM restored from the newest snapshot holds the label). -/
theorem restart_after_crash_tracks (s : Node) (ht : Tracks s) (ho : Ordered s) (r : Nat) (sor : Bool) (n : Node)
    (hr : 1 ≤ r) (h : restart s.durable r sor = some n) : Tracks n :=
  restart_tracks s.durable r sor n hr (durable_diskTracks s ht ho) h

/-- **after compaction and restart the membership comes from the label unless a later entry overrides it.**
Crash an ordered tracking node at any point (in particular after `snapRun`, `onSnapshotTaken` and the compaction
it performs) and restart it from what is durable: if `openStorage` meets no undecodable configuration entry, the
restarted node's `configs.latest` is the newest configuration entry above the snapshot index in its durable log
(`C10.configsAbove`), else the newest snapshot's label — which (`Tracks.lab`, `every_snapshot_labelled_right`) is
the configuration in force at the snapshot index. -/
theorem restart_latest_after_crash (s : Node) (ht : Tracks s) (ho : Ordered s) (r : Nat) (sor : Bool) (n : Node)
    (hok : C10.NoDecodeErr (C10.window (C10.logOf s.durable) (C10.snapOf s.durable).index (C10.logOf s.durable).last))
    (h : restart s.durable r sor = some n) :
    n.configs.latest = ((C10.configsAbove s.durable)[0]?).getD (label s) ∧
    (C10.configsAbove s.durable = [] → n.configs.latest = label s ∧ n.configs.committed = label s) := by
  obtain ⟨hwf, hl, _⟩ := durable_snap s ht ho
  obtain ⟨_, _, _, _, _, hcfg, _⟩ := C10.restart_fsm s.durable r sor n h
  obtain ⟨_, c1, c2⟩ := C10.restart_configs s.durable r sor hwf hok
  rw [hcfg, c1, c2, hl]
  refine ⟨rfl, fun he => ?_⟩
  rw [he]; exact ⟨rfl, rfl⟩


/-! ### examples: the hypotheses are satisfiable -/

def n1 : CNode := { id := 1, addr := "a:1", voter := true }
def n2 : CNode := { id := 2, addr := "b:1", voter := true }
/-- the bootstrap configuration (entry 1, compacted away: it is the label of the snapshot at 1) -/
def c1 : Config := { nodes := [n1], index := 1, term := 1 }
/-- the configuration of entry 3 -/
def c3 : Config := { nodes := [n1, n2], index := 3, term := 1 }

/-- a follower with a snapshot at 1 labelled `c1`, entries 2 (no-op), 3 (configuration `c3`), 4 (update);
applied 2, committed 2: its FSM holds `c1` -/
def exT : Node :=
  { nid := 1, cid := 7, term := 1, durTerm := 1,
    log := { prev := 1, entries := [{ index := 2, term := 1, typ := etNop },
                                     { index := 3, term := 1, typ := etConfig, cfg := some { nodes := [n1, n2] } },
                                     { index := 4, term := 1, typ := etUpdate, data := "a" }],
             flushed := 4, segs := [1] },
    lastLogIndex := 4, lastLogTerm := 1, snapIndex := 1, snapTerm := 1,
    snapsDisk := [{ index := 1, term := 1, config := c1 }],
    configs := { committed := c1, latest := c3 },
    commitIndex := 2, fsm := { index := 2, term := 1, config := c1 } }

theorem exT_ordered : Ordered exT :=
  ⟨⟨by decide, by decide, by decide, by decide, by decide, by decide, ⟨by decide, by decide, by decide⟩, by decide,
    fun rs h => by cases h⟩, by decide⟩

theorem exT_tracks : Tracks exT := by decide

/-- a heartbeat from the leader (node 2) that has committed up to 4 -/
def exBeat : AppendReq := { term := 1, src := 2, prevLogIndex := 4, prevLogTerm := 1, ldrCommitIndex := 4 }

/-- EXAMPLE (`tracks_step`): the hypotheses hold for `exT` and the heartbeat; the step applies entries 3 and 4:
the FSM now holds the configuration of entry 3 and the term of entry 4. -/
example :
    Tracks exT ∧ Ordered exT ∧ ReqOk exT (.append exBeat) ∧ (exT.step (.append exBeat) [] []).panicked = none ∧
    (exT.step (.append exBeat) [] []).fsm.index = 4 ∧ (exT.step (.append exBeat) [] []).fsm.config = c3 ∧
    Tracks (exT.step (.append exBeat) [] []) :=
  ⟨exT_tracks, exT_ordered, by decide, by decide, by decide, by decide, by decide⟩

/-- EXAMPLE (`tracks_run`, `every_snapshot_labelled_right`): the heartbeat, then a user snapshot (request, the
snapshot goroutine, its completion). The request captured `configs.committed` — but the file stored carries
`(4, 1, c3)`: index and term of entry 4, the configuration of entry 3. -/
example :
    let ops : List (Op × List Nat × List (List Nat)) :=
      [(.append exBeat, [], []), (.takeSnapshot 7 0, [], []), (.snapRun, [], []), (.snapTaken, [], [])]
    C19Order.RunOk exT ops ∧
    (C19Order.run exT ops).snapsDisk.map (fun f => (f.index, f.term, f.config)) = [(4, 1, c3)] ∧
    Tracks (C19Order.run exT ops) := by
  refine ⟨⟨by decide, by decide, ⟨trivial, by decide, ⟨trivial, by decide, ⟨trivial, by decide, trivial⟩⟩⟩⟩,
    by decide, by decide⟩

/-- EXAMPLE (`restart_tracks`): the disk of `Props/C10.lean` (snapshot at 2, entries 3 and 4, 4 a configuration)
satisfies `DiskTracks`; the restarted node tracks, with the FSM holding the label. -/
example :
    DiskTracks C10.exDisk ∧ ((restart C10.exDisk 1 true).map (fun n => decide (Tracks n))) = some true ∧
    ((restart C10.exDisk 1 true).map (fun n => n.fsm.config)) = some (C10.snapOf C10.exDisk).config := by
  refine ⟨by decide, by decide, by decide⟩

/-- EXAMPLE (`restart_latest_after_crash`): crash `exT` after the run above and restart: entry 3 is at or below
the new snapshot (4), nothing above it holds a configuration: `latest` is the label `c3`. -/
example :
    let ops : List (Op × List Nat × List (List Nat)) :=
      [(.append exBeat, [], []), (.takeSnapshot 7 0, [], []), (.snapRun, [], []), (.snapTaken, [], [])]
    ((restart (C19Order.run exT ops).durable 1 true).map (fun n => (n.configs.latest, n.fsm.config, n.snapIndex)))
      = some (c3, c3, 4) := by decide

/-! ### necessity of the hypotheses of `tracks_step` -/

/-- NECESSITY of `ReqOk` (clause "no conflict at or below the commit index"): a follower that has applied 1..3
(`C19Order.nec1` with commit index 3) receives a request whose entry 2 has another term. Only that clause is
violated; the step completes; entries 2, 3 — already applied — are gone: `fsm.index = 3 > log.last = 2`.
NOT reachable in a correct cluster (leader completeness: a committed entry is in every later leader's log). -/
example :
    let s : Node := { C19Order.nec1 with commitIndex := 3, fsm := { index := 3, term := 1 } }
    let q : AppendReq := { term := 1, src := 2, prevLogIndex := 1, prevLogTerm := 1,
                           entries := [{ index := 2, term := 2, typ := etNop }] }
    Tracks s ∧ ¬ ReqOk s (.append q) ∧ (s.step (.append q) [] []).panicked = none ∧
    (s.step (.append q) [] []).fsm.index = 3 ∧ (s.step (.append q) [] []).log.last = 2 ∧
    ¬ Tracks (s.step (.append q) [] []) := by
  refine ⟨by decide, by decide, by decide, by decide, by decide, by decide⟩

/-- NECESSITY of `Ordered` (clause `snapIndex ≤ fsm.index`): a tracking state whose FSM is BEHIND the snapshot
index (5 > 3) with a snapshot request pending. `snapRun` stores a file at 3 — older than the newest one, so the
retention pass (`retain = 1`) deletes it at once — and sets `snaps.index = 3`: the newest file on disk (5) is not
the snapshot `snaps.index` any more. NOT reachable: `Ordered` is itself inductive (`C19Order.ordered_step`). -/
example :
    let s : Node :=
      { nid := 1, term := 1, durTerm := 1,
        log := { prev := 0, entries := (List.range 5).map (fun k => { index := k + 1, term := 1, typ := etNop }) },
        lastLogIndex := 5, lastLogTerm := 1, commitIndex := 5, snapIndex := 5, snapTerm := 1,
        snapsDisk := [{ index := 5, term := 1 }], fsm := { index := 3, term := 1 },
        snapPending := some { task := 1, minIndex := 0 } }
    Tracks s ∧ ¬ s.snapIndex ≤ s.fsm.index ∧ (s.step .snapRun [] []).panicked = none ∧
    (s.step .snapRun [] []).snapIndex = 3 ∧ (s.step .snapRun [] []).snapsDisk.map (·.index) = [5] ∧
    ¬ Tracks (s.step .snapRun [] []) := by
  refine ⟨by decide, by decide, by decide, by decide, by decide, by decide⟩

/-! "The step does not panic" is the hypothesis under which `Ordered` is inductive (`C19Order.ordered_step`; a
replication reporting a match index beyond the leader's log makes the commit index leave the log and the `ViewAt`
that follows panic: `C19Order.commit_beyond_log_panics`) — the state after a Go panic is never observed, the
totalised model's continuation is meaningless. No panicking step that breaks a clause of `Tracks` other than through
`Ordered` was found (the FSM is simply left where it was). -/

/-- NECESSITY of `retain ≥ 1` (a clause of `Tracks`): with `retain = 0` the retention pass of `snapshotSink.done`
deletes the file just written — `snaps.index = 4` with no file on disk; a restart would find no snapshot.
NOT reachable: `Options.validate` rejects `SnapshotsRetain < 1`. -/
example :
    let ops : List (Op × List Nat × List (List Nat)) := [(.append exBeat, [], []), (.takeSnapshot 7 0, [], [])]
    let s : Node := { C19Order.run exT ops with retain := 0 }
    (s.step .snapRun [] []).panicked = none ∧ (s.step .snapRun [] []).snapIndex = 4 ∧
    (s.step .snapRun [] []).snapsDisk = [] ∧ ¬ Tracks (s.step .snapRun [] []) := by
  refine ⟨by decide, by decide, by decide, by decide⟩

/-- The fallback of `doTakeSnapshot` ("use the configuration captured at request time when the FSM reports
none") is taken only in states with no configuration at or below `fsm.index` at all — `Tracks.fsmOk.cfgZero`.
EXAMPLE of such a (tracking, ordered, unreachable) state: entries 1..4 are no-ops; the request captured a
configuration of index 7; the file stored at 4 carries it. The invariant survives (the FSM still holds none). -/
example :
    let rqc : Config := { nodes := [n1], index := 7, term := 1 }
    let s : Node := { C19Order.nec1 with commitIndex := 4, fsm := { index := 4, term := 1 },
                                         snapPending := some { task := 1, minIndex := 0, config := rqc } }
    Tracks s ∧ (s.step .snapRun [] []).snapsDisk.map (·.config) = [rqc] ∧ Tracks (s.step .snapRun [] []) := by
  refine ⟨by decide, by decide, by decide⟩

end C12Track
end Raft

#print axioms Raft.C12Track.tracks_configTracks
#print axioms Raft.C12Track.tracks_no_config
#print axioms Raft.C12Track.tracks_term
#print axioms Raft.C12Track.tracks_step
#print axioms Raft.C12Track.tracks_run
#print axioms Raft.C12Track.restart_more
#print axioms Raft.C12Track.restart_tracks
#print axioms Raft.C12Track.snapRun_stores
#print axioms Raft.C12Track.snapshot_labelled_right
#print axioms Raft.C12Track.every_snapshot_labelled_right
#print axioms Raft.C12Track.durable_snap
#print axioms Raft.C12Track.durable_diskTracks
#print axioms Raft.C12Track.restart_after_crash_tracks
#print axioms Raft.C12Track.restart_latest_after_crash
#print axioms Raft.C12Track.exT_ordered
#print axioms Raft.C12Track.exT_tracks
#print axioms Raft.Track.block
#print axioms Raft.Track.ti_stepAll
