/-
C19 / C12 / C10 — **the state machine holds a configuration once it has applied anything**: discharging the recurring
assumption "the fallback of `doTakeSnapshot` is not taken / is harmless" (`C19Latest.NoFallback`, `TrackCrash.SnapFbOp`)
from per-node invariants.

Background. `snapRun` labels a snapshot with the FSM's cached configuration `fsm.config`; if the FSM holds NONE
(`fsm.config.index = 0`) it falls back to the configuration captured at request time. `C12Track.Tracks` says: a cached
configuration is the newest one at or below `fsm.index`, and if none is cached the LOG holds no configuration entry at or
below `fsm.index` — it does not exclude "no cached configuration above a compacted prefix" (`exNoCfg` below).

The invariant `CfgInv s` (three clauses):
* `first`  (`FirstIsConfig`) : the log entry with index 1, if the log holds it, is a (decodable) configuration entry;
* `labels` (`FsmCfg.LabelsPos`) : every snapshot file on disk is labelled with a real configuration (`index ≥ 1`);
* `above`  (`FsmCfg.Above`) : if the node has a snapshot (`snapIndex ≥ 1`), the state machine is at or beyond it and
                              HOLDS a configuration.
PROVED here (node level):
* `fsm_has_config` : `Tracks`, `Ordered`, `label.index ≤ snapIndex`, `CfgInv` ⇒ `FsmHasConfig s`: once `fsm.index ≥ 1`,
  `fsm.config` is a real configuration with `1 ≤ config.index ≤ fsm.index`, the newest configuration entry at or below
  `fsm.index` of snapshot label + log.  Hence `no_fallback`, `snapFbOp` (the hypotheses of C19Latest / C12Crash / C10Sys2).
* `above_step` : clauses `labels` and `above` are INDUCTIVE: preserved by EVERY operation, oracle and input, provided
  an install request that is not stale carries a real configuration (`ReqLab`); no hypothesis on `snapRun`/`shutdown`.
  (Framework: Lemmas/FsmConfigA.lean — a variant of `StepClosed` whose FSM primitives are what the FSM goroutine does —
  and its instance Lemmas/FsmConfigB.lean.)
* `restart_cfgInv` : a restart establishes all three clauses from a disk whose entry 1 (if held) is a configuration and
  whose snapshot files carry real configurations; `durable_cfg` : the disk of a `CfgInv` node is such a disk.
* corollaries WITHOUT the fallback hypothesis: `latest_is_newest_step_nofb` (C19Latest), `crashInv_step_nofb`,
  `tracks_after_crash_at_any_point_nofb_partial` (C12Crash), `restart_succeeds_snap_nofb_partial` (C10Sys2, for a node of
  a reachable state of `Raft.Snap4` that satisfies `CfgInv`).
NOT proved (see the report): that clause `first` is preserved by every step (it is for the log operations themselves —
truncation, compaction, reset keep it; an append keeps it unless it stores a non-configuration entry at index 1, which a
leader with an empty log would do: excluding that needs "a node with an empty log has an empty configuration", not an
invariant of the library yet); therefore `cfgInv_step_partial` takes `FirstIsConfig` of the post-state as a hypothesis,
and the system-level statement is relative to `CfgInv` of the node.
-/
import RaftVerif.Lemmas.FsmConfigB
import RaftVerif.Props.C12Crash
import RaftVerif.Props.C10Sys2

namespace Raft
namespace C19FsmConfig
open Node Track Order FsmCfg

/-! ### the invariant -/

/-- the entry with index 1, if the log holds it, is a (decodable) configuration entry — the bootstrap configuration -/
def FirstIsConfig (s : Node) : Prop := ∀ e ∈ s.log.entries, e.index = 1 → e.config?.isSome = true

instance (s : Node) : Decidable (FirstIsConfig s) := by unfold FirstIsConfig; infer_instance

/-- **entry 1 is a configuration, every snapshot label is a real configuration, and above a snapshot the state machine
holds a configuration** (see the file header) -/
structure CfgInv (s : Node) : Prop where
  first : FirstIsConfig s
  labels : LabelsPos s.snapsDisk
  above : Above s

instance (s : Node) : Decidable (CfgInv s) :=
  decidable_of_iff (FirstIsConfig s ∧ LabelsPos s.snapsDisk ∧ Above s)
    ⟨fun ⟨a, b, c⟩ => ⟨a, b, c⟩, fun h => ⟨h.first, h.labels, h.above⟩⟩

/-- **the state machine holds a configuration once it has applied anything**: a real one, of an index the applied
prefix covers, and it is the newest configuration entry at or below `fsm.index` of snapshot label + log -/
def FsmHasConfig (s : Node) : Prop :=
  1 ≤ s.fsm.index → 1 ≤ s.fsm.config.index ∧ s.fsm.config.index ≤ s.fsm.index ∧
    s.fsm.config = newest s.log (label s) s.fsm.index

instance (s : Node) : Decidable (FsmHasConfig s) := by unfold FsmHasConfig; infer_instance

/-- what is asked of an install request: stale, or labelled with a real configuration (true of every request a leader
builds from a snapshot file of a `CfgInv` node) -/
def ReqLab (s : Node) : Op → Prop
  | .install q => q.term < s.term ∨ 0 < q.lastConfig.index
  | _ => True

instance (s : Node) (op : Op) : Decidable (ReqLab s op) := by cases op <;> unfold ReqLab <;> infer_instance

/-! ### 1. the state machine holds a configuration -/

/-- **`FsmHasConfig` from the invariants.** In a tracking, ordered state whose newest snapshot label is covered by the
snapshot and which satisfies `CfgInv`, a state machine that has applied anything holds a real configuration, of an index
it has applied, and that configuration is the newest one at or below `fsm.index` (label + log). Without a snapshot the
log starts at 0 and holds entry 1 — a configuration (`first`) —, so `Tracks.fsmOk.cfgZero` excludes an empty cache; with
a snapshot this is clause `above`. -/
theorem fsm_has_config (s : Node) (ht : C12Track.Tracks s) (ho : Ordered s) (hl : (label s).index ≤ s.snapIndex)
    (hi : CfgInv s) : FsmHasConfig s := by
  intro h1
  have hpos : 0 < s.fsm.config.index := by
    by_cases hs : 1 ≤ s.snapIndex
    · exact (hi.above hs).2
    · have hprev : s.log.prev = 0 := by have := ho.prev_le_snap; omega
      by_cases hz : s.fsm.config.index = 0
      · exfalso
        have hnil := ht.fsmOk.cfgZero hz
        have hle := ht.fsmLe
        have hlen : 0 < s.log.entries.length := by unfold NLog.last at hle; omega
        have hidx := ht.contig 0 hlen
        have hcfg := hi.first _ (List.getElem_mem hlen) (by rw [hidx, hprev])
        have hm : s.log.entries[0] ∈ s.log.entries.take (s.fsm.index - s.log.prev) := by
          rw [List.mem_take_iff_getElem]
          exact ⟨0, by rw [Nat.lt_min]; exact ⟨by omega, hlen⟩, rfl⟩
        obtain ⟨c, hc⟩ := Option.isSome_iff_exists.mp hcfg
        have hin : c ∈ pre s.log s.fsm.index := List.mem_filterMap.mpr ⟨_, hm, hc⟩
        rw [hnil] at hin
        cases hin
      · omega
  have he := ht.fsmOk.cfgPos hpos
  refine ⟨hpos, ?_, he⟩
  rw [he]
  exact TrackCrash.newest_index_le ht.contig _ _ (by have := ho.snap_le_applied; omega)

/-- … in particular the hypothesis of `C19Latest` holds for every operation -/
theorem no_fallback (s : Node) (op : Op) (ho : Ordered s) (hf : FsmHasConfig s) : Latest.NoFallback s op := by
  cases op <;> first
    | trivial
    | (intro rq _ hne _
       have := ho.snap_le_applied
       exact (hf (by omega)).1)

/-- … and that of `C12Crash` / `C10Sys2` -/
theorem snapFbOp (s : Node) (op : Op) (ho : Ordered s) (hf : FsmHasConfig s) : TrackCrash.SnapFbOp s op :=
  C12Crash.snapFbOp_of_noFallback s op (no_fallback s op ho hf)

/-! ### 2. clauses `labels` and `above` are inductive -/

theorem posIdx_of_contig {l : NLog} (hc : C03.LogContig l) : PosIdx l := by
  intro e he
  obtain ⟨k, hk, rfl⟩ := List.getElem_of_mem he
  rw [hc k hk]; omega

/-- **"above a snapshot the state machine holds a configuration" is inductive** (and so is "every snapshot file is
labelled with a real configuration"): from a tracking, ordered state with `CfgInv`, EVERY operation — any oracle, any
input; an install request that is not stale must carry a real configuration (`ReqLab`) — handled to completion without a
Go panic leads to a state with clauses `labels` and `above`. The FSM goroutine replaces its configuration only by one
decoded from a log entry or by the label of a file on disk; the snapshot goroutine takes the FSM's configuration, which
it holds (`fsm_has_config`) — the fallback is not taken. -/
theorem above_step (s : Node) (op : Op) (ra : List Nat) (ord : List (List Nat)) (ht : C12Track.Tracks s)
    (ho : Ordered s) (hl : (label s).index ≤ s.snapIndex) (hi : CfgInv s) (hq : ReqLab s op)
    (hp : (s.step op ra ord).panicked = none) :
    LabelsPos (s.step op ra ord).snapsDisk ∧ Above (s.step op ra ord) := by
  have hf := fsm_has_config s ht ho hl hi
  have hps : PS s := fun _ h1 => (hf h1).1
  have hop : FOpOk PF PS (s.begin ra ord) op := by
    cases op <;> first | exact hq | exact hps | trivial | skip
    case shutdown =>
      have e := (TrackCrash.obsS_releaseRole ((s.begin ra ord).doClose "serverClosed")
        ((s.begin ra ord).doClose "serverClosed").role).trans (TrackCrash.obsS_doClose (s.begin ra ord) "serverClosed")
      simp only [TrackCrash.obsS, Prod.mk.injEq] at e
      obtain ⟨e1, _, e3⟩ := e
      show PS _
      unfold PS
      rw [e1, e3]
      exact hps
  have := k_step s op ra ord ⟨posIdx_of_contig ht.contig, hi.labels, hi.above⟩ hop hp
  exact ⟨this.2.1, this.2.2⟩

/-- **one step (partial: `FirstIsConfig` of the post-state is a hypothesis).** From a state satisfying
`C12Crash.CrashInv` (tracking, ordered, label covered, ids set) and `CfgInv`, an acceptable operation (`Order.ReqOk`,
`ReqDec`, `ReqLab`) handled to completion leads to a state satisfying both again, and in which the state machine holds
a configuration — with NO hypothesis on the snapshot goroutine. MISSING: that clause `first` survives the step (see the
file header); it is assumed of the post-state. -/
theorem cfgInv_step_partial (s : Node) (op : Op) (ra : List Nat) (ord : List (List Nat)) (hc : C12Crash.CrashInv s)
    (hi : CfgInv s) (hr : ReqOk s op) (hd : TrackCrash.ReqDec s op) (hq : ReqLab s op)
    (hp : (s.step op ra ord).panicked = none) (hfirst : FirstIsConfig (s.step op ra ord)) :
    C12Crash.CrashInv (s.step op ra ord) ∧ CfgInv (s.step op ra ord) ∧ FsmHasConfig (s.step op ra ord) := by
  have hf := fsm_has_config s hc.tracks hc.ordered hc.mem.lab hi
  have hc' := C12Crash.crashInv_step s op ra ord hc hr hd (snapFbOp s op hc.ordered hf) hp
  obtain ⟨a, b⟩ := above_step s op ra ord hc.tracks hc.ordered hc.mem.lab hi hq hp
  have hi' : CfgInv (s.step op ra ord) := ⟨hfirst, a, b⟩
  exact ⟨hc', hi', fsm_has_config _ hc'.tracks hc'.ordered hc'.mem.lab hi'⟩

/-! ### 3. restart -/

/-- what a restart needs of the disk: entry 1 of the log, if held, is a configuration; every snapshot file carries a
real configuration -/
structure DiskCfg (d : Durable) : Prop where
  first : ∀ e ∈ d.log.entries, e.index = 1 → e.config?.isSome = true
  labels : LabelsPos d.snaps

instance (d : Durable) : Decidable (DiskCfg d) :=
  decidable_of_iff ((∀ e ∈ d.log.entries, e.index = 1 → e.config?.isSome = true) ∧ LabelsPos d.snaps)
    ⟨fun ⟨a, b⟩ => ⟨a, b⟩, fun h => ⟨h.first, h.labels⟩⟩

/-- **a restart establishes `CfgInv`** (`openStorage` + `New` + the restore step of `Serve`): the state machine is
restored from the newest snapshot file and holds its label. -/
theorem restart_cfgInv (d : Durable) (r : Nat) (sor : Bool) (n : Node) (hd : DiskCfg d)
    (h : restart d r sor = some n) : CfgInv n := by
  obtain ⟨hfsm, _, hsnap, hlog, _, _, hdisk⟩ := C10.restart_fsm d r sor n h
  obtain ⟨_, _, e3, _⟩ := C10.restartNode_fields d r sor
  refine ⟨?_, by rw [hdisk]; exact hd.labels, ?_⟩
  · intro e he
    have he' : e ∈ (C10.logOf d).entries := by rw [hlog, e3] at he; exact he
    exact hd.first e (C15NoPanic.logOf_entries d e he')
  · intro hs
    rw [hsnap] at hs
    rw [if_pos (by omega)] at hfsm
    rw [hfsm.1, hsnap]
    refine ⟨Nat.le_refl _, ?_⟩
    show 0 < (C10.snapOf d).config.index
    unfold C10.snapOf at hs ⊢
    cases hh : d.snaps.head? with
    | none => rw [hh] at hs; exact absurd hs (by decide)
    | some f => exact hd.labels f (List.mem_of_mem_head? hh)

/-- the disk of a `CfgInv` node (between two steps) is such a disk: crash + restart keeps `CfgInv` -/
theorem durable_cfg (s : Node) (hi : CfgInv s) : DiskCfg s.durable :=
  ⟨fun e he => hi.first e (List.mem_of_mem_take (show e ∈ s.log.entries.take _ from he)), hi.labels⟩

/-! ### 4. the theorems that assumed "the fallback is not taken", without that hypothesis -/

/-- **C19Latest without `NoFallback`**: the latest configuration stays the newest configuration entry of log ∪
snapshot through EVERY acceptable operation handled to completion, from a tracking, ordered, `CfgInv` state whose label
is covered by its snapshot. -/
theorem latest_is_newest_step_nofb (s : Node) (op : Op) (ra : List Nat) (ord : List (List Nat))
    (hln : C19Latest.LatestIsNewest s) (ht : C12Track.Tracks s) (ho : Ordered s)
    (hl : (label s).index ≤ s.snapIndex) (hi : CfgInv s) (hr : ReqOk s op)
    (hp : (s.step op ra ord).panicked = none) : C19Latest.LatestIsNewest (s.step op ra ord) :=
  C19Latest.latest_is_newest_step s op ra ord hln ht ho hr (no_fallback s op ho (fsm_has_config s ht ho hl hi)) hp

/-- **`C12Crash.CrashInv` is inductive without `SnapFbOp`** for `CfgInv` states -/
theorem crashInv_step_nofb (s : Node) (op : Op) (ra : List Nat) (ord : List (List Nat)) (hc : C12Crash.CrashInv s)
    (hi : CfgInv s) (hr : ReqOk s op) (hd : TrackCrash.ReqDec s op) (hp : (s.step op ra ord).panicked = none) :
    C12Crash.CrashInv (s.step op ra ord) :=
  C12Crash.crashInv_step s op ra ord hc hr hd
    (snapFbOp s op hc.ordered (fsm_has_config s hc.tracks hc.ordered hc.mem.lab hi)) hp

/-- **C12 at every crash point, without `SnapFbOp` (partial: as `C12Crash.tracks_after_crash_at_any_point_partial`;
`CfgInv s` instead of the condition on the snapshot goroutine).** Let `s` satisfy `CrashInv` and `CfgInv`, `op` be ANY
operation acceptable in the sense of `Order.ReqOk` whose configuration entries decode, handled with ANY oracle without a
Go panic; let the process die after ANY number `k` of storage points of that step — those of the snapshot goroutine
(`snap.publish`, `snap.retain`) and of `shutdown` included — and restart with `retain = r ≥ 1`. Then the restart
succeeds, the restarted node tracks, is ordered, derives its configurations from label + log on disk at that point,
satisfies `LatestIsNewest` and `CrashInv`. -/
theorem tracks_after_crash_at_any_point_nofb_partial (s : Node) (op : Op) (ra : List Nat) (ord : List (List Nat))
    (k r : Nat) (sor : Bool) (hc : C12Crash.CrashInv s) (hi : CfgInv s) (hr : ReqOk s op)
    (hd : TrackCrash.ReqDec s op) (hp : (s.step op ra ord).panicked = none) (hret : 1 ≤ r) :
    ∃ n, Node.restart (C05.crashDisk s op ra ord k) r sor = some n ∧
      C12Track.Tracks n ∧ Order.Ordered n ∧
      n.configs.latest = ((C10.configsAbove (C05.crashDisk s op ra ord k))[0]?).getD
        (C10.snapOf (C05.crashDisk s op ra ord k)).config ∧
      n.configs.committed = ((C10.configsAbove (C05.crashDisk s op ra ord k))[1]?).getD
        (C10.snapOf (C05.crashDisk s op ra ord k)).config ∧
      C19Latest.LatestIsNewest n ∧ C12Crash.CrashInv n :=
  C12Crash.tracks_after_crash_at_any_point_partial s op ra ord k r sor hc hr hd
    (snapFbOp s op hc.ordered (fsm_has_config s hc.tracks hc.ordered hc.mem.lab hi)) hp hret

section
open Snap4 RestartSys
variable {V : List Nat}

/-- **C10 (1) on `Raft.Snap4` without `SnapFbOp` (partial: the restrictions of `C10Sys2.restart_succeeds_snap_partial`;
the node is assumed to satisfy `CfgInv`, which is not yet carried along the runs of the system).** A node `i` of a
reachable state that has a cluster id and satisfies `CfgInv`, dying at ANY crash point `k` of ANY enabled operation
(the snapshot goroutine included) that would complete, restarts successfully as a `RestartSys.Restarted` node. -/
theorem restart_succeeds_snap_nofb_partial (hV : V.Nodup) (x : Snap3.Sys) (h : Reachable4 V x) (i : Nat) (op : Op)
    (ra : List Nat) (ord : List (List Nat)) (src : Nat) (en : Snap.Enabled x.s2.cs i op src)
    (hp : ((x.node i).step op ra ord).panicked = none) (hcid : (x.node i).cid ≠ 0) (hi : CfgInv (x.node i))
    (k r : Nat) (hr : 1 ≤ r) (sor : Bool) :
    ∃ n, Node.restart (C05.crashDisk (x.node i) op ra ord k) r sor = some n ∧
      Restarted (x.node i) (C05.crashDisk (x.node i) op ra ord k) n ∧ n.nid = i := by
  have hc := crashInv_node4 hV h i en.id hcid
  exact C10Sys2.restart_succeeds_snap_partial hV x h i op ra ord src en hp
    (snapFbOp _ op hc.ordered (fsm_has_config _ hc.tracks hc.ordered hc.mem.lab hi)) hcid k r hr sor

end

/-! ### examples -/

/-- EXAMPLE (`fsm_has_config`, `above_step`): the follower `C12Track.exT` (snapshot at 1 labelled with the bootstrap
configuration `c1`, entries 2..4, entry 3 a configuration; applied 2) satisfies all hypotheses; its state machine holds
`c1`. After the heartbeat that commits up to 4 it holds `c3`, and the invariant holds again. -/
example :
    C12Track.Tracks C12Track.exT ∧ Ordered C12Track.exT ∧ (label C12Track.exT).index ≤ C12Track.exT.snapIndex ∧
    CfgInv C12Track.exT ∧ FsmHasConfig C12Track.exT ∧ C12Track.exT.fsm.config = C12Track.c1 ∧
    ReqLab C12Track.exT (.append C12Track.exBeat) ∧
    CfgInv (C12Track.exT.step (.append C12Track.exBeat) [] []) ∧
    (C12Track.exT.step (.append C12Track.exBeat) [] []).fsm.config = C12Track.c3 :=
  ⟨C12Track.exT_tracks, C12Track.exT_ordered, by decide, by decide, by decide, by decide, trivial, by decide, by decide⟩

/-- a bootstrapped single node without snapshot: entry 1 is the configuration, entries 2, 3 no-ops; applied 3 -/
def exBoot : Node :=
  { nid := 1, cid := 7, term := 1, durTerm := 1,
    log := { entries := [C12Track.c1.toEntry, { index := 2, term := 1, typ := etNop }, { index := 3, term := 1, typ := etNop }],
             flushed := 3, segs := [0] },
    lastLogIndex := 3, lastLogTerm := 1, configs := { committed := C12Track.c1, latest := C12Track.c1 },
    commitIndex := 3, fsm := { index := 3, term := 1, config := C12Track.c1 },
    snapPending := some { task := 1, minIndex := 0, config := C12Track.c1 } }

/-- EXAMPLE (no snapshot: clause `first` is what counts): `exBoot` tracks and satisfies `CfgInv`; the snapshot
goroutine does not take the fallback; afterwards the snapshot at 3 is labelled `c1` and `CfgInv` holds. -/
example :
    C12Track.Tracks exBoot ∧ CfgInv exBoot ∧ FsmHasConfig exBoot ∧ Latest.NoFallback exBoot .snapRun ∧
    (exBoot.step .snapRun [] []).snapsDisk.map (fun f => (f.index, f.config)) = [(3, C12Track.c1)] ∧
    CfgInv (exBoot.step .snapRun [] []) := by
  refine ⟨by decide, by decide, by decide, ?_, by decide, by decide⟩
  intro rq _ _ _
  decide

/-- NECESSITY of clause `above` (what `Tracks` does not exclude): a follower whose log was compacted up to its snapshot
at 4 (label `c1`), entries 5, 6 no-ops, applied 6 — and a state machine holding NO configuration. It tracks and is
ordered, the label is fine, entry 1 is not held; only clause `above` fails, and the snapshot goroutine WOULD take the
fallback. (Not reachable: the state machine restored from / running past the snapshot at 4 holds `c1`.) -/
def exNoCfg : Node :=
  { nid := 1, cid := 7, term := 1, durTerm := 1,
    log := { prev := 4, entries := [{ index := 5, term := 1, typ := etNop }, { index := 6, term := 1, typ := etNop }],
             flushed := 6, segs := [4] },
    lastLogIndex := 6, lastLogTerm := 1, snapIndex := 4, snapTerm := 1,
    snapsDisk := [{ index := 4, term := 1, config := C12Track.c1 }],
    configs := { committed := C12Track.c1, latest := C12Track.c1 },
    commitIndex := 6, fsm := { index := 6, term := 1 },
    snapPending := some { task := 1, minIndex := 0, config := C12Track.c1 } }

example :
    C12Track.Tracks exNoCfg ∧ FirstIsConfig exNoCfg ∧ LabelsPos exNoCfg.snapsDisk ∧ ¬ Above exNoCfg ∧
    ¬ FsmHasConfig exNoCfg ∧ ¬ Latest.NoFallback exNoCfg .snapRun := by
  refine ⟨by decide, by decide, by decide, by decide, by decide, ?_⟩
  intro h
  exact absurd (h _ rfl (by decide) (by decide)) (by decide)

/-- NECESSITY of `ReqLab`: an install request labelled with the zero configuration leaves a state machine without
configuration above the installed snapshot. -/
example :
    let q : InstallReq := { term := 1, src := 2, lastIndex := 9, lastTerm := 1 }
    CfgInv C12Track.exT ∧ ¬ ReqLab C12Track.exT (.install q) ∧ (C12Track.exT.step (.install q) [] []).panicked = none ∧
    ¬ Above (C12Track.exT.step (.install q) [] []) := by
  refine ⟨by decide, by decide, by decide, by decide⟩

/-- a node with an EMPTY log that believes in a configuration of index 0 in which it is the only voter -/
def exEmpty : Node :=
  { nid := 1, cid := 7, configs := { committed := {}, latest := { nodes := [C12Track.n1] } } }

theorem exEmpty_ordered : Ordered exEmpty :=
  ⟨⟨by decide, by decide, by decide, by decide, by decide, by decide, ⟨by decide, by decide, by decide⟩, by decide,
    fun rs h => by cases h⟩, by decide⟩

/-- WHY CLAUSE `first` IS NOT INDUCTIVE FROM `Tracks`, `Ordered`, `CfgInv` ALONE (counterexample to the step theorem
without the hypothesis on the post-state): `exEmpty` satisfies the three of them (its log is empty). A `TimeoutNow`
request makes it a candidate, the single voter elects itself, `leader.init` stores its no-op AT INDEX 1, commits and
applies it: entry 1 is not a configuration, and the state machine has applied an entry without holding a configuration —
the next snapshot WOULD take the fallback. What excludes `exEmpty` is `C19Latest.LatestIsNewest` (the latest
configuration of a node with an empty log and no snapshot is the zero configuration, which has no voter): the missing
proof has to carry `LatestIsNewest` (and "a candidate/leader is a voter of its latest configuration", `NoPanic.Good`)
along. NOT reachable. -/
theorem first_needs_latest :
    C12Track.Tracks exEmpty ∧ Ordered exEmpty ∧ CfgInv exEmpty ∧ ¬ C19Latest.LatestIsNewest exEmpty :=
  ⟨by decide, exEmpty_ordered, by decide, by decide⟩

-- the step itself, checked by evaluation (the leader block does not reduce in the kernel: `decide` gets stuck)
#guard (exEmpty.step .timeoutNow [] []).panicked = none
#guard (exEmpty.step .timeoutNow [] []).role = .leader
#guard (exEmpty.step .timeoutNow [] []).log.entries.map (fun e => (e.index, e.typ)) = [(1, etNop)]
#guard ((exEmpty.step .timeoutNow [] []).fsm.index, (exEmpty.step .timeoutNow [] []).fsm.config.index) = (1, 0)
#guard !decide (FirstIsConfig (exEmpty.step .timeoutNow [] []))
#guard !decide (FsmHasConfig (exEmpty.step .timeoutNow [] []))
#guard decide (C12Track.Tracks (exEmpty.step .timeoutNow [] []))

/-- EXAMPLE (`restart_cfgInv`): the disk of `exBoot` after its snapshot satisfies `DiskCfg`; the restarted node satisfies
`CfgInv` and its state machine holds the label. -/
example :
    DiskCfg (exBoot.step .snapRun [] []).durable ∧
    ((restart (exBoot.step .snapRun [] []).durable 1 true).map (fun n => (decide (CfgInv n), n.fsm.config)))
      = some (true, C12Track.c1) := by
  refine ⟨by decide, by decide⟩

end C19FsmConfig
end Raft

#print axioms Raft.C19FsmConfig.fsm_has_config
#print axioms Raft.C19FsmConfig.no_fallback
#print axioms Raft.C19FsmConfig.snapFbOp -- also C12
#print axioms Raft.C19FsmConfig.above_step
#print axioms Raft.C19FsmConfig.cfgInv_step_partial
#print axioms Raft.C19FsmConfig.restart_cfgInv
#print axioms Raft.C19FsmConfig.durable_cfg
#print axioms Raft.C19FsmConfig.latest_is_newest_step_nofb
#print axioms Raft.C19FsmConfig.crashInv_step_nofb -- also C12
#print axioms Raft.C19FsmConfig.tracks_after_crash_at_any_point_nofb_partial -- also C12
#print axioms Raft.C19FsmConfig.restart_succeeds_snap_nofb_partial -- also C10
#print axioms Raft.C19FsmConfig.first_needs_latest
#print axioms Raft.C19FsmConfig.exEmpty_ordered
#print axioms Raft.FsmCfg.k_closed
#print axioms Raft.FsmCfg.k_step
#print axioms Raft.Node.FStepClosed.step_inv
