/-
The proved run of Props/AuditMember.lean (`m1 … m21`: election, no-op, configuration (3,2) adding node 4, its promotion
(4,2), crash + restart of node 4, commit with four voters) as a run of `MemberApplyCfg.ReachableT (1,1)` (the same
transitions; initially `snapTerm = 0` on every node) — and its CONTINUATION by a client update: the leader accepts the
update "a" at index 5 (`n22`), replicates it to the nodes 2 and 3 (`n23 … n25`), commits and applies it (`n26`) — with
the theorems of Props/C03Member.lean instantiated on it.
-/
import RaftVerif.Props.C03Member

namespace Raft
namespace C03MemberRun
open Node Election LogRel Replication CommitRel Commit Member MemberCore QuorumRel MemberInv MemberCommit
open MemberGood MemberSide NoPanic C08Member AuditMember
open MemberApplyCfg (ReachableT)
open C07Sys (altPost replUpdates_step_alt)

/-- a state of the run -/
def RT (x : Member.Sys) : Prop := ReachableT (1, 1) x

theorem rt_step {x : Member.Sys} (hx : RT x) (i : Nat) (op : Op) (src : Nat)
    (he : Member.Enabled x i op src ∧ ReqG x i op) (ho : (x.node i).closed = "")
    (_hn : ((x.node i).step op [] []).configs.isBootstrapped = true ∧
      (((x.node i).step op [] []).configs.latest.voters = V3 ∨
       ((x.node i).step op [] []).configs.latest.voters = V4)) :
    RT (stepM x i op [] [] src) := .next x _ hx (.step i op [] [] src he.1 he.2 ho)

theorem rt_crash {x : Member.Sys} (hx : RT x) (i : Nat) (op : Op) (src k : Nat) (n : Node)
    (he : Member.Enabled x i op src ∧ ReqG x i op) (ho : (x.node i).closed = "" ∨ k = 0)
    (hr : Node.restart (C05.crashDisk (x.node i) op [] [] k) 1 true = some n)
    (_hn : n.configs.isBootstrapped = true ∧ (n.configs.latest.voters = V3 ∨ n.configs.latest.voters = V4)) :
    RT (crashM x i op n) := .next x _ hx (.crash i op [] [] src k 1 true n he.1 he.2 ho (Nat.le_refl _) hr)

theorem rt_send {x : Member.Sys} (hx : RT x) (i : Nat) (q : AppendReq) (hi : i ≠ 0)
    (hl : (x.node i).role = .leader) (hr : ReadFrom (x.node i) q)
    (hc : q.ldrCommitIndex ≤ (x.node i).commitIndex) : RT (sendM x q) := .next x _ hx (.send i q hi hl hr hc)

/-! ### `m1 … m21` again -/

theorem t0 : RT ex0 := .init ex0 ex0_initR (fun _ => rfl)

set_option maxRecDepth 100000 in
theorem t1 : RT m1 := rt_step t0 1 .timeout 0 (enM_plain _ 1 _ (by decide) rfl) rfl (by decide +kernel)

set_option maxRecDepth 100000 in
theorem t2 : RT m2 :=
  rt_step t1 2 (.vote mVote) 0 (enM_vote _ 2 mVote (by decide) (by decide) (by decide +kernel)) (by decide +kernel)
    (by decide +kernel)

set_option maxRecDepth 100000 in
theorem t3 : RT m3 :=
  rt_step t2 1 (.voteResult false 2 rSuccess) 2
    (enM_voteResult _ 1 2 2 (by decide) ⟨by decide, by decide +kernel, by decide +kernel, by decide +kernel⟩)
    (by decide +kernel) (by decide +kernel)

set_option maxRecDepth 100000 in
theorem t4 : RT m4 :=
  rt_send t3 1 mReq (by decide) (by decide +kernel)
    ⟨by decide +kernel, by decide +kernel, by decide +kernel, by decide +kernel, ⟨1, by decide +kernel⟩⟩
    (by decide +kernel)

set_option maxRecDepth 100000 in
theorem t5 : RT m5 :=
  rt_step t4 2 (.append mReq) 0 (enM_append _ 2 mReq (by decide) (by decide +kernel) (by decide +kernel))
    (by decide +kernel) (by decide +kernel)

set_option maxRecDepth 100000 in
theorem t6 : RT m6 :=
  rt_step t5 3 (.append mReq) 0 (enM_append _ 3 mReq (by decide) (by decide +kernel) (by decide +kernel))
    (by decide +kernel) (by decide +kernel)

set_option maxRecDepth 100000 in
theorem t7 : RT m7 := by
  have := rt_step t6 1 (.replUpdates (mUpd 2)) 0
    (enM_upd _ 1 _ (by decide) (mUpd_only 2)
      (mUpd_backed _ 1 2 ⟨2, 2, 2, 2⟩ ⟨3, 2, 2, 2⟩ (by decide +kernel) (by decide +kernel) (by decide +kernel)
        (by decide +kernel)))
    (by decide +kernel) (by rw [st6]; decide +kernel)
  rw [m7_eq] at this
  exact this

set_option maxRecDepth 100000 in
theorem t8 : RT m8 := by
  have := rt_step t7 1 (.changeConfig 5 mAdd) 0 (enM_cc _ 1 5 mAdd (by decide) (by decide) (by decide))
    (by decide +kernel) (by rw [st7]; decide +kernel)
  rw [m8_eq] at this
  exact this

set_option maxRecDepth 100000 in
theorem t9 : RT m9 :=
  rt_send t8 1 mReq3 (by decide) (by decide +kernel)
    ⟨by decide +kernel, by decide +kernel, by decide +kernel, by decide +kernel, ⟨1, by decide +kernel⟩⟩
    (by decide +kernel)

set_option maxRecDepth 100000 in
theorem t10 : RT m10 :=
  rt_step t9 2 (.append mReq3) 0 (enM_append _ 2 mReq3 (by decide) (by decide +kernel) (by decide +kernel))
    (by decide +kernel) (by decide +kernel)

set_option maxRecDepth 100000 in
theorem t11 : RT m11 :=
  rt_step t10 3 (.append mReq3) 0 (enM_append _ 3 mReq3 (by decide) (by decide +kernel) (by decide +kernel))
    (by decide +kernel) (by decide +kernel)

set_option maxRecDepth 100000 in
theorem t12 : RT m12 :=
  rt_send t11 1 mReq4 (by decide) (by decide +kernel)
    ⟨by decide +kernel, by decide +kernel, by decide +kernel, by decide +kernel, ⟨2, by decide +kernel⟩⟩
    (by decide +kernel)

set_option maxRecDepth 100000 in
theorem t13 : RT m13 :=
  rt_step t12 4 (.append mReq4) 0 (enM_append _ 4 mReq4 (by decide) (by decide +kernel) (by decide +kernel))
    (by decide +kernel) (by decide +kernel)

set_option maxRecDepth 100000 in
theorem t14 : RT m14 := by
  have := rt_step t13 1 (.replUpdates (mUpd 3)) 0
    (enM_upd _ 1 _ (by decide) (mUpd_only 3)
      (mUpd_backed _ 1 3 ⟨2, 2, 3, 2⟩ ⟨3, 2, 3, 2⟩ (by decide +kernel) (by decide +kernel) (by decide +kernel)
        (by decide +kernel)))
    (by decide +kernel) (by rw [st13]; decide +kernel)
  rw [m14_eq] at this
  exact this

set_option maxRecDepth 100000 in
theorem t15 : RT m15 := by
  have hb : ∀ u ∈ mUpd4, ∀ w, u.upd = .matchIndex w →
      w = 0 ∨ ∃ a ∈ m14.cm.acks, a.voter = u.id ∧ a.term = (m14.node 1).term ∧ w ≤ a.index := by
    intro u hu w hw
    rw [List.mem_singleton.mp hu] at hw ⊢; cases hw
    exact Or.inr ⟨⟨4, 2, 3, 2⟩, by decide +kernel, by decide +kernel⟩
  have hm : OnlyMatch mUpd4 := fun u hu => ⟨3, by rw [List.mem_singleton.mp hu]⟩
  have := rt_step t14 1 (.replUpdates mUpd4) 0 (enM_upd _ 1 _ (by decide) hm hb)
    (by decide +kernel) (by rw [st14]; decide +kernel)
  rw [m15_eq] at this
  exact this

set_option maxRecDepth 100000 in
theorem t16 : RT m16 :=
  rt_send t15 1 mReq5 (by decide) (by decide +kernel)
    ⟨by decide +kernel, by decide +kernel, by decide +kernel, by decide +kernel, ⟨1, by decide +kernel⟩⟩
    (by decide +kernel)

set_option maxRecDepth 100000 in
theorem t17 : RT m17 :=
  rt_step t16 2 (.append mReq5) 0 (enM_append _ 2 mReq5 (by decide) (by decide +kernel) (by decide +kernel))
    (by decide +kernel) (by decide +kernel)

set_option maxRecDepth 100000 in
theorem t18 : RT m18 :=
  rt_step t17 3 (.append mReq5) 0 (enM_append _ 3 mReq5 (by decide) (by decide +kernel) (by decide +kernel))
    (by decide +kernel) (by decide +kernel)

set_option maxRecDepth 100000 in
theorem t19 : RT m19 :=
  rt_step t18 4 (.append mReq5) 0 (enM_append _ 4 mReq5 (by decide) (by decide +kernel) (by decide +kernel))
    (by decide +kernel) (by decide +kernel)

set_option maxRecDepth 100000 in
theorem t20 : RT m20 :=
  rt_crash t19 4 .timeout 0 0 k4 (enM_plain _ 4 _ (by decide) rfl) (Or.inr rfl) k4_restart (by decide +kernel)

set_option maxRecDepth 100000 in
theorem t21 : RT m21 := by
  have := rt_step t20 1 (.replUpdates (mUpd 4)) 0
    (enM_upd _ 1 _ (by decide) (mUpd_only 4)
      (mUpd_backed _ 1 4 ⟨2, 2, 4, 2⟩ ⟨3, 2, 4, 2⟩ (by decide +kernel) (by decide +kernel) (by decide +kernel)
        (by decide +kernel)))
    (by decide +kernel) (by rw [st20]; decide +kernel)
  rw [m21_eq] at this
  exact this

/-! ### the continuation: a client update is accepted, replicated, committed and applied -/

abbrev mNew : Op := .newEntries [{ typ := etUpdate, data := "a", task := 7 }]
/-- the leader accepts the update "a" at index 5 -/
def n22 : Member.Sys := stepM m21 1 mNew [] [] 0
def mReq6 : AppendReq :=
  { term := 2, src := 1, prevLogIndex := 4, prevLogTerm := 2, ldrCommitIndex := 4,
    entries := (n22.node 1).log.entries.drop 4 }
def n23 : Member.Sys := sendM n22 mReq6
def n24 : Member.Sys := stepM n23 2 (.append mReq6) [] [] 0
def n25 : Member.Sys := stepM n24 3 (.append mReq6) [] [] 0
/-- the leader commits index 5 and applies "a" -/
def n26 : Member.Sys := stepMP n25 1 (.replUpdates (mUpd 5)) 0 (altPost (n25.node 1) (mUpd 5) 5)

theorem enM_new (x : Member.Sys) (i : Nat) (hi : i ≠ 0) : Member.Enabled x i mNew 0 ∧ ReqG x i mNew :=
  ⟨⟨⟨hi, (fun _ h => by cases h), (fun ⟨_, _, _, h⟩ => by cases h), trivial, (fun _ h => by cases h)⟩,
      (fun q hq => by rw [List.mem_singleton.mp hq]; decide), (fun _ h => by cases h), (fun _ h => by cases h),
      (fun _ h => by cases h)⟩,
    ⟨(fun _ _ h => by cases h), (fun _ h => by cases h), (fun _ _ _ h => by cases h)⟩⟩

set_option maxRecDepth 100000 in
theorem t22 : RT n22 := rt_step t21 1 mNew 0 (enM_new _ 1 (by decide)) (by decide +kernel) (by decide +kernel)

set_option maxRecDepth 100000 in
theorem t23 : RT n23 :=
  rt_send t22 1 mReq6 (by decide) (by decide +kernel)
    ⟨by decide +kernel, by decide +kernel, by decide +kernel, by decide +kernel, ⟨1, by decide +kernel⟩⟩
    (by decide +kernel)

set_option maxRecDepth 100000 in
theorem t24 : RT n24 :=
  rt_step t23 2 (.append mReq6) 0 (enM_append _ 2 mReq6 (by decide) (by decide +kernel) (by decide +kernel))
    (by decide +kernel) (by decide +kernel)

set_option maxRecDepth 100000 in
theorem t25 : RT n25 :=
  rt_step t24 3 (.append mReq6) 0 (enM_append _ 3 mReq6 (by decide) (by decide +kernel) (by decide +kernel))
    (by decide +kernel) (by decide +kernel)

set_option maxRecDepth 100000 in
theorem mm25 : (replUpdLoop ((n25.node 1).begin [] []) {} (mUpd 5)).1.majorityMatchIndex = (5, true) := by
  unfold Node.majorityMatchIndex
  rw [if_neg (by decide +kernel)]
  dsimp only
  have h1 : (replUpdLoop ((n25.node 1).begin [] []) {} (mUpd 5)).1.voterMatches = [5, 5, 5, 3] := by decide +kernel
  have h2 : [5, 5, 5, 3].mergeSort geB = [5, 5, 5, 3] := by
    simp [List.mergeSort, List.MergeSort.Internal.splitInTwo, geB]
  rw [h1, h2]
  decide +kernel

set_option maxRecDepth 100000 in
theorem st25 : (n25.node 1).step (.replUpdates (mUpd 5)) [] [] = altPost (n25.node 1) (mUpd 5) 5 :=
  replUpdates_step_alt _ _ 5 (by decide +kernel) mm25

theorem n26_eq : stepM n25 1 (.replUpdates (mUpd 5)) [] [] 0 = n26 := by rw [stepM_eq, st25]; rfl

set_option maxRecDepth 100000 in
theorem t26 : RT n26 := by
  have := rt_step t25 1 (.replUpdates (mUpd 5)) 0
    (enM_upd _ 1 _ (by decide) (mUpd_only 5)
      (mUpd_backed _ 1 5 ⟨2, 2, 5, 2⟩ ⟨3, 2, 5, 2⟩ (by decide +kernel) (by decide +kernel) (by decide +kernel)
        (by decide +kernel)))
    (by decide +kernel) (by rw [st25]; decide +kernel)
  rw [n26_eq] at this
  exact this

/-! ### the continuation: the leader DEMOTES ITSELF; once that configuration commits it stops leading (C11) -/

theorem rt_step' {x : Member.Sys} (hx : RT x) (i : Nat) (op : Op) (src : Nat)
    (he : Member.Enabled x i op src ∧ ReqG x i op) (ho : (x.node i).closed = "") :
    RT (stepM x i op [] [] src) := .next x _ hx (.step i op [] [] src he.1 he.2 ho)

/-- the request: the present members, node 1 (the leader) to be demoted -/
def mDem : Config :=
  { nodes := [{ id := 1, addr := "a:1", voter := true, action := actDemote }, { id := 2, addr := "a:2", voter := true },
              { id := 3, addr := "a:3", voter := true }, { id := 4, addr := "a:4", voter := true }],
    index := 4, term := 2 }

theorem mDem_valid : configValid mDem = true := by
  unfold configValid
  have h1 : mDem.nodes.all nodeValid = true := by
    simp [mDem, nodeValid, addr1, addr2, addr3, addr4, actForceRemove, actPromote, actDemote]
  rw [h1]
  decide

/-- the leader introduces configuration (6,2): voters 2, 3, 4; node 1 a non-voter -/
def n27 : Member.Sys := stepMP n26 1 (.changeConfig 9 mDem) 0 (ccPost (n26.node 1) 9 mDem)
def mReq7 : AppendReq :=
  { term := 2, src := 1, prevLogIndex := 5, prevLogTerm := 2, ldrCommitIndex := 5,
    entries := (n27.node 1).log.entries.drop 5 }
def n28 : Member.Sys := sendM n27 mReq7
def n29 : Member.Sys := stepM n28 2 (.append mReq7) [] [] 0
def n30 : Member.Sys := stepM n29 3 (.append mReq7) [] [] 0
/-- the commit index of node 1 passes the entry of configuration (6,2) — two of the three voters 2, 3, 4 hold it —:
node 1 steps down -/
def n31 : Member.Sys := stepMP n30 1 (.replUpdates (mUpd 6)) 0 (altPost (n30.node 1) (mUpd 6) 6)

set_option maxRecDepth 100000 in
theorem st26 : (n26.node 1).step (.changeConfig 9 mDem) [] [] = ccPost (n26.node 1) 9 mDem :=
  changeConfig_step_valid _ _ _ (by decide +kernel) mDem_valid

theorem n27_eq : stepM n26 1 (.changeConfig 9 mDem) [] [] 0 = n27 := by rw [stepM_eq, st26]; rfl

set_option maxRecDepth 100000 in
theorem t27 : RT n27 := by
  have := rt_step' t26 1 (.changeConfig 9 mDem) 0 (enM_cc _ 1 9 mDem (by decide) (by decide) (by decide))
    (by decide +kernel)
  rw [n27_eq] at this
  exact this

set_option maxRecDepth 100000 in
theorem t28 : RT n28 :=
  rt_send t27 1 mReq7 (by decide) (by decide +kernel)
    ⟨by decide +kernel, by decide +kernel, by decide +kernel, by decide +kernel, ⟨1, by decide +kernel⟩⟩
    (by decide +kernel)

set_option maxRecDepth 100000 in
theorem t29 : RT n29 :=
  rt_step' t28 2 (.append mReq7) 0 (enM_append _ 2 mReq7 (by decide) (by decide +kernel) (by decide +kernel))
    (by decide +kernel)

set_option maxRecDepth 100000 in
theorem t30 : RT n30 :=
  rt_step' t29 3 (.append mReq7) 0 (enM_append _ 3 mReq7 (by decide) (by decide +kernel) (by decide +kernel))
    (by decide +kernel)

set_option maxRecDepth 100000 in
theorem mm30 : (replUpdLoop ((n30.node 1).begin [] []) {} (mUpd 6)).1.majorityMatchIndex = (6, true) := by
  unfold Node.majorityMatchIndex
  rw [if_neg (by decide +kernel)]
  dsimp only
  have h1 : (replUpdLoop ((n30.node 1).begin [] []) {} (mUpd 6)).1.voterMatches = [6, 6, 3] := by decide +kernel
  have h2 : [6, 6, 3].mergeSort geB = [6, 6, 3] := by
    simp [List.mergeSort, List.MergeSort.Internal.splitInTwo, geB]
  rw [h1, h2]
  decide +kernel

set_option maxRecDepth 100000 in
theorem st30 : (n30.node 1).step (.replUpdates (mUpd 6)) [] [] = altPost (n30.node 1) (mUpd 6) 6 :=
  replUpdates_step_alt _ _ 6 (by decide +kernel) mm30

theorem n31_eq : stepM n30 1 (.replUpdates (mUpd 6)) [] [] 0 = n31 := by rw [stepM_eq, st30]; rfl

theorem en30 : Member.Enabled n30 1 (.replUpdates (mUpd 6)) 0 ∧ ReqG n30 1 (.replUpdates (mUpd 6)) :=
  enM_upd _ 1 _ (by decide) (mUpd_only 6)
    (mUpd_backed _ 1 6 ⟨2, 2, 6, 2⟩ ⟨3, 2, 6, 2⟩ (by decide +kernel) (by decide +kernel) (by decide +kernel)
      (by decide +kernel))

set_option maxRecDepth 100000 in
theorem t31 : RT n31 := by
  have := rt_step' t30 1 (.replUpdates (mUpd 6)) 0 en30 (by decide +kernel)
  rw [n31_eq] at this
  exact this

/-! ### the theorems of Props/C03Member.lean on the run -/

open C03Member

theorem toR {x : Member.Sys} (h : RT x) : ReachableR (1, 1) x := MemberApplyCfg.ReachableT.toR h

theorem en25 : Member.Enabled n25 1 (.replUpdates (mUpd 5)) 0 ∧ ReqG n25 1 (.replUpdates (mUpd 5)) :=
  enM_upd _ 1 _ (by decide) (mUpd_only 5)
    (mUpd_backed _ 1 5 ⟨2, 2, 5, 2⟩ ⟨3, 2, 5, 2⟩ (by decide +kernel) (by decide +kernel) (by decide +kernel)
      (by decide +kernel))

set_option maxRecDepth 100000 in
/-- EXAMPLE (`state_machine_safety_member_partial`): `n26` is reachable; the leader 1 has applied index 5 — the no-op (2),
the configuration entries (3), (4) and the update "a" (5): `applied = ["a"]`; node 2 has applied index 4: `applied = []`
— a prefix, as the theorem says; and entry 5 is committed -/
example : ReachableR (1, 1) n26 ∧ (n26.node 1).fsm.index = 5 ∧ (n26.node 1).fsm.applied = ["a"] ∧
    (n26.node 2).fsm.index = 4 ∧ (n26.node 2).fsm.applied = [] ∧
    (n26.node 2).fsm.applied <+: (n26.node 1).fsm.applied ∧
    Committed n26.cm (5, termAt (n26.node 1).log.entries 5) :=
  have s := state_machine_safety_member_partial (1, 1) n26 (toR t26)
  ⟨toR t26, by decide +kernel, by decide +kernel, by decide +kernel, by decide +kernel,
    (s.2.2.1 2 1 (by decide +kernel)).2, s.2.1 1 5 (by decide) (by decide +kernel)⟩

set_option maxRecDepth 100000 in
/-- EXAMPLE (`applied_only_grows_member_partial`): the hypotheses hold for the step `n25 → n26` of the leader (the
match-index reports that commit index 5); the applied sequence grows from `[]` to `["a"]` -/
example : (n25.node 1).fsm.applied = [] ∧ ((n25.node 1).step (.replUpdates (mUpd 5)) [] []).fsm.applied = ["a"] ∧
    (n25.node 1).fsm.index ≤ ((n25.node 1).step (.replUpdates (mUpd 5)) [] []).fsm.index :=
  ⟨by decide +kernel, by rw [st25]; decide +kernel,
    (applied_only_grows_member_partial (1, 1) n25 (toR t25) 1 _ [] [] 0 en25.1 en25.2 (by decide +kernel)).1⟩

set_option maxRecDepth 100000 in
/-- EXAMPLE (`applied_grows_or_restarts_member_partial`): the transition `m19 → m20` is the crash + restart of node 4,
which had applied index 3; afterwards its state machine is empty (the second alternative), every other node is
untouched -/
example : TransR m19 m20 ∧ (m19.node 4).fsm.index = 3 ∧ (m20.node 4).fsm.index = 0 ∧ (m20.node 4).fsm.applied = [] ∧
    (((m19.node 4).fsm.applied <+: (m20.node 4).fsm.applied ∧ (m19.node 4).fsm.index ≤ (m20.node 4).fsm.index) ∨
      ((m20.node 4).fsm = {} ∧ (m20.node 4).commitIndex = 0 ∧ (m20.node 4).role = .follower)) :=
  have tr : TransR m19 m20 :=
    .crash 4 .timeout [] [] 0 0 1 true k4 (enM_plain _ 4 _ (by decide) rfl).1 (enM_plain _ 4 _ (by decide) rfl).2
      (Or.inr rfl) (Nat.le_refl _) k4_restart
  ⟨tr, by decide +kernel, by decide +kernel, by decide +kernel,
    applied_grows_or_restarts_member_partial (1, 1) m19 m20 (toR t19) tr 4⟩

set_option maxRecDepth 100000 in
/-- EXAMPLE (`fsm_config_is_committed_member_partial`): in `n31` node 1 has applied index 6 and its state machine holds
configuration (6,2) — the one that demotes it —, the last configuration entry of the applied prefix, committed; the
restarted node 4 of `m20` has applied nothing and holds no configuration (the first alternative) -/
example : ReachableT (1, 1) n31 ∧ (n31.node 1).fsm.index = 6 ∧ (n31.node 1).fsm.config.index = 6 ∧
    CfgLast ((n31.node 1).log.entries.take (n31.node 1).fsm.index) (n31.node 1).fsm.config ∧
    Committed n31.cm ((n31.node 1).fsm.config.index, (n31.node 1).fsm.config.term) ∧
    (m20.node 4).fsm.config.index = 0 :=
  have c := (fsm_config_is_committed_member_partial (1, 1) n31 t31 1).resolve_left
    (fun h => absurd h.1 (by decide +kernel))
  ⟨t31, by decide +kernel, by decide +kernel, c.2.1, c.2.2.2.2.1, by decide +kernel⟩

set_option maxRecDepth 100000 in
/-- EXAMPLE (`leader_is_voter_of_committed_member_partial`): in `n26` node 1 is an open leader whose latest
configuration (4,2) is committed: it is a voter of it -/
example : (n26.node 1).closed = "" ∧ (n26.node 1).role = .leader ∧ (n26.node 1).configs.isCommitted = true ∧
    (n26.node 1).configs.latest.isVoter 1 = true :=
  ⟨by decide +kernel, by decide +kernel, by decide +kernel,
    leader_is_voter_of_committed_member_partial (1, 1) n26 (toR t26) 1 (by decide +kernel) (by decide +kernel)
      (by decide +kernel)⟩

set_option maxRecDepth 100000 in
/-- EXAMPLE (`self_demoted_leader_stops_partial`, a real self-demotion): in `n30` node 1 leads with the uncommitted
latest configuration (6,2) in which it is no voter (it asked for its own demotion, `n27`); the reports of the nodes 2
and 3 move its commit index to 6, past that entry: afterwards the configuration is committed, node 1 is not a voter of
it — and it is FOLLOWER (still open: it was demoted, not removed) -/
example : (n30.node 1).role = .leader ∧ (n30.node 1).commitIndex = 5 ∧ (n30.node 1).configs.latest.index = 6 ∧
    (n30.node 1).configs.isCommitted = false ∧ (n30.node 1).configs.latest.isVoter 1 = false ∧
    ((n30.node 1).step (.replUpdates (mUpd 6)) [] []).commitIndex = 6 ∧
    ((n30.node 1).step (.replUpdates (mUpd 6)) [] []).role = .follower ∧
    (((n30.node 1).step (.replUpdates (mUpd 6)) [] []).role ≠ .leader ∨
      ((n30.node 1).step (.replUpdates (mUpd 6)) [] []).closed ≠ "") :=
  ⟨by decide +kernel, by decide +kernel, by decide +kernel, by decide +kernel, by decide +kernel,
    by rw [st30]; decide +kernel, by rw [st30]; decide +kernel,
    self_demoted_leader_stops_partial (1, 1) n30 (toR t30) 1 _ [] [] 0 en30.1 en30.2 (by decide +kernel)
      (by rw [st30]; decide +kernel) (by rw [st30]; decide +kernel)⟩

end C03MemberRun
end Raft

#print axioms Raft.C03MemberRun.t26
#print axioms Raft.C03MemberRun.t31
