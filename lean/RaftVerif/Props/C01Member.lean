/-
C01 on the cluster-level transition system WITH membership changes (`Raft.Member`, Sys/Member.lean) — the
bookkeeping half of election safety, for every reachable state and NO fixed voter set.

`EInv e E` (for the election part `e : Election.Sys` and the ledger `E` of election configurations) generalises
`C01Sys.Inv V e`: the voter set `V` of each clause becomes the configuration of THAT election —
* a candidate still holds the configuration it started its election with (`MemberRel.cand_configs`), that
  configuration is recorded in `E`, the node is a voter of it, the voters it has counted are distinct other voters of
  it that granted their vote, and `votesNeeded` is what is missing for ITS quorum;
* every (leader, term) ever recorded in `won` has a recorded election configuration `k ∈ E` of which the leader is a
  voter and is `C01.Backed` by a majority of the VOTERS OF `k.cfg` that each granted it their single vote of that term;
* grants are unique per (voter, term); `E` holds one configuration per (candidate, term).
`einv_reachable`: `EInv` holds in every state reachable in `Member` in which every node is bootstrapped (`Member.Boot`).

What is NOT here (it is the other half, Lemmas/MemberCore.lean): that the configurations of two elections of one
term are equal or adjacent, so that their majorities intersect.
-/
import RaftVerif.Sys.Member
import RaftVerif.Lemmas.QuorumRel

namespace Raft
namespace C01Member
open Node Election C01 C01Sys Member

/-- bookkeeping of candidate `i`: its election configuration is recorded and is still its latest configuration; it is
a voter of it; its self vote is in the ledger; the voters it counted in its term are distinct other voters of that
configuration that granted it their vote; `votesNeeded` is what is still missing for the quorum of that
configuration. -/
structure CandOK (e : Election.Sys) (E : List ECfg) (i : Nat) : Prop where
  term_pos : (e.node i).term ≠ 0
  recd : ({ cand := i, term := (e.node i).term, cfg := (e.node i).configs.latest } : ECfg) ∈ E
  voter : (e.node i).configs.latest.isVoter i = true
  self : ({ voter := i, term := (e.node i).term, cand := i } : Grant) ∈ e.grants
  nodup : (votersCounted e.counted i (e.node i).term).Nodup
  real : ∀ v ∈ votersCounted e.counted i (e.node i).term,
    (e.node i).configs.latest.isVoter v = true ∧ v ≠ i ∧
    ({ voter := v, term := (e.node i).term, cand := i } : Grant) ∈ e.grants
  count : (e.node i).votesNeeded + ((votersCounted e.counted i (e.node i).term).length : Int) + 1
    = (((e.node i).configs.latest.voters.length / 2 + 1 : Nat) : Int)

/-- **the election invariant without a fixed voter set** -/
structure EInv (e : Election.Sys) (E : List ECfg) : Prop where
  ids : ∀ i, (e.node i).nid = i ∧ C05.VoteWF (e.node i)
  honoured : ∀ g ∈ e.grants, HonouredBy (e.node g.voter) g
  unique : GrantsUnique e.grants
  cand : ∀ i, (e.node i).role = .candidate → CandOK e E i
  recorded : ∀ i, (e.node i).role = .leader → (i, (e.node i).term) ∈ e.won
  backed : ∀ l t, (l, t) ∈ e.won → ∃ k ∈ E, k.cand = l ∧ k.term = t ∧ k.cfg.isVoter l = true ∧
    Backed e.grants k.cfg.voters l t
  countedTerm : ∀ c ∈ e.counted, c.2.1 ≤ (e.node c.1).term
  ecfgTerm : ∀ k ∈ E, k.term ≤ (e.node k.cand).term
  ecfgUniq : ∀ k ∈ E, ∀ k' ∈ E, k.cand = k'.cand → k.term = k'.term → k = k'

theorem CandOK.transfer {e e' : Election.Sys} {E E' : List ECfg} {j : Nat} (h : CandOK e E j)
    (ht : (e'.node j).term = (e.node j).term) (hv : (e'.node j).votesNeeded = (e.node j).votesNeeded)
    (hcf : (e'.node j).configs.latest = (e.node j).configs.latest)
    (hg : ∀ g ∈ e.grants, g ∈ e'.grants) (hE : ∀ k ∈ E, k ∈ E')
    (hc : votersCounted e'.counted j (e.node j).term = votersCounted e.counted j (e.node j).term) :
    CandOK e' E' j := by
  obtain ⟨a, r, b, c, d, f, g⟩ := h
  refine ⟨?_, ?_, ?_, ?_, ?_, ?_, ?_⟩
  · rw [ht]; exact a
  · rw [ht, hcf]; exact hE _ r
  · rw [hcf]; exact b
  · rw [ht]; exact hg _ c
  · rw [ht, hc]; exact d
  · rw [ht, hc, hcf]; intro v hv'; obtain ⟨e1, e2, e3⟩ := f v hv'; exact ⟨e1, e2, hg _ e3⟩
  · rw [ht, hc, hv, hcf]; exact g

/-- `CandOK` from explicit values of the candidate's term, configuration, `votesNeeded` and counted voters -/
theorem candOK_intro {e : Election.Sys} {E : List ECfg} {j : Nat} (t : Nat) (cf : Config) (vn : Int) (C : List Nat)
    (ht : (e.node j).term = t) (hcf : (e.node j).configs.latest = cf) (hvn : (e.node j).votesNeeded = vn)
    (hC : votersCounted e.counted j t = C)
    (a : t ≠ 0) (r : ({ cand := j, term := t, cfg := cf } : ECfg) ∈ E) (b : cf.isVoter j = true)
    (c : ({ voter := j, term := t, cand := j } : Grant) ∈ e.grants) (d : C.Nodup)
    (f : ∀ v ∈ C, cf.isVoter v = true ∧ v ≠ j ∧ ({ voter := v, term := t, cand := j } : Grant) ∈ e.grants)
    (g : vn + (C.length : Int) + 1 = ((cf.voters.length / 2 + 1 : Nat) : Int)) : CandOK e E j := by
  subst ht; subst hcf; subst hvn; subst hC
  exact ⟨a, r, b, c, d, f, g⟩

theorem einv_init (e : Election.Sys) (h : Election.Init e) : EInv e [] := by
  obtain ⟨hn, hg, hc, hw⟩ := h
  refine ⟨fun i => ⟨(hn i).1, (hn i).2.1⟩, ?_, ?_, ?_, ?_, ?_, ?_, ?_, ?_⟩
  · rw [hg]; intro g hg'; cases hg'
  · rw [hg]; intro a ha; cases ha
  · intro i hi; rw [(hn i).2.2] at hi; cases hi
  · intro i hi; rw [(hn i).2.2] at hi; cases hi
  · rw [hw]; intro l t h'; cases h'
  · rw [hc]; intro c hc'; cases hc'
  · intro k hk; cases hk
  · intro k hk; cases hk

theorem mem_ecfgOf {i : Nat} {pre post : Node} {k : ECfg} (h : k ∈ ecfgOf i pre post) :
    post.term > pre.term ∧ post.votedFor = i ∧ k = { cand := i, term := post.term, cfg := pre.configs.latest } := by
  unfold ecfgOf at h
  split at h
  · rename_i hc
    exact ⟨hc.1, hc.2, by simpa using h⟩
  · cases h

/-! ### crash and restart -/

theorem einv_crash (e : Election.Sys) (E : List ECfg) (hI : EInv e E) (i : Nat) (op : Op) (ra : List Nat)
    (ord : List (List Nat)) (k retain : Nat) (sor : Bool) (n : Node)
    (hn : Node.restart (C05.crashDisk (e.node i) op ra ord k) retain sor = some n) :
    EInv { e with node := setNode e.node i n } (ecfgOf i (e.node i) n ++ E) := by
  have hwf := (hI.ids i).2
  obtain ⟨r1, r2, r3⟩ := C05.restart_reads_durable _ _ _ _ hn
  obtain ⟨r4, r5⟩ := restart_role_nid _ _ _ _ hn
  have hd := crashDisk_durStep (e.node i) op ra ord k hwf
  have hvs : C05.VoteStep (e.node i) n := by
    unfold C05.VoteStep; rw [r1, r2]; exact hd
  have hstep : ∀ j, C05.VoteStep (e.node j) (setNode e.node i n j) := by
    intro j
    by_cases hj : j = i
    · subst hj; rw [setNode_same]; exact hvs
    · rw [setNode_other _ _ _ _ hj]; exact ⟨Nat.le_refl _, fun _ _ => rfl⟩
  have hrole : ∀ j, (setNode e.node i n j).role = .follower ∨ setNode e.node i n j = e.node j := by
    intro j
    by_cases hj : j = i
    · subst hj; rw [setNode_same]; exact Or.inl r4
    · rw [setNode_other _ _ _ _ hj]; exact Or.inr rfl
  have hsubE : ∀ k ∈ E, k ∈ ecfgOf i (e.node i) n ++ E := fun k hk => List.mem_append_right _ hk
  refine ⟨fun j => ?_, fun g hg => ?_, hI.unique, fun j hj => ?_, fun j hj => ?_, fun l t hl => ?_,
    fun c hc => ?_, fun k' hk' => ?_, fun a ha b hb h1 h2 => ?_⟩
  · by_cases hj : j = i
    · subst hj
      show (setNode e.node j n j).nid = j ∧ C05.VoteWF (setNode e.node j n j)
      rw [setNode_same]
      exact ⟨by rw [r5, crashDisk_nid]; exact (hI.ids j).1, r3⟩
    · show (setNode e.node i n j).nid = j ∧ C05.VoteWF (setNode e.node i n j)
      rw [setNode_other _ _ _ _ hj]; exact hI.ids j
  · exact honouredBy_step (hI.honoured g hg) (hstep g.voter)
  · have hj' : (setNode e.node i n j).role = .candidate := hj
    rcases hrole j with h | h
    · rw [h] at hj'; cases hj'
    · rw [h] at hj'
      exact (hI.cand j hj').transfer (congrArg (·.term) h) (congrArg (·.votesNeeded) h)
        (congrArg (·.configs.latest) h) (fun g hg => hg) hsubE rfl
  · have hj' : (setNode e.node i n j).role = .leader := hj
    rcases hrole j with h | h
    · rw [h] at hj'; cases hj'
    · show (j, (setNode e.node i n j).term) ∈ e.won
      rw [h] at hj' ⊢; exact hI.recorded j hj'
  · obtain ⟨k0, hk0, a1, a2, a3, a4⟩ := hI.backed l t hl
    exact ⟨k0, hsubE _ hk0, a1, a2, a3, a4⟩
  · exact Nat.le_trans (hI.countedTerm c hc) (hstep c.1).1
  · show k'.term ≤ (setNode e.node i n k'.cand).term
    rcases List.mem_append.mp hk' with h | h
    · obtain ⟨_, _, rfl⟩ := mem_ecfgOf h
      show n.term ≤ (setNode e.node i n i).term
      rw [setNode_same]; exact Nat.le_refl _
    · exact Nat.le_trans (hI.ecfgTerm k' h) (hstep k'.cand).1
  · rcases List.mem_append.mp ha with ha | ha <;> rcases List.mem_append.mp hb with hb | hb
    · obtain ⟨_, _, rfl⟩ := mem_ecfgOf ha
      obtain ⟨_, _, rfl⟩ := mem_ecfgOf hb
      rfl
    · obtain ⟨g1, _, rfl⟩ := mem_ecfgOf ha
      have := hI.ecfgTerm b hb
      have h1' : i = b.cand := h1
      have h2' : n.term = b.term := h2
      rw [← h1'] at this
      omega
    · obtain ⟨g1, _, rfl⟩ := mem_ecfgOf hb
      have := hI.ecfgTerm a ha
      have h1' : a.cand = i := h1
      have h2' : a.term = n.term := h2
      rw [h1'] at this
      omega
    · exact hI.ecfgUniq a ha b hb h1 h2

/-! ### a step of one node -/

theorem einv_step_core (e : Election.Sys) (E : List ECfg) (hI : EInv e E) (i : Nat) (op : Op)
    (src : Nat) (post : Node) (hi : i ≠ 0) (hboot : (e.node i).configs.isBootstrapped = true)
    (hr : Counts (e.node i) op → RealReply e i src)
    (hvs : C05.VoteStep (e.node i) post) (hwf' : C05.VoteWF post) (rs : RoleStep (e.node i) op post)
    (hcfg : post.role = .candidate → post.configs = (e.node i).configs)
    (hvote : ∀ g ∈ voteGrant i op post, VoteGrantOK i (e.node i) post g) :
    EInv { node := setNode e.node i post
           grants := voteGrant i op post ++ (selfGrant i (e.node i) post ++ e.grants)
           counted := countedBy i (e.node i) op src ++ e.counted
           won := (if post.role = .leader then [(i, post.term)] else []) ++ e.won }
         (ecfgOf i (e.node i) post ++ E) := by
  have hnid := (hI.ids i).1
  have hstep : ∀ j, C05.VoteStep (e.node j) (setNode e.node i post j) := by
    intro j
    by_cases hj : j = i
    · subst hj; rw [setNode_same]; exact hvs
    · rw [setNode_other _ _ _ _ hj]; exact ⟨Nat.le_refl _, fun _ _ => rfl⟩
  have hsubG : ∀ g ∈ e.grants, g ∈ voteGrant i op post ++ (selfGrant i (e.node i) post ++ e.grants) :=
    fun g hg => List.mem_append_right _ (List.mem_append_right _ hg)
  have hsubE : ∀ k ∈ E, k ∈ ecfgOf i (e.node i) post ++ E := fun k hk => List.mem_append_right _ hk
  -- the record of an election started in this step
  have hnewE : post.term > (e.node i).term → post.votedFor = (e.node i).nid →
      ({ cand := i, term := post.term, cfg := (e.node i).configs.latest } : ECfg) ∈ ecfgOf i (e.node i) post ++ E := by
    intro n1 n2
    apply List.mem_append_left
    unfold ecfgOf
    rw [if_pos ⟨n1, by rw [n2, hnid]⟩]
    exact List.mem_singleton.mpr rfl
  have hnewG : post.term > (e.node i).term → post.votedFor = (e.node i).nid →
      ({ voter := i, term := post.term, cand := i } : Grant) ∈
        voteGrant i op post ++ (selfGrant i (e.node i) post ++ e.grants) := by
    intro n1 n2
    apply List.mem_append_right
    apply List.mem_append_left
    unfold selfGrant
    rw [if_pos ⟨n1, by rw [n2, hnid]⟩]
    exact List.mem_singleton.mpr rfl
  -- every new grant is by voter `i`, honoured by its new state, and agrees with its older grants
  have hnew : ∀ g, g ∈ voteGrant i op post ∨ g ∈ selfGrant i (e.node i) post →
      g.voter = i ∧ HonouredBy post g ∧
      (∀ o ∈ e.grants, o.voter = i → o.term = g.term → o.cand = g.cand) ∧
      (g.term = post.term ∨ g ∈ voteGrant i op post) := by
    intro g hg
    rcases hg with hg | hg
    · obtain ⟨v1, v2, v3, v4⟩ := hvote g hg
      refine ⟨v1, v2, fun o ho hov hot => ?_, Or.inr hg⟩
      obtain ⟨o1, o2⟩ := hI.honoured o ho
      rw [hov] at o2
      rcases o2 with o2 | ⟨o2, o3⟩
      · omega
      · rw [v4 (by omega) (by rw [o3]; exact o1), o3]
    · obtain ⟨s1, s2, s3⟩ := mem_selfGrant hg
      subst s3
      refine ⟨rfl, ⟨hi, Or.inr ⟨rfl, s2⟩⟩, fun o ho hov hot => ?_, Or.inl rfl⟩
      obtain ⟨_, o2⟩ := hI.honoured o ho
      rw [hov] at o2
      have hot' : o.term = post.term := hot
      rcases o2 with o2 | ⟨o2, _⟩ <;> omega
  refine ⟨fun j => ?_, fun g hg => ?_, fun a ha b hb hv ht => ?_, fun j hj => ?_, fun j hj => ?_,
    fun l t hl => ?_, fun c hc => ?_, fun k' hk' => ?_, fun a ha b hb h1 h2 => ?_⟩
  · -- ids
    show (setNode e.node i post j).nid = j ∧ C05.VoteWF (setNode e.node i post j)
    by_cases hj : j = i
    · subst hj; rw [setNode_same]; exact ⟨rs.nid.trans hnid, hwf'⟩
    · rw [setNode_other _ _ _ _ hj]; exact hI.ids j
  · -- honoured
    show HonouredBy (setNode e.node i post g.voter) g
    rcases List.mem_append.mp hg with hg | hg
    · obtain ⟨n1, n2, _⟩ := hnew g (Or.inl hg)
      rw [n1, setNode_same]; exact n2
    · rcases List.mem_append.mp hg with hg | hg
      · obtain ⟨n1, n2, _⟩ := hnew g (Or.inr hg)
        rw [n1, setNode_same]; exact n2
      · exact honouredBy_step (hI.honoured g hg) (hstep g.voter)
  · -- unique
    have cls : ∀ g, g ∈ voteGrant i op post ++ (selfGrant i (e.node i) post ++ e.grants) →
        (g ∈ voteGrant i op post ∨ g ∈ selfGrant i (e.node i) post) ∨ g ∈ e.grants := by
      intro g hg
      rcases List.mem_append.mp hg with hg | hg
      · exact Or.inl (Or.inl hg)
      · rcases List.mem_append.mp hg with hg | hg
        · exact Or.inl (Or.inr hg)
        · exact Or.inr hg
    rcases cls a ha with ha | ha <;> rcases cls b hb with hb | hb
    · obtain ⟨_, ⟨_, a2⟩, _, a4⟩ := hnew a ha
      obtain ⟨_, ⟨_, b2⟩, _, b4⟩ := hnew b hb
      by_cases hT : a.term = post.term
      · rcases a2 with a2 | ⟨_, a2⟩
        · omega
        · rcases b2 with b2 | ⟨_, b2⟩
          · omega
          · rw [← a2, ← b2]
      · rcases a4 with a4 | a4
        · exact absurd a4 hT
        · rcases b4 with b4 | b4
          · exact absurd (ht.trans b4) hT
          · rw [voteGrant_one a4 b4]
    · obtain ⟨a1, _, a3, _⟩ := hnew a ha
      exact (a3 b hb (hv.symm.trans a1) ht.symm).symm
    · obtain ⟨b1, _, b3, _⟩ := hnew b hb
      exact b3 a ha (hv.trans b1) ht
    · exact hI.unique a ha b hb hv ht
  · -- candidate bookkeeping
    have hj' : (setNode e.node i post j).role = .candidate := hj
    by_cases hji : j = i
    · subst hji
      rw [setNode_same] at hj'
      have hcl : post.configs.latest = (e.node j).configs.latest := by rw [hcfg hj']
      rcases rs.candidate hj' with ⟨c1, c2, c3, c4⟩ | ne
      · -- candidate of the same term before
        have ok := hI.cand j c1
        by_cases hcnt : Counts (e.node j) op
        · obtain ⟨r1, r2, r3, r4⟩ := hr hcnt
          have hvc : votersCounted (countedBy j (e.node j) op src ++ e.counted) j post.term =
              src :: votersCounted e.counted j (e.node j).term := by
            rw [countedBy_counts _ _ _ _ hcnt, c2]
            exact votersCounted_cons_hit _ _ _ _
          have hnotin : src ∉ votersCounted e.counted j (e.node j).term :=
            fun hm => r4 ((mem_votersCounted _ _ _ _).mp hm)
          refine candOK_intro (e.node j).term (e.node j).configs.latest ((e.node j).votesNeeded - 1)
            (src :: votersCounted e.counted j (e.node j).term) ?_ ?_ ?_ ?_ ok.term_pos (hsubE _ ok.recd) ok.voter
            (hsubG _ ok.self) (List.nodup_cons.mpr ⟨hnotin, ok.nodup⟩) ?_ ?_
          · show (setNode e.node j post j).term = _
            rw [setNode_same]; exact c2
          · show (setNode e.node j post j).configs.latest = _
            rw [setNode_same]; exact hcl
          · show (setNode e.node j post j).votesNeeded = _
            rw [setNode_same]; exact c3 hcnt
          · have hvc' := hvc
            rw [c2] at hvc'
            exact hvc'
          · intro v hv'
            rcases List.mem_cons.mp hv' with hv' | hv'
            · subst hv'; exact ⟨r2, r1, hsubG _ r3⟩
            · obtain ⟨e1, e2, e3⟩ := ok.real v hv'
              exact ⟨e1, e2, hsubG _ e3⟩
          · have := ok.count
            rw [List.length_cons]
            omega
        · refine ok.transfer ?_ ?_ ?_ hsubG hsubE ?_
          · show (setNode e.node j post j).term = _; rw [setNode_same]; exact c2
          · show (setNode e.node j post j).votesNeeded = _; rw [setNode_same]; exact c4 hcnt
          · show (setNode e.node j post j).configs.latest = _; rw [setNode_same]; exact hcl
          · show votersCounted (countedBy j (e.node j) op src ++ e.counted) j (e.node j).term = _
            rw [countedBy_not _ _ _ _ hcnt]; rfl
      · -- a new election in this step
        obtain ⟨n1, n2, ec, n3, n4, n5, n6⟩ := ne
        have hec : ec = (e.node j).configs.latest := n3 hboot
        have hvc : votersCounted (countedBy j (e.node j) op src ++ e.counted) j post.term = [] := by
          apply votersCounted_nil_of_terms
          intro c hc hc1
          rcases List.mem_append.mp hc with hc | hc
          · rw [mem_countedBy hc]; exact n1
          · have := hI.countedTerm c hc
            rw [hc1] at this
            omega
        have hjV : (e.node j).configs.latest.isVoter j = true := by
          rcases n4 with n4 | n4
          · exact (hI.cand j n4).voter
          · rw [← hec, ← hnid]; exact n4
        refine candOK_intro post.term (e.node j).configs.latest
          ((((e.node j).configs.latest.voters.length / 2 + 1 : Nat) : Int) - 1) [] ?_ ?_ ?_ hvc (by omega)
          (hnewE n1 n2) hjV (hnewG n1 n2) List.nodup_nil (fun v hv' => by cases hv') ?_
        · show (setNode e.node j post j).term = _
          rw [setNode_same]
        · show (setNode e.node j post j).configs.latest = _
          rw [setNode_same]; exact hcl
        · show (setNode e.node j post j).votesNeeded = _
          rw [setNode_same, n5 hj', hec, quorum_eq]
        · simp only [List.length_nil]
          omega
    · rw [setNode_other _ _ _ _ hji] at hj'
      refine (hI.cand j hj').transfer ?_ ?_ ?_ hsubG hsubE ?_
      · show (setNode e.node i post j).term = _; rw [setNode_other _ _ _ _ hji]
      · show (setNode e.node i post j).votesNeeded = _; rw [setNode_other _ _ _ _ hji]
      · show (setNode e.node i post j).configs.latest = _; rw [setNode_other _ _ _ _ hji]
      · show votersCounted (countedBy i (e.node i) op src ++ e.counted) j (e.node j).term = _
        apply votersCounted_append_miss
        intro c hc
        rw [mem_countedBy hc]
        intro hc'; exact hji hc'.1.symm
  · -- leaders recorded
    have hj' : (setNode e.node i post j).role = .leader := hj
    show (j, (setNode e.node i post j).term) ∈ (if post.role = .leader then [(i, post.term)] else []) ++ e.won
    by_cases hji : j = i
    · subst hji
      rw [setNode_same] at hj' ⊢
      rw [if_pos hj']
      exact List.mem_append_left _ (List.mem_singleton.mpr rfl)
    · rw [setNode_other _ _ _ _ hji] at hj' ⊢
      exact List.mem_append_right _ (hI.recorded j hj')
  · -- every recorded leader is backed by a majority of grants of the voters of its election configuration
    have hl' : (l, t) ∈ (if post.role = .leader then [(i, post.term)] else []) ++ e.won := hl
    have old : (l, t) ∈ e.won → ∃ k ∈ ecfgOf i (e.node i) post ++ E, k.cand = l ∧ k.term = t ∧
        k.cfg.isVoter l = true ∧
        Backed (voteGrant i op post ++ (selfGrant i (e.node i) post ++ e.grants)) k.cfg.voters l t := by
      intro h
      obtain ⟨k0, hk0, a1, a2, a3, a4⟩ := hI.backed l t h
      exact ⟨k0, hsubE _ hk0, a1, a2, a3, backed_mono hsubG a4⟩
    rcases List.mem_append.mp hl' with hl' | hl'
    · split at hl'
      · rename_i hlead
        have e' := List.mem_singleton.mp hl'
        injection e' with e1 e2
        subst e1; subst e2
        rcases rs.leader hlead with ⟨l1, l2⟩ | ⟨l1, l2, l3⟩ | ne
        · -- leader of this term before the step
          exact old (by rw [l2]; exact hI.recorded l l1)
        · -- counted the last missing vote
          have ok := hI.cand l l1.1
          obtain ⟨r1, r2, r3, r4⟩ := hr l1
          have hnotin : src ∉ votersCounted e.counted l (e.node l).term :=
            fun hm => r4 ((mem_votersCounted _ _ _ _).mp hm)
          refine ⟨_, hsubE _ ok.recd, rfl, l3.symm, ok.voter,
            l :: src :: votersCounted e.counted l (e.node l).term, ?_, ?_, ?_, ?_⟩
          · refine List.nodup_cons.mpr ⟨?_, List.nodup_cons.mpr ⟨hnotin, ok.nodup⟩⟩
            intro hm
            rcases List.mem_cons.mp hm with hm | hm
            · exact r1 hm.symm
            · exact (ok.real l hm).2.1 rfl
          · intro v hv
            apply isVoter_mem_voters
            rcases List.mem_cons.mp hv with hv | hv
            · subst hv; exact ok.voter
            · rcases List.mem_cons.mp hv with hv | hv
              · subst hv; exact r2
              · exact (ok.real v hv).1
          · have := ok.count
            simp only [List.length_cons]
            omega
          · intro v hv
            rw [l3]
            rcases List.mem_cons.mp hv with hv | hv
            · subst hv; exact hsubG _ ok.self
            · rcases List.mem_cons.mp hv with hv | hv
              · subst hv; exact hsubG _ r3
              · exact hsubG _ (ok.real v hv).2.2
        · -- elected at once: a quorum of one
          obtain ⟨n1, n2, ec, n3, n4, n5, n6⟩ := ne
          have hec : ec = (e.node l).configs.latest := n3 hboot
          have hq1 := n6 hlead
          rw [hec, quorum_eq] at hq1
          have hlV : (e.node l).configs.latest.isVoter l = true := by
            rcases n4 with n4 | n4
            · exact (hI.cand l n4).voter
            · rw [← hec, ← hnid]; exact n4
          refine ⟨_, hnewE n1 n2, rfl, rfl, hlV, [l],
            List.nodup_cons.mpr ⟨fun h => (by cases h), List.nodup_nil⟩, ?_, ?_, ?_⟩
          · intro v hv; rw [List.mem_singleton.mp hv]; exact isVoter_mem_voters _ _ hlV
          · simp only [List.length_singleton]; omega
          · intro v hv
            rw [List.mem_singleton.mp hv]
            exact hnewG n1 n2
      · cases hl'
    · exact old hl'
  · -- counted terms
    have hc' : c ∈ countedBy i (e.node i) op src ++ e.counted := hc
    show c.2.1 ≤ (setNode e.node i post c.1).term
    rcases List.mem_append.mp hc' with hc' | hc'
    · rw [mem_countedBy hc']
      show (e.node i).term ≤ (setNode e.node i post i).term
      rw [setNode_same]; exact hvs.1
    · exact Nat.le_trans (hI.countedTerm c hc') (hstep c.1).1
  · -- terms of the election records
    show k'.term ≤ (setNode e.node i post k'.cand).term
    rcases List.mem_append.mp hk' with h | h
    · obtain ⟨_, _, rfl⟩ := mem_ecfgOf h
      show post.term ≤ (setNode e.node i post i).term
      rw [setNode_same]; exact Nat.le_refl _
    · exact Nat.le_trans (hI.ecfgTerm k' h) (hstep k'.cand).1
  · -- one record per (candidate, term)
    rcases List.mem_append.mp ha with ha | ha <;> rcases List.mem_append.mp hb with hb | hb
    · obtain ⟨_, _, rfl⟩ := mem_ecfgOf ha
      obtain ⟨_, _, rfl⟩ := mem_ecfgOf hb
      rfl
    · obtain ⟨g1, _, rfl⟩ := mem_ecfgOf ha
      have := hI.ecfgTerm b hb
      have h1' : i = b.cand := h1
      have h2' : post.term = b.term := h2
      rw [← h1'] at this
      omega
    · obtain ⟨g1, _, rfl⟩ := mem_ecfgOf hb
      have := hI.ecfgTerm a ha
      have h1' : a.cand = i := h1
      have h2' : a.term = post.term := h2
      rw [h1'] at this
      omega
    · exact hI.ecfgUniq a ha b hb h1 h2

theorem einv_step (e : Election.Sys) (E : List ECfg) (hI : EInv e E) (i : Nat) (op : Op) (ra : List Nat)
    (ord : List (List Nat)) (src : Nat) (hi : i ≠ 0) (hboot : (e.node i).configs.isBootstrapped = true)
    (hok : LogRel.OpOK op) (hq : ∀ q, op = .vote q → q.src ≠ 0)
    (hr : Counts (e.node i) op → RealReply e i src) :
    EInv (stepSys e i op ra ord src) (ecfgOf i (e.node i) ((e.node i).step op ra ord) ++ E) := by
  have hwf := (hI.ids i).2
  obtain ⟨hvs, hwf', _⟩ := C05.step_vote_stable (e.node i) op ra ord hwf
  have rs := role_step (e.node i) op ra ord (fun h => (hI.cand i h).term_pos)
  exact einv_step_core e E hI i op src _ hi hboot hr hvs hwf' rs
    (fun hc => MemberRel.cand_configs (e.node i) op ra ord hboot hok hc)
    (fun g hg => voteGrant_ok i (e.node i) op ra ord hwf hq g hg)

/-- **the election invariant holds in every reachable state of the system with membership changes** (runs in which
every node is bootstrapped in every state, as in `Election.FixedV`; nothing is assumed of the voter sets) -/
theorem einv_reachable (x : Member.Sys) (h : ReachableP Boot x) : EInv x.el x.ecfg := by
  induction h with
  | init x hi _ =>
    rw [hi.ecfg]
    exact einv_init x.el hi.cm.rp.el
  | next x y hx ht _ ih =>
    cases ht with
    | step i op ra ord src he =>
      exact einv_step x.el x.ecfg ih i op ra ord src he.rp.id (hx.side i) he.rp.ok he.rp.voteSrc he.rp.real
    | crash i op ra ord src k retain sor n he hn =>
      exact einv_crash x.el x.ecfg ih i op ra ord k retain sor n hn
    | send i q _ _ _ _ => exact ih

end C01Member
end Raft

#print axioms Raft.C01Member.einv_reachable
