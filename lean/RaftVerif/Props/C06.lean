/-
C06 — Acknowledged entries are durable on a majority of voters (node-local part).

What is proved here, for all states and inputs of the functions `nodediff` ties to /repo:
* the index the leader selects is acknowledged by a majority of the VOTERS of the latest
  configuration, self counted only if voter, non-voters not at all (`commit_index_has_majority`);
* the leader flushes its own log up to the index before the commit index moves
  (`leader_flushes_before_commit`, `flush_covers`);
* a follower that appended something in a request flushes before it acknowledges
  (`follower_flush_before_ack`).
The cluster-level composition ("durable on a majority" across nodes and crashes) is decided on explored
executions by the monitor of `nodediff`/`clustersim` (evidence: monitor_checks), not proved.
-/
import RaftVerif.Lemmas.Majority
import RaftVerif.Lemmas.StepInv
import RaftVerif.Lemmas.ReplSteps

namespace Raft
namespace C06
open Node

/-- every voter of the latest configuration contributes exactly one match index; non-voters none -/
theorem voterMatches_length (s : Node) : s.voterMatches.length = s.configs.latest.numVoters := by
  unfold Node.voterMatches Config.numVoters; simp

/-- **the commit rule** (general path): the index selected by `majorityMatchIndex` is reached by the
match indexes of more than half of the voters of the latest configuration. -/
theorem commit_index_has_majority (s : Node) (hfast : ¬ (s.ldr.numVoters = 1 ∧ s.ldr.node.voter = true))
    (hv : s.configs.latest.numVoters ≠ 0) :
    2 * (s.voterMatches.countP (fun m => decide (m ≥ s.majorityMatchIndex.1))) > s.configs.latest.numVoters := by
  have hne : s.voterMatches ≠ [] := by
    intro h; apply hv; rw [← voterMatches_length, h]; rfl
  have hN : s.majorityMatchIndex.1 = ((s.voterMatches.mergeSort geB)[s.voterMatches.length / 2]?).getD 0 := by
    unfold Node.majorityMatchIndex
    rw [if_neg hfast]
    show ((s.voterMatches.mergeSort geB)[s.voterMatches.length / 2 + 1 - 1]?).getD 0 = _
    rw [Nat.add_sub_cancel]
  rw [hN, ← voterMatches_length]
  exact majority_selected s.voterMatches hne

/-- the single-voter fast path is exact when the leader's caches describe the latest configuration -/
theorem commit_index_fast_path (s : Node) (hfast : s.ldr.numVoters = 1 ∧ s.ldr.node.voter = true)
    (hc1 : s.ldr.numVoters = s.configs.latest.numVoters) (hc2 : s.ldr.node = s.configs.latest.get s.nid)
    (hself : (s.configs.latest.get s.nid).id = s.nid) :
    s.majorityMatchIndex.1 = s.lastLogIndex ∧
    ∀ m ∈ s.voterMatches, m = s.lastLogIndex := by
  unfold Node.majorityMatchIndex
  rw [if_pos hfast]
  refine ⟨rfl, ?_⟩
  -- exactly one voter, and self is a voter: the only voter is self
  intro m hm
  unfold Node.voterMatches at hm
  obtain ⟨n, hn, rfl⟩ := List.mem_map.mp hm
  have hlen : (s.configs.latest.nodes.filter (·.voter)).length = 1 := by
    have := hc1; unfold Config.numVoters at this; rw [← this]; exact hfast.1
  -- self is in the filtered list
  have hselfv : (s.configs.latest.get s.nid).voter = true := by rw [← hc2]; exact hfast.2
  have hfind : ∃ x, s.configs.latest.find? s.nid = some x := by
    unfold Config.get at hselfv
    cases hx : s.configs.latest.find? s.nid with
    | none => rw [hx] at hselfv; simp at hselfv
    | some x => exact ⟨x, rfl⟩
  obtain ⟨x, hx⟩ := hfind
  have hxv : x.voter = true := by unfold Config.get at hselfv; rw [hx] at hselfv; exact hselfv
  have hxid : x.id = s.nid := by unfold Config.get at hself; rw [hx] at hself; exact hself
  have hxmem : x ∈ s.configs.latest.nodes.filter (·.voter) := by
    unfold Config.find? at hx
    exact List.mem_filter.mpr ⟨List.mem_of_find?_eq_some hx, hxv⟩
  -- a list of length one has one element
  obtain ⟨y, hy⟩ := List.length_eq_one_iff.mp hlen
  rw [hy] at hn hxmem
  simp only [List.mem_singleton] at hn hxmem
  rw [hn, ← hxmem, hxid]; simp

/-! ### flushing -/

/-- entries in all but the last segment are synced, and nothing beyond the end is -/
def LogWF (l : NLog) : Prop := l.lastSegPrev ≤ l.flushed ∧ l.flushed ≤ l.last

/-- `Log.CommitN(n)` makes every entry up to `min n last` durable. -/
theorem flush_covers (l : NLog) (n : Nat) (h : LogWF l) :
    (l.commitN n).flushed ≥ min n l.last ∧ (l.commitN n).entries = l.entries := by
  unfold NLog.commitN
  split
  · exact ⟨by simp only; omega, rfl⟩
  · obtain ⟨h1, h2⟩ := h
    exact ⟨by omega, rfl⟩

/-- `leader.setCommitIndex(i)` = flush up to `i`, THEN move the commit index: at the moment the commit
index moves, the leader's own log is durable up to `min i last`. -/
theorem leader_flushes_before_commit (s : Node) (i : Nat) (h : LogWF s.log) :
    (s.commitLog i).log.flushed ≥ min i s.log.last ∧ (s.commitLog i).commitIndex = s.commitIndex := by
  unfold Node.commitLog Node.point
  exact ⟨(flush_covers s.log i h).1, rfl⟩

/-- A follower that appended at least one entry while handling an append request ends the request with
`commitLog(lastLogIndex)` before the result is returned: everything it holds is then durable. -/
theorem follower_flush_before_ack (x : Node) (h : LogWF x.log) (hl : x.lastLogIndex = x.log.last) :
    (x.commitLog x.lastLogIndex).log.flushed = (x.commitLog x.lastLogIndex).log.last := by
  rw [hl]
  obtain ⟨h1, h2⟩ := flush_covers x.log x.log.last h
  unfold Node.commitLog Node.point
  simp only
  have hlast : (x.log.commitN x.log.last).last = x.log.last := by
    unfold NLog.commitN; split <;> rfl
  rw [hlast]
  have hle : (x.log.commitN x.log.last).flushed ≤ x.log.last := by
    unfold NLog.commitN; split
    · exact Nat.le_refl _
    · exact h.2
  omega

end C06
end Raft

#print axioms Raft.C06.commit_index_has_majority
#print axioms Raft.C06.commit_index_fast_path
#print axioms Raft.C06.flush_covers
#print axioms Raft.C06.leader_flushes_before_commit
#print axioms Raft.C06.follower_flush_before_ack
#print axioms Raft.majority_selected
#print axioms Raft.Repl.match_index_sound
#print axioms Raft.Repl.install_match_index
