/-
C19 (orderings) — The state a node reports is internally ordered, as an inductive invariant of `Node.step`.

`Order.Ordered s` (Lemmas/Order.lean):
  `log.prev ≤ snapIndex ≤ fsm.index (last applied) ≤ commitIndex ≤ lastLogIndex = log.last`,
  `configs.committed.index ≤ configs.latest.index ≤ lastLogIndex`
  (+ strengthening: segment list well formed, `leader.removeLTE ≤ snapIndex`, finished-snapshot index `≤ snapIndex`).

PROVED here, for EVERY operation, oracle and input:
* `ordered_step`: `Ordered s → ReqOk s op → (the step does not panic) → Ordered (s.step op rollAt orders)`;
* `applied_monotone`, `snapshot_index_monotone`: under the same hypotheses last-applied and snapshot index do
  not decrease (`commitIndex` and `term`: `Props/C19.lean`, no hypotheses at all);
* `ordered_run`: the same over any sequence of operations;
* `restart_ordered`: a restart from a well-formed disk (`DiskOK`) yields an ordered state.

"The step does not panic": a Go panic (failed `assert`, `ViewAt` beyond the log, `snaps.open` failing, …) kills
the process; the model records it in `panicked` and continues on a totalised path whose result is never
compared with the implementation. The orderings are claimed for steps that complete.

`ReqOk` is `True` for 18 of the 20 operations. It asks
* of an append request, unless its term is stale (`AppendOk`): (1) consecutive entries after `prevLogIndex`;
  (2) no entry conflicting with the log at or below the commit index; (3) … nor at or below
  `configs.committed.index`;
* of an install request, unless its term is stale or it is not ahead of the commit index (the handler ignores
  both by itself — F8/F9) (`InstallOk`): `lastConfig.index ≤ lastIndex`.
Each is NECESSARY: section "necessity" gives, for each, an ordered state and a request violating only that
clause after which the step completes without panic in an un-ordered state. None of the four is reachable in a
correct cluster (see the comments there); nothing is required of vote requests, replication updates (a match
index beyond the log makes `ViewAt` panic), tasks, timeouts, snapshot events.
-/
import RaftVerif.Lemmas.Order
import RaftVerif.Props.C19

namespace Raft
namespace C19Order
open Node Order

/-! ### one step -/

/-- **The orderings are inductive.** From an ordered state, an operation acceptable in the sense of `ReqOk`
(any operation but a malformed append/install request), handled to completion without a Go panic, leads to an
ordered state — for every oracle (`rollAt`, `orders`) and every input. -/
theorem ordered_step (s : Node) (op : Op) (rollAt : List Nat) (orders : List (List Nat))
    (ho : Ordered s) (hr : ReqOk s op) (hp : (s.step op rollAt orders).panicked = none) :
    Ordered (s.step op rollAt orders) := by
  obtain ⟨c, hcl, _, _⟩ := inv_step op rollAt orders ho hr hp
  exact ⟨c, hcl rfl⟩

/-- **last applied never decreases** over a completed step (same hypotheses). -/
theorem applied_monotone (s : Node) (op : Op) (rollAt : List Nat) (orders : List (List Nat))
    (ho : Ordered s) (hr : ReqOk s op) (hp : (s.step op rollAt orders).panicked = none) :
    s.fsm.index ≤ (s.step op rollAt orders).fsm.index :=
  (inv_step op rollAt orders ho hr hp).2.2.1

/-- **the snapshot index never decreases** over a completed step (same hypotheses). -/
theorem snapshot_index_monotone (s : Node) (op : Op) (rollAt : List Nat) (orders : List (List Nat))
    (ho : Ordered s) (hr : ReqOk s op) (hp : (s.step op rollAt orders).panicked = none) :
    s.snapIndex ≤ (s.step op rollAt orders).snapIndex :=
  (inv_step op rollAt orders ho hr hp).2.2.2

/-- the consequences of `Ordered` in the form the property is worded -/
theorem ordered_chain (s : Node) (ho : Ordered s) :
    s.fsm.index ≤ s.commitIndex ∧ s.commitIndex ≤ s.lastLogIndex ∧ s.lastLogIndex = s.log.last ∧
    s.log.prev ≤ s.snapIndex ∧ s.snapIndex ≤ s.commitIndex ∧ s.snapIndex ≤ s.lastLogIndex ∧
    s.configs.committed.index ≤ s.configs.latest.index ∧ s.configs.latest.index ≤ s.lastLogIndex := by
  have a := ho.snap_le_applied
  have b := ho.applied_le_commit
  have c := ho.commit_le_last
  exact ⟨b, c, ho.last_eq, ho.prev_le_snap, by omega, by omega, ho.committed_le_latest, ho.latest_le_last⟩

/-! ### any sequence of operations -/

/-- every operation of the run is acceptable in the state it is handled in, and is handled to completion -/
def RunOk : Node → List (Op × List Nat × List (List Nat)) → Prop
  | _, [] => True
  | s, o :: os =>
    ReqOk s o.1 ∧ (s.step o.1 o.2.1 o.2.2).panicked = none ∧ RunOk (s.step o.1 o.2.1 o.2.2) os

def run (s : Node) (ops : List (Op × List Nat × List (List Nat))) : Node :=
  ops.foldl (fun s o => s.step o.1 o.2.1 o.2.2) s

/-- **over any sequence of events** the state stays ordered and last-applied / snapshot index never decrease. -/
theorem ordered_run (s : Node) (ops : List (Op × List Nat × List (List Nat))) (ho : Ordered s) (hr : RunOk s ops) :
    Ordered (run s ops) ∧ s.fsm.index ≤ (run s ops).fsm.index ∧ s.snapIndex ≤ (run s ops).snapIndex := by
  induction ops generalizing s with
  | nil => exact ⟨ho, Nat.le_refl _, Nat.le_refl _⟩
  | cons o os ih =>
    obtain ⟨h1, h2, h3⟩ := hr
    obtain ⟨a, b, c⟩ := ih _ (ordered_step s o.1 o.2.1 o.2.2 ho h1 h2) h3
    have m1 := applied_monotone s o.1 o.2.1 o.2.2 ho h1 h2
    have m2 := snapshot_index_monotone s o.1 o.2.1 o.2.2 ho h1 h2
    exact ⟨a, Nat.le_trans m1 b, Nat.le_trans m2 c⟩

/-! ### restart -/

/-- Disk well-formedness from which a restart yields an ordered state: the log starts at or below the newest
snapshot (`C10.DurWF`), its segment list is well formed, every entry is stored under its own index, and the
newest snapshot's label is a configuration the snapshot covers. -/
structure DiskOK (d : Durable) : Prop where
  durWF : C10.DurWF d
  segs : C09.SegsOK d.log
  indexed : ∀ i e, d.log.get? i = some e → e.index = i
  label : (C10.snapOf d).config.index ≤ (C10.snapOf d).index

/-- what `scanConfigs` returns, index-wise: the second configuration found lies in `(sn, i]`; when the scan
started without a `latest`, the first one found lies in `(sn, i]` and strictly above the second. -/
theorem scanConfigs_index (log : NLog) (hidx : ∀ i e, log.get? i = some e → e.index = i) (sn : Nat) :
    ∀ (fuel i : Nat) (latest : Option Config),
      (∀ c, (scanConfigs log sn fuel i latest).2.1 = some c → sn < c.index ∧ c.index ≤ i) ∧
      (latest = none → ∀ l, (scanConfigs log sn fuel i latest).1 = some l →
        sn < l.index ∧ l.index ≤ i ∧ ∀ c, (scanConfigs log sn fuel i latest).2.1 = some c → c.index < l.index) ∧
      (∀ l0, latest = some l0 → (scanConfigs log sn fuel i latest).1 = some l0) := by
  intro fuel
  induction fuel with
  | zero =>
    intro i latest
    unfold scanConfigs
    exact ⟨fun c h => (by cases h), fun hl l h => (by rw [hl] at h; cases h), fun l0 h => h⟩
  | succ f ih =>
    intro i latest
    unfold scanConfigs
    split
    · exact ⟨fun c h => (by cases h), fun hl l h => (by rw [hl] at h; cases h), fun l0 h => h⟩
    · rename_i hgt
      split
      · exact ⟨fun c h => (by cases h), fun hl l h => (by rw [hl] at h; cases h), fun l0 h => h⟩
      · rename_i e he
        have hei : e.index = i := hidx i e he
        split
        · rename_i c hc
          have hci : c.index = i := by rw [config?_index hc]; exact hei
          split
          · -- latest = none: continue with `some c`
            obtain ⟨i1, _, i3⟩ := ih (i - 1) (some c)
            have h1 := i3 c rfl
            refine ⟨fun c' h => ?_, fun _ l h => ?_, fun l0 h => (by cases h)⟩
            · have := i1 c' h; omega
            · rw [h1] at h
              injection h with h
              subst h
              refine ⟨by omega, by omega, fun c' h' => ?_⟩
              have := i1 c' h'; omega
          · rename_i l
            refine ⟨fun c' h => ?_, fun hl => (by cases hl), fun l0 h => h⟩
            injection h with h
            subst h
            omega
        · split
          · exact ⟨fun c h => (by cases h), fun hl l h => (by rw [hl] at h; cases h), fun l0 h => h⟩
          · obtain ⟨i1, i2, i3⟩ := ih (i - 1) latest
            refine ⟨fun c h => ?_, fun hl l h => ?_, i3⟩
            · have := i1 c h; omega
            · obtain ⟨a, b, c⟩ := i2 hl l h
              exact ⟨a, by omega, c⟩

theorem logOf_indexed (d : Durable) (h : ∀ i e, d.log.get? i = some e → e.index = i) :
    ∀ i e, (C10.logOf d).get? i = some e → e.index = i := by
  rcases C10.logOf_cases d with ⟨_, e⟩ | ⟨_, e⟩
  · rw [e]
    intro i x hx
    unfold NLog.get? NLog.reset at hx
    dsimp only at hx
    split at hx
    · simp at hx
    · cases hx
  · rw [e]; exact h

/-- **a restart re-establishes the orderings** from any disk content satisfying `DiskOK`: the restarted node
(`openStorage` + `New` + the restore step of `Serve`) is `Ordered` — with `fsm.index = commitIndex = snapIndex`. -/
theorem restart_ordered (d : Durable) (r : Nat) (sor : Bool) (n : Node) (hd : DiskOK d)
    (h : restart d r sor = some n) : Ordered n := by
  obtain ⟨hfsm, _, hsnap, hlog, hlast, hcfg, _⟩ := C10.restart_fsm d r sor n h
  obtain ⟨_, _, _, hn⟩ := C10.restart_some d r sor n h
  obtain ⟨p1, p2⟩ := C10.restart_log_prev_le_snapshot d r sor hd.durWF
  obtain ⟨q1, _, _⟩ := C10.restart_log_contiguous_with_snapshot d r sor
  obtain ⟨e1, _, e3, e4, _⟩ := C10.restartNode_fields d r sor
  -- ldr and snapResult are the initial ones
  have hldr : n.ldr.removeLTE = 0 ∧ n.snapResult = none := by
    rw [hn]
    split
    · rw [fsmRestore_eq]; exact ⟨rfl, rfl⟩
    · exact ⟨rfl, rfl⟩
  -- fsm.index = commitIndex = snapIndex
  have hfc : n.fsm.index = n.snapIndex ∧ n.commitIndex = n.snapIndex := by
    rw [hsnap]
    split at hfsm
    · rw [hfsm.1, hfsm.2]; exact ⟨rfl, rfl⟩
    · rename_i h0
      rw [hfsm.1, hfsm.2]
      have : (C10.snapOf d).index = 0 := by omega
      rw [this]; exact ⟨rfl, rfl⟩
  have hsn : n.snapIndex = (restartNode d r sor).snapIndex := by rw [hsnap, e1]
  -- the segment list
  have hsegs : C09.SegsOK (restartNode d r sor).log := by
    rw [e3]
    have hl : C09.SegsOK (C10.logOf d) := by
      rcases C10.logOf_cases d with ⟨_, e⟩ | ⟨_, e⟩ <;> rw [e]
      · exact segsOK_reset _
      · exact hd.segs
    exact segsOK_of_same hl rfl rfl rfl
  -- the configurations
  have hscan := scanConfigs_index (C10.logOf d) (logOf_indexed d hd.indexed) (C10.snapOf d).index
    (C10.lastIdxOf d + 1) (C10.lastIdxOf d) none
  have hli : (restartNode d r sor).lastLogIndex = C10.lastIdxOf d := rfl
  have hsl : (C10.snapOf d).index ≤ C10.lastIdxOf d := by rw [← hli, ← e1]; exact q1
  have hcfgs : (restartNode d r sor).configs.committed.index ≤ (restartNode d r sor).configs.latest.index ∧
      (restartNode d r sor).configs.latest.index ≤ C10.lastIdxOf d := by
    rw [C10.restartNode_configs]
    dsimp only
    obtain ⟨s1, s2, _⟩ := hscan
    have hlab := hd.label
    cases hl : (scanConfigs (C10.logOf d) (C10.snapOf d).index (C10.lastIdxOf d + 1) (C10.lastIdxOf d) none).1 with
    | none =>
      dsimp only [Option.getD]
      exact ⟨Nat.le_refl _, by omega⟩
    | some l =>
      obtain ⟨a, b, c⟩ := s2 rfl l hl
      dsimp only [Option.getD]
      refine ⟨?_, b⟩
      cases hc : (scanConfigs (C10.logOf d) (C10.snapOf d).index (C10.lastIdxOf d + 1) (C10.lastIdxOf d) none).2.1 with
      | none => dsimp only; omega
      | some c' => dsimp only; have := c c' hc; omega
  refine ⟨⟨?_, ?_, ?_, ?_, ?_, ?_, ?_, ?_, ?_⟩, ?_⟩
  · rw [hlast, hlog]; exact p2
  · rw [hlog, hsn]; exact p1
  · rw [hfc.1]; exact Nat.le_refl _
  · rw [hfc.1, hfc.2]; exact Nat.le_refl _
  · rw [hcfg]; exact hcfgs.1
  · rw [hcfg, hlast, hli]; exact hcfgs.2
  · rw [hlog]; exact hsegs
  · rw [hldr.1]; exact Nat.zero_le _
  · intro rs hrs; rw [hldr.2] at hrs; cases hrs
  · rw [hfc.2, hlast, hsn]; exact q1

/-! ### examples: the hypotheses are satisfiable -/

/-- a follower holding entries 1..4 (1 is the bootstrap configuration), snapshot at 1, applied 2, committed 3 -/
def exNode : Node :=
  { nid := 1, cid := 7, term := 1, durTerm := 1,
    log := { prev := 1, entries := [{ index := 2, term := 1, typ := etNop }, { index := 3, term := 1, typ := etUpdate, data := "a" },
                                     { index := 4, term := 1, typ := etUpdate, data := "b" }],
             flushed := 4, segs := [1] },
    lastLogIndex := 4, lastLogTerm := 1, snapIndex := 1, snapTerm := 1,
    snapsDisk := [{ index := 1, term := 1 }],
    configs := { committed := { nodes := [{ id := 1, addr := "a:1", voter := true }, { id := 2, addr := "b:1", voter := true }], index := 1, term := 1 },
                 latest := { nodes := [{ id := 1, addr := "a:1", voter := true }, { id := 2, addr := "b:1", voter := true }], index := 1, term := 1 } },
    commitIndex := 3, fsm := { index := 2, term := 1 } }

theorem exNode_ordered : Ordered exNode :=
  ⟨⟨by decide, by decide, by decide, by decide, by decide, by decide, ⟨by decide, by decide, by decide⟩, by decide,
    fun rs h => by cases h⟩, by decide⟩

/-- an append request from the leader (node 2): entry 4 again (already there), a conflicting entry 5 is not
involved — 5 and 6 are new; the leader has committed up to 5 -/
def exAppend : AppendReq :=
  { term := 1, src := 2, prevLogIndex := 3, prevLogTerm := 1, ldrCommitIndex := 6,
    entries := [{ index := 4, term := 1, typ := etUpdate, data := "b" }, { index := 5, term := 1, typ := etUpdate, data := "c" },
                { index := 6, term := 1, typ := etNop }] }

/-- EXAMPLE (non-vacuity of `ordered_step` and the monotonicity theorems): the hypotheses hold for `exNode` and
the append request above, and the step moves every index: applied 2 → 6, committed 3 → 6, last 4 → 6. -/
example :
    Ordered exNode ∧ ReqOk exNode (.append exAppend) ∧ (exNode.step (.append exAppend) [] []).panicked = none ∧
    (exNode.step (.append exAppend) [] []).fsm.index = 6 ∧ (exNode.step (.append exAppend) [] []).commitIndex = 6 ∧
    (exNode.step (.append exAppend) [] []).lastLogIndex = 6 :=
  ⟨exNode_ordered, by decide, by decide, by decide, by decide, by decide⟩

/-- EXAMPLE: a request that truncates an uncommitted suffix (entry 4 conflicts, above the commit index 3) is
acceptable too; the log is cut back and extended. -/
example :
    let q : AppendReq := { term := 2, src := 2, prevLogIndex := 3, prevLogTerm := 1,
                           entries := [{ index := 4, term := 2, typ := etNop }] }
    ReqOk exNode (.append q) ∧ (exNode.step (.append q) [] []).panicked = none ∧
    (exNode.step (.append q) [] []).lastLogIndex = 4 ∧ (exNode.step (.append q) [] []).lastLogTerm = 2 := by
  refine ⟨by decide, by decide, by decide, by decide⟩

/-- EXAMPLE (`ordered_run`): the append request, then a user snapshot (request, the snapshot goroutine, its
completion): the run is acceptable, and the snapshot index moves 1 → 6 (= last applied). -/
example :
    let ops : List (Op × List Nat × List (List Nat)) :=
      [(.append exAppend, [], []), (.takeSnapshot 1 0, [], []), (.snapRun, [], []), (.snapTaken, [], [])]
    RunOk exNode ops ∧ (run exNode ops).snapIndex = 6 ∧ (run exNode ops).fsm.index = 6 ∧
    (run exNode ops).log.prev = 1 := by
  refine ⟨⟨by decide, by decide, ⟨trivial, by decide, ⟨trivial, by decide, ⟨trivial, by decide, trivial⟩⟩⟩⟩,
    by decide, by decide, by decide⟩

/-- EXAMPLE (`restart_ordered`): a disk with a snapshot at 2 and entries 3, 4 (4 a configuration) satisfies
`DiskOK`, and the restart succeeds. -/
example : DiskOK C10.exDisk ∧ (restart C10.exDisk 1 true).isSome = true := by
  refine ⟨⟨by unfold C10.DurWF; decide, ⟨by decide, by decide, by decide⟩, ?_, by decide⟩, by decide⟩
  intro i e h
  have hi : i = 3 ∨ i = 4 := by
    unfold NLog.get? at h
    split at h
    · rename_i hlt
      have hlen := (List.getElem?_eq_some_iff.mp h).1
      have h2 : C10.exDisk.log.prev = 2 := rfl
      have h3 : C10.exDisk.log.entries.length = 2 := rfl
      omega
    · cases h
  rcases hi with rfl | rfl
  · have : C10.exDisk.log.get? 3 = some { index := 3, typ := etNop } := by decide
    rw [this] at h; injection h with h; rw [← h]
  · have : (C10.exDisk.log.get? 4).map (·.index) = some 4 := by decide
    rw [h] at this; simpa using this

/-! ### necessity of every clause of `ReqOk`

Each example: an ordered state, a request violating exactly one clause, the step completes (no panic) and the
result is not ordered. -/

/-- a follower with entries 1..4 of term 1, commit index 1 -/
def nec1 : Node :=
  { nid := 1, term := 1, durTerm := 1,
    log := { prev := 0, entries := (List.range 4).map (fun k => { index := k + 1, term := 1, typ := etNop }) },
    lastLogIndex := 4, lastLogTerm := 1, commitIndex := 1, fsm := { index := 1, term := 1 } }

theorem nec1_ordered : Ordered nec1 :=
  ⟨⟨by decide, by decide, by decide, by decide, by decide, by decide, ⟨by decide, by decide, by decide⟩, by decide,
    fun rs h => by cases h⟩, by decide⟩

/-- NECESSITY of clause (1) "consecutive entries": entries 5, 6 (two configurations) followed by a
conflicting entry 4. No entry conflicts at or below the commit index / committed configuration, no `assert`
fires (each append is at `lastLogIndex + 1` at its time) — but the truncation at 4 reverts `latest` to the
configuration of entry 5, which is no longer in the log: `configs.latest.index = 5 > lastLogIndex = 4`.
NOT reachable in a correct cluster: a replication sends a contiguous log view (`ViewAt`). -/
example :
    let q : AppendReq :=
      { term := 1, src := 2, prevLogIndex := 4, prevLogTerm := 1,
        entries := [{ index := 5, term := 1, typ := etConfig, cfg := some {} },
                    { index := 6, term := 1, typ := etConfig, cfg := some {} }, { index := 4, term := 2, typ := etNop }] }
    let s' := nec1.step (.append q) [] []
    Ordered nec1 ∧ chainB q.prevLogIndex q.entries = false ∧
    (∀ ne ∈ q.entries, ne.index ≤ nec1.lastLogIndex → nec1.snapIndex < ne.index →
      nec1.entryTerm? ne.index ≠ some ne.term → nec1.commitIndex < ne.index ∧ nec1.configs.committed.index < ne.index) ∧
    s'.panicked = none ∧ s'.configs.latest.index = 5 ∧ s'.lastLogIndex = 4 ∧ ¬ Ordered s' := by
  refine ⟨nec1_ordered, by decide, by decide, by decide, by decide, by decide, fun h => absurd h.latest_le_last (by decide)⟩

/-- NECESSITY of clause (2) "no conflict at or below the commit index": commit index 3, a (consecutive)
request whose entry 2 has another term. The follower truncates its committed entries 2, 3:
`commitIndex = 3 > lastLogIndex = 2`. NOT reachable in a correct cluster: a committed entry is in the log of
every later leader (leader completeness, C02/C03) — the code relies on the protocol here, it does not check. -/
example :
    let s : Node := { nec1 with commitIndex := 3, fsm := { index := 3, term := 1 } }
    let q : AppendReq := { term := 1, src := 2, prevLogIndex := 1, prevLogTerm := 1,
                           entries := [{ index := 2, term := 2, typ := etNop }] }
    let s' := s.step (.append q) [] []
    chainB q.prevLogIndex q.entries = true ∧ ¬ ReqOk s (.append q) ∧
    s'.panicked = none ∧ s'.commitIndex = 3 ∧ s'.lastLogIndex = 2 ∧ ¬ Ordered s' := by
  refine ⟨by decide, by decide, by decide, by decide, by decide, fun h => absurd h.commit_le_last (by decide)⟩

/-- the state of the previous example is ordered -/
example : Ordered { nec1 with commitIndex := 3, fsm := { index := 3, term := 1 } } :=
  ⟨⟨by decide, by decide, by decide, by decide, by decide, by decide, ⟨by decide, by decide, by decide⟩, by decide,
    fun rs h => by cases h⟩, by decide⟩

/-- a follower whose entries 5 and 6 are configurations: `committed` = entry 5, `latest` = entry 6, commit index 3
(what a follower holds after receiving both in one request with `ldrCommitIndex = 5`) -/
def nec3 : Node :=
  { nid := 1, term := 1, durTerm := 1,
    log := { prev := 0, entries := (List.range 4).map (fun k => { index := k + 1, term := 1, typ := etNop }) ++
               [{ index := 5, term := 1, typ := etConfig, cfg := some {} }, { index := 6, term := 1, typ := etConfig, cfg := some {} }] },
    lastLogIndex := 6, lastLogTerm := 1, commitIndex := 3, fsm := { index := 3, term := 1 },
    configs := { committed := { index := 5, term := 1 }, latest := { index := 6, term := 1 } } }

theorem nec3_ordered : Ordered nec3 :=
  ⟨⟨by decide, by decide, by decide, by decide, by decide, by decide, ⟨by decide, by decide, by decide⟩, by decide,
    fun rs h => by cases h⟩, by decide⟩

/-- NECESSITY of clause (3) "no conflict at or below `configs.committed.index`": entry 4 (above the commit index
3) conflicts; the truncation reverts `latest` to `committed` = entry 5, which has just been deleted:
`configs.latest.index = 5 > lastLogIndex = 4`. NOT reachable in a correct cluster: a leader appends a
configuration only when the previous one is committed (`canChangeConfig`), so `configs.committed` of a follower
is committed cluster-wide even when the follower's own commit index is behind it. -/
example :
    let q : AppendReq := { term := 2, src := 2, prevLogIndex := 3, prevLogTerm := 1,
                           entries := [{ index := 4, term := 2, typ := etNop }] }
    let s' := nec3.step (.append q) [] []
    Ordered nec3 ∧ chainB q.prevLogIndex q.entries = true ∧ nec3.commitIndex < 4 ∧ ¬ ReqOk nec3 (.append q) ∧
    s'.panicked = none ∧ s'.configs.latest.index = 5 ∧ s'.lastLogIndex = 4 ∧ ¬ Ordered s' := by
  refine ⟨nec3_ordered, by decide, by decide, by decide, by decide, by decide, by decide,
    fun h => absurd h.latest_le_last (by decide)⟩

/-- NECESSITY of `InstallOk`: a snapshot at index 5 labelled with a configuration of index 9. The installation
completes; `configs.latest.index = 9 > lastLogIndex = 5`, and the next configuration entry the leader sends
(index 6) makes `configs.committed.index = 9 > configs.latest.index = 6`. NOT reachable in a correct cluster:
`snapRun` labels a snapshot with the last configuration the FSM applied (index `≤ fsm.index`). -/
example :
    let q : InstallReq := { term := 1, src := 2, lastIndex := 5, lastTerm := 1, lastConfig := { index := 9, term := 1 }, data := ["x"] }
    let s' := nec1.step (.install q) [] []
    let a : AppendReq := { term := 1, src := 2, prevLogIndex := 5, prevLogTerm := 1,
                           entries := [{ index := 6, term := 1, typ := etConfig, cfg := some {} }] }
    let s'' := s'.step (.append a) [] []
    ¬ ReqOk nec1 (.install q) ∧ s'.panicked = none ∧ s'.configs.latest.index = 9 ∧ s'.lastLogIndex = 5 ∧ ¬ Ordered s' ∧
    ReqOk s' (.append a) ∧ s''.panicked = none ∧ s''.configs.committed.index = 9 ∧ s''.configs.latest.index = 6 := by
  refine ⟨by decide, by decide, by decide, by decide, fun h => absurd h.latest_le_last (by decide),
    by decide, by decide, by decide, by decide⟩

/-- NO hypothesis is needed on replication updates: match indexes beyond the leader's log from a quorum make
`leader.onMajorityCommit` raise the commit index beyond the log (`setCommitIndexL`), and the `ViewAt` of the
`applyCommittedL` it always calls next panics (the Go process dies) — such a step does not complete, so
`ordered_step` has nothing to say about it (this is the reason for the flag `b` of `Order.Inv`). -/
theorem commit_beyond_log_panics (s : Node) (items : List QItem) (h : s.commitIndex > s.log.last)
    (hp : s.panicked = none) : (s.fsmApply items).panicked = some "logpanic.ViewAt" := by
  rw [fsmApply_unfold, if_pos h]
  unfold Node.panic
  rw [if_pos (by rw [hp]; rfl)]

/-- EXAMPLE: a leader whose log ends at 1, told to commit 9 -/
example :
    let s : Node := { nid := 1, term := 1, role := .leader, leader := 1,
                      log := { prev := 0, entries := [{ index := 1, term := 1, typ := etNop }] }, lastLogIndex := 1 }
    ((s.setCommitIndexR 9).1.applyCommittedL).commitIndex = 9 ∧
    ((s.setCommitIndexR 9).1.applyCommittedL).panicked = some "logpanic.ViewAt" := by
  refine ⟨by decide, by decide⟩

end C19Order
end Raft

#print axioms Raft.C19Order.ordered_step
#print axioms Raft.C19Order.applied_monotone
#print axioms Raft.C19Order.snapshot_index_monotone
#print axioms Raft.C19Order.ordered_chain
#print axioms Raft.C19Order.ordered_run
#print axioms Raft.C19Order.scanConfigs_index
#print axioms Raft.C19Order.restart_ordered
#print axioms Raft.C19Order.commit_beyond_log_panics
#print axioms Raft.C19Order.exNode_ordered
#print axioms Raft.C19Order.nec1_ordered
#print axioms Raft.C19Order.nec3_ordered
#print axioms Raft.Order.block
#print axioms Raft.Order.inv_step
