/-
C19 — A node's observable state is ordered and never regresses (node-local).

Proved for EVERY operation and EVERY input (no assumption on the requests): the commit index and the
term never decrease over a step. The remaining clauses (last-applied and snapshot index monotone, the
orderings between the reported indexes, "latest = newest configuration entry") hold only for requests a
correct cluster can send; they are evaluated on every real step by the nodediff monitor (`monitor_checks`)
and are not proved — see `missing` in the evidence.
-/
import RaftVerif.Props.C05

namespace Raft
namespace C19
open Node

/-- the commit index did not go below the one the step started with -/
def CommitMono (s₀ s : Node) : Prop := s₀.commitIndex ≤ s.commitIndex

theorem cm_congr {s₀ s s' : Node} (h : CommitMono s₀ s) (e : s'.commitIndex = s.commitIndex) : CommitMono s₀ s' := by
  unfold CommitMono at *; rw [e]; exact h

theorem setCommitIndexR_commitIndex (s : Node) (i : Nat) : (s.setCommitIndexR i).1.commitIndex = i := by
  unfold Node.setCommitIndexR
  split
  · show (s.withCommitIndex i).commitConfig.stepDownIfNotVoter.closeIfRemoved.commitIndex = i
    unfold Node.closeIfRemoved Node.stepDownIfNotVoter Node.commitConfig Node.doClose
    dsimp only
    repeat' split
    all_goals rfl
  · rfl

theorem closed (s₀ : Node) : StepClosed (CommitMono s₀) where
  panic := fun s site h => cm_congr h (by unfold Node.panic; split <;> rfl)
  reply := fun s t r h => cm_congr h (by unfold Node.reply; split <;> rfl)
  point := fun s n h => cm_congr h rfl
  ldr := fun s l h => cm_congr h rfl
  append := fun s e r h => cm_congr h rfl
  commitN := fun s n h => cm_congr h rfl
  fsm := fun s f h => cm_congr h rfl
  changeConfigR := fun s c h => cm_congr h (by unfold Node.changeConfigR; dsimp only; split <;> rfl)
  setCommitIndexR := fun s i h hi => by
    unfold CommitMono at *; rw [setCommitIndexR_commitIndex]; omega
  popOrder := fun s h => cm_congr h rfl
  begin := fun s ra ord h => cm_congr h rfl
  rpcReply := fun s r h => cm_congr h rfl
  ret := fun s r h => cm_congr h rfl
  setRole := fun s r h => cm_congr h rfl
  setLeader := fun s l h => cm_congr h rfl
  doClose := fun s r h => cm_congr h (by unfold Node.doClose; split <;> rfl)
  setTerm := fun s t h => cm_congr h (by
    unfold Node.setTerm Node.storeTermVote Node.panic Node.point; repeat' split
    all_goals rfl)
  voteNewTerm := fun s t c h _ => cm_congr h (by
    unfold Node.setVotedFor Node.storeTermVote Node.panic Node.point; repeat' split
    all_goals rfl)
  voteGrant := fun s c h _ => cm_congr h (by
    unfold Node.setVotedFor Node.storeTermVote Node.panic Node.point; repeat' split
    all_goals rfl)
  votesNeeded := fun s v h => cm_congr h rfl
  candTransfer := fun s v h => cm_congr h rfl
  removeGTE := fun s i pt h => cm_congr h rfl
  removeLTE := fun s i h => cm_congr h rfl
  clearLog := fun s h => cm_congr h rfl
  revertConfig := fun s h => cm_congr h rfl
  commitConfig := fun s h => cm_congr h (by unfold Node.commitConfig; dsimp only; split <;> rfl)
  publishSnapshot := fun s f h => cm_congr h rfl
  installCommit := fun s h hgt => by
    unfold CommitMono at *
    show s₀.commitIndex ≤ s.snapIndex
    omega
  snapPending := fun s v h => cm_congr h rfl
  snapResult := fun s v h => cm_congr h rfl
  bootstrapLast := fun s i t h => cm_congr h rfl

/-- **the commit index never decreases**: for every operation a node can handle — any RPC with any
coordinates (stale, duplicated, conflicting, from any term), any task, timeout, replication update,
snapshot event — in every state. -/
theorem commit_never_decreases (s : Node) (op : Op) (rollAt : List Nat) (orders : List (List Nat)) :
    s.commitIndex ≤ (s.step op rollAt orders).commitIndex :=
  (closed s).step_inv s op rollAt orders (Nat.le_refl _)

/-- **the term never decreases** (and memory = disk), for every operation and input. -/
theorem term_never_decreases (s : Node) (op : Op) (rollAt : List Nat) (orders : List (List Nat))
    (h : C05.VoteWF s) : s.term ≤ (s.step op rollAt orders).term :=
  (C05.step_vote_stable s op rollAt orders h).1.1

/-- over any sequence of operations -/
theorem commit_never_decreases_run (s : Node) (ops : List (Op × List Nat × List (List Nat))) :
    s.commitIndex ≤ (ops.foldl (fun s o => s.step o.1 o.2.1 o.2.2) s).commitIndex := by
  induction ops generalizing s with
  | nil => exact Nat.le_refl _
  | cons o os ih => exact Nat.le_trans (commit_never_decreases s o.1 o.2.1 o.2.2) (ih _)

/-- a follower only commits what its log holds: `canCommit` is evaluated for indexes it just matched or stored -/
theorem follower_commit_guard (s : Node) (q : AppendReq) (index term : Nat) (h : s.canCommit q index term = true) :
    q.ldrCommitIndex ≥ index ∧ term = q.term ∧ index > s.commitIndex := by
  unfold Node.canCommit at h
  simp only [Bool.and_eq_true, decide_eq_true_eq, beq_iff_eq] at h
  exact ⟨h.1.1, h.1.2, h.2⟩

/-- a stale or duplicated install-snapshot request (not ahead of the commit index) changes nothing but the reply -/
theorem stale_install_ignored (s : Node) (q : InstallReq) (ht : q.term = s.term) (hf : s.role = .follower)
    (hl : s.leader = q.src) (hstale : q.lastIndex ≤ s.commitIndex) :
    s.onInstallSnap q = s.ret rSuccess := by
  unfold Node.onInstallSnap
  rw [if_neg (by omega)]
  have e0 : (if q.term > s.term then (s.setTerm q.term).setRole Role.follower else s) = s := if_neg (by omega)
  have e : (s.setRole Role.follower).setLeader q.src = s := by
    cases s; simp_all [Node.setRole, Node.setLeader]
  simp only [e0, e]
  rw [if_pos hstale]

end C19
end Raft

#print axioms Raft.C19.commit_never_decreases
#print axioms Raft.C19.commit_never_decreases_run
#print axioms Raft.C19.term_never_decreases
#print axioms Raft.C19.follower_commit_guard
#print axioms Raft.C19.stale_install_ignored
