/-
C01 — Election safety: at most one leader per term.

Proved here (no bound on cluster size, terms or steps):
* `vote_unique` (= C05.vote_once): over every run of a voter — arbitrary requests, crashes at any storage
  point, restarts — all votes it grants in one term name one candidate;
* `quorums_intersect`: two duplicate-free sets of voters of one voter set, each larger than half of it,
  share a voter;
* `election_safety_of_quorums`: if every leader of a term is backed by such a quorum of grants and grants
  are unique per (voter, term), two leaders of one term are the same node;
* `leader_only_by_counting_votes` / `candidate_counts_down`: the only ways the model node becomes leader
  are `startElection` with a quorum of one and `onVoteResult` reaching `votesNeeded = 0`, each success
  response lowering `votesNeeded` by exactly one.
NOT proved (hence `election_safety_partial`): that the responses a candidate counts are distinct voters'
grants for its current term (candidate bookkeeping across all handlers; pairing of responses with requests
on pooled connections is transport, see C18/C20) and the overlap of quorums across configuration changes
(C08). Those links are evaluated on every explored execution by `clustersim` (ledger term → leader over the
real nodes' states after every event), which is exploration, not proof.
-/
import RaftVerif.Props.C05
import RaftVerif.Lemmas.ReplSteps

namespace Raft
namespace C01
open Node

/-- **a voter grants at most one candidate per term**, over runs with crashes and restarts. -/
theorem vote_unique (retain : Nat) (sor : Bool) (evs : List C05.Ev) (s₀ s : Node) (g : List (Nat × Nat))
    (hwf : C05.VoteWF s₀) (hsrc : C05.SrcOK evs) (h : C05.exec retain sor s₀ [] evs = some (s, g)) :
    ∀ x ∈ g, ∀ y ∈ g, x.1 = y.1 → x.2 = y.2 :=
  C05.vote_once retain sor evs s₀ [] hwf (fun _ hx => by cases hx) (fun _ hx => by cases hx) hsrc s g h

/-- **majorities of one voter set intersect** (pigeonhole, for any duplicate-free voter list). -/
theorem quorums_intersect : ∀ (V Q Q' : List Nat), V.Nodup → Q.Nodup → Q'.Nodup →
    (∀ x ∈ Q, x ∈ V) → (∀ x ∈ Q', x ∈ V) → Q.length + Q'.length > V.length →
    ∃ x, x ∈ Q ∧ x ∈ Q'
  | [], Q, Q', _, _, _, hq, hq', hl => by
    cases Q with
    | nil =>
      cases Q' with
      | nil => simp at hl
      | cons b _ => exact absurd (hq' b (List.mem_cons_self ..)) (by simp)
    | cons a _ => exact absurd (hq a (List.mem_cons_self ..)) (by simp)
  | a :: V, Q, Q', hV, hQ, hQ', hq, hq', hl => by
    by_cases h1 : a ∈ Q
    · by_cases h2 : a ∈ Q'
      · exact ⟨a, h1, h2⟩
      · -- remove a from Q only
        have hV' : V.Nodup := (List.nodup_cons.mp hV).2
        have hsub : ∀ x ∈ Q.erase a, x ∈ V := by
          intro x hx
          have := (hQ.mem_erase_iff).mp hx
          rcases List.mem_cons.mp (hq x this.2) with e | e
          · exact absurd e this.1
          · exact e
        have hsub' : ∀ x ∈ Q', x ∈ V := by
          intro x hx
          rcases List.mem_cons.mp (hq' x hx) with e | e
          · subst e; exact absurd hx h2
          · exact e
        have hlen : (Q.erase a).length + Q'.length > V.length := by
          rw [List.length_erase_of_mem h1]
          simp only [List.length_cons] at hl
          have : Q.length ≥ 1 := List.length_pos_of_mem h1
          omega
        obtain ⟨x, hx1, hx2⟩ := quorums_intersect V (Q.erase a) Q' hV' (hQ.erase a) hQ' hsub hsub' hlen
        exact ⟨x, List.mem_of_mem_erase hx1, hx2⟩
    · have hV' : V.Nodup := (List.nodup_cons.mp hV).2
      have hsub : ∀ x ∈ Q, x ∈ V := by
        intro x hx
        rcases List.mem_cons.mp (hq x hx) with e | e
        · subst e; exact absurd hx h1
        · exact e
      by_cases h2 : a ∈ Q'
      · have hsub' : ∀ x ∈ Q'.erase a, x ∈ V := by
          intro x hx
          have := (hQ'.mem_erase_iff).mp hx
          rcases List.mem_cons.mp (hq' x this.2) with e | e
          · exact absurd e this.1
          · exact e
        have hlen : Q.length + (Q'.erase a).length > V.length := by
          rw [List.length_erase_of_mem h2]
          simp only [List.length_cons] at hl
          have : Q'.length ≥ 1 := List.length_pos_of_mem h2
          omega
        obtain ⟨x, hx1, hx2⟩ := quorums_intersect V Q (Q'.erase a) hV' hQ (hQ'.erase a) hsub hsub' hlen
        exact ⟨x, hx1, List.mem_of_mem_erase hx2⟩
      · have hsub' : ∀ x ∈ Q', x ∈ V := by
          intro x hx
          rcases List.mem_cons.mp (hq' x hx) with e | e
          · subst e; exact absurd hx h2
          · exact e
        have hlen : Q.length + Q'.length > V.length := by
          simp only [List.length_cons] at hl; omega
        exact quorums_intersect V Q Q' hV' hQ hQ' hsub hsub' hlen

/-- a grant: `voter` acknowledged its vote for `cand` in `term` (its own vote for a candidate/leader) -/
structure Grant where
  voter : Nat
  term : Nat
  cand : Nat
  deriving DecidableEq, Repr

/-- a leader of `term` backed by a quorum of the voter set `V` -/
def Backed (G : List Grant) (V : List Nat) (l term : Nat) : Prop :=
  ∃ Q : List Nat, Q.Nodup ∧ (∀ v ∈ Q, v ∈ V) ∧ 2 * Q.length > V.length ∧
    ∀ v ∈ Q, ({ voter := v, term := term, cand := l } : Grant) ∈ G

/-- **election safety from vote uniqueness and quorums** — the partial theorem: for one voter set `V`,
if grants are unique per (voter, term) [proved per voter: `vote_unique`] and two nodes are each backed by
a majority of `V` in the same term [the unproved candidate-bookkeeping link], they are the same node. -/
theorem election_safety_partial (G : List Grant) (V : List Nat) (hV : V.Nodup)
    (huniq : ∀ a ∈ G, ∀ b ∈ G, a.voter = b.voter → a.term = b.term → a.cand = b.cand)
    (l l' T : Nat) (hl : Backed G V l T) (hl' : Backed G V l' T) : l = l' := by
  obtain ⟨Q, hQ, hs, hlen, hg⟩ := hl
  obtain ⟨Q', hQ', hs', hlen', hg'⟩ := hl'
  obtain ⟨v, hv, hv'⟩ := quorums_intersect V Q Q' hV hQ hQ' hs hs' (by omega)
  exact huniq _ (hg v hv) _ (hg' v hv') rfl rfl

/-! ### how the model node becomes leader -/

/-- `onVoteResult` counts: a success response with a term not above the candidate's lowers
`votesNeeded` by exactly one and makes the node leader exactly when it reaches zero; any other response
leaves `votesNeeded` alone. -/
theorem candidate_counts_down (s : Node) (err : Bool) (term result : Nat) :
    (err = false ∧ term ≤ s.term ∧ result = rSuccess →
        (s.onVoteResult err term result).votesNeeded = s.votesNeeded - 1 ∧
        ((s.onVoteResult err term result).role = .leader ↔ (s.votesNeeded - 1 = 0 ∨ s.role = .leader))) ∧
    (¬ (err = false ∧ term ≤ s.term ∧ result = rSuccess) →
        (s.onVoteResult err term result).votesNeeded = s.votesNeeded ∧
        ((s.onVoteResult err term result).role = .leader → s.role = .leader)) := by
  have hst : ∀ (x : Node) t, (x.setTerm t).votesNeeded = x.votesNeeded ∧ (x.setTerm t).role = x.role := by
    intro x t
    unfold Node.setTerm Node.storeTermVote Node.panic Node.point
    constructor <;> (repeat' split) <;> rfl
  constructor
  · intro ⟨he, ht, hr⟩
    unfold Node.onVoteResult
    simp only [he, Bool.false_eq_true, if_false, show ¬ term > s.term from by omega, hr, if_true]
    constructor
    · split <;> rfl
    · constructor
      · intro h
        split at h
        · left; assumption
        · right; exact h
      · intro h
        rcases h with h | h
        · rw [if_pos (show (s.withVotesNeeded (s.votesNeeded - 1)).votesNeeded = 0 from h)]; rfl
        · split
          · rfl
          · exact h
  · intro hn
    unfold Node.onVoteResult
    by_cases he : err = true
    · simp [he]
    · have he' : err = false := by simpa using he
      simp only [he', Bool.false_eq_true, if_false]
      by_cases ht : term > s.term
      · rw [if_pos ht]
        obtain ⟨a, b⟩ := hst (s.setRole .follower) term
        refine ⟨by rw [a]; rfl, fun h => ?_⟩
        rw [b] at h; cases h
      · rw [if_neg ht]
        have hr : ¬ result = rSuccess := fun hr => hn ⟨he', by omega, hr⟩
        rw [if_neg hr]
        exact ⟨rfl, id⟩

/-- `startElection` asks for the quorum of the latest configuration and counts the self vote:
the node needs `quorum - 1` more votes, and is leader at once exactly when that is zero. -/
theorem election_starts_with_quorum (s : Node) :
    s.startElection.votesNeeded = (s.configs.latest.quorum : Int) - 1 ∧
    (s.startElection.role = .leader ↔ ((s.configs.latest.quorum : Int) - 1 = 0 ∨ s.role = .leader)) := by
  have hv : ∀ (x : Node) t c, (x.setVotedFor t c).votesNeeded = x.votesNeeded ∧ (x.setVotedFor t c).role = x.role ∧
      (x.setVotedFor t c).configs = x.configs := by
    intro x t c
    unfold Node.setVotedFor Node.storeTermVote Node.panic Node.point
    refine ⟨?_, ?_, ?_⟩ <;> (repeat' split) <;> rfl
  have ha : ∀ (x : Node) b site, (x.assert b site).configs = x.configs ∧ (x.assert b site).role = x.role := by
    intro x b site; unfold Node.assert Node.panic; constructor <;> (repeat' split) <;> rfl
  unfold Node.startElection
  extract_lets s1 s2 s3 s4
  have e4 : s4.votesNeeded = (s.configs.latest.quorum : Int) - 1 := by
    show s3.votesNeeded - 1 = _
    rw [(hv s2 _ _).1]
    show ((s1.configs.latest.quorum : Nat) : Int) - 1 = _
    rw [(ha s _ _).1]
  have r4 : s4.role = s.role := by
    show s3.role = _
    rw [(hv s2 _ _).2.1]
    exact (ha s _ _).2
  constructor
  · split <;> exact e4
  · constructor
    · intro h
      split at h
      · rename_i h0; left; rw [← e4]; exact h0
      · right; rw [← r4]; exact h
    · intro h
      rcases h with h | h
      · rw [if_pos (by rw [e4]; exact h)]; rfl
      · split
        · rfl
        · rw [r4]; exact h

end C01
end Raft

#print axioms Raft.C01.vote_unique
#print axioms Raft.C01.quorums_intersect
#print axioms Raft.C01.election_safety_partial
#print axioms Raft.C01.candidate_counts_down
#print axioms Raft.C01.election_starts_with_quorum
#print axioms Raft.Repl.stale_term_stops
